(* Index.v -- executable model of pogreb's on-disk linear-hashing index (index.go, bucket.go,
   iterator.go: fetchItems, compaction.go: promoteRecord) and proofs that it behaves like a finite
   multiset of slots with lookup by (hash, match callback).

   Abstraction: a chain owns its buckets.  The physical offsets of overflow buckets and the free
   list of overflow buckets are not modelled; a bucket is the list of its slots before the first
   empty one (the Go code keeps buckets dense: bucket.del shifts the later slots left), a chain is
   the list of its buckets in next-pointer order (the head bucket lives in the main file).

   Not modelled: the MaxKeys guard of index.put (errFull), I/O errors, wrap-around of the uint32
   counters (under PInv numKeys-- never underflows).

   Name clash in the specification: [px_split] is the record field (splitBucketIdx); the function
   modelling index.split is called [px_dosplit].

   Main results (arbitrary split policy [grow], arbitrary match callback):
     PInv_empty, px_get_some, px_get_none, px_put_spec (+ px_put_old_is_get, px_put_count),
     px_split_spec, px_del_spec (+ px_del_old_is_get), px_repoint_some, px_repoint_none,
     px_iter_all, px_split_moves_forward, px_split_dest, px_split_dense, px_split_slot_forward,
     px_put_factor, px_put_other_chains, px_del_other_chains, px_repoint_other_chains,
     pinned_put_refuted (the old findInsertionBucket violates the put specification). *)
From Coq Require Import ZArith Lia ZifyN ZifyNat ZifyBool Permutation.
From Pogreb Require Import Base.
Ltac Zify.zify_post_hook ::= Z.div_mod_to_equations.

(* ================================================================================================ *)
(** * Small list helpers *)

Lemma nlenE {A} (l : list A) : nlen l = N.of_nat (length l).
Proof.
  induction l as [|x l IH]; [reflexivity|].
  cbn [nlen length]. rewrite IH, Nat2N.inj_succ. reflexivity.
Qed.

Lemma nlen_appE {A} (a b : list A) : nlen (a ++ b) = nlen a + nlen b.
Proof. rewrite !nlenE, app_length. lia. Qed.

Lemma nlen_consE {A} (x : A) l : nlen (x :: l) = nlen l + 1.
Proof. cbn [nlen]. lia. Qed.

Lemma nlen_perm {A} (a b : list A) : Permutation a b -> nlen a = nlen b.
Proof. intros H. rewrite !nlenE. f_equal. apply Permutation_length. exact H. Qed.

(* replace the n-th element (no change if n is out of range) *)
Fixpoint lupd {A} (n : nat) (x : A) (l : list A) {struct l} : list A :=
  match l with
  | [] => []
  | y :: l' => match n with O => x :: l' | S n' => y :: lupd n' x l' end
  end.

Lemma lupd_length {A} n (x : A) l : length (lupd n x l) = length l.
Proof.
  revert n. induction l as [|y l IH]; intros n; [reflexivity|].
  destruct n as [|n]; cbn [lupd length]; [reflexivity|]. rewrite IH. reflexivity.
Qed.

Lemma lupd_app_exact {A} (l1 : list A) x y l2 : lupd (length l1) x (l1 ++ y :: l2) = l1 ++ x :: l2.
Proof.
  induction l1 as [|a l1 IH]; cbn [length app lupd]; [reflexivity|]. rewrite IH. reflexivity.
Qed.

Lemma nth_lupd_other {A} n m (x d : A) l : n <> m -> nth m (lupd n x l) d = nth m l d.
Proof.
  revert n m. induction l as [|y l IH]; intros n m H; [reflexivity|].
  destruct n as [|n]; destruct m as [|m]; cbn [lupd nth]; try reflexivity; try congruence.
  apply IH. congruence.
Qed.

Lemma nth_app_exact {A} (l1 : list A) x l2 d : nth (length l1) (l1 ++ x :: l2) d = x.
Proof. induction l1 as [|a l1 IH]; cbn [length app nth]; [reflexivity|exact IH]. Qed.

Lemma find_app {A} (f : A -> bool) l1 l2 :
  find f (l1 ++ l2) = match find f l1 with Some s => Some s | None => find f l2 end.
Proof.
  induction l1 as [|a l1 IH]; cbn [app find]; [reflexivity|].
  destruct (f a); [reflexivity|exact IH].
Qed.

Lemma find_mid {A} (f : A -> bool) l1 x l2 :
  find f l1 = None -> f x = true -> find f (l1 ++ x :: l2) = Some x.
Proof. intros H1 H2. rewrite find_app, H1. cbn [find]. rewrite H2. reflexivity. Qed.

Lemma filter_partition_perm {A} (f : A -> bool) l :
  Permutation (filter f l ++ filter (fun x => negb (f x)) l) l.
Proof.
  induction l as [|a l IH]; cbn [filter app]; [constructor|].
  destruct (f a); cbn [negb app].
  - constructor. exact IH.
  - symmetry. apply Permutation_cons_app. symmetry. exact IH.
Qed.

Lemma map_nth_seq {A} (l : list A) d : map (fun i => nth i l d) (seq 0 (length l)) = l.
Proof.
  induction l as [|a l IH]; [reflexivity|].
  cbn [length seq map nth]. f_equal.
  rewrite <- seq_shift, map_map. exact IH.
Qed.

(* ================================================================================================ *)
(** * index.bucketIndex and the split pointer *)

Definition bucket_index (level split h : N) : N :=
  let b := N.land h (N.ones level) in
  if b <? split then N.land h (N.ones (level + 1)) else b.

(* index.split: splitBucketIdx++; if splitBucketIdx == 1<<level { level++; splitBucketIdx = 0 } *)
Definition advance (level split : N) : N * N :=
  if split + 1 =? 2 ^ level then (level + 1, 0) else (level, split + 1).

Lemma mod_double h L : h mod 2 ^ (L + 1) = h mod 2 ^ L \/ h mod 2 ^ (L + 1) = h mod 2 ^ L + 2 ^ L.
Proof.
  rewrite N.pow_add_r, N.pow_1_r.
  assert (Hp : 2 ^ L <> 0) by (apply N.pow_nonzero; lia).
  rewrite N.mod_mul_r by lia.
  assert (Hq : (h / 2 ^ L) mod 2 < 2) by (apply N.mod_upper_bound; lia).
  generalize dependent ((h / 2 ^ L) mod 2). intros q Hq.
  generalize dependent (2 ^ L). intros P _.
  generalize (h mod P). intros r.
  assert (q = 0 \/ q = 1) as [->| ->] by lia; [left|right]; lia.
Qed.

Lemma bucket_index_lt level split h :
  split < 2 ^ level -> bucket_index level split h < 2 ^ level + split.
Proof.
  intros Hs. unfold bucket_index. rewrite !N.land_ones.
  assert (Hm : h mod 2 ^ level < 2 ^ level) by (apply N.mod_upper_bound, N.pow_nonzero; lia).
  destruct (mod_double h level) as [E|E]; rewrite E;
    destruct (N.ltb_spec (h mod 2 ^ level) split); lia.
Qed.

(* Keys outside the split bucket keep their bucket; keys of the split bucket stay or go to the
   new last bucket numBuckets = 2^level + split. *)
Theorem bucket_index_after_split level split h :
  split < 2 ^ level ->
  let '(level', split') := advance level split in
  let old := bucket_index level split h in
  let new := bucket_index level' split' h in
  (old <> split -> new = old) /\
  (old = split -> new = split \/ new = 2 ^ level + split) /\
  split' < 2 ^ level' /\ 2 ^ level' + split' = 2 ^ level + split + 1.
Proof.
  intros Hs. unfold advance, bucket_index.
  assert (Hm : h mod 2 ^ level < 2 ^ level) by (apply N.mod_upper_bound, N.pow_nonzero; lia).
  pose proof (mod_double h level) as E1.
  pose proof (mod_double h (level + 1)) as E2.
  destruct (N.eqb_spec (split + 1) (2 ^ level)) as [Ee|Ee]; rewrite !N.land_ones.
  all: rewrite ?(N.pow_add_r 2 (level + 1) 1), ?(N.pow_add_r 2 level 1), ?N.pow_1_r in *.
  all: revert Hs Hm E1 E2 Ee.
  all: generalize (h mod (2 ^ level * 2 * 2)); generalize (h mod (2 ^ level * 2));
       generalize (h mod 2 ^ level); generalize (2 ^ level).
  all: intros P r r2 r4 Hs Hm E1 E2 Ee.
  all: repeat match goal with |- context [?a <? ?b] => destruct (N.ltb_spec a b) end.
  all: lia.
Qed.

(* ================================================================================================ *)
(** * Buckets and chains *)

Definition cap : nat := 31.                       (* slotsPerBucket *)
Definition bucket := list slot.                   (* the slots before the first empty one *)
Definition chain := list bucket.                  (* head bucket first, then overflow buckets; never [] *)

(* hash != sl.hash -> continue; otherwise matchKey(sl) *)
Definition hit (h : N) (m : slot -> bool) (s : slot) : bool := (sl_h s =? h) && m s.

(* promoteRecord: hash != sl.hash || rec.offset != sl.offset || rec.segmentID != sl.segmentID -> continue *)
Definition rp_hit (h seg off : N) (s : slot) : bool :=
  (sl_h s =? h) && (sl_off s =? off) && (sl_seg s =? seg).
Definition rp_new (nseg noff : N) (s : slot) : slot :=
  {| sl_h := sl_h s; sl_seg := nseg; sl_ks := sl_ks s; sl_vs := sl_vs s; sl_off := noff |}.

(* The scan loop shared by index.get, fetchItems: bucket by bucket, slot by slot. *)
Fixpoint chain_find (f : slot -> bool) (c : chain) : option slot :=
  match c with
  | [] => None
  | b :: c' => match find f b with Some s => Some s | None => chain_find f c' end
  end.

Lemma chain_find_concat f c : chain_find f c = find f (concat c).
Proof.
  induction c as [|b c IH]; [reflexivity|].
  cbn [chain_find concat]. rewrite find_app, IH. reflexivity.
Qed.

Section Subst.
  (* The scan loop shared by findInsertionBucket (match branch), index.delete and promoteRecord:
     at the first slot [s] with [f s], the slot is replaced in its bucket by the slots [g s]
       [g s = [new]]  overwrite in place (slotWriter.insert at slotIdx = i, promoteRecord),
       [g s = []]     bucket.del(i): the later slots of THIS bucket shift left,
     the other buckets of the chain are untouched.  Returns the new bucket/chain and [s]. *)
  Variable f : slot -> bool.
  Variable g : slot -> list slot.

  Fixpoint bucket_subst (b : bucket) : option (bucket * slot) :=
    match b with
    | [] => None
    | s :: b' => if f s then Some (g s ++ b', s)
                 else match bucket_subst b' with
                      | Some (b'', o) => Some (s :: b'', o)
                      | None => None
                      end
    end.

  Fixpoint chain_subst (c : chain) : option (chain * slot) :=
    match c with
    | [] => None
    | b :: c' => match bucket_subst b with
                 | Some (b', o) => Some (b' :: c', o)
                 | None => match chain_subst c' with
                           | Some (c'', o) => Some (b :: c'', o)
                           | None => None
                           end
                 end
    end.

  Lemma bucket_subst_none b : bucket_subst b = None <-> find f b = None.
  Proof.
    induction b as [|s b IH]; cbn [bucket_subst find]; [tauto|].
    destruct (f s); [split; discriminate|].
    destruct (bucket_subst b) as [[b0 o0]|].
    - split; intros H; [discriminate|]. apply IH in H. discriminate.
    - split; intros _; [apply IH|]; reflexivity.
  Qed.

  Lemma bucket_subst_some b b' o : bucket_subst b = Some (b', o) ->
    exists l1 l2, b = l1 ++ o :: l2 /\ b' = l1 ++ g o ++ l2 /\ f o = true /\ find f l1 = None.
  Proof.
    revert b'. induction b as [|s b IH]; intros b' H; cbn [bucket_subst] in H; [discriminate|].
    destruct (f s) eqn:Hs.
    - injection H as <- <-. exists [], b. cbn [app find]. auto.
    - destruct (bucket_subst b) as [[b0 o0]|] eqn:E; [|discriminate].
      injection H as <- <-.
      destruct (IH _ eq_refl) as (l1 & l2 & -> & -> & Hf & Hn).
      exists (s :: l1), l2. cbn [app find]. rewrite Hs. auto.
  Qed.

  Lemma chain_subst_none c : chain_subst c = None <-> find f (concat c) = None.
  Proof.
    induction c as [|b c IH]; cbn [chain_subst concat]; [cbn [find]; tauto|].
    rewrite find_app.
    destruct (bucket_subst b) as [[b0 o0]|] eqn:E.
    - apply bucket_subst_some in E. destruct E as (l1 & l2 & -> & _ & Hf & Hn).
      rewrite (find_mid _ _ _ _ Hn Hf). split; discriminate.
    - apply bucket_subst_none in E. rewrite E.
      destruct (chain_subst c) as [[c0 o0]|].
      + split; intros H; [discriminate|]. apply IH in H. discriminate.
      + split; intros _; [apply IH|]; reflexivity.
  Qed.

  Lemma chain_subst_some c c' o : chain_subst c = Some (c', o) ->
    exists l1 l2, concat c = l1 ++ o :: l2 /\ concat c' = l1 ++ g o ++ l2 /\
                  f o = true /\ find f l1 = None.
  Proof.
    revert c'. induction c as [|b c IH]; intros c' H; cbn [chain_subst] in H; [discriminate|].
    destruct (bucket_subst b) as [[b0 o0]|] eqn:E.
    - injection H as <- <-. apply bucket_subst_some in E.
      destruct E as (l1 & l2 & -> & -> & Hf & Hn).
      exists l1, (l2 ++ concat c). cbn [concat]. rewrite <- !app_assoc. cbn [app]. auto.
    - destruct (chain_subst c) as [[c0 o1]|] eqn:E2; [|discriminate].
      injection H as <- <-.
      destruct (IH _ eq_refl) as (l1 & l2 & Hc & Hc' & Hf & Hn).
      apply bucket_subst_none in E.
      exists (b ++ l1), l2. cbn [concat]. rewrite Hc, Hc', <- !app_assoc.
      rewrite find_app, E. auto.
  Qed.

  Lemma chain_subst_find c c' o : chain_subst c = Some (c', o) -> find f (concat c) = Some o.
  Proof.
    intros H. apply chain_subst_some in H. destruct H as (l1 & l2 & -> & _ & Hf & Hn).
    apply find_mid; assumption.
  Qed.

  Lemma chain_subst_nonnil c c' o : chain_subst c = Some (c', o) -> c' <> [].
  Proof.
    destruct c as [|b c]; cbn [chain_subst]; [discriminate|].
    destruct (bucket_subst b) as [[b0 o0]|].
    - intros H. injection H as <- _. discriminate.
    - destruct (chain_subst c) as [[c0 o1]|]; [|discriminate].
      intros H. injection H as <- _. discriminate.
  Qed.

  Lemma chain_subst_bounded c c' o : (length (g o) <= 1)%nat -> chain_subst c = Some (c', o) ->
    Forall (fun b : bucket => (length b <= cap)%nat) c ->
    Forall (fun b : bucket => (length b <= cap)%nat) c'.
  Proof.
    intros Hg. revert c'. induction c as [|b c IH]; intros c' H Hb; cbn [chain_subst] in H;
      [discriminate|].
    inversion Hb as [|b_ c_ Hb1 Hb2]; subst.
    destruct (bucket_subst b) as [[b0 o0]|] eqn:E.
    - injection H as <- <-. apply bucket_subst_some in E.
      destruct E as (l1 & l2 & -> & -> & _ & _).
      constructor; [|exact Hb2].
      rewrite !app_length in *. cbn [length] in Hb1. lia.
    - destruct (chain_subst c) as [[c0 o1]|] eqn:E2; [|discriminate].
      injection H as <- <-. constructor; [exact Hb1|]. apply IH; [reflexivity|exact Hb2].
  Qed.
End Subst.

(* No matching slot in the chain: the new slot goes to the first bucket with a free slot
   ([free], slotIdx = number of slots of that bucket); if every bucket is full, the slot writer is
   positioned at slotIdx = 31 of the LAST bucket and slotWriter.insert links a new overflow bucket. *)
Fixpoint insert_free (new : slot) (c : chain) : chain :=
  match c with
  | [] => [[new]]
  | b :: c' => if (length b <? cap)%nat then (b ++ [new]) :: c' else b :: insert_free new c'
  end.

(* findInsertionBucket + slotWriter.insert + slotWriter.write on one chain *)
Definition chain_put (f : slot -> bool) (new : slot) (c : chain) : chain * option slot :=
  match chain_subst f (fun _ => [new]) c with
  | Some (c', o) => (c', Some o)
  | None => (insert_free new c, None)
  end.

(* The OLD findInsertionBucket: returns the first empty slot it meets, without looking at the
   later buckets of the chain. *)
Fixpoint chain_put_pinned (f : slot -> bool) (new : slot) (c : chain) : chain * option slot :=
  match c with
  | [] => ([[new]], None)
  | b :: c' => match bucket_subst f (fun _ => [new]) b with
               | Some (b', o) => (b' :: c', Some o)
               | None => if (length b <? cap)%nat then ((b ++ [new]) :: c', None)
                         else let r := chain_put_pinned f new c' in (b :: fst r, snd r)
               end
  end.

(* slotWriter.insert on the chain built so far by the writer: the current bucket is the last one;
   when it holds 31 slots a new overflow bucket is linked behind it. *)
Fixpoint sw_insert (s : slot) (c : chain) : chain :=
  match c with
  | [] => [[s]]
  | b :: c' => match c' with
               | [] => if (length b <? cap)%nat then [b ++ [s]] else [b; [s]]
               | _ :: _ => b :: sw_insert s c'
               end
  end.

(* one iteration of the loop body of index.split; the state is (updatedBucket writer, sw writer) *)
Definition split_step (lv sp ub : N) (st : chain * chain) (s : slot) : chain * chain :=
  if bucket_index lv sp (sl_h s) =? ub then (sw_insert s (fst st), snd st)
  else (fst st, sw_insert s (snd st)).

Lemma insert_free_perm new c : Permutation (concat (insert_free new c)) (new :: concat c).
Proof.
  induction c as [|b c IH]; cbn [insert_free concat app]; [reflexivity|].
  destruct (length b <? cap)%nat; cbn [concat].
  - rewrite <- app_assoc. cbn [app]. symmetry. apply Permutation_middle.
  - rewrite IH. symmetry. apply Permutation_middle.
Qed.

Lemma insert_free_nonnil new c : insert_free new c <> [].
Proof. destruct c as [|b c]; cbn [insert_free]; [|destruct (length b <? cap)%nat]; discriminate. Qed.

Lemma cap_pos : (1 <= cap)%nat.
Proof. unfold cap. lia. Qed.

Lemma insert_free_bounded new c :
  Forall (fun b : bucket => (length b <= cap)%nat) c ->
  Forall (fun b : bucket => (length b <= cap)%nat) (insert_free new c).
Proof.
  induction 1 as [|b c Hb Hc IH]; cbn [insert_free].
  - constructor; [apply cap_pos|constructor].
  - destruct (Nat.ltb_spec (length b) cap); constructor; auto.
    rewrite app_length. cbn [length]. lia.
Qed.

Lemma sw_insert_concat s c : concat (sw_insert s c) = concat c ++ [s].
Proof.
  induction c as [|b c IH]; [reflexivity|].
  cbn [sw_insert]. destruct c as [|b1 c].
  - destruct (length b <? cap)%nat; cbn [concat app]; rewrite ?app_nil_r; [reflexivity|].
    reflexivity.
  - cbn [concat] in *. rewrite IH, app_assoc. reflexivity.
Qed.

Lemma sw_insert_nonnil s c : sw_insert s c <> [].
Proof.
  destruct c as [|b c]; cbn [sw_insert]; [discriminate|].
  destruct c; [destruct (length b <? cap)%nat|]; discriminate.
Qed.

Lemma sw_insert_bounded s c :
  Forall (fun b : bucket => (length b <= cap)%nat) c ->
  Forall (fun b : bucket => (length b <= cap)%nat) (sw_insert s c).
Proof.
  induction 1 as [|b c Hb Hc IH]; cbn [sw_insert].
  - constructor; [apply cap_pos|constructor].
  - destruct c as [|b1 c].
    + destruct (Nat.ltb_spec (length b) cap).
      * constructor; [|constructor]. rewrite app_length. cbn [length]. lia.
      * constructor; [exact Hb|]. constructor; [apply cap_pos|constructor].
    + constructor; [exact Hb|exact IH].
Qed.

(* ================================================================================================ *)
(** * The index *)

Record pindex := { px_level : N; px_split : N; px_nkeys : N; px_chains : list chain }.
(* numBuckets = nlen px_chains *)

Definition px_empty : pindex :=
  {| px_level := 0; px_split := 0; px_nkeys := 0; px_chains := [[[]]] |}.

Definition px_bidx (p : pindex) (h : N) : N := bucket_index (px_level p) (px_split p) h.
Definition px_chain (p : pindex) (n : N) : chain := nth (N.to_nat n) (px_chains p) [].
Definition px_set (p : pindex) (n : N) (c : chain) (nk : N) : pindex :=
  {| px_level := px_level p; px_split := px_split p; px_nkeys := nk;
     px_chains := lupd (N.to_nat n) c (px_chains p) |}.

Definition px_count (p : pindex) : N := px_nkeys p.
Definition px_nbuckets (p : pindex) : N := nlen (px_chains p).
(* ItemIterator.fetchItems *)
Definition px_bucket (p : pindex) (n : N) : list slot := concat (nth (N.to_nat n) (px_chains p) []).

(* index.get *)
Definition px_get (p : pindex) (h : N) (m : slot -> bool) : option slot :=
  chain_find (hit h m) (px_chain p (px_bidx p h)).

(* index.split *)
Definition px_dosplit (p : pindex) : pindex :=
  let ub := px_split p in                                   (* updatedBucketIdx *)
  let adv := advance (px_level p) (px_split p) in           (* pointer advanced FIRST *)
  let st := fold_left (split_step (fst adv) (snd adv) ub) (concat (px_chain p ub)) ([[]], [[]]) in
  {| px_level := fst adv; px_split := snd adv; px_nkeys := px_nkeys p;
     px_chains := lupd (N.to_nat ub) (fst st) (px_chains p) ++ [snd st] |}.

(* index.put up to and including numKeys++ *)
Definition px_put_core (p : pindex) (sl : slot) (m : slot -> bool) : pindex * option slot :=
  let b := px_bidx p (sl_h sl) in
  let r := chain_put (hit (sl_h sl) m) sl (px_chain p b) in
  match snd r with
  | Some o => (px_set p b (fst r) (px_nkeys p), Some o)           (* overwritingExisting *)
  | None => (px_set p b (fst r) (px_nkeys p + 1), None)
  end.

Definition px_put_with (core : pindex -> slot -> (slot -> bool) -> pindex * option slot)
    (grow : N -> N -> bool) (p : pindex) (sl : slot) (m : slot -> bool) : pindex * option slot :=
  let r := core p sl m in
  match snd r with
  | Some o => (fst r, Some o)
  | None => (if grow (px_nkeys (fst r)) (nlen (px_chains (fst r))) then px_dosplit (fst r) else fst r,
             None)
  end.

(* index.put *)
Definition px_put := px_put_with px_put_core.

(* index.put with the old findInsertionBucket *)
Definition px_put_core_pinned (p : pindex) (sl : slot) (m : slot -> bool) : pindex * option slot :=
  let b := px_bidx p (sl_h sl) in
  let r := chain_put_pinned (hit (sl_h sl) m) sl (px_chain p b) in
  match snd r with
  | Some o => (px_set p b (fst r) (px_nkeys p), Some o)
  | None => (px_set p b (fst r) (px_nkeys p + 1), None)
  end.
Definition px_put_pinned := px_put_with px_put_core_pinned.

(* index.delete *)
Definition px_del (p : pindex) (h : N) (m : slot -> bool) : pindex * option slot :=
  let b := px_bidx p h in
  match chain_subst (hit h m) (fun _ => []) (px_chain p b) with
  | Some (c', o) => (px_set p b c' (px_nkeys p - 1), Some o)
  | None => (p, None)
  end.

(* promoteRecord, index part *)
Definition px_repoint (p : pindex) (h seg off nseg noff : N) : option pindex :=
  let b := px_bidx p h in
  match chain_subst (rp_hit h seg off) (fun s => [rp_new nseg noff s]) (px_chain p b) with
  | Some (c', _) => Some (px_set p b c' (px_nkeys p))
  | None => None
  end.

Definition chain_ops : idx_ops pindex :=
  {| ix_empty := px_empty; ix_get := px_get; ix_put := px_put; ix_del := px_del;
     ix_repoint := px_repoint; ix_count := px_count; ix_nbuckets := px_nbuckets;
     ix_bucket := px_bucket |}.

(* ================================================================================================ *)
(** * Examples *)

Definition grow0 (_ _ : N) : bool := false.
(* example states and helpers live in a module so that short names do not leak to importers *)
Module PxEx.
(* hash 7 for every key; the key is identified by sl_ks *)
Definition mk (k : N) : slot := {| sl_h := 7; sl_seg := 0; sl_ks := k; sl_vs := 1; sl_off := 512 + k |}.
Definition mk' (k : N) : slot := {| sl_h := 7; sl_seg := 1; sl_ks := k; sl_vs := 2; sl_off := 9000 + k |}.
Definition is (k : N) (s : slot) : bool := sl_ks s =? k.
Definition put_keys (grow : N -> N -> bool) (p : pindex) (n : nat) : pindex :=
  fold_left (fun p i => fst (px_put grow p (mk (N.of_nat i)) (is (N.of_nat i)))) (seq 1 n) p.

Definition ex40 : pindex := put_keys grow0 px_empty 40.

(* 40 slots with equal hash and no split: one chain, head bucket full, 9 slots in the overflow *)
Example ex40_shape :
  map (map (@length slot)) (px_chains ex40) = [[31; 9]]%nat /\ px_nkeys ex40 = 40 /\
  px_bucket ex40 0 = map mk (map N.of_nat (seq 1 40)) /\
  px_get ex40 7 (is 35) = Some (mk 35) /\ px_get ex40 7 (is 41) = None /\
  px_get ex40 8 (is 35) = None.
Proof. vm_compute. repeat split. Qed.

(* deleting key 3 opens a hole in the head bucket: 30 + 9 slots, later buckets untouched *)
Definition ex40_del : pindex := fst (px_del ex40 7 (is 3)).
Example ex40_del_shape :
  snd (px_del ex40 7 (is 3)) = Some (mk 3) /\
  map (map (@length slot)) (px_chains ex40_del) = [[30; 9]]%nat /\ px_nkeys ex40_del = 39 /\
  px_get ex40_del 7 (is 3) = None /\ px_get ex40_del 7 (is 35) = Some (mk 35).
Proof. vm_compute. repeat split. Qed.

(* re-put of key 35 (it lives in the overflow bucket, the head bucket has a hole): OVERWRITE *)
Example ex40_reput :
  let r := px_put grow0 ex40_del (mk' 35) (is 35) in
  snd r = Some (mk 35) /\
  map (map (@length slot)) (px_chains (fst r)) = [[30; 9]]%nat /\ px_nkeys (fst r) = 39 /\
  filter (is 35) (px_bucket (fst r) 0) = [mk' 35].
Proof. vm_compute. repeat split. Qed.

(* the old findInsertionBucket inserted a duplicate into the hole *)
Example ex40_reput_pinned :
  let r := px_put_pinned grow0 ex40_del (mk' 35) (is 35) in
  snd r = None /\
  map (map (@length slot)) (px_chains (fst r)) = [[31; 9]]%nat /\ px_nkeys (fst r) = 40 /\
  filter (is 35) (px_bucket (fst r) 0) = [mk' 35; mk 35].
Proof. vm_compute. repeat split. Qed.

(* a new key goes into the hole of the head bucket *)
Example ex40_put_new :
  let r := px_put grow0 ex40_del (mk 77) (is 77) in
  snd r = None /\ map (map (@length slot)) (px_chains (fst r)) = [[31; 9]]%nat /\
  nth 30 (px_bucket (fst r) 0) (mk 0) = mk 77.
Proof. vm_compute. repeat split. Qed.

(* splits: slots with hashes 0..39, one per hash, split after every put that makes
   numKeys > numBuckets (a small threshold to see many splits) *)
Definition grow1 (nk nb : N) : bool := nb <? nk.
Definition mkh (h : N) : slot := {| sl_h := h; sl_seg := 0; sl_ks := h; sl_vs := 1; sl_off := 512 + h |}.
Definition ex_split : pindex :=
  fold_left (fun p i => fst (px_put grow1 p (mkh (N.of_nat i)) (is (N.of_nat i)))) (seq 0 12) px_empty.
Example ex_split_shape :
  px_level ex_split = 3 /\ px_split ex_split = 4 /\ px_nkeys ex_split = 12 /\
  map (fun c => map (map sl_h) c) (px_chains ex_split) =
    [[[0]]; [[1]]; [[2]]; [[3]]; [[4]]; [[5]]; [[6]]; [[7]]; [[8]]; [[9]]; [[10]]; [[11]]].
Proof. vm_compute. repeat split. Qed.

(* splitting a 2-bucket overflow chain: 40 slots with hashes 0,1,0,1,..., in bucket 0 of a
   1-bucket index; the split sends the odd hashes to the new last bucket, order preserved, and the
   slot writers regroup the slots from the start of each chain *)
Definition mkalt (i : nat) : slot :=
  {| sl_h := N.of_nat i mod 2; sl_seg := 0; sl_ks := N.of_nat i; sl_vs := 1; sl_off := 512 + N.of_nat i |}.
Definition ex_alt : pindex :=
  fold_left (fun p i => fst (px_put grow0 p (mkalt i) (is (N.of_nat i)))) (seq 0 40) px_empty.
Example ex_alt_split :
  map (map (@length slot)) (px_chains ex_alt) = [[31; 9]]%nat /\ 
  let q := px_dosplit ex_alt in
  (px_level q = 1 /\ px_split q = 0 /\ px_nkeys q = 40 /\ 
   map (map (@length slot)) (px_chains q) = [[20]; [20]]%nat /\ 
   map sl_ks (px_bucket q 0) = map N.of_nat (map (fun i => 2 * i)%nat (seq 0 20)) /\ 
   map sl_ks (px_bucket q 1) = map N.of_nat (map (fun i => 2 * i + 1)%nat (seq 0 20))).
Proof. vm_compute. repeat split. Qed.

(* the load-factor policy of index.put, numKeys/(numBuckets*31) > 0.7, in exact arithmetic (used in
   this example only; every theorem below holds for an arbitrary policy).  40 slots whose hashes
   agree in the low 6 bits: the split at numKeys = 22 moves all of them to the new bucket 1, where
   they then overflow. *)
Definition grow_lf (nk nb : N) : bool := 7 * (31 * nb) <? 10 * nk.
Definition mklow (i : nat) : slot :=
  {| sl_h := 5 + 64 * N.of_nat i; sl_seg := 0; sl_ks := N.of_nat i; sl_vs := 1; sl_off := 512 + N.of_nat i |}.
Definition ex_lf : pindex :=
  fold_left (fun p i => fst (px_put grow_lf p (mklow i) (is (N.of_nat i)))) (seq 0 40) px_empty.
Example ex_lf_shape :
  px_level ex_lf = 1 /\ px_split ex_lf = 0 /\ px_nkeys ex_lf = 40 /\
  map (map (@length slot)) (px_chains ex_lf) = [[0]; [31; 9]]%nat /\
  map sl_ks (px_bucket ex_lf 1) = map N.of_nat (seq 0 40) /\
  px_get ex_lf (5 + 64 * 39) (is 39) = Some (mklow 39).
Proof. vm_compute. repeat split. Qed.

End PxEx.

(* ================================================================================================ *)
(** * The invariant *)

Definition all_slots (p : pindex) : list slot := concat (map (@concat slot) (px_chains p)).

Definition cslots (cs : list chain) : list slot := concat (map (@concat slot) cs).

Lemma all_slotsE p : all_slots p = cslots (px_chains p).
Proof. reflexivity. Qed.
Lemma cslots_app a b : cslots (a ++ b) = cslots a ++ cslots b.
Proof. unfold cslots. rewrite map_app, concat_app. reflexivity. Qed.
Lemma cslots_cons c cs : cslots (c :: cs) = concat c ++ cslots cs.
Proof. reflexivity. Qed.
Lemma cslots_mid k1 c k2 : cslots (k1 ++ c :: k2) = cslots k1 ++ concat c ++ cslots k2.
Proof. rewrite cslots_app, cslots_cons. reflexivity. Qed.

Definition bounded (c : chain) : Prop := Forall (fun b : bucket => (length b <= cap)%nat) c.
(* a chain has a head bucket; every bucket has at most 31 slots *)
Definition chain_wf (c : chain) : Prop := c <> [] /\ bounded c.

(* every slot of the i-th chain of [cs] hashes to bucket number [b + i] *)
Fixpoint placed (lv sp b : N) (cs : list chain) : Prop :=
  match cs with
  | [] => True
  | c :: cs' => Forall (fun s => bucket_index lv sp (sl_h s) = b) (concat c) /\
                placed lv sp (N.succ b) cs'
  end.

Definition PInv (p : pindex) : Prop :=
  nlen (px_chains p) = 2 ^ px_level p + px_split p /\
  px_split p < 2 ^ px_level p /\
  Forall chain_wf (px_chains p) /\
  placed (px_level p) (px_split p) 0 (px_chains p) /\
  px_nkeys p = nlen (all_slots p).

Lemma placed_app lv sp b l1 l2 :
  placed lv sp b (l1 ++ l2) <-> placed lv sp b l1 /\ placed lv sp (b + nlen l1) l2.
Proof.
  revert b. induction l1 as [|c l1 IH]; intros b; cbn [app placed nlen].
  - rewrite N.add_0_r. tauto.
  - rewrite IH. replace (N.succ b + nlen l1) with (b + N.succ (nlen l1)) by lia. tauto.
Qed.

Lemma placed_nth lv sp b cs i c s :
  placed lv sp b cs -> nth_error cs i = Some c -> In s (concat c) ->
  bucket_index lv sp (sl_h s) = b + N.of_nat i.
Proof.
  revert b i. induction cs as [|c0 cs IH]; intros b i Hp Hn Hs.
  - destruct i; discriminate.
  - cbn [placed] in Hp. destruct Hp as [Hp1 Hp2]. destruct i as [|i]; cbn [nth_error] in Hn.
    + injection Hn as ->. rewrite Forall_forall in Hp1. rewrite (Hp1 _ Hs). lia.
    + rewrite (IH _ _ Hp2 Hn Hs). lia.
Qed.

(* the placement clause in the form of the specification *)
Lemma PInv_placed p b c s :
  PInv p -> nth_error (px_chains p) b = Some c -> In s (concat c) ->
  bucket_index (px_level p) (px_split p) (sl_h s) = N.of_nat b.
Proof.
  intros (_ & _ & _ & Hpl & _) Hn Hs. rewrite (placed_nth _ _ _ _ _ _ _ Hpl Hn Hs). lia.
Qed.

Lemma placed_weaken lv sp lv' sp' b cs :
  (forall h x, b <= x < b + nlen cs -> bucket_index lv sp h = x -> bucket_index lv' sp' h = x) ->
  placed lv sp b cs -> placed lv' sp' b cs.
Proof.
  revert b. induction cs as [|c cs IH]; intros b H Hp; [exact I|].
  cbn [placed] in *. destruct Hp as [Hp1 Hp2]. rewrite nlen_consE in H. split.
  - eapply Forall_impl; [|exact Hp1]. cbn beta. intros s Hs. apply H; [lia|exact Hs].
  - apply IH; [|exact Hp2]. intros h x Hx. apply H. lia.
Qed.

Lemma in_cslots cs s : In s (cslots cs) -> exists i c, nth_error cs i = Some c /\ In s (concat c).
Proof.
  induction cs as [|c cs IH]; [intros []|].
  rewrite cslots_cons, in_app_iff. intros [H|H].
  - exists 0%nat, c. auto.
  - destruct (IH H) as (i & c' & Hi & Hc). exists (S i), c'. auto.
Qed.

Lemma px_chain_in_all p n s : In s (concat (px_chain p n)) -> In s (all_slots p).
Proof.
  unfold px_chain, all_slots. intros H.
  destruct (nth_in_or_default (N.to_nat n) (px_chains p) []) as [Hi|Hd].
  - apply in_concat. exists (concat (nth (N.to_nat n) (px_chains p) [])).
    split; [apply in_map; exact Hi|exact H].
  - rewrite Hd in H. destruct H.
Qed.

Lemma PInv_bidx_lt p h : PInv p -> px_bidx p h < nlen (px_chains p).
Proof. intros (Hn & Hs & _). rewrite Hn. apply bucket_index_lt. exact Hs. Qed.

Lemma chains_decomp p n : n < nlen (px_chains p) ->
  exists k1 k2, px_chains p = k1 ++ px_chain p n :: k2 /\ nlen k1 = n.
Proof.
  intros H. unfold px_chain.
  destruct (nth_split (n := N.to_nat n) (px_chains p) []) as (k1 & k2 & E & L).
  - rewrite nlenE in H. lia.
  - exists k1, k2. split; [exact E|]. rewrite nlenE. lia.
Qed.

Lemma px_set_decomp p n c nk k1 x k2 : px_chains p = k1 ++ x :: k2 -> nlen k1 = n ->
  px_set p n c nk = {| px_level := px_level p; px_split := px_split p; px_nkeys := nk;
                       px_chains := k1 ++ c :: k2 |}.
Proof.
  intros E L. unfold px_set. rewrite E.
  replace (N.to_nat n) with (length k1) by (rewrite nlenE in L; lia).
  rewrite lupd_app_exact. reflexivity.
Qed.

(* a slot lives in the chain its hash selects *)
Lemma PInv_home p s : PInv p -> In s (all_slots p) ->
  In s (concat (px_chain p (px_bidx p (sl_h s)))).
Proof.
  intros HI H. apply in_cslots in H. destruct H as (i & c & Hi & Hc).
  unfold px_bidx. rewrite (PInv_placed _ _ _ _ HI Hi Hc).
  unfold px_chain. rewrite Nat2N.id, (nth_error_nth _ _ _ Hi). exact Hc.
Qed.

Lemma px_scan_none p h f : PInv p -> find f (concat (px_chain p (px_bidx p h))) = None ->
  forall s, In s (all_slots p) -> sl_h s = h -> f s = false.
Proof. intros HI Hf s Hs <-. apply (find_none _ _ Hf). apply PInv_home; assumption. Qed.

Lemma PInv_replace lv sp nk nk' k1 c c' k2 :
  PInv {| px_level := lv; px_split := sp; px_nkeys := nk; px_chains := k1 ++ c :: k2 |} ->
  chain_wf c' ->
  Forall (fun s => bucket_index lv sp (sl_h s) = nlen k1) (concat c') ->
  nk' = nlen (cslots (k1 ++ c' :: k2)) ->
  PInv {| px_level := lv; px_split := sp; px_nkeys := nk'; px_chains := k1 ++ c' :: k2 |}.
Proof.
  unfold PInv, all_slots. cbn [px_level px_split px_nkeys px_chains].
  intros (Hn & Hs & Hwf & Hpl & Hk) Hc' Hpc' ->.
  split; [|split; [|split; [|split]]].
  - rewrite <- Hn, !nlen_appE, !nlen_consE. reflexivity.
  - exact Hs.
  - apply Forall_app in Hwf. destruct Hwf as [H1 H2]. inversion H2; subst.
    apply Forall_app. split; [exact H1|]. constructor; assumption.
  - apply placed_app in Hpl. apply placed_app. destruct Hpl as [H1 H2]. split; [exact H1|].
    cbn [placed] in *. destruct H2 as [_ H2]. split; [|exact H2].
    rewrite N.add_0_l. exact Hpc'.
  - reflexivity.
Qed.

Lemma PInv_eta p : PInv p ->
  PInv {| px_level := px_level p; px_split := px_split p; px_nkeys := px_nkeys p;
          px_chains := px_chains p |}.
Proof. destruct p. exact (fun H => H). Qed.

(* the chain selected by a hash, in context *)
Lemma PInv_focus p h : PInv p ->
  exists k1 k2, px_chains p = k1 ++ px_chain p (px_bidx p h) :: k2 /\ nlen k1 = px_bidx p h /\
    chain_wf (px_chain p (px_bidx p h)) /\
    Forall (fun s => px_bidx p (sl_h s) = px_bidx p h) (concat (px_chain p (px_bidx p h))).
Proof.
  intros HI. destruct (chains_decomp p _ (PInv_bidx_lt p h HI)) as (k1 & k2 & Ec & Lk).
  exists k1, k2. split; [exact Ec|]. split; [exact Lk|].
  destruct HI as (_ & _ & Hwf & Hpl & _). rewrite Ec in Hwf, Hpl.
  apply Forall_app in Hwf. destruct Hwf as [_ Hwf]. inversion Hwf; subst. split; [assumption|].
  apply placed_app in Hpl. destruct Hpl as [_ Hpl]. cbn [placed] in Hpl. destruct Hpl as [Hpl _].
  rewrite N.add_0_l, Lk in Hpl. exact Hpl.
Qed.

(* ---- the generic "first hit replaced by [g o]" step on the index ---- *)
Lemma px_subst_spec p h f g c' o nk :
  PInv p ->
  chain_subst f g (px_chain p (px_bidx p h)) = Some (c', o) ->
  Forall (fun s' => sl_h s' = h) (g o) -> (length (g o) <= 1)%nat ->
  exists l1 l2,
    all_slots p = l1 ++ o :: l2 /\
    all_slots (px_set p (px_bidx p h) c' nk) = l1 ++ g o ++ l2 /\
    f o = true /\ find f (concat (px_chain p (px_bidx p h))) = Some o /\
    (nk = nlen (l1 ++ g o ++ l2) -> PInv (px_set p (px_bidx p h) c' nk)).
Proof.
  intros HI E Hg Hl.
  destruct (PInv_focus p h HI) as (k1 & k2 & Ec & Lk & Hwf & Hpl).
  pose proof (chain_subst_find _ _ _ _ _ E) as Hfind.
  destruct (chain_subst_some _ _ _ _ _ E) as (l1 & l2 & Hc & Hc' & Hf & Hn).
  rewrite (px_set_decomp p _ c' nk k1 _ k2 Ec Lk).
  exists (cslots k1 ++ l1), (l2 ++ cslots k2).
  assert (E1 : all_slots p = (cslots k1 ++ l1) ++ o :: l2 ++ cslots k2).
  { rewrite all_slotsE, Ec, cslots_mid, Hc, <- !app_assoc. reflexivity. }
  assert (E2 : cslots (k1 ++ c' :: k2) = (cslots k1 ++ l1) ++ g o ++ l2 ++ cslots k2).
  { rewrite cslots_mid, Hc', <- !app_assoc. reflexivity. }
  split; [exact E1|]. split; [rewrite all_slotsE; exact E2|]. split; [exact Hf|].
  split; [exact Hfind|]. intros Hnk.
  apply (PInv_replace _ _ (px_nkeys p) nk k1 (px_chain p (px_bidx p h)) c' k2).
  - rewrite <- Ec. apply PInv_eta. exact HI.
  - split; [exact (chain_subst_nonnil _ _ _ _ _ E)|].
    apply (chain_subst_bounded _ _ _ _ _ Hl E). exact (proj2 Hwf).
  - rewrite Hc'. rewrite Hc in Hpl. rewrite Lk.
    apply Forall_app in Hpl. destruct Hpl as [P1 P2]. inversion P2; subst.
    apply Forall_app. split; [exact P1|]. apply Forall_app. split; [|assumption].
    eapply Forall_impl; [|exact Hg]. cbn beta. intros s' ->. reflexivity.
  - rewrite E2. exact Hnk.
Qed.

Lemma hit_true h m s : hit h m s = true <-> sl_h s = h /\ m s = true.
Proof. unfold hit. rewrite andb_true_iff, N.eqb_eq. tauto. Qed.

Lemma hit_false_same h m s : hit h m s = false -> sl_h s = h -> m s = false.
Proof. unfold hit. intros H <-. rewrite N.eqb_refl in H. exact H. Qed.

Lemma rp_hit_true h seg off s : rp_hit h seg off s = true <-> sl_h s = h /\ sl_seg s = seg /\ sl_off s = off.
Proof. unfold rp_hit. rewrite !andb_true_iff, !N.eqb_eq. tauto. Qed.

(* ================================================================================================ *)
(** * 1. empty *)

Theorem PInv_empty : PInv px_empty.
Proof.
  unfold PInv, px_empty, all_slots. cbn [px_level px_split px_nkeys px_chains map concat app nlen placed].
  split; [reflexivity|]. split; [reflexivity|]. split.
  - constructor; [|constructor]. split; [discriminate|]. constructor; [|constructor].
    cbn [length]. lia.
  - split; [|reflexivity]. split; [constructor|exact I].
Qed.

(* ================================================================================================ *)
(** * 2. get *)

Lemma px_getE p h m : px_get p h m = find (hit h m) (concat (px_chain p (px_bidx p h))).
Proof. unfold px_get. apply chain_find_concat. Qed.

Theorem px_get_some p h m s : PInv p -> px_get p h m = Some s ->
  In s (all_slots p) /\ sl_h s = h /\ m s = true.
Proof.
  intros _ H. rewrite px_getE in H. apply find_some in H. destruct H as [Hi Hh].
  split; [exact (px_chain_in_all _ _ _ Hi)|]. apply hit_true. exact Hh.
Qed.

Theorem px_get_none p h m : PInv p -> px_get p h m = None ->
  forall s, In s (all_slots p) -> sl_h s = h -> m s = false.
Proof.
  intros HI H s Hs Hh. rewrite px_getE in H.
  apply (hit_false_same h); [|exact Hh]. exact (px_scan_none p h _ HI H s Hs Hh).
Qed.

(* ================================================================================================ *)
(** * 4. delete *)

Theorem px_del_spec p h m p' old : PInv p -> px_del p h m = (p', old) ->
  PInv p' /\
  match old with
  | Some o => sl_h o = h /\ m o = true /\ Permutation (all_slots p) (o :: all_slots p')
  | None => p' = p /\ forall s, In s (all_slots p) -> sl_h s = h -> m s = false
  end.
Proof.
  intros HI. unfold px_del.
  destruct (chain_subst (hit h m) (fun _ => []) (px_chain p (px_bidx p h))) as [[c' o]|] eqn:E;
    intros H; injection H as <- <-.
  - destruct (px_subst_spec p h _ _ c' o (px_nkeys p - 1) HI E) as (l1 & l2 & E1 & E2 & Hf & _ & HP).
    { constructor. } { cbn [length]. lia. }
    cbn [app] in E2, HP. split.
    + apply HP. destruct HI as (_ & _ & _ & _ & Hk). rewrite Hk, E1, !nlen_appE, nlen_consE. lia.
    + apply hit_true in Hf. destruct Hf as [Hh Hm]. split; [exact Hh|]. split; [exact Hm|].
      rewrite E1, E2. symmetry. apply Permutation_middle.
  - split; [exact HI|]. split; [reflexivity|]. apply chain_subst_none in E.
    intros s Hs Hh. apply (hit_false_same h); [|exact Hh]. exact (px_scan_none p h _ HI E s Hs Hh).
Qed.

Theorem px_del_old_is_get p h m : snd (px_del p h m) = px_get p h m.
Proof.
  rewrite px_getE. unfold px_del.
  destruct (chain_subst (hit h m) (fun _ => []) (px_chain p (px_bidx p h))) as [[c' o]|] eqn:E;
    cbn [snd].
  - symmetry. exact (chain_subst_find _ _ _ _ _ E).
  - symmetry. apply chain_subst_none in E. exact E.
Qed.

(* ================================================================================================ *)
(** * 5. repoint *)

Theorem px_repoint_some p h seg off nseg noff p' : PInv p ->
  px_repoint p h seg off nseg noff = Some p' ->
  PInv p' /\ exists o l1 l2, sl_h o = h /\ sl_seg o = seg /\ sl_off o = off /\
    Permutation (all_slots p) (l1 ++ o :: l2) /\
    Permutation (all_slots p')
      (l1 ++ {| sl_h := sl_h o; sl_seg := nseg; sl_ks := sl_ks o; sl_vs := sl_vs o; sl_off := noff |} :: l2).
Proof.
  intros HI. unfold px_repoint.
  destruct (chain_subst (rp_hit h seg off) (fun s => [rp_new nseg noff s]) (px_chain p (px_bidx p h)))
    as [[c' o]|] eqn:E; [|discriminate].
  intros H. injection H as <-.
  destruct (px_subst_spec p h _ _ c' o (px_nkeys p) HI E) as (l1 & l2 & E1 & E2 & Hf & _ & HP).
  { apply (chain_subst_some _ _ _ _ _) in E.
    destruct E as (_ & _ & _ & _ & Hf & _). apply rp_hit_true in Hf. constructor; [|constructor].
    cbn [rp_new sl_h]. tauto. }
  { cbn [length]. lia. }
  cbn [app] in E2, HP. split.
  - apply HP. destruct HI as (_ & _ & _ & _ & Hk). rewrite Hk, E1, !nlen_appE, !nlen_consE. lia.
  - apply rp_hit_true in Hf. destruct Hf as (H1 & H2 & H3).
    exists o, l1, l2. repeat (split; [assumption|]). rewrite E1, E2. split; reflexivity.
Qed.

Theorem px_repoint_none p h seg off nseg noff : PInv p ->
  px_repoint p h seg off nseg noff = None ->
  forall s, In s (all_slots p) -> ~ (sl_h s = h /\ sl_seg s = seg /\ sl_off s = off).
Proof.
  intros HI. unfold px_repoint.
  destruct (chain_subst (rp_hit h seg off) (fun s => [rp_new nseg noff s]) (px_chain p (px_bidx p h)))
    as [[c' o]|] eqn:E; [discriminate|].
  intros _ s Hs Hc. apply chain_subst_none in E.
  pose proof (px_scan_none p h _ HI E s Hs (proj1 Hc)) as Hf.
  apply rp_hit_true in Hc. congruence.
Qed.

(* ================================================================================================ *)
(** * 6a. iteration visits every slot exactly once *)

Theorem px_iter_all p :
  concat (map (px_bucket p) (map N.of_nat (seq 0 (length (px_chains p))))) = all_slots p.
Proof.
  unfold all_slots. f_equal. rewrite map_map.
  rewrite <- (map_nth_seq (px_chains p) []) at 2. rewrite map_map.
  apply map_ext. intros i. unfold px_bucket. rewrite Nat2N.id. reflexivity.
Qed.

(* ================================================================================================ *)
(** * 3. put and split *)

Lemma lupd_decomp {A} n (c x : A) l k1 k2 :
  l = k1 ++ x :: k2 -> nlen k1 = n -> lupd (N.to_nat n) c l = k1 ++ c :: k2.
Proof.
  intros -> L. replace (N.to_nat n) with (length k1) by (rewrite nlenE in L; lia).
  apply lupd_app_exact.
Qed.

(* ---- insertion of a new slot ---- *)
Lemma px_insert_spec p sl : PInv p ->
  let b := px_bidx p (sl_h sl) in
  let p1 := px_set p b (insert_free sl (px_chain p b)) (px_nkeys p + 1) in
  PInv p1 /\ Permutation (all_slots p1) (sl :: all_slots p).
Proof.
  intros HI b p1. subst p1 b.
  destruct (PInv_focus p (sl_h sl) HI) as (k1 & k2 & Ec & Lk & Hwf & Hpl).
  rewrite (px_set_decomp p _ _ _ k1 _ k2 Ec Lk).
  set (c := px_chain p (px_bidx p (sl_h sl))) in *.
  assert (HP : Permutation (cslots (k1 ++ insert_free sl c :: k2)) (sl :: all_slots p)).
  { rewrite all_slotsE, Ec, !cslots_mid. rewrite insert_free_perm. cbn [app].
    symmetry. apply Permutation_middle. }
  split; [|exact HP].
  apply (PInv_replace _ _ (px_nkeys p) _ k1 c _ k2).
  - rewrite <- Ec. apply PInv_eta. exact HI.
  - split; [apply insert_free_nonnil|]. apply insert_free_bounded. exact (proj2 Hwf).
  - apply Forall_forall. intros s Hs.
    apply (Permutation_in _ (insert_free_perm sl c)) in Hs. rewrite Lk. destruct Hs as [<-|Hs].
    + reflexivity.
    + rewrite Forall_forall in Hpl. exact (Hpl _ Hs).
  - rewrite (nlen_perm _ _ HP), nlen_consE. destruct HI as (_ & _ & _ & _ & Hk).
    rewrite Hk. reflexivity.
Qed.

(* ---- put without the split ---- *)
Lemma px_put_core_spec p sl m p1 old : PInv p -> px_put_core p sl m = (p1, old) ->
  PInv p1 /\ old = px_get p (sl_h sl) m /\
  px_level p1 = px_level p /\ px_split p1 = px_split p /\
  match old with
  | Some o => In o (all_slots p) /\ sl_h o = sl_h sl /\ m o = true /\ px_nkeys p1 = px_nkeys p /\
              exists l1 l2, all_slots p = l1 ++ o :: l2 /\ all_slots p1 = l1 ++ sl :: l2
  | None => (forall s, In s (all_slots p) -> sl_h s = sl_h sl -> m s = false) /\
            px_nkeys p1 = px_nkeys p + 1 /\
            Permutation (all_slots p1) (sl :: all_slots p)
  end.
Proof.
  intros HI. unfold px_put_core, chain_put. rewrite px_getE.
  destruct (chain_subst (hit (sl_h sl) m) (fun _ => [sl]) (px_chain p (px_bidx p (sl_h sl))))
    as [[c' o]|] eqn:E; cbn [fst snd]; intros H; injection H as <- <-.
  - destruct (px_subst_spec p (sl_h sl) _ _ c' o (px_nkeys p) HI E)
      as (l1 & l2 & E1 & E2 & Hf & Hfind & HP).
    { constructor; [reflexivity|constructor]. } { cbn [length]. lia. }
    cbn [app] in E2, HP. split.
    { apply HP. destruct HI as (_ & _ & _ & _ & Hk). rewrite Hk, E1, !nlen_appE, !nlen_consE. lia. }
    split; [symmetry; exact Hfind|]. split; [reflexivity|]. split; [reflexivity|].
    apply hit_true in Hf. destruct Hf as [Hh Hm].
    split; [rewrite E1; apply in_elt|]. split; [exact Hh|]. split; [exact Hm|].
    split; [reflexivity|]. exists l1, l2. split; assumption.
  - destruct (px_insert_spec p sl HI) as [HI1 HP1]. cbn zeta in HI1, HP1.
    apply chain_subst_none in E.
    split; [exact HI1|]. split; [symmetry; exact E|]. split; [reflexivity|]. split; [reflexivity|].
    split; [|split; [reflexivity|exact HP1]].
    intros s Hs Hh. apply (hit_false_same (sl_h sl)); [|exact Hh].
    exact (px_scan_none p (sl_h sl) _ HI E s Hs Hh).
Qed.

(* ---- split ---- *)

(* does the slot stay in the split bucket?  (bucketIndex with the NEW level/split pointer) *)
Definition stays (p : pindex) (s : slot) : bool :=
  bucket_index (fst (advance (px_level p) (px_split p))) (snd (advance (px_level p) (px_split p)))
               (sl_h s) =? px_split p.

Lemma px_dosplit_level p : px_level (px_dosplit p) = fst (advance (px_level p) (px_split p)).
Proof. reflexivity. Qed.
Lemma px_dosplit_split p : px_split (px_dosplit p) = snd (advance (px_level p) (px_split p)).
Proof. reflexivity. Qed.
Lemma px_dosplit_nkeys p : px_nkeys (px_dosplit p) = px_nkeys p.
Proof. reflexivity. Qed.

Lemma split_fold_concat lv sp ub l st :
  concat (fst (fold_left (split_step lv sp ub) l st)) =
    concat (fst st) ++ filter (fun s => bucket_index lv sp (sl_h s) =? ub) l /\
  concat (snd (fold_left (split_step lv sp ub) l st)) =
    concat (snd st) ++ filter (fun s => negb (bucket_index lv sp (sl_h s) =? ub)) l.
Proof.
  revert st. induction l as [|s l IH]; intros st; cbn [fold_left filter].
  - rewrite !app_nil_r. split; reflexivity.
  - destruct (IH (split_step lv sp ub st s)) as [I1 I2]. rewrite I1, I2. unfold split_step.
    destruct (bucket_index lv sp (sl_h s) =? ub); cbn [fst snd negb];
      rewrite sw_insert_concat, <- app_assoc; split; reflexivity.
Qed.

Lemma split_fold_wf lv sp ub l st : chain_wf (fst st) -> chain_wf (snd st) ->
  chain_wf (fst (fold_left (split_step lv sp ub) l st)) /\
  chain_wf (snd (fold_left (split_step lv sp ub) l st)).
Proof.
  revert st. induction l as [|s l IH]; intros st H1 H2; cbn [fold_left]; [auto|].
  apply IH; unfold split_step; destruct (bucket_index lv sp (sl_h s) =? ub); cbn [fst snd];
    try assumption.
  - split; [apply sw_insert_nonnil|apply sw_insert_bounded; exact (proj2 H1)].
  - split; [apply sw_insert_nonnil|apply sw_insert_bounded; exact (proj2 H2)].
Qed.

(* the chains built by a slot writer are the input cut into groups of 31: every bucket but the
   last is full and the last one is non-empty -- or the chain is the single empty bucket *)
Fixpoint dense1 (c : chain) : Prop :=
  match c with
  | [] => False
  | b :: c' => match c' with
               | [] => (1 <= length b <= cap)%nat
               | _ :: _ => length b = cap /\ dense1 c'
               end
  end.
Definition dense (c : chain) : Prop := c = [[]] \/ dense1 c.

Lemma sw_insert_dense1 s c : dense1 c -> dense1 (sw_insert s c).
Proof.
  induction c as [|b c IH]; [intros []|].
  cbn [sw_insert dense1]. destruct c as [|b1 c].
  - intros H. destruct (Nat.ltb_spec (length b) cap) as [L|L]; cbn [dense1].
    + rewrite app_length. cbn [length]. lia.
    + split; [lia|]. cbn [length]. pose proof cap_pos. lia.
  - intros [H1 H2]. specialize (IH H2).
    destruct (sw_insert s (b1 :: c)) as [|b2 c2] eqn:E.
    + exfalso. exact (sw_insert_nonnil _ _ E).
    + cbn [dense1]. split; [exact H1|exact IH].
Qed.

Lemma sw_insert_dense s c : dense c -> dense (sw_insert s c).
Proof.
  intros [->|H]; right; [|apply sw_insert_dense1; exact H].
  cbn [sw_insert length]. pose proof cap_pos as Hc.
  destruct (Nat.ltb_spec 0 cap) as [L|L]; [|lia]. cbn [dense1 app length]. lia.
Qed.

Lemma split_fold_dense lv sp ub l st : dense (fst st) -> dense (snd st) ->
  dense (fst (fold_left (split_step lv sp ub) l st)) /\
  dense (snd (fold_left (split_step lv sp ub) l st)).
Proof.
  revert st. induction l as [|s l IH]; intros st H1 H2; cbn [fold_left]; [auto|].
  apply IH; unfold split_step; destruct (bucket_index lv sp (sl_h s) =? ub); cbn [fst snd];
    try assumption; apply sw_insert_dense; assumption.
Qed.

Lemma dense_init : dense [[]].
Proof. left. reflexivity. Qed.

Lemma chain_wf_init : chain_wf [[]].
Proof. split; [discriminate|]. constructor; [cbn [length]; lia|constructor]. Qed.

Lemma PInv_split_lt p : PInv p -> px_split p < nlen (px_chains p).
Proof. intros (Hn & Hs & _). lia. Qed.

Lemma px_dosplit_shape p : PInv p ->
  exists k1 k2 cu cn,
    px_chains p = k1 ++ px_chain p (px_split p) :: k2 /\ nlen k1 = px_split p /\
    px_chains (px_dosplit p) = k1 ++ cu :: k2 ++ [cn] /\
    concat cu = filter (stays p) (concat (px_chain p (px_split p))) /\
    concat cn = filter (fun s => negb (stays p s)) (concat (px_chain p (px_split p))) /\
    chain_wf cu /\ chain_wf cn /\ dense cu /\ dense cn /\
    px_chain (px_dosplit p) (px_split p) = cu /\
    px_chain (px_dosplit p) (nlen (px_chains p)) = cn.
Proof.
  intros HI. destruct (chains_decomp p (px_split p) (PInv_split_lt p HI)) as (k1 & k2 & Ec & Lk).
  unfold px_chain at 4 5.
  unfold px_dosplit. cbn [px_chains].
  set (lv := fst (advance (px_level p) (px_split p))).
  set (sp := snd (advance (px_level p) (px_split p))).
  set (st := fold_left (split_step lv sp (px_split p)) (concat (px_chain p (px_split p))) ([[]], [[]])).
  exists k1, k2, (fst st), (snd st).
  split; [exact Ec|]. split; [exact Lk|].
  rewrite (lupd_decomp _ _ _ _ _ _ Ec Lk), <- app_assoc. cbn [app].
  split; [reflexivity|].
  destruct (split_fold_concat lv sp (px_split p) (concat (px_chain p (px_split p))) ([[]], [[]]))
    as [C1 C2].
  destruct (split_fold_wf lv sp (px_split p) (concat (px_chain p (px_split p))) ([[]], [[]])
              chain_wf_init chain_wf_init) as [W1 W2].
  destruct (split_fold_dense lv sp (px_split p) (concat (px_chain p (px_split p))) ([[]], [[]])
              dense_init dense_init) as [D1 D2].
  split; [exact C1|]. split; [exact C2|]. split; [exact W1|]. split; [exact W2|].
  split; [exact D1|]. split; [exact D2|]. split.
  - replace (N.to_nat (px_split p)) with (length k1) by (rewrite nlenE in Lk; lia).
    apply nth_app_exact.
  - rewrite app_comm_cons, app_assoc.
    replace (N.to_nat (nlen (px_chains p))) with (length (k1 ++ fst st :: k2)).
    + apply nth_app_exact.
    + rewrite Ec, nlenE, Nat2N.id, !app_length. reflexivity.
Qed.

Lemma advance_facts level split : split < 2 ^ level ->
  snd (advance level split) < 2 ^ fst (advance level split) /\
  2 ^ fst (advance level split) + snd (advance level split) = 2 ^ level + split + 1 /\
  forall h,
    (bucket_index level split h <> split ->
     bucket_index (fst (advance level split)) (snd (advance level split)) h = bucket_index level split h) /\
    (bucket_index level split h = split ->
     bucket_index (fst (advance level split)) (snd (advance level split)) h = split \/
     bucket_index (fst (advance level split)) (snd (advance level split)) h = 2 ^ level + split).
Proof.
  intros H. split; [|split; [|intros h]].
  - generalize (bucket_index_after_split level split 0 H).
    destruct (advance level split) as [l' s']. cbv beta iota zeta. cbn [fst snd]. tauto.
  - generalize (bucket_index_after_split level split 0 H).
    destruct (advance level split) as [l' s']. cbv beta iota zeta. cbn [fst snd]. tauto.
  - generalize (bucket_index_after_split level split h H).
    destruct (advance level split) as [l' s']. cbv beta iota zeta. cbn [fst snd]. tauto.
Qed.

Theorem px_split_spec p : PInv p ->
  PInv (px_dosplit p) /\ Permutation (all_slots (px_dosplit p)) (all_slots p) /\
  px_nkeys (px_dosplit p) = px_nkeys p.
Proof.
  intros HI.
  destruct (px_dosplit_shape p HI)
    as (k1 & k2 & cu & cn & Ec & Lk & Ed & Hcu & Hcn & Wu & Wn & _ & _ & _ & _).
  set (c := px_chain p (px_split p)) in *.
  assert (HP : Permutation (all_slots (px_dosplit p)) (all_slots p)).
  { rewrite !all_slotsE, Ed, Ec, !cslots_mid.
    change (cslots []) with (@nil slot). rewrite app_nil_r, Hcu, Hcn.
    apply Permutation_app_head.
    rewrite (Permutation_app_comm (cslots k2)), app_assoc, filter_partition_perm. reflexivity. }
  split; [|split; [exact HP|reflexivity]].
  destruct HI as (Hn & Hs & Hwf & Hpl & Hk).
  destruct (advance_facts _ _ Hs) as (A1 & A2 & A3).
  unfold PInv. rewrite px_dosplit_level, px_dosplit_split, px_dosplit_nkeys, Ed.
  set (lv' := fst (advance (px_level p) (px_split p))) in *.
  set (sp' := snd (advance (px_level p) (px_split p))) in *.
  rewrite Ec in Hn, Hwf, Hpl.
  rewrite !nlen_appE, !nlen_consE in Hn.
  apply Forall_app in Hwf. destruct Hwf as [Wk1 Wk2]. inversion Wk2 as [|c_ k2_ Wc Wk2']; subst c_ k2_.
  apply placed_app in Hpl. destruct Hpl as [Pk1 Pk2]. cbn [placed] in Pk2. destruct Pk2 as [Pc Pk2].
  rewrite N.add_0_l in Pc, Pk2.
  split; [|split; [|split; [|split]]].
  - rewrite nlen_appE, nlen_consE, nlen_appE, nlen_consE. cbn [nlen]. lia.
  - exact A1.
  - apply Forall_app. split; [exact Wk1|]. constructor; [exact Wu|].
    apply Forall_app. split; [exact Wk2'|]. constructor; [exact Wn|constructor].
  - apply placed_app. split.
    + apply (placed_weaken (px_level p) (px_split p)); [|exact Pk1].
      intros h x Hx Hb. rewrite <- Hb. apply A3. lia.
    + cbn [placed]. rewrite N.add_0_l. split.
      * rewrite Hcu. apply Forall_forall. intros s Hs'. apply filter_In in Hs'.
        destruct Hs' as [_ Hst]. unfold stays in Hst. apply N.eqb_eq in Hst.
        fold lv' sp' in Hst. rewrite Hst. lia.
      * apply placed_app. split.
        -- apply (placed_weaken (px_level p) (px_split p)); [|exact Pk2].
           intros h x Hx Hb. rewrite <- Hb. apply A3. lia.
        -- cbn [placed]. split; [|exact I]. rewrite Hcn. apply Forall_forall. intros s Hs'.
           apply filter_In in Hs'. destruct Hs' as [Hin Hst].
           rewrite Forall_forall in Pc. pose proof (Pc _ Hin) as Hold. cbn beta in Hold.
           unfold stays in Hst. fold lv' sp' in Hst.
           destruct (N.eqb_spec (bucket_index lv' sp' (sl_h s)) (px_split p)) as [Q|Q];
             [discriminate|].
           destruct (proj2 (A3 (sl_h s))) as [Q1|Q1]; [lia|contradiction|]. rewrite Q1. lia.
  - rewrite (nlen_perm _ _ HP). exact Hk.
Qed.

Theorem px_put_spec grow p sl m p' old : PInv p -> px_put grow p sl m = (p', old) ->
  PInv p' /\
  match old with
  | Some o => In o (all_slots p) /\ sl_h o = sl_h sl /\ m o = true /\
              exists l1 l2, Permutation (all_slots p) (l1 ++ o :: l2) /\
                            Permutation (all_slots p') (l1 ++ sl :: l2)
  | None => (forall s, In s (all_slots p) -> sl_h s = sl_h sl -> m s = false) /\
            Permutation (all_slots p') (sl :: all_slots p)
  end.
Proof.
  intros HI. unfold px_put, px_put_with. destruct (px_put_core p sl m) as [p1 o1] eqn:E.
  cbn [fst snd]. destruct (px_put_core_spec _ _ _ _ _ HI E) as (HI1 & _ & _ & _ & HS).
  destruct o1 as [o|]; intros H; injection H as <- <-.
  - split; [exact HI1|]. destruct HS as (A & B & C & _ & l1 & l2 & E1 & E2).
    split; [exact A|]. split; [exact B|]. split; [exact C|].
    exists l1, l2. rewrite E1, E2. split; reflexivity.
  - destruct HS as (A & _ & B). destruct (grow (px_nkeys p1) (nlen (px_chains p1))).
    + destruct (px_split_spec p1 HI1) as (S1 & S2 & _). split; [exact S1|]. split; [exact A|].
      rewrite S2. exact B.
    + split; [exact HI1|]. split; [exact A|exact B].
Qed.

(* strengthening: the slot returned (and overwritten) by put is exactly the one get finds, i.e.
   the first hit in scan order; numKeys is incremented exactly when there was none *)
Theorem px_put_old_is_get grow p sl m : snd (px_put grow p sl m) = px_get p (sl_h sl) m.
Proof.
  unfold px_put, px_put_with, px_put_core, chain_put. rewrite px_getE.
  destruct (chain_subst (hit (sl_h sl) m) (fun _ => [sl]) (px_chain p (px_bidx p (sl_h sl))))
    as [[c' o]|] eqn:E; cbn [fst snd].
  - symmetry. exact (chain_subst_find _ _ _ _ _ E).
  - symmetry. apply chain_subst_none in E. exact E.
Qed.

Theorem px_put_count grow p sl m : PInv p ->
  px_nkeys (fst (px_put grow p sl m)) =
    match px_get p (sl_h sl) m with Some _ => px_nkeys p | None => px_nkeys p + 1 end.
Proof.
  intros HI. unfold px_put, px_put_with. destruct (px_put_core p sl m) as [p1 o1] eqn:E.
  cbn [fst snd]. destruct (px_put_core_spec _ _ _ _ _ HI E) as (_ & <- & _ & _ & HS).
  destruct o1 as [o|]; cbn [fst].
  - tauto.
  - destruct (grow (px_nkeys p1) (nlen (px_chains p1))); [rewrite px_dosplit_nkeys|]; tauto.
Qed.

(* ================================================================================================ *)
(** * 6b. which chains an operation touches *)

Lemma px_bucketE p n : px_bucket p n = concat (px_chain p n).
Proof. reflexivity. Qed.

Lemma px_set_other p n c nk b : b <> n -> px_chain (px_set p n c nk) b = px_chain p b.
Proof.
  intros H. unfold px_chain, px_set. cbn [px_chains]. apply nth_lupd_other.
  intros Hc. apply H. apply N2Nat.inj. symmetry. exact Hc.
Qed.

(* index.put = px_put_core, then (if a slot was added and the load factor says so) index.split *)
Lemma px_put_factor grow p sl m :
  px_put grow p sl m =
    let r := px_put_core p sl m in
    match snd r with
    | Some o => (fst r, Some o)
    | None => (if grow (px_nkeys (fst r)) (nlen (px_chains (fst r))) then px_dosplit (fst r) else fst r,
               None)
    end.
Proof. reflexivity. Qed.

Theorem px_put_other_chains p sl m b : b <> px_bidx p (sl_h sl) ->
  px_chain (fst (px_put_core p sl m)) b = px_chain p b /\
  px_bucket (fst (px_put_core p sl m)) b = px_bucket p b.
Proof.
  intros H. rewrite !px_bucketE.
  assert (G : px_chain (fst (px_put_core p sl m)) b = px_chain p b).
  { unfold px_put_core.
    destruct (snd (chain_put (hit (sl_h sl) m) sl (px_chain p (px_bidx p (sl_h sl)))));
      cbn [fst]; apply px_set_other; exact H. }
  rewrite G. split; reflexivity.
Qed.

Lemma px_put_core_frame p sl m :
  px_level (fst (px_put_core p sl m)) = px_level p /\
  px_split (fst (px_put_core p sl m)) = px_split p /\
  nlen (px_chains (fst (px_put_core p sl m))) = nlen (px_chains p).
Proof.
  unfold px_put_core.
  destruct (snd (chain_put (hit (sl_h sl) m) sl (px_chain p (px_bidx p (sl_h sl)))));
    cbn [fst px_set px_level px_split px_chains]; rewrite !nlenE, lupd_length; auto.
Qed.

Theorem px_del_other_chains p h m b : b <> px_bidx p h ->
  px_chain (fst (px_del p h m)) b = px_chain p b /\
  px_bucket (fst (px_del p h m)) b = px_bucket p b.
Proof.
  intros H. rewrite !px_bucketE.
  assert (G : px_chain (fst (px_del p h m)) b = px_chain p b).
  { unfold px_del.
    destruct (chain_subst (hit h m) (fun _ => []) (px_chain p (px_bidx p h))) as [[c' o]|];
      cbn [fst]; [apply px_set_other; exact H|reflexivity]. }
  rewrite G. split; reflexivity.
Qed.

Lemma px_del_frame p h m :
  px_level (fst (px_del p h m)) = px_level p /\
  px_split (fst (px_del p h m)) = px_split p /\
  nlen (px_chains (fst (px_del p h m))) = nlen (px_chains p).
Proof.
  unfold px_del.
  destruct (chain_subst (hit h m) (fun _ => []) (px_chain p (px_bidx p h))) as [[c' o]|];
    cbn [fst px_set px_level px_split px_chains]; rewrite ?nlenE, ?lupd_length; auto.
Qed.

Theorem px_repoint_other_chains p h seg off nseg noff p' b :
  px_repoint p h seg off nseg noff = Some p' -> b <> px_bidx p h ->
  px_chain p' b = px_chain p b.
Proof.
  unfold px_repoint.
  destruct (chain_subst (rp_hit h seg off) (fun s => [rp_new nseg noff s]) (px_chain p (px_bidx p h)))
    as [[c' o]|]; [|discriminate].
  intros E H. injection E as <-. apply px_set_other. exact H.
Qed.

(* ---- split and concurrent iteration ---- *)
Theorem px_split_moves_forward p : PInv p ->
  forall b, N.of_nat b < nlen (px_chains p) -> N.of_nat b <> px_split p ->
  px_bucket (px_dosplit p) (N.of_nat b) = px_bucket p (N.of_nat b).
Proof.
  intros _ b Hb Hne. unfold px_bucket, px_dosplit. cbn [px_chains]. rewrite Nat2N.id.
  rewrite app_nth1 by (rewrite lupd_length; rewrite nlenE in Hb; lia).
  rewrite nth_lupd_other; [reflexivity|].
  intros Hc. apply Hne. rewrite <- Hc, N2Nat.id. reflexivity.
Qed.

(* the old split chain is partitioned, order preserved, between its old index and the new LAST chain *)
Theorem px_split_dest p : PInv p ->
  px_bucket (px_dosplit p) (px_split p) = filter (stays p) (px_bucket p (px_split p)) /\
  px_bucket (px_dosplit p) (nlen (px_chains p)) =
    filter (fun s => negb (stays p s)) (px_bucket p (px_split p)) /\
  nlen (px_chains (px_dosplit p)) = nlen (px_chains p) + 1.
Proof.
  intros HI.
  destruct (px_dosplit_shape p HI)
    as (k1 & k2 & cu & cn & Ec & Lk & Ed & Hcu & Hcn & _ & _ & _ & _ & Qu & Qn).
  rewrite !px_bucketE, Qu, Qn. split; [exact Hcu|]. split; [exact Hcn|].
  rewrite Ed, Ec, !nlen_appE, !nlen_consE, nlen_appE. cbn [nlen]. lia.
Qed.

(* ... and both new chains are cut into groups of 31 from their start (slotWriter) *)
Theorem px_split_dense p : PInv p ->
  dense (px_chain (px_dosplit p) (px_split p)) /\
  dense (px_chain (px_dosplit p) (nlen (px_chains p))).
Proof.
  intros HI.
  destruct (px_dosplit_shape p HI)
    as (k1 & k2 & cu & cn & _ & _ & _ & _ & _ & _ & _ & Du & Dn & Qu & Qn).
  rewrite Qu, Qn. split; assumption.
Qed.

(* a split never moves a slot to a lower-numbered chain: every slot stays in its chain or moves
   to the new last chain (index = old numBuckets) *)
Theorem px_split_slot_forward p n s : PInv p -> In s (px_bucket p n) ->
  In s (px_bucket (px_dosplit p) n) \/
  (n = px_split p /\ In s (px_bucket (px_dosplit p) (nlen (px_chains p)))).
Proof.
  intros HI Hs. destruct (N.eq_dec n (px_split p)) as [->|Hne].
  - destruct (px_split_dest p HI) as (D1 & D2 & _). rewrite D1, D2.
    destruct (stays p s) eqn:Hst.
    + left. apply filter_In. auto.
    + right. split; [reflexivity|]. apply filter_In. rewrite Hst. auto.
  - left. destruct (N.lt_ge_cases n (nlen (px_chains p))) as [Hlt|Hge].
    + rewrite <- (N2Nat.id n) in *. rewrite px_split_moves_forward; assumption.
    + exfalso. unfold px_bucket in Hs. rewrite nth_overflow in Hs; [destruct Hs|].
      rewrite nlenE in Hge. lia.
Qed.

(* ================================================================================================ *)
(** * 7. the historical bug: the pinned findInsertionBucket inserts a duplicate *)

Import PxEx.

Lemma put_list_PInv grow (l : list nat) p : PInv p ->
  PInv (fold_left (fun p i => fst (px_put grow p (mk (N.of_nat i)) (is (N.of_nat i)))) l p).
Proof.
  revert p. induction l as [|i l IH]; intros p HI; cbn [fold_left]; [exact HI|].
  apply IH. destruct (px_put grow p (mk (N.of_nat i)) (is (N.of_nat i))) as [p' o] eqn:E.
  exact (proj1 (px_put_spec _ _ _ _ _ _ HI E)).
Qed.

(* 32 slots with equal hash: head bucket full + 1 slot in an overflow bucket; then delete key 3:
   the head bucket has a hole and key 32 lives in the overflow bucket *)
Definition ex_hole : pindex := fst (px_del (put_keys grow0 px_empty 32) 7 (is 3)).

Lemma ex_hole_PInv : PInv ex_hole.
Proof.
  unfold ex_hole. destruct (px_del (put_keys grow0 px_empty 32) 7 (is 3)) as [p' o] eqn:E.
  refine (proj1 (px_del_spec _ _ _ _ _ _ E)). apply put_list_PInv. exact PInv_empty.
Qed.

Theorem pinned_put_refuted :
  exists p sl m, PInv p /\ (exists o, In o (all_slots p) /\ sl_h o = sl_h sl /\ m o = true) /\
                 snd (px_put_pinned grow0 p sl m) = None.
Proof.
  exists ex_hole, (mk' 32), (is 32). split; [exact ex_hole_PInv|]. split.
  - exists (mk 32).
    assert (G : px_get ex_hole 7 (is 32) = Some (mk 32)) by (vm_compute; reflexivity).
    destruct (px_get_some _ _ _ _ ex_hole_PInv G) as (A & _ & C).
    split; [exact A|]. split; [reflexivity|exact C].
  - vm_compute. reflexivity.
Qed.

(* the current put overwrites the slot in the overflow bucket *)
Example fixed_put_overwrites : snd (px_put grow0 ex_hole (mk' 32) (is 32)) = Some (mk 32).
Proof. vm_compute. reflexivity. Qed.

Print Assumptions PInv_empty.
Print Assumptions px_get_some.
Print Assumptions px_get_none.
Print Assumptions px_put_spec.
Print Assumptions px_del_spec.
Print Assumptions px_split_spec.
Print Assumptions px_repoint_some.
Print Assumptions px_repoint_none.
Print Assumptions px_iter_all.
Print Assumptions px_split_moves_forward.
Print Assumptions px_split_slot_forward.
Print Assumptions pinned_put_refuted.
