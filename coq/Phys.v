(* Phys.v -- executable model of the PHYSICAL layout of pogreb's on-disk hash index
   (index.go, bucket.go, file.go: extend; iterator.go: fetchItems; compaction.go: promoteRecord).
   Definitions and small computation examples only; the theorems are in PhysProofs.v.

   Index.v models the index as "a chain owns its buckets": no file offsets, no free list.  Here
   the two index files are modelled as arrays of 512-byte buckets addressed by FILE OFFSET:

     main.pix      = 512-byte header ++ bucket 0 ++ bucket 1 ++ ...     ([ph_main], bucketOffset(i) = 512+512*i)
     overflow.pix  = 512-byte header ++ overflow buckets                ([ph_over], offset 512+512*j)
     index meta    = level, splitBucketIdx, numKeys, numBuckets, freeBucketOffs ([ph_free])

   A bucket is the FULL array of 31 slots plus the [next] offset (0 = no overflow bucket).  A slot
   is empty iff its offset field is 0 (the Go loops [break] at the first such slot).  Buckets freed
   by a split keep their stale contents in overflow.pix; the file never shrinks.

   DEFINITIONS
     pbucket (pb_slots, pb_next), phys (ph_level, ph_split, ph_nkeys, ph_nbuckets, ph_main, ph_over,
       ph_free), empty_pb, pb_live (slots before the first empty one = Bucket.dense),
     bucket_off (bucketOffset), off_ok / off_idx / pb_read / pb_write (file.Slice / WriteAt on a
       512-aligned block of a bucket file),
     bhandle (bucketHandle: file, offset, in-memory copy of the bucket), write_bh (bucketHandle.write),
     walk_over / ph_walk (bucketIterator: newBucketIterator + next until next = 0, with fuel),
     scan_res / scan_slots (the slot loop: break at offset 0, continue on a miss),
     hit_loop (the bucket loop shared by index.get, index.delete, promoteRecord),
     swriter (slotWriter), create_overflow (createOverflowBucket), swr_insert (slotWriter.insert),
       swr_write (slotWriter.write), find_ins (findInsertionBucket),
     ph_bidx (bucketIndex), ph_get, ph_put_core / ph_put, ph_dosplit (index.split), ph_del,
       ph_repoint, ph_count, ph_bucket (fetchItems), ph_empty, phys_ops : idx_ops phys,
     ph_main_bytes, ph_over_bytes (the byte images of main.pix and overflow.pix),
     Module PhysVariants: variants of the algorithm used by the sensitivity witnesses of
       PhysProofs.v: ph_dosplit_early_free (split that frees the old overflow buckets of the chain
       BEFORE re-inserting; turns out to be harmless, see PhysProofs.v), ph_dosplit_no_free (split
       that forgets freeOverflowBucket: leak), create_overflow_nopop / ph_put_nopop (a
       createOverflowBucket that does not pop the free list: shared bucket).

   DEVIATIONS / MODELLING DECISIONS
     - Name clashes: the record fields [ph_split] (splitBucketIdx) and [ph_nbuckets] (numBuckets) keep
       these names; the FUNCTION index.split is [ph_dosplit] (as px_split / px_dosplit in Index.v),
       and ix_nbuckets of [phys_ops] is the field projection [ph_nbuckets].
     - The bucket iterator is run EAGERLY: [ph_walk p n] reads the whole chain of bucket n first
       (fuel = 1 + number of overflow buckets in the file) and the operations then work on the list
       of bucket handles.  This is equivalent to the lazy Go iterator because no operation writes
       a bucket between two calls of it.next(): put, delete and promoteRecord write after the scan,
       split writes after its loop (createOverflowBucket only extends the file / pops the free list
       and returns a FRESH zero bucket that is not read from the file).  Consequently
       "b.next == 0" in findInsertionBucket is "this is the last handle of the walk".
       The only observable difference: a read error / cycle BEHIND the bucket where the Go code
       stops early is an error here and not there; PhysInv (PhysProofs.v) excludes both.
     - Errors: idx_ops has no error channel.  If the walk fails (fuel exhausted = cycle, offset not
       512-aligned, < 512 or beyond the end of the file) get returns None, put/delete return the
       unchanged index and None, repoint returns None, ph_bucket returns [], split returns the state
       after main.extend and the pointer advance (what the Go code leaves behind on an I/O error).
       A WriteAt beyond the end of a file (would grow the file in Go) is a no-op; never happens
       under PhysInv.
     - As in Index.v: no MaxKeys guard, no uint32 wrap-around of numKeys / numBuckets, the split
       policy is the parameter [grow numKeys numBuckets]; put and delete return the slot they
       overwrote / removed (the Go code returns nothing).
     - The inner loop of index.split and of fetchItems ("for j: if slots[j].offset == 0 break") is
       written as a fold over [pb_live] (= Bucket.dense, defined in Bucket.v as exactly that
       prefix); the loops that need the slot INDEX (get / put / delete / promoteRecord) are the
       explicit [scan_slots]. *)
From Coq Require Import ZArith Lia.
From Pogreb Require Import Base Bytes Record Index Bucket.

(* ================================================================================================ *)
(** * Buckets and bucket files *)

Record pbucket := { pb_slots : list slot; pb_next : N }.

Record phys := {
  ph_level : N;                 (* level *)
  ph_split : N;                 (* splitBucketIdx *)
  ph_nkeys : N;                 (* numKeys *)
  ph_nbuckets : N;              (* numBuckets *)
  ph_main : list pbucket;       (* main.pix after the header *)
  ph_over : list pbucket;       (* overflow.pix after the header *)
  ph_free : list N              (* freeBucketOffs *)
}.

(* a zero bucket: what file.extend(bucketSize) appends and what bucketHandle{} holds *)
Definition empty_pb : pbucket := {| pb_slots := repeat empty_slot 31; pb_next := 0 |}.

(* the slots the scanning loops look at *)
Definition pb_live (b : pbucket) : list slot := Bucket.dense (pb_slots b).

(* bucketOffset *)
Definition bucket_off (i : N) : N := 512 + 512 * i.

(* offsets of whole buckets behind the 512-byte header *)
Definition off_ok (off : N) : bool := (512 <=? off) && (off mod 512 =? 0).
Definition off_idx (off : N) : nat := N.to_nat ((off - 512) / 512).

(* bucketHandle.read: file.Slice(off, off+512) + UnmarshalBinary *)
Definition pb_read (file : list pbucket) (off : N) : option pbucket :=
  if off_ok off then nth_error file (off_idx off) else None.

(* bucketHandle.write: MarshalBinary + file.WriteAt(buf, off) *)
Definition pb_write (file : list pbucket) (off : N) (b : pbucket) : list pbucket :=
  if off_ok off then lupd (off_idx off) b file else file.

Definition set_main (p : phys) (m : list pbucket) : phys :=
  {| ph_level := ph_level p; ph_split := ph_split p; ph_nkeys := ph_nkeys p;
     ph_nbuckets := ph_nbuckets p; ph_main := m; ph_over := ph_over p; ph_free := ph_free p |}.
Definition set_over (p : phys) (o : list pbucket) : phys :=
  {| ph_level := ph_level p; ph_split := ph_split p; ph_nkeys := ph_nkeys p;
     ph_nbuckets := ph_nbuckets p; ph_main := ph_main p; ph_over := o; ph_free := ph_free p |}.
Definition set_free (p : phys) (f : list N) : phys :=
  {| ph_level := ph_level p; ph_split := ph_split p; ph_nkeys := ph_nkeys p;
     ph_nbuckets := ph_nbuckets p; ph_main := ph_main p; ph_over := ph_over p; ph_free := f |}.
Definition set_nkeys (p : phys) (n : N) : phys :=
  {| ph_level := ph_level p; ph_split := ph_split p; ph_nkeys := n;
     ph_nbuckets := ph_nbuckets p; ph_main := ph_main p; ph_over := ph_over p; ph_free := ph_free p |}.
Definition set_nbuckets (p : phys) (n : N) : phys :=
  {| ph_level := ph_level p; ph_split := ph_split p; ph_nkeys := ph_nkeys p;
     ph_nbuckets := n; ph_main := ph_main p; ph_over := ph_over p; ph_free := ph_free p |}.
Definition set_ptr (p : phys) (lv sp : N) : phys :=
  {| ph_level := lv; ph_split := sp; ph_nkeys := ph_nkeys p;
     ph_nbuckets := ph_nbuckets p; ph_main := ph_main p; ph_over := ph_over p; ph_free := ph_free p |}.

(* ================================================================================================ *)
(** * Bucket handles and the bucket iterator *)

(* bucketHandle: the file (main / overflow), the offset, the in-memory copy *)
Record bhandle := { bh_main : bool; bh_off : N; bh_b : pbucket }.

Definition bh_set_next (h : bhandle) (next : N) : bhandle :=
  {| bh_main := bh_main h; bh_off := bh_off h;
     bh_b := {| pb_slots := pb_slots (bh_b h); pb_next := next |} |}.
(* b.slots[i] = sl *)
Definition bh_set_slot (h : bhandle) (i : nat) (sl : slot) : bhandle :=
  {| bh_main := bh_main h; bh_off := bh_off h;
     bh_b := {| pb_slots := lupd i sl (pb_slots (bh_b h)); pb_next := pb_next (bh_b h) |} |}.

(* bucket.del: shift the later slots left, zero the last one *)
Fixpoint del_slot (i : nat) (l : list slot) : list slot :=
  match l with
  | [] => []
  | s :: l' => match i with O => l' ++ [empty_slot] | S i' => s :: del_slot i' l' end
  end.
Definition bh_del (h : bhandle) (i : nat) : bhandle :=
  {| bh_main := bh_main h; bh_off := bh_off h;
     bh_b := {| pb_slots := del_slot i (pb_slots (bh_b h)); pb_next := pb_next (bh_b h) |} |}.

(* bucketHandle.write *)
Definition write_bh (p : phys) (h : bhandle) : phys :=
  if bh_main h then set_main p (pb_write (ph_main p) (bh_off h) (bh_b h))
  else set_over p (pb_write (ph_over p) (bh_off h) (bh_b h)).

(* bucketIterator.next after the first bucket: it.f = overflow; stop at off = 0 *)
Fixpoint walk_over (over : list pbucket) (fuel : nat) (off : N) : option (list bhandle) :=
  if off =? 0 then Some [] else
  match fuel with
  | O => None
  | S f => match pb_read over off with
           | None => None
           | Some b => match walk_over over f (pb_next b) with
                       | None => None
                       | Some l => Some ({| bh_main := false; bh_off := off; bh_b := b |} :: l)
                       end
           end
  end.

(* newBucketIterator(n) and all its next() calls: the main bucket, then the overflow buckets *)
Definition ph_walk (p : phys) (n : N) : option (list bhandle) :=
  match pb_read (ph_main p) (bucket_off n) with
  | None => None
  | Some b => match walk_over (ph_over p) (S (length (ph_over p))) (pb_next b) with
              | None => None
              | Some l => Some ({| bh_main := true; bh_off := bucket_off n; bh_b := b |} :: l)
              end
  end.

(* ================================================================================================ *)
(** * The scanning loops *)

(* for i := 0; i < slotsPerBucket; i++ { sl := b.slots[i]; if sl.offset == 0 { break };
     if !f(sl) { continue }; ... } *)
Inductive scan_res :=
| ScHit (i : nat) (s : slot)        (* stopped at slot i, which f accepts *)
| ScFree (i : nat)                  (* break at the empty slot i *)
| ScEnd (i : nat).                  (* loop finished, i = slotsPerBucket *)

Fixpoint scan_slots (f : slot -> bool) (l : list slot) (i : nat) : scan_res :=
  match l with
  | [] => ScEnd i
  | s :: l' => if sl_off s =? 0 then ScFree i
               else if f s then ScHit i s else scan_slots f l' (S i)
  end.

(* the bucket loop of index.get / index.delete / promoteRecord: first accepted slot in scan order,
   with its bucket handle and slot index *)
Fixpoint hit_loop (f : slot -> bool) (hs : list bhandle) : option (bhandle * nat * slot) :=
  match hs with
  | [] => None
  | h :: hs' => match scan_slots f (pb_slots (bh_b h)) 0 with
                | ScHit i s => Some (h, i, s)
                | _ => hit_loop f hs'
                end
  end.

Definition ph_bidx (p : phys) (h : N) : N := bucket_index (ph_level p) (ph_split p) h.

(* index.get *)
Definition ph_get (p : phys) (h : N) (m : slot -> bool) : option slot :=
  match ph_walk p (ph_bidx p h) with
  | None => None
  | Some hs => match hit_loop (hit h m) hs with Some (_, _, s) => Some s | None => None end
  end.

(* ================================================================================================ *)
(** * slotWriter *)

Record swriter := { sw_cur : bhandle; sw_idx : nat; sw_prev : list bhandle }.

(* createOverflowBucket: pop the free list, else overflow.extend(bucketSize) (returns the old
   file size = 512 + 512 * number of overflow buckets and appends a zero bucket) *)
Definition create_overflow (p : phys) : phys * bhandle :=
  match ph_free p with
  | off :: fr => (set_free p fr, {| bh_main := false; bh_off := off; bh_b := empty_pb |})
  | [] => (set_over p (ph_over p ++ [empty_pb]),
           {| bh_main := false; bh_off := bucket_off (nlen (ph_over p)); bh_b := empty_pb |})
  end.

(* slotWriter.insert *)
Definition swr_insert (p : phys) (w : swriter) (sl : slot) : phys * swriter :=
  let pw :=
    if (sw_idx w =? 31)%nat then
      let pn := create_overflow p in
      (fst pn, {| sw_cur := snd pn; sw_idx := 0;
                  sw_prev := sw_prev w ++ [bh_set_next (sw_cur w) (bh_off (snd pn))] |})
    else (p, w) in
  (fst pw, {| sw_cur := bh_set_slot (sw_cur (snd pw)) (sw_idx (snd pw)) sl;
              sw_idx := S (sw_idx (snd pw)); sw_prev := sw_prev (snd pw) |}).

(* slotWriter.write: previous buckets last-to-first, then the current bucket *)
Definition swr_write (p : phys) (w : swriter) : phys :=
  write_bh (fold_left write_bh (rev (sw_prev w)) p) (sw_cur w).

Definition mk_writer (h : bhandle) (i : nat) : swriter :=
  {| sw_cur := h; sw_idx := i; sw_prev := [] |}.

(* findInsertionBucket; [free] = the first empty slot met so far.  [hs' = []] is "b.next == 0".
   Result: the slot writer and, if the key is already in the index, the slot found. *)
Fixpoint find_ins (f : slot -> bool) (hs : list bhandle) (free : option swriter)
    : option (swriter * option slot) :=
  match hs with
  | [] => None                                        (* "failed to insert a new slot" *)
  | h :: hs' =>
    match scan_slots f (pb_slots (bh_b h)) 0 with
    | ScHit i s => Some (mk_writer h i, Some s)
    | ScFree i =>
      let free' := match free with None => Some (mk_writer h i) | Some _ => free end in
      match hs' with
      | [] => match free' with Some w => Some (w, None) | None => Some (mk_writer h i, None) end
      | _ :: _ => find_ins f hs' free'
      end
    | ScEnd i =>
      match hs' with
      | [] => match free with Some w => Some (w, None) | None => Some (mk_writer h i, None) end
      | _ :: _ => find_ins f hs' free
      end
    end
  end.

(* ================================================================================================ *)
(** * index.split *)

(* the body of the slot loop of index.split; state: the index (free list, overflow file size), the
   updatedBucket writer, the sw writer *)
Definition split_body (lv sp ub : N) (st : phys * swriter * swriter) (sl : slot)
    : phys * swriter * swriter :=
  if bucket_index lv sp (sl_h sl) =? ub
  then let r := swr_insert (fst (fst st)) (snd (fst st)) sl in (fst r, snd r, snd st)
  else let r := swr_insert (fst (fst st)) (snd st) sl in (fst r, snd (fst st), snd r).

(* the body of the bucket loop: all live slots of the bucket, then remember b.next *)
Definition split_bucket (lv sp ub : N) (st : (phys * swriter * swriter) * list N) (h : bhandle)
    : (phys * swriter * swriter) * list N :=
  (fold_left (split_body lv sp ub) (pb_live (bh_b h)) (fst st),
   if pb_next (bh_b h) =? 0 then snd st else snd st ++ [pb_next (bh_b h)]).

Definition fresh_main_writer (off : N) : swriter :=
  mk_writer {| bh_main := true; bh_off := off; bh_b := empty_pb |} 0.

Definition ph_dosplit (p : phys) : phys :=
  let ub := ph_split p in                                            (* updatedBucketIdx *)
  let upd := fresh_main_writer (bucket_off ub) in                    (* a FRESH bucket, not read *)
  let newoff := bucket_off (nlen (ph_main p)) in                     (* main.extend(bucketSize) *)
  let p1 := set_main p (ph_main p ++ [empty_pb]) in
  let sw := fresh_main_writer newoff in
  let adv := advance (ph_level p) (ph_split p) in                    (* pointer advanced FIRST *)
  let p2 := set_ptr p1 (fst adv) (snd adv) in
  match ph_walk p2 ub with
  | None => p2
  | Some hs =>
    let r := fold_left (split_bucket (fst adv) (snd adv) ub) hs ((p2, upd, sw), []) in
    let p3 := fst (fst (fst r)) in
    let p4 := set_free p3 (ph_free p3 ++ snd r) in                   (* freeOverflowBucket(...) *)
    let p5 := swr_write p4 (snd (fst r)) in                          (* sw.write() *)
    let p6 := swr_write p5 (snd (fst (fst r))) in                    (* updatedBucket.write() *)
    set_nbuckets p6 (ph_nbuckets p6 + 1)
  end.

(* ================================================================================================ *)
(** * put, delete, promoteRecord, iteration *)

(* index.put up to and including numKeys++; None = error *)
Definition ph_put_core (p : phys) (sl : slot) (m : slot -> bool) : option (phys * option slot) :=
  match ph_walk p (ph_bidx p (sl_h sl)) with
  | None => None
  | Some hs =>
    match find_ins (hit (sl_h sl) m) hs None with
    | None => None
    | Some (w, old) =>
      let r := swr_insert p w sl in
      let p2 := swr_write (fst r) (snd r) in
      match old with
      | Some o => Some (p2, Some o)                                  (* overwritingExisting *)
      | None => Some (set_nkeys p2 (ph_nkeys p2 + 1), None)
      end
    end
  end.

(* index.put *)
Definition ph_put (grow : N -> N -> bool) (p : phys) (sl : slot) (m : slot -> bool)
    : phys * option slot :=
  match ph_put_core p sl m with
  | None => (p, None)
  | Some (p1, Some o) => (p1, Some o)
  | Some (p1, None) => (if grow (ph_nkeys p1) (ph_nbuckets p1) then ph_dosplit p1 else p1, None)
  end.

(* index.delete *)
Definition ph_del (p : phys) (h : N) (m : slot -> bool) : phys * option slot :=
  match ph_walk p (ph_bidx p h) with
  | None => (p, None)
  | Some hs =>
    match hit_loop (hit h m) hs with
    | None => (p, None)
    | Some (b, i, s) => (set_nkeys (write_bh p (bh_del b i)) (ph_nkeys p - 1), Some s)
    end
  end.

(* promoteRecord, index part: b.slots[i].segmentID = nseg; b.slots[i].offset = noff; b.write() *)
Definition ph_repoint (p : phys) (h seg off nseg noff : N) : option phys :=
  match ph_walk p (ph_bidx p h) with
  | None => None
  | Some hs =>
    match hit_loop (rp_hit h seg off) hs with
    | None => None
    | Some (b, i, s) => Some (write_bh p (bh_set_slot b i (rp_new nseg noff s)))
    end
  end.

Definition ph_count (p : phys) : N := ph_nkeys p.

(* ItemIterator.fetchItems *)
Definition ph_bucket (p : phys) (n : N) : list slot :=
  match ph_walk p n with
  | None => []
  | Some hs => concat (map (fun h => pb_live (bh_b h)) hs)
  end.

(* openIndex on empty files: one zero bucket in main.pix, nothing in overflow.pix *)
Definition ph_empty : phys :=
  {| ph_level := 0; ph_split := 0; ph_nkeys := 0; ph_nbuckets := 1;
     ph_main := [empty_pb]; ph_over := []; ph_free := [] |}.

Definition phys_ops : idx_ops phys :=
  {| ix_empty := ph_empty; ix_get := ph_get; ix_put := ph_put; ix_del := ph_del;
     ix_repoint := ph_repoint; ix_count := ph_count; ix_nbuckets := ph_nbuckets;
     ix_bucket := ph_bucket |}.

(* ================================================================================================ *)
(** * Byte images of the two index files *)

Definition pb_bytes (b : pbucket) : bytes := marshal_bucket (pb_slots b) (pb_next b).
Definition file_bytes (bs : list pbucket) : bytes := header_bytes ++ concat (map pb_bytes bs).
Definition ph_main_bytes (p : phys) : bytes := file_bytes (ph_main p).
Definition ph_over_bytes (p : phys) : bytes := file_bytes (ph_over p).

(* ================================================================================================ *)
(** * Variants of the algorithm, for the sensitivity witnesses *)
Module PhysVariants.

(* (a) index.split that calls freeOverflowBucket for the old overflow buckets of the chain BEFORE
   re-inserting the slots: a bucket that is still to be read is handed out again *)
Definition ph_dosplit_early_free (p : phys) : phys :=
  let ub := ph_split p in
  let upd := fresh_main_writer (bucket_off ub) in
  let newoff := bucket_off (nlen (ph_main p)) in
  let p1 := set_main p (ph_main p ++ [empty_pb]) in
  let sw := fresh_main_writer newoff in
  let adv := advance (ph_level p) (ph_split p) in
  let p2 := set_ptr p1 (fst adv) (snd adv) in
  match ph_walk p2 ub with
  | None => p2
  | Some hs =>
    let frees := map bh_off (tl hs) in
    let p2' := set_free p2 (ph_free p2 ++ frees) in
    let r := fold_left (split_bucket (fst adv) (snd adv) ub) hs ((p2', upd, sw), []) in
    let p3 := fst (fst (fst r)) in
    let p5 := swr_write p3 (snd (fst r)) in
    let p6 := swr_write p5 (snd (fst (fst r))) in
    set_nbuckets p6 (ph_nbuckets p6 + 1)
  end.

Definition ph_put_early_free (grow : N -> N -> bool) (p : phys) (sl : slot) (m : slot -> bool)
    : phys * option slot :=
  match ph_put_core p sl m with
  | None => (p, None)
  | Some (p1, Some o) => (p1, Some o)
  | Some (p1, None) =>
    (if grow (ph_nkeys p1) (ph_nbuckets p1) then ph_dosplit_early_free p1 else p1, None)
  end.

(* (a') index.split that forgets freeOverflowBucket: the old overflow buckets of the chain leak *)
Definition ph_dosplit_no_free (p : phys) : phys :=
  let ub := ph_split p in
  let upd := fresh_main_writer (bucket_off ub) in
  let newoff := bucket_off (nlen (ph_main p)) in
  let p1 := set_main p (ph_main p ++ [empty_pb]) in
  let sw := fresh_main_writer newoff in
  let adv := advance (ph_level p) (ph_split p) in
  let p2 := set_ptr p1 (fst adv) (snd adv) in
  match ph_walk p2 ub with
  | None => p2
  | Some hs =>
    let r := fold_left (split_bucket (fst adv) (snd adv) ub) hs ((p2, upd, sw), []) in
    let p3 := fst (fst (fst r)) in
    let p5 := swr_write p3 (snd (fst r)) in
    let p6 := swr_write p5 (snd (fst (fst r))) in
    set_nbuckets p6 (ph_nbuckets p6 + 1)
  end.

(* (b) createOverflowBucket that takes the head of the free list WITHOUT removing it *)
Definition create_overflow_nopop (p : phys) : phys * bhandle :=
  match ph_free p with
  | off :: fr => (p, {| bh_main := false; bh_off := off; bh_b := empty_pb |})
  | [] => (set_over p (ph_over p ++ [empty_pb]),
           {| bh_main := false; bh_off := bucket_off (nlen (ph_over p)); bh_b := empty_pb |})
  end.

Definition swr_insert_nopop (p : phys) (w : swriter) (sl : slot) : phys * swriter :=
  let pw :=
    if (sw_idx w =? 31)%nat then
      let pn := create_overflow_nopop p in
      (fst pn, {| sw_cur := snd pn; sw_idx := 0;
                  sw_prev := sw_prev w ++ [bh_set_next (sw_cur w) (bh_off (snd pn))] |})
    else (p, w) in
  (fst pw, {| sw_cur := bh_set_slot (sw_cur (snd pw)) (sw_idx (snd pw)) sl;
              sw_idx := S (sw_idx (snd pw)); sw_prev := sw_prev (snd pw) |}).

(* index.put without a split, on top of the wrong createOverflowBucket *)
Definition ph_put_nopop (p : phys) (sl : slot) (m : slot -> bool) : phys * option slot :=
  match ph_walk p (ph_bidx p (sl_h sl)) with
  | None => (p, None)
  | Some hs =>
    match find_ins (hit (sl_h sl) m) hs None with
    | None => (p, None)
    | Some (w, old) =>
      let r := swr_insert_nopop p w sl in
      let p2 := swr_write (fst r) (snd r) in
      match old with
      | Some o => (p2, Some o)
      | None => (set_nkeys p2 (ph_nkeys p2 + 1), None)
      end
    end
  end.

End PhysVariants.

(* ================================================================================================ *)
(** * Small computation examples *)
Module PhysEx.
Import PxEx.

Definition pput_keys (grow : N -> N -> bool) (p : phys) (n : nat) : phys :=
  fold_left (fun p i => fst (ph_put grow p (mk (N.of_nat i)) (is (N.of_nat i)))) (seq 1 n) p.

(* 40 slots with the same hash, no split: main bucket full, next = 512 (first block of
   overflow.pix), 9 slots there *)
Definition pex40 : phys := pput_keys grow0 ph_empty 40.

Example pex40_shape :
  map (fun b => (length (pb_live b), pb_next b)) (ph_main pex40) = [(31%nat, 512)] /\
  map (fun b => (length (pb_live b), pb_next b)) (ph_over pex40) = [(9%nat, 0)] /\
  ph_free pex40 = [] /\ ph_nkeys pex40 = 40 /\ ph_nbuckets pex40 = 1 /\
  ph_bucket pex40 0 = px_bucket ex40 0 /\
  ph_get pex40 7 (is 35) = Some (mk 35) /\ ph_get pex40 7 (is 41) = None.
Proof. vm_compute. repeat split. Qed.

(* the empty index files are a header and one zero block / a header *)
Example ph_empty_bytes :
  ph_main_bytes ph_empty = header_bytes ++ zeros 512 /\ ph_over_bytes ph_empty = header_bytes.
Proof. vm_compute. split; reflexivity. Qed.

End PhysEx.
