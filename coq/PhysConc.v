(* PhysConc.v -- CONCURRENCY for the database running on the PHYSICAL index ([phys_ops], Phys.v: bucket
   files addressed by byte offset, overflow-bucket allocation, free list):
     (1) any interleaving of compaction picks / compaction micro-steps with Put / Delete / Sync / reads
         preserves contents and invariants (DBProofsCompact.creach_ok, transferred and extended with
         the reads, the results and the pick), and
     (2) linearizability of concurrent histories (Linz.v: C07), for whole operations and with the
         compaction split into micro-steps that run as background actions.
   Three states are related in every statement:
        s1 : st phys   --- gst_rel PR ---   sp : st pindex   --- st_rel ---   sf : st flat
   (PhysProofs.PR p c = PhysInv p /\ R_phys p c /\ PInv c;  st_rel = gst_rel idx_rel).  Nothing is
   assumed of the phys state beyond [gst_rel PR s1 sp], nothing of the chain state beyond
   [st_rel sp sf]; Inv, CInv, MetaOK are hypotheses on the FLAT state, as in the chain theorems.  The
   side conditions of DBSimExact (sizes_ok, xok) are DERIVED (xok_chain_of_flat).
   No axioms (Print Assumptions at the end: all "Closed under the global context").  Nothing asked for
   turned out to be false, nothing is partial.

   0. groom s           the 32-bit condition [DBInv.room] stated on ANY instance (it mentions the sizes of
                        the open segments only): groom_flat, groom_rel (transfers along gst_rel), groom_b
   1. cact              APick | AStep | AOp o   (o : DBSim.op = Put, Delete, Get, GetAppend, Has, Count,
                        Items, Sync);  aspec: the plain map, picks and micro-steps do nothing
      op_guard s o      side condition of a caller's action, as in [creach]: Put: groom + valid arguments;
                        Delete: groom + byte-string key; reads, Sync: nothing
      gcreach ops P s c tr s' c'    GENERIC in the index: the labelled reachability relation; tr = the
                        actions with their results, oldest first.  A pick is enabled whenever
                        compact_pick succeeds (also during a compaction, whose cursor is then abandoned:
                        more general than pogreb's compaction mutex; section 5 has the mutex).
      gcreach_det (deterministic), gcreach_prefix, gcrun (executable) + gcrun_sound,
      gcreach_flat_creach    on flat_ops and without picks it IS DBProofsCompact.creach
   2. tri P s1 sp sf c  the invariant of a reachable triple;  ONE action on the three layers:
      tri_op (+ flat_op_ok, chain_flat_op), tri_step, tri_pick: same enabledness, EQUAL results on phys
      and chain, out_equiv on flat and on the map, tri again, contents by the map;
      tri_step_progress   the physical compaction never fails and stops exactly when the cursor is exhausted
   3. phys_creach := gcreach phys_ops
      phys_creach_ok    THE INTERLEAVING THEOREM: for every interleaving on the phys database, the same
                        trace is an interleaving of the chain database (equal results), the same actions
                        are one of the flat database (results up to the order of Items); final states
                        related; Inv, CInv, MetaOK of the flat one; phys_open_ok of the phys one; results
                        = those of the plain map up to out_equiv; contents = plain map after the callers'
                        operations (picks and micro-steps invisible); files_exact, d_bac preserved
      phys_creach_inv_everywhere   phys_open_ok in EVERY state the interleaving goes through
   4. C07_linearizable_phys            whole operations incl. Compact on [step' phys_ops P]: linearizable
                        w.r.t. the plain map (out_equiv'), the chain database (EQUAL results), the flat
                        database (out_equiv); hist_wf; final states related; phys_open_ok
      C07_linearizable_phys_from_empty, C07_read_your_writes_phys
   5. pmstep / pmguard / pmbg / pmsim  the micro-step machine on (st phys * cursor): the guard is
                        [op_guard] on the PHYSICAL state (weaker than Linz.mguard: reads and Sync are
                        unguarded), background = one critical section of the running compaction, or a
                        pick when compact_step answers CDone
      C07_linearizable_microsteps_phys  every history is linearizable w.r.t. the plain map up to
                        out_equiv; final triple related, Inv, CInv, MetaOK, phys_open_ok, contents
      exec_phys_creach  the shared-state actions of such an execution are a [phys_creach]
      pmguardb, pmbgf + _ok   executable versions
   6. Module PhysConcEx (vm_compute): Open + 35 colliding Puts, six segments, 31 slots in the main bucket
      and 4 in an overflow bucket (s1X_shape); X_rel: the hypotheses hold.  ex_acts = pick; 4 micro-steps;
      Put, Get, Delete IN THE WINDOW; 43 micro-steps to the end; Count, Get, Get, Items: evaluated on
      phys_ops, chain_ops, flat_ops: EQUAL outputs (ex_outputs); six segments compacted and removed, one
      record reclaimed, overflow bucket still in use (ex_final_state); the map returns the same except
      for the order of Items (ex_spec); phys_creach_ok applied (ex_creach: final contents
      sdel (sput contents k5 v50) k2).  wh_*: a four-thread history with a whole Compact, linearization
      exhibited; mi_*: 48 background actions between the actions of three clients.

   DEVIATIONS / REMARKS
     - [creach] has the list of writer operations as its label and no results; [gcreach] is labelled with
       every action and its result (needed to say "same outputs").  gcreach_flat_creach links the two.
     - Linz.C07_linearizable_microsteps is stated for the FLAT-index database (not the chain one); the
       phys version goes phys -> chain -> flat -> map inside [pmsim].
     - C07_linearizable_phys concludes [phys_open_ok] under [s_mem sf' <> None] (Inv alone does not say
       that the handle is open; with a non-empty list of actions rooms' does). *)
From Coq Require Import List Arith Lia NArith Permutation.
From Pogreb Require Import Base BaseLemmas Record Flat Index Spec DB DBInv DBLemmas DBProofsOps DBMeta
  DBProofsCompact DBSim DBRun DBSimExact Bucket Phys PhysProofs PhysDB DBSimSessions PhysCrash Linz.
Import ListNotations.

Local Notation st1 := (@DB.st phys).
Local Notation stp := (@DB.st pindex).
Local Notation stf := (@DB.st flat).

(* ================================================================================================ *)
(** * 0. The 32-bit side condition, stated on ANY instance *)

(* [DBInv.room] mentions the sizes of the open segments only; it does not depend on the index *)
Definition groom {I} (s : @DB.st I) : Prop :=
  exists m, s_mem s = Some m /\ forall g, In g (m_segs m) -> g_size g + rec_max < 4294967296.

Definition groom_b {I} (s : @DB.st I) : bool :=
  match s_mem s with
  | Some m => forallb (fun g => g_size g + rec_max <? 4294967296) (m_segs m)
  | None => false
  end.

Lemma groom_b_ok {I} (s : @DB.st I) : groom_b s = true -> groom s.
Proof.
  unfold groom_b, groom. destruct (s_mem s) as [m|]; [|discriminate]. intros H.
  exists m. split; [reflexivity|]. intros g Hg.
  rewrite forallb_forall in H. apply N.ltb_lt. exact (H g Hg).
Qed.

Lemma groom_flat (sf : stf) : groom sf <-> (exists m, s_mem sf = Some m /\ room m).
Proof. unfold groom, room. tauto. Qed.

Lemma groom_rel {I1 I2} (R : I1 -> I2 -> Prop) (s1 : @DB.st I1) (s2 : @DB.st I2) :
  gst_rel R s1 s2 -> (groom s1 <-> groom s2).
Proof.
  intros Hs. unfold groom.
  destruct (st_rel_mem_cases R _ _ Hs) as [[E1 E2]|(m1 & m2 & E1 & E2 & Hm)]; rewrite E1, E2.
  - split; intros (m & E & _); discriminate E.
  - pose proof (mem_rel_segs R _ _ Hm) as Es. split; intros (m & E & H); injection E as <-.
    + exists m2. split; [reflexivity|]. rewrite <- Es. exact H.
    + exists m1. split; [reflexivity|]. rewrite Es. exact H.
Qed.

Lemma groom_open {I} (s : @DB.st I) : groom s -> s_mem s <> None.
Proof. intros (m & E & _). congruence. Qed.

(* ================================================================================================ *)
(** * 1. Actions; the reachability relation on ANY instance *)

(* what the compactor and the callers do to the shared state, one critical section each *)
Inductive cact := APick | AStep | AOp (o : op).

(* the specification: the plain map; the compactor's actions do nothing and return nothing *)
Definition aspec (m : smap) (a : cact) : smap * out :=
  match a with AOp o => step_spec m o | _ => (m, OOk) end.

(* side condition of a caller's action (as in [DBProofsCompact.creach]): Put needs the 32-bit
   condition and valid arguments, Delete the 32-bit condition and a byte-string key; the reads and
   Sync need nothing *)
Definition op_guard {I} (s : @DB.st I) (o : op) : Prop :=
  match o with
  | OpPut k v => groom s /\ op_valid (OpPut k v)
  | OpDelete k => groom s /\ Forall byte k
  | _ => True
  end.

Definition op_guard_b {I} (s : @DB.st I) (o : op) : bool :=
  match o with
  | OpPut k v => groom_b s && op_valid_b (OpPut k v)
  | OpDelete k => groom_b s && forallb (fun b => b <? 256) k
  | _ => true
  end.

Lemma op_guard_b_ok {I} (s : @DB.st I) o : op_guard_b s o = true -> op_guard s o.
Proof.
  destruct o as [k v|k|k|k buf|k| | |]; cbn [op_guard_b op_guard]; try (intros _; exact Logic.I);
    rewrite andb_true_iff; intros [A B]; (split; [apply groom_b_ok; exact A|]).
  - apply op_valid_b_ok. exact B.
  - apply forallb_byte. exact B.
Qed.

Lemma op_guard_rel {I1 I2} (R : I1 -> I2 -> Prop) (s1 : @DB.st I1) (s2 : @DB.st I2) o :
  gst_rel R s1 s2 -> (op_guard s1 o <-> op_guard s2 o).
Proof.
  intros Hs. pose proof (groom_rel R s1 s2 Hs) as H.
  destruct o as [k v|k|k|k buf|k| | |]; cbn [op_guard]; tauto.
Qed.

Section GReach.
Context {I : Type}.
Variable ops : idx_ops I.
Variable P : params.
Local Notation st := (@DB.st I).

(* [gcreach s c tr s' c']: from the database s with compaction cursor c, the actions [map fst tr]
   (in this order: picks, compaction micro-steps, Put / Delete / Get / GetAppend / Has / Count / Items /
   Sync, interleaved in ANY way) lead to (s', c') and return [map snd tr].
   A micro-step is enabled when [compact_step] answers CMore (and the 32-bit condition holds); a pick
   whenever [compact_pick] succeeds -- also while a compaction is in progress, whose cursor is then
   abandoned (more general than what pogreb does: there the compaction mutex delays the next pick
   until the cursor is exhausted; the linearizability section below has exactly that restriction). *)
Inductive gcreach : st -> cursor -> list (cact * out) -> st -> cursor -> Prop :=
| gcr_refl s c : gcreach s c [] s c
| gcr_pick s c tr s1 c1 s2 c2 :
    gcreach s c tr s1 c1 -> compact_pick ops P s1 = Some (s2, c2) ->
    gcreach s c (tr ++ [(APick, OOk)]) s2 c2
| gcr_step s c tr s1 c1 s2 c2 :
    gcreach s c tr s1 c1 -> groom s1 -> compact_step ops P s1 c1 = CMore s2 c2 ->
    gcreach s c (tr ++ [(AStep, OOk)]) s2 c2
| gcr_op s c tr s1 c1 o :
    gcreach s c tr s1 c1 -> op_guard s1 o ->
    gcreach s c (tr ++ [(AOp o, snd (step ops P s1 o))]) (fst (step ops P s1 o)) c1.

(* the relation is deterministic: the list of actions determines the results and the final state *)
Lemma gcreach_det s c tr1 s1 c1 : gcreach s c tr1 s1 c1 -> forall tr2 s2 c2,
  gcreach s c tr2 s2 c2 -> map fst tr1 = map fst tr2 -> tr1 = tr2 /\ s1 = s2 /\ c1 = c2.
Proof.
  intros H1.
  induction H1 as [s c|s c tr sa ca sb cb H1 IH Ep|s c tr sa ca sb cb H1 IH Hg Es|s c tr sa ca o H1 IH Hg];
    intros tr2 s2 c2 H2 E.
  - destruct H2 as [s c|s c tr' sa' ca' sb' cb' H2 Ep'|s c tr' sa' ca' sb' cb' H2 Hg' Es'|s c tr' sa' ca' o' H2 Hg'];
      [auto|..]; rewrite map_app in E; symmetry in E; apply app_eq_nil in E; destruct E as [_ E]; discriminate E.
  - destruct H2 as [s c|s c tr' sa' ca' sb' cb' H2 Ep'|s c tr' sa' ca' sb' cb' H2 Hg' Es'|s c tr' sa' ca' o' H2 Hg'];
      rewrite ?map_app in E; cbn [map fst] in E;
      [apply app_eq_nil in E; destruct E as [_ E]; discriminate E|..];
      apply app_inj_tail in E; destruct E as [E Ex]; try discriminate Ex.
    destruct (IH _ _ _ H2 E) as (-> & -> & ->). rewrite Ep in Ep'. injection Ep' as <- <-. auto.
  - destruct H2 as [s c|s c tr' sa' ca' sb' cb' H2 Ep'|s c tr' sa' ca' sb' cb' H2 Hg' Es'|s c tr' sa' ca' o' H2 Hg'];
      rewrite ?map_app in E; cbn [map fst] in E;
      [apply app_eq_nil in E; destruct E as [_ E]; discriminate E|..];
      apply app_inj_tail in E; destruct E as [E Ex]; try discriminate Ex.
    destruct (IH _ _ _ H2 E) as (-> & -> & ->). rewrite Es in Es'. injection Es' as <- <-. auto.
  - destruct H2 as [s c|s c tr' sa' ca' sb' cb' H2 Ep'|s c tr' sa' ca' sb' cb' H2 Hg' Es'|s c tr' sa' ca' o' H2 Hg'];
      rewrite ?map_app in E; cbn [map fst] in E;
      [apply app_eq_nil in E; destruct E as [_ E]; discriminate E|..];
      apply app_inj_tail in E; destruct E as [E Ex]; try discriminate Ex.
    destruct (IH _ _ _ H2 E) as (-> & -> & ->). injection Ex as <-. auto.
Qed.

(* the executable version: run a list of actions; None if one of them is not enabled *)
Definition gcact (x : st * cursor) (a : cact) : option (st * cursor * out) :=
  match a with
  | APick => match compact_pick ops P (fst x) with
             | Some y => Some (y, OOk)
             | None => None
             end
  | AStep => if groom_b (fst x) then
               match compact_step ops P (fst x) (snd x) with
               | CMore s' c' => Some (s', c', OOk)
               | _ => None
               end
             else None
  | AOp o => if op_guard_b (fst x) o
             then Some (fst (step ops P (fst x) o), snd x, snd (step ops P (fst x) o)) else None
  end.

Fixpoint gcrun (x : st * cursor) (l : list cact) (acc : list (cact * out)) :
    option (st * cursor * list (cact * out)) :=
  match l with
  | [] => Some (x, acc)
  | a :: l' => match gcact x a with
               | Some (y, r) => gcrun y l' (acc ++ [(a, r)])
               | None => None
               end
  end.

Lemma gcrun_sound l : forall s0 c0 s c acc s' c' tr,
  gcreach s0 c0 acc s c -> gcrun (s, c) l acc = Some (s', c', tr) ->
  gcreach s0 c0 tr s' c' /\ map fst tr = map fst acc ++ l.
Proof.
  induction l as [|a l IH]; intros s0 c0 s c acc s' c' tr Hr E; cbn [gcrun] in E.
  - injection E as <- <- <-. split; [exact Hr|]. rewrite app_nil_r. reflexivity.
  - destruct (gcact (s, c) a) as [[[s2 c2] r]|] eqn:Ea; [|discriminate E].
    assert (Hr' : gcreach s0 c0 (acc ++ [(a, r)]) s2 c2).
    { destruct a as [| |o]; cbn [gcact fst snd] in Ea.
      - destruct (compact_pick ops P s) as [[s3 c3]|] eqn:Ep; [|discriminate Ea].
        injection Ea as <- <- <-. exact (gcr_pick _ _ _ _ _ _ _ Hr Ep).
      - destruct (groom_b s) eqn:Eg; [|discriminate Ea].
        destruct (compact_step ops P s c) as [|s3 c3|w] eqn:Es; try discriminate Ea.
        injection Ea as <- <- <-. exact (gcr_step _ _ _ _ _ _ _ Hr (groom_b_ok _ Eg) Es).
      - destruct (op_guard_b s o) eqn:Eg; [|discriminate Ea].
        injection Ea as <- <- <-. exact (gcr_op _ _ _ _ _ _ Hr (op_guard_b_ok _ _ Eg)). }
    destruct (IH s0 c0 s2 c2 _ s' c' tr Hr' E) as [A B]. split; [exact A|].
    rewrite B, map_app, <- app_assoc. reflexivity.
Qed.
End GReach.

(* on the flat index, without picks, this is [DBProofsCompact.creach] (whose label is the list of
   writer operations) *)
Definition wops_of (x : cact * out) : list wop :=
  match fst x with
  | AOp (OpPut k v) => [WPut k v]
  | AOp (OpDelete k) => [WDel k]
  | _ => []
  end.

Lemma gcreach_flat_creach P (s : stf) c tr s' c' :
  gcreach flat_ops P s c tr s' c' -> ~ In APick (map fst tr) ->
  creach P s c (flat_map wops_of tr) s' c'.
Proof.
  intros Hr. induction Hr as [s c|s c tr s1 c1 s2 c2 Hr IH Ep|s c tr s1 c1 s2 c2 Hr IH Hg Es|s c tr s1 c1 o Hr IH Hg];
    intros Hn; rewrite ?map_app, ?flat_map_app in *; cbn [map flat_map fst wops_of app] in *.
  - constructor.
  - exfalso. apply Hn. apply in_or_app. right. left. reflexivity.
  - rewrite app_nil_r. apply (cr_step P s c _ s1 c1 s2 c2); [|exact (proj1 (groom_flat s1) Hg)|exact Es].
    apply IH. intros H. apply Hn. apply in_or_app. left. exact H.
  - assert (IH' : creach P s c (flat_map wops_of tr) s1 c1).
    { apply IH. intros H. apply Hn. apply in_or_app. left. exact H. }
    destruct o as [k v|k|k|k buf|k| | |]; cbn [step fst snd app] in *; rewrite ?app_nil_r; try exact IH'.
    + destruct Hg as (Hg & Hbk & Hbv & Hk & Hv).
      apply cr_put; [exact IH'|exact (proj1 (groom_flat s1) Hg)|assumption..].
    + destruct Hg as (Hg & Hbk). apply cr_del; [exact IH'|exact (proj1 (groom_flat s1) Hg)|exact Hbk].
    + apply cr_sync. exact IH'.
Qed.

(* ================================================================================================ *)
(** * 2. One action on the three layers   phys --PR--> chain --idx_rel--> flat *)

(* what is known of a reachable triple of states; every hypothesis except the two relations is about
   the FLAT state *)
Record tri (P : params) (s1 : st1) (sp : stp) (sf : stf) (c : cursor) : Prop := mk_tri {
  t_1p : gst_rel PR s1 sp;
  t_pf : st_rel sp sf;
  t_inv : Inv P sf;
  t_cinv : CInv sf c;
  t_meta : MetaOK sf }.

Lemma tri_open P s1 sp sf c : tri P s1 sp sf c -> s_mem sf <> None.
Proof. intros [_ _ _ (m & E & _) _]. congruence. Qed.

Lemma tri_phys_ok P s1 sp sf c : tri P s1 sp sf c -> phys_open_ok s1.
Proof. intros T. exact (PR_open_ok s1 sp sf (t_1p _ _ _ _ _ T) (t_pf _ _ _ _ _ T) (tri_open _ _ _ _ _ T)). Qed.

(* ---- a caller's action on the flat database (as Linz.flat_step_ok, with the finer side condition
        of [creach] and the two file facts of [creach_ok]) ---- *)
Lemma flat_op_ok P (s : stf) (c : cursor) o :
  params_ok P -> Inv P s -> CInv s c -> op_guard s o ->
  let s' := fst (step flat_ops P s o) in
  Inv P s' /\ CInv s' c /\ (MetaOK s -> MetaOK s') /\
  meq (abs (s_disk s')) (fst (step_spec (abs (s_disk s)) o)) /\
  out_equiv (snd (step flat_ops P s o)) (snd (step_spec (abs (s_disk s)) o)) /\
  (files_exact s -> files_exact s') /\ d_bac (s_disk s') = d_bac (s_disk s).
Proof.
  intros HP HI HC Hg. cbv zeta.
  assert (Hopen : s_mem s <> None) by (destruct HC as (m & -> & _); discriminate).
  destruct o as [k v|k|k|k buf|k| | |]; cbn [step step_spec fst snd out_equiv op_guard] in *.
  - destruct Hg as (Hroom & Hbk & Hbv & Hkl & Hvl). apply groom_flat in Hroom.
    pose proof (put_ok P s k v HP HI Hroom Hbk Hbv Hkl Hvl) as Hput.
    destruct (put_preserves P s c k v HI Hroom Hbk Hbv Hkl Hvl HC) as (C2 & M2 & F2 & B2).
    destruct (db_put flat_ops P k v s) as [s2 o]. cbn [fst snd] in *.
    destruct Hput as (-> & I2 & _ & A2).
    split; [exact I2|]. split; [exact C2|]. split; [exact M2|]. split; [|split; [reflexivity|split; assumption]].
    intros k'. rewrite A2, sget_sput. reflexivity.
  - destruct Hg as (Hroom & Hk). apply groom_flat in Hroom.
    pose proof (delete_ok P s k HP HI Hroom Hk) as Hdel.
    destruct (delete_preserves P s c k HI Hroom Hk HC) as (C2 & M2 & F2 & B2).
    destruct (db_delete flat_ops P k s) as [s2 o]. cbn [fst snd] in *.
    destruct Hdel as (-> & I2 & _ & A2 & _).
    split; [exact I2|]. split; [exact C2|]. split; [exact M2|]. split; [|split; [reflexivity|split; assumption]].
    intros k'. rewrite A2, sget_sdel. reflexivity.
  - rewrite (get_ok P s k HI Hopen).
    exact (conj HI (conj HC (conj (fun H => H) (conj (meq_refl _) (conj eq_refl (conj (fun H => H) eq_refl)))))).
  - rewrite (get_append_ok P s k buf HI Hopen).
    exact (conj HI (conj HC (conj (fun H => H) (conj (meq_refl _) (conj eq_refl (conj (fun H => H) eq_refl)))))).
  - rewrite (has_ok P s k HI Hopen).
    exact (conj HI (conj HC (conj (fun H => H) (conj (meq_refl _) (conj eq_refl (conj (fun H => H) eq_refl)))))).
  - rewrite (count_ok P s HI Hopen).
    exact (conj HI (conj HC (conj (fun H => H) (conj (meq_refl _) (conj eq_refl (conj (fun H => H) eq_refl)))))).
  - destruct (items_ok P s HI Hopen) as (l & -> & Hl).
    exact (conj HI (conj HC (conj (fun H => H) (conj (meq_refl _) (conj Hl (conj (fun H => H) eq_refl)))))).
  - pose proof (sync_ok P s HI Hopen) as Hsy.
    destruct (sync_preserves s c HC) as (C2 & M2 & F2 & B2).
    destruct (db_sync flat_ops s) as [s2 o]. cbn [fst snd] in *.
    destruct Hsy as (-> & I2 & E2 & _).
    split; [exact I2|]. split; [exact C2|]. split; [exact M2|]. split; [|split; [reflexivity|split; assumption]].
    rewrite E2. apply meq_refl.
Qed.

(* ---- a caller's action, chain index against flat index ---- *)
Lemma chain_flat_op P (sp : stp) (sf : stf) o :
  st_rel sp sf -> Inv P sf -> op_guard sf o ->
  st_rel (fst (step chain_ops P sp o)) (fst (step flat_ops P sf o)) /\
  out_equiv (snd (step chain_ops P sp o)) (snd (step flat_ops P sf o)).
Proof.
  intros Hs HI Hg. destruct o as [k v|k|k|k buf|k| | |]; cbn [step fst snd op_guard] in *.
  - destruct Hg as (Hroom & Hbk & Hbv & Hk & Hvl). apply groom_flat in Hroom.
    destruct (sim_put_so P sp sf k v Hs HI Hroom Hbk Hbv Hk Hvl) as [Eo Hs'].
    split; [exact Hs'|]. rewrite Eo. apply out_equiv_refl.
  - destruct (sim_delete_so P sp sf k Hs HI) as [Eo Hs'].
    split; [exact Hs'|]. rewrite Eo. apply out_equiv_refl.
  - split; [exact Hs|]. rewrite (sim_get P sp sf k Hs HI). apply out_equiv_refl.
  - split; [exact Hs|]. rewrite (sim_get_append P sp sf k buf Hs HI). apply out_equiv_refl.
  - split; [exact Hs|]. rewrite (sim_has P sp sf k Hs HI). apply out_equiv_refl.
  - split; [exact Hs|]. rewrite (sim_count sp sf Hs). apply out_equiv_refl.
  - split; [exact Hs|]. apply (sim_items P); assumption.
  - destruct (sync_rel idx_rel chain_ops flat_ops idx_rel_empty sp sf Hs) as [Eo Hs'].
    split; [exact Hs'|]. rewrite Eo. apply out_equiv_refl.
Qed.

(* ---- a caller's action on the three layers ---- *)
Lemma tri_op P (s1 : st1) (sp : stp) (sf : stf) c o :
  params_ok P -> tri P s1 sp sf c -> op_guard s1 o ->
  op_guard sp o /\ op_guard sf o /\
  snd (step phys_ops P s1 o) = snd (step chain_ops P sp o) /\
  out_equiv (snd (step chain_ops P sp o)) (snd (step flat_ops P sf o)) /\
  tri P (fst (step phys_ops P s1 o)) (fst (step chain_ops P sp o)) (fst (step flat_ops P sf o)) c /\
  meq (abs (s_disk (fst (step flat_ops P sf o)))) (fst (step_spec (abs (s_disk sf)) o)) /\
  out_equiv (snd (step flat_ops P sf o)) (snd (step_spec (abs (s_disk sf)) o)) /\
  (files_exact sf -> files_exact (fst (step flat_ops P sf o))) /\
  d_bac (s_disk (fst (step flat_ops P sf o))) = d_bac (s_disk sf).
Proof.
  intros HP [H1 Hs HI HC HM] Hg.
  pose proof (proj1 (op_guard_rel PR s1 sp o H1) Hg) as Hgp.
  pose proof (proj1 (op_guard_rel idx_rel sp sf o Hs) Hgp) as Hgf.
  assert (Hx : op_xok chain_ops P sp (OpBase o)).
  { destruct o as [k v|k|k|k buf|k| | |]; cbn [op_xok]; try exact Logic.I.
    destruct Hgf as (Hroom & _). apply groom_flat in Hroom.
    exact (proj1 (xok_chain_of_flat P sp sf Hs HI Hroom)). }
  destruct (xsim_step' phys_ops chain_ops PR phys_exact_sim P s1 sp (OpBase o) H1 Hx) as [Eo H1'].
  cbn [step'] in Eo, H1'.
  destruct (chain_flat_op P sp sf o Hs HI Hgf) as [Hs' Oe].
  destruct (flat_op_ok P sf c o HP HI HC Hgf) as (I2 & C2 & M2 & A2 & O2 & F2 & B2).
  split; [exact Hgp|]. split; [exact Hgf|]. split; [exact Eo|]. split; [exact Oe|].
  split; [constructor; [exact H1'|exact Hs'|exact I2|exact C2|exact (M2 HM)]|].
  split; [exact A2|]. split; [exact O2|]. split; [exact F2|exact B2].
Qed.

(* ---- one critical section of the compaction on the three layers ---- *)
Lemma tri_step P (s1 : st1) (sp : stp) (sf : stf) c s1' c' :
  tri P s1 sp sf c -> groom s1 -> compact_step phys_ops P s1 c = CMore s1' c' ->
  exists sp' sf',
    compact_step chain_ops P sp c = CMore sp' c' /\ compact_step flat_ops P sf c = CMore sf' c' /\
    groom sp /\ groom sf /\ tri P s1' sp' sf' c' /\
    meq (abs (s_disk sf')) (abs (s_disk sf)) /\
    (files_exact sf -> files_exact sf') /\ d_bac (s_disk sf') = d_bac (s_disk sf).
Proof.
  intros [H1 Hs HI HC HM] Hg E.
  pose proof (proj1 (groom_rel PR s1 sp H1) Hg) as Hgp.
  pose proof (proj1 (groom_rel idx_rel sp sf Hs) Hgp) as Hgf.
  pose proof (proj1 (groom_flat sf) Hgf) as Hroom.
  pose proof (xsim_compact_step phys_ops chain_ops PR phys_exact_sim P s1 sp c H1
                (xok_chain_of_flat P sp sf Hs HI Hroom)) as X1.
  rewrite E in X1.
  destruct (compact_step chain_ops P sp c) as [|sp' cp|wp] eqn:Ep; inversion X1; subst.
  pose proof (sim_compact_step P sp sf c Hs HI) as X2. rewrite Ep in X2.
  destruct (compact_step flat_ops P sf c) as [|sf' cf|wf] eqn:Ef; inversion X2; subst.
  pose proof (compact_step_ok_ex P sf c HI HC Hroom) as X3. rewrite Ef in X3.
  destruct X3 as (I2 & C2 & _ & A2 & _ & M2 & F2 & B2).
  exists sp', sf'. split; [reflexivity|]. split; [reflexivity|]. split; [exact Hgp|]. split; [exact Hgf|].
  split; [constructor; [assumption|assumption|exact I2|exact C2|exact (M2 HM)]|].
  split; [exact A2|]. split; [exact F2|exact B2].
Qed.

(* ---- pickForCompaction on the three layers ---- *)
Lemma tri_pick P (s1 : st1) (sp : stp) (sf : stf) c s1' c' :
  tri P s1 sp sf c -> compact_pick phys_ops P s1 = Some (s1', c') ->
  exists sp' sf',
    compact_pick chain_ops P sp = Some (sp', c') /\ compact_pick flat_ops P sf = Some (sf', c') /\
    tri P s1' sp' sf' c' /\ s_disk sf' = s_disk sf /\ c_src c' = None.
Proof.
  intros T E. pose proof (tri_open _ _ _ _ _ T) as Hopen. destruct T as [H1 Hs HI HC HM].
  pose proof (xsim_compact_pick phys_ops chain_ops PR phys_exact_sim P s1 sp H1) as X1.
  rewrite E in X1. unfold pick_res_rel in X1.
  destruct (compact_pick chain_ops P sp) as [[sp' cp]|] eqn:Ep; [|contradiction].
  destruct X1 as [H1' <-].
  pose proof (compact_pick_rel idx_rel chain_ops flat_ops idx_rel_empty P sp sf Hs) as X2.
  rewrite Ep in X2. unfold pick_res_rel in X2.
  destruct (compact_pick_ok P sf HI HM Hopen) as (sf' & cf & Ef & I2 & C2 & Ed & M2 & Esrc & _).
  rewrite Ef in X2. destruct X2 as [Hs' <-].
  exists sp', sf'. split; [reflexivity|]. split; [exact Ef|].
  split; [constructor; assumption|]. split; [exact Ed|exact Esrc].
Qed.

(* the physical compaction never fails and stops exactly when the cursor is exhausted *)
Lemma tri_step_progress P (s1 : st1) (sp : stp) (sf : stf) c :
  tri P s1 sp sf c -> groom s1 ->
  match compact_step phys_ops P s1 c with
  | CDone => c_src c = None /\ c_todo c = [] /\
             compact_step chain_ops P sp c = CDone /\ compact_step flat_ops P sf c = CDone
  | CMore _ _ => True
  | CFail _ => False
  end.
Proof.
  intros [H1 Hs HI HC HM] Hg.
  pose proof (proj1 (groom_rel PR s1 sp H1) Hg) as Hgp.
  pose proof (proj1 (groom_rel idx_rel sp sf Hs) Hgp) as Hgf.
  pose proof (proj1 (groom_flat sf) Hgf) as Hroom.
  pose proof (xsim_compact_step phys_ops chain_ops PR phys_exact_sim P s1 sp c H1
                (xok_chain_of_flat P sp sf Hs HI Hroom)) as X1.
  pose proof (sim_compact_step P sp sf c Hs HI) as X2.
  pose proof (compact_step_ok_ex P sf c HI HC Hroom) as X3.
  destruct (compact_step phys_ops P s1 c) as [|s1' c1|w1]; [|exact Logic.I|];
    destruct (compact_step chain_ops P sp c) as [|sp' cp|wp]; inversion X1; subst;
    destruct (compact_step flat_ops P sf c) as [|sf' cf|wf]; inversion X2; subst.
  - destruct X3 as [A B]. auto.
  - exact X3.
Qed.

(* ================================================================================================ *)
(** * 3. Every interleaving on the physical-index database *)

Lemma seq_final_snoc {X O R} (f : X -> O -> X * R) x l a :
  seq_final f x (l ++ [a]) = fst (f (seq_final f x l) a).
Proof. rewrite seq_final_app. reflexivity. Qed.

Lemma seq_run_snoc {X O R} (f : X -> O -> X * R) x l a :
  seq_run f x (l ++ [a]) = seq_run f x l ++ [snd (f (seq_final f x l) a)].
Proof. rewrite seq_run_app. reflexivity. Qed.

(* the reachability relation of the physical-index database *)
Definition phys_creach (P : params) : st1 -> cursor -> list (cact * out) -> st1 -> cursor -> Prop :=
  gcreach phys_ops P.

Lemma phys_creach_tri P (s1 : st1) (sp : stp) (sf : stf) c tr s1' c' :
  params_ok P -> tri P s1 sp sf c -> phys_creach P s1 c tr s1' c' ->
  exists sp' sf' trf,
    gcreach chain_ops P sp c tr sp' c' /\
    gcreach flat_ops P sf c trf sf' c' /\ map fst trf = map fst tr /\
    Forall2 out_equiv (map snd tr) (map snd trf) /\
    tri P s1' sp' sf' c' /\
    Forall2 out_equiv (map snd tr) (seq_run aspec (abs (s_disk sf)) (map fst tr)) /\
    meq (abs (s_disk sf')) (seq_final aspec (abs (s_disk sf)) (map fst tr)) /\
    NoDup (map fst (seq_final aspec (abs (s_disk sf)) (map fst tr))) /\
    (files_exact sf -> files_exact sf') /\ d_bac (s_disk sf') = d_bac (s_disk sf).
Proof.
  intros HP T Hr. unfold phys_creach in Hr.
  induction Hr as [s c|s c tr s1 c1 s2 c2 Hr IH Ep|s c tr s1 c1 s2 c2 Hr IH Hg Es|s c tr s1 c1 o Hr IH Hg].
  - exists sp, sf, []. split; [constructor|]. split; [constructor|]. split; [reflexivity|].
    split; [constructor|]. split; [exact T|]. split; [constructor|]. split; [apply meq_refl|].
    split; [apply abs_NoDup|]. split; [exact (fun H => H)|reflexivity].
  - destruct (IH T) as (sp1 & sf1 & trf & Rp & Rf & Em & Of & T1 & Os & Q1 & N1 & F1 & B1).
    destruct (tri_pick P s1 sp1 sf1 c1 s2 c2 T1 Ep) as (sp2 & sf2 & Epp & Epf & T2 & Ed & _).
    exists sp2, sf2, (trf ++ [(APick, OOk)]).
    rewrite !map_app. cbn [map fst snd]. rewrite seq_run_snoc, seq_final_snoc. cbn [aspec fst snd].
    split; [exact (gcr_pick chain_ops P _ _ _ _ _ _ _ Rp Epp)|].
    split; [exact (gcr_pick flat_ops P _ _ _ _ _ _ _ Rf Epf)|].
    split; [rewrite Em; reflexivity|].
    split; [apply lz_Forall2_snoc; [exact Of|reflexivity]|].
    split; [exact T2|].
    split; [apply lz_Forall2_snoc; [exact Os|reflexivity]|].
    split; [rewrite Ed; exact Q1|]. split; [exact N1|].
    split; [|rewrite Ed; exact B1].
    intros H. specialize (F1 H). unfold files_exact in *. rewrite Ed. exact F1.
  - destruct (IH T) as (sp1 & sf1 & trf & Rp & Rf & Em & Of & T1 & Os & Q1 & N1 & F1 & B1).
    destruct (tri_step P s1 sp1 sf1 c1 s2 c2 T1 Hg Es) as (sp2 & sf2 & Esp & Esf & Hgp & Hgf & T2 & A2 & F2 & B2).
    exists sp2, sf2, (trf ++ [(AStep, OOk)]).
    rewrite !map_app. cbn [map fst snd]. rewrite seq_run_snoc, seq_final_snoc. cbn [aspec fst snd].
    split; [exact (gcr_step chain_ops P _ _ _ _ _ _ _ Rp Hgp Esp)|].
    split; [exact (gcr_step flat_ops P _ _ _ _ _ _ _ Rf Hgf Esf)|].
    split; [rewrite Em; reflexivity|].
    split; [apply lz_Forall2_snoc; [exact Of|reflexivity]|].
    split; [exact T2|].
    split; [apply lz_Forall2_snoc; [exact Os|reflexivity]|].
    split; [eapply meq_trans; eassumption|]. split; [exact N1|].
    split; [auto|congruence].
  - destruct (IH T) as (sp1 & sf1 & trf & Rp & Rf & Em & Of & T1 & Os & Q1 & N1 & F1 & B1).
    destruct (tri_op P s1 sp1 sf1 c1 o HP T1 Hg) as (Hgp & Hgf & Eo & Oe & T2 & A2 & O2 & F2 & B2).
    destruct (step_spec_meq (abs (s_disk sf1)) _ o (abs_NoDup _) N1 Q1) as (Q2 & N2 & O3).
    exists (fst (step chain_ops P sp1 o)), (fst (step flat_ops P sf1 o)),
           (trf ++ [(AOp o, snd (step flat_ops P sf1 o))]).
    rewrite !map_app. cbn [map fst snd]. rewrite seq_run_snoc, seq_final_snoc. cbn [aspec fst snd].
    split; [rewrite Eo; exact (gcr_op chain_ops P _ _ _ _ _ _ Rp Hgp)|].
    split; [exact (gcr_op flat_ops P _ _ _ _ _ _ Rf Hgf)|].
    split; [rewrite Em; reflexivity|].
    split; [apply lz_Forall2_snoc; [exact Of|rewrite Eo; exact Oe]|].
    split; [exact T2|].
    split.
    { apply lz_Forall2_snoc; [exact Os|]. rewrite Eo.
      eapply out_equiv_trans; [exact Oe|]. eapply out_equiv_trans; [exact O2|exact O3]. }
    split; [eapply meq_trans; eassumption|]. split; [exact N2|].
    split; [auto|congruence].
Qed.

(* THE INTERLEAVING THEOREM for the physical index.  From states related
        s1 : st phys  --gst_rel PR-->  sp : st pindex  --st_rel-->  sf : st flat
   with Inv, CInv (for the cursor c of the compaction in progress; [DBRun.c0] if there is none) and
   MetaOK of the flat state: for EVERY interleaving of picks, compaction micro-steps and Put / Delete /
   Get / GetAppend / Has / Count / Items / Sync on the physical-index database
     - the same actions are enabled, in the same order, on the chain-index database and return EQUAL
       results (the trace tr is the same), and on the flat-index database, where they return the same
       results up to the order of an Items listing;
     - the three final states are related again; Inv, CInv, MetaOK hold of the flat one;
     - the physical invariant holds (in-memory index and every index stored on disk: no shared, leaked
       or dangling overflow bucket, free list exact, no cycle) -- in the final state, hence, the
       relation being closed under prefixes, in every state the interleaving goes through;
     - the results are those of the plain map (Items up to order; picks and micro-steps return nothing),
       and the contents of the final state are those of the plain map after the callers' operations:
       picks and micro-steps do not change the map;
     - no file is leaked (files_exact), the recovery backups are untouched. *)
Theorem phys_creach_ok P (s1 : st1) (sp : stp) (sf : stf) c tr s1' c' :
  params_ok P -> gst_rel PR s1 sp -> st_rel sp sf -> Inv P sf -> CInv sf c -> MetaOK sf ->
  phys_creach P s1 c tr s1' c' ->
  exists sp' sf' trf,
    gcreach chain_ops P sp c tr sp' c' /\
    gcreach flat_ops P sf c trf sf' c' /\ map fst trf = map fst tr /\
    Forall2 out_equiv (map snd tr) (map snd trf) /\
    gst_rel PR s1' sp' /\ st_rel sp' sf' /\
    Inv P sf' /\ CInv sf' c' /\ MetaOK sf' /\ s_mem sf' <> None /\
    phys_open_ok s1' /\
    Forall2 out_equiv (map snd tr) (seq_run aspec (abs (s_disk sf)) (map fst tr)) /\
    meq (abs (s_disk sf')) (seq_final aspec (abs (s_disk sf)) (map fst tr)) /\
    (files_exact sf -> files_exact sf') /\ d_bac (s_disk sf') = d_bac (s_disk sf).
Proof.
  intros HP H1 Hs HI HC HM Hr.
  destruct (phys_creach_tri P s1 sp sf c tr s1' c' HP (mk_tri P s1 sp sf c H1 Hs HI HC HM) Hr)
    as (sp' & sf' & trf & Rp & Rf & Em & Of & T & Os & Q & _ & F & B).
  exists sp', sf', trf. pose proof (tri_open _ _ _ _ _ T) as Hopen. pose proof (tri_phys_ok _ _ _ _ _ T) as Hpo.
  destruct T as [A1 A2 A3 A4 A5].
  repeat (split; [assumption|]). assumption.
Qed.

(* every state the interleaving goes through: the relation is closed under prefixes *)
Lemma gcreach_prefix {I} (ops : idx_ops I) P s c tr s' c' :
  gcreach ops P s c tr s' c' -> forall tr1 tr2, tr = tr1 ++ tr2 ->
  exists s1 c1, gcreach ops P s c tr1 s1 c1.
Proof.
  intros Hr. induction Hr as [s c|s c tr s1 c1 s2 c2 Hr IH Ep|s c tr s1 c1 s2 c2 Hr IH Hg Es|s c tr s1 c1 o Hr IH Hg];
    intros tr1 tr2 E.
  - symmetry in E. apply app_eq_nil in E. destruct E as [-> _]. exists s, c. constructor.
  - destruct tr2 as [|x tr2 _] using rev_ind.
    + rewrite app_nil_r in E. subst tr1. exists s2, c2. exact (gcr_pick ops P _ _ _ _ _ _ _ Hr Ep).
    + rewrite app_assoc in E. apply app_inj_tail in E. destruct E as [E _]. exact (IH _ _ E).
  - destruct tr2 as [|x tr2 _] using rev_ind.
    + rewrite app_nil_r in E. subst tr1. exists s2, c2. exact (gcr_step ops P _ _ _ _ _ _ _ Hr Hg Es).
    + rewrite app_assoc in E. apply app_inj_tail in E. destruct E as [E _]. exact (IH _ _ E).
  - destruct tr2 as [|x tr2 _] using rev_ind.
    + rewrite app_nil_r in E. subst tr1. eexists _, _. exact (gcr_op ops P _ _ _ _ _ _ Hr Hg).
    + rewrite app_assoc in E. apply app_inj_tail in E. destruct E as [E _]. exact (IH _ _ E).
Qed.

(* the physical invariant in EVERY state of the interleaving *)
Corollary phys_creach_inv_everywhere P (s1 : st1) (sp : stp) (sf : stf) c tr s1' c' :
  params_ok P -> gst_rel PR s1 sp -> st_rel sp sf -> Inv P sf -> CInv sf c -> MetaOK sf ->
  phys_creach P s1 c tr s1' c' ->
  forall tr1 tr2, tr = tr1 ++ tr2 ->
  exists s1m cm, phys_creach P s1 c tr1 s1m cm /\ phys_open_ok s1m.
Proof.
  intros HP H1 Hs HI HC HM Hr tr1 tr2 E.
  destruct (gcreach_prefix phys_ops P _ _ _ _ _ Hr tr1 tr2 E) as (s1m & cm & Hm).
  exists s1m, cm. split; [exact Hm|].
  destruct (phys_creach_ok P s1 sp sf c tr1 s1m cm HP H1 Hs HI HC HM Hm)
    as (_ & _ & _ & _ & _ & _ & _ & _ & _ & _ & _ & _ & _ & Hpo & _).
  exact Hpo.
Qed.

(* ================================================================================================ *)
(** * 4. C07 on the physical index: whole operations (Compact included) as atomic actions *)

Lemma Forall2_eq_refl {A} (l : list A) : Forall2 eq l l.
Proof. induction l; constructor; [reflexivity|assumption]. Qed.

(* Threads call Put, Delete, Get, GetAppend, Has, Count, Items, Sync and Compact on the database with
   the PHYSICAL index; each call takes effect in ONE atomic action between its call and its return;
   operations may be pending.  Under the side conditions of C01_phys_refines_map (on the operations in
   the order of their actions, stated on the flat shadow run as in Linz.C07_linearizable) the history is
   linearizable w.r.t. the plain map up to [out_equiv'], w.r.t. the chain-index database with EQUAL
   results, w.r.t. the flat-index database up to [out_equiv]; the witness is the order of the actions;
   the final states are related, and the physical invariant holds in the final state. *)
Theorem C07_linearizable_phys P (s1 : st1) (sp : stp) (sf : stf) (es : list (event op' out)) c :
  params_ok P -> gst_rel PR s1 sp -> st_rel sp sf -> Inv P sf -> MetaOK sf ->
  exec (step' phys_ops P) no_guard no_bg s1 es c ->
  Forall op_valid' (map snd (act_ops es)) -> rooms' P sf (map snd (act_ops es)) ->
  linearization step_spec' out_equiv' (abs (s_disk sf)) (hist es) (lin_of (step' phys_ops P) s1 es) /\
  linearization (step_chain' P) eq sp (hist es) (lin_of (step' phys_ops P) s1 es) /\
  linearization (step_flat' P) out_equiv sf (hist es) (lin_of (step' phys_ops P) s1 es) /\
  hist_wf (hist es) /\
  let sp' := seq_final (step_chain' P) sp (map snd (act_ops es)) in
  let sf' := seq_final (step_flat' P) sf (map snd (act_ops es)) in
  gst_rel PR (c_s c) sp' /\ st_rel sp' sf' /\ Inv P sf' /\ MetaOK sf' /\
  meq (abs (s_disk sf')) (seq_final step_spec' (abs (s_disk sf)) (map snd (act_ops es))) /\
  (s_mem sf' <> None -> phys_open_ok (c_s c)).
Proof.
  intros HP H1 Hs HI HM Hx Hv Hr.
  destruct (atomic_actions_linearizable (step' phys_ops P) s1 es c Hx) as [L Ec].
  pose proof (C01_exact_refines_map phys_ops PR P s1 sp sf _ phys_exact_sim HP H1 Hs HI HM Hv Hr) as H.
  cbv zeta in H. destruct H as (A1 & A2 & A3 & A4 & A5 & A6 & A7 & A8).
  split; [|split; [|split; [|split]]].
  - apply (linearization_change_spec _ _ _ _ _ _ _ _ L). unfold lin_of.
    rewrite lin_from_lres, lin_from_lop, !seq_run_run'. exact A1.
  - apply (linearization_change_spec _ _ _ _ _ _ _ _ L). unfold lin_of.
    rewrite lin_from_lres, lin_from_lop, !seq_run_run', A3. apply Forall2_eq_refl.
  - apply (linearization_change_spec _ _ _ _ _ _ _ _ L). unfold lin_of.
    rewrite lin_from_lres, lin_from_lop, !seq_run_run'. exact A2.
  - exact (exec_hist_wf _ _ _ _ _ _ _ _ _ Hx).
  - cbv zeta. rewrite Ec, !seq_final_final'.
    split; [exact A4|]. split; [exact A5|]. split; [exact A6|]. split; [exact A7|]. split; [exact A8|].
    intros Hopen. exact (PR_open_ok _ _ _ A4 A5 Hopen).
Qed.

(* from Open on an empty directory: no hypothesis on the states is left *)
Corollary C07_linearizable_phys_from_empty P seed (es : list (event op' out)) c :
  params_ok P ->
  exec (step' phys_ops P) no_guard no_bg (fst (db_open phys_ops P seed st0)) es c ->
  Forall op_valid' (map snd (act_ops es)) -> rooms' P (flat_init seed) (map snd (act_ops es)) ->
  linearization step_spec' out_equiv' [] (hist es)
                (lin_of (step' phys_ops P) (fst (db_open phys_ops P seed st0)) es).
Proof.
  intros HP Hx Hv Hr.
  pose proof (xsim_open phys_ops chain_ops PR phys_exact_sim P seed st0 st0 (st0_rel PR) ff_ok_disk0) as [_ H1].
  pose proof (init_rel P seed) as H. rewrite flat_open_fresh in H.
  destruct (db_open chain_ops P seed st0) as [sp o]. destruct H as (_ & _ & Hs & HI & _ & Ea).
  cbn [fst] in *. rewrite <- Ea.
  exact (proj1 (C07_linearizable_phys P _ sp _ es c HP H1 Hs HI (flat_init_MetaOK seed) Hx Hv Hr)).
Qed.

(* read your writes, for the executions of the physical-index database: the Get returns exactly v *)
Corollary C07_read_your_writes_phys P (s1 : st1) (sp : stp) (sf : stf) (es : list (event op' out)) c
    ip ig k v rp r :
  params_ok P -> gst_rel PR s1 sp -> st_rel sp sf -> Inv P sf -> MetaOK sf ->
  exec (step' phys_ops P) no_guard no_bg s1 es c ->
  Forall op_valid' (map snd (act_ops es)) -> rooms' P sf (map snd (act_ops es)) ->
  In (HCall ip (OpBase (OpPut k v))) (hist es) ->
  before (hist es) (HRet ip rp) (HCall ig (OpBase (OpGet k))) ->
  In (HRet ig r) (hist es) ->
  (forall j o, In (HCall j o) (hist es) -> j <> ip -> writes_key k o ->
     (exists r', before (hist es) (HRet j r') (HCall ip (OpBase (OpPut k v)))) \/
     before (hist es) (HRet ig r) (HCall j o)) ->
  r = OVal (Some v).
Proof.
  intros HP H1 Hs HI HM Hx Hv Hr G1 G2 G3 G4.
  destruct (C07_linearizable_phys P s1 sp sf es c HP H1 Hs HI HM Hx Hv Hr) as (L & _ & _ & [HU _] & _).
  pose proof (read_your_writes out_equiv' _ _ _ ip ig k v rp r L HU G1 G2 G3 G4) as H.
  destruct r; cbn [out_equiv'] in H; try discriminate H; exact H.
Qed.

(* ================================================================================================ *)
(** * 5. C07 on the physical index: the compaction in micro-steps, as background actions *)

Section PMicro.
Variable P : params.

(* shared state: the physical-index database and the cursor of the compaction in progress *)
Definition pmstate := (st1 * cursor)%type.
Definition pmstep (x : pmstate) (o : op) : pmstate * out :=
  ((fst (step phys_ops P (fst x) o), snd x), snd (step phys_ops P (fst x) o)).
(* side condition of an action, on the PHYSICAL state: Put: 32-bit condition and valid arguments;
   Delete: 32-bit condition, byte-string key; reads and Sync: none (weaker than Linz.mguard) *)
Definition pmguard (x : pmstate) (o : op) : Prop := op_guard (fst x) o.
(* background actions: one critical section of the running compaction; when none runs, a pick *)
Definition pmbg (x y : pmstate) : Prop :=
  (groom (fst x) /\ compact_step phys_ops P (fst x) (snd x) = CMore (fst y) (snd y)) \/
  (compact_step phys_ops P (fst x) (snd x) = CDone /\ compact_pick phys_ops P (fst x) = Some y).

(* the simulation towards the plain map goes through the two other layers *)
Definition pmsim (x : pmstate) (a : smap) : Prop :=
  exists sp sf, tri P (fst x) sp sf (snd x) /\ meq (abs (s_disk sf)) a /\ NoDup (map fst a).

Lemma pmstep_sim : params_ok P -> forall x a o, pmsim x a -> pmguard x o ->
  pmsim (fst (pmstep x o)) (fst (step_spec a o)) /\ out_equiv (snd (pmstep x o)) (snd (step_spec a o)).
Proof.
  intros HP [s1 c] a o (sp & sf & T & Hq & Hnd) Hg. unfold pmguard in Hg. cbn [fst snd] in *.
  destruct (tri_op P s1 sp sf c o HP T Hg) as (_ & _ & Eo & Oe & T2 & A2 & O2 & _).
  destruct (step_spec_meq (abs (s_disk sf)) a o (abs_NoDup _) Hnd Hq) as (Q2 & N2 & O3).
  unfold pmstep, pmsim. cbn [fst snd]. split.
  - exists (fst (step chain_ops P sp o)), (fst (step flat_ops P sf o)).
    split; [exact T2|]. split; [eapply meq_trans; eassumption|exact N2].
  - rewrite Eo. eapply out_equiv_trans; [exact Oe|]. eapply out_equiv_trans; [exact O2|exact O3].
Qed.

Lemma pmbg_sim : forall x y a, pmsim x a -> pmbg x y -> pmsim y a.
Proof.
  intros [s1 c] [s1' c'] a (sp & sf & T & Hq & Hnd) Hb. cbn [fst snd] in *.
  destruct Hb as [[Hg Hstep]|[_ Hpick]]; cbn [fst snd] in *.
  - destruct (tri_step P s1 sp sf c s1' c' T Hg Hstep) as (sp' & sf' & _ & _ & _ & _ & T2 & A2 & _).
    exists sp', sf'. split; [exact T2|]. split; [eapply meq_trans; eassumption|exact Hnd].
  - destruct (tri_pick P s1 sp sf c s1' c' T Hpick) as (sp' & sf' & _ & _ & T2 & Ed & _).
    exists sp', sf'. split; [exact T2|]. split; [rewrite Ed; exact Hq|exact Hnd].
Qed.

(* the shared-state actions of an execution form an interleaving in the sense of section 3 *)
Lemma exec_phys_creach s1 c es cf :
  exec pmstep pmguard pmbg (s1, c) es cf ->
  exists tr, phys_creach P s1 c tr (fst (c_s cf)) (snd (c_s cf)).
Proof.
  intros Hx. induction Hx as [|es c1 e c2 Hx IH Hs].
  - exists []. cbn [init c_s fst snd]. constructor.
  - destruct IH as [tr Hr].
    inversion Hs as [c0 t o Ht|c0 t o Ht Hg|c0 t o r Ht|c0 y Hb]; subst; cbn [c_s].
    + exists tr. exact Hr.
    + eexists. unfold pmstep. cbn [fst snd]. exact (gcr_op phys_ops P _ _ _ _ _ _ Hr Hg).
    + exists tr. exact Hr.
    + destruct Hb as [[Hg Hstep]|[_ Hpick]].
      * eexists. exact (gcr_step phys_ops P _ _ _ _ _ _ _ Hr Hg Hstep).
      * eexists. destruct y as [s2 c2']. exact (gcr_pick phys_ops P _ _ _ _ _ _ _ Hr Hpick).
Qed.

(* C07 with the compaction interleaved, on the PHYSICAL index: threads call Put, Delete, Get,
   GetAppend, Has, Count, Items, Sync (any number of threads, operations may be pending, each takes
   effect at one atomic action between its call and its return); between any two of their actions the
   compactor may run critical sections (one record each, segment removals, picks).  Every history is
   linearizable w.r.t. the plain map up to [out_equiv] (Items up to a permutation, everything else
   EQUAL): the micro-steps are invisible.  The final states of the three layers are related, the flat
   invariants and the physical invariant hold. *)
Theorem C07_linearizable_microsteps_phys (s1 : st1) (sp : stp) (sf : stf) (c : cursor)
    (es : list (event op out)) cf :
  params_ok P -> gst_rel PR s1 sp -> st_rel sp sf -> Inv P sf -> CInv sf c -> MetaOK sf ->
  exec pmstep pmguard pmbg (s1, c) es cf ->
  exists lin,
    linearization step_spec out_equiv (abs (s_disk sf)) (hist es) lin /\ map fst lin = act_ops es /\
    hist_wf (hist es) /\
    exists sp' sf',
      gst_rel PR (fst (c_s cf)) sp' /\ st_rel sp' sf' /\
      Inv P sf' /\ CInv sf' (snd (c_s cf)) /\ MetaOK sf' /\ phys_open_ok (fst (c_s cf)) /\
      meq (abs (s_disk sf')) (seq_final step_spec (abs (s_disk sf)) (map snd (act_ops es))).
Proof.
  intros HP H1 Hs HI HC HM Hx.
  destruct (atomic_actions_linearizable_sim _ _ _ pmstep pmguard pmbg _ _ step_spec out_equiv pmsim
              (pmstep_sim HP) pmbg_sim (s1, c) (abs (s_disk sf)) es cf) as (lin & L & Ea & Hsim).
  - exists sp, sf. cbn [fst snd]. split; [constructor; assumption|]. split; [apply meq_refl|apply abs_NoDup].
  - exact Hx.
  - exists lin. split; [exact L|]. split; [exact Ea|].
    split; [exact (exec_hist_wf _ _ _ _ _ _ _ _ _ Hx)|].
    destruct Hsim as (sp' & sf' & T & Q2 & _). exists sp', sf'.
    pose proof (tri_phys_ok _ _ _ _ _ T) as Hpo. destruct T as [B1 B2 B3 B4 B5].
    split; [exact B1|]. split; [exact B2|]. split; [exact B3|]. split; [exact B4|]. split; [exact B5|].
    split; [exact Hpo|].
    replace (map snd (act_ops es)) with (map Linz.lop lin); [exact Q2|].
    rewrite <- Ea, map_map. reflexivity.
Qed.

(* executable versions of the side condition and of the background action *)
Definition pmguardb (x : pmstate) (o : op) : bool := op_guard_b (fst x) o.
Definition pmbgf (x : pmstate) : option pmstate :=
  match compact_step phys_ops P (fst x) (snd x) with
  | CMore s' c' => if groom_b (fst x) then Some (s', c') else None
  | CDone => compact_pick phys_ops P (fst x)
  | CFail _ => None
  end.

Lemma pmguardb_ok x o : pmguardb x o = true -> pmguard x o.
Proof. apply op_guard_b_ok. Qed.

Lemma pmbgf_ok x y : pmbgf x = Some y -> pmbg x y.
Proof.
  unfold pmbgf, pmbg. destruct (compact_step phys_ops P (fst x) (snd x)) as [|s' c'|w] eqn:E.
  - intros H. right. split; [reflexivity|exact H].
  - destruct (groom_b (fst x)) eqn:Er; [|discriminate]. intros H. injection H as <-. left. cbn [fst snd].
    split; [apply groom_b_ok; exact Er|reflexivity].
  - discriminate.
Qed.
End PMicro.

(* ================================================================================================ *)
(** * 6. Non-vacuity: a concrete physical-index database with an overflow bucket *)

(* Open on an empty directory relates the three layers *)
Lemma open_tri P seed :
  gst_rel PR (fst (db_open phys_ops P seed st0)) (fst (db_open chain_ops P seed st0)) /\
  st_rel (fst (db_open chain_ops P seed st0)) (flat_init seed) /\ Inv P (flat_init seed).
Proof.
  pose proof (xsim_open phys_ops chain_ops PR phys_exact_sim P seed st0 st0 (st0_rel PR) ff_ok_disk0) as [_ H1].
  pose proof (init_rel P seed) as H. rewrite flat_open_fresh in H.
  destruct (db_open chain_ops P seed st0) as [sp o]. destruct H as (_ & _ & Hs & HI & _).
  cbn [fst] in *. exact (conj H1 (conj Hs HI)).
Qed.

Module PhysConcEx.
Import RunEx.
Local Open Scope nat_scope.

(* Open and 35 Puts whose keys all hash to the same bucket, segments of at most 600 bytes: six
   segments (ids 0..5); 31 slots in the main bucket, 4 in an overflow bucket at offset 512 of
   overflow.pix *)
Definition pre_ops : list op' := map put (seq 1 35).
Definition s1_0 : st1 := fst (db_open phys_ops exP 1 st0).
Definition s1X : st1 := final' (step' phys_ops exP) s1_0 pre_ops.
Definition spX : stp := final' (step_chain' exP) sp0 pre_ops.
Definition sfX : stf := final' (step_flat' exP) (flat_init 1) pre_ops.

Definition shape (s : st1) : option (N * N * list N * list N * list N) :=
  match s_mem s with
  | Some m => Some (ph_nkeys (m_idx m), ph_nbuckets (m_idx m), map pb_next (ph_main (m_idx m)),
                    map (fun b => nlen (pb_live b)) (ph_over (m_idx m)), ph_free (m_idx m))
  | None => None
  end.

Example s1X_shape :
  shape s1X = Some (35%N, 1%N, [512%N], [4%N], []) /\ map f_id (d_segs (s_disk s1X)) = [0; 1; 2; 3; 4; 5]%N.
Proof. split; vm_compute; reflexivity. Qed.

(* the hypotheses of the theorems hold *)
Lemma X_rel : gst_rel PR s1X spX /\ st_rel spX sfX /\ Inv exP sfX /\ MetaOK sfX /\ CInv sfX c0.
Proof.
  destruct (open_tri exP 1) as (H1 & Hs & HI).
  destruct (C01_exact_refines_map phys_ops PR exP s1_0 sp0 (flat_init 1) pre_ops phys_exact_sim exP_ok
              H1 Hs HI (flat_init_MetaOK 1)) as (_ & _ & _ & D).
  - apply ops_valid'_b_ok. vm_compute. reflexivity.
  - apply rooms'_b_ok. vm_compute. reflexivity.
  - assert (Em : exists m, s_mem sfX = Some m) by (vm_compute; eexists; reflexivity).
    destruct Em as [m Em]. pose proof (CInv_c0 sfX m Em) as HC.
    cbv zeta in D. destruct D as (A & B & C & D & _). unfold s1X, spX.
    split; [exact A|]. split; [exact B|]. split; [exact C|]. split; [exact D|exact HC].
Qed.

Example sfX_contents : abs (s_disk sfX) = map (fun i => (key_of i, val_of i)) (rev (seq 1 35)).
Proof. vm_compute. reflexivity. Qed.

Definition k5 := key_of 5.
Definition v50 := val_of 50.
Definition k2 := key_of 2.

(* the interleaving: the compactor picks all six segments; four micro-steps (start of segment 0, its
   first three records); IN THE WINDOW a Put on key 5 (its old record, not yet visited, becomes
   garbage), a Get, a Delete of key 2 (whose record has just been moved); the 43 remaining micro-steps
   (to the end of the compaction); Count, two Gets, Items *)
Definition ex_acts : list cact :=
  [APick] ++ repeat AStep 4 ++ [AOp (OpPut k5 v50); AOp (OpGet k5); AOp (OpDelete k2)] ++
  repeat AStep 43 ++ [AOp OpCount; AOp (OpGet k5); AOp (OpGet k2); AOp OpItems].

Definition ex_outs : list out :=
  repeat OOk 5 ++ [OOk; OVal (Some v50); OOk] ++ repeat OOk 43 ++
  [ONum 34; OVal (Some v50); OVal None;
   OItems (map (fun i => (key_of i, if Nat.eqb i 5 then v50 else val_of i)) (1 :: seq 3 33))].

(* (notations, not definitions: the terms must stay syntactically the same in what follows) *)
Local Notation ex_res := (gcrun phys_ops exP (s1X, c0) ex_acts []).
Local Notation ex_resp := (gcrun chain_ops exP (spX, c0) ex_acts []).
Local Notation ex_resf := (gcrun flat_ops exP (sfX, c0) ex_acts []).

(* evaluated on phys_ops, chain_ops and flat_ops: every action is enabled, the outputs are EQUAL *)
Example ex_outputs :
  option_map (fun r => map snd (snd r)) ex_res = Some ex_outs /\
  option_map (fun r => map snd (snd r)) ex_resp = Some ex_outs /\
  option_map (fun r => map snd (snd r)) ex_resf = Some ex_outs.
Proof. split; [|split]; vm_compute; reflexivity. Qed.

(* the compaction did real work and ran to its end: six segments processed and removed, one record
   reclaimed; 34 keys, the overflow bucket still in use *)
Example ex_final_state :
  option_map (fun r => (shape (fst (fst r)), snd (fst r), map f_id (d_segs (s_disk (fst (fst r))))))
             ex_res =
  Some (Some (34%N, 1%N, [512%N], [4%N], []),
        {| c_todo := []; c_src := None; c_segs := 6; c_recs := 1; c_bytes := 13 |},
        [6; 7; 0; 1; 2; 3]%N) /\
  option_map (fun r => match compact_step phys_ops exP (fst (fst r)) (snd (fst r)) with
                       | CDone => true | _ => false end) ex_res = Some true.
Proof. split; vm_compute; reflexivity. Qed.

(* what the plain map says: the same results, except that its Items listing (the last result) is in
   another order -- this is where [out_equiv] is not equality *)
Example ex_spec :
  removelast (seq_run aspec (abs (s_disk sfX)) ex_acts) = removelast ex_outs /\
  last (seq_run aspec (abs (s_disk sfX)) ex_acts) OOk <> last ex_outs OOk /\
  seq_final aspec (abs (s_disk sfX)) ex_acts = sdel (sput (abs (s_disk sfX)) k5 v50) k2.
Proof. split; [vm_compute; reflexivity|]. split; [vm_compute; discriminate|vm_compute; reflexivity]. Qed.

(* phys_creach_ok applies to this run *)
Example ex_creach :
  exists s1' c' tr,
    phys_creach exP s1X c0 tr s1' c' /\ map fst tr = ex_acts /\ map snd tr = ex_outs /\
    phys_open_ok s1' /\
    exists sp' sf' trf,
      gcreach chain_ops exP spX c0 tr sp' c' /\
      gcreach flat_ops exP sfX c0 trf sf' c' /\ map fst trf = ex_acts /\ map snd trf = ex_outs /\
      gst_rel PR s1' sp' /\ st_rel sp' sf' /\ Inv exP sf' /\ CInv sf' c' /\ MetaOK sf' /\
      meq (abs (s_disk sf')) (sdel (sput (abs (s_disk sfX)) k5 v50) k2).
Proof.
  assert (E : exists r, ex_res = Some r) by (vm_compute; eexists; reflexivity).
  destruct E as [[[s1' c'] tr] E].
  assert (Ef : exists r, ex_resf = Some r) by (vm_compute; eexists; reflexivity).
  destruct Ef as [[[sf2 cf2] trf2] Ef].
  destruct ex_outputs as (O1 & _ & O3). rewrite E in O1. rewrite Ef in O3.
  cbn [option_map snd] in O1, O3. injection O1 as O1. injection O3 as O3.
  destruct (gcrun_sound phys_ops exP ex_acts s1X c0 s1X c0 [] s1' c' tr (gcr_refl phys_ops exP s1X c0) E) as [Hr Ea].
  destruct (gcrun_sound flat_ops exP ex_acts sfX c0 sfX c0 [] sf2 cf2 trf2 (gcr_refl flat_ops exP sfX c0) Ef) as [Hrf Eaf].
  cbn [fst snd map app] in Hr, Ea, Hrf, Eaf.
  destruct X_rel as (H1 & Hs & HI & HM & HC).
  destruct (phys_creach_ok exP s1X spX sfX c0 tr s1' c' exP_ok H1 Hs HI HC HM Hr)
    as (sp' & sf' & trf & Rp & Rf & Em & Of & A1 & A2 & A3 & A4 & A5 & _ & Hpo & _ & Q & _).
  exists s1', c', tr. split; [exact Hr|]. split; [exact Ea|]. split; [exact O1|]. split; [exact Hpo|].
  (* the flat run of the theorem IS the computed one: [gcreach] is deterministic *)
  assert (Eacts : map fst trf = map fst trf2) by (rewrite Em, Ea, Eaf; reflexivity).
  destruct (gcreach_det flat_ops exP _ _ _ _ _ Rf _ _ _ Hrf Eacts) as (-> & _ & _).
  exists sp', sf', trf2. split; [exact Rp|]. split; [exact Rf|]. split; [exact Eaf|]. split; [exact O3|].
  repeat (split; [assumption|]).
  rewrite Ea in Q. rewrite (proj2 (proj2 ex_spec)) in Q. exact Q.
Qed.

(* ---- a concurrent history of whole operations (C07_linearizable_phys) ---------------------------- *)
Definition v5 := val_of 5.

(* three clients on keys 5 and 2 and a compactor; operations overlap; at the end thread 2 is pending
   with its action done, thread 0 has returned *)
Definition wh_es : list (event op' out) :=
  [ ECall 0 (OpBase (OpPut k5 v50)); ECall 1 (OpBase (OpGet k5)); ECall 2 (OpBase (OpDelete k2));
    EAct 1;                               (* the Get acts before the Put *)
    EAct 0; ERet 1 (OVal (Some v5)); ECall 3 OpCompact; ECall 1 (OpBase (OpGet k5));
    EAct 3;                               (* the whole compaction, on the physical index *)
    EAct 1; EAct 2; ERet 3 (OCompact 6 1 13); ERet 1 (OVal (Some v50)); ERet 0 OOk;
    ECall 0 (OpBase OpCount); EAct 0; ERet 0 (ONum 34) ].

Example wh_is_execution : exists c, exec (step' phys_ops exP) no_guard no_bg s1X wh_es c.
Proof.
  apply (exec_fn_sound _ _ _ (step' phys_ops exP) no_guard no_bg (fun _ _ => true) (fun _ => None) out_eq_dec).
  - intros s o _. exact I.
  - intros s s' H. discriminate H.
  - vm_compute. reflexivity.
Qed.

Definition wh_lin : list (opid * op' * out) :=
  [ ((1, 0), OpBase (OpGet k5), OVal (Some v5));
    ((0, 0), OpBase (OpPut k5 v50), OOk);
    ((3, 0), OpCompact, OCompact 6 1 13);
    ((1, 1), OpBase (OpGet k5), OVal (Some v50));
    ((2, 0), OpBase (OpDelete k2), OOk);
    ((0, 1), OpBase OpCount, ONum 34) ].

Example wh_witness : lin_of (step' phys_ops exP) s1X wh_es = wh_lin.
Proof. vm_compute. reflexivity. Qed.

Example wh_side_conditions :
  Forall op_valid' (map snd (act_ops wh_es)) /\ rooms' exP sfX (map snd (act_ops wh_es)).
Proof.
  split.
  - apply ops_valid'_b_ok. vm_compute. reflexivity.
  - apply rooms'_b_ok. vm_compute. reflexivity.
Qed.

Example wh_linearizable :
  linearization step_spec' out_equiv' (abs (s_disk sfX)) (hist wh_es) wh_lin /\ hist_wf (hist wh_es).
Proof.
  destruct wh_is_execution as [c Hx]. destruct X_rel as (H1 & Hs & HI & HM & _).
  destruct wh_side_conditions as [Hv Hr].
  destruct (C07_linearizable_phys exP s1X spX sfX wh_es c exP_ok H1 Hs HI HM Hx Hv Hr) as (L & _ & _ & W & _).
  rewrite wh_witness in L. exact (conj L W).
Qed.

(* ---- the compaction in micro-steps between the actions of three clients
        (C07_linearizable_microsteps_phys) ------------------------------------------------------------ *)
Definition mi_es : list (event op out) :=
  [ EBg;                                  (* the compactor picks the six segments *)
    ECall 0 (OpPut k5 v50);
    EBg; EBg; EBg; EBg;                   (* segment 0: start, three records *)
    ECall 1 (OpGet k5);
    EAct 0;                               (* the Put lands in the middle of the compaction *)
    EBg;
    EAct 1;
    ERet 0 OOk;
    ECall 2 (OpDelete k2);
    ERet 1 (OVal (Some v50));
    EAct 2 ] ++
  repeat EBg 42 ++                        (* to the end of the compaction *)
  [ EBg;                                  (* the next pick *)
    ECall 1 (OpGet k2); EAct 1; ERet 1 (OVal None); ERet 2 OOk;
    ECall 0 OpCount; EAct 0; ERet 0 (ONum 34) ].

Example mi_is_execution : exists c, exec (pmstep exP) pmguard (pmbg exP) (s1X, c0) mi_es c.
Proof.
  apply (exec_fn_sound _ _ _ (pmstep exP) pmguard (pmbg exP) pmguardb (pmbgf exP) out_eq_dec).
  - exact pmguardb_ok.
  - exact (pmbgf_ok exP).
  - vm_compute. reflexivity.
Qed.

(* the 48 background actions are real: the first compaction ran to its end on the physical index, a
   second pick happened; the overflow bucket is still in use *)
Example mi_compaction_ran :
  option_map (fun c => (c_todo (snd (c_s c)), shape (fst (c_s c))))
             (exec_fn (pmstep exP) pmguardb (pmbgf exP) out_eq_dec (init (s1X, c0)) mi_es) =
  Some ([(6, 7); (7, 8); (0, 9); (1, 10); (2, 11); (3, 12)]%N, Some (34%N, 1%N, [512%N], [4%N], [])).
Proof. vm_compute. reflexivity. Qed.

Example mi_linearizable :
  exists lin, linearization step_spec out_equiv (abs (s_disk sfX)) (hist mi_es) lin /\
              map fst lin = act_ops mi_es /\ hist_wf (hist mi_es) /\
              act_ops mi_es = [ ((0, 0), OpPut k5 v50); ((1, 0), OpGet k5); ((2, 0), OpDelete k2);
                                ((1, 1), OpGet k2); ((0, 1), OpCount) ].
Proof.
  destruct mi_is_execution as [c Hx]. destruct X_rel as (H1 & Hs & HI & HM & HC).
  destruct (C07_linearizable_microsteps_phys exP s1X spX sfX c0 mi_es c exP_ok H1 Hs HI HC HM Hx)
    as (lin & L & Ea & W & _).
  exists lin. split; [exact L|]. split; [exact Ea|]. split; [exact W|]. vm_compute. reflexivity.
Qed.
End PhysConcEx.

(* ================================================================================================ *)
Print Assumptions groom_rel.
Print Assumptions gcreach_det.
Print Assumptions gcrun_sound.
Print Assumptions gcreach_flat_creach.
Print Assumptions tri_op.
Print Assumptions tri_step.
Print Assumptions tri_pick.
Print Assumptions tri_step_progress.
Print Assumptions phys_creach_ok.
Print Assumptions phys_creach_inv_everywhere.
Print Assumptions C07_linearizable_phys.
Print Assumptions C07_linearizable_phys_from_empty.
Print Assumptions C07_read_your_writes_phys.
Print Assumptions exec_phys_creach.
Print Assumptions C07_linearizable_microsteps_phys.
Print Assumptions pmbgf_ok.
Print Assumptions PhysConcEx.X_rel.
Print Assumptions PhysConcEx.s1X_shape.
Print Assumptions PhysConcEx.ex_outputs.
Print Assumptions PhysConcEx.ex_final_state.
Print Assumptions PhysConcEx.ex_spec.
Print Assumptions PhysConcEx.ex_creach.
Print Assumptions PhysConcEx.wh_linearizable.
Print Assumptions PhysConcEx.mi_is_execution.
Print Assumptions PhysConcEx.mi_compaction_ran.
Print Assumptions PhysConcEx.mi_linearizable.
