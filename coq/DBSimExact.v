(* DBSimExact.v -- an EXACT simulation between two index implementations lifts to the whole database.

   DB.v is written once over the index interface [idx_ops I] (Base.v).  If [ops1 : idx_ops I1] and
   [ops2 : idx_ops I2] are related by an exact simulation [exact_sim ops1 ops2 R] (same results, states
   related by [R]; the laws for ix_put / ix_repoint are only required for NONZERO slot offsets, because a
   physical bucket layout uses offset 0 for "empty slot"), then every db-level function of DB.v run on
   the two instances from [gst_rel R]-related states returns EQUAL outputs and [gst_rel R]-related states
   ([gst_rel], [gdisk_rel], [gmem_rel], [gev_rel] and the commutation lemmas are those of DBSim.v, Section
   Rel).  Composed with DBSim.v / DBRun.v: any index that exactly simulates the bucket chains of Index.v
   ([chain_ops]) refines the plain map specification, under exactly the hypotheses of
   DBRun.C01_chain_refines_map_with_compact.  No axioms (Print Assumptions at the end: all "Closed under
   the global context").

   0. INTERFACE:  Record exact_sim ops1 ops2 R  (xs_empty, xs_get, xs_put, xs_del, xs_repoint, xs_count,
      xs_nbuckets, xs_bucket) -- exactly as specified; NO law was added and none is missing.

   1. SIDE CONDITION (index-independent: it mentions segment sizes and segment files only, so it can be
      checked on either instance: sizes_ok_rel, ff_ok_rel, xok_rel, lop_ok_x, loks_x):
        xseg_ok f     every record of the segment file f -- its records AND the valid framings recovery
                      would accept from its tail -- starts at an offset o with [u32 o <> 0]
        sizes_ok s    every open segment g of s has [u32 (g_size g) <> 0]   (the next append offset)
        ff_ok d       [xseg_ok f] for the segment file FOUND for every id ([find_dseg id d = Some f]);
                      xdisk_ok d := Forall xseg_ok (d_segs d) implies it (xdisk_ok_ff)
        xok s      := sizes_ok s /\ ff_ok (s_disk s)
      Who needs what:  Put: sizes_ok.  compact_step: xok.  Open: ff_ok of the disk.  Delete, Get, GetAppend,
      Has, Count, Items, Sync, compact_pick, Close, Backup, iterator: nothing.
      It HOLDS in every state related to a flat state with DBInv.Inv and DBInv.room (xok_of_Inv,
      xok_chain_of_flat; closed states: ff_ok_of_DiskOK, ff_ok_chain_of_flat, xok_closed).
      It is NOT inductive by itself, for the reason DBInv.v gives for [room]: offsets are 32-bit and no
      bound on segment sizes is inductive.  Hence the run theorems require it before every operation
      ([loks], [xoks'], [cxok] along a compaction -- as DBSim.rooms / DBRun.rooms' / run_room do for
      [room]), executable versions are provided (xok_b, cxok_b, loks_b + _ok lemmas), and the composition
      theorem C01_exact_refines_map DERIVES it from the hypotheses the chain-vs-flat theorem already has
      (xoks'_of_flat), so it adds no hypothesis.  Preservation that does hold unconditionally: the disk part
      through Close (ff_close) and through everything Open does before and while it replays
      (ff_backup_nonseg, ff_open_index, ff_open_segments, ff_swap_segment, ff_recover_segment: the latter
      uses parse_props: the reader consumes exactly the accepted records and accepts nothing after them).

   2. OPERATIONS (Section Exact; s1 : st I1, s2 : st I2; so_rel R a b := snd a = snd b /\ gst_rel R (fst a) (fst b)):
        xsim_put          gst_rel R s1 s2 -> sizes_ok s2 -> so_rel R (db_put ops1 P k v s1) (db_put ops2 P k v s2)
                          (ANY k, v: also the rejected ones)
        xsim_delete, xsim_sync, xsim_close                      gst_rel R s1 s2 -> so_rel R ...
        xsim_get, xsim_get_append, xsim_has, xsim_count, xsim_items, xsim_iter_step   equal results
                          (Items: the SAME list, not a permutation)
        xsim_compact_pick pick_res_rel R (related states, equal cursors)
        xsim_compact_step gst_rel R s1 s2 -> xok s2 -> xcstep_rel (...) (...)   (equal cursors / failure codes)
        xsim_compact_run, xsim_db_compact   under [cxok] / [compact_xok] along the run of instance 2
        xsim_open         gst_rel R s1 s2 -> ff_ok (s_disk s2) -> so_rel R (db_open ops1 P seed s1) (db_open ops2 P seed s2)
                          both paths: clean reopen (index read from d_index / d_imeta, related by R) and
                          recovery (index files set aside, index rebuilt by replaying every record through
                          ix_put / ix_del: replay_rec_x, recover_segment_x, recover_x)
        xsim_backup       opt_rel (gdisk_rel R) (db_backup s1) (db_backup s2); backup_plan_x, copy_seg_x
                          (equal), backup_disk_x;  [dbiter0] does not depend on the index
        xsim_step' (DBRun.step'), xsim_lstep (lstep)
   3. RUNS:  lop := LBase (o : op') | LClose | LOpen seed | LCrash  (LCrash forgets the in-memory state, so
      that the next LOpen takes the recovery path), lstep, lrun, lfinal, lop_ok, loks;
        xsim_run    gst_rel R s1 s2 -> loks ops2 P s2 l -> lrun ops1 P s1 l = lrun ops2 P s2 l /\ gst_rel R (lfinal ..) (lfinal ..)
        xsim_run'   the same for DBRun's op' / run' / final' (no Close / Open) under xoks'
   4. COMPOSITION:  C01_exact_refines_map (any ops1 with exact_sim ops1 chain_ops R; hypotheses = those of
      DBRun.C01_chain_refines_map_with_compact + gst_rel R s1 sp), C01_exact_from_empty.
   5. SANITY:  exact_sim_refl (every index exactly simulates itself), gst_rel_eq_refl,
      xsim_run_chain_self; Module ExactEx: a concrete run with Open, 40 colliding Puts, Delete, Crash, Open
      (RECOVERY), reads, Compact, Close, Open (clean), reads -- [loks] holds (ex_loks, by computation), so
      xsim_run applies (ex_run); its outputs (ex_outputs); C01_exact_refines_map applied to DBRun.RunEx (ex_C01).

   DEVIATIONS / NOT COVERED:
     - The operation theorems are stated with [so_rel R] (a pair of a state and an output) instead of
       [let '(s', o) := ...] patterns; xsim_backup relates the two backup disks by [gdisk_rel R] (they have
       different types); xsim_compact_pick / _step use pick_res_rel / xcstep_rel.
     - The run language was extended with LCrash (not asked for) to reach the recovery path of Open.
     - No "side condition after the operation" theorems for Put / Delete / Compact / Open (not provable
       without the 32-bit condition [room], see above); C01_exact_refines_map covers DBRun's op' only,
       because the chain-vs-flat refinement (DBSim / DBRun) has no Close / Open -- xsim_run does.
     - Traces are related event by event ([gst_rel] includes Forall2 gev_rel on s_trace), so crash images
       of the two instances are related too, but no crash / power-loss theorem is transferred here. *)
From Coq Require Import ZArith Lia ZifyN ZifyNat ZifyBool Permutation.
From Pogreb Require Import Base BaseLemmas Crc Bytes Record RecordProofs Flat Index Spec DB DBInv
  DBLemmas DBProofsOps DBMeta DBProofsCompact DBProofsRecovery DBSim DBRun.
Ltac Zify.zify_post_hook ::= Z.div_mod_to_equations.

(* ================================================================================================ *)
(** * 0. The interface: an EXACT simulation between two index implementations *)

Record exact_sim {I1 I2} (ops1 : idx_ops I1) (ops2 : idx_ops I2) (R : I1 -> I2 -> Prop) : Prop := {
  xs_empty : R (ix_empty ops1) (ix_empty ops2);
  xs_get : forall a b h m, R a b -> ix_get ops1 a h m = ix_get ops2 b h m;
  xs_put : forall g a b sl m, R a b -> sl_off sl <> 0 ->
     snd (ix_put ops1 g a sl m) = snd (ix_put ops2 g b sl m) /\
     R (fst (ix_put ops1 g a sl m)) (fst (ix_put ops2 g b sl m));
  xs_del : forall a b h m, R a b ->
     snd (ix_del ops1 a h m) = snd (ix_del ops2 b h m) /\
     R (fst (ix_del ops1 a h m)) (fst (ix_del ops2 b h m));
  xs_repoint : forall a b h seg off nseg noff, R a b -> noff <> 0 ->
     opt_rel R (ix_repoint ops1 a h seg off nseg noff) (ix_repoint ops2 b h seg off nseg noff);
  xs_count : forall a b, R a b -> ix_count ops1 a = ix_count ops2 b;
  xs_nbuckets : forall a b, R a b -> ix_nbuckets ops1 a = ix_nbuckets ops2 b;
  xs_bucket : forall a b n, R a b -> ix_bucket ops1 a n = ix_bucket ops2 b n
}.

(* ================================================================================================ *)
(** * 1. The side condition: no record offset handed to the index is 0 (mod 2^32) *)

(* every record of the segment file -- including the valid framings recovery would accept from the
   tail -- starts at an offset whose 32-bit truncation is not 0 *)
Definition xseg_ok (f : dseg) : Prop :=
  Forall (fun e : N * rec => u32 (fst e) <> 0)
         (with_offsets header_size (f_recs f ++ fst (fst (parse_tail (f_tail f))))).

Definition msizes_ok (l : list mseg) : Prop := forall g, In g l -> u32 (g_size g) <> 0.

(* the next append offset of every open segment *)
Definition sizes_ok {I} (s : @DB.st I) : Prop :=
  forall m, s_mem s = Some m -> msizes_ok (m_segs m).

Definition xdisk_ok {I} (d : @DB.disk I) : Prop := Forall xseg_ok (d_segs d).

(* what recovery needs: the segment found for every id (the FIRST one with that id) *)
Definition ffl_ok (l : list dseg) : Prop :=
  forall id f, find (fun s => f_id s =? id) l = Some f -> xseg_ok f.
Definition ff_ok {I} (d : @DB.disk I) : Prop := ffl_ok (d_segs d).

Definition xok {I} (s : @DB.st I) : Prop := sizes_ok s /\ ff_ok (s_disk s).

Lemma u32_header : u32 header_size <> 0.
Proof. vm_compute. discriminate. Qed.

Lemma xdisk_ok_ff {I} (d : @DB.disk I) : xdisk_ok d -> ff_ok d.
Proof.
  intros H id f E. apply find_some in E. destruct E as [E _].
  exact (proj1 (Forall_forall _ _) H f E).
Qed.

Lemma find_dseg_In_g {I} (d : @DB.disk I) id f : find_dseg id d = Some f -> In f (d_segs d).
Proof. unfold find_dseg. intros E. apply find_some in E. tauto. Qed.

Lemma xseg_ok_entry f o r : xseg_ok f -> In (o, r) (seg_entries f) -> u32 o <> 0.
Proof.
  unfold xseg_ok, seg_entries. rewrite with_offsets_app. intros H Hin.
  apply Forall_app in H. destruct H as [H _].
  exact (proj1 (Forall_forall _ _) H (o, r) Hin).
Qed.

(* the bounds that [DBInv.dseg_ok] gives *)
Lemma xseg_ok_of_bound f :
  fst (fst (parse_tail (f_tail f))) = [] -> header_size + recs_len (f_recs f) < 4294967296 -> xseg_ok f.
Proof.
  intros Et Hb. unfold xseg_ok. rewrite Et, app_nil_r. apply Forall_forall. intros [o r] Hin.
  cbn [fst]. destruct (with_offsets_In_range _ _ _ _ Hin) as [H1 H2].
  pose proof (rsize_ge r) as H3. pose proof header_size_eq as H4.
  rewrite u32_small by lia. lia.
Qed.

(* ---- [xseg_ok] looks at the records and at the tail only ---- *)
Lemma xseg_ok_ext f g : f_recs g = f_recs f -> f_tail g = f_tail f -> xseg_ok f -> xseg_ok g.
Proof. unfold xseg_ok. intros -> ->. exact (fun H => H). Qed.

Lemma xseg_ok_empty id seq hdr meta :
  xseg_ok {| f_id := id; f_seq := seq; f_hdr := hdr; f_recs := []; f_tail := []; f_meta := meta |}.
Proof. unfold xseg_ok. cbn [f_recs f_tail]. rewrite empty_tail. cbn [fst app]. constructor. Qed.

Lemma find_snoc {A} (p : A -> bool) l x :
  find p (l ++ [x]) = match find p l with Some y => Some y | None => if p x then Some x else None end.
Proof.
  induction l as [|y l IH]; cbn [app find]; [reflexivity|]. destruct (p y); [reflexivity|exact IH].
Qed.

Lemma ffl_snoc l x : xseg_ok x -> ffl_ok l -> ffl_ok (l ++ [x]).
Proof.
  intros Hx H id f E. rewrite find_snoc in E.
  destruct (find (fun s => f_id s =? id) l) as [y|] eqn:F.
  - injection E as <-. exact (H id y F).
  - destruct (f_id x =? id); [|discriminate]. injection E as <-. exact Hx.
Qed.

(* a change of some segment files that keeps ids, records and tails *)
Lemma ffl_map id seq (G : dseg -> dseg) l :
  (forall s, f_id (G s) = f_id s /\ f_recs (G s) = f_recs s /\ f_tail (G s) = f_tail s) ->
  ffl_ok l -> ffl_ok (map (fun s => if is_seg id seq s then G s else s) l).
Proof.
  intros HG H id' f E.
  rewrite find_map_id in E by (intros s; destruct (is_seg id seq s); [apply HG|reflexivity]).
  destruct (find (fun s => f_id s =? id') l) as [s|] eqn:F; [|discriminate].
  cbn [option_map] in E. injection E as <-. specialize (H id' s F).
  destruct (is_seg id seq s); [|exact H]. destruct (HG s) as (_ & A & B).
  apply (xseg_ok_ext s); assumption.
Qed.

(* a change of the segment files (id, seq): only the file FOUND for [id] matters *)
Lemma ffl_map_found id seq (G : dseg -> dseg) l f :
  (forall s, f_id (G s) = f_id s) -> ffl_ok l ->
  find (fun s => f_id s =? id) l = Some f ->
  (is_seg id seq f = true -> xseg_ok f -> xseg_ok (G f)) ->
  ffl_ok (map (fun s => if is_seg id seq s then G s else s) l).
Proof.
  intros HG H Ef Hf id' f' E.
  rewrite find_map_id in E by (intros s; destruct (is_seg id seq s); [apply HG|reflexivity]).
  destruct (find (fun s => f_id s =? id') l) as [s|] eqn:F; [|discriminate].
  cbn [option_map] in E. injection E as <-. pose proof (H id' s F) as Hs.
  destruct (is_seg id seq s) eqn:Eis; [|exact Hs].
  assert (id' = id).
  { apply find_some in F. destruct F as [_ F]. apply N.eqb_eq in F.
    unfold is_seg in Eis. apply andb_true_iff in Eis. destruct Eis as [Eis _]. apply N.eqb_eq in Eis. congruence. }
  subst id'. assert (s = f) by congruence. subst s. apply Hf; assumption.
Qed.

Lemma trunc_seg_id n s : f_id (trunc_seg n s) = f_id s.
Proof.
  unfold trunc_seg. destruct (negb (f_hdr s)); [reflexivity|].
  destruct (trunc_recs header_size n (f_recs s)) as [keep e]. reflexivity.
Qed.

(* ---- the reader: consumed bytes = sizes of the accepted records; nothing more is accepted after
        the consumed prefix ---- *)
Lemma parse_props : forall k bs rs n why, (length bs <= k)%nat ->
  parse_tail bs = (rs, n, why) ->
  recs_len rs = n /\ fst (fst (parse_tail (ndrop n bs))) = [].
Proof.
  induction k as [|k IH]; intros bs rs n why Hk E.
  - destruct bs; [|cbn [length] in Hk; lia]. rewrite empty_tail in E. injection E as <- <- <-.
    split; [reflexivity|]. rewrite ndrop_0, empty_tail. reflexivity.
  - rewrite parse_tail_step in E. destruct (decode_next bs) as [| | |r len rest] eqn:D.
    + injection E as <- <- <-. split; [reflexivity|]. rewrite ndrop_0, parse_tail_step, D. reflexivity.
    + injection E as <- <- <-. split; [reflexivity|]. rewrite ndrop_0, parse_tail_step, D. reflexivity.
    + injection E as <- <- <-. split; [reflexivity|]. rewrite ndrop_0, parse_tail_step, D. reflexivity.
    + destruct (parse_tail rest) as [[rs' n'] why'] eqn:Er. injection E as <- <- <-.
      pose proof (decode_next_ok_shorter _ _ _ _ D) as Hsh.
      destruct (IH rest rs' n' why' ltac:(lia) Er) as [A B].
      destruct (decode_next_ok_inv _ _ _ _ D) as (_ & _ & Erest).
      destruct (decode_next_ok_frame _ _ _ _ D) as (hk & hv & sm & _ & _ & _ & _ & _ & _ & _ & _ & Elen).
      split.
      * rewrite recs_len_cons, A. unfold rsize. rewrite Elen. reflexivity.
      * rewrite ndrop_add, <- Erest. exact B.
Qed.

(* recover_segment's change of representation: the framings accepted from the tail become records *)
Definition reframed (extra : list rec) (n : N) (f : dseg) : dseg :=
  {| f_id := f_id f; f_seq := f_seq f; f_hdr := f_hdr f; f_recs := f_recs f ++ extra;
     f_tail := ndrop n (f_tail f); f_meta := f_meta f |}.

Lemma xseg_ok_reframed f extra n why :
  parse_tail (f_tail f) = (extra, n, why) -> xseg_ok f -> xseg_ok (reframed extra n f).
Proof.
  intros Ep H. unfold xseg_ok in *. cbn [reframed f_recs f_tail]. rewrite Ep in H. cbn [fst] in H.
  destruct (parse_props _ _ _ _ _ (le_n _) Ep) as [_ B]. rewrite B, app_nil_r. exact H.
Qed.

Lemma xseg_ok_trunc_reframed f extra n why :
  parse_tail (f_tail f) = (extra, n, why) -> xseg_ok f ->
  xseg_ok (trunc_seg (header_size + recs_len (f_recs f) + n) (reframed extra n f)).
Proof.
  intros Ep H. pose proof (xseg_ok_reframed f extra n why Ep H) as H0.
  destruct (parse_props _ _ _ _ _ (le_n _) Ep) as [A _].
  unfold trunc_seg. cbn [reframed f_hdr f_recs f_tail f_id f_seq f_meta].
  destruct (f_hdr f); cbn [negb]; [|exact H0].
  rewrite (rc_trunc_recs_all (f_recs f ++ extra) header_size) by (rewrite recs_len_app, A; lia).
  cbv beta iota. unfold xseg_ok. cbn [f_recs f_tail].
  replace (header_size + recs_len (f_recs f) + n - (header_size + recs_len (f_recs f ++ extra))) with 0
    by (rewrite recs_len_app, A; lia).
  rewrite ntake_0, empty_tail. cbn [fst]. rewrite app_nil_r.
  unfold xseg_ok in H. rewrite Ep in H. exact H.
Qed.

(* the run language: DBRun.op' (= DBSim.op + Compact), Close, Open, and a crash that only forgets the
   in-memory state (so that the next Open takes the recovery path) *)
Inductive lop := LBase (o : op') | LClose | LOpen (seed : N) | LCrash.

(* ---- writeRecord returns a nonzero offset ---- *)
Section One.
Context {I : Type}.
Variable ops : idx_ops I.

Lemma upd_mseg_sizes id F l :
  (forall g, g_size (F g) = g_size g) -> msizes_ok l -> msizes_ok (upd_mseg id F l).
Proof.
  intros HF H g Hg. unfold upd_mseg in Hg. apply in_map_iff in Hg. destruct Hg as (x & <- & Hx).
  destruct (g_id x =? id); [rewrite HF|]; apply H; exact Hx.
Qed.

Lemma seal_sizes id (s : @DB.st I) m :
  msizes_ok (m_segs m) -> msizes_ok (m_segs (snd (seal ops id s m))).
Proof.
  intros H. unfold seal. destruct (find_mseg id (m_segs m)) as [g|]; [|exact H].
  destruct (sm_full (g_meta g)); [exact H|]. cbn [snd set_msegs m_segs].
  apply upd_mseg_sizes; [reflexivity|exact H].
Qed.

Lemma swap_sizes (s : @DB.st I) m :
  msizes_ok (m_segs m) -> msizes_ok (m_segs (snd (swap_segment ops s m))).
Proof.
  intros H. unfold swap_segment.
  destruct (find (fun g => negb (sm_full (g_meta g))) (m_segs m)) as [g|]; [exact H|].
  cbv zeta. cbn [snd set_cur set_maxseq set_msegs m_segs]. intros g Hg.
  apply insert_mseg_In in Hg. destruct Hg as [->|Hg]; [cbn [g_size]; exact u32_header|apply H; exact Hg].
Qed.

Lemma gprelude_sizes P r (s : @DB.st I) m :
  msizes_ok (m_segs m) -> msizes_ok (m_segs (snd (gprelude ops P r s m))).
Proof.
  intros H. unfold gprelude. destruct (cur_seg m) as [g|].
  - destruct (sm_full (g_meta g) || (p_maxseg P <? g_size g + rsize r)); [|exact H].
    pose proof (seal_sizes (g_id g) s m H) as H0.
    destruct (seal ops (g_id g) s m) as [s0 m0]. cbn [snd] in H0. apply swap_sizes. exact H0.
  - apply swap_sizes. exact H.
Qed.

Lemma cur_seg_In (m : @DB.mem I) g : cur_seg m = Some g -> In g (m_segs m).
Proof.
  unfold cur_seg. destruct (m_cur_removed m); [discriminate|].
  destruct (find_mseg (fst (m_cur m)) (m_segs m)) as [g'|] eqn:F; [|discriminate].
  destruct (g_seq g' =? snd (m_cur m)); [|discriminate]. intros E. injection E as <-.
  unfold find_mseg in F. apply find_some in F. tauto.
Qed.

Lemma gtail_off r (s1 : @DB.st I) m1 s' m' id off :
  gtail ops r s1 m1 = Some (s', m', id, off) -> msizes_ok (m_segs m1) -> off <> 0.
Proof.
  unfold gtail. destruct (cur_seg m1) as [g|] eqn:Ec; [|discriminate].
  destruct (find_dseg (g_id g) (s_disk s1)) as [f|]; [|discriminate].
  destruct (negb ((f_seq f =? g_seq g) && (flen f =? g_size g))); [discriminate|].
  cbv zeta. intros E H. injection E as _ _ _ <-. apply H. apply cur_seg_In. exact Ec.
Qed.

Lemma write_record_off P r (s : @DB.st I) m s' m' id off :
  write_record ops P r s m = Some (s', m', id, off) -> msizes_ok (m_segs m) -> off <> 0.
Proof.
  rewrite write_record_g. intros E H. pose proof (gprelude_sizes P r s m H) as H1.
  destruct (gprelude ops P r s m) as [s1 m1]. cbn [snd] in H1.
  exact (gtail_off _ _ _ _ _ _ _ E H1).
Qed.

(* Items as a named fixpoint *)
Definition items_go (s : @DB.st I) : list N -> out :=
  fix go (l : list N) : out :=
  match l with
  | [] => OItems []
  | n :: l' => match fetch_bucket ops s n, go l' with
               | Some a, OItems b => OItems (a ++ b)
               | None, _ => OBroken 4
               | _, o => o
               end
  end.

Lemma items_go_cons (s : @DB.st I) n l :
  items_go s (n :: l) = match fetch_bucket ops s n, items_go s l with
                        | Some a, OItems b => OItems (a ++ b)
                        | None, _ => OBroken 4
                        | _, o => o
                        end.
Proof. reflexivity. Qed.

Lemma db_items_go (s : @DB.st I) :
  db_items ops s = match s_mem s with
                   | None => OErr EClosed
                   | Some m => items_go s (nseq 0 (N.to_nat (ix_nbuckets ops (m_idx m))))
                   end.
Proof. reflexivity. Qed.

(* the side condition along a compaction (as DBProofsCompact.run_room) *)
Fixpoint cxok (P : params) (fuel : nat) (s : @DB.st I) (c : cursor) : Prop :=
  match fuel with
  | O => True
  | S f => xok s /\
           match compact_step ops P s c with
           | CMore s' c' => cxok P f s' c'
           | _ => True
           end
  end.

Definition compact_xok (P : params) (s : @DB.st I) : Prop :=
  match compact_pick ops P s with
  | Some (s1, c) => cxok P (S (2 * length (c_todo c) + 2 * total_recs (s_disk s1) + 2)) s1 c
  | None => True
  end.

(* ---- Open: the disk part of the side condition ([ff_ok]) survives everything Open does to the
        segment files before and while it replays them ---- *)

(* events that never change the records or the tail of a segment file (nor remove one) *)
Definition ev_safe (e : @fsev I) : Prop :=
  match e with
  | EAppend _ _ _ _ => False
  | ETrunc (FSeg _ _) _ => False
  | ERename (FSeg _ _) _ => False
  | ERemove (FSeg _ _) => False
  | _ => True
  end.

Lemma ff_apply_ev (d : @DB.disk I) e : ev_safe e -> ff_ok d -> ff_ok (apply_ev ops d e).
Proof.
  unfold ff_ok. destruct d as [segs orph ix ov im dbm lk bac].
  destruct e as [f|f|id seq off r|i|id seq m|i|sd|f n|f g|f|f]; cbn [ev_safe]; intros Hs H;
    try destruct f; try contradiction;
    cbv beta iota delta [apply_ev file_removed set_segs set_orphans set_index set_overflow set_imeta
      set_dbmeta set_lock set_bac upd_seg d_segs d_orphans d_index d_overflow d_imeta d_dbmeta d_lock d_bac];
    try exact H;
    try (apply ffl_map; [intros s; repeat split|exact H]).
  apply ffl_snoc; [apply xseg_ok_empty|exact H].
Qed.

Lemma ff_emit e (s : @DB.st I) : ev_safe e -> ff_ok (s_disk s) -> ff_ok (s_disk (emit ops e s)).
Proof. intros He H. unfold emit. cbn [s_disk]. apply ff_apply_ev; assumption. Qed.

Lemma ff_emits es : Forall ev_safe es -> forall s : @DB.st I,
  ff_ok (s_disk s) -> ff_ok (s_disk (emits ops es s)).
Proof.
  unfold emits. induction 1 as [|e es He Hes IH]; intros s H; cbn [fold_left]; [exact H|].
  apply IH. apply ff_emit; assumption.
Qed.

Lemma ff_fold_emit {A} (ev : A -> @fsev I) (l : list A) :
  (forall a, In a l -> ev_safe (ev a)) -> forall s : @DB.st I,
  ff_ok (s_disk s) -> ff_ok (s_disk (fold_left (fun s a => emit ops (ev a) s) l s)).
Proof.
  induction l as [|a l IH]; intros Hl s H; cbn [fold_left]; [exact H|].
  apply IH; [intros b Hb; apply Hl; right; exact Hb|]. apply ff_emit; [apply Hl; left; reflexivity|exact H].
Qed.

Lemma ff_backup_nonseg (s : @DB.st I) : ff_ok (s_disk s) -> ff_ok (s_disk (backup_nonseg ops s)).
Proof.
  intros H. unfold backup_nonseg. apply (ff_fold_emit (fun f => ERename f (FBac f))); [|exact H].
  intros f Hf. apply (Permutation_in _ (rc_sort_names_perm _)) in Hf. apply filter_In in Hf.
  destruct Hf as [_ Hf]. destruct f; cbn [ev_safe]; try exact Logic.I. discriminate Hf.
Qed.

Lemma ff_open_index (s s' : @DB.st I) i :
  open_index ops s = Some (s', i) -> ff_ok (s_disk s) -> ff_ok (s_disk s').
Proof.
  unfold open_index. intros E H.
  set (fresh := match d_index (s_disk s) with None => true | Some _ => false end) in E.
  set (s1 := if fresh then emits ops [ECreate FMain; EHeader FMain] s else s) in E.
  assert (H1 : ff_ok (s_disk s1)).
  { subst s1. destruct fresh; [|exact H]. apply ff_emits; [|exact H]. repeat constructor. }
  set (s2 := if d_overflow (s_disk s1) then s1 else emits ops [ECreate FOverflow; EHeader FOverflow] s1) in E.
  assert (H2 : ff_ok (s_disk s2)).
  { subst s2. destruct (d_overflow (s_disk s1)); [exact H1|]. apply ff_emits; [|exact H1]. repeat constructor. }
  destruct fresh.
  - injection E as <- _. apply (ff_emits [ETrunc FMain (header_size + 512); EIndex (ix_empty ops)]); [|exact H2].
    repeat constructor.
  - destruct (d_index (s_disk s2)) as [j|]; [|discriminate].
    destruct (d_imeta (s_disk s2)) as [| |j']; try discriminate. injection E as <- _. exact H2.
Qed.

Lemma ff_open_segments_fold (L : list dseg) : forall acc : @DB.st I * list mseg,
  ff_ok (s_disk (fst acc)) ->
  ff_ok (s_disk (fst (fold_left (fun (acc : @DB.st I * list mseg) (f : dseg) =>
    let '(s, l) := acc in
    let s1 := if f_hdr f then s else emit ops (EHeader (FSeg (f_id f) (f_seq f))) s in
    let size := match find_dseg (f_id f) (s_disk s1) with Some f' => flen f' | None => 0 end in
    let meta := match f_meta f with GOk m => m | _ => smeta0 end in
    (s1, insert_mseg {| g_id := f_id f; g_seq := f_seq f; g_size := size; g_meta := meta |} l)) L acc))).
Proof.
  induction L as [|f L IH]; intros [s l] H; cbn [fold_left]; [exact H|].
  apply IH. cbv beta iota zeta. cbn [fst] in *.
  destruct (f_hdr f); [exact H|]. apply ff_emit; [exact Logic.I|exact H].
Qed.

Lemma ff_open_segments (s : @DB.st I) :
  ff_ok (s_disk s) -> ff_ok (s_disk (fst (open_segments ops s))).
Proof. intros H. unfold open_segments. apply ff_open_segments_fold. exact H. Qed.

Lemma ff_swap_segment (s : @DB.st I) m :
  ff_ok (s_disk s) -> ff_ok (s_disk (fst (swap_segment ops s m))).
Proof.
  intros H. unfold swap_segment.
  destruct (find (fun g => negb (sm_full (g_meta g))) (m_segs m)) as [g|]; [exact H|].
  cbv zeta. cbn [fst]. apply ff_emits; [|exact H]. repeat constructor.
Qed.

Lemma s_disk_reframe id seq extra n (s : @DB.st I) :
  s_disk (reframe id seq extra n s) = upd_seg id seq (reframed extra n) (s_disk s).
Proof. reflexivity. Qed.

Lemma ff_recover_segment P id seq (s : @DB.st I) m :
  ff_ok (s_disk s) -> ff_ok (s_disk (fst (recover_segment ops P id seq s m))).
Proof.
  intros H. unfold recover_segment.
  destruct (find_dseg id (s_disk s)) as [f|] eqn:Ef; [|exact H].
  destruct (parse_tail (f_tail f)) as [[extra n] why] eqn:Ep. cbv zeta. cbn [fst].
  assert (H0 : ff_ok (s_disk (reframe id seq extra n s))).
  { rewrite s_disk_reframe. unfold ff_ok in *. destruct (s_disk s) as [segs orph ix ov im dbm lk bac].
    unfold find_dseg in Ef. cbn [upd_seg d_segs] in *.
    apply (ffl_map_found id seq _ segs f); [reflexivity|exact H|exact Ef|].
    intros _ Hf. exact (xseg_ok_reframed f extra n why Ep Hf). }
  assert (H1 : ff_ok (s_disk (emit ops (ETrunc (FSeg id seq) (header_size + recs_len (f_recs f) + n))
                               (reframe id seq extra n s)))).
  { unfold emit. cbn [s_disk apply_ev]. rewrite s_disk_reframe in *. unfold ff_ok in *.
    destruct (s_disk s) as [segs orph ix ov im dbm lk bac]. unfold find_dseg in Ef.
    cbn [upd_seg d_segs] in *.
    set (c1 := fun s => if is_seg id seq s then reframed extra n s else s) in *.
    apply (ffl_map_found id seq _ (map c1 segs) (c1 f)); [apply trunc_seg_id|exact H0| |].
    - rewrite find_map_id, Ef; [reflexivity|].
      intros x. unfold c1. destruct (is_seg id seq x); reflexivity.
    - unfold c1. destruct (is_seg id seq f) eqn:Eis; intros Hi _; [|congruence].
      exact (xseg_ok_trunc_reframed f extra n why Ep (H id f Ef)). }
  destruct why; assumption.
Qed.

(* db_open = lock, backup of the non-segment files if the lock was there; then [open_mid] *)
Definition open_mid (P : params) (seed : N) (existing : bool) (s1 : @DB.st I) : @DB.st I * out :=
  match open_index ops s1 with
  | None => (s1, OErr EOpenFailed)
  | Some (s2, i) =>
    let '(s3, segs) := open_segments ops s2 in
    let maxseq := fold_left (fun n g => N.max n (g_seq g)) segs 0 in
    let m0 := {| m_segs := segs; m_cur := (0, 0); m_cur_removed := true; m_maxseq := maxseq;
                 m_idx := i; m_seed := seed |} in
    let '(s4, m1) := swap_segment ops s3 m0 in
    let seed_ok :=
      if ix_count ops i =? 0 then Some seed
      else match d_dbmeta (s_disk s4) with GOk sd => Some sd | _ => None end in
    match seed_ok with
    | None => (s4, OErr EOpenFailed)
    | Some sd =>
      let m2 := {| m_segs := m_segs m1; m_cur := m_cur m1; m_cur_removed := m_cur_removed m1;
                   m_maxseq := m_maxseq m1; m_idx := m_idx m1; m_seed := sd |} in
      if existing
      then let '(s5, m3) := recover ops P s4 m2 in (with_mem m3 s5, OOpened true)
      else (with_mem m2 s4, OOpened false)
    end
  end.

Lemma db_open_mid P seed (s : @DB.st I) :
  db_open ops P seed s =
  match s_mem s with
  | Some _ => (s, OErr ELocked)
  | None =>
    let existing := d_lock (s_disk s) in
    let s0 := if existing then s else emit ops (ECreate FLock) s in
    let s1 := if existing then backup_nonseg ops s0 else s0 in
    open_mid P seed existing s1
  end.
Proof. reflexivity. Qed.

(* Backup as a named fixpoint *)
Definition backup_go (d : @DB.disk I) : list (N * N * option N) -> option (list dseg) :=
  fix go (l : list (N * N * option N)) : option (list dseg) :=
  match l with
  | [] => Some []
  | p :: l' => match copy_seg d p, go l' with
               | Some c, Some r => Some (c :: r)
               | _, _ => None
               end
  end.

Lemma backup_go_cons (d : @DB.disk I) p l :
  backup_go d (p :: l) = match copy_seg d p, backup_go d l with
                         | Some c, Some r => Some (c :: r)
                         | _, _ => None
                         end.
Proof. reflexivity. Qed.

Lemma db_backup_go (s : @DB.st I) :
  db_backup s = match s_mem s with
                | None => None
                | Some m => option_map backup_disk (backup_go (s_disk s) (backup_plan m))
                end.
Proof. reflexivity. Qed.

(* ---- Close keeps the disk part of the side condition ---- *)
Lemma ff_gob_write f b (s : @DB.st I) :
  match f with FSeg _ _ => False | _ => True end -> ev_safe b ->
  ff_ok (s_disk s) -> ff_ok (s_disk (gob_write ops f b s)).
Proof.
  intros Hf Hb H. unfold gob_write. apply ff_emits.
  - constructor; [exact Logic.I|]. constructor; [exact Hb|]. constructor; [exact Logic.I|constructor].
  - destruct (exists_file (s_disk s) f); apply ff_emit; try exact H; [|exact Logic.I].
    destruct f; try exact Logic.I. contradiction.
Qed.

Lemma ff_close_fold (l : list mseg) : forall s0 : @DB.st I, ff_ok (s_disk s0) ->
  ff_ok (s_disk (fold_left (fun s g =>
      gob_write ops (FSegMeta (g_id g) (g_seq g)) (EGobSeg (g_id g) (g_seq g) (g_meta g))
                (emit ops (ESync (FSeg (g_id g) (g_seq g))) s)) l s0)).
Proof.
  induction l as [|g l IH]; intros s0 H; cbn [fold_left]; [exact H|].
  apply IH. apply ff_gob_write; [exact Logic.I|exact Logic.I|]. apply ff_emit; [exact Logic.I|exact H].
Qed.

Lemma ff_close (s : @DB.st I) : ff_ok (s_disk s) -> ff_ok (s_disk (fst (db_close ops s))).
Proof.
  intros H. unfold db_close. destruct (s_mem s) as [m|]; [|exact H]. cbv zeta. cbn [fst s_disk].
  apply (ff_emits [ESync FMain; ESync FOverflow; ERemove FLock]); [repeat constructor|].
  apply ff_gob_write; [exact Logic.I|exact Logic.I|]. apply ff_close_fold.
  apply ff_gob_write; [exact Logic.I|exact Logic.I|exact H].
Qed.

(* ---- the run language ---- *)
(* the side condition an operation needs BEFORE it runs *)
Definition op_xok (P : params) (s : @DB.st I) (o : op') : Prop :=
  match o with
  | OpBase (OpPut _ _) => sizes_ok s
  | OpCompact => compact_xok P s
  | _ => True
  end.

Definition lstep (P : params) (s : @DB.st I) (o : lop) : @DB.st I * out :=
  match o with
  | LBase b => step' ops P s b
  | LClose => db_close ops s
  | LOpen seed => db_open ops P seed s
  | LCrash => ({| s_mem := None; s_disk := s_disk s; s_trace := s_trace s |}, OOk)
  end.

Definition lop_ok (P : params) (s : @DB.st I) (o : lop) : Prop :=
  match o with
  | LBase b => op_xok P s b
  | LOpen _ => ff_ok (s_disk s)
  | LClose | LCrash => True
  end.

Fixpoint lrun (P : params) (s : @DB.st I) (l : list lop) : list out :=
  match l with
  | [] => []
  | o :: l' => let '(s', r) := lstep P s o in r :: lrun P s' l'
  end.

Definition lfinal (P : params) (s : @DB.st I) (l : list lop) : @DB.st I :=
  fold_left (fun s o => fst (lstep P s o)) l s.

(* the side condition before every operation of the run *)
Inductive loks (P : params) : @DB.st I -> list lop -> Prop :=
| loks_nil s : loks P s []
| loks_cons s o l : lop_ok P s o -> loks P (fst (lstep P s o)) l -> loks P s (o :: l).

Inductive xoks' (P : params) : @DB.st I -> list op' -> Prop :=
| xoks'_nil s : xoks' P s []
| xoks'_cons s o l :
    op_xok P s o -> xoks' P (fst (step' ops P s o)) l -> xoks' P s (o :: l).

End One.

(* ================================================================================================ *)
(** * 2. An exact index simulation lifts to every function of DB.v *)

Section Exact.
Context {I1 I2 : Type}.
Variable ops1 : idx_ops I1.
Variable ops2 : idx_ops I2.
Variable R : I1 -> I2 -> Prop.
Hypothesis XS : exact_sim ops1 ops2 R.

Local Notation st1 := (@DB.st I1). Local Notation st2 := (@DB.st I2).
Local Notation mem1 := (@DB.mem I1). Local Notation mem2 := (@DB.mem I2).
Local Notation disk1 := (@DB.disk I1). Local Notation disk2 := (@DB.disk I2).

Let RE : R (ix_empty ops1) (ix_empty ops2) := xs_empty _ _ _ XS.

(* the side condition does not depend on the index: it transfers along the relation *)
Lemma sizes_ok_rel (s1 : st1) (s2 : st2) : gst_rel R s1 s2 -> (sizes_ok s1 <-> sizes_ok s2).
Proof.
  intros Hs. unfold sizes_ok.
  destruct (st_rel_mem_cases R _ _ Hs) as [[E1 E2]|(m1 & m2 & E1 & E2 & Hm)]; rewrite E1, E2.
  - split; intros _ m E; discriminate.
  - split; intros H m E; injection E as <-.
    + rewrite <- (mem_rel_segs R _ _ Hm). exact (H m1 eq_refl).
    + rewrite (mem_rel_segs R _ _ Hm). exact (H m2 eq_refl).
Qed.

Lemma xdisk_ok_rel (d1 : disk1) (d2 : disk2) : gdisk_rel R d1 d2 -> (xdisk_ok d1 <-> xdisk_ok d2).
Proof. intros Hd. unfold xdisk_ok. rewrite (d_segs_rel R _ _ Hd). tauto. Qed.

Lemma ff_ok_rel (d1 : disk1) (d2 : disk2) : gdisk_rel R d1 d2 -> (ff_ok d1 <-> ff_ok d2).
Proof. intros Hd. unfold ff_ok. rewrite (d_segs_rel R _ _ Hd). tauto. Qed.

Lemma xok_rel (s1 : st1) (s2 : st2) : gst_rel R s1 s2 -> (xok s1 <-> xok s2).
Proof.
  intros Hs. unfold xok. rewrite (sizes_ok_rel s1 s2 Hs), (ff_ok_rel _ _ (st_rel_disk R _ _ Hs)). tauto.
Qed.

(* ---- Put ---- *)
Theorem xsim_put P k v (s1 : st1) (s2 : st2) :
  gst_rel R s1 s2 -> sizes_ok s2 ->
  so_rel R (db_put ops1 P k v s1) (db_put ops2 P k v s2).
Proof.
  intros Hs Hok. unfold db_put.
  destruct (st_rel_mem_cases R _ _ Hs) as [[E1 E2]|(m1 & m2 & E1 & E2 & Hm)]; rewrite E1, E2.
  { split; [reflexivity|exact Hs]. }
  cbv beta iota.
  destruct (max_key_len <? nlen k); [split; [reflexivity|exact Hs]|].
  destruct (max_val_len <? nlen v); [split; [reflexivity|exact Hs]|].
  rewrite (mem_rel_seed R _ _ Hm). cbv zeta.
  pose proof (write_record_rel R ops1 ops2 RE P (mkput k v) s1 s2 m1 m2 Hs Hm) as Hw.
  destruct (write_record ops1 P (mkput k v) s1 m1) as [[[[s1' m1'] id1] off1]|];
    destruct (write_record ops2 P (mkput k v) s2 m2) as [[[[s2' m2'] id2] off2]|] eqn:Ew2;
    unfold wr_rel in Hw; try contradiction.
  - destruct Hw as (Hs' & Hm' & -> & ->).
    assert (Hoff : off2 <> 0) by (exact (write_record_off ops2 _ _ _ _ _ _ _ _ Ew2 (Hok m2 E2))).
    rewrite (matchf_rel R _ _ k (st_rel_disk R _ _ Hs')).
    set (sl := {| sl_h := p_hash P (m_seed m2) k; sl_seg := id2; sl_ks := u16 (nlen k);
                  sl_vs := u32 (nlen v); sl_off := off2 |}).
    destruct (xs_put _ _ _ XS (p_grow P) (m_idx m1') (m_idx m2') sl (matchf (s_disk s2') k)
                (mem_rel_idx R _ _ Hm') Hoff) as [Eold Hi].
    destruct (ix_put ops1 (p_grow P) (m_idx m1') sl (matchf (s_disk s2') k)) as [i1 old1].
    destruct (ix_put ops2 (p_grow P) (m_idx m2') sl (matchf (s_disk s2') k)) as [i2 old2].
    cbn [fst snd] in Eold, Hi. subst old2.
    apply (finish_rel R ops1 ops2 RE).
    + apply (emit_rel R ops1 ops2 RE); [exact Hs'|constructor; exact Hi].
    + apply set_idx_rel; [|exact Hi]. destruct old1; [apply track_del_rel|]; exact Hm'.
  - split; [reflexivity|exact Hs].
Qed.

(* ---- Delete (no side condition: ix_del has none) ---- *)
Theorem xsim_delete P k (s1 : st1) (s2 : st2) :
  gst_rel R s1 s2 -> so_rel R (db_delete ops1 P k s1) (db_delete ops2 P k s2).
Proof.
  intros Hs. unfold db_delete.
  destruct (st_rel_mem_cases R _ _ Hs) as [[E1 E2]|(m1 & m2 & E1 & E2 & Hm)]; rewrite E1, E2.
  { split; [reflexivity|exact Hs]. }
  cbv beta iota. rewrite (mem_rel_seed R _ _ Hm). cbv zeta.
  rewrite (matchf_rel R _ _ k (st_rel_disk R _ _ Hs)).
  destruct (xs_del _ _ _ XS (m_idx m1) (m_idx m2) (p_hash P (m_seed m2) k) (matchf (s_disk s2) k)
              (mem_rel_idx R _ _ Hm)) as [Eold Hi].
  destruct (ix_del ops1 (m_idx m1) (p_hash P (m_seed m2) k) (matchf (s_disk s2) k)) as [i1 old1].
  destruct (ix_del ops2 (m_idx m2) (p_hash P (m_seed m2) k) (matchf (s_disk s2) k)) as [i2 old2].
  cbn [fst snd] in Eold, Hi. subst old2.
  destruct old1 as [o|].
  - pose proof (write_record_rel R ops1 ops2 RE P (mkdel k) s1 s2 (track_del o m1) (track_del o m2) Hs
                  (track_del_rel R _ _ o Hm)) as Hw.
    destruct (write_record ops1 P (mkdel k) s1 (track_del o m1)) as [[[[s1' m1'] id1] off1]|];
      destruct (write_record ops2 P (mkdel k) s2 (track_del o m2)) as [[[[s2' m2'] id2] off2]|];
      unfold wr_rel in Hw; try contradiction.
    + destruct Hw as (Hs' & Hm' & -> & ->).
      apply (finish_rel R ops1 ops2 RE).
      * apply (emit_rel R ops1 ops2 RE); [exact Hs'|constructor; exact Hi].
      * apply set_idx_rel; [|exact Hi]. apply add_delbytes_rel. exact Hm'.
    + split; [reflexivity|exact Hs].
  - apply (finish_rel R ops1 ops2 RE); assumption.
Qed.

(* ---- reads ---- *)
Theorem xsim_get P k (s1 : st1) (s2 : st2) :
  gst_rel R s1 s2 -> db_get ops1 P k s1 = db_get ops2 P k s2.
Proof.
  intros Hs. unfold db_get.
  destruct (st_rel_mem_cases R _ _ Hs) as [[E1 E2]|(m1 & m2 & E1 & E2 & Hm)]; rewrite E1, E2; [reflexivity|].
  cbv beta iota. rewrite (mem_rel_seed R _ _ Hm), (matchf_rel R _ _ k (st_rel_disk R _ _ Hs)).
  rewrite (xs_get _ _ _ XS _ _ (p_hash P (m_seed m2) k) (matchf (s_disk s2) k) (mem_rel_idx R _ _ Hm)).
  destruct (ix_get ops2 (m_idx m2) (p_hash P (m_seed m2) k) (matchf (s_disk s2) k)) as [sl|]; [|reflexivity].
  rewrite (read_kv_rel R _ _ sl (st_rel_disk R _ _ Hs)). reflexivity.
Qed.

Theorem xsim_get_append P k buf (s1 : st1) (s2 : st2) :
  gst_rel R s1 s2 -> db_get_append ops1 P k buf s1 = db_get_append ops2 P k buf s2.
Proof. intros Hs. unfold db_get_append. rewrite (xsim_get P k s1 s2 Hs). reflexivity. Qed.

Theorem xsim_has P k (s1 : st1) (s2 : st2) :
  gst_rel R s1 s2 -> db_has ops1 P k s1 = db_has ops2 P k s2.
Proof.
  intros Hs. unfold db_has.
  destruct (st_rel_mem_cases R _ _ Hs) as [[E1 E2]|(m1 & m2 & E1 & E2 & Hm)]; rewrite E1, E2; [reflexivity|].
  cbv beta iota. rewrite (mem_rel_seed R _ _ Hm), (matchf_rel R _ _ k (st_rel_disk R _ _ Hs)).
  rewrite (xs_get _ _ _ XS _ _ (p_hash P (m_seed m2) k) (matchf (s_disk s2) k) (mem_rel_idx R _ _ Hm)).
  reflexivity.
Qed.

Theorem xsim_count (s1 : st1) (s2 : st2) :
  gst_rel R s1 s2 -> db_count ops1 s1 = db_count ops2 s2.
Proof.
  intros Hs. unfold db_count.
  destruct (st_rel_mem_cases R _ _ Hs) as [[E1 E2]|(m1 & m2 & E1 & E2 & Hm)]; rewrite E1, E2; [reflexivity|].
  cbv beta iota. rewrite (xs_count _ _ _ XS _ _ (mem_rel_idx R _ _ Hm)). reflexivity.
Qed.

(* ---- Items: the SAME list (same buckets, same slot order) ---- *)
Lemma fetch_bucket_x (s1 : st1) (s2 : st2) n :
  gst_rel R s1 s2 -> fetch_bucket ops1 s1 n = fetch_bucket ops2 s2 n.
Proof.
  intros Hs. unfold fetch_bucket.
  destruct (st_rel_mem_cases R _ _ Hs) as [[E1 E2]|(m1 & m2 & E1 & E2 & Hm)]; rewrite E1, E2; [reflexivity|].
  cbv beta iota. rewrite (xs_bucket _ _ _ XS _ _ n (mem_rel_idx R _ _ Hm)).
  apply (read_slots_rel R). exact (st_rel_disk R _ _ Hs).
Qed.

Theorem xsim_items (s1 : st1) (s2 : st2) :
  gst_rel R s1 s2 -> db_items ops1 s1 = db_items ops2 s2.
Proof.
  intros Hs. rewrite !db_items_go.
  destruct (st_rel_mem_cases R _ _ Hs) as [[E1 E2]|(m1 & m2 & E1 & E2 & Hm)]; rewrite E1, E2; [reflexivity|].
  cbv beta iota. rewrite (xs_nbuckets _ _ _ XS _ _ (mem_rel_idx R _ _ Hm)).
  generalize (nseq 0 (N.to_nat (ix_nbuckets ops2 (m_idx m2)))). intros l.
  induction l as [|n l IH]; [reflexivity|].
  rewrite !items_go_cons, IH, (fetch_bucket_x s1 s2 n Hs). reflexivity.
Qed.

(* ---- Sync, pickForCompaction ---- *)
Theorem xsim_sync (s1 : st1) (s2 : st2) :
  gst_rel R s1 s2 -> so_rel R (db_sync ops1 s1) (db_sync ops2 s2).
Proof. intros Hs. exact (sync_rel R ops1 ops2 RE s1 s2 Hs). Qed.

Theorem xsim_compact_pick P (s1 : st1) (s2 : st2) :
  gst_rel R s1 s2 -> pick_res_rel R (compact_pick ops1 P s1) (compact_pick ops2 P s2).
Proof. intros Hs. exact (compact_pick_rel R ops1 ops2 RE P s1 s2 Hs). Qed.

(* ---- one critical section of Compact ---- *)
Inductive xcstep_rel : @cstep I1 -> @cstep I2 -> Prop :=
| xcr_done : xcstep_rel CDone CDone
| xcr_more s1 s2 c : gst_rel R s1 s2 -> xcstep_rel (CMore s1 c) (CMore s2 c)
| xcr_fail w : xcstep_rel (CFail w) (CFail w).

Theorem xsim_compact_step P (s1 : st1) (s2 : st2) c :
  gst_rel R s1 s2 -> xok s2 ->
  xcstep_rel (compact_step ops1 P s1 c) (compact_step ops2 P s2 c).
Proof.
  intros Hs [Hsz Hdk]. unfold compact_step.
  destruct (st_rel_mem_cases R _ _ Hs) as [[E1 E2]|(m1 & m2 & E1 & E2 & Hm)]; rewrite E1, E2; [constructor|].
  cbv beta iota.
  destruct (c_src c) as [[[id seq] off]|].
  - rewrite (find_dseg_rel R _ _ id (st_rel_disk R _ _ Hs)).
    destruct (find_dseg id (s_disk s2)) as [f|] eqn:Ef; [|constructor].
    destruct (rec_at off (seg_entries f)) as [r|] eqn:Er.
    + cbv zeta. destruct (rdel r); [constructor; exact Hs|].
      rewrite (mem_rel_seed R _ _ Hm).
      set (h := p_hash P (m_seed m2) (rk r)).
      assert (Hoff : u32 off <> 0).
      { apply (xseg_ok_entry f off r); [|apply rec_at_In; exact Er].
        exact (Hdk id f Ef). }
      pose proof (xs_repoint _ _ _ XS (m_idx m1) (m_idx m2) h id (u32 off) id (u32 off)
                    (mem_rel_idx R _ _ Hm) Hoff) as R1.
      destruct (ix_repoint ops1 (m_idx m1) h id (u32 off) id (u32 off)) as [j1|];
        destruct (ix_repoint ops2 (m_idx m2) h id (u32 off) id (u32 off)) as [j2|]; inversion R1; subst.
      * pose proof (write_record_rel R ops1 ops2 RE P r s1 s2 m1 m2 Hs Hm) as Hw.
        destruct (write_record ops1 P r s1 m1) as [[[[s1' m1'] id1] off1]|];
          destruct (write_record ops2 P r s2 m2) as [[[[s2' m2'] id2] off2]|] eqn:Ew2;
          unfold wr_rel in Hw; try contradiction; [|constructor].
        destruct Hw as (Hs' & Hm' & -> & ->).
        assert (Hoff2 : off2 <> 0) by (exact (write_record_off ops2 _ _ _ _ _ _ _ _ Ew2 (Hsz m2 E2))).
        pose proof (xs_repoint _ _ _ XS (m_idx m1') (m_idx m2') h id (u32 off) id2 off2
                      (mem_rel_idx R _ _ Hm') Hoff2) as R2.
        destruct (ix_repoint ops1 (m_idx m1') h id (u32 off) id2 off2) as [k1|];
          destruct (ix_repoint ops2 (m_idx m2') h id (u32 off) id2 off2) as [k2|]; inversion R2; subst;
          [|constructor].
        constructor. apply with_mem_rel.
        -- apply (emit_rel R ops1 ops2 RE); [exact Hs'|constructor; assumption].
        -- apply set_idx_rel; assumption.
      * constructor. exact Hs.
    + destruct (negb ((flen f =? off) && (f_seq f =? seq))); [constructor|].
      constructor. apply (remove_segment_rel R ops1 ops2 RE); assumption.
  - destruct (c_todo c) as [|[id seq] todo]; [constructor|]. cbv zeta. constructor.
    apply with_mem_rel; [exact Hs|]. rewrite (mem_rel_segs R _ _ Hm). apply set_msegs_rel. exact Hm.
Qed.

(* ---- whole compactions: the side condition holds along the run of the SECOND instance ---- *)
Theorem xsim_compact_run P fuel : forall (s1 : st1) (s2 : st2) c,
  gst_rel R s1 s2 -> cxok ops2 P fuel s2 c ->
  so_rel R (compact_run ops1 P fuel s1 c) (compact_run ops2 P fuel s2 c).
Proof.
  induction fuel as [|f IH]; intros s1 s2 c Hs Hc; cbn [compact_run].
  - split; [reflexivity|exact Hs].
  - cbn [cxok] in Hc. destruct Hc as [Hx Hnext].
    pose proof (xsim_compact_step P s1 s2 c Hs Hx) as Hstep.
    destruct (compact_step ops1 P s1 c) as [|s1' c1'|w1];
      destruct (compact_step ops2 P s2 c) as [|s2' c2'|w2]; inversion Hstep; subst.
    + split; [reflexivity|exact Hs].
    + apply IH; assumption.
    + split; [reflexivity|exact Hs].
Qed.

Theorem xsim_db_compact P (s1 : st1) (s2 : st2) :
  gst_rel R s1 s2 -> compact_xok ops2 P s2 ->
  so_rel R (db_compact ops1 P s1) (db_compact ops2 P s2).
Proof.
  intros Hs Hc. unfold db_compact. unfold compact_xok in Hc.
  pose proof (compact_pick_rel R ops1 ops2 RE P s1 s2 Hs) as Hp.
  destruct (compact_pick ops1 P s1) as [[s1' c1]|];
    destruct (compact_pick ops2 P s2) as [[s2' c2]|]; unfold pick_res_rel in Hp; try contradiction.
  - destruct Hp as [Hs' ->]. rewrite (total_recs_rel R _ _ (st_rel_disk R _ _ Hs')).
    apply xsim_compact_run; assumption.
  - split; [reflexivity|exact Hs].
Qed.

(* ---- Close ---- *)
Lemma gob_write_x f b1 b2 (s1 : st1) (s2 : st2) :
  gst_rel R s1 s2 -> gev_rel R b1 b2 -> gst_rel R (gob_write ops1 f b1 s1) (gob_write ops2 f b2 s2).
Proof.
  intros Hs Hb. unfold gob_write. rewrite (exists_file_rel R _ _ f (st_rel_disk R _ _ Hs)).
  apply (emits_rel R ops1 ops2 RE).
  - constructor; [constructor|]. constructor; [exact Hb|]. constructor; [constructor|constructor].
  - destruct (exists_file (s_disk s2) f); apply (emit_rel R ops1 ops2 RE); try exact Hs; constructor.
Qed.

Lemma close_fold_x (l : list mseg) : forall (a : st1) (b : st2), gst_rel R a b ->
  gst_rel R
    (fold_left (fun s g => gob_write ops1 (FSegMeta (g_id g) (g_seq g)) (EGobSeg (g_id g) (g_seq g) (g_meta g))
                             (emit ops1 (ESync (FSeg (g_id g) (g_seq g))) s)) l a)
    (fold_left (fun s g => gob_write ops2 (FSegMeta (g_id g) (g_seq g)) (EGobSeg (g_id g) (g_seq g) (g_meta g))
                             (emit ops2 (ESync (FSeg (g_id g) (g_seq g))) s)) l b).
Proof.
  induction l as [|g l IH]; intros a b Hab; cbn [fold_left]; [exact Hab|].
  apply IH. apply gob_write_x; [|constructor]. apply (emit_rel R ops1 ops2 RE); [exact Hab|constructor].
Qed.

Theorem xsim_close (s1 : st1) (s2 : st2) :
  gst_rel R s1 s2 -> so_rel R (db_close ops1 s1) (db_close ops2 s2).
Proof.
  intros Hs. unfold db_close.
  destruct (st_rel_mem_cases R _ _ Hs) as [[E1 E2]|(m1 & m2 & E1 & E2 & Hm)]; rewrite E1, E2.
  { split; [reflexivity|exact Hs]. }
  cbv beta iota zeta. split; [reflexivity|]. cbn [fst].
  rewrite (mem_rel_seed R _ _ Hm), (mem_rel_segs R _ _ Hm).
  match goal with
  | |- gst_rel R {| s_mem := None; s_disk := s_disk ?a; s_trace := _ |}
                 {| s_mem := None; s_disk := s_disk ?b; s_trace := _ |} =>
      assert (H4 : gst_rel R a b)
  end.
  { apply (emits_rel R ops1 ops2 RE).
    - constructor; [constructor|]. constructor; [constructor|]. constructor; [constructor|constructor].
    - apply gob_write_x; [|constructor; exact (mem_rel_idx R _ _ Hm)].
      apply close_fold_x. apply gob_write_x; [exact Hs|constructor]. }
  apply st_rel_iff. cbn [s_mem s_disk s_trace].
  split; [constructor|]. split; [exact (st_rel_disk R _ _ H4)|exact (st_rel_trace R _ _ H4)].
Qed.

(* ---- Open ---- *)
Lemma opt_rel_cases {A B} (Q : A -> B -> Prop) x y : opt_rel Q x y ->
  (x = None /\ y = None) \/ (exists a b, x = Some a /\ y = Some b /\ Q a b).
Proof. intros H. destruct H as [|a b Hab]; [left; auto|right; exists a, b; auto]. Qed.

Lemma gob_rel_cases {A B} (Q : A -> B -> Prop) x y : gob_rel Q x y ->
  (x = GAbsent /\ y = GAbsent) \/ (x = GPartial /\ y = GPartial) \/
  (exists a b, x = GOk a /\ y = GOk b /\ Q a b).
Proof.
  intros H. destruct H as [| |a b Hab]; [left; auto|right; left; auto|right; right; exists a, b; auto].
Qed.

Lemma d_lock_x (d1 : disk1) (d2 : disk2) : gdisk_rel R d1 d2 -> d_lock d1 = d_lock d2.
Proof. intros H. destruct H. reflexivity. Qed.
Lemma d_overflow_x (d1 : disk1) (d2 : disk2) : gdisk_rel R d1 d2 -> d_overflow d1 = d_overflow d2.
Proof. intros H. destruct H. reflexivity. Qed.
Lemma d_dbmeta_x (d1 : disk1) (d2 : disk2) : gdisk_rel R d1 d2 -> d_dbmeta d1 = d_dbmeta d2.
Proof. intros H. destruct H. reflexivity. Qed.
Lemma d_index_x (d1 : disk1) (d2 : disk2) : gdisk_rel R d1 d2 -> opt_rel R (d_index d1) (d_index d2).
Proof. intros H. destruct H. assumption. Qed.
Lemma d_imeta_x (d1 : disk1) (d2 : disk2) : gdisk_rel R d1 d2 -> gob_rel R (d_imeta d1) (d_imeta d2).
Proof. intros H. destruct H. assumption. Qed.

Lemma upd_seg_x id seq G (d1 : disk1) (d2 : disk2) :
  gdisk_rel R d1 d2 -> gdisk_rel R (upd_seg id seq G d1) (upd_seg id seq G d2).
Proof.
  intros H. destruct H. unfold upd_seg.
  cbn [d_segs d_orphans d_index d_overflow d_imeta d_dbmeta d_lock d_bac]. constructor; assumption.
Qed.

Lemma fold_emit_x {A} (ev1 : A -> @fsev I1) (ev2 : A -> @fsev I2) (l : list A) :
  (forall a, gev_rel R (ev1 a) (ev2 a)) -> forall (s1 : st1) (s2 : st2), gst_rel R s1 s2 ->
  gst_rel R (fold_left (fun s a => emit ops1 (ev1 a) s) l s1)
            (fold_left (fun s a => emit ops2 (ev2 a) s) l s2).
Proof.
  intros He. induction l as [|a l IH]; intros s1 s2 Hs; cbn [fold_left]; [exact Hs|].
  apply IH. apply (emit_rel R ops1 ops2 RE); [exact Hs|apply He].
Qed.

Lemma backup_nonseg_x (s1 : st1) (s2 : st2) :
  gst_rel R s1 s2 -> gst_rel R (backup_nonseg ops1 s1) (backup_nonseg ops2 s2).
Proof.
  intros Hs. unfold backup_nonseg. rewrite (dir_rel R _ _ (st_rel_disk R _ _ Hs)).
  apply (fold_emit_x (fun f => ERename f (FBac f)) (fun f => ERename f (FBac f))); [|exact Hs].
  intros f. constructor.
Qed.

Lemma remove_bac_x (s1 : st1) (s2 : st2) :
  gst_rel R s1 s2 -> gst_rel R (remove_bac ops1 s1) (remove_bac ops2 s2).
Proof.
  intros Hs. unfold remove_bac. rewrite (d_bac_rel R _ _ (st_rel_disk R _ _ Hs)).
  apply (fold_emit_x (fun f => ERemove f) (fun f => ERemove f)); [|exact Hs].
  intros f. constructor.
Qed.

(* openIndex: the index read from main.pix / index.pmt, or a new one *)
Definition oi_rel (a : option (st1 * I1)) (b : option (st2 * I2)) : Prop :=
  match a, b with
  | None, None => True
  | Some (s1, i1), Some (s2, i2) => gst_rel R s1 s2 /\ R i1 i2
  | _, _ => False
  end.

Lemma oi_tail_x (s1 : st1) (s2 : st2) : gst_rel R s1 s2 ->
  oi_rel (match d_index (s_disk s1), d_imeta (s_disk s1) with
          | Some i, GOk j => Some (s1, i)
          | _, _ => None
          end)
         (match d_index (s_disk s2), d_imeta (s_disk s2) with
          | Some i, GOk j => Some (s2, i)
          | _, _ => None
          end).
Proof.
  intros Hs. pose proof (st_rel_disk R _ _ Hs) as Hd.
  destruct (opt_rel_cases _ _ _ (d_index_x _ _ Hd)) as [[E1 E2]|(a & b & E1 & E2 & Hab)]; rewrite E1, E2;
    [exact I|].
  destruct (gob_rel_cases _ _ _ (d_imeta_x _ _ Hd)) as [[F1 F2]|[[F1 F2]|(a' & b' & F1 & F2 & _)]];
    rewrite F1, F2; [exact I|exact I|]. split; assumption.
Qed.

Lemma open_index_x (s1 : st1) (s2 : st2) :
  gst_rel R s1 s2 -> oi_rel (open_index ops1 s1) (open_index ops2 s2).
Proof.
  intros Hs. unfold open_index. pose proof (st_rel_disk R _ _ Hs) as Hd.
  destruct (opt_rel_cases _ _ _ (d_index_x _ _ Hd)) as [[E1 E2]|(a & b & E1 & E2 & Hab)]; rewrite E1, E2;
    cbv beta iota zeta.
  - assert (Ha : gst_rel R (emits ops1 [ECreate FMain; EHeader FMain] s1)
                           (emits ops2 [ECreate FMain; EHeader FMain] s2)).
    { apply (emits_rel R ops1 ops2 RE); [|exact Hs]. repeat constructor. }
    rewrite (d_overflow_x _ _ (st_rel_disk R _ _ Ha)).
    destruct (d_overflow (s_disk (emits ops2 [ECreate FMain; EHeader FMain] s2))).
    + split; [|exact RE]. apply (emits_rel R ops1 ops2 RE); [|exact Ha].
      constructor; [constructor|]. constructor; [constructor; exact RE|constructor].
    + split; [|exact RE]. apply (emits_rel R ops1 ops2 RE).
      * constructor; [constructor|]. constructor; [constructor; exact RE|constructor].
      * apply (emits_rel R ops1 ops2 RE); [|exact Ha]. repeat constructor.
  - rewrite (d_overflow_x _ _ Hd). destruct (d_overflow (s_disk s2)).
    + apply oi_tail_x. exact Hs.
    + apply oi_tail_x. apply (emits_rel R ops1 ops2 RE); [|exact Hs]. repeat constructor.
Qed.

(* openDatalog *)
Definition os_rel (a : st1 * list mseg) (b : st2 * list mseg) : Prop :=
  gst_rel R (fst a) (fst b) /\ snd a = snd b.

Lemma open_segments_fold_x (L : list dseg) : forall a b, os_rel a b ->
  os_rel
    (fold_left (fun (acc : st1 * list mseg) (f : dseg) =>
      let '(s, l) := acc in
      let s1 := if f_hdr f then s else emit ops1 (EHeader (FSeg (f_id f) (f_seq f))) s in
      let size := match find_dseg (f_id f) (s_disk s1) with Some f' => flen f' | None => 0 end in
      let meta := match f_meta f with GOk m => m | _ => smeta0 end in
      (s1, insert_mseg {| g_id := f_id f; g_seq := f_seq f; g_size := size; g_meta := meta |} l)) L a)
    (fold_left (fun (acc : st2 * list mseg) (f : dseg) =>
      let '(s, l) := acc in
      let s1 := if f_hdr f then s else emit ops2 (EHeader (FSeg (f_id f) (f_seq f))) s in
      let size := match find_dseg (f_id f) (s_disk s1) with Some f' => flen f' | None => 0 end in
      let meta := match f_meta f with GOk m => m | _ => smeta0 end in
      (s1, insert_mseg {| g_id := f_id f; g_seq := f_seq f; g_size := size; g_meta := meta |} l)) L b).
Proof.
  induction L as [|f L IH]; intros [sa la] [sb lb] [A B]; cbn [fold_left]; [split; assumption|].
  cbn [fst snd] in A, B. subst lb. apply IH. cbv beta iota zeta.
  assert (H1 : gst_rel R (if f_hdr f then sa else emit ops1 (EHeader (FSeg (f_id f) (f_seq f))) sa)
                         (if f_hdr f then sb else emit ops2 (EHeader (FSeg (f_id f) (f_seq f))) sb)).
  { destruct (f_hdr f); [exact A|]. apply (emit_rel R ops1 ops2 RE); [exact A|constructor]. }
  split; cbn [fst snd]; [exact H1|].
  rewrite (find_dseg_rel R _ _ (f_id f) (st_rel_disk R _ _ H1)). reflexivity.
Qed.

Lemma open_segments_x (s1 : st1) (s2 : st2) :
  gst_rel R s1 s2 -> os_rel (open_segments ops1 s1) (open_segments ops2 s2).
Proof.
  intros Hs. unfold open_segments. rewrite (d_segs_rel R _ _ (st_rel_disk R _ _ Hs)).
  apply open_segments_fold_x. split; [exact Hs|reflexivity].
Qed.

(* recover(): the index is rebuilt by replaying the records; every Put handed to the index has a
   nonzero offset because of [ff_ok] *)
Lemma set_msegs_upd_x id F (m1 : mem1) (m2 : mem2) : gmem_rel R m1 m2 ->
  gmem_rel R (set_msegs m1 (upd_mseg id F (m_segs m1))) (set_msegs m2 (upd_mseg id F (m_segs m2))).
Proof. intros H. rewrite (mem_rel_segs R _ _ H). apply set_msegs_rel. exact H. Qed.

Lemma replay_rec_x P (d1 : disk1) (d2 : disk2) id off r (m1 : mem1) (m2 : mem2) :
  gdisk_rel R d1 d2 -> gmem_rel R m1 m2 -> u32 off <> 0 ->
  gmem_rel R (replay_rec ops1 P d1 id off r m1) (replay_rec ops2 P d2 id off r m2).
Proof.
  intros Hd Hm Hoff. unfold replay_rec.
  rewrite (mem_rel_seed R _ _ Hm), (matchf_rel R _ _ (rk r) Hd). cbv zeta.
  destruct (rdel r).
  - destruct (xs_del _ _ _ XS (m_idx m1) (m_idx m2) (p_hash P (m_seed m2) (rk r)) (matchf d2 (rk r))
                (mem_rel_idx R _ _ Hm)) as [Eold Hi].
    destruct (ix_del ops1 (m_idx m1) (p_hash P (m_seed m2) (rk r)) (matchf d2 (rk r))) as [i1 old1].
    destruct (ix_del ops2 (m_idx m2) (p_hash P (m_seed m2) (rk r)) (matchf d2 (rk r))) as [i2 old2].
    cbn [fst snd] in Eold, Hi. subst old2. cbv beta iota.
    apply set_msegs_upd_x. apply set_idx_rel; [|exact Hi].
    destruct old1; [apply track_del_rel|]; exact Hm.
  - set (sl := {| sl_h := p_hash P (m_seed m2) (rk r); sl_seg := id; sl_ks := u16 (nlen (rk r));
                  sl_vs := u32 (nlen (rv r)); sl_off := u32 off |}).
    destruct (xs_put _ _ _ XS (p_grow P) (m_idx m1) (m_idx m2) sl (matchf d2 (rk r))
                (mem_rel_idx R _ _ Hm) Hoff) as [Eold Hi].
    destruct (ix_put ops1 (p_grow P) (m_idx m1) sl (matchf d2 (rk r))) as [i1 old1].
    destruct (ix_put ops2 (p_grow P) (m_idx m2) sl (matchf d2 (rk r))) as [i2 old2].
    cbn [fst snd] in Eold, Hi. subst old2. cbv beta iota.
    apply set_msegs_upd_x. apply set_idx_rel; [|exact Hi].
    destruct old1; [apply track_del_rel|]; exact Hm.
Qed.

Lemma replay_fold_x P (d1 : disk1) (d2 : disk2) id (es : list (N * rec)) :
  gdisk_rel R d1 d2 -> Forall (fun e => u32 (fst e) <> 0) es ->
  forall (m1 : mem1) (m2 : mem2), gmem_rel R m1 m2 ->
  gmem_rel R (fold_left (fun m e => replay_rec ops1 P d1 id (fst e) (snd e) m) es m1)
             (fold_left (fun m e => replay_rec ops2 P d2 id (fst e) (snd e) m) es m2).
Proof.
  intros Hd Hes. induction Hes as [|e es He Hes IH]; intros m1 m2 Hm; cbn [fold_left]; [exact Hm|].
  apply IH. apply replay_rec_x; assumption.
Qed.

Lemma reframe_x id seq extra n (s1 : st1) (s2 : st2) :
  gst_rel R s1 s2 -> gst_rel R (reframe id seq extra n s1) (reframe id seq extra n s2).
Proof.
  intros Hs. destruct Hs as [m1 m2 d1 d2 t1 t2 Hm Hd Ht]. unfold reframe. cbn [s_mem s_disk s_trace].
  constructor; [exact Hm|apply upd_seg_x; exact Hd|exact Ht].
Qed.

Lemma recover_segment_x P id seq (s1 : st1) (s2 : st2) (m1 : mem1) (m2 : mem2) :
  gst_rel R s1 s2 -> gmem_rel R m1 m2 -> ff_ok (s_disk s2) ->
  sm_rel R (recover_segment ops1 P id seq s1 m1) (recover_segment ops2 P id seq s2 m2).
Proof.
  intros Hs Hm Hff. unfold recover_segment.
  rewrite (find_dseg_rel R _ _ id (st_rel_disk R _ _ Hs)).
  destruct (find_dseg id (s_disk s2)) as [f|] eqn:Ef; [|split; assumption].
  destruct (parse_tail (f_tail f)) as [[extra n] why] eqn:Ep. cbv zeta.
  pose proof (reframe_x id seq extra n s1 s2 Hs) as Hs0.
  split; cbn [fst snd].
  - destruct why; try exact Hs0; (apply (emit_rel R ops1 ops2 RE); [exact Hs0|constructor]).
  - apply replay_fold_x.
    + apply (st_rel_disk R).
      destruct why; try exact Hs0; (apply (emit_rel R ops1 ops2 RE); [exact Hs0|constructor]).
    + pose proof (Hff id f Ef) as Hok. unfold xseg_ok in Hok. rewrite Ep in Hok. exact Hok.
    + destruct why; try exact Hm; (apply set_msegs_upd_x; exact Hm).
Qed.

Lemma recover_fold_x P (order : list mseg) : forall a b, sm_rel R a b -> ff_ok (s_disk (fst b)) ->
  sm_rel R (fold_left (fun sm g => recover_segment ops1 P (g_id g) (g_seq g) (fst sm) (snd sm)) order a)
           (fold_left (fun sm g => recover_segment ops2 P (g_id g) (g_seq g) (fst sm) (snd sm)) order b).
Proof.
  induction order as [|g order IH]; intros a b Hab Hff; cbn [fold_left]; [exact Hab|].
  apply IH.
  - destruct Hab as [A B]. apply recover_segment_x; assumption.
  - apply ff_recover_segment. exact Hff.
Qed.

Lemma seal_all_but_last_x l (m1 : mem1) (m2 : mem2) :
  gmem_rel R m1 m2 -> gmem_rel R (seal_all_but_last l m1) (seal_all_but_last l m2).
Proof.
  unfold seal_all_but_last. generalize (removelast l). intros l0. revert m1 m2.
  induction l0 as [|g l0 IH]; intros m1 m2 Hm; cbn [fold_left]; [exact Hm|].
  apply IH. apply set_msegs_upd_x. exact Hm.
Qed.

Lemma recover_x P (s1 : st1) (s2 : st2) (m1 : mem1) (m2 : mem2) :
  gst_rel R s1 s2 -> gmem_rel R m1 m2 -> ff_ok (s_disk s2) ->
  sm_rel R (recover ops1 P s1 m1) (recover ops2 P s2 m2).
Proof.
  intros Hs Hm Hff. unfold recover. rewrite (mem_rel_segs R _ _ Hm). cbv zeta.
  pose proof (recover_fold_x P (by_seq (m_segs m2)) (s1, m1) (s2, m2) (conj Hs Hm) Hff) as Hf.
  destruct (fold_left (fun sm g => recover_segment ops1 P (g_id g) (g_seq g) (fst sm) (snd sm))
                      (by_seq (m_segs m2)) (s1, m1)) as [sa ma].
  destruct (fold_left (fun sm g => recover_segment ops2 P (g_id g) (g_seq g) (fst sm) (snd sm))
                      (by_seq (m_segs m2)) (s2, m2)) as [sb mb].
  destruct Hf as [A B]. cbn [fst snd] in A, B.
  pose proof (swap_segment_rel R ops1 ops2 RE sa sb _ _ A (seal_all_but_last_x (by_seq (m_segs m2)) ma mb B)) as Hsw.
  destruct (swap_segment ops1 sa (seal_all_but_last (by_seq (m_segs m2)) ma)) as [sa' ma'].
  destruct (swap_segment ops2 sb (seal_all_but_last (by_seq (m_segs m2)) mb)) as [sb' mb'].
  destruct Hsw as [C D]. cbn [fst snd] in C, D.
  split; cbn [fst snd]; [|exact D].
  apply remove_bac_x. apply (emit_rel R ops1 ops2 RE); [exact C|]. constructor. exact (mem_rel_idx R _ _ D).
Qed.

Lemma open_mid_x P seed existing (s1 : st1) (s2 : st2) :
  gst_rel R s1 s2 -> (existing = true -> ff_ok (s_disk s2)) ->
  so_rel R (open_mid ops1 P seed existing s1) (open_mid ops2 P seed existing s2).
Proof.
  intros Hs Hff. unfold open_mid.
  pose proof (open_index_x s1 s2 Hs) as Hoi.
  destruct (open_index ops1 s1) as [[sa ia]|]; destruct (open_index ops2 s2) as [[sb ib]|] eqn:Eoi;
    unfold oi_rel in Hoi; try contradiction; [|split; [reflexivity|exact Hs]].
  destruct Hoi as [Hsa Hi].
  assert (Fa : existing = true -> ff_ok (s_disk sb)).
  { intros E. exact (ff_open_index ops2 s2 sb ib Eoi (Hff E)). }
  pose proof (open_segments_x sa sb Hsa) as Hos.
  pose proof (ff_open_segments ops2 sb) as Fc.
  destruct (open_segments ops1 sa) as [sc segs1]. destruct (open_segments ops2 sb) as [sd segs].
  destruct Hos as [Hsc Esegs]. cbn [fst snd] in Hsc, Esegs, Fc. subst segs1.
  set (mx := fold_left (fun n g => N.max n (g_seq g)) segs 0).
  assert (Hm0 : gmem_rel R {| m_segs := segs; m_cur := (0, 0); m_cur_removed := true; m_maxseq := mx;
                              m_idx := ia; m_seed := seed |}
                           {| m_segs := segs; m_cur := (0, 0); m_cur_removed := true; m_maxseq := mx;
                              m_idx := ib; m_seed := seed |}) by (constructor; exact Hi).
  pose proof (swap_segment_rel R ops1 ops2 RE sc sd _ _ Hsc Hm0) as Hsw.
  pose proof (ff_swap_segment ops2 sd {| m_segs := segs; m_cur := (0, 0); m_cur_removed := true;
                                         m_maxseq := mx; m_idx := ib; m_seed := seed |}) as Fd.
  cbv zeta.
  destruct (swap_segment ops1 sc _) as [se ma]. destruct (swap_segment ops2 sd _) as [sf mb].
  destruct Hsw as [Hse Hmab]. cbn [fst snd] in Hse, Hmab, Fd.
  rewrite (xs_count _ _ _ XS ia ib Hi), (d_dbmeta_x _ _ (st_rel_disk R _ _ Hse)).
  assert (Hm2 : forall sd0,
    gmem_rel R {| m_segs := m_segs ma; m_cur := m_cur ma; m_cur_removed := m_cur_removed ma;
                  m_maxseq := m_maxseq ma; m_idx := m_idx ma; m_seed := sd0 |}
               {| m_segs := m_segs mb; m_cur := m_cur mb; m_cur_removed := m_cur_removed mb;
                  m_maxseq := m_maxseq mb; m_idx := m_idx mb; m_seed := sd0 |}).
  { intros sd0. destruct Hmab. cbn [m_segs m_cur m_cur_removed m_maxseq m_idx]. constructor. assumption. }
  assert (Hfin : forall sd0,
    so_rel R
      (if existing
       then let '(s5, m3) := recover ops1 P se
              {| m_segs := m_segs ma; m_cur := m_cur ma; m_cur_removed := m_cur_removed ma;
                 m_maxseq := m_maxseq ma; m_idx := m_idx ma; m_seed := sd0 |} in
            (with_mem m3 s5, OOpened true)
       else (with_mem {| m_segs := m_segs ma; m_cur := m_cur ma; m_cur_removed := m_cur_removed ma;
                         m_maxseq := m_maxseq ma; m_idx := m_idx ma; m_seed := sd0 |} se, OOpened false))
      (if existing
       then let '(s5, m3) := recover ops2 P sf
              {| m_segs := m_segs mb; m_cur := m_cur mb; m_cur_removed := m_cur_removed mb;
                 m_maxseq := m_maxseq mb; m_idx := m_idx mb; m_seed := sd0 |} in
            (with_mem m3 s5, OOpened true)
       else (with_mem {| m_segs := m_segs mb; m_cur := m_cur mb; m_cur_removed := m_cur_removed mb;
                         m_maxseq := m_maxseq mb; m_idx := m_idx mb; m_seed := sd0 |} sf, OOpened false))).
  { intros sd0. destruct existing.
    - pose proof (recover_x P se sf _ _ Hse (Hm2 sd0) (Fd (Fc (Fa eq_refl)))) as Hr.
      destruct (recover ops1 P se _) as [s5 m3]. destruct (recover ops2 P sf _) as [s5' m3'].
      destruct Hr as [A B]. cbn [fst snd] in A, B.
      split; [reflexivity|]. cbn [fst]. apply with_mem_rel; assumption.
    - split; [reflexivity|]. cbn [fst]. apply with_mem_rel; [exact Hse|apply Hm2]. }
  destruct (ix_count ops2 ib =? 0); [apply Hfin|].
  destruct (d_dbmeta (s_disk sf)) as [| |sd0]; [split; [reflexivity|exact Hse]|split; [reflexivity|exact Hse]|].
  apply Hfin.
Qed.

(* Open: the lock file tells whether the last session closed cleanly.  If it did, the index is read
   from main.pix / index.pmt ([d_index], [d_imeta]: related by R); if not, the index files are set
   aside and the index is rebuilt from the segment files.  The side condition concerns the disk only. *)
Theorem xsim_open P seed (s1 : st1) (s2 : st2) :
  gst_rel R s1 s2 -> ff_ok (s_disk s2) ->
  so_rel R (db_open ops1 P seed s1) (db_open ops2 P seed s2).
Proof.
  intros Hs Hff. rewrite !db_open_mid.
  destruct (st_rel_mem_cases R _ _ Hs) as [[E1 E2]|(m1 & m2 & E1 & E2 & Hm)]; rewrite E1, E2;
    [|split; [reflexivity|exact Hs]].
  cbv beta iota zeta. rewrite (d_lock_x _ _ (st_rel_disk R _ _ Hs)).
  destruct (d_lock (s_disk s2)).
  - apply open_mid_x; [apply backup_nonseg_x; exact Hs|]. intros _. apply ff_backup_nonseg. exact Hff.
  - apply open_mid_x; [|discriminate]. apply (emit_rel R ops1 ops2 RE); [exact Hs|constructor].
Qed.

(* ---- Backup: the copies are the same segment files; the backup has no index ---- *)
Lemma backup_plan_x (m1 : mem1) (m2 : mem2) : gmem_rel R m1 m2 -> backup_plan m1 = backup_plan m2.
Proof. intros H. destruct H. reflexivity. Qed.

Lemma copy_seg_x (d1 : disk1) (d2 : disk2) p : gdisk_rel R d1 d2 -> copy_seg d1 p = copy_seg d2 p.
Proof. intros H. destruct H. reflexivity. Qed.

Lemma backup_disk_x copies : gdisk_rel R (@backup_disk I1 copies) (@backup_disk I2 copies).
Proof. unfold backup_disk. constructor; constructor. Qed.

Lemma backup_go_x (d1 : disk1) (d2 : disk2) l : gdisk_rel R d1 d2 -> backup_go d1 l = backup_go d2 l.
Proof.
  intros Hd. induction l as [|p l IH]; [reflexivity|].
  rewrite !backup_go_cons, IH, (copy_seg_x d1 d2 p Hd). reflexivity.
Qed.

Theorem xsim_backup (s1 : st1) (s2 : st2) :
  gst_rel R s1 s2 -> opt_rel (gdisk_rel R) (db_backup s1) (db_backup s2).
Proof.
  intros Hs. rewrite !db_backup_go.
  destruct (st_rel_mem_cases R _ _ Hs) as [[E1 E2]|(m1 & m2 & E1 & E2 & Hm)]; rewrite E1, E2; [constructor|].
  rewrite (backup_plan_x m1 m2 Hm), (backup_go_x _ _ (backup_plan m2) (st_rel_disk R _ _ Hs)).
  destruct (backup_go (s_disk s2) (backup_plan m2)) as [copies|]; cbn [option_map]; constructor.
  apply backup_disk_x.
Qed.

(* ---- ItemIterator ([dbiter0] does not depend on the index) ---- *)
Lemma dbiter_fill_x fuel (s1 : st1) (s2 : st2) : gst_rel R s1 s2 -> forall it,
  dbiter_fill ops1 fuel s1 it = dbiter_fill ops2 fuel s2 it.
Proof.
  intros Hs. induction fuel as [|f IH]; intros it; cbn [dbiter_fill]; [reflexivity|].
  destruct (it_queue it); [|reflexivity].
  destruct (st_rel_mem_cases R _ _ Hs) as [[E1 E2]|(m1 & m2 & E1 & E2 & Hm)]; rewrite E1, E2; [reflexivity|].
  rewrite (xs_nbuckets _ _ _ XS _ _ (mem_rel_idx R _ _ Hm)).
  destruct (it_next it <? ix_nbuckets ops2 (m_idx m2)); [|reflexivity].
  rewrite (fetch_bucket_x s1 s2 (it_next it) Hs).
  destruct (fetch_bucket ops2 s2 (it_next it)) as [l|]; [apply IH|reflexivity].
Qed.

Theorem xsim_iter_step (s1 : st1) (s2 : st2) it :
  gst_rel R s1 s2 -> dbiter_step ops1 s1 it = dbiter_step ops2 s2 it.
Proof.
  intros Hs. unfold dbiter_step.
  destruct (st_rel_mem_cases R _ _ Hs) as [[E1 E2]|(m1 & m2 & E1 & E2 & Hm)]; rewrite E1, E2; [reflexivity|].
  cbv beta iota zeta. rewrite (xs_nbuckets _ _ _ XS _ _ (mem_rel_idx R _ _ Hm)).
  rewrite (dbiter_fill_x _ s1 s2 Hs). reflexivity.
Qed.

(* ---- one operation of the run language of DBSim.v / DBRun.v ---- *)
Theorem xsim_step' P (s1 : st1) (s2 : st2) o :
  gst_rel R s1 s2 -> op_xok ops2 P s2 o -> so_rel R (step' ops1 P s1 o) (step' ops2 P s2 o).
Proof.
  intros Hs Hx. destruct o as [[k v|k|k|k buf|k| | |]|]; cbn [step' step op_xok] in *.
  - apply xsim_put; assumption.
  - apply xsim_delete; assumption.
  - split; [apply xsim_get; exact Hs|exact Hs].
  - split; [apply xsim_get_append; exact Hs|exact Hs].
  - split; [apply xsim_has; exact Hs|exact Hs].
  - split; [apply xsim_count; exact Hs|exact Hs].
  - split; [apply xsim_items; exact Hs|exact Hs].
  - apply xsim_sync; exact Hs.
  - apply xsim_db_compact; assumption.
Qed.

Theorem xsim_lstep P (s1 : st1) (s2 : st2) o :
  gst_rel R s1 s2 -> lop_ok ops2 P s2 o -> so_rel R (lstep ops1 P s1 o) (lstep ops2 P s2 o).
Proof.
  intros Hs Hx. destruct o as [b| |seed|]; cbn [lstep lop_ok] in *.
  - apply xsim_step'; assumption.
  - apply xsim_close; exact Hs.
  - apply xsim_open; assumption.
  - split; [reflexivity|]. cbn [fst]. apply st_rel_iff. cbn [s_mem s_disk s_trace].
    split; [constructor|]. split; [exact (st_rel_disk R _ _ Hs)|exact (st_rel_trace R _ _ Hs)].
Qed.

(* the side condition of an operation can be checked on either instance *)
Lemma compact_step_more_x P (s1 : st1) (s2 : st2) c : gst_rel R s1 s2 -> xok s2 ->
  match compact_step ops1 P s1 c, compact_step ops2 P s2 c with
  | CMore s1' c1, CMore s2' c2 => gst_rel R s1' s2' /\ c1 = c2
  | CMore _ _, _ | _, CMore _ _ => False
  | _, _ => True
  end.
Proof.
  intros Hs Hx. pose proof (xsim_compact_step P s1 s2 c Hs Hx) as H.
  destruct (compact_step ops1 P s1 c); destruct (compact_step ops2 P s2 c); inversion H; subst; auto.
Qed.

Lemma cxok_x P fuel : forall (s1 : st1) (s2 : st2) c,
  gst_rel R s1 s2 -> (cxok ops1 P fuel s1 c <-> cxok ops2 P fuel s2 c).
Proof.
  induction fuel as [|f IH]; intros s1 s2 c Hs; cbn [cxok]; [tauto|].
  split; intros [Hx Hn].
  - pose proof (proj1 (xok_rel s1 s2 Hs) Hx) as Hx2. split; [exact Hx2|].
    pose proof (compact_step_more_x P s1 s2 c Hs Hx2) as H.
    destruct (compact_step ops1 P s1 c) as [|s1' c1|w1]; destruct (compact_step ops2 P s2 c) as [|s2' c2|w2];
      try exact I; try contradiction. destruct H as [Hs' ->]. apply (IH s1' s2' c2 Hs'). exact Hn.
  - split; [exact (proj2 (xok_rel s1 s2 Hs) Hx)|].
    pose proof (compact_step_more_x P s1 s2 c Hs Hx) as H.
    destruct (compact_step ops1 P s1 c) as [|s1' c1|w1]; destruct (compact_step ops2 P s2 c) as [|s2' c2|w2];
      try exact I; try contradiction. destruct H as [Hs' ->]. apply (IH s1' s2' c2 Hs'). exact Hn.
Qed.

Lemma compact_xok_x P (s1 : st1) (s2 : st2) :
  gst_rel R s1 s2 -> (compact_xok ops1 P s1 <-> compact_xok ops2 P s2).
Proof.
  intros Hs. unfold compact_xok.
  pose proof (compact_pick_rel R ops1 ops2 RE P s1 s2 Hs) as Hp.
  destruct (compact_pick ops1 P s1) as [[s1' c1]|]; destruct (compact_pick ops2 P s2) as [[s2' c2]|];
    unfold pick_res_rel in Hp; try contradiction; [|tauto].
  destruct Hp as [Hs' ->]. rewrite (total_recs_rel R _ _ (st_rel_disk R _ _ Hs')). apply cxok_x. exact Hs'.
Qed.

Lemma lop_ok_x P (s1 : st1) (s2 : st2) o :
  gst_rel R s1 s2 -> (lop_ok ops1 P s1 o <-> lop_ok ops2 P s2 o).
Proof.
  intros Hs. destruct o as [[[k v|k|k|k buf|k| | |]|]| |seed|]; cbn [lop_ok op_xok]; try tauto.
  - apply sizes_ok_rel. exact Hs.
  - apply compact_xok_x. exact Hs.
  - apply ff_ok_rel. exact (st_rel_disk R _ _ Hs).
Qed.

End Exact.

(* ================================================================================================ *)
(** * 3. Runs *)

(* the full run language: Put, Delete, Get, GetAppend, Has, Count, Items, Sync, Compact, Close, Open
   (clean reopen AND recovery), Crash.  The side condition is required along the run of the SECOND
   instance; by [loks_x] it can equally be checked along the run of the first one. *)
Theorem xsim_run {I1 I2} (ops1 : idx_ops I1) (ops2 : idx_ops I2) R (XS : exact_sim ops1 ops2 R) P
    (l : list lop) : forall (s1 : @DB.st I1) (s2 : @DB.st I2),
  gst_rel R s1 s2 -> loks ops2 P s2 l ->
  lrun ops1 P s1 l = lrun ops2 P s2 l /\
  gst_rel R (lfinal ops1 P s1 l) (lfinal ops2 P s2 l).
Proof.
  unfold lfinal. induction l as [|o l IH]; intros s1 s2 Hs Hx; cbn [lrun fold_left].
  - split; [reflexivity|exact Hs].
  - inversion Hx as [|? ? ? Ho Hl]; subst.
    destruct (xsim_lstep ops1 ops2 R XS P s1 s2 o Hs Ho) as [Eo Hs'].
    destruct (IH _ _ Hs' Hl) as [Er Hf].
    destruct (lstep ops1 P s1 o) as [s1' r1]. destruct (lstep ops2 P s2 o) as [s2' r2].
    cbn [fst snd] in *. subst r2. rewrite Er. split; [reflexivity|exact Hf].
Qed.

Lemma loks_x {I1 I2} (ops1 : idx_ops I1) (ops2 : idx_ops I2) R (XS : exact_sim ops1 ops2 R) P
    (l : list lop) : forall (s1 : @DB.st I1) (s2 : @DB.st I2),
  gst_rel R s1 s2 -> (loks ops1 P s1 l <-> loks ops2 P s2 l).
Proof.
  induction l as [|o l IH]; intros s1 s2 Hs; [split; intros _; constructor|].
  split; intros Hx; inversion Hx as [|? ? ? Ho Hl]; subst.
  - pose proof (proj1 (lop_ok_x ops1 ops2 R XS P s1 s2 o Hs) Ho) as Ho2.
    destruct (xsim_lstep ops1 ops2 R XS P s1 s2 o Hs Ho2) as [_ Hs'].
    constructor; [exact Ho2|]. apply (IH _ _ Hs'). exact Hl.
  - destruct (xsim_lstep ops1 ops2 R XS P s1 s2 o Hs Ho) as [_ Hs'].
    constructor; [exact (proj2 (lop_ok_x ops1 ops2 R XS P s1 s2 o Hs) Ho)|]. apply (IH _ _ Hs'). exact Hl.
Qed.

(* the same for the run language of DBRun.v (DBSim.op + Compact), with DBRun's [run'] / [final'] *)
Theorem xsim_run' {I1 I2} (ops1 : idx_ops I1) (ops2 : idx_ops I2) R (XS : exact_sim ops1 ops2 R) P
    (l : list op') : forall (s1 : @DB.st I1) (s2 : @DB.st I2),
  gst_rel R s1 s2 -> xoks' ops2 P s2 l ->
  run' (step' ops1 P) s1 l = run' (step' ops2 P) s2 l /\
  gst_rel R (final' (step' ops1 P) s1 l) (final' (step' ops2 P) s2 l).
Proof.
  unfold final'. induction l as [|o l IH]; intros s1 s2 Hs Hx; cbn [run' fold_left].
  - split; [reflexivity|exact Hs].
  - inversion Hx as [|? ? ? Ho Hl]; subst.
    destruct (xsim_step' ops1 ops2 R XS P s1 s2 o Hs Ho) as [Eo Hs'].
    destruct (IH _ _ Hs' Hl) as [Er Hf].
    destruct (step' ops1 P s1 o) as [s1' r1]. destruct (step' ops2 P s2 o) as [s2' r2].
    cbn [fst snd] in *. subst r2. rewrite Er. split; [reflexivity|exact Hf].
Qed.

(* ================================================================================================ *)
(** * 4. Composition with the chain-vs-flat refinement: any index that exactly simulates the bucket
      chains refines the plain map *)

Local Notation stp := (@DB.st pindex).
Local Notation stf := (@DB.st flat).

Lemma xdisk_ok_of_DiskOK (d : @DB.disk flat) : DiskOK d -> xdisk_ok d.
Proof.
  intros (Hall & _ & _). unfold xdisk_ok. apply Forall_forall. intros f Hf.
  pose proof (proj1 (Forall_forall _ _) Hall f Hf) as (_ & (Ht & _) & _ & _ & Hb).
  apply xseg_ok_of_bound; assumption.
Qed.

(* the side condition holds in every state of the flat database that satisfies the invariant and
   the 32-bit condition [room] of DBInv.v *)
Lemma xok_of_Inv P (sf : stf) : Inv P sf -> (forall m, s_mem sf = Some m -> room m) -> xok sf.
Proof.
  unfold Inv, xok, sizes_ok. destruct (s_mem sf) as [m|].
  - intros (HD & (Hag & _) & _) Hroom. split; [|apply xdisk_ok_ff, xdisk_ok_of_DiskOK; exact HD].
    intros m0 E g Hg. injection E as <-.
    destruct (Hag g Hg) as (f & _ & _ & _ & Hh & _ & Hl).
    pose proof (Hroom m eq_refl g Hg) as Hr. unfold flen in Hl. rewrite Hh in Hl.
    pose proof header_size_eq. pose proof rec_max_eq.
    rewrite u32_small by lia. lia.
  - intros HD _. split; [intros m E; discriminate|apply xdisk_ok_ff, xdisk_ok_of_DiskOK; exact HD].
Qed.

Lemma xok_chain_of_flat P (sp : stp) (sf : stf) :
  st_rel sp sf -> Inv P sf -> (exists m, s_mem sf = Some m /\ room m) -> xok sp.
Proof.
  intros Hs HI (m & Em & Hroom). apply (xok_rel idx_rel sp sf Hs). apply (xok_of_Inv P); [exact HI|].
  intros m0 E. assert (m0 = m) by congruence. subst m0. exact Hroom.
Qed.

Lemma cxok_of_flat P fuel : forall (sp : stp) (sf : stf) c,
  st_rel sp sf -> Inv P sf -> CInv sf c -> run_room P fuel sf c -> cxok chain_ops P fuel sp c.
Proof.
  induction fuel as [|f IH]; intros sp sf c Hs HI HC Hr; [exact I|].
  cbn [run_room] in Hr. cbn [cxok]. destruct Hr as [Hroom Hrest].
  split; [exact (xok_chain_of_flat P sp sf Hs HI Hroom)|].
  pose proof (sim_compact_step P sp sf c Hs HI) as Hstep.
  pose proof (compact_step_ok P sf c HI HC Hroom) as Hok.
  destruct (compact_step chain_ops P sp c) as [|sp' cp'|wp]; [exact I| |exact I].
  destruct (compact_step flat_ops P sf c) as [|sf' cf'|wf]; inversion Hstep; subst.
  destruct Hok as (HI' & HC' & _). apply (IH sp' sf' cf'); assumption.
Qed.

Lemma compact_xok_of_flat P (sp : stp) (sf : stf) :
  st_rel sp sf -> Inv P sf -> MetaOK sf -> s_mem sf <> None -> compact_room P sf ->
  compact_xok chain_ops P sp.
Proof.
  intros Hs HI HM Hopen Hroom. unfold compact_xok.
  pose proof (compact_pick_rel idx_rel chain_ops flat_ops idx_rel_empty P sp sf Hs) as Hp.
  destruct (compact_pick_ok P sf HI HM Hopen) as (sf1 & c & Ep & HI1 & HC1 & _).
  unfold compact_room in Hroom. rewrite Ep in Hroom, Hp.
  destruct (compact_pick chain_ops P sp) as [[sp1 cp]|]; unfold pick_res_rel in Hp; [|exact I].
  destruct Hp as [Hs1 ->]. rewrite (total_recs_rel idx_rel _ _ (st_rel_disk idx_rel _ _ Hs1)).
  apply (cxok_of_flat P _ sp1 sf1 c); assumption.
Qed.

(* the hypotheses of DBRun.C01_chain_refines_map_with_compact give the side condition along the
   whole run of the chain-index database *)
Lemma xoks'_of_flat P (l : list op') : params_ok P -> forall (sp : stp) (sf : stf),
  st_rel sp sf -> Inv P sf -> MetaOK sf -> Forall op_valid' l -> rooms' P sf l ->
  xoks' chain_ops P sp l.
Proof.
  intros HP. induction l as [|o l IH]; intros sp sf Hs HI HM Hv Hr; [constructor|].
  inversion Hv as [|? ? Hvo Hvl]; subst. inversion Hr as [|? ? ? Hro Hrc Hrl]; subst.
  assert (Hopen : s_mem sf <> None) by (destruct Hro as (m & -> & _); discriminate).
  constructor.
  - destruct o as [[k v|k|k|k buf|k| | |]|]; cbn [op_xok]; try exact I.
    + exact (proj1 (xok_chain_of_flat P sp sf Hs HI Hro)).
    + apply (compact_xok_of_flat P sp sf); try assumption. apply Hrc. reflexivity.
  - destruct (step_refines' P sp sf (abs (s_disk sf)) o HP Hs HI HM (meq_refl _) (abs_NoDup _) Hvo Hro Hrc)
      as (A & B & C & _).
    apply (IH _ (fst (step_flat' P sf o))); assumption.
Qed.

(* C01 for ANY index implementation that exactly simulates the bucket chains of Index.v: for every
   hash function, split policy, thresholds and sync mode, the outputs of any run of valid Put, Delete,
   Get, GetAppend, Has, Count, Items, Sync and Compact are those of the plain map -- under exactly the
   hypotheses of DBRun.C01_chain_refines_map_with_compact *)
Theorem C01_exact_refines_map {I1} (ops1 : idx_ops I1) (R : I1 -> pindex -> Prop) P
    (s1 : @DB.st I1) (sp : stp) (sf : stf) (l : list op') :
  exact_sim ops1 chain_ops R ->
  params_ok P -> gst_rel R s1 sp -> st_rel sp sf -> Inv P sf -> MetaOK sf ->
  Forall op_valid' l -> rooms' P sf l ->
  (* the outputs are those of the plain map (Items up to order, CompactionResult numbers ignored) *)
  Forall2 out_equiv' (run' (step' ops1 P) s1 l) (run' step_spec' (abs (s_disk sf)) l) /\
  (* ... and those of the flat-index database (Items up to order, CompactionResults equal) *)
  Forall2 out_equiv (run' (step' ops1 P) s1 l) (run' (step_flat' P) sf l) /\
  (* ... and EQUAL to those of the chain-index database *)
  run' (step' ops1 P) s1 l = run' (step_chain' P) sp l /\
  (* the final states are again related; invariants of the flat one; its contents *)
  let s1' := final' (step' ops1 P) s1 l in
  let sp' := final' (step_chain' P) sp l in
  let sf' := final' (step_flat' P) sf l in
  gst_rel R s1' sp' /\ st_rel sp' sf' /\ Inv P sf' /\ MetaOK sf' /\
  meq (abs (s_disk sf')) (final' step_spec' (abs (s_disk sf)) l).
Proof.
  intros XS HP H1 Hs HI HM Hv Hr. cbv zeta.
  pose proof (xoks'_of_flat P l HP sp sf Hs HI HM Hv Hr) as Hx.
  destruct (xsim_run' ops1 chain_ops R XS P l s1 sp H1 Hx) as [Eo Hf].
  destruct (C01_chain_refines_map_with_compact P sp sf l HP Hs HI HM Hv Hr) as (A & B & C).
  cbv zeta in C. unfold step_chain' in *. rewrite Eo.
  exact (conj A (conj B (conj eq_refl (conj Hf C)))).
Qed.

(* the side condition of Open (clean reopen or recovery) from the invariant of a related flat state,
   open or closed *)
Lemma ff_ok_of_DiskOK (d : @DB.disk flat) : DiskOK d -> ff_ok d.
Proof. intros H. apply xdisk_ok_ff, xdisk_ok_of_DiskOK. exact H. Qed.

Lemma ff_ok_chain_of_flat P (sp : stp) (sf : stf) : st_rel sp sf -> Inv P sf -> ff_ok (s_disk sp).
Proof.
  intros Hs HI. apply (ff_ok_rel idx_rel _ _ (st_rel_disk idx_rel _ _ Hs)). apply ff_ok_of_DiskOK.
  unfold Inv in HI. destruct (s_mem sf); [apply HI|exact HI].
Qed.

Lemma xok_closed {I} (s : @DB.st I) : s_mem s = None -> ff_ok (s_disk s) -> xok s.
Proof. intros E H. split; [intros m Em; congruence|exact H]. Qed.

(* from an empty directory: Open on both sides, then any run *)
Lemma st0_rel {I1 I2} (R : I1 -> I2 -> Prop) : gst_rel R (@st0 I1) (@st0 I2).
Proof. unfold st0, disk0. constructor; [constructor|constructor; constructor|constructor]. Qed.

Lemma ff_ok_disk0 {I} : ff_ok (@disk0 I).
Proof. intros id f E. discriminate E. Qed.

Corollary C01_exact_from_empty {I1} (ops1 : idx_ops I1) (R : I1 -> pindex -> Prop) P seed (l : list op') :
  exact_sim ops1 chain_ops R ->
  params_ok P -> Forall op_valid' l -> rooms' P (flat_init seed) l ->
  let s0 := fst (db_open ops1 P seed st0) in
  snd (db_open ops1 P seed st0) = OOpened false /\
  Forall2 out_equiv' (run' (step' ops1 P) s0 l) (run' step_spec' [] l) /\
  run' (step' ops1 P) s0 l = run' (step_chain' P) (fst (db_open chain_ops P seed st0)) l.
Proof.
  intros XS HP Hv Hr. cbv zeta.
  pose proof (xsim_open ops1 chain_ops R XS P seed st0 st0 (st0_rel R) ff_ok_disk0) as [Eo H1].
  pose proof (init_rel P seed) as H. rewrite flat_open_fresh in H.
  destruct (db_open chain_ops P seed st0) as [sp o]. destruct H as (-> & _ & Hs & HI & _ & Ea).
  cbn [fst snd] in *.
  destruct (C01_exact_refines_map ops1 R P _ sp (flat_init seed) l XS HP H1 Hs HI (flat_init_MetaOK seed) Hv Hr)
    as (A & _ & B & _).
  rewrite Ea in A. exact (conj Eo (conj A B)).
Qed.

(* ================================================================================================ *)
(** * 5. Sanity: the interface is satisfiable and the theorems are not vacuous *)

Lemma opt_rel_eq_refl {A} (x : option A) : opt_rel eq x x.
Proof. destruct x; constructor; reflexivity. Qed.

(* every index implementation exactly simulates itself *)
Lemma exact_sim_refl {I} (ops : idx_ops I) : exact_sim ops ops eq.
Proof.
  constructor; try (intros; subst; reflexivity).
  - intros g a b sl m -> _. split; reflexivity.
  - intros a b h m ->. split; reflexivity.
  - intros a b h seg off nseg noff -> _. apply opt_rel_eq_refl.
Qed.

Lemma gev_rel_eq_refl {I} (e : @fsev I) : gev_rel eq e e.
Proof. destruct e; constructor; reflexivity. Qed.

Lemma gst_rel_eq_refl {I} (s : @DB.st I) : gst_rel eq s s.
Proof.
  destruct s as [m d t]. constructor.
  - destruct m as [m|]; constructor. destruct m. constructor. reflexivity.
  - destruct d as [a b c e f g h j]. constructor; [apply opt_rel_eq_refl|]. destruct f; constructor; reflexivity.
  - induction t as [|e t IH]; constructor; [apply gev_rel_eq_refl|exact IH].
Qed.

Corollary xsim_run_chain_self P (s : @DB.st pindex) (l : list lop) :
  loks chain_ops P s l ->
  lrun chain_ops P s l = lrun chain_ops P s l /\
  gst_rel eq (lfinal chain_ops P s l) (lfinal chain_ops P s l).
Proof. exact (xsim_run chain_ops chain_ops eq (exact_sim_refl chain_ops) P l s s (gst_rel_eq_refl s)). Qed.

(* ---- executable side conditions ---- *)
Definition xseg_ok_b (f : dseg) : bool :=
  forallb (fun e : N * rec => negb (u32 (fst e) =? 0))
          (with_offsets header_size (f_recs f ++ fst (fst (parse_tail (f_tail f))))).

Lemma xseg_ok_b_ok f : xseg_ok_b f = true -> xseg_ok f.
Proof.
  unfold xseg_ok_b, xseg_ok. intros H. apply Forall_forall. intros e He.
  pose proof (proj1 (forallb_forall _ _) H e He) as Hb. apply negb_true_iff, N.eqb_neq in Hb. exact Hb.
Qed.

Section Checks.
Context {I : Type}.
Variable ops : idx_ops I.

Definition sizes_ok_b (s : @DB.st I) : bool :=
  match s_mem s with
  | None => true
  | Some m => forallb (fun g => negb (u32 (g_size g) =? 0)) (m_segs m)
  end.

Lemma sizes_ok_b_ok s : sizes_ok_b s = true -> sizes_ok s.
Proof.
  unfold sizes_ok_b, sizes_ok. intros H m E. rewrite E in H. intros g Hg.
  pose proof (proj1 (forallb_forall _ _) H g Hg) as Hb. apply negb_true_iff, N.eqb_neq in Hb. exact Hb.
Qed.

Definition ff_ok_b (d : @DB.disk I) : bool := forallb xseg_ok_b (d_segs d).

Lemma ff_ok_b_ok d : ff_ok_b d = true -> ff_ok d.
Proof.
  intros H. apply xdisk_ok_ff. unfold xdisk_ok. apply Forall_forall. intros f Hf.
  apply xseg_ok_b_ok. exact (proj1 (forallb_forall _ _) H f Hf).
Qed.

Definition xok_b (s : @DB.st I) : bool := sizes_ok_b s && ff_ok_b (s_disk s).

Lemma xok_b_ok s : xok_b s = true -> xok s.
Proof.
  unfold xok_b. intros H. apply andb_true_iff in H. destruct H as [A B].
  split; [apply sizes_ok_b_ok; exact A|apply ff_ok_b_ok; exact B].
Qed.

Fixpoint cxok_b (P : params) (fuel : nat) (s : @DB.st I) (c : cursor) : bool :=
  match fuel with
  | O => true
  | S f => xok_b s &&
           match compact_step ops P s c with
           | CMore s' c' => cxok_b P f s' c'
           | _ => true
           end
  end.

Lemma cxok_b_ok P fuel : forall s c, cxok_b P fuel s c = true -> cxok ops P fuel s c.
Proof.
  induction fuel as [|f IH]; intros s c H; [exact Logic.I|]. cbn [cxok_b] in H. cbn [cxok].
  apply andb_true_iff in H. destruct H as [A B]. split; [apply xok_b_ok; exact A|].
  destruct (compact_step ops P s c) as [|s' c'|w]; [exact Logic.I|apply IH; exact B|exact Logic.I].
Qed.

Definition compact_xok_b (P : params) (s : @DB.st I) : bool :=
  match compact_pick ops P s with
  | Some (s1, c) => cxok_b P (S (2 * length (c_todo c) + 2 * total_recs (s_disk s1) + 2)) s1 c
  | None => true
  end.

Lemma compact_xok_b_ok P s : compact_xok_b P s = true -> compact_xok ops P s.
Proof.
  unfold compact_xok_b, compact_xok. destruct (compact_pick ops P s) as [[s1 c]|]; [|intros _; exact Logic.I].
  apply cxok_b_ok.
Qed.

Definition lop_ok_b (P : params) (s : @DB.st I) (o : lop) : bool :=
  match o with
  | LBase (OpBase (OpPut _ _)) => sizes_ok_b s
  | LBase OpCompact => compact_xok_b P s
  | LOpen _ => ff_ok_b (s_disk s)
  | _ => true
  end.

Lemma lop_ok_b_ok P s o : lop_ok_b P s o = true -> lop_ok ops P s o.
Proof.
  destruct o as [[[k v|k|k|k buf|k| | |]|]| |seed|]; cbn [lop_ok_b lop_ok op_xok]; try (intros _; exact Logic.I).
  - apply sizes_ok_b_ok.
  - apply compact_xok_b_ok.
  - apply ff_ok_b_ok.
Qed.

Fixpoint loks_b (P : params) (s : @DB.st I) (l : list lop) : bool :=
  match l with
  | [] => true
  | o :: l' => lop_ok_b P s o && loks_b P (fst (lstep ops P s o)) l'
  end.

Lemma loks_b_ok P l : forall s, loks_b P s l = true -> loks ops P s l.
Proof.
  induction l as [|o l IH]; intros s H; [constructor|]. cbn [loks_b] in H.
  apply andb_true_iff in H. destruct H as [A B]. constructor; [apply lop_ok_b_ok; exact A|apply IH; exact B].
Qed.

End Checks.

Module ExactEx.
(* the parameters of DBRun.RunEx: one hash for every key, no split, small segments, every segment is
   always worth compacting *)
Definition exP : params := RunEx.exP.

Definition put (i : nat) : lop := LBase (RunEx.put i).
Definition get (i : nat) : lop := LBase (OpBase (OpGet (RunEx.key_of i))).

(* Open on an empty directory; 40 colliding keys (overflow bucket); a delete; a crash; Open again
   (RECOVERY: the index is rebuilt by replaying 41 records through ix_put / ix_del); reads; Compact
   (ix_repoint); Close; Open again (clean: the index is read back from the files); reads *)
Definition ex_ops : list lop :=
  [LOpen 1] ++ map put (seq 1 40) ++
  [LBase (OpBase (OpDelete (RunEx.key_of 3))); LCrash; LOpen 1;
   get 3; get 32; LBase (OpBase OpCount); put 41; LBase OpCompact; get 41; get 5;
   LClose; get 5; LOpen 1; get 5; get 3; LBase (OpBase OpCount); LBase (OpBase OpItems); LBase (OpBase OpSync)].

(* the side condition of [xsim_run] holds along this run: the theorem applies *)
Example ex_loks : loks chain_ops exP st0 ex_ops.
Proof. apply loks_b_ok. vm_compute. reflexivity. Qed.

Example ex_run :
  lrun chain_ops exP st0 ex_ops = lrun chain_ops exP st0 ex_ops /\
  gst_rel eq (lfinal chain_ops exP st0 ex_ops) (lfinal chain_ops exP st0 ex_ops).
Proof. exact (xsim_run_chain_self exP st0 ex_ops ex_loks). Qed.

(* what the run returns: recovery happened, the contents survived it, the compaction did real work *)
Example ex_outputs :
  firstn 16 (skipn 41 (lrun chain_ops exP st0 ex_ops)) =
    [OOk; OOk; OOpened true; OVal None; OVal (Some (RunEx.val_of 32)); ONum 39; OOk;
     OCompact 7 2 24; OVal (Some (RunEx.val_of 41)); OVal (Some (RunEx.val_of 5));
     OOk; OErr EClosed; OOpened false; OVal (Some (RunEx.val_of 5)); OVal None; ONum 40].
Proof. vm_compute. reflexivity. Qed.

(* C01_exact_refines_map applies to the run of DBRun.RunEx (with the trivial simulation) *)
Example ex_C01 :
  Forall2 out_equiv' (run' (step' chain_ops RunEx.exP) RunEx.sp0 RunEx.ex_ops) (run' step_spec' [] RunEx.ex_ops).
Proof.
  pose proof (init_rel RunEx.exP 1) as H. rewrite flat_open_fresh in H. unfold RunEx.sp0.
  destruct (db_open chain_ops RunEx.exP 1 st0) as [sp o]. destruct H as (_ & _ & Hs & HI & _ & Ea).
  cbn [fst].
  destruct (C01_exact_refines_map chain_ops eq RunEx.exP sp sp (flat_init 1) RunEx.ex_ops
              (exact_sim_refl chain_ops) RunEx.exP_ok (gst_rel_eq_refl sp) Hs HI (flat_init_MetaOK 1))
    as (A & _).
  - apply ops_valid'_b_ok. vm_compute. reflexivity.
  - apply rooms'_b_ok. vm_compute. reflexivity.
  - rewrite Ea in A. exact A.
Qed.
End ExactEx.

(* ================================================================================================ *)
Print Assumptions xsim_put.
Print Assumptions xsim_delete.
Print Assumptions xsim_get.
Print Assumptions xsim_get_append.
Print Assumptions xsim_has.
Print Assumptions xsim_count.
Print Assumptions xsim_items.
Print Assumptions xsim_sync.
Print Assumptions xsim_compact_pick.
Print Assumptions xsim_compact_step.
Print Assumptions xsim_compact_run.
Print Assumptions xsim_db_compact.
Print Assumptions xsim_close.
Print Assumptions xsim_open.
Print Assumptions xsim_backup.
Print Assumptions xsim_iter_step.
Print Assumptions xsim_step'.
Print Assumptions xsim_lstep.
Print Assumptions lop_ok_x.
Print Assumptions xsim_run.
Print Assumptions loks_x.
Print Assumptions xsim_run'.
Print Assumptions xok_of_Inv.
Print Assumptions xoks'_of_flat.
Print Assumptions C01_exact_refines_map.
Print Assumptions C01_exact_from_empty.
Print Assumptions ff_ok_chain_of_flat.
Print Assumptions exact_sim_refl.
Print Assumptions xsim_run_chain_self.
Print Assumptions loks_b_ok.
Print Assumptions ff_close.
Print Assumptions ExactEx.ex_loks.
Print Assumptions ExactEx.ex_run.
Print Assumptions ExactEx.ex_outputs.
Print Assumptions ExactEx.ex_C01.
