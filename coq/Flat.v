(* Flat.v -- the reference index: a plain list of slots. The database model instantiated with it
   is the layer "LLog" of DESIGN.md; Index.v shows that the bucket chains behave like it. *)
From Pogreb Require Import Base.

Definition flat := list slot.

Definition fl_hit (h : N) (m : slot -> bool) (s : slot) : bool := (sl_h s =? h) && m s.

Definition fl_get (l : flat) (h : N) (m : slot -> bool) : option slot := find (fl_hit h m) l.

Fixpoint fl_replace (hit : slot -> bool) (new : slot) (l : flat) : option (flat * slot) :=
  match l with
  | [] => None
  | s :: l' => if hit s then Some (new :: l', s)
               else match fl_replace hit new l' with
                    | Some (l'', o) => Some (s :: l'', o)
                    | None => None
                    end
  end.

Definition fl_put (grow : N -> N -> bool) (l : flat) (sl : slot) (m : slot -> bool) : flat * option slot :=
  match fl_replace (fl_hit (sl_h sl) m) sl l with
  | Some (l', o) => (l', Some o)
  | None => (l ++ [sl], None)
  end.

Fixpoint fl_remove (hit : slot -> bool) (l : flat) : option (flat * slot) :=
  match l with
  | [] => None
  | s :: l' => if hit s then Some (l', s)
               else match fl_remove hit l' with
                    | Some (l'', o) => Some (s :: l'', o)
                    | None => None
                    end
  end.

Definition fl_del (l : flat) (h : N) (m : slot -> bool) : flat * option slot :=
  match fl_remove (fl_hit h m) l with
  | Some (l', o) => (l', Some o)
  | None => (l, None)
  end.

Definition fl_points (h seg off : N) (s : slot) : bool :=
  (sl_h s =? h) && (sl_off s =? off) && (sl_seg s =? seg).

Definition repointed (s : slot) (nseg noff : N) : slot :=
  {| sl_h := sl_h s; sl_seg := nseg; sl_ks := sl_ks s; sl_vs := sl_vs s; sl_off := noff |}.

Fixpoint fl_repoint (l : flat) (h seg off nseg noff : N) : option flat :=
  match l with
  | [] => None
  | s :: l' => if fl_points h seg off s then Some (repointed s nseg noff :: l')
               else option_map (cons s) (fl_repoint l' h seg off nseg noff)
  end.

Definition flat_ops : idx_ops flat :=
  {| ix_empty := [];
     ix_get := fl_get;
     ix_put := fl_put;
     ix_del := fl_del;
     ix_repoint := fl_repoint;
     ix_count := fun l => nlen l;
     ix_nbuckets := fun _ => 1;
     ix_bucket := fun l n => if n =? 0 then l else [] |}.
