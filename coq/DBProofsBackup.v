(* DBProofsBackup.v -- property C12 "Backup is a consistent point-in-time copy" for the database model
   (DB.v: backup_plan / copy_seg / backup_disk / db_backup) instantiated with the flat reference index.

   backup.go: Backup holds maintenanceMu for its whole duration, so NO COMPACTION STEP runs between the
   snapshot and the last copy: the only operations that interleave with the copying are the writers
   Put / Delete / Sync (and reads, which change nothing).  Compaction steps are therefore excluded from
   the schedules below; with them the statements are false (a removed segment cannot be copied).

   Notions (auxiliary names are prefixed bk_):
     since m0 m        the in-memory segment list has only evolved by writer operations since the snapshot
                       memory m0: every segment of m0 is still there (same id, same sequence id), Full
                       stays Full, sizes only grow
     grown m0 d0 d     the disk has only grown by writer operations since the snapshot (m0, d0): every
                       file of d0 is still there, its records are a prefix of the current ones, files of
                       segments that were Full are unchanged, other files are newer; file ids of d distinct
     Snap m0 d0 s      s is an open state with [since] and [grown]
     all_grown / bk_path / snap_op   the same for every disk BETWEEN two events of an operation
     wstep / wsteps    one writer operation (Put, Delete, Sync) / any number of them
     mid_disk P s0 d   d is a disk between two events of some writer operation of a run from s0
     bstep / bsteps    schedules: a writer operation of the source, or the copy of the next planned segment
     copy_all          the copies of the planned entries, entry i taken from the i-th disk of a list
   Main results:
     bk_trunc_recs_prefix, bk_trunc_seg_prefix     truncation at a record boundary
     grown_refl, since_refl, put_snap(_path), delete_snap(_path), sync_snap(_path), put_grown,
     delete_grown, sync_grown, wsteps_snap, mid_disk_grown
     copy_seg_snapshot                             one copy step, from any later disk
     C12_backup_is_snapshot                        copies from arbitrary grown disks
     C12_event_granular                            copies taken in the middle of writer operations
     C12_copy_all, bk_copy_enabled, C12_schedule   executable form; no copy fails; all schedules
     backup_quiescent, backup_does_not_touch_source, bsteps_source
     BkEx.bk_whole_differs (sensitivity witness: io.Copy instead of io.CopyN), BkEx.bk_captured_size_ok,
     BkEx.bk_schedule_instance (non-vacuity: the log rolls over after the snapshot).
   No axioms (Print Assumptions at the end: all "Closed under the global context"). *)
From Coq Require Import ZArith Lia ZifyN ZifyNat ZifyBool Permutation Sorted.
From Pogreb Require Import Base BaseLemmas Crc Bytes Record RecordProofs Flat Spec DB DBInv DBLemmas DBMeta
  DBProofsOps DBProofsRecovery.
Ltac Zify.zify_post_hook ::= Z.div_mod_to_equations.

Local Notation disk := (@DB.disk flat).
Local Notation st := (@DB.st flat).
Local Notation mem := (@DB.mem flat).
Local Notation fsev := (@DB.fsev flat).

(* ================================================================================================ *)
(* A. Definitions                                                                                     *)

(* one entry of the snapshot: segment id, sequence id, captured size (None: the segment was Full) *)
Notation bk_entry := (N * N * option N)%type (only parsing).

Definition since (m0 m : mem) : Prop :=
  forall g0, In g0 (m_segs m0) ->
    exists g, In g (m_segs m) /\ g_id g = g_id g0 /\ g_seq g = g_seq g0 /\
              (sm_full (g_meta g0) = true -> sm_full (g_meta g) = true) /\
              g_size g0 <= g_size g.

(* [NoDup (map f_id (d_segs d))] is part of the relation: [copy_seg] opens the file by NAME with [find],
   so "there is a file with this name and a good content" must mean "THE file with this name". *)
Definition grown (m0 : mem) (d0 d : disk) : Prop :=
  NoDup (map f_id (d_segs d)) /\
  (forall f0, In f0 (d_segs d0) ->
     exists f, In f (d_segs d) /\ f_id f = f_id f0 /\ f_seq f = f_seq f0 /\
       (f_hdr f0 = true -> f_hdr f = true) /\
       (exists more, f_recs f = f_recs f0 ++ more) /\
       (* sealed segments are immutable *)
       (forall g0, In g0 (m_segs m0) -> g_id g0 = f_id f0 -> sm_full (g_meta g0) = true ->
          f_recs f = f_recs f0 /\ f_tail f = f_tail f0)) /\
  (* files that were not there at the snapshot are newer than every file of the snapshot *)
  (forall f, In f (d_segs d) ->
     (exists f0, In f0 (d_segs d0) /\ f_id f0 = f_id f /\ f_seq f0 = f_seq f) \/
     (forall f0, In f0 (d_segs d0) -> f_seq f0 < f_seq f)).

Definition Snap (m0 : mem) (d0 : disk) (s : st) : Prop :=
  exists m, s_mem s = Some m /\ since m0 m /\ grown m0 d0 (s_disk s).

(* ================================================================================================ *)
(* B. Truncation at a record boundary                                                                 *)

Lemma bk_trunc_recs_prefix pre more : forall off,
  trunc_recs off (off + recs_len pre) (pre ++ more) = (pre, off + recs_len pre).
Proof.
  induction pre as [|r pre IH]; intros off.
  - rewrite recs_len_nil, N.add_0_r. cbn [app]. destruct more as [|r more]; [reflexivity|].
    cbn [trunc_recs]. pose proof (rsize_pos r) as Hr.
    destruct (N.leb_spec (off + rsize r) off) as [H|_]; [exfalso; lia|reflexivity].
  - cbn [app trunc_recs]. rewrite recs_len_cons.
    destruct (N.leb_spec (off + rsize r) (off + (rsize r + recs_len pre))) as [_|H]; [|exfalso; lia].
    rewrite N.add_assoc, IH. reflexivity.
Qed.

(* CopyN(size captured at a record boundary) of a file that has only been appended to since:
   exactly the records of the snapshot, no tail. *)
Lemma bk_trunc_seg_prefix f pre more :
  f_hdr f = true -> f_recs f = pre ++ more ->
  trunc_seg (header_size + recs_len pre) f =
  {| f_id := f_id f; f_seq := f_seq f; f_hdr := true; f_recs := pre; f_tail := []; f_meta := f_meta f |}.
Proof.
  intros Hh Hr. unfold trunc_seg. rewrite Hh. cbn [negb]. rewrite Hr, bk_trunc_recs_prefix.
  rewrite N.sub_diag. reflexivity.
Qed.

(* ================================================================================================ *)
(* C. [grown]: reflexivity, and the file-system events of the writers                                 *)

Lemma grown_refl P (s : st) m : Inv P s -> s_mem s = Some m -> grown m (s_disk s) (s_disk s).
Proof.
  intros HI Em. pose proof (Inv_InvLog P s m Em HI) as ((_ & Hnd & _) & _).
  split; [exact Hnd|]. split.
  - intros f0 Hf0. exists f0. split; [exact Hf0|]. split; [reflexivity|]. split; [reflexivity|].
    split; [exact (fun H => H)|]. split; [exists []; rewrite app_nil_r; reflexivity|]. intros; split; reflexivity.
  - intros f Hf. left. exists f. auto.
Qed.

Lemma since_refl (m : mem) : since m m.
Proof. intros g Hg. exists g. split; [exact Hg|]. repeat split; auto. lia. Qed.

(* events that leave the segment files alone (EIndex, ESync, gob files, ...) *)
Lemma grown_same_log m0 (d0 d d' : disk) : same_log d d' -> grown m0 d0 d -> grown m0 d0 d'.
Proof.
  intros Hsl (Hnd & Hold & Hnew). split; [rewrite (same_log_ids _ _ Hsl); exact Hnd|]. split.
  - intros f0 Hf0. destruct (Hold f0 Hf0) as (f & Hf & A1 & A2 & A3 & A4 & A5).
    destruct (same_log_In _ _ f Hsl Hf) as (f' & Hf' & Ec).
    destruct (seg_core_inv _ _ Ec) as (B1 & B2 & B3 & B4 & B5 & _).
    exists f'. split; [exact Hf'|]. rewrite B1, B2, B3, B4, B5. auto.
  - intros f' Hf'. destruct (same_log_In _ _ f' (same_log_sym _ _ Hsl) Hf') as (f & Hf & Ec).
    destruct (seg_core_inv _ _ Ec) as (B1 & B2 & _). rewrite <- B1, <- B2. apply Hnew. exact Hf.
Qed.

Lemma grown_segs m0 (d0 d d' : disk) : d_segs d' = d_segs d -> grown m0 d0 d -> grown m0 d0 d'.
Proof. intros E. apply grown_same_log. apply same_log_segs. exact E. Qed.

(* a new, empty segment file: fresh id, sequence id above everything on the disk *)
Lemma grown_create m0 (d0 d : disk) id seq :
  (forall x, In x (d_segs d) -> f_id x <> id) -> (forall x, In x (d_segs d) -> f_seq x < seq) ->
  grown m0 d0 d -> grown m0 d0 (apply_ev flat_ops d (ECreate (FSeg id seq))).
Proof.
  intros Hid Hseq (Hnd & Hold & Hnew). unfold grown. rewrite d_segs_create_seg. split; [|split].
  - rewrite map_app. cbn [map f_id]. apply NoDup_snoc; [exact Hnd|]. intros HIn. apply in_map_iff in HIn.
    destruct HIn as (x & E & Hx). exact (Hid x Hx E).
  - intros f0 Hf0. destruct (Hold f0 Hf0) as (f & Hf & A). exists f. split; [apply in_or_app; left; exact Hf|exact A].
  - intros f Hf. apply in_app_or in Hf. destruct Hf as [Hf|[<-|[]]]; [apply Hnew; exact Hf|].
    right. intros f0 Hf0. destruct (Hold f0 Hf0) as (f & Hf & _ & A2 & _). cbn [f_seq]. rewrite <- A2. apply Hseq. exact Hf.
Qed.

(* a change of one file that keeps its name and header and only adds records; it is either invisible
   in records and tail, or the file is not a sealed segment of the snapshot *)
Lemma grown_upd m0 (d0 d : disk) id seq (G : dseg -> dseg) :
  (forall s, f_id (G s) = f_id s /\ f_seq (G s) = f_seq s /\ (f_hdr s = true -> f_hdr (G s) = true) /\
             exists more, f_recs (G s) = f_recs s ++ more) ->
  ((forall s, f_recs (G s) = f_recs s /\ f_tail (G s) = f_tail s) \/
   (forall g0, In g0 (m_segs m0) -> g_id g0 = id -> sm_full (g_meta g0) = false)) ->
  grown m0 d0 d -> grown m0 d0 (upd_seg id seq G d).
Proof.
  intros HG Hcase (Hnd & Hold & Hnew). unfold grown. rewrite d_segs_upd_seg.
  set (H := fun s : dseg => if is_seg id seq s then G s else s).
  assert (HH : forall s, f_id (H s) = f_id s /\ f_seq (H s) = f_seq s /\ (f_hdr s = true -> f_hdr (H s) = true) /\
                         exists more, f_recs (H s) = f_recs s ++ more).
  { intros s. unfold H. destruct (is_seg id seq s); [apply HG|].
    repeat split; auto. exists []. rewrite app_nil_r. reflexivity. }
  split; [|split].
  - rewrite map_map. rewrite (map_ext (fun x => f_id (H x)) f_id); [exact Hnd|]. intros s. apply (HH s).
  - intros f0 Hf0. destruct (Hold f0 Hf0) as (f & Hf & A1 & A2 & A3 & (more & A4) & A5).
    destruct (HH f) as (B1 & B2 & B3 & (more2 & B4)).
    exists (H f). split; [apply in_map; exact Hf|]. split; [congruence|]. split; [congruence|].
    split; [auto|]. split; [exists (more ++ more2); rewrite B4, A4, app_assoc; reflexivity|].
    intros g0 Hg0 Eid Hfull. destruct (A5 g0 Hg0 Eid Hfull) as [C1 C2]. rewrite <- C1, <- C2.
    unfold H. destruct (is_seg id seq f) eqn:Eis; [|split; reflexivity].
    destruct Hcase as [Hsame|Hnf]; [apply Hsame|]. exfalso.
    unfold is_seg in Eis. apply andb_true_iff in Eis. destruct Eis as [Eis _]. apply N.eqb_eq in Eis.
    rewrite (Hnf g0 Hg0) in Hfull; [discriminate|congruence].
  - intros f' Hf'. apply in_map_iff in Hf'. destruct Hf' as (f & <- & Hf).
    destruct (HH f) as (B1 & B2 & _). rewrite B1, B2. apply Hnew. exact Hf.
Qed.

Lemma grown_header m0 (d0 d : disk) id seq :
  grown m0 d0 d -> grown m0 d0 (apply_ev flat_ops d (EHeader (FSeg id seq))).
Proof.
  intros Hg. cbn [apply_ev]. apply grown_upd; [| |exact Hg].
  - intros s. cbn [f_id f_seq f_hdr f_recs]. repeat split. exists []. rewrite app_nil_r. reflexivity.
  - left. intros s. split; reflexivity.
Qed.

Lemma grown_append m0 (d0 d : disk) id seq off r :
  (forall g0, In g0 (m_segs m0) -> g_id g0 = id -> sm_full (g_meta g0) = false) ->
  grown m0 d0 d -> grown m0 d0 (apply_ev flat_ops d (EAppend id seq off r)).
Proof.
  intros Hnf Hg. rewrite apply_ev_append. apply grown_upd; [| |exact Hg].
  - intros s. cbn [append_seg f_id f_seq f_hdr f_recs]. repeat split; auto. exists [r]. reflexivity.
  - right. exact Hnf.
Qed.

(* ================================================================================================ *)
(* D. [since]: the in-memory side of the writers                                                      *)

Lemma since_segs (m0 m m' : mem) : m_segs m' = m_segs m -> since m0 m -> since m0 m'.
Proof. intros E H g0 Hg0. rewrite E. apply H. exact Hg0. Qed.

Lemma since_mem_sim (m0 m m' : mem) : mem_sim m m' -> since m0 m -> since m0 m'.
Proof.
  intros ((F & HF & EF) & _) H g0 Hg0. destruct (H g0 Hg0) as (g & Hg & A1 & A2 & A3 & A4).
  destruct (HF g) as (F1 & F2 & F3 & F4). exists (F g). split; [rewrite EF; apply in_map; exact Hg|].
  split; [congruence|]. split; [congruence|]. split; [auto|]. rewrite F3. exact A4.
Qed.

(* a per-segment update that keeps id and sequence id, never clears Full and never shrinks *)
Lemma since_upd (m0 m : mem) id (F : mseg -> mseg) :
  (forall g, g_id (F g) = g_id g /\ g_seq (F g) = g_seq g /\
             (sm_full (g_meta g) = true -> sm_full (g_meta (F g)) = true) /\ g_size g <= g_size (F g)) ->
  since m0 m -> since m0 (set_msegs m (upd_mseg id F (m_segs m))).
Proof.
  intros HF H g0 Hg0. destruct (H g0 Hg0) as (g & Hg & A1 & A2 & A3 & A4).
  exists (if g_id g =? id then F g else g). split.
  - cbn [set_msegs m_segs]. apply In_upd_mseg. exists g. split; [exact Hg|reflexivity].
  - destruct (g_id g =? id); [|auto]. destruct (HF g) as (F1 & F2 & F3 & F4).
    split; [congruence|]. split; [congruence|]. split; [auto|]. lia.
Qed.

Lemma since_insert (m0 m m' : mem) g : m_segs m' = insert_mseg g (m_segs m) -> since m0 m -> since m0 m'.
Proof.
  intros E H g0 Hg0. destruct (H g0 Hg0) as (x & Hx & A). exists x. split; [|exact A].
  rewrite E. apply insert_mseg_In. right. exact Hx.
Qed.

(* ---- the events of an operation, one by one: every intermediate disk has only grown ---- *)
Fixpoint all_grown (m0 : mem) (d0 d : disk) (es : list fsev) : Prop :=
  match es with
  | [] => True
  | e :: es' => grown m0 d0 (apply_ev flat_ops d e) /\ all_grown m0 d0 (apply_ev flat_ops d e) es'
  end.

Lemma all_grown_app m0 d0 (a b : list fsev) : forall d,
  all_grown m0 d0 d (a ++ b) <-> all_grown m0 d0 d a /\ all_grown m0 d0 (fold_left (apply_ev flat_ops) a d) b.
Proof.
  induction a as [|e a IH]; intros d; cbn [app all_grown fold_left]; [tauto|]. rewrite IH. tauto.
Qed.

Lemma all_grown_prefix m0 d0 (es : list fsev) : forall d n,
  grown m0 d0 d -> all_grown m0 d0 d es -> grown m0 d0 (fold_left (apply_ev flat_ops) (firstn n es) d).
Proof.
  induction es as [|e es IH]; intros d n Hg Ha.
  - rewrite firstn_nil. exact Hg.
  - destruct n as [|n]; [exact Hg|]. cbn [firstn fold_left]. destruct Ha as [H1 H2]. apply IH; assumption.
Qed.

Lemma all_grown_last m0 d0 (es : list fsev) d :
  grown m0 d0 d -> all_grown m0 d0 d es -> grown m0 d0 (fold_left (apply_ev flat_ops) es d).
Proof. intros Hg Ha. rewrite <- (firstn_all es). apply all_grown_prefix; assumption. Qed.

(* [s'] is reached from [s] by file-system events through grown disks only *)
Definition bk_path (m0 : mem) (d0 : disk) (s s' : st) : Prop :=
  exists es, s_trace s' = s_trace s ++ es /\ s_disk s' = fold_left (apply_ev flat_ops) es (s_disk s) /\
             all_grown m0 d0 (s_disk s) es.

Lemma bk_path_refl m0 d0 (s : st) : bk_path m0 d0 s s.
Proof. exists []. rewrite app_nil_r. split; [reflexivity|]. split; [reflexivity|exact Logic.I]. Qed.

Lemma bk_path_eq m0 d0 (s s' : st) : s_trace s' = s_trace s -> s_disk s' = s_disk s -> bk_path m0 d0 s s'.
Proof. intros Et Ed. exists []. rewrite app_nil_r. split; [exact Et|]. split; [exact Ed|exact Logic.I]. Qed.

Lemma bk_path_trans m0 d0 (a b c : st) : bk_path m0 d0 a b -> bk_path m0 d0 b c -> bk_path m0 d0 a c.
Proof.
  intros (e1 & T1 & D1 & G1) (e2 & T2 & D2 & G2). exists (e1 ++ e2).
  split; [rewrite T2, T1, app_assoc; reflexivity|]. split; [rewrite D2, D1, fold_left_app; reflexivity|].
  apply all_grown_app. split; [exact G1|]. rewrite <- D1. exact G2.
Qed.

Lemma bk_path_emit m0 d0 (s : st) e :
  grown m0 d0 (apply_ev flat_ops (s_disk s) e) -> bk_path m0 d0 s (emit flat_ops e s).
Proof.
  intros H. exists [e]. split; [apply s_trace_emit|]. split; [apply s_disk_emit|]. split; [exact H|exact Logic.I].
Qed.

Lemma bk_path_grown m0 d0 (s s' : st) : grown m0 d0 (s_disk s) -> bk_path m0 d0 s s' -> grown m0 d0 (s_disk s').
Proof. intros Hg (es & _ & Ed & Ha). rewrite Ed. apply all_grown_last; assumption. Qed.

Lemma bk_path_sync m0 d0 (s : st) f : grown m0 d0 (s_disk s) -> bk_path m0 d0 s (emit flat_ops (ESync f) s).
Proof. intros Hg. apply bk_path_emit. rewrite apply_ev_sync. exact Hg. Qed.

(* ---- sealSegment ---- *)
Lemma bk_seal m0 d0 (s : st) (m : mem) g s1 m1 :
  ids_increasing (m_segs m) -> In g (m_segs m) -> seal flat_ops (g_id g) s m = (s1, m1) ->
  since m0 m -> grown m0 d0 (s_disk s) -> since m0 m1 /\ s_disk s1 = s_disk s /\ bk_path m0 d0 s s1.
Proof.
  intros Hinc Hg E Hs Hgr. pose proof (seal_spec s m g Hinc Hg) as (s0 & m0' & pre & E0 & Hsim & _).
  rewrite E in E0. assert (m1 = m0') by congruence. subst m0'. clear E0 s0 pre.
  split; [eapply since_mem_sim; eassumption|].
  unfold seal in E. rewrite (find_mseg_unique _ _ Hinc Hg) in E. destruct (sm_full (g_meta g)).
  - assert (s1 = s) by congruence. subst s1. split; [reflexivity|apply bk_path_refl].
  - match type of E with (?A, _) = _ => assert (Es : s1 = A) by congruence end. subst s1.
    split; [rewrite s_disk_emit; apply apply_ev_sync|apply bk_path_sync; exact Hgr].
Qed.

(* ---- swapSegment ---- *)
Lemma bk_swap m0 d0 (s : st) (m : mem) s1 m1 :
  InvLog m (s_disk s) -> swap_segment flat_ops s m = (s1, m1) ->
  since m0 m -> grown m0 d0 (s_disk s) -> since m0 m1 /\ bk_path m0 d0 s s1.
Proof.
  intros (Hd & [Ha1 Ha2] & Hinc & [Hs1 Hs2] & Hcur) E Hs Hg. unfold swap_segment in E.
  destruct (find (fun g => negb (sm_full (g_meta g))) (m_segs m)) as [g|] eqn:Efind.
  - assert (E1 : s1 = s) by congruence. assert (E2 : m1 = set_cur m (g_id g, g_seq g) false) by congruence.
    subst s1 m1. split; [exact Hs|apply bk_path_refl].
  - set (id := lowest_free 0 (m_segs m)) in *. set (seq := m_maxseq m + 1) in *.
    set (s1' := emits flat_ops [ECreate (FSeg id seq); EHeader (FSeg id seq)] s) in *.
    match type of E with (_, ?X) = _ => set (m1' := X) in * end.
    assert (E1 : s1 = s1') by congruence. assert (E2 : m1 = m1') by congruence. subst s1 m1. clear E.
    split.
    + eapply since_insert; [|exact Hs]. reflexivity.
    + assert (Hc : grown m0 d0 (apply_ev flat_ops (s_disk s) (ECreate (FSeg id seq)))).
      { apply grown_create; [| |exact Hg].
        * intros x Hx. destruct (Ha2 x Hx) as (gx & Hgx & Eid & _). rewrite <- Eid.
          apply lowest_free_fresh; assumption.
        * intros x Hx. destruct (Ha2 x Hx) as (gx & Hgx & _ & Eq). rewrite <- Eq.
          pose proof (Hs1 gx Hgx). unfold seq. lia. }
      exists [ECreate (FSeg id seq); EHeader (FSeg id seq)].
      split; [apply s_trace_emits|]. split; [apply s_disk_emits|].
      cbn [all_grown]. split; [exact Hc|]. split; [apply grown_header; exact Hc|exact Logic.I].
Qed.

(* ---- the choice of the segment (seal + swap) ---- *)
Lemma bk_prelude P m0 d0 r (s : st) (m : mem) s1 m1 :
  InvLog m (s_disk s) -> room m -> wr_prelude P r s m = (s1, m1) ->
  since m0 m -> grown m0 d0 (s_disk s) -> since m0 m1 /\ bk_path m0 d0 s s1.
Proof.
  intros HI Hroom E Hs Hg. unfold wr_prelude in E. destruct (cur_seg m) as [g|] eqn:Ec.
  - destruct (sm_full (g_meta g) || (p_maxseg P <? g_size g + rsize r)).
    + destruct (cur_seg_Some _ _ Ec) as (_ & HIn & _).
      assert (Hinc : ids_increasing (m_segs m)) by apply HI.
      destruct (seal flat_ops (g_id g) s m) as [sa ma] eqn:Eseal.
      destruct (bk_seal m0 d0 s m g sa ma Hinc HIn Eseal Hs Hg) as (Hsa & Eda & Hpa).
      destruct (seal_spec s m g Hinc HIn) as (sb & mb & pre & Eb & Hsim & _).
      rewrite Eseal in Eb. assert (mb = ma) by congruence. subst mb.
      assert (HIa : InvLog ma (s_disk sa)) by (rewrite Eda; eapply mem_sim_InvLog; eassumption).
      assert (Hga : grown m0 d0 (s_disk sa)) by (rewrite Eda; exact Hg).
      destruct (bk_swap m0 d0 sa ma s1 m1 HIa E Hsa Hga) as [Hs1 Hp1].
      split; [exact Hs1|eapply bk_path_trans; eassumption].
    + assert (E1 : s1 = s) by congruence. assert (E2 : m1 = m) by congruence. subst.
      split; [exact Hs|apply bk_path_refl].
  - exact (bk_swap m0 d0 s m s1 m1 HI E Hs Hg).
Qed.

(* ---- the append itself: it goes to a segment that is not Full now, hence was not Full at the
        snapshot (or did not exist then) ---- *)
Lemma bk_append m0 d0 (m1 : mem) (d1 : disk) g r :
  ids_increasing (m_segs m1) -> cur_seg m1 = Some g -> sm_full (g_meta g) = false ->
  since m0 m1 -> grown m0 d0 d1 ->
  since m0 (set_msegs m1 (upd_mseg (g_id g)
              (fun x => set_gmeta (set_gsize x (g_size g + rsize r)) (count_rec r (g_meta x))) (m_segs m1))) /\
  grown m0 d0 (apply_ev flat_ops d1 (EAppend (g_id g) (g_seq g) (g_size g) r)).
Proof.
  intros Hinc Ec Hnf Hs Hg. destruct (cur_seg_Some _ _ Ec) as (_ & HIn & _). split.
  - intros g0 Hg0. destruct (Hs g0 Hg0) as (x & Hx & A1 & A2 & A3 & A4).
    exists (if g_id x =? g_id g
            then set_gmeta (set_gsize x (g_size g + rsize r)) (count_rec r (g_meta x)) else x).
    split; [cbn [set_msegs m_segs]; apply In_upd_mseg; exists x; split; [exact Hx|reflexivity]|].
    destruct (N.eqb_spec (g_id x) (g_id g)) as [E|_]; [|auto].
    assert (x = g) by (apply (ids_increasing_unique (m_segs m1)); assumption). subst x.
    cbn [set_gmeta set_gsize g_id g_seq g_size g_meta]. rewrite count_rec_full.
    split; [exact A1|]. split; [exact A2|]. split; [exact A3|]. lia.
  - apply grown_append; [|exact Hg]. intros g0 Hg0 Eid.
    destruct (sm_full (g_meta g0)) eqn:Ef; [|reflexivity]. exfalso.
    destruct (Hs g0 Hg0) as (x & Hx & A1 & _ & A3 & _).
    assert (x = g) by (apply (ids_increasing_unique (m_segs m1)); try assumption; congruence). subst x.
    rewrite (A3 Ef) in Hnf. discriminate.
Qed.

(* ---- datalog.writeRecord ---- *)
Lemma bk_write_record P m0 d0 r (s : st) (m : mem) s' m' id off :
  InvLog m (s_disk s) -> room m -> write_record flat_ops P r s m = Some (s', m', id, off) ->
  since m0 m -> grown m0 d0 (s_disk s) -> since m0 m' /\ bk_path m0 d0 s s'.
Proof.
  intros HI Hroom E Hs Hg. rewrite write_record_eq in E.
  destruct (wr_prelude_spec P r s m HI Hroom) as (s1 & m1 & g & pre & E1 & HI1 & _ & Ec1 & Hnf1 & _).
  rewrite E1 in E.
  destruct (bk_prelude P m0 d0 r s m s1 m1 HI Hroom E1 Hs Hg) as [Hs1 Hp1].
  pose proof (bk_path_grown m0 d0 s s1 Hg Hp1) as Hg1.
  assert (Hinc1 : ids_increasing (m_segs m1)) by apply HI1.
  destruct (bk_append m0 d0 m1 (s_disk s1) g r Hinc1 Ec1 Hnf1 Hs1 Hg1) as [Hs2 Hg2].
  unfold wr_tail in E. rewrite Ec1 in E.
  destruct (find_dseg (g_id g) (s_disk s1)) as [f|]; [|discriminate].
  destruct (negb ((f_seq f =? g_seq g) && (flen f =? g_size g))); [discriminate|].
  match type of E with Some (?A, ?B, _, _) = _ => set (s2 := A) in *; set (m2 := B) in * end.
  assert (Es : s' = s2) by congruence. assert (Em : m' = m2) by congruence. subst s' m'.
  split; [exact Hs2|]. eapply bk_path_trans; [exact Hp1|]. apply bk_path_emit. exact Hg2.
Qed.

(* ---- finish (optional Sync) ---- *)
Lemma bk_do_sync m0 d0 (s : st) (m : mem) : grown m0 d0 (s_disk s) -> bk_path m0 d0 s (do_sync flat_ops s m).
Proof. intros Hg. unfold do_sync. destruct (cur_seg m); [apply bk_path_sync; exact Hg|apply bk_path_refl]. Qed.

Lemma bk_finish P m0 d0 (s : st) (m : mem) :
  grown m0 d0 (s_disk s) ->
  s_mem (fst (finish flat_ops P s m)) = Some m /\ bk_path m0 d0 s (fst (finish flat_ops P s m)).
Proof.
  intros Hg. unfold finish. cbn [fst]. split; [reflexivity|].
  apply (bk_path_trans m0 d0 s (if p_sync P then do_sync flat_ops s m else s)).
  - destruct (p_sync P); [apply bk_do_sync; exact Hg|apply bk_path_refl].
  - apply bk_path_eq; reflexivity.
Qed.

(* ================================================================================================ *)
(* E. The writer operations preserve the snapshot relation -- at the granularity of single events      *)

(* [Snap] after the operation, and every disk in between has only grown *)
Definition snap_op (m0 : mem) (d0 : disk) (s s' : st) : Prop := Snap m0 d0 s' /\ bk_path m0 d0 s s'.

Theorem put_snap_path P m0 d0 (s : st) k v :
  Inv P s -> (exists m, s_mem s = Some m /\ room m) -> Snap m0 d0 s ->
  snap_op m0 d0 s (fst (db_put flat_ops P k v s)).
Proof.
  intros HI (m & Em & Hroom) HS. pose proof HS as (m' & Em' & Hs & Hg).
  assert (m' = m) by congruence. subst m'.
  pose proof (Inv_InvLog P s m Em HI) as HL.
  assert (Hstay : snap_op m0 d0 s s) by (split; [exact HS|apply bk_path_refl]).
  unfold db_put. rewrite Em.
  destruct (max_key_len <? nlen k); [exact Hstay|]. destruct (max_val_len <? nlen v); [exact Hstay|].
  destruct (write_record flat_ops P (mkput k v) s m) as [[[[s1 m1] id] off]|] eqn:Ew; [|exact Hstay].
  destruct (bk_write_record P m0 d0 _ s m s1 m1 id off HL Hroom Ew Hs Hg) as [Hs1 Hp1].
  pose proof (bk_path_grown m0 d0 s s1 Hg Hp1) as Hg1.
  cbn [ix_put flat_ops].
  destruct (fl_put (p_grow P) (m_idx m1) _ (matchf (s_disk s1) k)) as [i2 old].
  set (m2 := match old with Some o => track_del o m1 | None => m1 end).
  assert (Hg2 : grown m0 d0 (apply_ev flat_ops (s_disk s1) (EIndex i2))).
  { eapply grown_segs; [|exact Hg1]. apply d_segs_index. }
  assert (Hg2' : grown m0 d0 (s_disk (emit flat_ops (EIndex i2) s1))) by (rewrite s_disk_emit; exact Hg2).
  destruct (bk_finish P m0 d0 (emit flat_ops (EIndex i2) s1) (set_idx m2 i2) Hg2') as [Ef Hpf].
  assert (Hp : bk_path m0 d0 s (fst (finish flat_ops P (emit flat_ops (EIndex i2) s1) (set_idx m2 i2)))).
  { eapply bk_path_trans; [exact Hp1|]. eapply bk_path_trans; [apply bk_path_emit; exact Hg2|exact Hpf]. }
  split; [|exact Hp].
  exists (set_idx m2 i2). split; [exact Ef|]. split.
  - apply (since_segs m0 m2); [reflexivity|]. unfold m2. destruct old; [|exact Hs1].
    eapply since_mem_sim; [apply mem_sim_track_del|exact Hs1].
  - exact (bk_path_grown m0 d0 _ _ Hg Hp).
Qed.

Theorem delete_snap_path P m0 d0 (s : st) k :
  Inv P s -> (exists m, s_mem s = Some m /\ room m) -> Snap m0 d0 s ->
  snap_op m0 d0 s (fst (db_delete flat_ops P k s)).
Proof.
  intros HI (m & Em & Hroom) HS. pose proof HS as (m' & Em' & Hs & Hg).
  assert (m' = m) by congruence. subst m'.
  pose proof (Inv_InvLog P s m Em HI) as HL.
  assert (Hstay : snap_op m0 d0 s s) by (split; [exact HS|apply bk_path_refl]).
  unfold db_delete. rewrite Em. cbn [ix_del flat_ops].
  destruct (fl_del (m_idx m) (p_hash P (m_seed m) k) (matchf (s_disk s) k)) as [i1 old].
  destruct old as [o|].
  - pose proof (track_del_InvLog o m _ HL) as HL0. pose proof (track_del_room o m Hroom) as Hroom0.
    assert (Hs0 : since m0 (track_del o m)) by (eapply since_mem_sim; [apply mem_sim_track_del|exact Hs]).
    destruct (write_record flat_ops P (mkdel k) s (track_del o m)) as [[[[s1 m1] id] off]|] eqn:Ew; [|exact Hstay].
    destruct (bk_write_record P m0 d0 _ s _ s1 m1 id off HL0 Hroom0 Ew Hs0 Hg) as [Hs1 Hp1].
    pose proof (bk_path_grown m0 d0 s s1 Hg Hp1) as Hg1.
    set (m2 := add_delbytes id (u32 (rsize (mkdel k))) m1).
    assert (Hg2 : grown m0 d0 (apply_ev flat_ops (s_disk s1) (EIndex i1))).
    { eapply grown_segs; [|exact Hg1]. apply d_segs_index. }
    assert (Hg2' : grown m0 d0 (s_disk (emit flat_ops (EIndex i1) s1))) by (rewrite s_disk_emit; exact Hg2).
    destruct (bk_finish P m0 d0 (emit flat_ops (EIndex i1) s1) (set_idx m2 i1) Hg2') as [Ef Hpf].
    assert (Hp : bk_path m0 d0 s (fst (finish flat_ops P (emit flat_ops (EIndex i1) s1) (set_idx m2 i1)))).
    { eapply bk_path_trans; [exact Hp1|]. eapply bk_path_trans; [apply bk_path_emit; exact Hg2|exact Hpf]. }
    split; [|exact Hp].
    exists (set_idx m2 i1). split; [exact Ef|]. split.
    + apply (since_segs m0 m2); [reflexivity|].
      eapply since_mem_sim; [apply mem_sim_add_delbytes|exact Hs1].
    + exact (bk_path_grown m0 d0 _ _ Hg Hp).
  - destruct (bk_finish P m0 d0 s m Hg) as [Ef Hpf]. split; [|exact Hpf].
    exists m. split; [exact Ef|]. split; [exact Hs|]. exact (bk_path_grown m0 d0 _ _ Hg Hpf).
Qed.

Theorem sync_snap_path m0 d0 (s : st) : Snap m0 d0 s -> snap_op m0 d0 s (fst (db_sync flat_ops s)).
Proof.
  intros HS. pose proof HS as (m & Em & Hs & Hg). unfold db_sync. rewrite Em. cbn [fst].
  pose proof (bk_do_sync m0 d0 s m Hg) as Hp. split; [|exact Hp].
  destruct (do_sync_spec s m) as (E1 & E2 & _). exists m. split; [congruence|]. split; [exact Hs|].
  rewrite E2. exact Hg.
Qed.

Corollary put_snap P m0 d0 (s : st) k v :
  Inv P s -> (exists m, s_mem s = Some m /\ room m) -> Snap m0 d0 s -> Snap m0 d0 (fst (db_put flat_ops P k v s)).
Proof. intros HI Hr HS. apply (put_snap_path P m0 d0 s k v HI Hr HS). Qed.

Corollary delete_snap P m0 d0 (s : st) k :
  Inv P s -> (exists m, s_mem s = Some m /\ room m) -> Snap m0 d0 s -> Snap m0 d0 (fst (db_delete flat_ops P k s)).
Proof. intros HI Hr HS. apply (delete_snap_path P m0 d0 s k HI Hr HS). Qed.

Corollary sync_snap m0 d0 (s : st) : Snap m0 d0 s -> Snap m0 d0 (fst (db_sync flat_ops s)).
Proof. intros HS. apply (sync_snap_path m0 d0 s HS). Qed.

(* the statements in the unpacked form *)
Corollary put_grown P m0 d0 (s : st) m k v :
  Inv P s -> s_mem s = Some m -> room m -> grown m0 d0 (s_disk s) -> since m0 m ->
  grown m0 d0 (s_disk (fst (db_put flat_ops P k v s))) /\
  exists m', s_mem (fst (db_put flat_ops P k v s)) = Some m' /\ since m0 m'.
Proof.
  intros HI Em Hr Hg Hs.
  destruct (put_snap P m0 d0 s k v HI (ex_intro _ m (conj Em Hr)) (ex_intro _ m (conj Em (conj Hs Hg))))
    as (m' & A & B & C). split; [exact C|]. exists m'. auto.
Qed.

Corollary delete_grown P m0 d0 (s : st) m k :
  Inv P s -> s_mem s = Some m -> room m -> grown m0 d0 (s_disk s) -> since m0 m ->
  grown m0 d0 (s_disk (fst (db_delete flat_ops P k s))) /\
  exists m', s_mem (fst (db_delete flat_ops P k s)) = Some m' /\ since m0 m'.
Proof.
  intros HI Em Hr Hg Hs.
  destruct (delete_snap P m0 d0 s k HI (ex_intro _ m (conj Em Hr)) (ex_intro _ m (conj Em (conj Hs Hg))))
    as (m' & A & B & C). split; [exact C|]. exists m'. auto.
Qed.

Corollary sync_grown m0 d0 (s : st) m :
  s_mem s = Some m -> grown m0 d0 (s_disk s) -> since m0 m ->
  grown m0 d0 (s_disk (fst (db_sync flat_ops s))) /\
  exists m', s_mem (fst (db_sync flat_ops s)) = Some m' /\ since m0 m'.
Proof.
  intros Em Hg Hs. destruct (sync_snap m0 d0 s (ex_intro _ m (conj Em (conj Hs Hg)))) as (m' & A & B & C).
  split; [exact C|]. exists m'. auto.
Qed.

(* ---- any number of writer operations.  Compaction steps are NOT writer steps: Backup holds
        maintenanceMu from before the snapshot until after the last copy. ---- *)
Inductive wstep (P : params) : st -> st -> Prop :=
| ws_put s k v : Forall byte k -> Forall byte v -> (exists m, s_mem s = Some m /\ room m) ->
                 wstep P s (fst (db_put flat_ops P k v s))
| ws_del s k : Forall byte k -> (exists m, s_mem s = Some m /\ room m) ->
               wstep P s (fst (db_delete flat_ops P k s))
| ws_sync s : wstep P s (fst (db_sync flat_ops s)).

Inductive wsteps (P : params) (s0 : st) : st -> Prop :=
| wss_refl : wsteps P s0 s0
| wss_step s s' : wsteps P s0 s -> wstep P s s' -> wsteps P s0 s'.

Lemma wstep_inv P (s s' : st) :
  params_ok P -> Inv P s -> s_mem s <> None -> wstep P s s' -> Inv P s' /\ s_mem s' <> None.
Proof.
  intros HP HI Hm Hst. destruct Hst as [s k v Hbk Hbv Hr|s k Hbk Hr|s].
  - destruct (N.le_gt_cases (nlen k) max_key_len) as [Hk|Hk];
      [destruct (N.le_gt_cases (nlen v) max_val_len) as [Hv|Hv]|].
    + pose proof (put_ok P s k v HP HI Hr Hbk Hbv Hk Hv) as H.
      destruct (db_put flat_ops P k v s) as [s' o]. cbn [fst]. destruct H as (_ & A & B & _). auto.
    + destruct (put_rejected P s k v Hm (or_intror Hv)) as (e & E). rewrite E. auto.
    + destruct (put_rejected P s k v Hm (or_introl Hk)) as (e & E). rewrite E. auto.
  - pose proof (delete_ok P s k HP HI Hr Hbk) as H.
    destruct (db_delete flat_ops P k s) as [s' o]. cbn [fst]. destruct H as (_ & A & B & _). auto.
  - pose proof (sync_ok P s HI Hm) as H.
    destruct (db_sync flat_ops s) as [s' o]. cbn [fst]. destruct H as (_ & A & _ & B). split; [exact A|congruence].
Qed.

Lemma wstep_snap P m0 d0 (s s' : st) : Inv P s -> Snap m0 d0 s -> wstep P s s' -> Snap m0 d0 s'.
Proof.
  intros HI HS Hst. destruct Hst as [s k v _ _ Hr|s k _ Hr|s].
  - apply put_snap; assumption.
  - apply delete_snap; assumption.
  - apply sync_snap; assumption.
Qed.

Theorem wsteps_snap P (s0 s : st) m0 :
  params_ok P -> Inv P s0 -> s_mem s0 = Some m0 -> wsteps P s0 s ->
  Inv P s /\ s_mem s <> None /\ Snap m0 (s_disk s0) s.
Proof.
  intros HP HI Em H. induction H as [|s s' _ IH Hst].
  - split; [exact HI|]. split; [congruence|]. exists m0. split; [exact Em|].
    split; [apply since_refl|eapply grown_refl; eassumption].
  - destruct IH as (A & B & C). destruct (wstep_inv P s s' HP A B Hst) as [A' B'].
    split; [exact A'|]. split; [exact B'|]. exact (wstep_snap P m0 _ s s' A C Hst).
Qed.

Corollary wsteps_grown P (s0 s : st) m0 :
  params_ok P -> Inv P s0 -> s_mem s0 = Some m0 -> wsteps P s0 s -> grown m0 (s_disk s0) (s_disk s).
Proof. intros HP HI Em H. destruct (wsteps_snap P s0 s m0 HP HI Em H) as (_ & _ & (m & _ & _ & Hg)). exact Hg. Qed.

(* ---- event granularity: the disks a copy step can see BETWEEN two events of a writer operation
        (the copies run outside db.mu, so a file may be read while a Put is half done) ---- *)
Lemma wstep_path P m0 d0 (s s' : st) : Inv P s -> Snap m0 d0 s -> wstep P s s' -> snap_op m0 d0 s s'.
Proof.
  intros HI HS Hst. destruct Hst as [s k v _ _ Hr|s k _ Hr|s].
  - apply put_snap_path; assumption.
  - apply delete_snap_path; assumption.
  - apply sync_snap_path; assumption.
Qed.

Definition mid_disk (P : params) (s0 : st) (d : disk) : Prop :=
  exists s s' es n, wsteps P s0 s /\ wstep P s s' /\ s_trace s' = s_trace s ++ es /\
    d = fold_left (apply_ev flat_ops) (firstn n es) (s_disk s).

Theorem mid_disk_grown P (s0 : st) m0 d :
  params_ok P -> Inv P s0 -> s_mem s0 = Some m0 -> mid_disk P s0 d -> grown m0 (s_disk s0) d.
Proof.
  intros HP HI Em (s & s' & es & n & Hw & Hst & Et & ->).
  destruct (wsteps_snap P s0 s m0 HP HI Em Hw) as (A & _ & C).
  destruct (wstep_path P m0 (s_disk s0) s s' A C Hst) as (_ & es' & Et' & _ & Ha).
  assert (es' = es) by (apply (app_inv_head (s_trace s)); congruence). subst es'.
  apply all_grown_prefix; [|exact Ha]. destruct C as (m & _ & _ & Hg). exact Hg.
Qed.

(* the disks between operations are among them *)
Lemma wsteps_mid_disk P (s0 s : st) : wsteps P s0 s -> mid_disk P s0 (s_disk s).
Proof.
  intros Hw. exists s, (fst (db_sync flat_ops s)). 
  assert (Hex : exists es, s_trace (fst (db_sync flat_ops s)) = s_trace s ++ es).
  { unfold db_sync. destruct (s_mem s) as [m|]; cbn [fst]; [|exists []; rewrite app_nil_r; reflexivity].
    destruct (do_sync_spec s m) as (_ & _ & [E|(i & q & E)]); rewrite E; [exists []; rewrite app_nil_r|eexists]; reflexivity. }
  destruct Hex as (es & E). exists es, O. split; [exact Hw|]. split; [apply ws_sync|]. split; [exact E|reflexivity].
Qed.

(* ================================================================================================ *)
(* F. One copy step returns the file as it was at the snapshot                                        *)

Lemma bk_find_is_seg (l : list dseg) f :
  NoDup (map f_id l) -> In f l -> find (is_seg (f_id f) (f_seq f)) l = Some f.
Proof.
  induction l as [|x l IH]; intros Hnd HIn; [destruct HIn|].
  cbn [map] in Hnd. inversion Hnd as [|? ? Hx Hnd']; subst. cbn [find].
  destruct HIn as [->|HIn].
  - unfold is_seg. rewrite !N.eqb_refl. reflexivity.
  - unfold is_seg at 1. destruct (N.eqb_spec (f_id x) (f_id f)) as [E|_]; [|apply IH; assumption].
    exfalso. apply Hx. rewrite E. apply in_map. exact HIn.
Qed.

(* the entry of the plan for an in-memory segment *)
Definition bk_plan_of (g : mseg) : bk_entry :=
  (g_id g, g_seq g, if sm_full (g_meta g) then None else Some (g_size g)).

Lemma backup_plan_eq (m : mem) : backup_plan m = map bk_plan_of (by_seq (m_segs m)).
Proof. reflexivity. Qed.

(* the copy of the segment [g0] of the snapshot, taken from ANY later disk, is the file of the
   snapshot disk (without its side file) *)
Lemma bk_copy_seg P (s0 : st) m0 (d : disk) g0 :
  Inv P s0 -> s_mem s0 = Some m0 -> grown m0 (s_disk s0) d -> In g0 (m_segs m0) ->
  exists f0, In f0 (d_segs (s_disk s0)) /\ f_id f0 = g_id g0 /\ f_seq f0 = g_seq g0 /\
             copy_seg d (bk_plan_of g0) = Some (strip f0).
Proof.
  intros HI Em (Hnd & Hold & _) Hg0.
  pose proof (Inv_InvLog P s0 m0 Em HI) as (_ & [Ha1 _] & _).
  destruct (Ha1 g0 Hg0) as (f0 & Hf0 & Eid & Eseq & Ehdr & Etail & Elen).
  exists f0. split; [exact Hf0|]. split; [exact Eid|]. split; [exact Eseq|].
  destruct (Hold f0 Hf0) as (f & Hf & A1 & A2 & A3 & (more & A4) & A5).
  specialize (A3 Ehdr).
  unfold copy_seg, bk_plan_of. rewrite <- Eid, <- Eseq, <- A1, <- A2.
  rewrite (bk_find_is_seg _ f Hnd Hf). f_equal.
  destruct (sm_full (g_meta g0)) eqn:Efull.
  - destruct (A5 g0 Hg0 (eq_sym Eid) Efull) as [B1 B2]. clear A4 A5. unfold strip.
    destruct f as [a b c rs t gm], f0 as [a0 b0 c0 rs0 t0 gm0].
    cbn [f_id f_seq f_hdr f_recs f_tail] in *. subst. reflexivity.
  - rewrite <- Elen, (flen_clean f0 Ehdr Etail), (bk_trunc_seg_prefix f (f_recs f0) more A3 A4).
    unfold strip. destruct f as [a b c rs t gm], f0 as [a0 b0 c0 rs0 t0 gm0].
    cbn [f_id f_seq f_hdr f_recs f_tail f_meta set_fmeta] in *. subst. reflexivity.
Qed.

(* item 2 of the task, for an entry of the plan *)
Theorem copy_seg_snapshot P (s0 : st) m0 (d : disk) p :
  Inv P s0 -> s_mem s0 = Some m0 -> grown m0 (s_disk s0) d -> In p (backup_plan m0) ->
  exists c f0, copy_seg d p = Some c /\ In f0 (d_segs (s_disk s0)) /\
    f_id c = fst (fst p) /\ f_seq c = snd (fst p) /\ f_id f0 = f_id c /\ f_seq f0 = f_seq c /\
    f_recs c = f_recs f0 /\ f_tail c = [] /\ f_hdr c = true /\ f_meta c = GAbsent.
Proof.
  intros HI Em Hg Hp. rewrite backup_plan_eq in Hp. apply in_map_iff in Hp. destruct Hp as (g0 & <- & Hg0).
  apply (proj1 (rc_by_seq_In _ _)) in Hg0.
  destruct (bk_copy_seg P s0 m0 d g0 HI Em Hg Hg0) as (f0 & Hf0 & Eid & Eseq & Ec).
  pose proof (Inv_InvLog P s0 m0 Em HI) as ((_ & Hnd0 & _) & [Ha1 _] & _).
  destruct (Ha1 g0 Hg0) as (f1 & Hf1 & Eid1 & _ & Ehdr & Etail & _).
  assert (f1 = f0) by (apply (NoDup_map_inj f_id (d_segs (s_disk s0))); try assumption; congruence). subst f1.
  exists (strip f0), f0. split; [exact Ec|]. split; [exact Hf0|].
  unfold strip, bk_plan_of. cbn [set_fmeta f_id f_seq f_recs f_tail f_hdr f_meta fst snd]. auto 10.
Qed.

(* ================================================================================================ *)
(* G. The backup directory                                                                            *)

(* entry [p] was copied from SOME disk that has only grown since the snapshot *)
Definition bk_copied (m0 : mem) (d0 : disk) (p : bk_entry) (c : dseg) : Prop :=
  exists d, grown m0 d0 d /\ copy_seg d p = Some c.

Lemma bk_copies_shape P (s0 : st) m0 :
  Inv P s0 -> s_mem s0 = Some m0 ->
  forall G copies, (forall g, In g G -> In g (m_segs m0)) ->
    Forall2 (bk_copied m0 (s_disk s0)) (map bk_plan_of G) copies ->
    exists L, copies = map strip L /\ map rc_fpair L = map rc_gpair G /\
              (forall f, In f L -> In f (d_segs (s_disk s0))).
Proof.
  intros HI Em. induction G as [|g G IH]; intros copies HG HF.
  - cbn [map] in HF. inversion HF; subst. exists []. split; [reflexivity|]. split; [reflexivity|intros f []].
  - cbn [map] in HF. inversion HF as [|p c pl cl Hc HF']; subst.
    destruct (IH cl (fun x Hx => HG x (or_intror Hx)) HF') as (L & -> & EL & HL).
    destruct Hc as (d & Hgr & Ec).
    destruct (bk_copy_seg P s0 m0 d g HI Em Hgr (HG g (or_introl eq_refl))) as (f0 & Hf0 & Eid & Eseq & Ec').
    rewrite Ec in Ec'. assert (c = strip f0) by congruence. subst c.
    exists (f0 :: L). split; [reflexivity|]. split.
    + cbn [map]. rewrite EL. unfold rc_fpair at 1, rc_gpair at 2. rewrite Eid, Eseq. reflexivity.
    + intros f [<-|Hf]; [exact Hf0|apply HL; exact Hf].
Qed.

Lemma bk_same_pairs (l : list dseg) :
  NoDup (map f_id l) -> forall L1 L2, (forall f, In f L1 -> In f l) -> (forall f, In f L2 -> In f l) ->
  map rc_fpair L1 = map rc_fpair L2 -> L1 = L2.
Proof.
  intros Hnd. induction L1 as [|a L1 IH]; intros L2 H1 H2 E; destruct L2 as [|b L2]; try discriminate; [reflexivity|].
  cbn [map] in E. injection E as Eid Eseq E'. f_equal.
  - apply (NoDup_map_inj f_id l); [exact Hnd|apply H1; left; reflexivity|apply H2; left; reflexivity|exact Eid].
  - apply IH; [intros f Hf; apply H1; right; exact Hf|intros f Hf; apply H2; right; exact Hf|exact E'].
Qed.

(* the copies are the files of the snapshot disk, oldest first, without their side files *)
Lemma bk_copies_eq P (s0 : st) m0 copies :
  Inv P s0 -> s_mem s0 = Some m0 ->
  Forall2 (bk_copied m0 (s_disk s0)) (backup_plan m0) copies ->
  copies = map strip (dby_seq (d_segs (s_disk s0))).
Proof.
  intros HI Em HF. pose proof (Inv_InvLog P s0 m0 Em HI) as ((_ & Hnid & Hnseq) & [Ha1 Ha2] & Hinc & _).
  rewrite backup_plan_eq in HF.
  destruct (bk_copies_shape P s0 m0 HI Em (by_seq (m_segs m0)) copies) as (L & -> & EL & HL).
  { intros g Hg. apply (proj1 (rc_by_seq_In _ _)). exact Hg. }
  { exact HF. }
  f_equal. apply (bk_same_pairs (d_segs (s_disk s0)) Hnid); [exact HL| |].
  - intros f Hf. apply (proj1 (dby_seq_In _ _)). exact Hf.
  - rewrite EL. apply rc_order_pairs; [exact Hinc| |exact Hnseq]. split; [|exact Ha2].
    intros g Hg. destruct (Ha1 g Hg) as (f & Hf & A1 & A2 & _ & _ & A5). exists f. auto.
Qed.

Lemma bk_dby_seq_idem (l : list dseg) : NoDup (map f_seq l) -> dby_seq (dby_seq l) = dby_seq l.
Proof.
  intros Hnd. apply dby_seq_unique.
  - apply (Permutation_NoDup (l := map f_seq l)); [apply Permutation_map; symmetry; apply dby_seq_perm|exact Hnd].
  - apply dby_seq_sorted_lt. exact Hnd.
  - reflexivity.
Qed.

Lemma bk_backup_disk_ok (d0 : disk) :
  DiskOK d0 ->
  let b : disk := backup_disk (map strip (dby_seq (d_segs d0))) in
  DiskOK b /\ bac_ok b /\ d_lock b = true /\ olog b = olog d0.
Proof.
  intros (Hok & Hnid & Hnseq). cbv zeta. split; [|split; [|split]].
  - unfold DiskOK, backup_disk. cbn [d_segs]. rewrite !map_map. split; [|split].
    + apply Forall_forall. intros y Hy. apply in_map_iff in Hy. destruct Hy as (f & <- & Hf).
      apply (dseg_ok_core f); [reflexivity|]. apply (proj1 (Forall_forall _ _) Hok).
      apply (proj1 (dby_seq_In _ _)). exact Hf.
    + change (fun x => f_id (strip x)) with f_id.
      apply (Permutation_NoDup (l := map f_id (d_segs d0))); [apply Permutation_map; symmetry; apply dby_seq_perm|exact Hnid].
    + change (fun x => f_seq (strip x)) with f_seq.
      apply (Permutation_NoDup (l := map f_seq (d_segs d0))); [apply Permutation_map; symmetry; apply dby_seq_perm|exact Hnseq].
  - unfold bac_ok, backup_disk. cbn [d_bac]. constructor.
  - reflexivity.
  - rewrite !olog_eq. unfold backup_disk. cbn [d_segs]. rewrite olog_of_strip. unfold olog_of.
    rewrite (bk_dby_seq_idem _ Hnseq). reflexivity.
Qed.

(* ---- C12 ---- *)
Theorem C12_backup_is_snapshot P seed (s0 : st) m0 copies :
  params_ok P -> Inv P s0 -> s_mem s0 = Some m0 ->
  Forall2 (fun p c => exists d, grown m0 (s_disk s0) d /\ copy_seg d p = Some c) (backup_plan m0) copies ->
  let b : disk := backup_disk copies in
  DiskOK b /\ bac_ok b /\ d_lock b = true /\ olog b = olog (s_disk s0) /\
  exists s', db_open flat_ops P seed {| s_mem := None; s_disk := b; s_trace := [] |} = (s', OOpened true) /\
    Inv P s' /\ s_mem s' <> None /\
    (forall k, sget (abs (s_disk s')) k = sget (abs (s_disk s0)) k) /\
    olog (s_disk s') = olog (s_disk s0).
Proof.
  intros HP HI Em HF. cbv zeta.
  rewrite (bk_copies_eq P s0 m0 copies HI Em HF).
  assert (Hd0 : DiskOK (s_disk s0)) by apply (Inv_InvLog P s0 m0 Em HI).
  destruct (bk_backup_disk_ok (s_disk s0) Hd0) as (B1 & B2 & B3 & B4). cbv zeta in B1, B2, B3, B4.
  set (b := backup_disk (map strip (dby_seq (d_segs (s_disk s0))))) in *.
  split; [exact B1|]. split; [exact B2|]. split; [exact B3|]. split; [exact B4|].
  pose proof (open_recover_ok P seed b HP B1 B2 B3) as H.
  destruct (db_open flat_ops P seed {| s_mem := None; s_disk := b; s_trace := [] |}) as [s' o].
  destruct H as (-> & A1 & A2 & A3 & _ & A5 & _). exists s'. split; [reflexivity|].
  split; [exact A1|]. split; [exact A2|]. split.
  - intros k. rewrite A3. unfold abs. rewrite B4. reflexivity.
  - rewrite A5. exact B4.
Qed.

(* ---- C12 at event granularity: every copy may be taken in the MIDDLE of a writer operation ---- *)
Lemma bk_Forall2_impl {A B} (R1 R2 : A -> B -> Prop) :
  (forall a b, R1 a b -> R2 a b) -> forall l1 l2, Forall2 R1 l1 l2 -> Forall2 R2 l1 l2.
Proof. intros H l1 l2 HF. induction HF; constructor; auto. Qed.

Theorem C12_event_granular P seed (s0 : st) m0 copies :
  params_ok P -> Inv P s0 -> s_mem s0 = Some m0 ->
  Forall2 (fun p c => exists d, mid_disk P s0 d /\ copy_seg d p = Some c) (backup_plan m0) copies ->
  let b : disk := backup_disk copies in
  DiskOK b /\ bac_ok b /\ d_lock b = true /\ olog b = olog (s_disk s0) /\
  exists s', db_open flat_ops P seed {| s_mem := None; s_disk := b; s_trace := [] |} = (s', OOpened true) /\
    Inv P s' /\ s_mem s' <> None /\
    (forall k, sget (abs (s_disk s')) k = sget (abs (s_disk s0)) k) /\
    olog (s_disk s') = olog (s_disk s0).
Proof.
  intros HP HI Em HF. apply (C12_backup_is_snapshot P seed s0 m0 copies HP HI Em).
  revert HF. apply bk_Forall2_impl. intros p c (d & Hd & Ec). exists d. split; [|exact Ec].
  exact (mid_disk_grown P s0 m0 d HP HI Em Hd).
Qed.

(* ================================================================================================ *)
(* H. Executable form: entry i of the plan is copied from the i-th disk of a list                     *)

Fixpoint copy_all (plan : list bk_entry) (ds : list disk) : option (list dseg) :=
  match plan, ds with
  | [], _ => Some []
  | p :: pl, d :: ds' =>
      match copy_seg d p, copy_all pl ds' with
      | Some c, Some r => Some (c :: r)
      | _, _ => None
      end
  | _ :: _, [] => None
  end.

(* no copy step can fail, whatever the writers did in between *)
Lemma bk_copy_all_gen P (s0 : st) m0 :
  Inv P s0 -> s_mem s0 = Some m0 ->
  forall pl ds, (forall p, In p pl -> In p (backup_plan m0)) ->
    Forall (grown m0 (s_disk s0)) ds -> length ds = length pl ->
    exists copies, copy_all pl ds = Some copies /\ Forall2 (bk_copied m0 (s_disk s0)) pl copies.
Proof.
  intros HI Em. induction pl as [|p pl IH]; intros ds Hpl Hds Hlen.
  - exists []. split; [reflexivity|constructor].
  - destruct ds as [|d ds]; [discriminate|]. inversion Hds as [|? ? Hd Hds']; subst.
    cbn [length] in Hlen. injection Hlen as Hlen.
    destruct (IH ds (fun q Hq => Hpl q (or_intror Hq)) Hds' Hlen) as (r & Er & HF).
    destruct (copy_seg_snapshot P s0 m0 d p HI Em Hd (Hpl p (or_introl eq_refl))) as (c & _ & Ec & _).
    exists (c :: r). cbn [copy_all]. rewrite Ec, Er. split; [reflexivity|].
    constructor; [exists d; split; assumption|exact HF].
Qed.

Theorem C12_copy_all P seed (s0 : st) m0 (ds : list disk) :
  params_ok P -> Inv P s0 -> s_mem s0 = Some m0 ->
  Forall (grown m0 (s_disk s0)) ds -> length ds = length (backup_plan m0) ->
  exists copies, copy_all (backup_plan m0) ds = Some copies /\
    let b : disk := backup_disk copies in
    DiskOK b /\ bac_ok b /\ d_lock b = true /\ olog b = olog (s_disk s0) /\
    exists s', db_open flat_ops P seed {| s_mem := None; s_disk := b; s_trace := [] |} = (s', OOpened true) /\
      Inv P s' /\ s_mem s' <> None /\
      (forall k, sget (abs (s_disk s')) k = sget (abs (s_disk s0)) k) /\
      olog (s_disk s') = olog (s_disk s0).
Proof.
  intros HP HI Em Hds Hlen.
  destruct (bk_copy_all_gen P s0 m0 HI Em (backup_plan m0) ds (fun p Hp => Hp) Hds Hlen) as (copies & Ec & HF).
  exists copies. split; [exact Ec|]. apply (C12_backup_is_snapshot P seed s0 m0 copies HP HI Em). exact HF.
Qed.

(* ---- db_backup: all copies from the snapshot disk itself ---- *)
Definition bk_go (d : disk) : list bk_entry -> option (list dseg) :=
  fix go (l : list bk_entry) : option (list dseg) :=
    match l with
    | [] => Some []
    | p :: l' => match copy_seg d p, go l' with
                 | Some c, Some r => Some (c :: r)
                 | _, _ => None
                 end
    end.

Lemma db_backup_eq (s : st) :
  db_backup s = match s_mem s with
                | None => None
                | Some m => option_map backup_disk (bk_go (s_disk s) (backup_plan m))
                end.
Proof. reflexivity. Qed.

Lemma bk_go_copy_all (d : disk) pl : bk_go d pl = copy_all pl (repeat d (length pl)).
Proof.
  induction pl as [|p pl IH]; [reflexivity|]. cbn [length repeat copy_all]. rewrite <- IH. reflexivity.
Qed.

Theorem backup_quiescent P seed (s0 : st) m0 :
  params_ok P -> Inv P s0 -> s_mem s0 = Some m0 ->
  exists copies,
    db_backup s0 = Some (backup_disk copies) /\
    Forall2 (fun p c => copy_seg (s_disk s0) p = Some c) (backup_plan m0) copies /\
    let b : disk := backup_disk copies in
    DiskOK b /\ bac_ok b /\ d_lock b = true /\ olog b = olog (s_disk s0) /\
    exists s', db_open flat_ops P seed {| s_mem := None; s_disk := b; s_trace := [] |} = (s', OOpened true) /\
      Inv P s' /\ s_mem s' <> None /\
      (forall k, sget (abs (s_disk s')) k = sget (abs (s_disk s0)) k) /\
      olog (s_disk s') = olog (s_disk s0).
Proof.
  intros HP HI Em. pose proof (grown_refl P s0 m0 HI Em) as Hg.
  set (ds := repeat (s_disk s0) (length (backup_plan m0))).
  assert (Hds : Forall (grown m0 (s_disk s0)) ds).
  { apply Forall_forall. intros d Hd. apply repeat_spec in Hd. subst d. exact Hg. }
  assert (Hlen : length ds = length (backup_plan m0)) by apply repeat_length.
  destruct (C12_copy_all P seed s0 m0 ds HP HI Em Hds Hlen) as (copies & Ec & H).
  exists copies. split; [|split; [|exact H]].
  - rewrite db_backup_eq, Em, bk_go_copy_all. unfold ds in Ec. rewrite Ec. reflexivity.
  - clear H. unfold ds in Ec. clear ds Hds Hlen. revert copies Ec.
    induction (backup_plan m0) as [|p pl IH]; intros copies Ec.
    + cbn [copy_all] in Ec. injection Ec as <-. constructor.
    + cbn [length repeat copy_all] in Ec.
      destruct (copy_seg (s_disk s0) p) as [c|] eqn:E1; [|discriminate].
      destruct (copy_all pl (repeat (s_disk s0) (length pl))) as [r|] eqn:E2; [|discriminate].
      injection Ec as <-. constructor; [exact E1|apply IH; reflexivity].
Qed.

(* ================================================================================================ *)
(* I. Schedules: writer operations of the source interleaved with the copy steps of the backup        *)

(* source state, planned entries not copied yet, copies made so far *)
Definition bstate := (st * list bk_entry * list dseg)%type.

Inductive bstep (P : params) : bstate -> bstate -> Prop :=
| bs_write s s' todo done : wstep P s s' -> bstep P (s, todo, done) (s', todo, done)
| bs_copy s p todo done c : copy_seg (s_disk s) p = Some c -> bstep P (s, p :: todo, done) (s, todo, done ++ [c]).

Inductive bsteps (P : params) (a : bstate) : bstate -> Prop :=
| bss_refl : bsteps P a a
| bss_step b c : bsteps P a b -> bstep P b c -> bsteps P a c.

Definition bk_binv (P : params) (s0 : st) (m0 : mem) (b : bstate) : Prop :=
  wsteps P s0 (fst (fst b)) /\
  exists pre, backup_plan m0 = pre ++ snd (fst b) /\ Forall2 (bk_copied m0 (s_disk s0)) pre (snd b).

Lemma bk_binv_steps P (s0 : st) m0 b :
  params_ok P -> Inv P s0 -> s_mem s0 = Some m0 ->
  bsteps P (s0, backup_plan m0, []) b -> bk_binv P s0 m0 b.
Proof.
  intros HP HI Em H. induction H as [|b c _ IH Hst].
  - split; [constructor|]. exists []. split; [reflexivity|constructor].
  - destruct IH as (Hw & pre & Epl & HF). destruct Hst as [s s' todo done Hws|s p todo done c Ec];
      cbn [fst snd] in *.
    + split; [econstructor; eassumption|]. exists pre. split; assumption.
    + split; [exact Hw|]. exists (pre ++ [p]). split; [rewrite <- app_assoc; exact Epl|].
      apply Forall2_app; [exact HF|]. constructor; [|constructor].
      exists (s_disk s). split; [|exact Ec]. eapply wsteps_grown; eassumption.
Qed.

(* the next copy step is always enabled *)
Theorem bk_copy_enabled P (s0 s : st) m0 p todo done :
  params_ok P -> Inv P s0 -> s_mem s0 = Some m0 ->
  bsteps P (s0, backup_plan m0, []) (s, p :: todo, done) ->
  exists c, copy_seg (s_disk s) p = Some c.
Proof.
  intros HP HI Em H. destruct (bk_binv_steps P s0 m0 _ HP HI Em H) as (Hw & pre & Epl & _). cbn [fst snd] in *.
  destruct (copy_seg_snapshot P s0 m0 (s_disk s) p HI Em) as (c & _ & Ec & _).
  - eapply wsteps_grown; eassumption.
  - rewrite Epl. apply in_or_app. right. left. reflexivity.
  - exists c. exact Ec.
Qed.

(* C12: for EVERY schedule that interleaves the copy steps with Put / Delete / Sync of the source *)
Theorem C12_schedule P seed (s0 s : st) m0 copies :
  params_ok P -> Inv P s0 -> s_mem s0 = Some m0 ->
  bsteps P (s0, backup_plan m0, []) (s, [], copies) ->
  let b : disk := backup_disk copies in
  DiskOK b /\ bac_ok b /\ d_lock b = true /\ olog b = olog (s_disk s0) /\
  (exists s', db_open flat_ops P seed {| s_mem := None; s_disk := b; s_trace := [] |} = (s', OOpened true) /\
     Inv P s' /\ s_mem s' <> None /\
     (forall k, sget (abs (s_disk s')) k = sget (abs (s_disk s0)) k) /\
     olog (s_disk s') = olog (s_disk s0)) /\
  (* the source: still a good open database, reached by the writers' steps alone *)
  wsteps P s0 s /\ Inv P s /\ s_mem s <> None.
Proof.
  intros HP HI Em H. destruct (bk_binv_steps P s0 m0 _ HP HI Em H) as (Hw & pre & Epl & HF). cbn [fst snd] in *.
  rewrite app_nil_r in Epl. subst pre.
  destruct (C12_backup_is_snapshot P seed s0 m0 copies HP HI Em HF) as (A1 & A2 & A3 & A4 & A5).
  destruct (wsteps_snap P s0 s m0 HP HI Em Hw) as (B1 & B2 & _).
  cbv zeta. auto 10.
Qed.

(* ---- the source is not affected ---- *)
(* (1) by construction: [backup_plan : mem -> list bk_entry], [copy_seg : disk -> bk_entry -> option dseg],
       [db_backup : st -> option disk] return no source state and never call [emit];
   (2) in a schedule, a copy step leaves the source state (memory, disk AND trace) as it is, so the
       source component of any schedule is a run of the writer operations alone. *)
Theorem backup_does_not_touch_source P (a b : bstate) :
  bstep P a b ->
  (fst (fst b) = fst (fst a) /\ exists p c, copy_seg (s_disk (fst (fst a))) p = Some c /\
                                             snd (fst a) = p :: snd (fst b) /\ snd b = snd a ++ [c]) \/
  (wstep P (fst (fst a)) (fst (fst b)) /\ snd (fst b) = snd (fst a) /\ snd b = snd a).
Proof.
  intros H. destruct H as [s s' todo done Hws|s p todo done c Ec]; cbn [fst snd].
  - right. auto.
  - left. split; [reflexivity|]. exists p, c. auto.
Qed.

Corollary bsteps_source P (a b : bstate) : bsteps P a b -> wsteps P (fst (fst a)) (fst (fst b)).
Proof.
  intros H. induction H as [|b c _ IH Hst]; [constructor|].
  destruct (backup_does_not_touch_source P b c Hst) as [(E & _)|(Hw & _)].
  - rewrite E. exact IH.
  - econstructor; eassumption.
Qed.

(* ================================================================================================ *)
(* J. Sensitivity witness: the captured size matters.
      [copy_seg_whole] copies a non-Full segment ENTIRELY (io.Copy instead of io.CopyN).  On the
      concrete run below -- snapshot after Put 1, then Put 3 into the same segment and Put 5 which
      rolls the log over -- the opened backup then contains key 3, written after the snapshot; the
      real [copy_seg] taken from the same late disk gives exactly the contents at the snapshot.       *)
Definition copy_seg_whole (d : disk) (p : bk_entry) : option dseg :=
  let '(id, seq, _) := p in option_map (set_fmeta GAbsent) (find (is_seg id seq) (d_segs d)).

Module BkEx.
Definition w_P : params :=
  {| p_maxseg := 540; p_minseg := 0; p_frag := fun _ _ => false; p_sync := true;
     p_grow := fun _ _ => false; p_hash := fun _ _ => 0 |}.
(* an empty directory with a lock file: opening it "recovers" an empty database *)
Definition w_d0 : disk := Eval vm_compute in set_lock disk0 true.
Definition w_closed (d : disk) : st := {| s_mem := None; s_disk := d; s_trace := [] |}.
Definition w_s1 : st := Eval vm_compute in fst (db_open flat_ops w_P 7 (w_closed w_d0)).
Definition w_s2 : st := Eval vm_compute in fst (db_put flat_ops w_P [1] [2] w_s1).        (* snapshot here *)
Definition w_s3 : st := Eval vm_compute in fst (db_put flat_ops w_P [3] [4] w_s2).        (* same segment *)
Definition w_s4 : st := Eval vm_compute in fst (db_put flat_ops w_P [5] [6; 7] w_s3).     (* new segment *)
Definition w_plan : list bk_entry :=
  Eval vm_compute in match s_mem w_s2 with Some m => backup_plan m | None => [] end.
Definition w_opt (o : option dseg) : list dseg := match o with Some c => [c] | None => [] end.
(* all copies are taken from the LAST disk *)
Definition w_good : list dseg := Eval vm_compute in flat_map (fun p => w_opt (copy_seg (s_disk w_s4) p)) w_plan.
Definition w_whole : list dseg := Eval vm_compute in flat_map (fun p => w_opt (copy_seg_whole (s_disk w_s4) p)) w_plan.
Definition w_open (copies : list dseg) : st := fst (db_open flat_ops w_P 9 (w_closed (backup_disk copies))).

Lemma w_params_ok : params_ok w_P. Proof. reflexivity. Qed.

Lemma w_bytes (l : bytes) : forallb (fun b => b <? 256) l = true -> Forall byte l.
Proof.
  intros H. apply Forall_forall. intros b Hb. rewrite forallb_forall in H. apply N.ltb_lt. apply H. exact Hb.
Qed.

Lemma w_rec_fits r : rec_fits_b r = true -> rec_fits r.
Proof.
  unfold rec_fits_b, rec_fits. rewrite !andb_true_iff, !N.leb_le. intros [[[H1 H2] H3] H4].
  split; [apply w_bytes; exact H1|]. split; [apply w_bytes; exact H2|]. split; assumption.
Qed.

Lemma w_room (s : st) : match s_mem s with Some m => room_b m | None => false end = true ->
  exists m, s_mem s = Some m /\ room m.
Proof.
  destruct (s_mem s) as [m|]; [|discriminate]. intros H. exists m. split; [reflexivity|].
  intros g Hg. unfold room_b in H. rewrite forallb_forall in H. apply N.ltb_lt. apply H. exact Hg.
Qed.

Lemma w_inv1 : Inv w_P w_s1.
Proof.
  assert (Hok : DiskOK w_d0) by (split; [constructor|split; constructor]).
  assert (Hbac : bac_ok w_d0) by constructor.
  pose proof (open_recover_ok w_P 7 w_d0 w_params_ok Hok Hbac eq_refl) as H.
  assert (E : db_open flat_ops w_P 7 {| s_mem := None; s_disk := w_d0; s_trace := [] |} = (w_s1, OOpened true))
    by (vm_compute; reflexivity).
  rewrite E in H. apply H.
Qed.

Lemma w_inv2 : Inv w_P w_s2.
Proof.
  assert (E : db_put flat_ops w_P [1] [2] w_s1 = (w_s2, OOk)) by (vm_compute; reflexivity).
  pose proof (put_ok w_P w_s1 [1] [2] w_params_ok w_inv1) as H. rewrite E in H. apply H.
  - apply w_room. vm_compute. reflexivity.
  - apply w_bytes. reflexivity.
  - apply w_bytes. reflexivity.
  - vm_compute. discriminate.
  - vm_compute. discriminate.
Qed.

Lemma w_step23 : wstep w_P w_s2 w_s3.
Proof.
  assert (E : w_s3 = fst (db_put flat_ops w_P [3] [4] w_s2)) by (vm_compute; reflexivity).
  rewrite E. constructor; [apply w_bytes; reflexivity|apply w_bytes; reflexivity|].
  apply w_room. vm_compute. reflexivity.
Qed.

Lemma w_step34 : wstep w_P w_s3 w_s4.
Proof.
  assert (E : w_s4 = fst (db_put flat_ops w_P [5] [6; 7] w_s3)) by (vm_compute; reflexivity).
  rewrite E. constructor; [apply w_bytes; reflexivity|apply w_bytes; reflexivity|].
  apply w_room. vm_compute. reflexivity.
Qed.

Lemma w_steps : wsteps w_P w_s2 w_s4.
Proof. eapply wss_step; [eapply wss_step; [apply wss_refl|apply w_step23]|apply w_step34]. Qed.

(* the run is of the kind the theorems quantify over: the log did roll over after the snapshot *)
Example bk_run_shape :
  w_plan = [(0, 1, Some 524)] /\
  map (fun f => (f_id f, f_seq f, length (f_recs f))) (d_segs (s_disk w_s4)) = [(0, 1, 2%nat); (1, 2, 1%nat)].
Proof. vm_compute. split; reflexivity. Qed.

(* with the captured size: exactly the snapshot (also an instance of C12_schedule, computed) *)
Example bk_captured_size_ok :
  exists m0, s_mem w_s2 = Some m0 /\ backup_plan m0 = w_plan /\
    map (copy_seg (s_disk w_s4)) w_plan = map Some w_good /\
    abs (s_disk (w_open w_good)) = abs (s_disk w_s2) /\
    abs (s_disk w_s2) = [([1], [2])] /\
    db_get flat_ops w_P [3] (w_open w_good) = OVal None.
Proof. eexists. split; [reflexivity|]. vm_compute. repeat split; reflexivity. Qed.

(* ignoring the captured size: the backup contains a Put issued after the snapshot *)
Example bk_whole_differs :
  exists m0, s_mem w_s2 = Some m0 /\ backup_plan m0 = w_plan /\ wsteps w_P w_s2 w_s4 /\
    map (copy_seg_whole (s_disk w_s4)) w_plan = map Some w_whole /\
    DiskOK (backup_disk w_whole) /\
    sget (abs (s_disk (w_open w_whole))) [3] = Some [4] /\
    sget (abs (s_disk w_s2)) [3] = None /\
    db_get flat_ops w_P [3] (w_open w_whole) = OVal (Some [4]) /\
    db_get flat_ops w_P [3] w_s2 = OVal None /\
    (* and it is not the contents at any later instant either: Put 5 is missing *)
    sget (abs (s_disk (w_open w_whole))) [5] = None /\ sget (abs (s_disk w_s4)) [5] = Some [6; 7].
Proof.
  eexists. split; [reflexivity|]. split; [vm_compute; reflexivity|]. split; [exact w_steps|].
  split; [vm_compute; reflexivity|]. split.
  - unfold DiskOK, backup_disk, w_whole. cbn [d_segs map f_id f_seq]. split; [|split].
    + constructor; [|constructor]. unfold dseg_ok. cbn [f_recs f_tail f_hdr].
      split; [constructor; [|constructor; [|constructor]]; apply w_rec_fits; reflexivity|].
      split; [apply tail_stuck_nil|]. split; [constructor|]. split; [discriminate|vm_compute; reflexivity].
    + constructor; [intros []|constructor].
    + constructor; [intros []|constructor].
  - vm_compute. repeat split; reflexivity.
Qed.

(* the theorem applied to the same run *)
Example bk_schedule_instance :
  exists m0, s_mem w_s2 = Some m0 /\
    bsteps w_P (w_s2, backup_plan m0, []) (w_s4, [], w_good) /\
    forall k, sget (abs (s_disk (w_open w_good))) k = sget (abs (s_disk w_s2)) k.
Proof.
  eexists. split; [reflexivity|].
  match goal with |- bsteps _ (_, ?pl, _) _ /\ _ => assert (Epl : pl = w_plan) by (vm_compute; reflexivity) end.
  assert (Hb : bsteps w_P (w_s2, w_plan, []) (w_s4, [], w_good)).
  { eapply bss_step; [eapply bss_step; [eapply bss_step; [apply bss_refl|]|]|].
    - apply bs_write. apply w_step23.
    - apply bs_write. apply w_step34.
    - apply (bs_copy w_P w_s4 (0, 1, Some 524) [] []). vm_compute. reflexivity. }
  rewrite Epl. split; [exact Hb|]. rewrite <- Epl in Hb.
  destruct (C12_schedule w_P 9 w_s2 w_s4 _ w_good w_params_ok w_inv2 eq_refl Hb) as (_ & _ & _ & _ & (s' & E & _ & _ & A & _) & _).
  unfold w_open, w_closed. rewrite E. exact A.
Qed.
End BkEx.

(* ================================================================================================ *)
Print Assumptions bk_trunc_recs_prefix.
Print Assumptions grown_refl.
Print Assumptions put_snap_path.
Print Assumptions delete_snap_path.
Print Assumptions sync_snap_path.
Print Assumptions put_snap.
Print Assumptions put_grown.
Print Assumptions delete_grown.
Print Assumptions sync_grown.
Print Assumptions delete_snap.
Print Assumptions sync_snap.
Print Assumptions wsteps_snap.
Print Assumptions mid_disk_grown.
Print Assumptions copy_seg_snapshot.
Print Assumptions C12_backup_is_snapshot.
Print Assumptions C12_event_granular.
Print Assumptions C12_copy_all.
Print Assumptions C12_schedule.
Print Assumptions bk_copy_enabled.
Print Assumptions backup_quiescent.
Print Assumptions backup_does_not_touch_source.
Print Assumptions bsteps_source.
Print Assumptions BkEx.bk_captured_size_ok.
Print Assumptions BkEx.bk_whole_differs.
Print Assumptions BkEx.bk_schedule_instance.
