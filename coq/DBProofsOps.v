(* DBProofsOps.v -- the operation theorems of the database model instantiated with the flat
   reference index: Put, Delete, Get, GetAppend, Has, Count, Items, Sync.  No axioms
   (Print Assumptions at the end of the file: all "Closed under the global context").

   Theorems (P : params, s : st = @DB.st flat):
     put_ok, put_rejected, delete_ok, get_ok, get_append_ok, has_ok, count_ok, items_ok, sync_ok
       -- as specified; [params_ok P] is a hypothesis of put_ok / delete_ok but is not used by the
          proofs (the side condition [room] already bounds every offset);
     put_ok_ex, delete_ok_ex
       -- the same in "exists s', db_put ... = (s', OOk) /\ ..." form, plus the shape of the trace
          (pre ++ [EAppend ..; EIndex ..] ++ post, with [wr_pre_shape pre id seq] and post = [] or
          one ESync), the disk as a fold of the events, and [olog] before / after the append:
          what the crash proofs need.
   Helper lemmas: Inv_open, Inv_intro, Inv_same, idx_agrees_same_log, idx_keys, read_slots_spec,
     do_sync_spec, finish_spec, olog_keep, olog_new, put_index, fl_del_hit, del_absent, del_found,
     del_index. *)
From Coq Require Import ZArith Lia ZifyN ZifyNat ZifyBool Permutation.
From Pogreb Require Import Base BaseLemmas Crc Bytes Record RecordProofs Flat Spec DB DBInv DBLemmas.
Ltac Zify.zify_post_hook ::= Z.div_mod_to_equations.

Local Notation disk := (@DB.disk flat).
Local Notation st := (@DB.st flat).
Local Notation mem := (@DB.mem flat).
Local Notation fsev := (@DB.fsev flat).

(* ---- the invariant, taken apart and put together ---- *)
Lemma Inv_open P (s : st) m :
  s_mem s = Some m -> Inv P s ->
  InvLog m (s_disk s) /\ idx_agrees P (m_seed m) (m_idx m) (s_disk s) /\
  d_lock (s_disk s) = true /\ d_index (s_disk s) = Some (m_idx m) /\ d_overflow (s_disk s) = true.
Proof. unfold Inv. intros ->. unfold InvLog. rewrite <- index_agrees_eq. tauto. Qed.

Lemma Inv_intro P (s : st) m :
  s_mem s = Some m -> InvLog m (s_disk s) -> idx_agrees P (m_seed m) (m_idx m) (s_disk s) ->
  d_lock (s_disk s) = true -> d_index (s_disk s) = Some (m_idx m) -> d_overflow (s_disk s) = true ->
  Inv P s.
Proof. unfold Inv. intros ->. unfold InvLog. rewrite <- index_agrees_eq. tauto. Qed.

Lemma idx_agrees_same_log P seed idx (d d' : disk) :
  same_log d d' -> idx_agrees P seed idx d -> idx_agrees P seed idx d'.
Proof.
  intros H (Hok & Hnd & Hptr). split; [|split].
  - apply Forall_forall. intros sl Hsl. fa Hok sl Hsl. eapply same_log_slot_ok; eassumption.
  - rewrite (map_ext _ (slot_key d)); [exact Hnd|]. intros sl. apply same_log_slot_key. exact H.
  - intros k. rewrite (same_log_ptr_of _ _ H), Hptr. f_equal. apply find_ext_in.
    intros sl _. unfold khit. rewrite (same_log_slot_key _ _ sl H). reflexivity.
Qed.

(* ================================================================================================ *)
(* reads                                                                                              *)
Theorem get_ok P (s : st) k :
  Inv P s -> s_mem s <> None -> db_get flat_ops P k s = OVal (sget (abs (s_disk s)) k).
Proof.
  intros HI Hm. destruct (s_mem s) as [m|] eqn:Em; [|congruence].
  destruct (Inv_open P s m Em HI) as (HL & Hidx & _). assert (Hd : DiskOK (s_disk s)) by apply HL.
  unfold db_get. rewrite Em. cbn [ix_get flat_ops].
  rewrite (idx_get_find P (m_seed m) (m_idx m) (s_disk s) k Hd (proj1 Hidx)).
  pose proof (idx_lookup P _ _ _ k Hd Hidx) as Hlk.
  destruct (find (khit (slot_key (s_disk s)) k) (m_idx m)) as [sl|].
  - destruct Hlk as (_ & v & Er & Eg). rewrite Er, Eg. reflexivity.
  - rewrite Hlk. reflexivity.
Qed.

Theorem get_append_ok P (s : st) k buf :
  Inv P s -> s_mem s <> None ->
  db_get_append flat_ops P k buf s = OVal (option_map (fun v => buf ++ v) (sget (abs (s_disk s)) k)).
Proof.
  intros HI Hm. unfold db_get_append. rewrite (get_ok P s k HI Hm).
  destruct (sget (abs (s_disk s)) k); reflexivity.
Qed.

Theorem has_ok P (s : st) k :
  Inv P s -> s_mem s <> None -> db_has flat_ops P k s = OBool (shas (abs (s_disk s)) k).
Proof.
  intros HI Hm. destruct (s_mem s) as [m|] eqn:Em; [|congruence].
  destruct (Inv_open P s m Em HI) as (HL & Hidx & _). assert (Hd : DiskOK (s_disk s)) by apply HL.
  unfold db_has. rewrite Em. cbn [ix_get flat_ops].
  rewrite (idx_get_find P (m_seed m) (m_idx m) (s_disk s) k Hd (proj1 Hidx)).
  pose proof (idx_lookup P _ _ _ k Hd Hidx) as Hlk. rewrite shas_sget.
  destruct (find (khit (slot_key (s_disk s)) k) (m_idx m)) as [sl|].
  - destruct Hlk as (_ & v & _ & Eg). rewrite Eg. reflexivity.
  - rewrite Hlk. reflexivity.
Qed.

(* the keys of the index are the keys of the contents *)
Lemma idx_keys P seed idx (d : disk) k :
  DiskOK d -> idx_agrees P seed idx d -> (In k (map (slot_key d) idx) <-> In k (map fst (abs d))).
Proof.
  intros Hd Hidx. pose proof (idx_lookup P seed idx d k Hd Hidx) as Hlk.
  pose proof Hidx as (_ & Hnd & _). split; intros HIn.
  - apply in_map_iff in HIn. destruct HIn as (sl & <- & Hsl).
    rewrite (find_khit_In _ _ sl Hnd Hsl) in Hlk. destruct Hlk as (_ & v & _ & Eg).
    apply (sget_In _ _ _ (abs_NoDup d)) in Eg. apply (in_map fst) in Eg. exact Eg.
  - destruct (find (khit (slot_key d) k) idx) as [sl|] eqn:E.
    + apply find_khit_Some in E. destruct E as [Hsl <-]. apply in_map. exact Hsl.
    + exfalso. apply sget_None in Hlk. exact (Hlk HIn).
Qed.

Theorem count_ok P (s : st) :
  Inv P s -> s_mem s <> None -> db_count flat_ops s = ONum (scount (abs (s_disk s))).
Proof.
  intros HI Hm. destruct (s_mem s) as [m|] eqn:Em; [|congruence].
  destruct (Inv_open P s m Em HI) as (HL & Hidx & _). assert (Hd : DiskOK (s_disk s)) by apply HL.
  unfold db_count. rewrite Em. cbn [ix_count flat_ops]. unfold scount. f_equal.
  assert (Hp : Permutation (map (slot_key (s_disk s)) (m_idx m)) (map fst (abs (s_disk s)))).
  { apply NoDup_Permutation; [apply Hidx|apply abs_NoDup|]. intros k. apply (idx_keys P _ _ _ k Hd Hidx). }
  apply Permutation_length in Hp. rewrite !map_length in Hp. rewrite !nlen_length, Hp. reflexivity.
Qed.

Lemma read_slots_spec P seed idx (d : disk) :
  Forall (slot_ok P d seed) idx ->
  exists a, read_slots d idx = Some a /\ map fst a = map (slot_key d) idx /\
            (forall kv, In kv a <-> exists sl, In sl idx /\ read_kv d sl = Some kv).
Proof.
  induction idx as [|sl idx IH]; intros Hok.
  - exists []. split; [reflexivity|]. split; [reflexivity|]. intros kv. split; [intros []|intros (? & [] & _)].
  - inversion Hok as [|? ? Hsl Hok']; subst. destruct (IH Hok') as (a & Ea & Em & Ha).
    destruct (slot_ok_read P d seed sl Hsl) as (r & _ & _ & _ & _ & _ & Er & Ek).
    exists ((rk r, rv r) :: a). cbn [read_slots]. rewrite Er, Ea. split; [reflexivity|].
    split; [cbn [map fst]; congruence|]. intros kv. cbn [In]. rewrite Ha. split.
    + intros [<-|(sl' & Hsl' & E)]; [exists sl; split; [left; reflexivity|exact Er]|exists sl'; split; [right; exact Hsl'|exact E]].
    + intros (sl' & [<-|Hsl'] & E); [left; congruence|right; exists sl'; split; assumption].
Qed.

Theorem items_ok P (s : st) :
  Inv P s -> s_mem s <> None -> exists l, db_items flat_ops s = OItems l /\ Permutation l (abs (s_disk s)).
Proof.
  intros HI Hm. destruct (s_mem s) as [m|] eqn:Em; [|congruence].
  destruct (Inv_open P s m Em HI) as (HL & Hidx & _). assert (Hd : DiskOK (s_disk s)) by apply HL.
  pose proof Hidx as (Hok & Hnd & _).
  destruct (read_slots_spec P _ _ _ Hok) as (a & Ea & Emap & Ha).
  exists (a ++ []). split.
  - unfold db_items. rewrite Em. cbn [ix_nbuckets flat_ops]. change (N.to_nat 1) with 1%nat. cbn [nseq].
    unfold fetch_bucket. rewrite Em. cbn [ix_bucket flat_ops]. change (0 =? 0) with true. cbn iota.
    rewrite Ea. reflexivity.
  - rewrite app_nil_r. apply NoDup_Permutation.
    + apply (NoDup_map_inv fst). rewrite Emap. exact Hnd.
    + apply (NoDup_map_inv fst). apply abs_NoDup.
    + intros [k v]. pose proof (idx_lookup P _ _ _ k Hd Hidx) as Hlk. rewrite Ha. split.
      * intros (sl & Hsl & Er).
        assert (Ek : slot_key (s_disk s) sl = k) by (unfold slot_key; rewrite Er; reflexivity).
        rewrite <- Ek, (find_khit_In _ _ sl Hnd Hsl), Ek in Hlk. destruct Hlk as (_ & v' & Er' & Eg).
        apply (sget_In _ _ _ (abs_NoDup _)). congruence.
      * intros HIn. apply (sget_In _ _ _ (abs_NoDup _)) in HIn.
        destruct (find (khit (slot_key (s_disk s)) k) (m_idx m)) as [sl|]; [|congruence].
        destruct Hlk as (Hsl & v' & Er' & Eg). exists sl. split; [exact Hsl|congruence].
Qed.

(* ================================================================================================ *)
(* Sync                                                                                               *)
Lemma do_sync_spec (s : st) (m : mem) :
  s_mem (do_sync flat_ops s m) = s_mem s /\ s_disk (do_sync flat_ops s m) = s_disk s /\
  (s_trace (do_sync flat_ops s m) = s_trace s \/
   exists id seq, s_trace (do_sync flat_ops s m) = s_trace s ++ [ESync (FSeg id seq)]).
Proof.
  unfold do_sync. destruct (cur_seg m) as [g|].
  - split; [reflexivity|]. split; [reflexivity|]. right. eexists _, _. reflexivity.
  - split; [reflexivity|]. split; [reflexivity|]. left. reflexivity.
Qed.

Lemma Inv_same (P : params) (s s' : st) : s_mem s' = s_mem s -> s_disk s' = s_disk s -> Inv P s -> Inv P s'.
Proof. unfold Inv. intros -> ->. exact (fun H => H). Qed.

Theorem sync_ok P (s : st) :
  Inv P s -> s_mem s <> None ->
  let '(s', o) := db_sync flat_ops s in o = OOk /\ Inv P s' /\ s_disk s' = s_disk s /\ s_mem s' = s_mem s.
Proof.
  intros HI Hm. unfold db_sync. destruct (s_mem s) as [m|] eqn:Em; [|congruence].
  destruct (do_sync_spec s m) as (E1 & E2 & _).
  split; [reflexivity|]. split; [|split; [exact E2|congruence]].
  apply (Inv_same P s); [congruence|exact E2|exact HI].
Qed.

(* ================================================================================================ *)
(* Put                                                                                                *)
Lemma finish_spec P (s : st) (m : mem) :
  exists s', finish flat_ops P s m = (s', OOk) /\ s_mem s' = Some m /\ s_disk s' = s_disk s /\
    (s_trace s' = s_trace s \/ exists id seq, s_trace s' = s_trace s ++ [ESync (FSeg id seq)]).
Proof.
  unfold finish. eexists. split; [reflexivity|]. split; [reflexivity|].
  cbn [s_disk s_trace with_mem]. destruct (p_sync P).
  - destruct (do_sync_spec s m) as (_ & E2 & E3). split; assumption.
  - split; [reflexivity|left; reflexivity].
Qed.

Lemma olog_keep (d d1 : disk) e :
  DiskOK d -> DiskOK d1 -> olog d1 = olog d ++ [e] ->
  forall id off r, rec_of d id off = Some r -> rec_of d1 id off = Some r.
Proof.
  intros Hd Hd1 Eo id off r H. apply rec_of_olog; [apply Hd1|]. rewrite Eo.
  apply in_or_app. left. apply rec_of_olog; [apply Hd|exact H].
Qed.

Lemma olog_new (d d1 : disk) id off r :
  DiskOK d1 -> olog d1 = olog d ++ [(id, off, r)] -> rec_of d1 id off = Some r.
Proof.
  intros Hd1 Eo. apply rec_of_olog; [apply Hd1|]. rewrite Eo. apply in_or_app. right. left. reflexivity.
Qed.

(* the index after a put *)
Lemma put_index P seed idx (d d1 : disk) id off k v grow i2 old :
  DiskOK d -> DiskOK d1 -> idx_agrees P seed idx d ->
  olog d1 = olog d ++ [(id, off, mkput k v)] ->
  nlen k <= max_key_len -> nlen v <= max_val_len ->
  fl_put grow idx {| sl_h := p_hash P seed k; sl_seg := id; sl_ks := u16 (nlen k);
                     sl_vs := u32 (nlen v); sl_off := off |} (matchf d1 k) = (i2, old) ->
  idx_agrees P seed i2 d1.
Proof.
  intros Hd Hd1 (Hok & Hnd & Hptr) Eo Hk Hv Eput.
  pose proof (olog_keep d d1 _ Hd Hd1 Eo) as Hkeep.
  pose proof (olog_new d d1 _ _ _ Hd1 Eo) as Hnew.
  set (sl := {| sl_h := p_hash P seed k; sl_seg := id; sl_ks := u16 (nlen k);
                sl_vs := u32 (nlen v); sl_off := off |}) in *.
  assert (Hsl : slot_ok P d1 seed sl).
  { apply slot_ok_rec_of. exists (mkput k v). cbn [sl sl_seg sl_off sl_ks sl_vs sl_h mkput rk rv rdel].
    consts. rewrite u16_small, u32_small by lia. repeat split; auto. }
  destruct (idx_keys_keep P d d1 seed idx Hkeep Hok) as (Hok1 & Hmap & Hfind).
  set (kf := slot_key d1) in *.
  assert (Hkf : kf sl = k).
  { destruct (slot_ok_read P d1 seed sl Hsl) as (r & Er & _ & _ & _ & _ & _ & Ek).
    unfold kf. rewrite Ek. cbn [sl sl_seg sl_off] in Er. rewrite Hnew in Er. inversion Er. reflexivity. }
  assert (Hptr1 : forall k', ptr_of d1 k' =
            if key_eqb k' k then Some (id, off)
            else option_map (fun sl => (sl_seg sl, sl_off sl)) (find (khit kf k') idx)).
  { intros k'. rewrite (ptr_of_snoc d d1 _ Eo), upd_ptr_eq. cbn [fst snd mkput rk rdel].
    rewrite Hptr, Hfind. reflexivity. }
  unfold fl_put in Eput. cbn [sl sl_h] in Eput.
  rewrite (fl_replace_ext_in _ (khit kf k) sl idx) in Eput.
  2:{ intros x Hx. fa Hok1 x Hx. apply hit_key; assumption. }
  destruct (fl_replace (khit kf k) sl idx) as [[l' o]|] eqn:Er; inversion Eput; subst i2 old.
  - destruct (fl_replace_Some kf k sl idx l' o Hkf Er) as (A1 & A2 & A3 & A4 & A5).
    split; [|split].
    + apply Forall_forall. intros x Hx. destruct (A4 x Hx) as [->|Hx']; [exact Hsl|].
      exact (proj1 (Forall_forall _ _) Hok1 x Hx').
    + fold kf. rewrite A3, Hmap. exact Hnd.
    + intros k'. fold kf. rewrite Hptr1, A5. destruct (key_eqb k' k); reflexivity.
  - pose proof (fl_replace_None _ _ _ Er) as Hno.
    split; [|split].
    + apply Forall_app. split; [exact Hok1|]. constructor; [exact Hsl|constructor].
    + fold kf. rewrite map_app. cbn [map]. apply NoDup_snoc; [rewrite Hmap; exact Hnd|].
      rewrite Hkf. intros HIn. apply in_map_iff in HIn. destruct HIn as (x & Ex & Hx).
      pose proof (Hno x Hx) as Hf. unfold khit in Hf. rewrite Ex, key_eqb_refl in Hf. discriminate.
    + intros k'. fold kf. rewrite Hptr1, (find_khit_snoc kf k sl idx k' Hno Hkf).
      destruct (key_eqb k' k); reflexivity.
Qed.

(* Put, with everything the crash proofs need about the events *)
Theorem put_ok_ex P (s : st) k v :
  params_ok P -> Inv P s -> (exists m, s_mem s = Some m /\ room m) ->
  Forall byte k -> Forall byte v -> nlen k <= max_key_len -> nlen v <= max_val_len ->
  exists s', db_put flat_ops P k v s = (s', OOk) /\ Inv P s' /\ s_mem s' <> None /\
    (forall k', sget (abs (s_disk s')) k' = if key_eqb k' k then Some v else sget (abs (s_disk s)) k') /\
    exists id seq off pre i2 post,
      s_trace s' = s_trace s ++ pre ++ [EAppend id seq off (mkput k v); EIndex i2] ++ post /\
      wr_pre_shape pre id seq /\ (post = [] \/ exists i q, post = [ESync (FSeg i q)]) /\
      olog (fold_left (apply_ev flat_ops) pre (s_disk s)) = olog (s_disk s) /\
      olog (s_disk s') = olog (s_disk s) ++ [(id, off, mkput k v)] /\
      s_disk s' = fold_left (apply_ev flat_ops) (pre ++ [EAppend id seq off (mkput k v); EIndex i2]) (s_disk s).
Proof.
  intros HP HI (m & Em & Hroom) Hbk Hbv Hk Hv.
  destruct (Inv_open P s m Em HI) as (HL & Hidx & Hlock & Hindex & Hovf).
  assert (Hd : DiskOK (s_disk s)) by apply HL.
  assert (Hr : rec_fits (mkput k v)) by (apply rec_fits_mkput; assumption).
  destruct (write_record_spec P (mkput k v) s m HP HL Hroom Hr)
    as (s1 & m1 & id & off & Ew & HL1 & Eo & Hoff & _ & _ & _ & _ & Ei & Esd & Em1 & Hrest & seq & pre & Et & Ed & Eop & _ & Hshape).
  assert (Hd1 : DiskOK (s_disk s1)) by apply HL1.
  unfold db_put. rewrite Em.
  rewrite (proj2 (N.ltb_ge _ _) Hk), (proj2 (N.ltb_ge _ _) Hv), Ew.
  cbn [ix_put flat_ops].
  destruct (fl_put (p_grow P) (m_idx m1) _ (matchf (s_disk s1) k)) as [i2 old] eqn:Eput.
  rewrite Ei in Eput.
  pose proof (put_index P (m_seed m) (m_idx m) (s_disk s) (s_disk s1) id off k v _ i2 old Hd Hd1 Hidx Eo Hk Hv Eput) as Hidx2.
  set (m2 := match old with Some o => track_del o m1 | None => m1 end).
  assert (Hsim : mem_sim m1 m2) by (unfold m2; destruct old; [apply mem_sim_track_del|apply mem_sim_refl]).
  assert (Eseed2 : m_seed m2 = m_seed m) by (unfold m2; destruct old; exact Esd).
  destruct (finish_spec P (emit flat_ops (EIndex i2) s1) (set_idx m2 i2)) as (s' & Ef & Ems' & Eds' & Ets').
  rewrite Ef. exists s'. split; [reflexivity|].
  rewrite s_disk_emit in Eds'.
  assert (Hsl : same_log (s_disk s1) (s_disk s')) by (rewrite Eds'; apply same_log_segs; reflexivity).
  destruct Hrest as (_ & _ & Ro & _ & _ & Rl & _).
  split; [|split; [congruence|split]].
  - apply (Inv_intro P s' (set_idx m2 i2) Ems').
    + apply (InvLog_same_log _ _ _ Hsl). apply set_idx_InvLog. apply (mem_sim_InvLog _ _ _ Hsim HL1).
    + cbn [m_seed m_idx set_idx]. rewrite Eseed2. apply (idx_agrees_same_log _ _ _ _ _ Hsl Hidx2).
    + rewrite Eds'. cbn [apply_ev d_lock set_index]. congruence.
    + rewrite Eds'. reflexivity.
    + rewrite Eds'. cbn [apply_ev d_overflow set_index]. congruence.
  - intros k'. rewrite (same_log_abs _ _ Hsl), (abs_snoc _ _ _ Eo), sget_apply_rec. reflexivity.
  - exists id, seq, off, pre, i2.
    assert (Et1 : s_trace (emit flat_ops (EIndex i2) s1) =
                  s_trace s ++ pre ++ [EAppend id seq off (mkput k v); EIndex i2]).
    { rewrite s_trace_emit, Et, <- !app_assoc. reflexivity. }
    assert (Ed' : s_disk s' = fold_left (apply_ev flat_ops) (pre ++ [EAppend id seq off (mkput k v); EIndex i2]) (s_disk s)).
    { rewrite Eds', Ed, !fold_left_app. reflexivity. }
    destruct Ets' as [Ets'|(i & q & Ets')].
    + exists []. rewrite app_nil_r. split; [congruence|]. split; [exact Hshape|]. split; [left; reflexivity|].
      split; [exact Eop|]. split; [rewrite (same_log_olog _ _ Hsl); exact Eo|exact Ed'].
    + exists [ESync (FSeg i q)]. split; [rewrite Ets', Et1, <- !app_assoc; reflexivity|].
      split; [exact Hshape|]. split; [right; eauto|].
      split; [exact Eop|]. split; [rewrite (same_log_olog _ _ Hsl); exact Eo|exact Ed'].
Qed.

Theorem put_ok P (s : st) k v :
  params_ok P -> Inv P s -> (exists m, s_mem s = Some m /\ room m) ->
  Forall byte k -> Forall byte v -> nlen k <= max_key_len -> nlen v <= max_val_len ->
  let '(s', o) := db_put flat_ops P k v s in
  o = OOk /\ Inv P s' /\ s_mem s' <> None /\
  (forall k', sget (abs (s_disk s')) k' = if key_eqb k' k then Some v else sget (abs (s_disk s)) k').
Proof.
  intros HP HI Hm Hbk Hbv Hk Hv.
  destruct (put_ok_ex P s k v HP HI Hm Hbk Hbv Hk Hv) as (s' & E & H1 & H2 & H3 & _).
  rewrite E. auto.
Qed.

(* state, files and trace untouched *)
Theorem put_rejected P (s : st) k v :
  s_mem s <> None -> (max_key_len < nlen k \/ max_val_len < nlen v) ->
  exists e, db_put flat_ops P k v s = (s, OErr e).
Proof.
  intros Hm H. unfold db_put. destruct (s_mem s) as [m|]; [|congruence].
  destruct (N.ltb_spec max_key_len (nlen k)) as [Hk|Hk]; [eexists; reflexivity|].
  destruct (N.ltb_spec max_val_len (nlen v)) as [Hv|Hv]; [eexists; reflexivity|].
  exfalso. lia.
Qed.

(* ================================================================================================ *)
(* Delete                                                                                             *)
Lemma fl_del_hit P seed idx (d : disk) k :
  DiskOK d -> Forall (slot_ok P d seed) idx ->
  fl_del idx (p_hash P seed k) (matchf d k) =
  match fl_remove (khit (slot_key d) k) idx with Some (l', o) => (l', Some o) | None => (idx, None) end.
Proof.
  intros Hd Hok. unfold fl_del. rewrite (fl_remove_ext_in _ (khit (slot_key d) k) idx); [reflexivity|].
  intros x Hx. fa Hok x Hx. apply hit_key; assumption.
Qed.

Lemma del_absent P seed idx (d : disk) k i1 :
  DiskOK d -> idx_agrees P seed idx d ->
  fl_del idx (p_hash P seed k) (matchf d k) = (i1, None) -> i1 = idx /\ sget (abs d) k = None.
Proof.
  intros Hd Hidx E. rewrite (fl_del_hit P seed idx d k Hd (proj1 Hidx)) in E.
  destruct (fl_remove (khit (slot_key d) k) idx) as [[l' o]|] eqn:Er; [discriminate|].
  inversion E; subst i1. split; [reflexivity|].
  pose proof (fl_remove_None _ _ Er) as Hno. pose proof (idx_lookup P seed idx d k Hd Hidx) as Hlk.
  rewrite (proj2 (find_khit_None (slot_key d) k idx)) in Hlk; [exact Hlk|].
  intros HIn. apply in_map_iff in HIn. destruct HIn as (x & Ex & Hx). pose proof (Hno x Hx) as Hf.
  unfold khit in Hf. rewrite Ex, key_eqb_refl in Hf. discriminate.
Qed.

Lemma del_found P seed idx (d : disk) k i1 o :
  DiskOK d -> idx_agrees P seed idx d ->
  fl_del idx (p_hash P seed k) (matchf d k) = (i1, Some o) ->
  nlen k <= max_key_len /\ sget (abs d) k <> None.
Proof.
  intros Hd Hidx E. pose proof Hidx as (Hok & Hnd & _). rewrite (fl_del_hit P seed idx d k Hd Hok) in E.
  destruct (fl_remove (khit (slot_key d) k) idx) as [[l' o']|] eqn:Er; [|discriminate].
  inversion E; subst i1 o'. destruct (fl_remove_Some _ _ _ _ _ Hnd Er) as (A1 & A2 & _).
  fa Hok o A1. destruct (slot_ok_read P d seed o Hfa) as (r & Er' & _ & _ & _ & _ & _ & Ek).
  split.
  - pose proof (rec_of_rec_fits d _ _ r Hd Er') as (_ & _ & Hlen & _). congruence.
  - intros Hn. apply sget_None in Hn. apply Hn. apply (idx_keys P seed idx d k Hd Hidx).
    rewrite <- A2. apply in_map. exact A1.
Qed.

(* the index after a delete *)
Lemma del_index P seed idx (d d1 : disk) id off k i1 o :
  DiskOK d -> DiskOK d1 -> idx_agrees P seed idx d ->
  olog d1 = olog d ++ [(id, off, mkdel k)] ->
  fl_del idx (p_hash P seed k) (matchf d k) = (i1, Some o) ->
  idx_agrees P seed i1 d1.
Proof.
  intros Hd Hd1 (Hok & Hnd & Hptr) Eo E.
  pose proof (olog_keep d d1 _ Hd Hd1 Eo) as Hkeep.
  rewrite (fl_del_hit P seed idx d k Hd Hok) in E.
  destruct (fl_remove (khit (slot_key d) k) idx) as [[l' o']|] eqn:Er; [|discriminate].
  inversion E; subst i1 o'. destruct (fl_remove_Some _ _ _ _ _ Hnd Er) as (A1 & A2 & A3 & A4 & A5).
  assert (Hok' : Forall (slot_ok P d seed) l').
  { apply Forall_forall. intros x Hx. exact (proj1 (Forall_forall _ _) Hok x (A3 x Hx)). }
  destruct (idx_keys_keep P d d1 seed l' Hkeep Hok') as (Hok1 & Hmap & Hfind).
  split; [exact Hok1|]. split; [rewrite Hmap; exact A4|].
  intros k'. rewrite (ptr_of_snoc d d1 _ Eo), upd_ptr_eq. cbn [fst snd mkdel rk rdel].
  rewrite Hfind, A5, Hptr. destruct (key_eqb k' k); reflexivity.
Qed.

Theorem delete_ok_ex P (s : st) k :
  params_ok P -> Inv P s -> (exists m, s_mem s = Some m /\ room m) -> Forall byte k ->
  exists s', db_delete flat_ops P k s = (s', OOk) /\ Inv P s' /\ s_mem s' <> None /\
    (forall k', sget (abs (s_disk s')) k' = if key_eqb k' k then None else sget (abs (s_disk s)) k') /\
    (sget (abs (s_disk s)) k = None -> s_disk s' = s_disk s) /\
    ((* absent key: at most a Sync *)
     (sget (abs (s_disk s)) k = None /\ s_disk s' = s_disk s /\
      (s_trace s' = s_trace s \/ exists i q, s_trace s' = s_trace s ++ [ESync (FSeg i q)])) \/
     (* present key: the events of the write *)
     (sget (abs (s_disk s)) k <> None /\ nlen k <= max_key_len /\
      exists id seq off pre i1 post,
        s_trace s' = s_trace s ++ pre ++ [EAppend id seq off (mkdel k); EIndex i1] ++ post /\
        wr_pre_shape pre id seq /\ (post = [] \/ exists i q, post = [ESync (FSeg i q)]) /\
        olog (fold_left (apply_ev flat_ops) pre (s_disk s)) = olog (s_disk s) /\
        olog (s_disk s') = olog (s_disk s) ++ [(id, off, mkdel k)] /\
        s_disk s' = fold_left (apply_ev flat_ops) (pre ++ [EAppend id seq off (mkdel k); EIndex i1]) (s_disk s))).
Proof.
  intros HP HI (m & Em & Hroom) Hbk.
  destruct (Inv_open P s m Em HI) as (HL & Hidx & Hlock & Hindex & Hovf).
  assert (Hd : DiskOK (s_disk s)) by apply HL.
  unfold db_delete. rewrite Em. cbn [ix_del flat_ops].
  destruct (fl_del (m_idx m) (p_hash P (m_seed m) k) (matchf (s_disk s) k)) as [i1 old] eqn:Edel.
  destruct old as [o|].
  - (* the key is present *)
    destruct (del_found P _ _ _ k i1 o Hd Hidx Edel) as [Hk Hpres].
    assert (Hr : rec_fits (mkdel k)) by (apply rec_fits_mkdel; assumption).
    pose proof (track_del_InvLog o m _ HL) as HL0. pose proof (track_del_room o m Hroom) as Hroom0.
    destruct (write_record_spec P (mkdel k) s (track_del o m) HP HL0 Hroom0 Hr)
      as (s1 & m1 & id & off & Ew & HL1 & Eo & Hoff & _ & _ & _ & _ & Ei & Esd & Em1 & Hrest & seq & pre & Et & Ed & Eop & _ & Hshape).
    assert (Hd1 : DiskOK (s_disk s1)) by apply HL1.
    rewrite Ew.
    pose proof (del_index P _ _ (s_disk s) (s_disk s1) id off k i1 o Hd Hd1 Hidx Eo Edel) as Hidx2.
    set (m2 := add_delbytes id (u32 (rsize (mkdel k))) m1).
    destruct (finish_spec P (emit flat_ops (EIndex i1) s1) (set_idx m2 i1)) as (s' & Ef & Ems' & Eds' & Ets').
    rewrite Ef. exists s'. split; [reflexivity|].
    rewrite s_disk_emit in Eds'.
    assert (Hsl : same_log (s_disk s1) (s_disk s')) by (rewrite Eds'; apply same_log_segs; reflexivity).
    destruct Hrest as (_ & _ & Ro & _ & _ & Rl & _).
    split; [|split; [congruence|split; [|split; [intros Hn; exfalso; exact (Hpres Hn)|right]]]].
    + apply (Inv_intro P s' (set_idx m2 i1) Ems').
      * apply (InvLog_same_log _ _ _ Hsl). apply set_idx_InvLog. apply add_delbytes_InvLog. exact HL1.
      * cbn [m_seed m_idx set_idx]. change (m_seed m2) with (m_seed m1). rewrite Esd.
        change (m_seed (track_del o m)) with (m_seed m). apply (idx_agrees_same_log _ _ _ _ _ Hsl Hidx2).
      * rewrite Eds'. cbn [apply_ev d_lock set_index]. congruence.
      * rewrite Eds'. reflexivity.
      * rewrite Eds'. cbn [apply_ev d_overflow set_index]. congruence.
    + intros k'. rewrite (same_log_abs _ _ Hsl), (abs_snoc _ _ _ Eo), sget_apply_rec. reflexivity.
    + split; [exact Hpres|]. split; [exact Hk|]. exists id, seq, off, pre, i1.
      assert (Et1 : s_trace (emit flat_ops (EIndex i1) s1) =
                    s_trace s ++ pre ++ [EAppend id seq off (mkdel k); EIndex i1]).
      { rewrite s_trace_emit, Et, <- !app_assoc. reflexivity. }
      assert (Ed' : s_disk s' = fold_left (apply_ev flat_ops) (pre ++ [EAppend id seq off (mkdel k); EIndex i1]) (s_disk s)).
      { rewrite Eds', Ed, !fold_left_app. reflexivity. }
      destruct Ets' as [Ets'|(i & q & Ets')].
      * exists []. rewrite app_nil_r. split; [congruence|]. split; [exact Hshape|]. split; [left; reflexivity|].
        split; [exact Eop|]. split; [rewrite (same_log_olog _ _ Hsl); exact Eo|exact Ed'].
      * exists [ESync (FSeg i q)]. split; [rewrite Ets', Et1, <- !app_assoc; reflexivity|].
        split; [exact Hshape|]. split; [right; eauto|].
        split; [exact Eop|]. split; [rewrite (same_log_olog _ _ Hsl); exact Eo|exact Ed'].
  - (* the key is absent: nothing is written *)
    destruct (del_absent P _ _ _ k i1 Hd Hidx Edel) as [-> Habs].
    destruct (finish_spec P s m) as (s' & Ef & Ems' & Eds' & Ets').
    rewrite Ef. exists s'. split; [reflexivity|].
    split; [apply (Inv_same P s); [congruence|exact Eds'|exact HI]|].
    split; [congruence|]. split; [|split; [intros _; exact Eds'|left; auto]].
    intros k'. rewrite Eds'. destruct (key_eqb k' k) eqn:E; [|reflexivity].
    apply key_eqb_eq in E. subst k'. exact Habs.
Qed.

Theorem delete_ok P (s : st) k :
  params_ok P -> Inv P s -> (exists m, s_mem s = Some m /\ room m) -> Forall byte k ->
  let '(s', o) := db_delete flat_ops P k s in
  o = OOk /\ Inv P s' /\ s_mem s' <> None /\
  (forall k', sget (abs (s_disk s')) k' = if key_eqb k' k then None else sget (abs (s_disk s)) k') /\
  (sget (abs (s_disk s)) k = None -> s_disk s' = s_disk s).
Proof.
  intros HP HI Hm Hbk.
  destruct (delete_ok_ex P s k HP HI Hm Hbk) as (s' & E & H1 & H2 & H3 & H4 & _).
  rewrite E. auto.
Qed.

(* ================================================================================================ *)
Print Assumptions put_ok.
Print Assumptions put_rejected.
Print Assumptions delete_ok.
Print Assumptions get_ok.
Print Assumptions get_append_ok.
Print Assumptions has_ok.
Print Assumptions count_ok.
Print Assumptions items_ok.
Print Assumptions sync_ok.
Print Assumptions put_ok_ex.
Print Assumptions delete_ok_ex.
Print Assumptions write_record_spec.
