(* DBProofsOps.v -- the operation theorems of the database model instantiated with the flat
   reference index: Put, Delete, Get, GetAppend, Has, Count, Items, Sync. *)
From Coq Require Import ZArith Lia ZifyN ZifyNat ZifyBool Permutation.
From Pogreb Require Import Base BaseLemmas Crc Bytes Record RecordProofs Flat Spec DB DBInv DBLemmas.
Ltac Zify.zify_post_hook ::= Z.div_mod_to_equations.

Local Notation disk := (@DB.disk flat).
Local Notation st := (@DB.st flat).
Local Notation mem := (@DB.mem flat).
Local Notation fsev := (@DB.fsev flat).

(* ---- the invariant, taken apart and put together ---- *)
Lemma Inv_open P (s : st) m :
  s_mem s = Some m -> Inv P s ->
  InvLog m (s_disk s) /\ idx_agrees P (m_seed m) (m_idx m) (s_disk s) /\
  d_lock (s_disk s) = true /\ d_index (s_disk s) = Some (m_idx m) /\ d_overflow (s_disk s) = true.
Proof. unfold Inv. intros ->. unfold InvLog. rewrite <- index_agrees_eq. tauto. Qed.

Lemma Inv_intro P (s : st) m :
  s_mem s = Some m -> InvLog m (s_disk s) -> idx_agrees P (m_seed m) (m_idx m) (s_disk s) ->
  d_lock (s_disk s) = true -> d_index (s_disk s) = Some (m_idx m) -> d_overflow (s_disk s) = true ->
  Inv P s.
Proof. unfold Inv. intros ->. unfold InvLog. rewrite <- index_agrees_eq. tauto. Qed.

Lemma idx_agrees_same_log P seed idx (d d' : disk) :
  same_log d d' -> idx_agrees P seed idx d -> idx_agrees P seed idx d'.
Proof.
  intros H (Hok & Hnd & Hptr). split; [|split].
  - apply Forall_forall. intros sl Hsl. fa Hok sl Hsl. eapply same_log_slot_ok; eassumption.
  - rewrite (map_ext _ (slot_key d)); [exact Hnd|]. intros sl. apply same_log_slot_key. exact H.
  - intros k. rewrite (same_log_ptr_of _ _ H), Hptr. f_equal. apply find_ext_in.
    intros sl _. unfold khit. rewrite (same_log_slot_key _ _ sl H). reflexivity.
Qed.

(* ================================================================================================ *)
(* reads                                                                                              *)
Theorem get_ok P (s : st) k :
  Inv P s -> s_mem s <> None -> db_get flat_ops P k s = OVal (sget (abs (s_disk s)) k).
Proof.
  intros HI Hm. destruct (s_mem s) as [m|] eqn:Em; [|congruence].
  destruct (Inv_open P s m Em HI) as (HL & Hidx & _). assert (Hd : DiskOK (s_disk s)) by apply HL.
  unfold db_get. rewrite Em. cbn [ix_get flat_ops].
  rewrite (idx_get_find P (m_seed m) (m_idx m) (s_disk s) k Hd (proj1 Hidx)).
  pose proof (idx_lookup P _ _ _ k Hd Hidx) as Hlk.
  destruct (find (khit (slot_key (s_disk s)) k) (m_idx m)) as [sl|].
  - destruct Hlk as (_ & v & Er & Eg). rewrite Er, Eg. reflexivity.
  - rewrite Hlk. reflexivity.
Qed.

Theorem get_append_ok P (s : st) k buf :
  Inv P s -> s_mem s <> None ->
  db_get_append flat_ops P k buf s = OVal (option_map (fun v => buf ++ v) (sget (abs (s_disk s)) k)).
Proof.
  intros HI Hm. unfold db_get_append. rewrite (get_ok P s k HI Hm).
  destruct (sget (abs (s_disk s)) k); reflexivity.
Qed.

Theorem has_ok P (s : st) k :
  Inv P s -> s_mem s <> None -> db_has flat_ops P k s = OBool (shas (abs (s_disk s)) k).
Proof.
  intros HI Hm. destruct (s_mem s) as [m|] eqn:Em; [|congruence].
  destruct (Inv_open P s m Em HI) as (HL & Hidx & _). assert (Hd : DiskOK (s_disk s)) by apply HL.
  unfold db_has. rewrite Em. cbn [ix_get flat_ops].
  rewrite (idx_get_find P (m_seed m) (m_idx m) (s_disk s) k Hd (proj1 Hidx)).
  pose proof (idx_lookup P _ _ _ k Hd Hidx) as Hlk. rewrite shas_sget.
  destruct (find (khit (slot_key (s_disk s)) k) (m_idx m)) as [sl|].
  - destruct Hlk as (_ & v & _ & Eg). rewrite Eg. reflexivity.
  - rewrite Hlk. reflexivity.
Qed.

(* the keys of the index are the keys of the contents *)
Lemma idx_keys P seed idx (d : disk) k :
  DiskOK d -> idx_agrees P seed idx d -> (In k (map (slot_key d) idx) <-> In k (map fst (abs d))).
Proof.
  intros Hd Hidx. pose proof (idx_lookup P seed idx d k Hd Hidx) as Hlk.
  pose proof Hidx as (_ & Hnd & _). split; intros HIn.
  - apply in_map_iff in HIn. destruct HIn as (sl & <- & Hsl).
    rewrite (find_khit_In _ _ sl Hnd Hsl) in Hlk. destruct Hlk as (_ & v & _ & Eg).
    apply (sget_In _ _ _ (abs_NoDup d)) in Eg. apply (in_map fst) in Eg. exact Eg.
  - destruct (find (khit (slot_key d) k) idx) as [sl|] eqn:E.
    + apply find_khit_Some in E. destruct E as [Hsl <-]. apply in_map. exact Hsl.
    + exfalso. apply sget_None in Hlk. exact (Hlk HIn).
Qed.

Theorem count_ok P (s : st) :
  Inv P s -> s_mem s <> None -> db_count flat_ops s = ONum (scount (abs (s_disk s))).
Proof.
  intros HI Hm. destruct (s_mem s) as [m|] eqn:Em; [|congruence].
  destruct (Inv_open P s m Em HI) as (HL & Hidx & _). assert (Hd : DiskOK (s_disk s)) by apply HL.
  unfold db_count. rewrite Em. cbn [ix_count flat_ops]. unfold scount. f_equal.
  assert (Hp : Permutation (map (slot_key (s_disk s)) (m_idx m)) (map fst (abs (s_disk s)))).
  { apply NoDup_Permutation; [apply Hidx|apply abs_NoDup|]. intros k. apply (idx_keys P _ _ _ k Hd Hidx). }
  apply Permutation_length in Hp. rewrite !map_length in Hp. rewrite !nlen_length, Hp. reflexivity.
Qed.

Lemma read_slots_spec P seed idx (d : disk) :
  Forall (slot_ok P d seed) idx ->
  exists a, read_slots d idx = Some a /\ map fst a = map (slot_key d) idx /\
            (forall kv, In kv a <-> exists sl, In sl idx /\ read_kv d sl = Some kv).
Proof.
  induction idx as [|sl idx IH]; intros Hok.
  - exists []. split; [reflexivity|]. split; [reflexivity|]. intros kv. split; [intros []|intros (? & [] & _)].
  - inversion Hok as [|? ? Hsl Hok']; subst. destruct (IH Hok') as (a & Ea & Em & Ha).
    destruct (slot_ok_read P d seed sl Hsl) as (r & _ & _ & _ & _ & _ & Er & Ek).
    exists ((rk r, rv r) :: a). cbn [read_slots]. rewrite Er, Ea. split; [reflexivity|].
    split; [cbn [map fst]; congruence|]. intros kv. cbn [In]. rewrite Ha. split.
    + intros [<-|(sl' & Hsl' & E)]; [exists sl; split; [left; reflexivity|exact Er]|exists sl'; split; [right; exact Hsl'|exact E]].
    + intros (sl' & [<-|Hsl'] & E); [left; congruence|right; exists sl'; split; assumption].
Qed.

Theorem items_ok P (s : st) :
  Inv P s -> s_mem s <> None -> exists l, db_items flat_ops s = OItems l /\ Permutation l (abs (s_disk s)).
Proof.
  intros HI Hm. destruct (s_mem s) as [m|] eqn:Em; [|congruence].
  destruct (Inv_open P s m Em HI) as (HL & Hidx & _). assert (Hd : DiskOK (s_disk s)) by apply HL.
  pose proof Hidx as (Hok & Hnd & _).
  destruct (read_slots_spec P _ _ _ Hok) as (a & Ea & Emap & Ha).
  exists (a ++ []). split.
  - unfold db_items. rewrite Em. cbn [ix_nbuckets flat_ops]. change (N.to_nat 1) with 1%nat. cbn [nseq].
    unfold fetch_bucket. rewrite Em. cbn [ix_bucket flat_ops]. change (0 =? 0) with true. cbn iota.
    rewrite Ea. reflexivity.
  - rewrite app_nil_r. apply NoDup_Permutation.
    + apply (NoDup_map_inv fst). rewrite Emap. exact Hnd.
    + apply (NoDup_map_inv fst). apply abs_NoDup.
    + intros [k v]. pose proof (idx_lookup P _ _ _ k Hd Hidx) as Hlk. rewrite Ha. split.
      * intros (sl & Hsl & Er).
        assert (Ek : slot_key (s_disk s) sl = k) by (unfold slot_key; rewrite Er; reflexivity).
        rewrite <- Ek, (find_khit_In _ _ sl Hnd Hsl), Ek in Hlk. destruct Hlk as (_ & v' & Er' & Eg).
        apply (sget_In _ _ _ (abs_NoDup _)). congruence.
      * intros HIn. apply (sget_In _ _ _ (abs_NoDup _)) in HIn.
        destruct (find (khit (slot_key (s_disk s)) k) (m_idx m)) as [sl|]; [|congruence].
        destruct Hlk as (Hsl & v' & Er' & Eg). exists sl. split; [exact Hsl|congruence].
Qed.

(* ================================================================================================ *)
(* Sync                                                                                               *)
Lemma do_sync_spec (s : st) (m : mem) :
  s_mem (do_sync flat_ops s m) = s_mem s /\ s_disk (do_sync flat_ops s m) = s_disk s /\
  (s_trace (do_sync flat_ops s m) = s_trace s \/
   exists id seq, s_trace (do_sync flat_ops s m) = s_trace s ++ [ESync (FSeg id seq)]).
Proof.
  unfold do_sync. destruct (cur_seg m) as [g|].
  - split; [reflexivity|]. split; [reflexivity|]. right. eexists _, _. reflexivity.
  - split; [reflexivity|]. split; [reflexivity|]. left. reflexivity.
Qed.

Lemma Inv_same (P : params) (s s' : st) : s_mem s' = s_mem s -> s_disk s' = s_disk s -> Inv P s -> Inv P s'.
Proof. unfold Inv. intros -> ->. exact (fun H => H). Qed.

Theorem sync_ok P (s : st) :
  Inv P s -> s_mem s <> None ->
  let '(s', o) := db_sync flat_ops s in o = OOk /\ Inv P s' /\ s_disk s' = s_disk s /\ s_mem s' = s_mem s.
Proof.
  intros HI Hm. unfold db_sync. destruct (s_mem s) as [m|] eqn:Em; [|congruence].
  destruct (do_sync_spec s m) as (E1 & E2 & _).
  split; [reflexivity|]. split; [|split; [exact E2|congruence]].
  apply (Inv_same P s); [congruence|exact E2|exact HI].
Qed.
