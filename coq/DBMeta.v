(* DBMeta.v -- the part of the invariant that concerns the segment metadata counters.
   Compaction decides from the in-memory counter DeleteRecords whether a segment may be compacted
   without all older segments, so that counter has to be exact.  Recovery rebuilds it, Close/Open
   persist it; put, delete and compaction maintain it (DBProofsCompact.v, DBProofsRecovery.v). *)
From Pogreb Require Import Base Flat DB.

Definition MetaOK (s : @DB.st flat) : Prop :=
  match s_mem s with
  | None => True
  | Some m => forall g f, In g (m_segs m) -> find_dseg (g_id g) (s_disk s) = Some f ->
                sm_delrec (g_meta g) = nlen (filter rdel (f_recs f))
  end.
