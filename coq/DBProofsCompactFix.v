(* DBProofsCompactFix.v -- property C15, second sentence ("under a steady overwrite/delete workload with
   periodic compaction and restarts the directory size, file count, open descriptors and memory mappings
   stay bounded by the live data instead of growing with history"): the STRUCTURAL facts behind it, for
   the database model instantiated with the flat reference index.  Compact here is [db_compact]: run to
   completion, nobody else touching the database.  No axioms (Print Assumptions at the end).
   Imports DBRun (only Module FixEx needs it: Inv/MetaOK of concrete runs), so it compiles after DBRun.v.

   DEFINED
     elig P g            the two tests of pickForCompaction that look at the segment alone:
                         uint32(size) >= compactionMinSegmentSize  and  p_frag DeletedBytes size
     keeps / keepd g g'  "the same segment later": id, sequence id and DeletedBytes equal; [keeps]: same
                         size; [keepd]: the size may have grown, but not if g was Full
     fresh_since m0 g'   DeletedBytes = 0 and sequence id > m_maxseq m0 (created after the pick)
     FInv P m0 m c       run invariant relative to the memory m0 at pick time: every segment is a
                         [keepd]-descendant of a segment of m0 (still in the cursor if that one passed the
                         tests) or fresh;  sframe = its one-step form
     compacted P m0 m'   the same at the end of the run (cursor empty): every segment of m' descends from
                         a segment of m0 that FAILED the tests, or is fresh
     frag0 P             forall size >= header_size, p_frag P 0 size = false   (implied by the
                         hypothesis "forall size, p_frag P 0 size = false": frag0_of_all)
     frag_ratio num den  example instance of p_frag: num * size <= den * DeletedBytes
     big, sum_of         segments with uint32(size) >= p_minseg; sums over segment lists

   PROVED
     pick_nil_iff        pick P m = [] <-> no segment passes the two tests;  pick_elig_In, pick_why
                         (whatever is picked passes the tests or is forced by an eligible segment that
                         holds delete records)
     fx_write_record     writeRecord never changes DeletedBytes, never writes to a Full segment, sizes
                         only grow, new segments start with DeletedBytes = 0 and a new sequence id
                         (promotion does not call trackDel);  fx_step (every micro-step), fx_pick, fx_run
     compact_frame       MAIN FRAME THEOREM: Inv, MetaOK, compact_room  ==>  compacted P m0 m'
     (1) compact_eligible_only_grown_open   THE TRUE FORM of "compaction reaches a fixpoint" (needs frag0):
                         after a completed Compact a segment passes the tests only if it descends from the
                         segment that was OPEN (not Full) and NOT eligible at pick time, has DeletedBytes
                         > 0 from before, and strictly GREW (promoted records were appended to it);
         compact_eligible_unique            there is at most one such segment
         compact_fixpoint_open_clean        pick = [] afterwards if the open segment of m0 was picked or
                                            had DeletedBytes = 0
         compact_fixpoint_no_minsize        pick = [] afterwards if p_minseg <= header_size (512) and
                                            p_frag is antitone in the size (frag_ratio_antitone)
         compact_twice_fixpoint             Compact; Compact ALWAYS ends with pick = []
     (2) not_eligible_dense / sealed_segments_dense   pick = [] -> every segment with uint32(size) >=
                         p_minseg has p_frag DeletedBytes size = false;  sealed_segments_dense_ratio: for
                         frag_ratio, den * DeletedBytes < num * size;  dense_total: the same summed
     (3) seg_count, dir_count, files_match_segments   Inv + files_exact: #(.psg in the directory) =
                         #(in-memory segments) and #files <= 2 * #segments + 5  (a segment has at most one
                         side file .psg.pmt: Close writes it, Open reads but does not remove it, it goes
                         with its segment; the 5: main.pix, overflow.pix, index.pmt, db.pmt, lock)
         compacted_file_gone                the two files of every segment that passed the tests are gone
         C15_files_bounded_after_compact    all of the above after one completed Compact
         C15_files_bounded_after_two_compactions   after two: pick = [], exact file count, every
                         remaining segment small (< p_minseg) or dense
     (4) Module FixEx (vm_compute; Inv and MetaOK of the states come from DBRun's run theorem, so the
         hypotheses of the theorems are satisfiable and the theorems are APPLIED to the states):
         fixpoint_example / fixpoint_theorems_apply   three segments, garbage in two, both picked, result
                         [pick = []], files [00002-3.psg; 00000-4.psg; main.pix; overflow.pix; lock]
         second_compact_rewrites_untouched_segment, twice_theorem_applies

   REFUTED
     compact_fixpoint_refuted   "a completed Compact (no writer, result not an error, p_frag 0 _ = false)
                         leaves pick = []" is FALSE.  maxSegmentSize 590, compactionMinSegmentSize 540,
                         fragmentation threshold 1%:  Put a (20-byte value), Put j, Put b (20-byte value),
                         Put j, Put j, Compact.  Before: 00000-1 (586 bytes, 12 dead, Full) is picked;
                         the open 00001-2 (536 bytes, 12 dead) is too small.  Compact promotes a into
                         00001-2 (567 bytes: now eligible) and b into a new segment.  pick = [00001-2].
     second_compact_rewrites_untouched_segment   "the second Compact touches at most the segments the
                         first one wrote" is FALSE as well: if the grown open segment holds a delete
                         record, pickForCompaction adds every older segment, dense ones included.

   NOT COVERED
     writers interleaved with the compaction (they create new garbage anyway); restarts (recovery
     recomputes the counters; a clean restart keeps them); the number of segments below p_minseg; the
     relation between the DeletedBytes counter and the bytes that are really dead (uint32 wrap-around,
     recovery); descriptors and mappings as such (the model has one segment struct per open file: the
     count of in-memory segments is the proxy); the chain and physical index instantiations. *)
From Coq Require Import ZArith Lia ZifyN ZifyNat ZifyBool Permutation Sorted List.
From Pogreb Require Import Base BaseLemmas Crc Bytes Record RecordProofs Flat Index Spec DB DBInv DBLemmas
  DBProofsOps DBMeta DBProofsRecovery DBProofsCompact DBSim DBRun.
Import ListNotations.
Local Open Scope N_scope.

Local Notation disk := (@DB.disk flat).
Local Notation st := (@DB.st flat).
Local Notation mem := (@DB.mem flat).
Local Notation fsev := (@DB.fsev flat).

(* ================================================================================================ *)
(* A. Eligibility and pickForCompaction                                                              *)

(* the two tests of pickForCompaction that look at the segment alone *)
Definition elig (P : params) (g : mseg) : bool :=
  negb (u32 (g_size g) <? p_minseg P) && p_frag P (sm_delbytes (g_meta g)) (g_size g).

Lemma pick_rev_step P g older acc :
  pick_rev P (g :: older) acc =
  if elig P g then (if 0 <? sm_delrec (g_meta g) then rev older ++ g :: acc else pick_rev P older (g :: acc))
  else pick_rev P older acc.
Proof.
  cbn [pick_rev]. unfold elig.
  destruct (u32 (g_size g) <? p_minseg P); cbn [negb andb]; [reflexivity|].
  destruct (p_frag P (sm_delbytes (g_meta g)) (g_size g)); cbn [negb]; reflexivity.
Qed.

Lemma pick_rev_noelig P rs : forall acc,
  (forall g, In g rs -> elig P g = false) -> pick_rev P rs acc = acc.
Proof.
  induction rs as [|g older IH]; intros acc H; [reflexivity|].
  rewrite pick_rev_step, (H g (or_introl eq_refl)). apply IH. intros x Hx. apply H. right. exact Hx.
Qed.

Lemma pick_rev_acc P rs : forall acc x, In x acc -> In x (pick_rev P rs acc).
Proof.
  induction rs as [|g older IH]; intros acc x Hx; [exact Hx|].
  rewrite pick_rev_step. destruct (elig P g); [|apply IH; exact Hx].
  destruct (0 <? sm_delrec (g_meta g)).
  - apply in_or_app. right. right. exact Hx.
  - apply IH. right. exact Hx.
Qed.

Lemma pick_rev_elig_In P rs : forall acc g, In g rs -> elig P g = true -> In g (pick_rev P rs acc).
Proof.
  induction rs as [|g0 older IH]; intros acc g Hg He; [destruct Hg|].
  rewrite pick_rev_step. destruct Hg as [->|Hg].
  - rewrite He. destruct (0 <? sm_delrec (g_meta g)).
    + apply in_or_app. right. left. reflexivity.
    + apply pick_rev_acc. left. reflexivity.
  - destruct (elig P g0); [|apply IH; assumption].
    destruct (0 <? sm_delrec (g_meta g0)).
    + apply in_or_app. left. apply in_rev in Hg. exact Hg.
    + apply IH; assumption.
Qed.

(* whatever is picked is eligible itself, or an eligible segment holding delete records forces it *)
Lemma pick_rev_why P rs : forall acc x, In x (pick_rev P rs acc) ->
  In x acc \/ (In x rs /\ (elig P x = true \/
     exists y, In y rs /\ elig P y = true /\ 0 < sm_delrec (g_meta y))).
Proof.
  induction rs as [|g older IH]; intros acc x Hx; [left; exact Hx|].
  rewrite pick_rev_step in Hx. destruct (elig P g) eqn:Eg.
  - destruct (N.ltb_spec 0 (sm_delrec (g_meta g))) as [Hd|Hd].
    + apply in_app_or in Hx. destruct Hx as [Hx|[<-|Hx]]; [|right|left; exact Hx].
      * right. apply in_rev in Hx. split; [right; exact Hx|]. right. exists g.
        split; [left; reflexivity|]. split; assumption.
      * split; [left; reflexivity|left; exact Eg].
    + destruct (IH _ _ Hx) as [[<-|Hacc]|[Hin Hwhy]]; [right|left; exact Hacc|right].
      * split; [left; reflexivity|left; exact Eg].
      * split; [right; exact Hin|]. destruct Hwhy as [He|(y & Hy & Hey & Hdy)]; [left; exact He|].
        right. exists y. split; [right; exact Hy|]. split; assumption.
  - destruct (IH _ _ Hx) as [Hacc|[Hin Hwhy]]; [left; exact Hacc|right].
    split; [right; exact Hin|]. destruct Hwhy as [He|(y & Hy & Hey & Hdy)]; [left; exact He|].
    right. exists y. split; [right; exact Hy|]. split; assumption.
Qed.

Lemma In_rev_by_seq (l : list mseg) g : In g (rev (by_seq l)) <-> In g l.
Proof. rewrite <- in_rev. apply cp_by_seq_In. Qed.

Theorem pick_elig_In P (m : mem) g : In g (m_segs m) -> elig P g = true -> In g (pick P m).
Proof. intros Hg He. unfold pick. apply pick_rev_elig_In; [apply In_rev_by_seq; exact Hg|exact He]. Qed.

Theorem pick_why P (m : mem) x : In x (pick P m) ->
  In x (m_segs m) /\ (elig P x = true \/
    exists y, In y (m_segs m) /\ elig P y = true /\ 0 < sm_delrec (g_meta y)).
Proof.
  unfold pick. intros Hx. destruct (pick_rev_why P _ _ _ Hx) as [[]|[Hin Hwhy]].
  split; [apply In_rev_by_seq; exact Hin|]. destruct Hwhy as [He|(y & Hy & Hey & Hdy)]; [left; exact He|].
  right. exists y. split; [apply In_rev_by_seq; exact Hy|]. split; assumption.
Qed.

(* pickForCompaction returns nothing exactly when no segment passes the two tests *)
Theorem pick_nil_iff P (m : mem) : pick P m = [] <-> forall g, In g (m_segs m) -> elig P g = false.
Proof.
  split.
  - intros E g Hg. destruct (elig P g) eqn:He; [|reflexivity].
    pose proof (pick_elig_In P m g Hg He) as HIn. rewrite E in HIn. destruct HIn.
  - intros H. unfold pick. apply pick_rev_noelig. intros g Hg. apply H. apply In_rev_by_seq. exact Hg.
Qed.

(* ================================================================================================ *)
(* B. What compaction does to the segment structs: the frame with the DeletedBytes counter           *)

(* nothing but "full" (only set) and the record counters changes *)
Definition keeps (g g' : mseg) : Prop :=
  g_id g' = g_id g /\ g_seq g' = g_seq g /\ g_size g' = g_size g /\
  sm_delbytes (g_meta g') = sm_delbytes (g_meta g) /\
  (sm_full (g_meta g) = true -> sm_full (g_meta g') = true).

(* the same segment later: DeletedBytes is the same, the size may have grown, but only if the segment
   was not full *)
Definition keepd (g g' : mseg) : Prop :=
  g_id g' = g_id g /\ g_seq g' = g_seq g /\
  sm_delbytes (g_meta g') = sm_delbytes (g_meta g) /\
  g_size g <= g_size g' /\
  (sm_full (g_meta g) = true -> sm_full (g_meta g') = true /\ g_size g' = g_size g).

Lemma keeps_refl g : keeps g g.
Proof. unfold keeps. auto. Qed.

Lemma keeps_trans a b c : keeps a b -> keeps b c -> keeps a c.
Proof.
  intros (A1 & A2 & A3 & A4 & A5) (B1 & B2 & B3 & B4 & B5).
  unfold keeps. split; [congruence|]. split; [congruence|]. split; [congruence|]. split; [congruence|auto].
Qed.

Lemma keeps_keepd g g' : keeps g g' -> keepd g g'.
Proof.
  intros (A1 & A2 & A3 & A4 & A5). unfold keepd.
  split; [exact A1|]. split; [exact A2|]. split; [exact A4|]. split; [lia|]. intros Hf. split; [auto|exact A3].
Qed.

Lemma keepd_refl g : keepd g g.
Proof. apply keeps_keepd, keeps_refl. Qed.

Lemma keepd_trans a b c : keepd a b -> keepd b c -> keepd a c.
Proof.
  intros (A1 & A2 & A3 & A4 & A5) (B1 & B2 & B3 & B4 & B5). unfold keepd.
  split; [congruence|]. split; [congruence|]. split; [congruence|]. split; [lia|].
  intros Hf. destruct (A5 Hf) as [Hfb Esz]. destruct (B5 Hfb) as [Hfc Esz']. split; [exact Hfc|congruence].
Qed.

(* sealSegment *)
Lemma fx_seal (s : st) (m : mem) id s0 m0 :
  seal flat_ops id s m = (s0, m0) ->
  m_maxseq m0 = m_maxseq m /\ s_disk s0 = s_disk s /\
  forall g0, In g0 (m_segs m0) -> exists g, In g (m_segs m) /\ keeps g g0.
Proof.
  unfold seal. destruct (find_mseg id (m_segs m)) as [g|].
  - destruct (sm_full (g_meta g)); intros E; inversion E; subst s0 m0.
    + split; [reflexivity|]. split; [reflexivity|]. intros g0 Hg0. exists g0. split; [exact Hg0|apply keeps_refl].
    + split; [reflexivity|]. split; [rewrite s_disk_emit, apply_ev_sync; reflexivity|].
      cbn [m_segs set_msegs]. intros g0 Hg0. apply In_upd_mseg in Hg0. destruct Hg0 as (x & Hx & ->).
      exists x. split; [exact Hx|]. destruct (g_id x =? id); [|apply keeps_refl].
      unfold keeps. cbn [g_id g_seq g_size g_meta set_gmeta set_full sm_delbytes sm_full]. auto.
  - intros E; inversion E; subst s0 m0. split; [reflexivity|]. split; [reflexivity|].
    intros g0 Hg0. exists g0. split; [exact Hg0|apply keeps_refl].
Qed.

(* swapSegment: an existing segment becomes current, or a fresh one with a new sequence id is added *)
Lemma fx_swap (s : st) (m : mem) s1 m1 :
  swap_segment flat_ops s m = (s1, m1) ->
  m_maxseq m <= m_maxseq m1 /\
  forall g1, In g1 (m_segs m1) -> In g1 (m_segs m) \/ (g_meta g1 = smeta0 /\ m_maxseq m < g_seq g1).
Proof.
  unfold swap_segment. destruct (find (fun g => negb (sm_full (g_meta g))) (m_segs m)) as [g|];
    intros E; inversion E; subst s1 m1.
  - cbn [m_maxseq set_cur m_segs]. split; [lia|]. intros g1 Hg1. left. exact Hg1.
  - cbn [m_maxseq set_cur set_maxseq m_segs set_msegs]. split; [lia|].
    intros g1 Hg1. apply insert_mseg_In in Hg1. destruct Hg1 as [->|Hg1]; [right|left; exact Hg1].
    cbn [g_meta g_seq]. split; [reflexivity|lia].
Qed.

(* writeRecord up to the choice of the segment *)
Lemma fx_prelude P r (s : st) (m : mem) s1 m1 :
  wr_prelude P r s m = (s1, m1) ->
  m_maxseq m <= m_maxseq m1 /\
  forall g1, In g1 (m_segs m1) ->
    (exists g, In g (m_segs m) /\ keeps g g1) \/ (g_meta g1 = smeta0 /\ m_maxseq m < g_seq g1).
Proof.
  unfold wr_prelude.
  assert (Hswap : forall (s0 : st) (m0 : mem), m_maxseq m0 = m_maxseq m ->
            (forall g0, In g0 (m_segs m0) -> exists g, In g (m_segs m) /\ keeps g g0) ->
            swap_segment flat_ops s0 m0 = (s1, m1) ->
            m_maxseq m <= m_maxseq m1 /\
            forall g1, In g1 (m_segs m1) ->
              (exists g, In g (m_segs m) /\ keeps g g1) \/ (g_meta g1 = smeta0 /\ m_maxseq m < g_seq g1)).
  { intros s0 m0 Emax Hk E. destruct (fx_swap s0 m0 s1 m1 E) as [Hle Hin]. split; [lia|].
    intros g1 Hg1. destruct (Hin g1 Hg1) as [H0|[H1 H2]]; [left; apply Hk; exact H0|right].
    split; [exact H1|lia]. }
  assert (Hid : forall g0, In g0 (m_segs m) -> exists g, In g (m_segs m) /\ keeps g g0).
  { intros g0 Hg0. exists g0. split; [exact Hg0|apply keeps_refl]. }
  destruct (cur_seg m) as [g|].
  - destruct (sm_full (g_meta g) || (p_maxseg P <? g_size g + rsize r)).
    + destruct (seal flat_ops (g_id g) s m) as [s0 m0] eqn:E0.
      destruct (fx_seal s m (g_id g) s0 m0 E0) as (Emax & _ & Hk). apply Hswap; assumption.
    + intros E; inversion E; subst s1 m1. split; [lia|]. intros g1 Hg1. left. apply Hid. exact Hg1.
  - apply Hswap; [reflexivity|exact Hid].
Qed.

Lemma count_rec_delbytes r sm : sm_delbytes (count_rec r sm) = sm_delbytes sm.
Proof. unfold count_rec. destruct (rdel r); reflexivity. Qed.

Lemma count_rec_full r sm : sm_full (count_rec r sm) = sm_full sm.
Proof. unfold count_rec. destruct (rdel r); reflexivity. Qed.

(* the whole of writeRecord *)
Theorem fx_write_record P r (s : st) (m : mem) s' m' id off :
  InvLog m (s_disk s) -> room m ->
  write_record flat_ops P r s m = Some (s', m', id, off) ->
  m_maxseq m <= m_maxseq m' /\
  forall g', In g' (m_segs m') ->
    (exists g, In g (m_segs m) /\ keepd g g') \/
    (sm_delbytes (g_meta g') = 0 /\ m_maxseq m < g_seq g').
Proof.
  intros HI Hroom E. rewrite write_record_eq in E.
  destruct (wr_prelude_spec P r s m HI Hroom) as (s1 & m1 & g & pre & E1 & HI1 & _ & Ec1 & Hnf1 & _).
  rewrite E1 in E. destruct (fx_prelude P r s m s1 m1 E1) as [Hle Hpre].
  unfold wr_tail in E. rewrite Ec1 in E.
  destruct (find_dseg (g_id g) (s_disk s1)) as [f|]; [|discriminate].
  destruct (negb ((f_seq f =? g_seq g) && (flen f =? g_size g))); [discriminate|].
  inversion E; subst s' m' id off. clear E.
  cbn [m_maxseq set_msegs m_segs]. split; [exact Hle|].
  destruct (cur_seg_Some _ _ Ec1) as (_ & Hg1 & _).
  assert (Hinc1 : ids_increasing (m_segs m1)) by apply HI1.
  intros g' Hg'. apply In_upd_mseg in Hg'. destruct Hg' as (x & Hx & ->).
  destruct (N.eqb_spec (g_id x) (g_id g)) as [Eid|Hne].
  - assert (x = g) by (apply (ids_increasing_unique _ x g Hinc1 Hx Hg1); exact Eid). subst x.
    cbn [g_meta g_seq g_id g_size set_gmeta set_gsize]. rewrite count_rec_delbytes.
    destruct (Hpre g Hg1) as [(g0 & Hg0 & (K1 & K2 & K3 & K4 & K5))|[Hmeta Hseq]].
    + left. exists g0. split; [exact Hg0|]. unfold keepd.
      cbn [g_meta g_seq g_id g_size set_gmeta set_gsize]. rewrite count_rec_delbytes.
      split; [exact K1|]. split; [exact K2|]. split; [exact K4|]. split; [lia|].
      intros Hf. rewrite (K5 Hf) in Hnf1. discriminate.
    + right. rewrite Hmeta. split; [reflexivity|exact Hseq].
  - destruct (Hpre x Hx) as [(g0 & Hg0 & Hk)|[Hmeta Hseq]].
    + left. exists g0. split; [exact Hg0|apply keeps_keepd; exact Hk].
    + right. rewrite Hmeta. split; [reflexivity|exact Hseq].
Qed.

(* ================================================================================================ *)
(* C. The invariant of a run of Compact, relative to the state [m0] at pick time                     *)

(* a segment created after the pick: no dead bytes, newer than everything that existed at pick time *)
Definition fresh_since (m0 : mem) (g' : mseg) : Prop :=
  sm_delbytes (g_meta g') = 0 /\ m_maxseq m0 < g_seq g'.

(* every segment is either (a) a segment of [m0] -- and if it passed the tests of the pick it is still
   to be compacted -- or (b) fresh *)
Definition FInv (P : params) (m0 m : mem) (c : cursor) : Prop :=
  m_maxseq m0 <= m_maxseq m /\
  forall g', In g' (m_segs m) ->
    (exists g, In g (m_segs m0) /\ keepd g g' /\ (elig P g = true -> In (g_id g', g_seq g') (crem c))) \/
    fresh_since m0 g'.

(* one step, relative to the state before it *)
Definition sframe (m m' : mem) (c c' : cursor) : Prop :=
  m_maxseq m <= m_maxseq m' /\
  forall g', In g' (m_segs m') ->
    (exists g, In g (m_segs m) /\ keepd g g' /\
       (In (g_id g, g_seq g) (crem c) -> In (g_id g, g_seq g) (crem c'))) \/
    fresh_since m g'.

Lemma FInv_step P (m0 m m' : mem) (c c' : cursor) : FInv P m0 m c -> sframe m m' c c' -> FInv P m0 m' c'.
Proof.
  intros [Hle0 H0] [Hle1 H1]. split; [lia|]. intros g' Hg'.
  destruct (H1 g' Hg') as [(g1 & Hg1 & Hk1 & Hc1)|[Hz Hs]].
  - destruct (H0 g1 Hg1) as [(g0 & Hg0 & Hk0 & Hc0)|[Hz0 Hs0]].
    + left. exists g0. split; [exact Hg0|]. split; [eapply keepd_trans; eassumption|].
      intros He. destruct Hk1 as (K1 & K2 & _). rewrite K1, K2. apply Hc1, Hc0, He.
    + right. destruct Hk1 as (K1 & K2 & K3 & _). unfold fresh_since. rewrite K2, K3. split; [exact Hz0|exact Hs0].
  - right. unfold fresh_since. split; [exact Hz|lia].
Qed.

Lemma sframe_same (m m' : mem) (c c' : cursor) :
  m_segs m' = m_segs m -> m_maxseq m' = m_maxseq m -> crem c' = crem c -> sframe m m' c c'.
Proof.
  intros Es Em Ec. split; [lia|]. intros g' Hg'. left. exists g'. rewrite Es in Hg'.
  split; [exact Hg'|]. split; [apply keepd_refl|]. rewrite Ec. auto.
Qed.

Ltac dmatch E :=
  match type of E with
  | (match ?x with _ => _ end) = _ => destruct x eqn:?
  | (if ?x then _ else _) = _ => destruct x eqn:?
  end.

(* every micro-step of Compact *)
Theorem fx_step P (s : st) (c : cursor) (m : mem) s' c' :
  Inv P s -> s_mem s = Some m -> room m ->
  compact_step flat_ops P s c = CMore s' c' ->
  exists m', s_mem s' = Some m' /\ sframe m m' c c'.
Proof.
  intros HI Em Hroom E. destruct (Inv_open P s m Em HI) as (HL & _).
  unfold compact_step in E. rewrite Em in E. destruct (c_src c) as [[[id seq] off]|] eqn:Esrc.
  - destruct (find_dseg id (s_disk s)) as [f|]; [|discriminate].
    destruct (rec_at off (seg_entries f)) as [r|].
    + cbn zeta in E.
      assert (Hskip : forall cc n b, CMore s {| c_todo := c_todo c; c_src := Some (id, seq, off + rsize r);
                         c_segs := c_segs c; c_recs := n; c_bytes := b |} = CMore s' cc -> 
                       exists m', s_mem s' = Some m' /\ sframe m m' c cc).
      { intros cc n b E0. inversion E0; subst s' cc. exists m. split; [exact Em|].
        apply sframe_same; [reflexivity|reflexivity|]. unfold crem. cbn [c_src c_todo]. rewrite Esrc. reflexivity. }
      destruct (rdel r); [apply (Hskip _ _ _ E)|].
      dmatch E; [|apply (Hskip _ _ _ E)].
      destruct (write_record flat_ops P r s m) as [[[[s1 m1] nid] noff]|] eqn:Ew; [|discriminate].
      dmatch E; [|discriminate]. inversion E; subst s' c'. clear E.
      destruct (fx_write_record P r s m s1 m1 nid noff HL Hroom Ew) as [Hle Hfr].
      eexists. split; [reflexivity|]. split; [exact Hle|].
      cbn [m_segs set_idx]. intros g' Hg'. destruct (Hfr g' Hg') as [(g & Hg & Hk)|Hnew]; [left|right; exact Hnew].
      exists g. split; [exact Hg|]. split; [exact Hk|].
      unfold crem. cbn [c_src c_todo]. rewrite Esrc. auto.
    + dmatch E; [discriminate|]. inversion E; subst s' c'. clear E.
      destruct (cp_remove_segment_eq id seq s m) as [_ Em'].
      destruct (cp_mem_removed_segs m id seq) as (Es & Emax & _).
      eexists. split; [exact Em'|]. split; [lia|]. rewrite Es.
      intros g' Hg'. apply filter_In in Hg'. destruct Hg' as [Hg' Hne]. left. exists g'.
      split; [exact Hg'|]. split; [apply keepd_refl|].
      unfold crem. cbn [c_src c_todo]. rewrite Esrc. intros [X|X]; [|exact X].
      inversion X as [[X1 X2]]. rewrite X1, N.eqb_refl in Hne. discriminate Hne.
  - destruct (c_todo c) as [|[id seq] todo] eqn:Etodo; [discriminate|].
    inversion E; subst s' c'. clear E. eexists. split; [reflexivity|]. split; [cbn [m_maxseq set_msegs]; lia|].
    cbn [m_segs set_msegs]. intros g' Hg'. apply In_upd_mseg in Hg'. destruct Hg' as (x & Hx & ->).
    left. exists x. split; [exact Hx|]. split.
    + destruct (g_id x =? id); [|apply keepd_refl]. apply keeps_keepd. unfold keeps.
      cbn [g_id g_seq g_size g_meta set_gmeta set_full sm_delbytes sm_full]. auto.
    + unfold crem. cbn [c_src c_todo]. rewrite Esrc, Etodo. auto.
Qed.

(* pick + seal *)
Lemma fx_seal_all (picked : list mseg) : forall (s : st) (m : mem) s1 m1,
  fold_left (fun sm g => seal flat_ops (g_id g) (fst sm) (snd sm)) picked (s, m) = (s1, m1) ->
  m_maxseq m1 = m_maxseq m /\
  forall g1, In g1 (m_segs m1) -> exists g, In g (m_segs m) /\ keeps g g1.
Proof.
  induction picked as [|p picked IH]; intros s m s1 m1 E.
  - inversion E; subst s1 m1. split; [reflexivity|]. intros g1 Hg1. exists g1. split; [exact Hg1|apply keeps_refl].
  - cbn [fold_left fst snd] in E. destruct (seal flat_ops (g_id p) s m) as [s0 m0] eqn:E0.
    destruct (fx_seal s m (g_id p) s0 m0 E0) as (Emax0 & _ & Hk0).
    destruct (IH s0 m0 s1 m1 E) as [Emax1 Hk1]. split; [congruence|].
    intros g1 Hg1. destruct (Hk1 g1 Hg1) as (g0 & Hg0 & K1). destruct (Hk0 g0 Hg0) as (g & Hg & K0).
    exists g. split; [exact Hg|eapply keeps_trans; eassumption].
Qed.

Theorem fx_pick P (s : st) (m : mem) s1 c :
  s_mem s = Some m -> compact_pick flat_ops P s = Some (s1, c) ->
  exists m1, s_mem s1 = Some m1 /\ FInv P m m1 c.
Proof.
  intros Em E. unfold compact_pick in E. rewrite Em in E.
  destruct (fold_left (fun sm g => seal flat_ops (g_id g) (fst sm) (snd sm)) (pick P m) (s, m)) as [s0 m1] eqn:Ef.
  inversion E; subst s1 c. clear E. destruct (fx_seal_all _ _ _ _ _ Ef) as [Emax Hk].
  exists m1. split; [reflexivity|]. split; [lia|]. intros g' Hg'. left.
  destruct (Hk g' Hg') as (g & Hg & K). exists g. split; [exact Hg|]. split; [apply keeps_keepd; exact K|].
  intros He. unfold crem. cbn [c_src c_todo]. destruct K as (K1 & K2 & _). rewrite K1, K2.
  apply (in_map (fun g => (g_id g, g_seq g))). apply pick_elig_In; assumption.
Qed.

(* the result of a completed compaction, relative to the state [m0] before it: every segment is a segment
   of [m0] that did not pass the tests (same DeletedBytes; same size if it was full), or fresh *)
Definition compacted (P : params) (m0 m' : mem) : Prop :=
  m_maxseq m0 <= m_maxseq m' /\
  forall g', In g' (m_segs m') ->
    (exists g, In g (m_segs m0) /\ keepd g g' /\ elig P g = false) \/ fresh_since m0 g'.

Theorem fx_run P (m0 : mem) fuel : forall (s : st) (c : cursor) (m : mem),
  Inv P s -> CInv s c -> (cmeasure (s_disk s) c < fuel)%nat -> run_room P fuel s c ->
  s_mem s = Some m -> FInv P m0 m c ->
  exists m', s_mem (fst (compact_run flat_ops P fuel s c)) = Some m' /\ compacted P m0 m'.
Proof.
  induction fuel as [|f IH]; intros s c m HI HC Hlt Hroom Em HF; [lia|].
  cbn [run_room] in Hroom. destruct Hroom as [Hm Hrest]. cbn [compact_run].
  pose proof (compact_step_ok_ex P s c HI HC Hm) as Hstep.
  destruct Hm as (m_ & Em_ & Hrm). assert (m_ = m) by congruence. subst m_. clear Em_.
  destruct (compact_step flat_ops P s c) as [|s1 c1|w] eqn:Es; [| |destruct Hstep].
  - cbn [fst]. exists m. split; [exact Em|]. destruct Hstep as [Esrc Etodo]. destruct HF as [Hle H].
    split; [exact Hle|]. intros g' Hg'. destruct (H g' Hg') as [(g & Hg & Hk & Hc)|Hnew]; [left|right; exact Hnew].
    exists g. split; [exact Hg|]. split; [exact Hk|]. destruct (elig P g); [|reflexivity].
    exfalso. specialize (Hc eq_refl). unfold crem in Hc. rewrite Esrc, Etodo in Hc. destruct Hc.
  - destruct Hstep as (HI1 & HC1 & _ & _ & Hmeas & _).
    destruct (fx_step P s c m s1 c1 HI Em Hrm Es) as (m1 & Em1 & Hsf).
    assert (Hlt1 : (cmeasure (s_disk s1) c1 < f)%nat) by lia.
    apply (IH s1 c1 m1 HI1 HC1 Hlt1 Hrest Em1). eapply FInv_step; eassumption.
Qed.

Lemma fx_fuel P (s1 : st) (c : cursor) :
  Inv P s1 -> CInv s1 c -> c_src c = None ->
  (cmeasure (s_disk s1) c < S (2 * length (c_todo c) + 2 * total_recs (s_disk s1) + 2))%nat.
Proof.
  intros HI1 HC1 Esrc. unfold cmeasure. rewrite Esrc, cp_todo_measure_sum, cp_total_recs. cbn [plus].
  pose proof HC1 as (m1 & Em1 & C1 & C2 & _). unfold crem in C1, C2. rewrite Esrc in C1, C2.
  destruct (Inv_open P s1 m1 Em1 HI1) as (HL1 & _).
  pose proof (cp_sum_total (d_segs (s_disk s1)) _ (cp_picked_NoDup m1 _ _ HL1 C1 C2)). lia.
Qed.

(* MAIN FRAME THEOREM: Compact run to completion with nobody else touching the database *)
Theorem compact_frame P (s : st) (m0 : mem) :
  Inv P s -> MetaOK s -> s_mem s = Some m0 -> compact_room P s ->
  exists m', s_mem (fst (db_compact flat_ops P s)) = Some m' /\ compacted P m0 m'.
Proof.
  intros HI HM Em Hroom. unfold compact_room in Hroom. unfold db_compact.
  assert (Hm : s_mem s <> None) by congruence.
  destruct (compact_pick_ok P s HI HM Hm) as (s1 & c & Ep & HI1 & HC1 & _ & _ & Esrc & _).
  rewrite Ep in Hroom |- *.
  destruct (fx_pick P s m0 s1 c Em Ep) as (m1 & Em1 & HF).
  apply (fx_run P m0 _ s1 c m1 HI1 HC1 (fx_fuel P s1 c HI1 HC1 Esrc) Hroom Em1 HF).
Qed.

(* ================================================================================================ *)
(* D. Which segments can still pass the tests after a completed compaction                           *)

(* "a segment without dead bytes is never fragmented enough" (compactionMinFragmentation > 0; sizes
   below the header size do not occur) *)
Definition frag0 (P : params) : Prop := forall size, header_size <= size -> p_frag P 0 size = false.

Lemma frag0_of_all P : (forall size, p_frag P 0 size = false) -> frag0 P.
Proof. intros H size _. apply H. Qed.

Lemma Inv_size P (s : st) (m : mem) g :
  Inv P s -> s_mem s = Some m -> In g (m_segs m) -> header_size <= g_size g /\ g_size g < 4294967296.
Proof.
  intros HI Em Hg. destruct (Inv_open P s m Em HI) as ((Hd & [Ha1 _] & _) & _).
  destruct (Ha1 g Hg) as (f & Hf & _ & _ & Hh & Ht & Hl).
  destruct Hd as (Hok & _). rewrite Forall_forall in Hok. destruct (Hok f Hf) as (_ & _ & _ & _ & Hlt).
  unfold flen in Hl. rewrite Hh, Ht in Hl. cbn [nlen length N.of_nat] in Hl. lia.
Qed.

Lemma elig_ext P g g' :
  g_size g' = g_size g -> sm_delbytes (g_meta g') = sm_delbytes (g_meta g) -> elig P g' = elig P g.
Proof. intros E1 E2. unfold elig. rewrite E1, E2. reflexivity. Qed.

Lemma elig_nodead P g : frag0 P -> header_size <= g_size g -> sm_delbytes (g_meta g) = 0 -> elig P g = false.
Proof. intros H0 Hs Hz. unfold elig. rewrite Hz, (H0 _ Hs). apply andb_false_r. Qed.

(* a segment that still accepts writes is unique (it is the newest one) *)
Lemma open_unique (m : mem) (d : disk) a b :
  InvLog m d -> In a (m_segs m) -> In b (m_segs m) ->
  sm_full (g_meta a) = false -> sm_full (g_meta b) = false -> a = b.
Proof.
  intros HL Ha Hb Fa Fb. pose proof HL as (_ & _ & _ & [_ Hs2] & _).
  pose proof (Hs2 a b Ha Hb Fa). pose proof (Hs2 b a Hb Ha Fb).
  apply (cp_seq_inj m d a b HL Ha Hb). lia.
Qed.

Lemma db_compact_facts P (s : st) :
  Inv P s -> MetaOK s -> s_mem s <> None -> compact_room P s ->
  (exists a b n, snd (db_compact flat_ops P s) = OCompact a b n) /\
  Inv P (fst (db_compact flat_ops P s)) /\ MetaOK (fst (db_compact flat_ops P s)) /\
  (files_exact s -> files_exact (fst (db_compact flat_ops P s))).
Proof.
  intros HI HM Hm Hroom. pose proof (db_compact_ok P s HI HM Hm Hroom) as H.
  destruct (db_compact flat_ops P s) as [s' o]. cbn [fst snd].
  destruct H as (A1 & A2 & _ & _ & A5 & A6 & _). auto.
Qed.

(* 1. THE TRUE STATEMENT.  After a completed compaction a segment can pass the two tests of
   pickForCompaction only if it is the segment that was open (not full) and not eligible at pick time,
   carries dead bytes from before, and GREW by promoted records during this compaction. *)
Theorem compact_eligible_only_grown_open P (s : st) (m0 m' : mem) :
  Inv P s -> MetaOK s -> s_mem s = Some m0 -> compact_room P s -> frag0 P ->
  s_mem (fst (db_compact flat_ops P s)) = Some m' ->
  forall g', In g' (m_segs m') -> elig P g' = true ->
    exists g, In g (m_segs m0) /\ keepd g g' /\ elig P g = false /\
              sm_full (g_meta g) = false /\ g_size g < g_size g' /\ 0 < sm_delbytes (g_meta g).
Proof.
  intros HI HM Em Hroom H0 Em' g' Hg' He.
  assert (Hm : s_mem s <> None) by congruence.
  destruct (db_compact_facts P s HI HM Hm Hroom) as (_ & HI' & _).
  destruct (compact_frame P s m0 HI HM Em Hroom) as (m'' & Em'' & _ & Hc).
  assert (m'' = m') by congruence. subst m''. clear Em''.
  destruct (Inv_size P _ m' g' HI' Em' Hg') as [Hhdr _].
  destruct (Hc g' Hg') as [(g & Hg & Hk & Hne)|[Hz _]].
  - exists g. split; [exact Hg|]. split; [exact Hk|]. split; [exact Hne|].
    destruct Hk as (K1 & K2 & K3 & K4 & K5).
    assert (Hsz : g_size g' <> g_size g).
    { intros E. rewrite (elig_ext P g g' E K3) in He. congruence. }
    split; [|split; [lia|]].
    + destruct (sm_full (g_meta g)); [|reflexivity]. exfalso. apply Hsz. apply (K5 eq_refl).
    + destruct (N.eq_dec (sm_delbytes (g_meta g)) 0) as [Ez|Hnz]; [|lia]. exfalso.
      rewrite (elig_nodead P g' H0 Hhdr) in He by congruence. discriminate.
  - exfalso. rewrite (elig_nodead P g' H0 Hhdr Hz) in He. discriminate.
Qed.

(* ... and there is at most one such segment *)
Theorem compact_eligible_unique P (s : st) (m0 m' : mem) :
  Inv P s -> MetaOK s -> s_mem s = Some m0 -> compact_room P s -> frag0 P ->
  s_mem (fst (db_compact flat_ops P s)) = Some m' ->
  forall a b, In a (m_segs m') -> In b (m_segs m') -> elig P a = true -> elig P b = true -> a = b.
Proof.
  intros HI HM Em Hroom H0 Em' a b Ha Hb Ea Eb.
  destruct (compact_eligible_only_grown_open P s m0 m' HI HM Em Hroom H0 Em' a Ha Ea) as (ga & Hga & Ka & _ & Fa & _).
  destruct (compact_eligible_only_grown_open P s m0 m' HI HM Em Hroom H0 Em' b Hb Eb) as (gb & Hgb & Kb & _ & Fb & _).
  destruct (Inv_open P s m0 Em HI) as (HL & _).
  assert (ga = gb) by (apply (open_unique m0 (s_disk s) ga gb HL Hga Hgb Fa Fb)). subst gb.
  assert (Hm : s_mem s <> None) by congruence.
  destruct (db_compact_facts P s HI HM Hm Hroom) as (_ & HI' & _).
  destruct (Inv_open P _ m' Em' HI') as (HL' & _).
  apply (ids_increasing_unique (m_segs m') a b); [apply HL'|exact Ha|exact Hb|].
  destruct Ka as (Ka & _). destruct Kb as (Kb & _). congruence.
Qed.

(* 1a. Fixpoint, first sufficient condition: the segment open at pick time is picked or has no dead
   bytes (for instance: it was created by a restart or a previous compaction and saw no overwrite) *)
Theorem compact_fixpoint_open_clean P (s : st) (m0 m' : mem) :
  Inv P s -> MetaOK s -> s_mem s = Some m0 -> compact_room P s -> frag0 P ->
  (forall g, In g (m_segs m0) -> sm_full (g_meta g) = false ->
     elig P g = true \/ sm_delbytes (g_meta g) = 0) ->
  s_mem (fst (db_compact flat_ops P s)) = Some m' ->
  pick P m' = [].
Proof.
  intros HI HM Em Hroom H0 Hopen Em'. apply pick_nil_iff. intros g' Hg'.
  destruct (elig P g') eqn:He; [exfalso|reflexivity].
  destruct (compact_eligible_only_grown_open P s m0 m' HI HM Em Hroom H0 Em' g' Hg' He)
    as (g & Hg & _ & Hne & Hf & _ & Hd).
  destruct (Hopen g Hg Hf) as [X|X]; [congruence|lia].
Qed.

(* 1b. Fixpoint, second sufficient condition: no segment is ever too small for compaction and the
   fragmentation test is antitone in the size (true of deletedBytes/size >= theta) *)
Theorem compact_fixpoint_no_minsize P (s : st) (m0 m' : mem) :
  Inv P s -> MetaOK s -> s_mem s = Some m0 -> compact_room P s -> frag0 P ->
  p_minseg P <= header_size ->
  (forall d sz sz', sz <= sz' -> p_frag P d sz' = true -> p_frag P d sz = true) ->
  s_mem (fst (db_compact flat_ops P s)) = Some m' ->
  pick P m' = [].
Proof.
  intros HI HM Em Hroom H0 Hmin Hanti Em'. apply pick_nil_iff. intros g' Hg'.
  destruct (elig P g') eqn:He; [exfalso|reflexivity].
  destruct (compact_eligible_only_grown_open P s m0 m' HI HM Em Hroom H0 Em' g' Hg' He)
    as (g & Hg & (_ & _ & K3 & _) & Hne & _ & Hlt & _).
  destruct (Inv_size P s m0 g HI Em Hg) as [Hh H32].
  unfold elig in He, Hne. apply andb_true_iff in He. destruct He as [_ He].
  rewrite K3 in He. rewrite (Hanti _ (g_size g) (g_size g') (N.lt_le_incl _ _ Hlt) He) in Hne.
  rewrite (u32_small _ H32) in Hne. destruct (N.ltb_spec (g_size g) (p_minseg P)); [lia|discriminate Hne].
Qed.

(* a Compact that picks nothing changes nothing in memory *)
Lemma db_compact_nil P (s : st) (m : mem) :
  s_mem s = Some m -> pick P m = [] -> s_mem (fst (db_compact flat_ops P s)) = Some m.
Proof.
  intros Em Ep. unfold db_compact, compact_pick. rewrite Em, Ep. cbn [fold_left map c_todo length].
  cbn [compact_run]. unfold compact_step. cbn [s_mem with_mem c_src c_todo fst]. reflexivity.
Qed.

(* 1c. TWO compactions in a row always reach the fixpoint: the only segment that the first one can
   leave eligible is sealed and compacted by the second one, whose promoted records go to fresh
   segments. *)
Theorem compact_twice_fixpoint P (s : st) (m0 m2 : mem) :
  Inv P s -> MetaOK s -> s_mem s = Some m0 -> compact_room P s -> frag0 P ->
  compact_room P (fst (db_compact flat_ops P s)) ->
  s_mem (fst (db_compact flat_ops P (fst (db_compact flat_ops P s)))) = Some m2 ->
  pick P m2 = [].
Proof.
  intros HI HM Em Hroom H0 Hroom1 Em2.
  assert (Hm : s_mem s <> None) by congruence.
  destruct (db_compact_facts P s HI HM Hm Hroom) as (_ & HI1 & HM1 & _).
  destruct (compact_frame P s m0 HI HM Em Hroom) as (m1 & Em1 & _ & Hc1).
  set (s1 := fst (db_compact flat_ops P s)) in *.
  apply pick_nil_iff. intros g2 Hg2. destruct (elig P g2) eqn:He2; [exfalso|reflexivity].
  destruct (compact_eligible_only_grown_open P s1 m1 m2 HI1 HM1 Em1 Hroom1 H0 Em2 g2 Hg2 He2)
    as (g1 & Hg1 & Kg & Hne1 & Hf1 & Hlt & Hd1).
  destruct (pick P m1) as [|x l] eqn:Ep.
  - (* the second compaction had nothing to do *)
    pose proof (db_compact_nil P s1 m1 Em1 Ep) as E. assert (m2 = m1) by congruence. subst m2.
    pose proof (pick_elig_In P m1 g2 Hg2 He2) as HIn. rewrite Ep in HIn. destruct HIn.
  - assert (Hy : exists y, In y (m_segs m1) /\ elig P y = true).
    { destruct (pick_why P m1 x) as [Hx [Hex|(y & Hy & Hey & _)]]; [rewrite Ep; left; reflexivity| |].
      - exists x. split; assumption.
      - exists y. split; assumption. }
    destruct Hy as (y & Hy & Hey).
    destruct (compact_eligible_only_grown_open P s m0 m1 HI HM Em Hroom H0 Em1 y Hy Hey)
      as (y0 & Hy0 & Ky & _ & Fy0 & _).
    destruct (Hc1 g1 Hg1) as [(g0 & Hg0 & Kg0 & _)|[Hz _]]; [|lia].
    assert (Fg0 : sm_full (g_meta g0) = false).
    { destruct (sm_full (g_meta g0)) eqn:F; [|reflexivity].
      destruct Kg0 as (_ & _ & _ & _ & K5). destruct (K5 F) as [F1 _]. congruence. }
    destruct (Inv_open P s m0 Em HI) as (HL & _).
    assert (g0 = y0) by (apply (open_unique m0 (s_disk s) g0 y0 HL Hg0 Hy0 Fg0 Fy0)). subst y0.
    destruct (Inv_open P s1 m1 Em1 HI1) as (HL1 & _).
    assert (g1 = y).
    { apply (ids_increasing_unique (m_segs m1) g1 y); [apply HL1|exact Hg1|exact Hy|].
      destruct Kg0 as (A & _). destruct Ky as (B & _). congruence. }
    subst y. congruence.
Qed.

(* ================================================================================================ *)
(* E. What "nothing eligible" means in bytes                                                         *)

(* example instance of the fragmentation test: deletedBytes / size >= num / den *)
Definition frag_ratio (num den : N) (delbytes size : N) : bool := num * size <=? den * delbytes.

Lemma frag_ratio_frag0 P num den : 0 < num -> p_frag P = frag_ratio num den -> frag0 P.
Proof.
  intros Hn E size Hs. rewrite E. unfold frag_ratio. apply N.leb_gt. unfold header_size in Hs. nia.
Qed.

Lemma frag_ratio_antitone num den d sz sz' :
  sz <= sz' -> frag_ratio num den d sz' = true -> frag_ratio num den d sz = true.
Proof. unfold frag_ratio. intros Hle H. apply N.leb_le in H. apply N.leb_le. nia. Qed.

(* a segment that fails the tests is small or dense *)
Theorem not_eligible_dense P g :
  elig P g = false -> p_minseg P <= u32 (g_size g) ->
  p_frag P (sm_delbytes (g_meta g)) (g_size g) = false.
Proof.
  unfold elig. intros H Hsz. destruct (N.ltb_spec (u32 (g_size g)) (p_minseg P)) as [X|_]; [lia|].
  cbn [negb andb] in H. exact H.
Qed.

Theorem sealed_segments_dense P (m : mem) :
  pick P m = [] ->
  forall g, In g (m_segs m) -> p_minseg P <= u32 (g_size g) ->
    p_frag P (sm_delbytes (g_meta g)) (g_size g) = false.
Proof. intros Ep g Hg. apply not_eligible_dense. apply (proj1 (pick_nil_iff P m) Ep g Hg). Qed.

Theorem sealed_segments_dense_ratio P (m : mem) num den :
  p_frag P = frag_ratio num den -> pick P m = [] ->
  forall g, In g (m_segs m) -> p_minseg P <= u32 (g_size g) ->
    den * sm_delbytes (g_meta g) < num * g_size g.
Proof.
  intros EP Ep g Hg Hsz. pose proof (sealed_segments_dense P m Ep g Hg Hsz) as H.
  rewrite EP in H. unfold frag_ratio in H. apply N.leb_gt in H. exact H.
Qed.

(* summed over all segments that are large enough to be considered *)
Definition big (P : params) (g : mseg) : bool := negb (u32 (g_size g) <? p_minseg P).
Definition sum_of (f : mseg -> N) (l : list mseg) : N := fold_right (fun g n => f g + n) 0 l.

Lemma dense_sum P num den (l : list mseg) :
  p_frag P = frag_ratio num den -> (forall g, In g l -> elig P g = false) ->
  den * sum_of (fun g => sm_delbytes (g_meta g)) (filter (big P) l) <= num * sum_of g_size (filter (big P) l).
Proof.
  intros EP. induction l as [|g l IH]; intros H; [cbn; lia|].
  assert (IH' := IH (fun x Hx => H x (or_intror Hx))). cbn [filter].
  destruct (big P g) eqn:Eb; [|exact IH'].
  cbn [sum_of fold_right]. fold (sum_of (fun g => sm_delbytes (g_meta g)) (filter (big P) l)).
  fold (sum_of g_size (filter (big P) l)).
  pose proof (H g (or_introl eq_refl)) as He. unfold elig in He. unfold big in Eb. rewrite Eb in He.
  cbn [andb] in He. rewrite EP in He. unfold frag_ratio in He. apply N.leb_gt in He.
  rewrite !N.mul_add_distr_l. lia.
Qed.

Theorem dense_total P (m : mem) num den :
  p_frag P = frag_ratio num den -> pick P m = [] ->
  den * sum_of (fun g => sm_delbytes (g_meta g)) (filter (big P) (m_segs m))
  <= num * sum_of g_size (filter (big P) (m_segs m)).
Proof. intros EP Ep. apply (dense_sum P num den _ EP). apply pick_nil_iff. exact Ep. Qed.

(* ================================================================================================ *)
(* F. File count                                                                                     *)

Lemma seg_count P (s : st) (m : mem) :
  Inv P s -> s_mem s = Some m -> length (d_segs (s_disk s)) = length (m_segs m).
Proof.
  intros HI Em. destruct (Inv_open P s m Em HI) as (((_ & Hnd & _) & [Ha1 Ha2] & Hinc & _) & _).
  pose proof (ids_increasing_NoDup _ Hinc) as Hng.
  assert (H1 : incl (map f_id (d_segs (s_disk s))) (map g_id (m_segs m))).
  { intros i Hi. apply in_map_iff in Hi. destruct Hi as (f & <- & Hf).
    destruct (Ha2 f Hf) as (g & Hg & E & _). rewrite <- E. apply in_map. exact Hg. }
  assert (H2 : incl (map g_id (m_segs m)) (map f_id (d_segs (s_disk s)))).
  { intros i Hi. apply in_map_iff in Hi. destruct Hi as (g & <- & Hg).
    destruct (Ha1 g Hg) as (f & Hf & E & _). rewrite <- E. apply in_map. exact Hf. }
  pose proof (NoDup_incl_length Hnd H1) as L1. pose proof (NoDup_incl_length Hng H2) as L2.
  rewrite !map_length in L1, L2. lia.
Qed.

Lemma seg_names_count (d : disk) :
  length (filter is_segfile (seg_names d)) = length (d_segs d) /\
  (length (seg_names d) <= 2 * length (d_segs d))%nat.
Proof.
  unfold seg_names. induction (d_segs d) as [|f l [IH1 IH2]]; [split; reflexivity|].
  cbn [map concat]. rewrite filter_app, !app_length. cbn [filter is_segfile length].
  destruct (gob_present (f_meta f)); cbn [filter is_segfile length app]; split; lia.
Qed.

(* a directory without leftovers: one .psg per segment, at most one side file per segment (written by
   Close, read by Open, removed with the segment), and the five fixed files *)
Lemma dir_count (s : st) :
  files_exact s ->
  length (filter is_segfile (dir (s_disk s))) = length (d_segs (s_disk s)) /\
  (length (dir (s_disk s)) <= 2 * length (d_segs (s_disk s)) + 5)%nat.
Proof.
  intros [Ho Hb]. destruct (seg_names_count (s_disk s)) as [C1 C2]. unfold dir. rewrite Ho, Hb.
  cbn [map]. rewrite !filter_app, !app_length, C1.
  destruct (d_index (s_disk s)), (d_overflow (s_disk s)), (gob_present (d_imeta (s_disk s))),
    (gob_present (d_dbmeta (s_disk s))), (d_lock (s_disk s)); cbn [filter is_segfile length app]; split; lia.
Qed.

Theorem files_match_segments P (s : st) (m : mem) :
  Inv P s -> files_exact s -> s_mem s = Some m ->
  length (filter is_segfile (dir (s_disk s))) = length (m_segs m) /\
  (length (dir (s_disk s)) <= 2 * length (m_segs m) + 5)%nat.
Proof.
  intros HI HF Em. destruct (dir_count s HF) as [C1 C2]. rewrite (seg_count P s m HI Em) in C1, C2. auto.
Qed.

(* the files of a segment that passed the tests at pick time are gone *)
Lemma compacted_file_gone P (s s' : st) (m0 m' : mem) g n :
  Inv P s -> s_mem s = Some m0 -> Inv P s' -> files_exact s' -> s_mem s' = Some m' ->
  compacted P m0 m' -> In g (m_segs m0) -> elig P g = true ->
  n = FSeg (g_id g) (g_seq g) \/ n = FSegMeta (g_id g) (g_seq g) -> ~ In n (dir (s_disk s')).
Proof.
  intros HI Em HI' HF' Em' [_ Hc] Hg He Hn HIn.
  destruct (dir_exact P s' m' n HI' HF' Em' HIn) as [(g' & Hg' & Hn')|Hfix].
  - assert (E : g_id g' = g_id g /\ g_seq g' = g_seq g).
    { destruct Hn as [->| ->], Hn' as [X|X]; inversion X; auto. }
    destruct E as [Eid Eseq]. destruct (Inv_open P s m0 Em HI) as ((_ & _ & Hinc & [Hs1 _] & _) & _).
    destruct (Hc g' Hg') as [(g2 & Hg2 & (K1 & _) & Hne)|[_ Hs]].
    + assert (g2 = g) by (apply (ids_increasing_unique _ g2 g Hinc Hg2 Hg); congruence). subst g2. congruence.
    + pose proof (Hs1 g Hg). lia.
  - unfold fixed_name in Hfix. destruct Hn as [->| ->]; intuition discriminate.
Qed.

(* 3. C15, structural part, after ONE completed compaction: no file leaks, one .psg per in-memory
   segment, at most 2n+5 files, the segments that passed the tests are gone with their files, and a
   remaining segment passes the tests only if it is the (unique) segment that was open at pick time *)
Theorem C15_files_bounded_after_compact P (s : st) (m0 : mem) :
  Inv P s -> MetaOK s -> files_exact s -> s_mem s = Some m0 -> compact_room P s -> frag0 P ->
  exists m', s_mem (fst (db_compact flat_ops P s)) = Some m' /\
    files_exact (fst (db_compact flat_ops P s)) /\
    length (filter is_segfile (dir (s_disk (fst (db_compact flat_ops P s))))) = length (m_segs m') /\
    (length (dir (s_disk (fst (db_compact flat_ops P s)))) <= 2 * length (m_segs m') + 5)%nat /\
    (forall n, In n (dir (s_disk (fst (db_compact flat_ops P s)))) ->
       (exists g, In g (m_segs m') /\ (n = FSeg (g_id g) (g_seq g) \/ n = FSegMeta (g_id g) (g_seq g))) \/
       fixed_name n) /\
    (forall g, In g (m_segs m0) -> elig P g = true ->
       ~ In (FSeg (g_id g) (g_seq g)) (dir (s_disk (fst (db_compact flat_ops P s)))) /\
       ~ In (FSegMeta (g_id g) (g_seq g)) (dir (s_disk (fst (db_compact flat_ops P s))))) /\
    (forall g', In g' (m_segs m') ->
       elig P g' = false \/
       exists g, In g (m_segs m0) /\ keepd g g' /\ sm_full (g_meta g) = false /\ elig P g = false /\
                 g_size g < g_size g').
Proof.
  intros HI HM HF Em Hroom H0. assert (Hm : s_mem s <> None) by congruence.
  destruct (db_compact_facts P s HI HM Hm Hroom) as (_ & HI' & _ & HF'). specialize (HF' HF).
  destruct (compact_frame P s m0 HI HM Em Hroom) as (m' & Em' & Hc).
  set (s' := fst (db_compact flat_ops P s)) in *.
  destruct (files_match_segments P s' m' HI' HF' Em') as [C1 C2].
  exists m'. split; [exact Em'|]. split; [exact HF'|]. split; [exact C1|]. split; [exact C2|].
  split; [intros n Hn; apply (dir_exact P s' m' n HI' HF' Em' Hn)|]. split.
  - intros g Hg He. split; apply (compacted_file_gone P s s' m0 m' g _ HI Em HI' HF' Em' Hc Hg He); auto.
  - intros g' Hg'. destruct (elig P g') eqn:He; [right|left; reflexivity].
    destruct (compact_eligible_only_grown_open P s m0 m' HI HM Em Hroom H0 Em' g' Hg' He)
      as (g & Hg & Hk & Hne & Hf & Hlt & _).
    exists g. auto.
Qed.

(* ... and after TWO: every remaining segment is small or dense *)
Theorem C15_files_bounded_after_two_compactions P (s : st) (m0 : mem) :
  Inv P s -> MetaOK s -> files_exact s -> s_mem s = Some m0 -> compact_room P s -> frag0 P ->
  compact_room P (fst (db_compact flat_ops P s)) ->
  exists m2, s_mem (fst (db_compact flat_ops P (fst (db_compact flat_ops P s)))) = Some m2 /\
    pick P m2 = [] /\
    files_exact (fst (db_compact flat_ops P (fst (db_compact flat_ops P s)))) /\
    length (filter is_segfile (dir (s_disk (fst (db_compact flat_ops P (fst (db_compact flat_ops P s)))))))
      = length (m_segs m2) /\
    (length (dir (s_disk (fst (db_compact flat_ops P (fst (db_compact flat_ops P s))))))
      <= 2 * length (m_segs m2) + 5)%nat /\
    (forall g, In g (m_segs m2) -> p_minseg P <= u32 (g_size g) ->
       p_frag P (sm_delbytes (g_meta g)) (g_size g) = false).
Proof.
  intros HI HM HF Em Hroom H0 Hroom1. assert (Hm : s_mem s <> None) by congruence.
  destruct (db_compact_facts P s HI HM Hm Hroom) as (_ & HI1 & HM1 & HF1). specialize (HF1 HF).
  destruct (compact_frame P s m0 HI HM Em Hroom) as (m1 & Em1 & _).
  set (s1 := fst (db_compact flat_ops P s)) in *.
  assert (Hm1 : s_mem s1 <> None) by congruence.
  destruct (db_compact_facts P s1 HI1 HM1 Hm1 Hroom1) as (_ & HI2 & _ & HF2). specialize (HF2 HF1).
  destruct (compact_frame P s1 m1 HI1 HM1 Em1 Hroom1) as (m2 & Em2 & _).
  pose proof (compact_twice_fixpoint P s m0 m2 HI HM Em Hroom H0 Hroom1 Em2) as Ep.
  destruct (files_match_segments P _ m2 HI2 HF2 Em2) as [C1 C2].
  exists m2. split; [exact Em2|]. split; [exact Ep|]. split; [exact HF2|]. split; [exact C1|].
  split; [exact C2|]. apply sealed_segments_dense. exact Ep.
Qed.

(* ================================================================================================ *)
(* G. Concrete runs (vm_compute): the hypotheses are satisfiable, the fixpoint claim is refuted       *)
Module FixEx.

(* segments of at most 590 bytes (header 512 + two 31-byte records + one or two small ones); a segment
   is considered from 540 bytes on; fragmentation threshold 1% (and never without dead bytes) *)
Definition P1 : params :=
  {| p_maxseg := 590; p_minseg := 540;
     p_frag := fun delbytes size => (0 <? delbytes) && frag_ratio 1 100 delbytes size;
     p_sync := false; p_grow := fun _ _ => false; p_hash := fun _ _ => 0 |}.

Lemma P1_ok : params_ok P1.
Proof. vm_compute. reflexivity. Qed.

(* the hypothesis on the fragmentation test holds literally, for every size *)
Lemma P1_frag_zero : forall size, p_frag P1 0 size = false.
Proof. intros size. reflexivity. Qed.

Lemma P1_frag0 : frag0 P1.
Proof. apply frag0_of_all. exact P1_frag_zero. Qed.

Definition big : val := repeat 65 20%nat.                       (* a 31-byte record with a 1-byte key *)
Definition put (k : N) (v : val) : op' := OpBase (OpPut [k] v).
Definition del (k : N) : op' := OpBase (OpDelete [k]).
Definition run (l : list op') : st := final' (step_flat' P1) (flat_init 7) l.

(* id, sequence id, size, DeletedBytes, DeleteRecords, Full *)
Definition shape (s : st) : list (N * N * N * N * N * bool) :=
  match s_mem s with
  | Some m => map (fun g => (g_id g, g_seq g, g_size g, sm_delbytes (g_meta g), sm_delrec (g_meta g),
                             sm_full (g_meta g))) (m_segs m)
  | None => []
  end.
Definition picks (s : st) : list (N * N) :=
  match s_mem s with Some m => map (fun g => (g_id g, g_seq g)) (pick P1 m) | None => [] end.
Definition mem_of (s : st) : mem :=
  match s_mem s with
  | Some m => m
  | None => {| m_segs := []; m_cur := (0, 0); m_cur_removed := true; m_maxseq := 0; m_idx := []; m_seed := 0 |}
  end.
Definition compacted_once (s : st) : st := fst (db_compact flat_ops P1 s).

(* every state reached by a run satisfies the hypotheses of the theorems of this file *)
Lemma run_hyps (l : list op') :
  forallb op_valid'_b l = true -> rooms'_b P1 (flat_init 7) l = true ->
  Inv P1 (run l) /\ MetaOK (run l).
Proof.
  intros Hv Hr.
  destruct (C01_chain_from_empty_with_compact P1 7 l P1_ok) as (_ & _ & _ & D & E & _).
  - apply ops_valid'_b_ok. exact Hv.
  - apply rooms'_b_ok. exact Hr.
  - exact (conj D E).
Qed.

(* ---- (a) three segments, garbage in two of them, both picked: the fixpoint is reached ---- *)
Definition opsA : list op' :=
  [put 97 big; put 106 [1]; put 98 big;        (* 00000-1: a, j, b *)
   put 106 [2]; put 99 big; put 100 big;       (* 00001-2: j (kills j in 00000-1), c, d *)
   put 106 [3]].                               (* 00002-3: j (kills j in 00001-2); stays open *)
Definition sA : st := run opsA.

Example fixpoint_example :
  shape sA = [(0, 1, 586, 12, 0, true); (1, 2, 586, 12, 0, true); (2, 3, 524, 0, 0, false)] /\
  picks sA = [(0, 1); (1, 2)] /\
  snd (db_compact flat_ops P1 sA) = OCompact 2 2 24 /\
  (* a, b go to the open segment 00002-3, which fills up; c, d go to a new segment that reuses id 0 *)
  shape (compacted_once sA) = [(0, 4, 574, 0, 0, false); (2, 3, 586, 0, 0, true)] /\
  picks (compacted_once sA) = [] /\
  dir (s_disk (compacted_once sA)) = [FSeg 2 3; FSeg 0 4; FMain; FOverflow; FLock].
Proof. vm_compute. repeat split. Qed.

Lemma sA_hyps : Inv P1 sA /\ MetaOK sA /\ files_exact sA /\ s_mem sA = Some (mem_of sA) /\ compact_room P1 sA.
Proof.
  destruct (run_hyps opsA) as [HI HM]; [vm_compute; reflexivity|vm_compute; reflexivity|].
  assert (HF : files_exact sA) by (split; vm_compute; reflexivity).
  assert (Em : s_mem sA = Some (mem_of sA)) by (vm_compute; reflexivity).
  assert (HR : compact_room P1 sA) by (apply compact_room_b_ok; vm_compute; reflexivity).
  exact (conj HI (conj HM (conj HF (conj Em HR)))).
Qed.

(* the theorems apply to this state and predict what vm_compute shows *)
Example fixpoint_theorems_apply :
  exists m', s_mem (compacted_once sA) = Some m' /\ pick P1 m' = [] /\ files_exact (compacted_once sA) /\
    length (filter is_segfile (dir (s_disk (compacted_once sA)))) = length (m_segs m') /\
    (length (dir (s_disk (compacted_once sA))) <= 2 * length (m_segs m') + 5)%nat.
Proof.
  destruct sA_hyps as (HI & HM & HF & Em & HR).
  destruct (C15_files_bounded_after_compact P1 sA (mem_of sA) HI HM HF Em HR P1_frag0)
    as (m' & Em' & HF' & C1 & C2 & _).
  exists m'. split; [exact Em'|]. split; [|exact (conj HF' (conj C1 C2))].
  apply (compact_fixpoint_open_clean P1 sA (mem_of sA) m' HI HM Em HR P1_frag0); [|exact Em'].
  assert (Hb : forallb (fun g => sm_full (g_meta g) || elig P1 g || (sm_delbytes (g_meta g) =? 0))
                       (m_segs (mem_of sA)) = true) by (vm_compute; reflexivity).
  intros g Hg Hf. pose proof (proj1 (forallb_forall _ _) Hb g Hg) as H. cbn beta in H.
  rewrite Hf in H. cbn [orb] in H. apply orb_true_iff in H. destruct H as [H|H]; [left; exact H|right].
  apply N.eqb_eq. exact H.
Qed.

(* ---- (b) COUNTEREXAMPLE to "a completed Compact leaves nothing eligible" -------------------------
   The open segment 00001-2 holds 12 dead bytes but is 4 bytes too small to be considered.  Compact
   picks 00000-1 and promotes its live records a, b: a goes to 00001-2, which thereby grows to 567
   bytes and passes both tests; b no longer fits and goes to a fresh segment. *)
Definition opsB : list op' :=
  [put 97 big; put 106 [1]; put 98 big;        (* 00000-1: a, j, b *)
   put 106 [2]; put 106 [3]].                  (* 00001-2: j (kills j in 00000-1), j (kills the previous j) *)
Definition sB : st := run opsB.

Lemma sB_hyps : Inv P1 sB /\ MetaOK sB /\ files_exact sB /\ s_mem sB = Some (mem_of sB) /\ compact_room P1 sB.
Proof.
  destruct (run_hyps opsB) as [HI HM]; [vm_compute; reflexivity|vm_compute; reflexivity|].
  assert (HF : files_exact sB) by (split; vm_compute; reflexivity).
  assert (Em : s_mem sB = Some (mem_of sB)) by (vm_compute; reflexivity).
  assert (HR : compact_room P1 sB) by (apply compact_room_b_ok; vm_compute; reflexivity).
  exact (conj HI (conj HM (conj HF (conj Em HR)))).
Qed.

Lemma sB_computed :
  shape sB = [(0, 1, 586, 12, 0, true); (1, 2, 536, 12, 0, false)] /\
  picks sB = [(0, 1)] /\
  snd (db_compact flat_ops P1 sB) = OCompact 1 1 12 /\
  shape (compacted_once sB) = [(1, 2, 567, 12, 0, true); (2, 3, 543, 0, 0, false)] /\
  picks (compacted_once sB) = [(1, 2)] /\
  (* the second Compact finishes the job *)
  snd (db_compact flat_ops P1 (compacted_once sB)) = OCompact 1 1 12 /\
  shape (compacted_once (compacted_once sB)) = [(2, 3, 586, 0, 0, false)] /\
  picks (compacted_once (compacted_once sB)) = [].
Proof. vm_compute. repeat split. Qed.

Theorem compact_fixpoint_refuted :
  exists (P : params) (s : st) (m0 m' : mem),
    Inv P s /\ MetaOK s /\ files_exact s /\ s_mem s = Some m0 /\ compact_room P s /\
    (forall size, p_frag P 0 size = false) /\
    (exists a b n, snd (db_compact flat_ops P s) = OCompact a b n) /\
    s_mem (fst (db_compact flat_ops P s)) = Some m' /\ pick P m' <> [].
Proof.
  destruct sB_hyps as (HI & HM & HF & Em & HR).
  exists P1, sB, (mem_of sB), (mem_of (compacted_once sB)).
  split; [exact HI|]. split; [exact HM|]. split; [exact HF|]. split; [exact Em|]. split; [exact HR|].
  split; [exact P1_frag_zero|]. split; [eexists _, _, _; vm_compute; reflexivity|].
  split; [vm_compute; reflexivity|]. vm_compute. discriminate.
Qed.

(* ---- (c) the second Compact may rewrite a segment that the first one did not touch ----------------
   00000-1 is dense (no dead bytes).  The open segment 00002-3 holds a delete record; after growing
   it passes the tests, and because of the delete record pickForCompaction adds every older segment. *)
Definition opsC : list op' :=
  [put 97 big; put 98 big;                     (* 00000-1: a, b *)
   put 99 big; put 120 [1]; put 100 big;       (* 00001-2: c, x, d *)
   del 120].                                   (* 00002-3: delete x (kills x in 00001-2) *)
Definition sC : st := run opsC.

Example second_compact_rewrites_untouched_segment :
  shape sC = [(0, 1, 574, 0, 0, true); (1, 2, 586, 12, 0, true); (2, 3, 523, 11, 1, false)] /\
  picks sC = [(1, 2)] /\
  snd (db_compact flat_ops P1 sC) = OCompact 1 1 12 /\
  shape (compacted_once sC) = [(0, 1, 574, 0, 0, true); (2, 3, 585, 11, 1, false)] /\
  picks (compacted_once sC) = [(0, 1); (2, 3)] /\
  snd (db_compact flat_ops P1 (compacted_once sC)) = OCompact 2 1 11 /\
  shape (compacted_once (compacted_once sC)) = [(0, 5, 574, 0, 0, false); (1, 4, 574, 0, 0, true)] /\
  picks (compacted_once (compacted_once sC)) = [] /\
  dir (s_disk (compacted_once (compacted_once sC))) = [FSeg 1 4; FSeg 0 5; FMain; FOverflow; FLock].
Proof. vm_compute. repeat split. Qed.

(* the two-compactions theorem applies to (b) *)
Example twice_theorem_applies :
  exists m2, s_mem (compacted_once (compacted_once sB)) = Some m2 /\ pick P1 m2 = [].
Proof.
  destruct sB_hyps as (HI & HM & HF & Em & HR).
  assert (HR1 : compact_room P1 (fst (db_compact flat_ops P1 sB))) by (apply compact_room_b_ok; vm_compute; reflexivity).
  destruct (C15_files_bounded_after_two_compactions P1 sB (mem_of sB) HI HM HF Em HR P1_frag0 HR1)
    as (m2 & Em2 & Ep & _).
  exists m2. exact (conj Em2 Ep).
Qed.

End FixEx.

(* ================================================================================================ *)
Print Assumptions pick_nil_iff.
Print Assumptions pick_why.
Print Assumptions fx_write_record.
Print Assumptions fx_step.
Print Assumptions compact_frame.
Print Assumptions compact_eligible_only_grown_open.
Print Assumptions compact_eligible_unique.
Print Assumptions compact_fixpoint_open_clean.
Print Assumptions compact_fixpoint_no_minsize.
Print Assumptions compact_twice_fixpoint.
Print Assumptions sealed_segments_dense.
Print Assumptions sealed_segments_dense_ratio.
Print Assumptions dense_total.
Print Assumptions files_match_segments.
Print Assumptions C15_files_bounded_after_compact.
Print Assumptions C15_files_bounded_after_two_compactions.
Print Assumptions FixEx.fixpoint_example.
Print Assumptions FixEx.fixpoint_theorems_apply.
Print Assumptions FixEx.compact_fixpoint_refuted.
Print Assumptions FixEx.second_compact_rewrites_untouched_segment.
Print Assumptions FixEx.twice_theorem_applies.
