(* DBLemmas.v -- reusable facts about the database model (DB.v) and its abstraction (DBInv.v),
   instantiated with the flat reference index.  HEADER-INDEX-PLACEHOLDER *)
From Coq Require Import ZArith Lia ZifyN ZifyNat ZifyBool Permutation Sorted.
From Pogreb Require Import Base BaseLemmas Crc Bytes Record RecordProofs Flat Spec DB DBInv.
Ltac Zify.zify_post_hook ::= Z.div_mod_to_equations.

Local Notation disk := (@DB.disk flat).
Local Notation st := (@DB.st flat).
Local Notation mem := (@DB.mem flat).
Local Notation fsev := (@DB.fsev flat).

(* ================================================================================================ *)
(* 0. Constants (kept folded in goals; these equations feed lia)                                     *)
Lemma header_size_eq : header_size = 512. Proof. reflexivity. Qed.
Lemma rec_overhead_eq : rec_overhead = 10. Proof. reflexivity. Qed.
Lemma max_key_len_eq : max_key_len = 65535. Proof. reflexivity. Qed.
Lemma max_val_len_eq : max_val_len = 536870912. Proof. reflexivity. Qed.
Lemma rec_max_eq : rec_max = 536936457. Proof. reflexivity. Qed.

(* instantiate a Forall hypothesis, beta-reduced *)
Ltac fa H y Hy := let X := fresh "Hfa" in
  pose proof (proj1 (Forall_forall _ _) H y Hy) as X; cbn beta in X.

(* put the values of the constants into the context, for lia *)
Ltac consts :=
  pose proof header_size_eq; pose proof rec_overhead_eq; pose proof max_key_len_eq;
  pose proof max_val_len_eq; pose proof rec_max_eq.

Lemma rsize_eq r : rsize r = 10 + nlen (rk r) + nlen (rv r).
Proof. unfold rsize. rewrite rec_overhead_eq. reflexivity. Qed.
Lemma rsize_ge r : 10 <= rsize r.
Proof. rewrite rsize_eq. lia. Qed.
Lemma rsize_pos r : 0 < rsize r.
Proof. pose proof (rsize_ge r). lia. Qed.
Lemma rsize_le_max r : rec_fits r -> rsize r <= rec_max.
Proof. intros (_ & _ & Hk & Hv). rewrite rsize_eq. consts. lia. Qed.

Lemma rec_fits_mkput k v :
  Forall byte k -> Forall byte v -> nlen k <= max_key_len -> nlen v <= max_val_len -> rec_fits (mkput k v).
Proof. intros. unfold rec_fits, mkput; cbn [rk rv]. auto. Qed.
Lemma rec_fits_mkdel k : Forall byte k -> nlen k <= max_key_len -> rec_fits (mkdel k).
Proof.
  intros. unfold rec_fits, mkdel; cbn [rk rv]. repeat split; auto.
  rewrite nlen_nil. apply N.le_0_l.
Qed.

(* ================================================================================================ *)
(* 1. with_offsets / rec_at / seg_entries                                                            *)
Lemma recs_len_nil : recs_len [] = 0. Proof. reflexivity. Qed.
Lemma recs_len_cons r rs : recs_len (r :: rs) = rsize r + recs_len rs. Proof. reflexivity. Qed.
Lemma recs_len_app a b : recs_len (a ++ b) = recs_len a + recs_len b.
Proof.
  induction a as [|r a IH]; [reflexivity|].
  cbn [app]. rewrite !recs_len_cons, IH. lia.
Qed.
Lemma recs_len_snoc rs r : recs_len (rs ++ [r]) = recs_len rs + rsize r.
Proof. rewrite recs_len_app, recs_len_cons, recs_len_nil. lia. Qed.

Lemma with_offsets_nil o : with_offsets o [] = []. Proof. reflexivity. Qed.
Lemma with_offsets_cons o r rs : with_offsets o (r :: rs) = (o, r) :: with_offsets (o + rsize r) rs.
Proof. reflexivity. Qed.

Lemma with_offsets_app o a b :
  with_offsets o (a ++ b) = with_offsets o a ++ with_offsets (o + recs_len a) b.
Proof.
  revert o. induction a as [|r a IH]; intros o.
  - cbn [app with_offsets]. rewrite recs_len_nil, N.add_0_r. reflexivity.
  - cbn [app]. rewrite !with_offsets_cons, IH, recs_len_cons, N.add_assoc. reflexivity.
Qed.

(* the offset just past the last record is [o + recs_len rs] *)
Lemma with_offsets_snoc o rs r :
  with_offsets o (rs ++ [r]) = with_offsets o rs ++ [(o + recs_len rs, r)].
Proof. rewrite with_offsets_app. reflexivity. Qed.

Lemma with_offsets_map_snd o rs : map snd (with_offsets o rs) = rs.
Proof.
  revert o. induction rs as [|r rs IH]; intros o; [reflexivity|].
  rewrite with_offsets_cons. cbn [map snd]. rewrite IH. reflexivity.
Qed.

Lemma with_offsets_length o rs : length (with_offsets o rs) = length rs.
Proof. rewrite <- (with_offsets_map_snd o rs) at 2. rewrite map_length. reflexivity. Qed.

(* every record lies inside [o, o + recs_len rs) *)
Lemma with_offsets_In_range o rs p r :
  In (p, r) (with_offsets o rs) -> o <= p /\ p + rsize r <= o + recs_len rs.
Proof.
  revert o. induction rs as [|x rs IH]; intros o HIn; [destruct HIn|].
  rewrite with_offsets_cons in HIn. rewrite recs_len_cons. destruct HIn as [E|HIn].
  - inversion E; subst. lia.
  - apply IH in HIn. pose proof (rsize_pos x). lia.
Qed.

Lemma with_offsets_In_rec o rs p r : In (p, r) (with_offsets o rs) -> In r rs.
Proof.
  intros H. rewrite <- (with_offsets_map_snd o rs). apply (in_map snd) in H. exact H.
Qed.

(* offsets strictly increase: each record is at least 10 bytes long *)
Lemma with_offsets_sorted o rs :
  StronglySorted (fun a b => fst a + 10 <= fst b) (with_offsets o rs).
Proof.
  revert o. induction rs as [|x rs IH]; intros o; [constructor|].
  rewrite with_offsets_cons. constructor; [apply IH|].
  apply Forall_forall. intros [p r] HIn. apply with_offsets_In_range in HIn.
  cbn [fst]. pose proof (rsize_ge x). lia.
Qed.

Lemma with_offsets_sorted_lt o rs : StronglySorted (fun a b => fst a < fst b) (with_offsets o rs).
Proof.
  revert o. induction rs as [|x rs IH]; intros o; [constructor|].
  rewrite with_offsets_cons. constructor; [apply IH|].
  apply Forall_forall. intros [p r] HIn. apply with_offsets_In_range in HIn.
  cbn [fst]. pose proof (rsize_pos x). lia.
Qed.

(* an entry of [with_offsets] determines its record: offsets are unique *)
Lemma with_offsets_inj o rs p r r' :
  In (p, r) (with_offsets o rs) -> In (p, r') (with_offsets o rs) -> r = r'.
Proof.
  revert o. induction rs as [|x rs IH]; intros o H1 H2; [destruct H1|].
  rewrite with_offsets_cons in H1, H2. pose proof (rsize_pos x) as Hx.
  destruct H1 as [E1|H1], H2 as [E2|H2].
  - congruence.
  - inversion E1; subst. apply with_offsets_In_range in H2. lia.
  - inversion E2; subst. apply with_offsets_In_range in H1. lia.
  - eapply IH; eassumption.
Qed.

Lemma with_offsets_NoDup_fst o rs : NoDup (map fst (with_offsets o rs)).
Proof.
  revert o. induction rs as [|x rs IH]; intros o; [constructor|].
  rewrite with_offsets_cons. cbn [map fst]. constructor; [|apply IH].
  intros HIn. apply in_map_iff in HIn. destruct HIn as ([p r] & E & HIn). cbn [fst] in E. subst p.
  apply with_offsets_In_range in HIn. pose proof (rsize_pos x). lia.
Qed.

Lemma rec_at_nil p : rec_at p [] = None. Proof. reflexivity. Qed.
Lemma rec_at_cons p o r es : rec_at p ((o, r) :: es) = if o =? p then Some r else rec_at p es.
Proof. reflexivity. Qed.

Lemma rec_at_In p es r : rec_at p es = Some r -> In (p, r) es.
Proof.
  induction es as [|[o x] es IH]; intros H; [discriminate|].
  rewrite rec_at_cons in H. destruct (N.eqb_spec o p) as [->|Hne].
  - inversion H; subst. left. reflexivity.
  - right. apply IH. exact H.
Qed.

Lemma rec_at_None p es : rec_at p es = None <-> (forall r, ~ In (p, r) es).
Proof.
  induction es as [|[o x] es IH].
  - split; [intros _ r []|reflexivity].
  - rewrite rec_at_cons. destruct (N.eqb_spec o p) as [->|Hne].
    + split; [discriminate|]. intros H. exfalso. apply (H x). left. reflexivity.
    + rewrite IH. split; intros H r.
      * intros [E|HIn]; [inversion E; congruence|]. exact (H r HIn).
      * intros HIn. apply (H r). right. exact HIn.
Qed.

(* [rec_at] finds exactly the record starting at an offset *)
Lemma rec_at_with_offsets o rs p r :
  rec_at p (with_offsets o rs) = Some r <-> In (p, r) (with_offsets o rs).
Proof.
  split; [apply rec_at_In|].
  intros HIn. destruct (rec_at p (with_offsets o rs)) as [r'|] eqn:E.
  - apply rec_at_In in E. f_equal. eapply with_offsets_inj; eassumption.
  - exfalso. exact (proj1 (rec_at_None _ _) E r HIn).
Qed.

Lemma rec_at_app p a b :
  rec_at p (a ++ b) = match rec_at p a with Some r => Some r | None => rec_at p b end.
Proof.
  induction a as [|[o x] a IH]; [reflexivity|].
  cbn [app]. rewrite !rec_at_cons. destruct (o =? p); [reflexivity|exact IH].
Qed.

Lemma rec_at_out_of_range o rs p : p < o \/ o + recs_len rs <= p -> rec_at p (with_offsets o rs) = None.
Proof.
  intros H. apply rec_at_None. intros r HIn. apply with_offsets_In_range in HIn.
  pose proof (rsize_pos r). lia.
Qed.

Lemma rec_at_snoc_new o rs r : rec_at (o + recs_len rs) (with_offsets o (rs ++ [r])) = Some r.
Proof.
  rewrite with_offsets_snoc, rec_at_app, rec_at_out_of_range by lia.
  rewrite rec_at_cons, N.eqb_refl. reflexivity.
Qed.

Lemma rec_at_snoc_old o rs r p r' :
  rec_at p (with_offsets o rs) = Some r' -> rec_at p (with_offsets o (rs ++ [r])) = Some r'.
Proof. intros H. rewrite with_offsets_snoc, rec_at_app, H. reflexivity. Qed.

Lemma rec_at_snoc o rs r p :
  rec_at p (with_offsets o (rs ++ [r])) =
  if p =? o + recs_len rs then Some r else rec_at p (with_offsets o rs).
Proof.
  destruct (N.eqb_spec p (o + recs_len rs)) as [->|Hne]; [apply rec_at_snoc_new|].
  rewrite with_offsets_snoc, rec_at_app. destruct (rec_at p (with_offsets o rs)); [reflexivity|].
  rewrite rec_at_cons. destruct (N.eqb_spec (o + recs_len rs) p); [congruence|reflexivity].
Qed.

(* byte length of a file with a header and an empty tail *)
Lemma flen_clean f : f_hdr f = true -> f_tail f = [] -> flen f = header_size + recs_len (f_recs f).
Proof. intros Hh Ht. unfold flen. rewrite Hh, Ht, nlen_nil. lia. Qed.

Lemma seg_entries_In_rec f p r : In (p, r) (seg_entries f) -> In r (f_recs f).
Proof. apply with_offsets_In_rec. Qed.

Lemma seg_entries_range f p r :
  In (p, r) (seg_entries f) -> header_size <= p /\ p + rsize r <= header_size + recs_len (f_recs f).
Proof. apply with_offsets_In_range. Qed.

(* ================================================================================================ *)
(* 2. The part of the disk that reads depend on: [same_log]; frame lemmas for events                 *)

(* the record of segment [id] that starts at offset [off] *)
Definition rec_of (d : disk) (id off : N) : option rec :=
  match find_dseg id d with None => None | Some f => rec_at off (seg_entries f) end.

Definition seg_core (f : dseg) : N * N * bool * list rec * bytes :=
  (f_id f, f_seq f, f_hdr f, f_recs f, f_tail f).
(* same segment files up to the side files (.psg.pmt) *)
Definition same_log (d d' : disk) : Prop := map seg_core (d_segs d) = map seg_core (d_segs d').
(* same everything else *)
Definition same_rest (d d' : disk) : Prop :=
  d_orphans d' = d_orphans d /\ d_index d' = d_index d /\ d_overflow d' = d_overflow d /\
  d_imeta d' = d_imeta d /\ d_dbmeta d' = d_dbmeta d /\ d_lock d' = d_lock d /\ d_bac d' = d_bac d.

Definition strip (f : dseg) : dseg := set_fmeta GAbsent f.
Definition olog_of (l : list dseg) : list entry := concat (map dseg_entries (dby_seq l)).

Lemma olog_eq d : olog d = olog_of (d_segs d). Proof. reflexivity. Qed.

Lemma same_log_refl d : same_log d d. Proof. reflexivity. Qed.
Lemma same_log_sym d d' : same_log d d' -> same_log d' d. Proof. unfold same_log. congruence. Qed.
Lemma same_log_trans a b c : same_log a b -> same_log b c -> same_log a c.
Proof. unfold same_log. congruence. Qed.
Lemma same_log_segs d d' : d_segs d' = d_segs d -> same_log d d'.
Proof. unfold same_log. intros ->. reflexivity. Qed.
Lemma same_rest_refl d : same_rest d d. Proof. repeat split. Qed.
Lemma same_rest_trans a b c : same_rest a b -> same_rest b c -> same_rest a c.
Proof. unfold same_rest. intuition congruence. Qed.

Lemma same_log_strip d d' : same_log d d' -> map strip (d_segs d) = map strip (d_segs d').
Proof.
  intros H.
  assert (E : forall l, map strip l =
            map (fun t : N * N * bool * list rec * bytes =>
                   let '(i, q, h, rs, t') := t in
                   {| f_id := i; f_seq := q; f_hdr := h; f_recs := rs; f_tail := t'; f_meta := GAbsent |})
                (map seg_core l)).
  { intros l. rewrite map_map. apply map_ext. intros f. reflexivity. }
  rewrite !E. unfold same_log in H. rewrite H. reflexivity.
Qed.

Lemma seg_core_inv f f' :
  seg_core f' = seg_core f ->
  f_id f' = f_id f /\ f_seq f' = f_seq f /\ f_hdr f' = f_hdr f /\ f_recs f' = f_recs f /\
  f_tail f' = f_tail f /\ flen f' = flen f /\ seg_entries f' = seg_entries f.
Proof.
  unfold seg_core. intros E. inversion E as [[E1 E2 E3 E4 E5]].
  unfold flen, seg_entries. rewrite E3, E4, E5. repeat split; reflexivity.
Qed.

Lemma same_log_In d d' f :
  same_log d d' -> In f (d_segs d) -> exists f', In f' (d_segs d') /\ seg_core f' = seg_core f.
Proof.
  intros H HIn. apply (in_map seg_core) in HIn. rewrite H in HIn.
  apply in_map_iff in HIn. destruct HIn as (f' & E & HIn). exists f'. split; assumption.
Qed.

(* ---- dby_seq commutes with maps that keep the sequence ids ---- *)
Lemma insert_dseg_seq_map (F : dseg -> dseg) f l :
  (forall x, f_seq (F x) = f_seq x) ->
  insert_dseg_seq (F f) (map F l) = map F (insert_dseg_seq f l).
Proof.
  intros HF. induction l as [|x l IH]; [reflexivity|].
  cbn [map insert_dseg_seq]. rewrite !HF. destruct (f_seq f <? f_seq x); [reflexivity|].
  cbn [map]. rewrite IH. reflexivity.
Qed.

Lemma dby_seq_fold_map (F : dseg -> dseg) l :
  (forall x, f_seq (F x) = f_seq x) -> forall acc,
  fold_left (fun acc f => insert_dseg_seq f acc) (map F l) (map F acc) =
  map F (fold_left (fun acc f => insert_dseg_seq f acc) l acc).
Proof.
  intros HF. induction l as [|x l IH]; intros acc; [reflexivity|].
  cbn [map fold_left]. rewrite insert_dseg_seq_map by exact HF. apply IH.
Qed.

Lemma dby_seq_map (F : dseg -> dseg) l :
  (forall x, f_seq (F x) = f_seq x) -> dby_seq (map F l) = map F (dby_seq l).
Proof. intros HF. unfold dby_seq. apply (dby_seq_fold_map F l HF []). Qed.

Lemma olog_of_map (F : dseg -> dseg) l :
  (forall x, f_seq (F x) = f_seq x) -> (forall x, dseg_entries (F x) = dseg_entries x) ->
  olog_of (map F l) = olog_of l.
Proof.
  intros HF HE. unfold olog_of. rewrite dby_seq_map by exact HF. rewrite map_map.
  f_equal. apply map_ext. exact HE.
Qed.

Lemma olog_of_strip l : olog_of (map strip l) = olog_of l.
Proof. apply olog_of_map; intros x; reflexivity. Qed.

(* ---- olog, abs, ptr_of depend on the disk only through same_log ---- *)
Lemma same_log_olog d d' : same_log d d' -> olog d' = olog d.
Proof.
  intros H. rewrite !olog_eq, <- (olog_of_strip (d_segs d')), <- (olog_of_strip (d_segs d)).
  rewrite (same_log_strip _ _ H). reflexivity.
Qed.
Lemma same_log_abs d d' : same_log d d' -> abs d' = abs d.
Proof. intros H. unfold abs. rewrite (same_log_olog _ _ H). reflexivity. Qed.
Lemma same_log_ptr_of d d' : same_log d d' -> ptr_of d' = ptr_of d.
Proof. intros H. unfold ptr_of. rewrite (same_log_olog _ _ H). reflexivity. Qed.

(* ---- find_dseg ---- *)
Lemma find_dseg_In id (d : disk) f : find_dseg id d = Some f -> In f (d_segs d) /\ f_id f = id.
Proof.
  unfold find_dseg. intros H. apply find_some in H. destruct H as [HIn E].
  apply N.eqb_eq in E. split; assumption.
Qed.

Lemma find_dseg_None id (d : disk) :
  find_dseg id d = None <-> (forall f, In f (d_segs d) -> f_id f <> id).
Proof.
  unfold find_dseg. split.
  - intros H f HIn E. pose proof (find_none _ _ H f HIn) as Hn. cbn beta in Hn.
    apply N.eqb_neq in Hn. congruence.
  - intros H. destruct (find _ (d_segs d)) as [f|] eqn:E; [|reflexivity].
    apply find_some in E. destruct E as [HIn E]. apply N.eqb_eq in E. exfalso. exact (H f HIn E).
Qed.

Lemma find_id_unique (l : list dseg) f :
  NoDup (map f_id l) -> In f l -> find (fun s => f_id s =? f_id f) l = Some f.
Proof.
  induction l as [|x l IH]; intros Hnd HIn; [destruct HIn|].
  cbn [map] in Hnd. inversion Hnd as [|? ? Hx Hnd']; subst. cbn [find].
  destruct HIn as [->|HIn]; [rewrite N.eqb_refl; reflexivity|].
  destruct (N.eqb_spec (f_id x) (f_id f)) as [E|_]; [|apply IH; assumption].
  exfalso. apply Hx. rewrite E. apply in_map. exact HIn.
Qed.

Lemma find_dseg_unique (d : disk) f :
  NoDup (map f_id (d_segs d)) -> In f (d_segs d) -> find_dseg (f_id f) d = Some f.
Proof. apply find_id_unique. Qed.

Lemma find_dseg_segs (d d' : disk) id : d_segs d' = d_segs d -> find_dseg id d' = find_dseg id d.
Proof. unfold find_dseg. intros ->. reflexivity. Qed.

Lemma find_map_id (F : dseg -> dseg) id (l : list dseg) :
  (forall s, f_id (F s) = f_id s) ->
  find (fun s => f_id s =? id) (map F l) = option_map F (find (fun s => f_id s =? id) l).
Proof.
  intros HF. induction l as [|x l IH]; [reflexivity|].
  cbn [map find]. rewrite HF. destruct (f_id x =? id); [reflexivity|exact IH].
Qed.

(* upd_seg with a function that keeps the id *)
Lemma find_dseg_upd_seg id seq g (d : disk) id' :
  (forall s, f_id (g s) = f_id s) ->
  find_dseg id' (upd_seg id seq g d) =
  option_map (fun s => if is_seg id seq s then g s else s) (find_dseg id' d).
Proof.
  intros Hg. unfold find_dseg, upd_seg; cbn [d_segs]. apply find_map_id.
  intros s. destruct (is_seg id seq s); [apply Hg|reflexivity].
Qed.

Lemma find_dseg_upd_seg_other id seq g (d : disk) id' :
  (forall s, f_id (g s) = f_id s) -> id' <> id ->
  find_dseg id' (upd_seg id seq g d) = find_dseg id' d.
Proof.
  intros Hg Hne. rewrite find_dseg_upd_seg by exact Hg.
  destruct (find_dseg id' d) as [f|] eqn:E; [|reflexivity]. cbn [option_map].
  apply find_dseg_In in E. destruct E as [_ E]. unfold is_seg.
  destruct (N.eqb_spec (f_id f) id); [congruence|reflexivity].
Qed.

Lemma find_dseg_upd_seg_same id seq g (d : disk) f :
  (forall s, f_id (g s) = f_id s) -> find_dseg id d = Some f -> f_seq f = seq ->
  find_dseg id (upd_seg id seq g d) = Some (g f).
Proof.
  intros Hg E Hs. rewrite find_dseg_upd_seg, E by exact Hg. cbn [option_map].
  apply find_dseg_In in E. destruct E as [_ E]. unfold is_seg. rewrite E, Hs, !N.eqb_refl. reflexivity.
Qed.

Lemma d_segs_upd_seg id seq g (d : disk) :
  d_segs (upd_seg id seq g d) = map (fun s => if is_seg id seq s then g s else s) (d_segs d).
Proof. reflexivity. Qed.

Lemma upd_seg_same_rest id seq g (d : disk) : same_rest d (upd_seg id seq g d).
Proof. repeat split. Qed.

Lemma upd_seg_same_log id seq g (d : disk) :
  (forall s, seg_core (g s) = seg_core s) -> same_log d (upd_seg id seq g d).
Proof.
  intros Hg. unfold same_log. rewrite d_segs_upd_seg, map_map. apply map_ext.
  intros s. destruct (is_seg id seq s); [symmetry; apply Hg|reflexivity].
Qed.

(* ---- rec_of / read_kv / matchf / slot_key / slot_ok through same_log ---- *)
Lemma same_log_rec_of d d' id off : same_log d d' -> rec_of d' id off = rec_of d id off.
Proof.
  intros H. unfold rec_of, find_dseg.
  assert (E : forall l : list dseg,
            match find (fun s => f_id s =? id) l with None => None | Some f => rec_at off (seg_entries f) end =
            match find (fun s => f_id s =? id) (map strip l) with None => None | Some f => rec_at off (seg_entries f) end).
  { intros l. rewrite (find_map_id strip) by reflexivity.
    destruct (find _ l); reflexivity. }
  rewrite (E (d_segs d')), (E (d_segs d)), (same_log_strip _ _ H). reflexivity.
Qed.

Lemma read_kv_rec_of (d : disk) sl :
  read_kv d sl =
  option_map (fun r => (ntake (sl_ks sl) (rk r ++ rv r), ntake (sl_vs sl) (ndrop (sl_ks sl) (rk r ++ rv r))))
             (rec_of d (sl_seg sl) (sl_off sl)).
Proof.
  unfold read_kv, rec_of. destruct (find_dseg (sl_seg sl) d) as [f|]; [|reflexivity].
  destruct (rec_at (sl_off sl) (seg_entries f)); reflexivity.
Qed.

Lemma same_log_read_kv d d' sl : same_log d d' -> read_kv d' sl = read_kv d sl.
Proof. intros H. rewrite !read_kv_rec_of, (same_log_rec_of _ _ _ _ H). reflexivity. Qed.
Lemma same_log_matchf d d' k sl : same_log d d' -> matchf d' k sl = matchf d k sl.
Proof. intros H. unfold matchf. rewrite (same_log_read_kv _ _ _ H). reflexivity. Qed.
Lemma same_log_slot_key d d' sl : same_log d d' -> slot_key d' sl = slot_key d sl.
Proof. intros H. unfold slot_key. rewrite (same_log_read_kv _ _ _ H). reflexivity. Qed.

Lemma slot_ok_rec_of P (d : disk) seed sl :
  slot_ok P d seed sl <->
  exists r, rec_of d (sl_seg sl) (sl_off sl) = Some r /\ rdel r = false /\
            sl_ks sl = nlen (rk r) /\ sl_vs sl = nlen (rv r) /\ sl_h sl = p_hash P seed (rk r).
Proof.
  unfold slot_ok, rec_of. split.
  - intros (f & r & E1 & E2 & H). exists r. rewrite E1. split; assumption.
  - intros (r & E & H). destruct (find_dseg (sl_seg sl) d) as [f|]; [|discriminate].
    exists f, r. repeat split; try assumption; apply H.
Qed.

Lemma same_log_slot_ok P d d' seed sl : same_log d d' -> slot_ok P d seed sl -> slot_ok P d' seed sl.
Proof.
  intros H. rewrite !slot_ok_rec_of. intros (r & E & Hr). exists r.
  rewrite (same_log_rec_of _ _ _ _ H). split; assumption.
Qed.

(* ---- DiskOK, mem_disk_agree through same_log ---- *)
Lemma dseg_ok_core f f' : seg_core f' = seg_core f -> dseg_ok f -> dseg_ok f'.
Proof.
  intros E. apply seg_core_inv in E. destruct E as (_ & _ & E3 & E4 & E5 & _).
  unfold dseg_ok. rewrite E3, E4, E5. exact (fun H => H).
Qed.

Lemma same_log_ids d d' : same_log d d' -> map f_id (d_segs d') = map f_id (d_segs d).
Proof.
  intros H. transitivity (map (fun t : N * N * bool * list rec * bytes => fst (fst (fst (fst t)))) (map seg_core (d_segs d'))).
  - rewrite map_map. reflexivity.
  - rewrite <- H, map_map. reflexivity.
Qed.
Lemma same_log_seqs d d' : same_log d d' -> map f_seq (d_segs d') = map f_seq (d_segs d).
Proof.
  intros H. transitivity (map (fun t : N * N * bool * list rec * bytes => snd (fst (fst (fst t)))) (map seg_core (d_segs d'))).
  - rewrite map_map. reflexivity.
  - rewrite <- H, map_map. reflexivity.
Qed.

Lemma same_log_DiskOK d d' : same_log d d' -> DiskOK d -> DiskOK d'.
Proof.
  intros H (Hok & Hid & Hseq). unfold DiskOK.
  rewrite (same_log_ids _ _ H), (same_log_seqs _ _ H). repeat split; try assumption.
  apply Forall_forall. intros f' HIn. apply (same_log_In _ _ _ (same_log_sym _ _ H)) in HIn.
  destruct HIn as (f & HIn & E). apply (dseg_ok_core f f'); [congruence|].
  exact (proj1 (Forall_forall _ _) Hok f HIn).
Qed.

Lemma same_log_mem_disk_agree (m : mem) d d' : same_log d d' -> mem_disk_agree m d -> mem_disk_agree m d'.
Proof.
  intros H [H1 H2]. split.
  - intros g Hg. destruct (H1 g Hg) as (f & HIn & A1 & A2 & A3 & A4 & A5).
    destruct (same_log_In _ _ _ H HIn) as (f' & HIn' & E). apply seg_core_inv in E.
    destruct E as (E1 & E2 & E3 & E4 & E5 & E6 & _). exists f'. repeat split; congruence.
  - intros f' HIn'. destruct (same_log_In _ _ _ (same_log_sym _ _ H) HIn') as (f & HIn & E).
    apply seg_core_inv in E. destruct E as (E1 & E2 & _).
    destruct (H2 f HIn) as (g & Hg & A1 & A2). exists g. repeat split; congruence.
Qed.

(* ---- events ---- *)
(* the events that change the segment files proper (everything else keeps [same_log]) *)
Definition touches_log (e : fsev) : bool :=
  match e with
  | EAppend _ _ _ _ => true
  | ECreate (FSeg _ _) | EHeader (FSeg _ _) | ERemove (FSeg _ _) | ETrunc (FSeg _ _) _
  | ERename (FSeg _ _) _ => true
  | _ => false
  end.

Lemma set_fmeta_core g s : seg_core (set_fmeta g s) = seg_core s. Proof. reflexivity. Qed.

Lemma file_removed_same_log f (d : disk) :
  match f with FSeg _ _ => False | _ => True end -> same_log d (file_removed f d).
Proof.
  destruct f; intros H; try destruct H; try reflexivity.
  unfold file_removed. apply (upd_seg_same_log id seq (set_fmeta GAbsent) d). intros s. reflexivity.
Qed.

Theorem apply_ev_same_log (d : disk) e : touches_log e = false -> same_log d (apply_ev flat_ops d e).
Proof.
  destruct e as [f|f|id seq off r|i|id seq m|i|sd|f n|f g|f|f]; cbn [touches_log]; intros H;
    try discriminate; try reflexivity.
  - destruct f; try discriminate; try reflexivity.
    apply (upd_seg_same_log id seq (set_fmeta GPartial) d). intros s. reflexivity.
  - destruct f; try discriminate; reflexivity.
  - apply (upd_seg_same_log id seq (set_fmeta (GOk m)) d). intros s. reflexivity.
  - destruct f; try discriminate; try reflexivity.
    apply (upd_seg_same_log id seq (set_fmeta GPartial) d). intros s. reflexivity.
  - cbn [apply_ev]. apply (same_log_trans _ (file_removed f d)); [|reflexivity].
    apply file_removed_same_log. destruct f; try exact Logic.I. discriminate.
  - cbn [apply_ev]. apply file_removed_same_log. destruct f; try exact Logic.I. discriminate.
Qed.

(* the events on segment files leave everything else alone *)
Lemma apply_ev_append_rest (d : disk) id seq off r : same_rest d (apply_ev flat_ops d (EAppend id seq off r)).
Proof. repeat split. Qed.
Lemma apply_ev_create_seg_rest (d : disk) id seq : same_rest d (apply_ev flat_ops d (ECreate (FSeg id seq))).
Proof. repeat split. Qed.
Lemma apply_ev_header_rest (d : disk) f : same_rest d (apply_ev flat_ops d (EHeader f)).
Proof. destruct f; repeat split. Qed.
Lemma apply_ev_trunc_seg_rest (d : disk) id seq n : same_rest d (apply_ev flat_ops d (ETrunc (FSeg id seq) n)).
Proof. repeat split. Qed.
Lemma apply_ev_sync (d : disk) f : apply_ev flat_ops d (ESync f) = d.
Proof. reflexivity. Qed.
Lemma apply_ev_header_nonseg (d : disk) f :
  match f with FSeg _ _ => False | _ => True end -> apply_ev flat_ops d (EHeader f) = d.
Proof. destruct f; intros H; try destruct H; reflexivity. Qed.

(* the defining equations, for rewriting *)
Lemma apply_ev_append (d : disk) id seq off r :
  apply_ev flat_ops d (EAppend id seq off r) = upd_seg id seq (append_seg off r) d.
Proof. reflexivity. Qed.
Lemma apply_ev_index (d : disk) i : apply_ev flat_ops d (EIndex i) = set_index d (Some i).
Proof. reflexivity. Qed.
Lemma d_segs_create_seg (d : disk) id seq :
  d_segs (apply_ev flat_ops d (ECreate (FSeg id seq))) =
  d_segs d ++ [{| f_id := id; f_seq := seq; f_hdr := false; f_recs := []; f_tail := []; f_meta := GAbsent |}].
Proof. reflexivity. Qed.
Lemma d_segs_remove_seg (d : disk) id seq :
  d_segs (apply_ev flat_ops d (ERemove (FSeg id seq))) = filter (fun s => negb (is_seg id seq s)) (d_segs d).
Proof. reflexivity. Qed.
Lemma d_segs_index (d : disk) i : d_segs (apply_ev flat_ops d (EIndex i)) = d_segs d.
Proof. reflexivity. Qed.
Lemma d_index_index (d : disk) i : d_index (apply_ev flat_ops d (EIndex i)) = Some i.
Proof. reflexivity. Qed.
Lemma apply_ev_index_frame (d : disk) i :
  let d' := apply_ev flat_ops d (EIndex i) in
  d_segs d' = d_segs d /\ d_orphans d' = d_orphans d /\ d_overflow d' = d_overflow d /\
  d_imeta d' = d_imeta d /\ d_dbmeta d' = d_dbmeta d /\ d_lock d' = d_lock d /\ d_bac d' = d_bac d.
Proof. repeat split. Qed.

(* emit *)
Lemma s_disk_emit e (s : st) : s_disk (emit flat_ops e s) = apply_ev flat_ops (s_disk s) e.
Proof. reflexivity. Qed.
Lemma s_mem_emit e (s : st) : s_mem (emit flat_ops e s) = s_mem s.
Proof. reflexivity. Qed.
Lemma s_trace_emit e (s : st) : s_trace (emit flat_ops e s) = s_trace s ++ [e].
Proof. reflexivity. Qed.

(* ================================================================================================ *)
(* 3. dby_seq and olog                                                                                *)
Local Notation ins_fold := (fold_left (fun acc f => insert_dseg_seq f acc)).

Lemma insert_dseg_seq_perm f l : Permutation (insert_dseg_seq f l) (f :: l).
Proof.
  induction l as [|x l IH]; [reflexivity|].
  cbn [insert_dseg_seq]. destruct (f_seq f <? f_seq x); [reflexivity|].
  rewrite IH. apply perm_swap.
Qed.

Lemma ins_fold_perm l : forall acc, Permutation (ins_fold l acc) (acc ++ l).
Proof.
  induction l as [|x l IH]; intros acc; cbn [fold_left].
  - rewrite app_nil_r. reflexivity.
  - rewrite IH, insert_dseg_seq_perm.
    cbn [app]. apply Permutation_middle.
Qed.

Theorem dby_seq_perm l : Permutation (dby_seq l) l.
Proof. unfold dby_seq. rewrite ins_fold_perm. reflexivity. Qed.

Lemma dby_seq_In l f : In f (dby_seq l) <-> In f l.
Proof. split; apply Permutation_in; [|symmetry]; apply dby_seq_perm. Qed.

Lemma insert_dseg_seq_In f l x : In x (insert_dseg_seq f l) <-> x = f \/ In x l.
Proof.
  split; intros H.
  - apply (Permutation_in _ (insert_dseg_seq_perm f l)) in H. destruct H; [left; congruence|right; assumption].
  - apply (Permutation_in _ (Permutation_sym (insert_dseg_seq_perm f l))). destruct H; [left; congruence|right; assumption].
Qed.

Lemma insert_dseg_seq_sorted f l :
  StronglySorted (fun a b => f_seq a <= f_seq b) l ->
  StronglySorted (fun a b => f_seq a <= f_seq b) (insert_dseg_seq f l).
Proof.
  induction l as [|x l IH]; intros Hs.
  - cbn [insert_dseg_seq]. constructor; constructor.
  - cbn [insert_dseg_seq]. inversion Hs as [|? ? Hs' Hx]; subst.
    destruct (N.ltb_spec (f_seq f) (f_seq x)) as [Hlt|Hge].
    + constructor; [exact Hs|]. constructor; [lia|].
      apply Forall_forall. intros y Hy. fa Hx y Hy. lia.
    + constructor; [apply IH; exact Hs'|].
      apply Forall_forall. intros y Hy. apply insert_dseg_seq_In in Hy. destruct Hy as [->|Hy]; [exact Hge|].
      exact (proj1 (Forall_forall _ _) Hx y Hy).
Qed.

Lemma ins_fold_sorted l : forall acc,
  StronglySorted (fun a b => f_seq a <= f_seq b) acc ->
  StronglySorted (fun a b => f_seq a <= f_seq b) (ins_fold l acc).
Proof.
  induction l as [|x l IH]; intros acc Hs; [exact Hs|].
  cbn [fold_left]. apply IH. apply insert_dseg_seq_sorted. exact Hs.
Qed.

Theorem dby_seq_sorted l : StronglySorted (fun a b => f_seq a <= f_seq b) (dby_seq l).
Proof. apply ins_fold_sorted. constructor. Qed.

Lemma sorted_le_lt (l : list dseg) :
  NoDup (map f_seq l) -> StronglySorted (fun a b => f_seq a <= f_seq b) l ->
  StronglySorted (fun a b => f_seq a < f_seq b) l.
Proof.
  induction l as [|x l IH]; intros Hnd Hs; [constructor|].
  cbn [map] in Hnd. inversion Hnd as [|? ? Hx Hnd']; subst. inversion Hs as [|? ? Hs' Hle]; subst.
  constructor; [apply IH; assumption|].
  apply Forall_forall. intros y Hy. fa Hle y Hy.
  assert (f_seq x <> f_seq y); [|lia]. intros E. apply Hx. rewrite E. apply in_map. exact Hy.
Qed.

Theorem dby_seq_sorted_lt l :
  NoDup (map f_seq l) -> StronglySorted (fun a b => f_seq a < f_seq b) (dby_seq l).
Proof.
  intros Hnd. apply sorted_le_lt; [|apply dby_seq_sorted].
  apply (Permutation_NoDup (l := map f_seq l)); [|exact Hnd].
  apply Permutation_map. symmetry. apply dby_seq_perm.
Qed.

Lemma dby_seq_snoc l f : dby_seq (l ++ [f]) = insert_dseg_seq f (dby_seq l).
Proof. unfold dby_seq. rewrite fold_left_app. reflexivity. Qed.

(* inserting an element that is larger than everything puts it at the end, and it stays there *)
Lemma insert_dseg_seq_max f l :
  (forall x, In x l -> f_seq x <= f_seq f) -> insert_dseg_seq f l = l ++ [f].
Proof.
  induction l as [|x l IH]; intros H; [reflexivity|].
  cbn [insert_dseg_seq app]. destruct (N.ltb_spec (f_seq f) (f_seq x)) as [Hlt|_].
  - pose proof (H x (or_introl eq_refl)). lia.
  - rewrite IH; [reflexivity|]. intros y Hy. apply H. right. exact Hy.
Qed.

Lemma insert_dseg_seq_below x l f :
  f_seq x < f_seq f -> insert_dseg_seq x (l ++ [f]) = insert_dseg_seq x l ++ [f].
Proof.
  intros Hlt. induction l as [|y l IH].
  - cbn [app insert_dseg_seq]. apply N.ltb_lt in Hlt. rewrite Hlt. reflexivity.
  - cbn [app insert_dseg_seq]. destruct (f_seq x <? f_seq y); [reflexivity|].
    rewrite IH. reflexivity.
Qed.

Lemma ins_fold_below l f : forall acc,
  (forall x, In x l -> f_seq x < f_seq f) -> ins_fold l (acc ++ [f]) = ins_fold l acc ++ [f].
Proof.
  induction l as [|x l IH]; intros acc H; [reflexivity|].
  cbn [fold_left]. rewrite insert_dseg_seq_below by (apply H; left; reflexivity).
  apply IH. intros y Hy. apply H. right. exact Hy.
Qed.

(* the segment with the largest sequence id comes last *)
Theorem dby_seq_max_last l f :
  NoDup l -> In f l -> (forall x, In x l -> x <> f -> f_seq x < f_seq f) ->
  exists pre, dby_seq l = pre ++ [f] /\ Permutation (pre ++ [f]) l.
Proof.
  intros Hnd HIn Hmax. apply in_split in HIn. destruct HIn as (l1 & l2 & ->).
  assert (Hnot : ~ In f l1 /\ ~ In f l2).
  { apply NoDup_remove_2 in Hnd. split; intros H; apply Hnd; apply in_or_app; [left|right]; exact H. }
  destruct Hnot as [Hn1 Hn2].
  exists (ins_fold l2 (dby_seq l1)). split.
  - unfold dby_seq. rewrite fold_left_app. cbn [fold_left].
    rewrite insert_dseg_seq_max.
    + apply ins_fold_below. intros x Hx. apply Hmax; [apply in_or_app; right; right; exact Hx|].
      intros ->. exact (Hn2 Hx).
    + intros x Hx. apply (proj1 (dby_seq_In l1 x)) in Hx.
      assert (f_seq x < f_seq f); [|lia]. apply Hmax; [apply in_or_app; left; exact Hx|].
      intros ->. exact (Hn1 Hx).
  - rewrite ins_fold_perm, dby_seq_perm, <- app_assoc. apply Permutation_app_head.
    apply (Permutation_app_comm l2 [f]).
Qed.

(* a list without repeated sequence ids has exactly one sorted arrangement *)
Lemma sorted_lt_perm_eq (l1 : list dseg) : forall l2,
  StronglySorted (fun a b => f_seq a < f_seq b) l1 ->
  StronglySorted (fun a b => f_seq a < f_seq b) l2 ->
  Permutation l1 l2 -> l1 = l2.
Proof.
  induction l1 as [|x l1 IH]; intros l2 H1 H2 Hp.
  - apply Permutation_nil in Hp. congruence.
  - destruct l2 as [|y l2]; [apply Permutation_sym, Permutation_nil in Hp; discriminate|].
    inversion H1 as [|? ? H1' Hx]; subst. inversion H2 as [|? ? H2' Hy]; subst.
    assert (E : x = y).
    { assert (Hxin : In x (y :: l2)) by (apply (Permutation_in _ Hp); left; reflexivity).
      assert (Hyin : In y (x :: l1)) by (apply (Permutation_in _ (Permutation_sym Hp)); left; reflexivity).
      destruct Hxin as [->|Hxin]; [reflexivity|]. destruct Hyin as [->|Hyin]; [reflexivity|].
      fa Hy x Hxin. fa Hx y Hyin. lia. }
    subst y. f_equal. apply IH; try assumption. apply Permutation_cons_inv in Hp. exact Hp.
Qed.

Theorem dby_seq_unique l L :
  NoDup (map f_seq l) -> StronglySorted (fun a b => f_seq a < f_seq b) L -> Permutation L l ->
  dby_seq l = L.
Proof.
  intros Hnd HL Hp. apply sorted_lt_perm_eq; [apply dby_seq_sorted_lt; exact Hnd|exact HL|].
  rewrite dby_seq_perm. symmetry. exact Hp.
Qed.

Lemma sorted_filter {A} (R : A -> A -> Prop) p (l : list A) :
  StronglySorted R l -> StronglySorted R (filter p l).
Proof.
  induction l as [|x l IH]; intros Hs; [constructor|].
  inversion Hs as [|? ? Hs' Hx]; subst. cbn [filter]. destruct (p x); [|apply IH; exact Hs'].
  constructor; [apply IH; exact Hs'|]. apply Forall_forall. intros y Hy. apply filter_In in Hy.
  exact (proj1 (Forall_forall _ _) Hx y (proj1 Hy)).
Qed.

Lemma Permutation_filter {A} p (l l' : list A) : Permutation l l' -> Permutation (filter p l) (filter p l').
Proof.
  induction 1 as [|x l l' Hp IH|x y l|l l' l'' H1 IH1 H2 IH2]; cbn [filter].
  - constructor.
  - destruct (p x); [constructor|]; exact IH.
  - destruct (p x), (p y); try reflexivity. apply perm_swap.
  - etransitivity; eassumption.
Qed.

Lemma NoDup_map_filter {A B} (f : A -> B) p (l : list A) : NoDup (map f l) -> NoDup (map f (filter p l)).
Proof.
  induction l as [|x l IH]; intros Hnd; [constructor|].
  cbn [map] in Hnd. inversion Hnd as [|? ? Hx Hnd']; subst. cbn [filter].
  destruct (p x); [|apply IH; exact Hnd']. cbn [map]. constructor; [|apply IH; exact Hnd'].
  intros HIn. apply Hx. apply in_map_iff in HIn. destruct HIn as (y & E & Hy).
  apply filter_In in Hy. rewrite <- E. apply in_map. exact (proj1 Hy).
Qed.

Theorem dby_seq_filter p l :
  NoDup (map f_seq l) -> dby_seq (filter p l) = filter p (dby_seq l).
Proof.
  intros Hnd. apply dby_seq_unique.
  - apply NoDup_map_filter. exact Hnd.
  - apply sorted_filter. apply dby_seq_sorted_lt. exact Hnd.
  - apply Permutation_filter. apply dby_seq_perm.
Qed.

(* ---- olog ---- *)
Lemma dseg_entries_In f e :
  In e (dseg_entries f) <-> fst (fst e) = f_id f /\ In (snd (fst e), snd e) (seg_entries f).
Proof.
  unfold dseg_entries. rewrite in_map_iff. split.
  - intros ([o r] & <- & HIn). cbn [fst snd]. split; [reflexivity|exact HIn].
  - destruct e as [[i o] r]. cbn [fst snd]. intros [-> HIn]. exists (o, r). split; [reflexivity|exact HIn].
Qed.

Theorem olog_In (d : disk) id off r :
  In (id, off, r) (olog d) <-> exists f, In f (d_segs d) /\ f_id f = id /\ In (off, r) (seg_entries f).
Proof.
  unfold olog. rewrite in_concat. split.
  - intros (es & Hes & HIn). apply in_map_iff in Hes. destruct Hes as (f & <- & Hf).
    apply (proj1 (dby_seq_In _ _)) in Hf. apply (proj1 (dseg_entries_In _ _)) in HIn. cbn [fst snd] in HIn.
    exists f. repeat split; [exact Hf|symmetry; apply HIn|apply HIn].
  - intros (f & Hf & E & HIn). exists (dseg_entries f). split.
    + apply in_map. apply (proj2 (dby_seq_In _ _)). exact Hf.
    + apply (proj2 (dseg_entries_In _ _)). cbn [fst snd]. split; [symmetry; exact E|exact HIn].
Qed.

(* reads see exactly the entries of the log *)
Theorem rec_of_olog (d : disk) id off r :
  NoDup (map f_id (d_segs d)) -> (rec_of d id off = Some r <-> In (id, off, r) (olog d)).
Proof.
  intros Hnd. rewrite olog_In. unfold rec_of. split.
  - destruct (find_dseg id d) as [f|] eqn:E; [|discriminate]. intros H.
    apply find_dseg_In in E. destruct E as [HIn E]. exists f. repeat split; try assumption.
    apply rec_at_In. exact H.
  - intros (f & HIn & E & He). subst id. rewrite (find_dseg_unique d f Hnd HIn).
    apply rec_at_with_offsets. exact He.
Qed.

Lemma olog_rec_fits (d : disk) id off r : DiskOK d -> In (id, off, r) (olog d) -> rec_fits r.
Proof.
  intros (Hok & _) HIn. apply olog_In in HIn. destruct HIn as (f & Hf & _ & He).
  fa Hok f Hf. destruct Hfa as (Hr & _). apply seg_entries_In_rec in He.
  exact (proj1 (Forall_forall _ _) Hr r He).
Qed.

Lemma rec_of_rec_fits (d : disk) id off r : DiskOK d -> rec_of d id off = Some r -> rec_fits r.
Proof.
  intros Hd H. apply (olog_rec_fits d id off r Hd). apply rec_of_olog; [apply Hd|exact H].
Qed.

Lemma dseg_entries_append off r f :
  dseg_entries (append_seg off r f) = dseg_entries f ++ [(f_id f, header_size + recs_len (f_recs f), r)].
Proof.
  unfold dseg_entries, seg_entries, append_seg; cbn [f_recs f_id].
  rewrite with_offsets_snoc, map_app. reflexivity.
Qed.

Lemma concat_map_snoc {A B} (g : A -> list B) l x : concat (map g (l ++ [x])) = concat (map g l) ++ g x.
Proof. rewrite map_app, concat_app. cbn [map concat]. rewrite app_nil_r. reflexivity. Qed.

(* Appending a record to the segment with the LARGEST sequence id appends one entry at the END of
   the log.  (The offset of the entry is the end of the records of the file, whatever the [off]
   argument of the event: see DB.append_seg.) *)
Theorem olog_append (d : disk) id seq off r f :
  NoDup (map f_id (d_segs d)) -> In f (d_segs d) -> f_id f = id -> f_seq f = seq ->
  (forall x, In x (d_segs d) -> x <> f -> f_seq x < f_seq f) ->
  olog (apply_ev flat_ops d (EAppend id seq off r)) =
  olog d ++ [(id, header_size + recs_len (f_recs f), r)].
Proof.
  intros Hnd HIn Eid Eseq Hmax.
  rewrite apply_ev_append, !olog_eq, d_segs_upd_seg. unfold olog_of.
  set (F := fun s : dseg => if is_seg id seq s then append_seg off r s else s).
  assert (HF : forall x, f_seq (F x) = f_seq x).
  { intros x. unfold F. destruct (is_seg id seq x); reflexivity. }
  rewrite dby_seq_map by exact HF.
  destruct (dby_seq_max_last (d_segs d) f (NoDup_map_inv _ _ Hnd) HIn Hmax) as (pre & -> & Hp).
  assert (Hpre : map F pre = pre).
  { rewrite <- (map_id pre) at 2. apply map_ext_in. intros x Hx. unfold F, is_seg.
    destruct (N.eqb_spec (f_id x) id) as [E|_]; [|reflexivity]. exfalso.
    assert (Hnd' : NoDup (map f_id (pre ++ [f]))).
    { apply (Permutation_NoDup (l := map f_id (d_segs d))); [|exact Hnd].
      apply Permutation_map. symmetry. exact Hp. }
    rewrite map_app in Hnd'. cbn [map] in Hnd'. apply NoDup_remove_2 in Hnd'. apply Hnd'.
    rewrite app_nil_r, Eid, <- E. apply in_map. exact Hx. }
  rewrite map_app, Hpre. cbn [map].
  assert (HFf : F f = append_seg off r f).
  { unfold F, is_seg. rewrite Eid, Eseq, !N.eqb_refl. reflexivity. }
  rewrite HFf, !concat_map_snoc, dseg_entries_append, Eid, app_assoc. reflexivity.
Qed.

Lemma concat_insert_empty f l :
  dseg_entries f = [] ->
  concat (map dseg_entries (insert_dseg_seq f l)) = concat (map dseg_entries l).
Proof.
  intros Hf. induction l as [|x l IH].
  - cbn [insert_dseg_seq map concat]. rewrite Hf. reflexivity.
  - cbn [insert_dseg_seq]. destruct (f_seq f <? f_seq x).
    + cbn [map concat]. rewrite Hf. reflexivity.
    + cbn [map concat]. rewrite IH. reflexivity.
Qed.

(* a new file without records does not change the log, wherever it is sorted *)
Lemma olog_of_snoc_empty l f : f_recs f = [] -> olog_of (l ++ [f]) = olog_of l.
Proof.
  intros Hf. unfold olog_of. rewrite dby_seq_snoc. apply concat_insert_empty.
  unfold dseg_entries, seg_entries. rewrite Hf. reflexivity.
Qed.

Theorem olog_create_seg (d : disk) id seq : olog (apply_ev flat_ops d (ECreate (FSeg id seq))) = olog d.
Proof. rewrite !olog_eq, d_segs_create_seg. apply olog_of_snoc_empty. reflexivity. Qed.

Theorem olog_header (d : disk) f : olog (apply_ev flat_ops d (EHeader f)) = olog d.
Proof.
  destruct f; try reflexivity.
  cbn [apply_ev]. rewrite !olog_eq, d_segs_upd_seg. apply olog_of_map.
  - intros x. destruct (is_seg id seq x); reflexivity.
  - intros x. destruct (is_seg id seq x); reflexivity.
Qed.

(* the two events that create a segment *)
Corollary olog_create_header (d : disk) id seq :
  olog (apply_ev flat_ops (apply_ev flat_ops d (ECreate (FSeg id seq))) (EHeader (FSeg id seq))) = olog d.
Proof. rewrite olog_header, olog_create_seg. reflexivity. Qed.

Theorem olog_remove_seg (d : disk) id seq :
  NoDup (map f_seq (d_segs d)) ->
  olog (apply_ev flat_ops d (ERemove (FSeg id seq))) =
  concat (map dseg_entries (filter (fun s => negb (is_seg id seq s)) (dby_seq (d_segs d)))).
Proof.
  intros Hnd. rewrite olog_eq, d_segs_remove_seg. unfold olog_of. rewrite dby_seq_filter by exact Hnd.
  reflexivity.
Qed.

Lemma concat_map_filter {A B} (g : A -> list B) p q (l : list A) :
  (forall x, In x l -> forall y, In y (g x) -> q y = p x) ->
  concat (map g (filter p l)) = filter q (concat (map g l)).
Proof.
  induction l as [|x l IH]; intros H; [reflexivity|].
  cbn [filter map concat]. rewrite filter_app, <- IH by (intros y Hy; apply H; right; exact Hy).
  assert (Hx : forall y, In y (g x) -> q y = p x) by (apply H; left; reflexivity).
  destruct (p x).
  - cbn [map concat]. f_equal. symmetry. apply forallb_filter_id.
    apply forallb_forall. exact Hx.
  - rewrite (proj2 (filter_nil_iff _ _ (g x))); [reflexivity|]. exact Hx.
Qed.
