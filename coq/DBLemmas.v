(* DBLemmas.v -- reusable facts about the database model (DB.v) and its abstraction (DBInv.v),
   instantiated with the flat reference index ([ops := flat_ops], [I := flat]).
   Imported by DBProofsOps.v (operation theorems) and meant for the crash / recovery proofs.
   No axioms.  [disk], [st], [mem], [fsev] below abbreviate [@DB.disk flat] etc.; [ins_fold] abbreviates
   [fold_left (fun acc f => insert_dseg_seq f acc)] (these notations are local to this file).

   Tactics exported: [consts] (poses the values of header_size, rec_overhead, max_key_len, max_val_len,
   rec_max as equations, for lia; the constants themselves stay folded), [fa H y Hy] (instantiate a
   [Forall] hypothesis [H] at [y] with [Hy : In y l], beta-reduced, as [Hfa]).
   Importing this file also sets [Zify.zify_post_hook ::= Z.div_mod_to_equations].

   Main new notions:
     rec_of d id off        the record of segment [id] starting at [off] (what read_kv / slot_ok look at)
     same_log d d'          same segment files up to the .psg.pmt side-file field
     same_rest d d'         all other components of the disk equal
     touches_log e          the events that change segment files proper (EAppend, and Create/Header/
                            Remove/Trunc/Rename of an FSeg); touches_index, touches_lock, ... likewise
     absl / ptrl            [abs] / [ptr_of] as folds over an arbitrary entry list
     InvLog m d             DiskOK d /\ mem_disk_agree m d /\ ids_increasing /\ seq_order /\ cur_ok
     mem_sim m m'           m' differs from m only in per-segment counters ("full" may get set)
     wr_prelude / wr_tail   writeRecord split into "choose the segment" and "append"
     wr_pre_shape pre id seq  the events writeRecord issues before the append:
                            [] | [ESync _] | [ECreate (FSeg id seq); EHeader (FSeg id seq)] | [ESync _; ECreate ..; EHeader ..]
     idx_agrees P seed idx d  = index_agrees without the mem record; khit kf k sl = key_eqb k (kf sl)

   EXPORTED NAMES AND STATEMENTS (in file order)

   == 0. Constants (kept folded in goals; these equations feed lia) ==
   Lemma header_size_eq : header_size = 512
   Lemma rec_overhead_eq : rec_overhead = 10
   Lemma max_key_len_eq : max_key_len = 65535
   Lemma max_val_len_eq : max_val_len = 536870912
   Lemma rec_max_eq : rec_max = 536936457
   Ltac fa
   Ltac consts
   Lemma rsize_eq r : rsize r = 10 + nlen (rk r) + nlen (rv r)
   Lemma rsize_ge r : 10 <= rsize r
   Lemma rsize_pos r : 0 < rsize r
   Lemma rsize_le_max r : rec_fits r -> rsize r <= rec_max
   Lemma rec_fits_mkput k v : Forall byte k -> Forall byte v -> nlen k <= max_key_len -> nlen v <=
       max_val_len -> rec_fits (mkput k v)
   Lemma rec_fits_mkdel k : Forall byte k -> nlen k <= max_key_len -> rec_fits (mkdel k)

   == 1. with_offsets / rec_at / seg_entries ==
   Lemma recs_len_nil : recs_len [] = 0
   Lemma recs_len_cons r rs : recs_len (r :: rs) = rsize r + recs_len rs
   Lemma recs_len_app a b : recs_len (a ++ b) = recs_len a + recs_len b
   Lemma recs_len_snoc rs r : recs_len (rs ++ [r]) = recs_len rs + rsize r
   Lemma with_offsets_nil o : with_offsets o [] = []
   Lemma with_offsets_cons o r rs : with_offsets o (r :: rs) = (o, r) :: with_offsets (o + rsize r) rs
   Lemma with_offsets_app o a b : with_offsets o (a ++ b) = with_offsets o a ++ with_offsets (o +
       recs_len a) b
   Lemma with_offsets_snoc o rs r : with_offsets o (rs ++ [r]) = with_offsets o rs ++ [(o + recs_len rs,
       r)]
   Lemma with_offsets_map_snd o rs : map snd (with_offsets o rs) = rs
   Lemma with_offsets_length o rs : length (with_offsets o rs) = length rs
   Lemma with_offsets_In_range o rs p r : In (p, r) (with_offsets o rs) -> o <= p /\ p + rsize r <= o +
       recs_len rs
   Lemma with_offsets_In_rec o rs p r : In (p, r) (with_offsets o rs) -> In r rs
   Lemma with_offsets_sorted o rs : StronglySorted (fun a b => fst a + 10 <= fst b) (with_offsets o rs)
   Lemma with_offsets_sorted_lt o rs : StronglySorted (fun a b => fst a < fst b) (with_offsets o rs)
   Lemma with_offsets_inj o rs p r r' : In (p, r) (with_offsets o rs) -> In (p, r') (with_offsets o rs)
       -> r = r'
   Lemma with_offsets_NoDup_fst o rs : NoDup (map fst (with_offsets o rs))
   Lemma rec_at_nil p : rec_at p [] = None
   Lemma rec_at_cons p o r es : rec_at p ((o, r) :: es) = if o =? p then Some r else rec_at p es
   Lemma rec_at_In p es r : rec_at p es = Some r -> In (p, r) es
   Lemma rec_at_None p es : rec_at p es = None <-> (forall r, ~ In (p, r) es)
   Lemma rec_at_with_offsets o rs p r : rec_at p (with_offsets o rs) = Some r <-> In (p, r)
       (with_offsets o rs)
   Lemma rec_at_app p a b : rec_at p (a ++ b) = match rec_at p a with Some r => Some r | None => rec_at
       p b end
   Lemma rec_at_out_of_range o rs p : p < o \/ o + recs_len rs <= p -> rec_at p (with_offsets o rs) =
       None
   Lemma rec_at_snoc_new o rs r : rec_at (o + recs_len rs) (with_offsets o (rs ++ [r])) = Some r
   Lemma rec_at_snoc_old o rs r p r' : rec_at p (with_offsets o rs) = Some r' -> rec_at p (with_offsets
       o (rs ++ [r])) = Some r'
   Lemma rec_at_snoc o rs r p : rec_at p (with_offsets o (rs ++ [r])) = if p =? o + recs_len rs then
       Some r else rec_at p (with_offsets o rs)
   Lemma flen_clean f : f_hdr f = true -> f_tail f = [] -> flen f = header_size + recs_len (f_recs f)
   Lemma seg_entries_In_rec f p r : In (p, r) (seg_entries f) -> In r (f_recs f)
   Lemma seg_entries_range f p r : In (p, r) (seg_entries f) -> header_size <= p /\ p + rsize r <=
       header_size + recs_len (f_recs f)

   == 2. The part of the disk that reads depend on: [same_log]; frame lemmas for events ==
   Definition rec_of (d : disk) (id off : N) : option rec
   Definition seg_core (f : dseg) : N * N * bool * list rec * bytes
   Definition same_log (d d' : disk) : Prop
   Definition same_rest (d d' : disk) : Prop
   Definition strip (f : dseg) : dseg
   Definition olog_of (l : list dseg) : list entry
   Lemma olog_eq d : olog d = olog_of (d_segs d)
   Lemma same_log_refl d : same_log d d
   Lemma same_log_sym d d' : same_log d d' -> same_log d' d
   Lemma same_log_trans a b c : same_log a b -> same_log b c -> same_log a c
   Lemma same_log_segs d d' : d_segs d' = d_segs d -> same_log d d'
   Lemma same_rest_refl d : same_rest d d
   Lemma same_rest_trans a b c : same_rest a b -> same_rest b c -> same_rest a c
   Lemma same_log_strip d d' : same_log d d' -> map strip (d_segs d) = map strip (d_segs d')
   Lemma seg_core_inv f f' : seg_core f' = seg_core f -> f_id f' = f_id f /\ f_seq f' = f_seq f /\ f_hdr
       f' = f_hdr f /\ f_recs f' = f_recs f /\ f_tail f' = f_tail f /\ flen f' = flen f /\ seg_entries
       f' = seg_entries f
   Lemma same_log_In d d' f : same_log d d' -> In f (d_segs d) -> exists f', In f' (d_segs d') /\
       seg_core f' = seg_core f
   Lemma insert_dseg_seq_map (F : dseg -> dseg) f l : (forall x, f_seq (F x) = f_seq x) ->
       insert_dseg_seq (F f) (map F l) = map F (insert_dseg_seq f l)
   Lemma dby_seq_fold_map (F : dseg -> dseg) l : (forall x, f_seq (F x) = f_seq x) -> forall acc,
       fold_left (fun acc f => insert_dseg_seq f acc) (map F l) (map F acc) = map F (fold_left (fun acc
       f => insert_dseg_seq f acc) l acc)
   Lemma dby_seq_map (F : dseg -> dseg) l : (forall x, f_seq (F x) = f_seq x) -> dby_seq (map F l) = map
       F (dby_seq l)
   Lemma olog_of_map (F : dseg -> dseg) l : (forall x, f_seq (F x) = f_seq x) -> (forall x, dseg_entries
       (F x) = dseg_entries x) -> olog_of (map F l) = olog_of l
   Lemma olog_of_strip l : olog_of (map strip l) = olog_of l
   Lemma same_log_olog d d' : same_log d d' -> olog d' = olog d
   Lemma same_log_abs d d' : same_log d d' -> abs d' = abs d
   Lemma same_log_ptr_of d d' : same_log d d' -> ptr_of d' = ptr_of d
   Lemma find_dseg_In id (d : disk) f : find_dseg id d = Some f -> In f (d_segs d) /\ f_id f = id
   Lemma find_dseg_None id (d : disk) : find_dseg id d = None <-> (forall f, In f (d_segs d) -> f_id f
       <> id)
   Lemma find_id_unique (l : list dseg) f : NoDup (map f_id l) -> In f l -> find (fun s => f_id s =?
       f_id f) l = Some f
   Lemma find_dseg_unique (d : disk) f : NoDup (map f_id (d_segs d)) -> In f (d_segs d) -> find_dseg
       (f_id f) d = Some f
   Lemma find_dseg_segs (d d' : disk) id : d_segs d' = d_segs d -> find_dseg id d' = find_dseg id d
   Lemma find_map_id (F : dseg -> dseg) id (l : list dseg) : (forall s, f_id (F s) = f_id s) -> find
       (fun s => f_id s =? id) (map F l) = option_map F (find (fun s => f_id s =? id) l)
   Lemma find_dseg_upd_seg id seq g (d : disk) id' : (forall s, f_id (g s) = f_id s) -> find_dseg id'
       (upd_seg id seq g d) = option_map (fun s => if is_seg id seq s then g s else s) (find_dseg id' d)
   Lemma find_dseg_upd_seg_other id seq g (d : disk) id' : (forall s, f_id (g s) = f_id s) -> id' <> id
       -> find_dseg id' (upd_seg id seq g d) = find_dseg id' d
   Lemma find_dseg_upd_seg_same id seq g (d : disk) f : (forall s, f_id (g s) = f_id s) -> find_dseg id
       d = Some f -> f_seq f = seq -> find_dseg id (upd_seg id seq g d) = Some (g f)
   Lemma d_segs_upd_seg id seq g (d : disk) : d_segs (upd_seg id seq g d) = map (fun s => if is_seg id
       seq s then g s else s) (d_segs d)
   Lemma upd_seg_same_rest id seq g (d : disk) : same_rest d (upd_seg id seq g d)
   Lemma upd_seg_same_log id seq g (d : disk) : (forall s, seg_core (g s) = seg_core s) -> same_log d
       (upd_seg id seq g d)
   Lemma same_log_rec_of d d' id off : same_log d d' -> rec_of d' id off = rec_of d id off
   Lemma read_kv_rec_of (d : disk) sl : read_kv d sl = option_map (fun r => (ntake (sl_ks sl) (rk r ++
       rv r), ntake (sl_vs sl) (ndrop (sl_ks sl) (rk r ++ rv r)))) (rec_of d (sl_seg sl) (sl_off sl))
   Lemma same_log_read_kv d d' sl : same_log d d' -> read_kv d' sl = read_kv d sl
   Lemma same_log_matchf d d' k sl : same_log d d' -> matchf d' k sl = matchf d k sl
   Lemma same_log_slot_key d d' sl : same_log d d' -> slot_key d' sl = slot_key d sl
   Lemma slot_ok_rec_of P (d : disk) seed sl : slot_ok P d seed sl <-> exists r, rec_of d (sl_seg sl)
       (sl_off sl) = Some r /\ rdel r = false /\ sl_ks sl = nlen (rk r) /\ sl_vs sl = nlen (rv r) /\
       sl_h sl = p_hash P seed (rk r)
   Lemma same_log_slot_ok P d d' seed sl : same_log d d' -> slot_ok P d seed sl -> slot_ok P d' seed sl
   Lemma dseg_ok_core f f' : seg_core f' = seg_core f -> dseg_ok f -> dseg_ok f'
   Lemma same_log_ids d d' : same_log d d' -> map f_id (d_segs d') = map f_id (d_segs d)
   Lemma same_log_seqs d d' : same_log d d' -> map f_seq (d_segs d') = map f_seq (d_segs d)
   Lemma same_log_DiskOK d d' : same_log d d' -> DiskOK d -> DiskOK d'
   Lemma same_log_mem_disk_agree (m : mem) d d' : same_log d d' -> mem_disk_agree m d -> mem_disk_agree
       m d'
   Definition touches_log (e : fsev) : bool
   Lemma set_fmeta_core g s : seg_core (set_fmeta g s) = seg_core s
   Lemma file_removed_same_log f (d : disk) : match f with FSeg _ _ => False | _ => True end -> same_log
       d (file_removed f d)
   Theorem apply_ev_same_log (d : disk) e : touches_log e = false -> same_log d (apply_ev flat_ops d e)
   Lemma apply_ev_append_rest (d : disk) id seq off r : same_rest d (apply_ev flat_ops d (EAppend id seq
       off r))
   Lemma apply_ev_create_seg_rest (d : disk) id seq : same_rest d (apply_ev flat_ops d (ECreate (FSeg id
       seq)))
   Lemma apply_ev_header_rest (d : disk) f : same_rest d (apply_ev flat_ops d (EHeader f))
   Lemma apply_ev_trunc_seg_rest (d : disk) id seq n : same_rest d (apply_ev flat_ops d (ETrunc (FSeg id
       seq) n))
   Lemma apply_ev_sync (d : disk) f : apply_ev flat_ops d (ESync f) = d
   Lemma apply_ev_header_nonseg (d : disk) f : match f with FSeg _ _ => False | _ => True end ->
       apply_ev flat_ops d (EHeader f) = d
   Lemma apply_ev_append (d : disk) id seq off r : apply_ev flat_ops d (EAppend id seq off r) = upd_seg
       id seq (append_seg off r) d
   Lemma apply_ev_index (d : disk) i : apply_ev flat_ops d (EIndex i) = set_index d (Some i)
   Lemma d_segs_create_seg (d : disk) id seq : d_segs (apply_ev flat_ops d (ECreate (FSeg id seq))) =
       d_segs d ++ [{| f_id := id; f_seq := seq; f_hdr := false; f_recs := []; f_tail := []; f_meta :=
       GAbsent |}]
   Lemma d_segs_remove_seg (d : disk) id seq : d_segs (apply_ev flat_ops d (ERemove (FSeg id seq))) =
       filter (fun s => negb (is_seg id seq s)) (d_segs d)
   Lemma d_segs_index (d : disk) i : d_segs (apply_ev flat_ops d (EIndex i)) = d_segs d
   Lemma d_index_index (d : disk) i : d_index (apply_ev flat_ops d (EIndex i)) = Some i
   Lemma apply_ev_index_frame (d : disk) i : let d' := apply_ev flat_ops d (EIndex i) in d_segs d' =
       d_segs d /\ d_orphans d' = d_orphans d /\ d_overflow d' = d_overflow d /\ d_imeta d' = d_imeta d
       /\ d_dbmeta d' = d_dbmeta d /\ d_lock d' = d_lock d /\ d_bac d' = d_bac d
   Lemma s_disk_emit e (s : st) : s_disk (emit flat_ops e s) = apply_ev flat_ops (s_disk s) e
   Lemma s_mem_emit e (s : st) : s_mem (emit flat_ops e s) = s_mem s
   Lemma s_trace_emit e (s : st) : s_trace (emit flat_ops e s) = s_trace s ++ [e]

   == 3. dby_seq and olog ==
   Lemma insert_dseg_seq_perm f l : Permutation (insert_dseg_seq f l) (f :: l)
   Lemma ins_fold_perm l : forall acc, Permutation (ins_fold l acc) (acc ++ l)
   Theorem dby_seq_perm l : Permutation (dby_seq l) l
   Lemma dby_seq_In l f : In f (dby_seq l) <-> In f l
   Lemma insert_dseg_seq_In f l x : In x (insert_dseg_seq f l) <-> x = f \/ In x l
   Lemma insert_dseg_seq_sorted f l : StronglySorted (fun a b => f_seq a <= f_seq b) l -> StronglySorted
       (fun a b => f_seq a <= f_seq b) (insert_dseg_seq f l)
   Lemma ins_fold_sorted l : forall acc, StronglySorted (fun a b => f_seq a <= f_seq b) acc ->
       StronglySorted (fun a b => f_seq a <= f_seq b) (ins_fold l acc)
   Theorem dby_seq_sorted l : StronglySorted (fun a b => f_seq a <= f_seq b) (dby_seq l)
   Lemma sorted_le_lt (l : list dseg) : NoDup (map f_seq l) -> StronglySorted (fun a b => f_seq a <=
       f_seq b) l -> StronglySorted (fun a b => f_seq a < f_seq b) l
   Theorem dby_seq_sorted_lt l : NoDup (map f_seq l) -> StronglySorted (fun a b => f_seq a < f_seq b)
       (dby_seq l)
   Lemma dby_seq_snoc l f : dby_seq (l ++ [f]) = insert_dseg_seq f (dby_seq l)
   Lemma insert_dseg_seq_max f l : (forall x, In x l -> f_seq x <= f_seq f) -> insert_dseg_seq f l = l
       ++ [f]
   Lemma insert_dseg_seq_below x l f : f_seq x < f_seq f -> insert_dseg_seq x (l ++ [f]) =
       insert_dseg_seq x l ++ [f]
   Lemma ins_fold_below l f : forall acc, (forall x, In x l -> f_seq x < f_seq f) -> ins_fold l (acc ++
       [f]) = ins_fold l acc ++ [f]
   Theorem dby_seq_max_last l f : NoDup l -> In f l -> (forall x, In x l -> x <> f -> f_seq x < f_seq f)
       -> exists pre, dby_seq l = pre ++ [f] /\ Permutation (pre ++ [f]) l
   Lemma sorted_lt_perm_eq (l1 : list dseg) : forall l2, StronglySorted (fun a b => f_seq a < f_seq b)
       l1 -> StronglySorted (fun a b => f_seq a < f_seq b) l2 -> Permutation l1 l2 -> l1 = l2
   Theorem dby_seq_unique l L : NoDup (map f_seq l) -> StronglySorted (fun a b => f_seq a < f_seq b) L
       -> Permutation L l -> dby_seq l = L
   Lemma sorted_filter {A} (R : A -> A -> Prop) p (l : list A) : StronglySorted R l -> StronglySorted R
       (filter p l)
   Lemma Permutation_filter {A} p (l l' : list A) : Permutation l l' -> Permutation (filter p l) (filter
       p l')
   Lemma NoDup_map_filter {A B} (f : A -> B) p (l : list A) : NoDup (map f l) -> NoDup (map f (filter p
       l))
   Theorem dby_seq_filter p l : NoDup (map f_seq l) -> dby_seq (filter p l) = filter p (dby_seq l)
   Lemma dseg_entries_In f e : In e (dseg_entries f) <-> fst (fst e) = f_id f /\ In (snd (fst e), snd e)
       (seg_entries f)
   Theorem olog_In (d : disk) id off r : In (id, off, r) (olog d) <-> exists f, In f (d_segs d) /\ f_id
       f = id /\ In (off, r) (seg_entries f)
   Theorem rec_of_olog (d : disk) id off r : NoDup (map f_id (d_segs d)) -> (rec_of d id off = Some r
       <-> In (id, off, r) (olog d))
   Lemma olog_rec_fits (d : disk) id off r : DiskOK d -> In (id, off, r) (olog d) -> rec_fits r
   Lemma rec_of_rec_fits (d : disk) id off r : DiskOK d -> rec_of d id off = Some r -> rec_fits r
   Lemma dseg_entries_append off r f : dseg_entries (append_seg off r f) = dseg_entries f ++ [(f_id f,
       header_size + recs_len (f_recs f), r)]
   Lemma concat_map_snoc {A B} (g : A -> list B) l x : concat (map g (l ++ [x])) = concat (map g l) ++ g
       x
   Theorem olog_append (d : disk) id seq off r f : NoDup (map f_id (d_segs d)) -> In f (d_segs d) ->
       f_id f = id -> f_seq f = seq -> (forall x, In x (d_segs d) -> x <> f -> f_seq x < f_seq f) ->
       olog (apply_ev flat_ops d (EAppend id seq off r)) = olog d ++ [(id, header_size + recs_len
       (f_recs f), r)]
   Lemma concat_insert_empty f l : dseg_entries f = [] -> concat (map dseg_entries (insert_dseg_seq f
       l)) = concat (map dseg_entries l)
   Lemma olog_of_snoc_empty l f : f_recs f = [] -> olog_of (l ++ [f]) = olog_of l
   Theorem olog_create_seg (d : disk) id seq : olog (apply_ev flat_ops d (ECreate (FSeg id seq))) = olog
       d
   Theorem olog_header (d : disk) f : olog (apply_ev flat_ops d (EHeader f)) = olog d
   Corollary olog_create_header (d : disk) id seq : olog (apply_ev flat_ops (apply_ev flat_ops d
       (ECreate (FSeg id seq))) (EHeader (FSeg id seq))) = olog d
   Theorem olog_remove_seg (d : disk) id seq : NoDup (map f_seq (d_segs d)) -> olog (apply_ev flat_ops d
       (ERemove (FSeg id seq))) = concat (map dseg_entries (filter (fun s => negb (is_seg id seq s))
       (dby_seq (d_segs d))))
   Lemma filter_all {A} (q : A -> bool) l : (forall y, In y l -> q y = true) -> filter q l = l
   Lemma filter_none {A} (q : A -> bool) l : (forall y, In y l -> q y = false) -> filter q l = []
   Lemma concat_map_filter {A B} (g : A -> list B) p q (l : list A) : (forall x, In x l -> forall y, In
       y (g x) -> q y = p x) -> concat (map g (filter p l)) = filter q (concat (map g l))
   Corollary olog_remove_seg_ids (d : disk) id seq : NoDup (map f_seq (d_segs d)) -> (forall x, In x
       (d_segs d) -> f_id x = id -> f_seq x = seq) -> olog (apply_ev flat_ops d (ERemove (FSeg id seq)))
       = filter (fun e => negb (fst (fst e) =? id)) (olog d)

   == 4. The specification maps; abs and ptr_of as folds ==
   Lemma key_eqb_sym a b : key_eqb a b = key_eqb b a
   Lemma sget_sdel m k k' : sget (sdel m k) k' = if key_eqb k' k then None else sget m k'
   Lemma sget_sput m k v k' : sget (sput m k v) k' = if key_eqb k' k then Some v else sget m k'
   Lemma sdel_In m k x v : In (x, v) (sdel m k) <-> In (x, v) m /\ x <> k
   Lemma sdel_keys m k x : In x (map fst (sdel m k)) <-> In x (map fst m) /\ x <> k
   Lemma NoDup_sdel m k : NoDup (map fst m) -> NoDup (map fst (sdel m k))
   Lemma NoDup_sput m k v : NoDup (map fst m) -> NoDup (map fst (sput m k v))
   Lemma sget_None m k : sget m k = None <-> ~ In k (map fst m)
   Lemma sget_In m k v : NoDup (map fst m) -> (sget m k = Some v <-> In (k, v) m)
   Lemma shas_sget m k : shas m k = match sget m k with Some _ => true | None => false end
   Definition absl (l : list entry) : smap
   Definition ptrl (l : list entry) : key -> option (N * N)
   Lemma abs_eq d : abs d = absl (olog d)
   Lemma ptr_of_eq d : ptr_of d = ptrl (olog d)
   Lemma absl_snoc l e : absl (l ++ [e]) = apply_rec (absl l) e
   Lemma ptrl_snoc l e : ptrl (l ++ [e]) = upd_ptr (ptrl l) e
   Theorem abs_snoc d d' e : olog d' = olog d ++ [e] -> abs d' = apply_rec (abs d) e
   Theorem ptr_of_snoc d d' e : olog d' = olog d ++ [e] -> ptr_of d' = upd_ptr (ptr_of d) e
   Lemma sget_apply_rec m e k : sget (apply_rec m e) k = if key_eqb k (rk (snd e)) then (if rdel (snd e)
       then None else Some (rv (snd e))) else sget m k
   Lemma NoDup_apply_rec m e : NoDup (map fst m) -> NoDup (map fst (apply_rec m e))
   Lemma absl_NoDup l : NoDup (map fst (absl l))
   Theorem abs_NoDup d : NoDup (map fst (abs d))
   Lemma ptrl_absl l k : (forall id off, ptrl l k = Some (id, off) -> exists r, In (id, off, r) l /\ rk
       r = k /\ rdel r = false /\ sget (absl l) k = Some (rv r)) /\ (ptrl l k = None -> sget (absl l) k
       = None)
   Theorem ptr_of_Some d k id off : ptr_of d k = Some (id, off) -> exists r, In (id, off, r) (olog d) /\
       rk r = k /\ rdel r = false /\ sget (abs d) k = Some (rv r)
   Theorem ptr_of_None d k : ptr_of d k = None -> sget (abs d) k = None
   Corollary ptr_of_None_iff d k : ptr_of d k = None <-> sget (abs d) k = None
   Lemma upd_ptr_eq p e k : upd_ptr p e k = if key_eqb k (rk (snd e)) then (if rdel (snd e) then None
       else Some (fst (fst e), snd (fst e))) else p k

   == 5. In-memory segment list ==
   Lemma NoDup_map_inj {A B} (h : A -> B) l a b : NoDup (map h l) -> In a l -> In b l -> h a = h b -> a
       = b
   Lemma ids_increasing_NoDup l : ids_increasing l -> NoDup (map g_id l)
   Lemma ids_increasing_unique l a b : ids_increasing l -> In a l -> In b l -> g_id a = g_id b -> a = b
   Lemma find_mseg_In id l g : find_mseg id l = Some g -> In g l /\ g_id g = id
   Lemma find_mseg_None id l : find_mseg id l = None -> forall g, In g l -> g_id g <> id
   Lemma find_mseg_unique l g : ids_increasing l -> In g l -> find_mseg (g_id g) l = Some g
   Lemma In_upd_mseg id F l g' : In g' (upd_mseg id F l) <-> exists g, In g l /\ g' = if g_id g =? id
       then F g else g
   Lemma ids_increasing_map (F : mseg -> mseg) l : (forall g, g_id (F g) = g_id g) -> ids_increasing l
       -> ids_increasing (map F l)
   Lemma insert_mseg_In g l x : In x (insert_mseg g l) <-> x = g \/ In x l
   Lemma insert_mseg_increasing g l : ids_increasing l -> (forall x, In x l -> g_id x <> g_id g) ->
       ids_increasing (insert_mseg g l)
   Lemma lowest_free_spec l : forall n, ids_increasing l -> (forall g, In g l -> n <= g_id g) -> n <=
       lowest_free n l /\ forall g, In g l -> g_id g <> lowest_free n l
   Lemma lowest_free_fresh l g : ids_increasing l -> In g l -> g_id g <> lowest_free 0 l
   Lemma cur_seg_Some (m : mem) g : cur_seg m = Some g -> m_cur_removed m = false /\ In g (m_segs m) /\
       g_id g = fst (m_cur m) /\ g_seq g = snd (m_cur m)
   Lemma cur_seg_intro (m : mem) g : ids_increasing (m_segs m) -> m_cur_removed m = false -> In g
       (m_segs m) -> m_cur m = (g_id g, g_seq g) -> cur_seg m = Some g
   Definition InvLog (m : mem) (d : disk) : Prop
   Lemma Inv_InvLog P (s : st) m : s_mem s = Some m -> Inv P s -> InvLog m (s_disk s)
   Lemma InvLog_same_log (m : mem) d d' : same_log d d' -> InvLog m d -> InvLog m d'
   Definition mseg_sim (g g' : mseg) : Prop
   Definition mem_sim (m m' : mem) : Prop
   Lemma mseg_sim_refl g : mseg_sim g g
   Lemma mem_sim_refl (m : mem) : mem_sim m m
   Lemma mem_sim_trans (a b c : mem) : mem_sim a b -> mem_sim b c -> mem_sim a c
   Lemma mem_sim_upd_mseg (m : mem) id F : (forall g, mseg_sim g (F g)) -> mem_sim m (set_msegs m
       (upd_mseg id F (m_segs m)))
   Lemma mem_sim_set_idx (m : mem) i : mem_sim m (set_idx m i)
   Lemma mem_sim_InvLog (m m' : mem) d : mem_sim m m' -> InvLog m d -> InvLog m' d
   Lemma mem_sim_room (m m' : mem) : mem_sim m m' -> room m -> room m'
   Lemma mem_sim_track_del sl (m : mem) : mem_sim m (track_del sl m)
   Lemma mem_sim_add_delbytes id n (m : mem) : mem_sim m (add_delbytes id n m)
   Theorem track_del_InvLog sl (m : mem) d : InvLog m d -> InvLog (track_del sl m) d
   Theorem track_del_room sl (m : mem) : room m -> room (track_del sl m)
   Theorem add_delbytes_InvLog id n (m : mem) d : InvLog m d -> InvLog (add_delbytes id n m) d
   Theorem add_delbytes_room id n (m : mem) : room m -> room (add_delbytes id n m)
   Lemma set_idx_InvLog i (m : mem) d : InvLog m d -> InvLog (set_idx m i) d
   Lemma track_del_idx sl (m : mem) : m_idx (track_del sl m) = m_idx m /\ m_seed (track_del sl m) =
       m_seed m
   Lemma add_delbytes_idx id n (m : mem) : m_idx (add_delbytes id n m) = m_idx m /\ m_seed (add_delbytes
       id n m) = m_seed m

   == 6. datalog.writeRecord ==
   Lemma flen_append off r f : f_hdr f = true -> flen (append_seg off r f) = flen f + rsize r
   Lemma tail_stuck_nil : tail_stuck []
   Lemma dseg_ok_append off r f : dseg_ok f -> rec_fits r -> f_hdr f = true -> header_size + recs_len
       (f_recs f) + rsize r < 4294967296 -> dseg_ok (append_seg off r f)
   Lemma count_rec_full r sm : sm_full (count_rec r sm) = sm_full sm
   Lemma append_step (m : mem) (d : disk) r g : InvLog m d -> room m -> rec_fits r -> cur_seg m = Some g
       -> sm_full (g_meta g) = false -> exists f, find_dseg (g_id g) d = Some f /\ f_seq f = g_seq g /\
       flen f = g_size g /\ g_size g < 4294967296 /\ let d' := apply_ev flat_ops d (EAppend (g_id g)
       (g_seq g) (g_size g) r) in let m' := set_msegs m (upd_mseg (g_id g) (fun x => set_gmeta
       (set_gsize x (g_size g + rsize r)) (count_rec r (g_meta x))) (m_segs m)) in InvLog m' d' /\ olog
       d' = olog d ++ [(g_id g, g_size g, r)] /\ rec_of d' (g_id g) (g_size g) = Some r
   Lemma NoDup_snoc {A} (l : list A) x : NoDup l -> ~ In x l -> NoDup (l ++ [x])
   Lemma s_disk_emits es (s : st) : s_disk (emits flat_ops es s) = fold_left (apply_ev flat_ops) es
       (s_disk s)
   Lemma s_mem_emits es (s : st) : s_mem (emits flat_ops es s) = s_mem s
   Lemma s_trace_emits es (s : st) : s_trace (emits flat_ops es s) = s_trace s ++ es
   Lemma seal_spec (s : st) (m : mem) g : ids_increasing (m_segs m) -> In g (m_segs m) -> exists s0 m0
       pre, seal flat_ops (g_id g) s m = (s0, m0) /\ mem_sim m m0 /\ m_idx m0 = m_idx m /\ m_seed m0 =
       m_seed m /\ s_disk s0 = s_disk s /\ s_mem s0 = s_mem s /\ s_trace s0 = s_trace s ++ pre /\ (pre =
       [] \/ pre = [ESync (FSeg (g_id g) (g_seq g))])
   Lemma swap_spec (s : st) (m : mem) : InvLog m (s_disk s) -> room m -> exists s1 m1 g pre,
       swap_segment flat_ops s m = (s1, m1) /\ InvLog m1 (s_disk s1) /\ room m1 /\ cur_seg m1 = Some g
       /\ sm_full (g_meta g) = false /\ olog (s_disk s1) = olog (s_disk s) /\ same_rest (s_disk s)
       (s_disk s1) /\ s_mem s1 = s_mem s /\ m_idx m1 = m_idx m /\ m_seed m1 = m_seed m /\ s_trace s1 =
       s_trace s ++ pre /\ s_disk s1 = fold_left (apply_ev flat_ops) pre (s_disk s) /\ (pre = [] \/ pre
       = [ECreate (FSeg (g_id g) (g_seq g)); EHeader (FSeg (g_id g) (g_seq g))])
   Definition wr_pre_shape (pre : list fsev) (id seq : N) : Prop
   Definition wr_prelude (P : params) (r : rec) (s : st) (m : mem) : st * mem
   Definition wr_tail (r : rec) (s1 : st) (m1 : mem) : option (st * mem * N * N)
   Lemma write_record_eq P r (s : st) (m : mem) : write_record flat_ops P r s m = let '(s1, m1) :=
       wr_prelude P r s m in wr_tail r s1 m1
   Lemma wr_prelude_spec P r (s : st) (m : mem) : InvLog m (s_disk s) -> room m -> exists s1 m1 g pre,
       wr_prelude P r s m = (s1, m1) /\ InvLog m1 (s_disk s1) /\ room m1 /\ cur_seg m1 = Some g /\
       sm_full (g_meta g) = false /\ olog (s_disk s1) = olog (s_disk s) /\ same_rest (s_disk s) (s_disk
       s1) /\ s_mem s1 = s_mem s /\ m_idx m1 = m_idx m /\ m_seed m1 = m_seed m /\ s_trace s1 = s_trace s
       ++ pre /\ s_disk s1 = fold_left (apply_ev flat_ops) pre (s_disk s) /\ wr_pre_shape pre (g_id g)
       (g_seq g)
   Theorem write_record_spec P r (s : st) (m : mem) : params_ok P -> InvLog m (s_disk s) -> room m ->
       rec_fits r -> exists s' m' id off, write_record flat_ops P r s m = Some (s', m', id, off) /\
       InvLog m' (s_disk s') /\ olog (s_disk s') = olog (s_disk s) ++ [(id, off, r)] /\ off < 4294967296
       /\ rec_of (s_disk s') id off = Some r /\ (exists f, find_dseg id (s_disk s') = Some f /\ rec_at
       off (seg_entries f) = Some r) /\ (forall id' off' r', rec_of (s_disk s) id' off' = Some r' ->
       rec_of (s_disk s') id' off' = Some r') /\ (forall sl kv, read_kv (s_disk s) sl = Some kv ->
       read_kv (s_disk s') sl = Some kv) /\ m_idx m' = m_idx m /\ m_seed m' = m_seed m /\ s_mem s' =
       s_mem s /\ same_rest (s_disk s) (s_disk s') /\ exists seq pre, s_trace s' = s_trace s ++ pre ++
       [EAppend id seq off r] /\ s_disk s' = fold_left (apply_ev flat_ops) (pre ++ [EAppend id seq off
       r]) (s_disk s) /\ olog (fold_left (apply_ev flat_ops) pre (s_disk s)) = olog (s_disk s) /\
       same_rest (s_disk s) (fold_left (apply_ev flat_ops) pre (s_disk s)) /\ wr_pre_shape pre id seq

   == 7. The index (flat) and the log ==
   Definition khit (kf : slot -> key) (k : key) (sl : slot) : bool
   Definition idx_agrees (P : params) (seed : N) (idx : flat) (d : disk) : Prop
   Lemma index_agrees_eq P (m : mem) d : index_agrees P m d = idx_agrees P (m_seed m) (m_idx m) d
   Lemma slot_ok_read P (d : disk) seed sl : slot_ok P d seed sl -> exists r, rec_of d (sl_seg sl)
       (sl_off sl) = Some r /\ rdel r = false /\ sl_ks sl = nlen (rk r) /\ sl_vs sl = nlen (rv r) /\
       sl_h sl = p_hash P seed (rk r) /\ read_kv d sl = Some (rk r, rv r) /\ slot_key d sl = rk r
   Lemma hit_key P (d : disk) seed k sl : DiskOK d -> slot_ok P d seed sl -> fl_hit (p_hash P seed k)
       (matchf d k) sl = khit (slot_key d) k sl
   Lemma find_ext_in {A} (p q : A -> bool) l : (forall x, In x l -> p x = q x) -> find p l = find q l
   Lemma fl_replace_ext_in p q new l : (forall x, In x l -> p x = q x) -> fl_replace p new l =
       fl_replace q new l
   Lemma fl_remove_ext_in p q l : (forall x, In x l -> p x = q x) -> fl_remove p l = fl_remove q l
   Lemma find_khit_None kf k l : find (khit kf k) l = None <-> ~ In k (map kf l)
   Lemma find_khit_Some kf k l sl : find (khit kf k) l = Some sl -> In sl l /\ kf sl = k
   Lemma find_khit_In kf l sl : NoDup (map kf l) -> In sl l -> find (khit kf (kf sl)) l = Some sl
   Lemma fl_replace_Some kf k new l : forall l' o, kf new = k -> fl_replace (khit kf k) new l = Some
       (l', o) -> In o l /\ kf o = k /\ map kf l' = map kf l /\ (forall x, In x l' -> x = new \/ In x l)
       /\ (forall k', find (khit kf k') l' = if key_eqb k' k then Some new else find (khit kf k') l)
   Lemma fl_replace_None p new l : fl_replace p new l = None -> forall x, In x l -> p x = false
   Lemma find_app {A} (p : A -> bool) l1 l2 : find p (l1 ++ l2) = match find p l1 with Some x => Some x
       | None => find p l2 end
   Lemma find_khit_snoc kf k new l k' : (forall x, In x l -> khit kf k x = false) -> kf new = k -> find
       (khit kf k') (l ++ [new]) = if key_eqb k' k then Some new else find (khit kf k') l
   Lemma fl_remove_Some kf k l : forall l' o, NoDup (map kf l) -> fl_remove (khit kf k) l = Some (l', o)
       -> In o l /\ kf o = k /\ (forall x, In x l' -> In x l) /\ NoDup (map kf l') /\ (forall k', find
       (khit kf k') l' = if key_eqb k' k then None else find (khit kf k') l)
   Lemma fl_remove_None p l : fl_remove p l = None -> forall x, In x l -> p x = false
   Lemma slot_keep P (d d1 : disk) seed sl : (forall id off r, rec_of d id off = Some r -> rec_of d1 id
       off = Some r) -> slot_ok P d seed sl -> slot_ok P d1 seed sl /\ read_kv d1 sl = read_kv d sl /\
       slot_key d1 sl = slot_key d sl
   Lemma idx_keys_keep P (d d1 : disk) seed idx : (forall id off r, rec_of d id off = Some r -> rec_of
       d1 id off = Some r) -> Forall (slot_ok P d seed) idx -> Forall (slot_ok P d1 seed) idx /\ map
       (slot_key d1) idx = map (slot_key d) idx /\ (forall k, find (khit (slot_key d1) k) idx = find
       (khit (slot_key d) k) idx)
   Lemma idx_get_find P seed idx (d : disk) k : DiskOK d -> Forall (slot_ok P d seed) idx -> fl_get idx
       (p_hash P seed k) (matchf d k) = find (khit (slot_key d) k) idx
   Theorem idx_lookup P seed idx (d : disk) k : DiskOK d -> idx_agrees P seed idx d -> match find (khit
       (slot_key d) k) idx with | None => sget (abs d) k = None | Some sl => In sl idx /\ exists v,
       read_kv d sl = Some (k, v) /\ sget (abs d) k = Some v end

   == 8. Frame table: for every component of the disk, the events that can change it ==
   Definition touches_index (e : fsev) : bool
   Definition touches_overflow (e : fsev) : bool
   Definition touches_imeta (e : fsev) : bool
   Definition touches_dbmeta (e : fsev) : bool
   Definition touches_lock (e : fsev) : bool
   Definition touches_bac (e : fsev) : bool
   Definition touches_orphans (e : fsev) : bool
   Lemma file_removed_frame f (d : disk) : (match f with FMain => True | _ => d_index (file_removed f d)
       = d_index d end) /\ (match f with FOverflow => True | _ => d_overflow (file_removed f d) =
       d_overflow d end) /\ (match f with FIndexMeta => True | _ => d_imeta (file_removed f d) = d_imeta
       d end) /\ (match f with FDbMeta => True | _ => d_dbmeta (file_removed f d) = d_dbmeta d end) /\
       (match f with FLock => True | _ => d_lock (file_removed f d) = d_lock d end) /\ (match f with
       FBac _ => True | _ => d_bac (file_removed f d) = d_bac d end) /\ (match f with FSeg _ _ |
       FSegMeta _ _ => True | _ => d_orphans (file_removed f d) = d_orphans d end)
   Theorem apply_ev_d_index (d : disk) e : touches_index e = false -> d_index (apply_ev flat_ops d e) =
       d_index d
   Theorem apply_ev_d_overflow (d : disk) e : touches_overflow e = false -> d_overflow (apply_ev
       flat_ops d e) = d_overflow d
   Theorem apply_ev_d_imeta (d : disk) e : touches_imeta e = false -> d_imeta (apply_ev flat_ops d e) =
       d_imeta d
   Theorem apply_ev_d_dbmeta (d : disk) e : touches_dbmeta e = false -> d_dbmeta (apply_ev flat_ops d e)
       = d_dbmeta d
   Theorem apply_ev_d_lock (d : disk) e : touches_lock e = false -> d_lock (apply_ev flat_ops d e) =
       d_lock d
   Theorem apply_ev_d_bac (d : disk) e : touches_bac e = false -> d_bac (apply_ev flat_ops d e) = d_bac
       d
   Theorem apply_ev_d_orphans (d : disk) e : touches_orphans e = false -> d_orphans (apply_ev flat_ops d
       e) = d_orphans d
   Corollary apply_ev_reads (d : disk) e : touches_log e = false -> olog (apply_ev flat_ops d e) = olog
       d /\ abs (apply_ev flat_ops d e) = abs d /\ ptr_of (apply_ev flat_ops d e) = ptr_of d /\ (forall
       sl, read_kv (apply_ev flat_ops d e) sl = read_kv d sl) /\ (forall k sl, matchf (apply_ev flat_ops
       d e) k sl = matchf d k sl) /\ (DiskOK d -> DiskOK (apply_ev flat_ops d e))
*)
From Coq Require Import ZArith Lia ZifyN ZifyNat ZifyBool Permutation Sorted.
From Pogreb Require Import Base BaseLemmas Crc Bytes Record RecordProofs Flat Spec DB DBInv.
Ltac Zify.zify_post_hook ::= Z.div_mod_to_equations.

Local Notation disk := (@DB.disk flat).
Local Notation st := (@DB.st flat).
Local Notation mem := (@DB.mem flat).
Local Notation fsev := (@DB.fsev flat).

(* ================================================================================================ *)
(* 0. Constants (kept folded in goals; these equations feed lia)                                     *)
Lemma header_size_eq : header_size = 512. Proof. reflexivity. Qed.
Lemma rec_overhead_eq : rec_overhead = 10. Proof. reflexivity. Qed.
Lemma max_key_len_eq : max_key_len = 65535. Proof. reflexivity. Qed.
Lemma max_val_len_eq : max_val_len = 536870912. Proof. reflexivity. Qed.
Lemma rec_max_eq : rec_max = 536936457. Proof. reflexivity. Qed.

(* instantiate a Forall hypothesis, beta-reduced *)
Ltac fa H y Hy := let X := fresh "Hfa" in
  pose proof (proj1 (Forall_forall _ _) H y Hy) as X; cbn beta in X.

(* put the values of the constants into the context, for lia *)
Ltac consts :=
  pose proof header_size_eq; pose proof rec_overhead_eq; pose proof max_key_len_eq;
  pose proof max_val_len_eq; pose proof rec_max_eq.

Lemma rsize_eq r : rsize r = 10 + nlen (rk r) + nlen (rv r).
Proof. unfold rsize. rewrite rec_overhead_eq. reflexivity. Qed.
Lemma rsize_ge r : 10 <= rsize r.
Proof. rewrite rsize_eq. lia. Qed.
Lemma rsize_pos r : 0 < rsize r.
Proof. pose proof (rsize_ge r). lia. Qed.
Lemma rsize_le_max r : rec_fits r -> rsize r <= rec_max.
Proof. intros (_ & _ & Hk & Hv). rewrite rsize_eq. consts. lia. Qed.

Lemma rec_fits_mkput k v :
  Forall byte k -> Forall byte v -> nlen k <= max_key_len -> nlen v <= max_val_len -> rec_fits (mkput k v).
Proof. intros. unfold rec_fits, mkput; cbn [rk rv]. auto. Qed.
Lemma rec_fits_mkdel k : Forall byte k -> nlen k <= max_key_len -> rec_fits (mkdel k).
Proof.
  intros. unfold rec_fits, mkdel; cbn [rk rv]. repeat split; auto.
  rewrite nlen_nil. apply N.le_0_l.
Qed.

(* ================================================================================================ *)
(* 1. with_offsets / rec_at / seg_entries                                                            *)
Lemma recs_len_nil : recs_len [] = 0. Proof. reflexivity. Qed.
Lemma recs_len_cons r rs : recs_len (r :: rs) = rsize r + recs_len rs. Proof. reflexivity. Qed.
Lemma recs_len_app a b : recs_len (a ++ b) = recs_len a + recs_len b.
Proof.
  induction a as [|r a IH]; [reflexivity|].
  cbn [app]. rewrite !recs_len_cons, IH. lia.
Qed.
Lemma recs_len_snoc rs r : recs_len (rs ++ [r]) = recs_len rs + rsize r.
Proof. rewrite recs_len_app, recs_len_cons, recs_len_nil. lia. Qed.

Lemma with_offsets_nil o : with_offsets o [] = []. Proof. reflexivity. Qed.
Lemma with_offsets_cons o r rs : with_offsets o (r :: rs) = (o, r) :: with_offsets (o + rsize r) rs.
Proof. reflexivity. Qed.

Lemma with_offsets_app o a b :
  with_offsets o (a ++ b) = with_offsets o a ++ with_offsets (o + recs_len a) b.
Proof.
  revert o. induction a as [|r a IH]; intros o.
  - cbn [app with_offsets]. rewrite recs_len_nil, N.add_0_r. reflexivity.
  - cbn [app]. rewrite !with_offsets_cons, IH, recs_len_cons, N.add_assoc. reflexivity.
Qed.

(* the offset just past the last record is [o + recs_len rs] *)
Lemma with_offsets_snoc o rs r :
  with_offsets o (rs ++ [r]) = with_offsets o rs ++ [(o + recs_len rs, r)].
Proof. rewrite with_offsets_app. reflexivity. Qed.

Lemma with_offsets_map_snd o rs : map snd (with_offsets o rs) = rs.
Proof.
  revert o. induction rs as [|r rs IH]; intros o; [reflexivity|].
  rewrite with_offsets_cons. cbn [map snd]. rewrite IH. reflexivity.
Qed.

Lemma with_offsets_length o rs : length (with_offsets o rs) = length rs.
Proof. rewrite <- (with_offsets_map_snd o rs) at 2. rewrite map_length. reflexivity. Qed.

(* every record lies inside [o, o + recs_len rs) *)
Lemma with_offsets_In_range o rs p r :
  In (p, r) (with_offsets o rs) -> o <= p /\ p + rsize r <= o + recs_len rs.
Proof.
  revert o. induction rs as [|x rs IH]; intros o HIn; [destruct HIn|].
  rewrite with_offsets_cons in HIn. rewrite recs_len_cons. destruct HIn as [E|HIn].
  - inversion E; subst. lia.
  - apply IH in HIn. pose proof (rsize_pos x). lia.
Qed.

Lemma with_offsets_In_rec o rs p r : In (p, r) (with_offsets o rs) -> In r rs.
Proof.
  intros H. rewrite <- (with_offsets_map_snd o rs). apply (in_map snd) in H. exact H.
Qed.

(* offsets strictly increase: each record is at least 10 bytes long *)
Lemma with_offsets_sorted o rs :
  StronglySorted (fun a b => fst a + 10 <= fst b) (with_offsets o rs).
Proof.
  revert o. induction rs as [|x rs IH]; intros o; [constructor|].
  rewrite with_offsets_cons. constructor; [apply IH|].
  apply Forall_forall. intros [p r] HIn. apply with_offsets_In_range in HIn.
  cbn [fst]. pose proof (rsize_ge x). lia.
Qed.

Lemma with_offsets_sorted_lt o rs : StronglySorted (fun a b => fst a < fst b) (with_offsets o rs).
Proof.
  revert o. induction rs as [|x rs IH]; intros o; [constructor|].
  rewrite with_offsets_cons. constructor; [apply IH|].
  apply Forall_forall. intros [p r] HIn. apply with_offsets_In_range in HIn.
  cbn [fst]. pose proof (rsize_pos x). lia.
Qed.

(* an entry of [with_offsets] determines its record: offsets are unique *)
Lemma with_offsets_inj o rs p r r' :
  In (p, r) (with_offsets o rs) -> In (p, r') (with_offsets o rs) -> r = r'.
Proof.
  revert o. induction rs as [|x rs IH]; intros o H1 H2; [destruct H1|].
  rewrite with_offsets_cons in H1, H2. pose proof (rsize_pos x) as Hx.
  destruct H1 as [E1|H1], H2 as [E2|H2].
  - congruence.
  - inversion E1; subst. apply with_offsets_In_range in H2. lia.
  - inversion E2; subst. apply with_offsets_In_range in H1. lia.
  - eapply IH; eassumption.
Qed.

Lemma with_offsets_NoDup_fst o rs : NoDup (map fst (with_offsets o rs)).
Proof.
  revert o. induction rs as [|x rs IH]; intros o; [constructor|].
  rewrite with_offsets_cons. cbn [map fst]. constructor; [|apply IH].
  intros HIn. apply in_map_iff in HIn. destruct HIn as ([p r] & E & HIn). cbn [fst] in E. subst p.
  apply with_offsets_In_range in HIn. pose proof (rsize_pos x). lia.
Qed.

Lemma rec_at_nil p : rec_at p [] = None. Proof. reflexivity. Qed.
Lemma rec_at_cons p o r es : rec_at p ((o, r) :: es) = if o =? p then Some r else rec_at p es.
Proof. reflexivity. Qed.

Lemma rec_at_In p es r : rec_at p es = Some r -> In (p, r) es.
Proof.
  induction es as [|[o x] es IH]; intros H; [discriminate|].
  rewrite rec_at_cons in H. destruct (N.eqb_spec o p) as [->|Hne].
  - inversion H; subst. left. reflexivity.
  - right. apply IH. exact H.
Qed.

Lemma rec_at_None p es : rec_at p es = None <-> (forall r, ~ In (p, r) es).
Proof.
  induction es as [|[o x] es IH].
  - split; [intros _ r []|reflexivity].
  - rewrite rec_at_cons. destruct (N.eqb_spec o p) as [->|Hne].
    + split; [discriminate|]. intros H. exfalso. apply (H x). left. reflexivity.
    + rewrite IH. split; intros H r.
      * intros [E|HIn]; [inversion E; congruence|]. exact (H r HIn).
      * intros HIn. apply (H r). right. exact HIn.
Qed.

(* [rec_at] finds exactly the record starting at an offset *)
Lemma rec_at_with_offsets o rs p r :
  rec_at p (with_offsets o rs) = Some r <-> In (p, r) (with_offsets o rs).
Proof.
  split; [apply rec_at_In|].
  intros HIn. destruct (rec_at p (with_offsets o rs)) as [r'|] eqn:E.
  - apply rec_at_In in E. f_equal. eapply with_offsets_inj; eassumption.
  - exfalso. exact (proj1 (rec_at_None _ _) E r HIn).
Qed.

Lemma rec_at_app p a b :
  rec_at p (a ++ b) = match rec_at p a with Some r => Some r | None => rec_at p b end.
Proof.
  induction a as [|[o x] a IH]; [reflexivity|].
  cbn [app]. rewrite !rec_at_cons. destruct (o =? p); [reflexivity|exact IH].
Qed.

Lemma rec_at_out_of_range o rs p : p < o \/ o + recs_len rs <= p -> rec_at p (with_offsets o rs) = None.
Proof.
  intros H. apply rec_at_None. intros r HIn. apply with_offsets_In_range in HIn.
  pose proof (rsize_pos r). lia.
Qed.

Lemma rec_at_snoc_new o rs r : rec_at (o + recs_len rs) (with_offsets o (rs ++ [r])) = Some r.
Proof.
  rewrite with_offsets_snoc, rec_at_app, rec_at_out_of_range by lia.
  rewrite rec_at_cons, N.eqb_refl. reflexivity.
Qed.

Lemma rec_at_snoc_old o rs r p r' :
  rec_at p (with_offsets o rs) = Some r' -> rec_at p (with_offsets o (rs ++ [r])) = Some r'.
Proof. intros H. rewrite with_offsets_snoc, rec_at_app, H. reflexivity. Qed.

Lemma rec_at_snoc o rs r p :
  rec_at p (with_offsets o (rs ++ [r])) =
  if p =? o + recs_len rs then Some r else rec_at p (with_offsets o rs).
Proof.
  destruct (N.eqb_spec p (o + recs_len rs)) as [->|Hne]; [apply rec_at_snoc_new|].
  rewrite with_offsets_snoc, rec_at_app. destruct (rec_at p (with_offsets o rs)); [reflexivity|].
  rewrite rec_at_cons. destruct (N.eqb_spec (o + recs_len rs) p); [congruence|reflexivity].
Qed.

(* byte length of a file with a header and an empty tail *)
Lemma flen_clean f : f_hdr f = true -> f_tail f = [] -> flen f = header_size + recs_len (f_recs f).
Proof. intros Hh Ht. unfold flen. rewrite Hh, Ht, nlen_nil. lia. Qed.

Lemma seg_entries_In_rec f p r : In (p, r) (seg_entries f) -> In r (f_recs f).
Proof. apply with_offsets_In_rec. Qed.

Lemma seg_entries_range f p r :
  In (p, r) (seg_entries f) -> header_size <= p /\ p + rsize r <= header_size + recs_len (f_recs f).
Proof. apply with_offsets_In_range. Qed.

(* ================================================================================================ *)
(* 2. The part of the disk that reads depend on: [same_log]; frame lemmas for events                 *)

(* the record of segment [id] that starts at offset [off] *)
Definition rec_of (d : disk) (id off : N) : option rec :=
  match find_dseg id d with None => None | Some f => rec_at off (seg_entries f) end.

Definition seg_core (f : dseg) : N * N * bool * list rec * bytes :=
  (f_id f, f_seq f, f_hdr f, f_recs f, f_tail f).
(* same segment files up to the side files (.psg.pmt) *)
Definition same_log (d d' : disk) : Prop := map seg_core (d_segs d) = map seg_core (d_segs d').
(* same everything else *)
Definition same_rest (d d' : disk) : Prop :=
  d_orphans d' = d_orphans d /\ d_index d' = d_index d /\ d_overflow d' = d_overflow d /\
  d_imeta d' = d_imeta d /\ d_dbmeta d' = d_dbmeta d /\ d_lock d' = d_lock d /\ d_bac d' = d_bac d.

Definition strip (f : dseg) : dseg := set_fmeta GAbsent f.
Definition olog_of (l : list dseg) : list entry := concat (map dseg_entries (dby_seq l)).

Lemma olog_eq d : olog d = olog_of (d_segs d). Proof. reflexivity. Qed.

Lemma same_log_refl d : same_log d d. Proof. reflexivity. Qed.
Lemma same_log_sym d d' : same_log d d' -> same_log d' d. Proof. unfold same_log. congruence. Qed.
Lemma same_log_trans a b c : same_log a b -> same_log b c -> same_log a c.
Proof. unfold same_log. congruence. Qed.
Lemma same_log_segs d d' : d_segs d' = d_segs d -> same_log d d'.
Proof. unfold same_log. intros ->. reflexivity. Qed.
Lemma same_rest_refl d : same_rest d d. Proof. repeat split. Qed.
Lemma same_rest_trans a b c : same_rest a b -> same_rest b c -> same_rest a c.
Proof. unfold same_rest. intuition congruence. Qed.

Lemma same_log_strip d d' : same_log d d' -> map strip (d_segs d) = map strip (d_segs d').
Proof.
  intros H.
  assert (E : forall l, map strip l =
            map (fun t : N * N * bool * list rec * bytes =>
                   let '(i, q, h, rs, t') := t in
                   {| f_id := i; f_seq := q; f_hdr := h; f_recs := rs; f_tail := t'; f_meta := GAbsent |})
                (map seg_core l)).
  { intros l. rewrite map_map. apply map_ext. intros f. reflexivity. }
  rewrite !E. unfold same_log in H. rewrite H. reflexivity.
Qed.

Lemma seg_core_inv f f' :
  seg_core f' = seg_core f ->
  f_id f' = f_id f /\ f_seq f' = f_seq f /\ f_hdr f' = f_hdr f /\ f_recs f' = f_recs f /\
  f_tail f' = f_tail f /\ flen f' = flen f /\ seg_entries f' = seg_entries f.
Proof.
  unfold seg_core. intros E. inversion E as [[E1 E2 E3 E4 E5]].
  unfold flen, seg_entries. rewrite E3, E4, E5. repeat split; reflexivity.
Qed.

Lemma same_log_In d d' f :
  same_log d d' -> In f (d_segs d) -> exists f', In f' (d_segs d') /\ seg_core f' = seg_core f.
Proof.
  intros H HIn. apply (in_map seg_core) in HIn. rewrite H in HIn.
  apply in_map_iff in HIn. destruct HIn as (f' & E & HIn). exists f'. split; assumption.
Qed.

(* ---- dby_seq commutes with maps that keep the sequence ids ---- *)
Lemma insert_dseg_seq_map (F : dseg -> dseg) f l :
  (forall x, f_seq (F x) = f_seq x) ->
  insert_dseg_seq (F f) (map F l) = map F (insert_dseg_seq f l).
Proof.
  intros HF. induction l as [|x l IH]; [reflexivity|].
  cbn [map insert_dseg_seq]. rewrite !HF. destruct (f_seq f <? f_seq x); [reflexivity|].
  cbn [map]. rewrite IH. reflexivity.
Qed.

Lemma dby_seq_fold_map (F : dseg -> dseg) l :
  (forall x, f_seq (F x) = f_seq x) -> forall acc,
  fold_left (fun acc f => insert_dseg_seq f acc) (map F l) (map F acc) =
  map F (fold_left (fun acc f => insert_dseg_seq f acc) l acc).
Proof.
  intros HF. induction l as [|x l IH]; intros acc; [reflexivity|].
  cbn [map fold_left]. rewrite insert_dseg_seq_map by exact HF. apply IH.
Qed.

Lemma dby_seq_map (F : dseg -> dseg) l :
  (forall x, f_seq (F x) = f_seq x) -> dby_seq (map F l) = map F (dby_seq l).
Proof. intros HF. unfold dby_seq. apply (dby_seq_fold_map F l HF []). Qed.

Lemma olog_of_map (F : dseg -> dseg) l :
  (forall x, f_seq (F x) = f_seq x) -> (forall x, dseg_entries (F x) = dseg_entries x) ->
  olog_of (map F l) = olog_of l.
Proof.
  intros HF HE. unfold olog_of. rewrite dby_seq_map by exact HF. rewrite map_map.
  f_equal. apply map_ext. exact HE.
Qed.

Lemma olog_of_strip l : olog_of (map strip l) = olog_of l.
Proof. apply olog_of_map; intros x; reflexivity. Qed.

(* ---- olog, abs, ptr_of depend on the disk only through same_log ---- *)
Lemma same_log_olog d d' : same_log d d' -> olog d' = olog d.
Proof.
  intros H. rewrite !olog_eq, <- (olog_of_strip (d_segs d')), <- (olog_of_strip (d_segs d)).
  rewrite (same_log_strip _ _ H). reflexivity.
Qed.
Lemma same_log_abs d d' : same_log d d' -> abs d' = abs d.
Proof. intros H. unfold abs. rewrite (same_log_olog _ _ H). reflexivity. Qed.
Lemma same_log_ptr_of d d' : same_log d d' -> ptr_of d' = ptr_of d.
Proof. intros H. unfold ptr_of. rewrite (same_log_olog _ _ H). reflexivity. Qed.

(* ---- find_dseg ---- *)
Lemma find_dseg_In id (d : disk) f : find_dseg id d = Some f -> In f (d_segs d) /\ f_id f = id.
Proof.
  unfold find_dseg. intros H. apply find_some in H. destruct H as [HIn E].
  apply N.eqb_eq in E. split; assumption.
Qed.

Lemma find_dseg_None id (d : disk) :
  find_dseg id d = None <-> (forall f, In f (d_segs d) -> f_id f <> id).
Proof.
  unfold find_dseg. split.
  - intros H f HIn E. pose proof (find_none _ _ H f HIn) as Hn. cbn beta in Hn.
    apply N.eqb_neq in Hn. congruence.
  - intros H. destruct (find _ (d_segs d)) as [f|] eqn:E; [|reflexivity].
    apply find_some in E. destruct E as [HIn E]. apply N.eqb_eq in E. exfalso. exact (H f HIn E).
Qed.

Lemma find_id_unique (l : list dseg) f :
  NoDup (map f_id l) -> In f l -> find (fun s => f_id s =? f_id f) l = Some f.
Proof.
  induction l as [|x l IH]; intros Hnd HIn; [destruct HIn|].
  cbn [map] in Hnd. inversion Hnd as [|? ? Hx Hnd']; subst. cbn [find].
  destruct HIn as [->|HIn]; [rewrite N.eqb_refl; reflexivity|].
  destruct (N.eqb_spec (f_id x) (f_id f)) as [E|_]; [|apply IH; assumption].
  exfalso. apply Hx. rewrite E. apply in_map. exact HIn.
Qed.

Lemma find_dseg_unique (d : disk) f :
  NoDup (map f_id (d_segs d)) -> In f (d_segs d) -> find_dseg (f_id f) d = Some f.
Proof. apply find_id_unique. Qed.

Lemma find_dseg_segs (d d' : disk) id : d_segs d' = d_segs d -> find_dseg id d' = find_dseg id d.
Proof. unfold find_dseg. intros ->. reflexivity. Qed.

Lemma find_map_id (F : dseg -> dseg) id (l : list dseg) :
  (forall s, f_id (F s) = f_id s) ->
  find (fun s => f_id s =? id) (map F l) = option_map F (find (fun s => f_id s =? id) l).
Proof.
  intros HF. induction l as [|x l IH]; [reflexivity|].
  cbn [map find]. rewrite HF. destruct (f_id x =? id); [reflexivity|exact IH].
Qed.

(* upd_seg with a function that keeps the id *)
Lemma find_dseg_upd_seg id seq g (d : disk) id' :
  (forall s, f_id (g s) = f_id s) ->
  find_dseg id' (upd_seg id seq g d) =
  option_map (fun s => if is_seg id seq s then g s else s) (find_dseg id' d).
Proof.
  intros Hg. unfold find_dseg, upd_seg; cbn [d_segs]. apply find_map_id.
  intros s. destruct (is_seg id seq s); [apply Hg|reflexivity].
Qed.

Lemma find_dseg_upd_seg_other id seq g (d : disk) id' :
  (forall s, f_id (g s) = f_id s) -> id' <> id ->
  find_dseg id' (upd_seg id seq g d) = find_dseg id' d.
Proof.
  intros Hg Hne. rewrite find_dseg_upd_seg by exact Hg.
  destruct (find_dseg id' d) as [f|] eqn:E; [|reflexivity]. cbn [option_map].
  apply find_dseg_In in E. destruct E as [_ E]. unfold is_seg.
  destruct (N.eqb_spec (f_id f) id); [congruence|reflexivity].
Qed.

Lemma find_dseg_upd_seg_same id seq g (d : disk) f :
  (forall s, f_id (g s) = f_id s) -> find_dseg id d = Some f -> f_seq f = seq ->
  find_dseg id (upd_seg id seq g d) = Some (g f).
Proof.
  intros Hg E Hs. rewrite find_dseg_upd_seg, E by exact Hg. cbn [option_map].
  apply find_dseg_In in E. destruct E as [_ E]. unfold is_seg. rewrite E, Hs, !N.eqb_refl. reflexivity.
Qed.

Lemma d_segs_upd_seg id seq g (d : disk) :
  d_segs (upd_seg id seq g d) = map (fun s => if is_seg id seq s then g s else s) (d_segs d).
Proof. reflexivity. Qed.

Lemma upd_seg_same_rest id seq g (d : disk) : same_rest d (upd_seg id seq g d).
Proof. repeat split. Qed.

Lemma upd_seg_same_log id seq g (d : disk) :
  (forall s, seg_core (g s) = seg_core s) -> same_log d (upd_seg id seq g d).
Proof.
  intros Hg. unfold same_log. rewrite d_segs_upd_seg, map_map. apply map_ext.
  intros s. destruct (is_seg id seq s); [symmetry; apply Hg|reflexivity].
Qed.

(* ---- rec_of / read_kv / matchf / slot_key / slot_ok through same_log ---- *)
Lemma same_log_rec_of d d' id off : same_log d d' -> rec_of d' id off = rec_of d id off.
Proof.
  intros H. unfold rec_of, find_dseg.
  assert (E : forall l : list dseg,
            match find (fun s => f_id s =? id) l with None => None | Some f => rec_at off (seg_entries f) end =
            match find (fun s => f_id s =? id) (map strip l) with None => None | Some f => rec_at off (seg_entries f) end).
  { intros l. rewrite (find_map_id strip) by reflexivity.
    destruct (find _ l); reflexivity. }
  rewrite (E (d_segs d')), (E (d_segs d)), (same_log_strip _ _ H). reflexivity.
Qed.

Lemma read_kv_rec_of (d : disk) sl :
  read_kv d sl =
  option_map (fun r => (ntake (sl_ks sl) (rk r ++ rv r), ntake (sl_vs sl) (ndrop (sl_ks sl) (rk r ++ rv r))))
             (rec_of d (sl_seg sl) (sl_off sl)).
Proof.
  unfold read_kv, rec_of. destruct (find_dseg (sl_seg sl) d) as [f|]; [|reflexivity].
  destruct (rec_at (sl_off sl) (seg_entries f)); reflexivity.
Qed.

Lemma same_log_read_kv d d' sl : same_log d d' -> read_kv d' sl = read_kv d sl.
Proof. intros H. rewrite !read_kv_rec_of, (same_log_rec_of _ _ _ _ H). reflexivity. Qed.
Lemma same_log_matchf d d' k sl : same_log d d' -> matchf d' k sl = matchf d k sl.
Proof. intros H. unfold matchf. rewrite (same_log_read_kv _ _ _ H). reflexivity. Qed.
Lemma same_log_slot_key d d' sl : same_log d d' -> slot_key d' sl = slot_key d sl.
Proof. intros H. unfold slot_key. rewrite (same_log_read_kv _ _ _ H). reflexivity. Qed.

Lemma slot_ok_rec_of P (d : disk) seed sl :
  slot_ok P d seed sl <->
  exists r, rec_of d (sl_seg sl) (sl_off sl) = Some r /\ rdel r = false /\
            sl_ks sl = nlen (rk r) /\ sl_vs sl = nlen (rv r) /\ sl_h sl = p_hash P seed (rk r).
Proof.
  unfold slot_ok, rec_of. split.
  - intros (f & r & E1 & E2 & H). exists r. rewrite E1. split; assumption.
  - intros (r & E & H). destruct (find_dseg (sl_seg sl) d) as [f|]; [|discriminate].
    exists f, r. repeat split; try assumption; apply H.
Qed.

Lemma same_log_slot_ok P d d' seed sl : same_log d d' -> slot_ok P d seed sl -> slot_ok P d' seed sl.
Proof.
  intros H. rewrite !slot_ok_rec_of. intros (r & E & Hr). exists r.
  rewrite (same_log_rec_of _ _ _ _ H). split; assumption.
Qed.

(* ---- DiskOK, mem_disk_agree through same_log ---- *)
Lemma dseg_ok_core f f' : seg_core f' = seg_core f -> dseg_ok f -> dseg_ok f'.
Proof.
  intros E. apply seg_core_inv in E. destruct E as (_ & _ & E3 & E4 & E5 & _).
  unfold dseg_ok. rewrite E3, E4, E5. exact (fun H => H).
Qed.

Lemma same_log_ids d d' : same_log d d' -> map f_id (d_segs d') = map f_id (d_segs d).
Proof.
  intros H. transitivity (map (fun t : N * N * bool * list rec * bytes => fst (fst (fst (fst t)))) (map seg_core (d_segs d'))).
  - rewrite map_map. reflexivity.
  - rewrite <- H, map_map. reflexivity.
Qed.
Lemma same_log_seqs d d' : same_log d d' -> map f_seq (d_segs d') = map f_seq (d_segs d).
Proof.
  intros H. transitivity (map (fun t : N * N * bool * list rec * bytes => snd (fst (fst (fst t)))) (map seg_core (d_segs d'))).
  - rewrite map_map. reflexivity.
  - rewrite <- H, map_map. reflexivity.
Qed.

Lemma same_log_DiskOK d d' : same_log d d' -> DiskOK d -> DiskOK d'.
Proof.
  intros H (Hok & Hid & Hseq). unfold DiskOK.
  rewrite (same_log_ids _ _ H), (same_log_seqs _ _ H). repeat split; try assumption.
  apply Forall_forall. intros f' HIn. apply (same_log_In _ _ _ (same_log_sym _ _ H)) in HIn.
  destruct HIn as (f & HIn & E). apply (dseg_ok_core f f'); [congruence|].
  exact (proj1 (Forall_forall _ _) Hok f HIn).
Qed.

Lemma same_log_mem_disk_agree (m : mem) d d' : same_log d d' -> mem_disk_agree m d -> mem_disk_agree m d'.
Proof.
  intros H [H1 H2]. split.
  - intros g Hg. destruct (H1 g Hg) as (f & HIn & A1 & A2 & A3 & A4 & A5).
    destruct (same_log_In _ _ _ H HIn) as (f' & HIn' & E). apply seg_core_inv in E.
    destruct E as (E1 & E2 & E3 & E4 & E5 & E6 & _). exists f'. repeat split; congruence.
  - intros f' HIn'. destruct (same_log_In _ _ _ (same_log_sym _ _ H) HIn') as (f & HIn & E).
    apply seg_core_inv in E. destruct E as (E1 & E2 & _).
    destruct (H2 f HIn) as (g & Hg & A1 & A2). exists g. repeat split; congruence.
Qed.

(* ---- events ---- *)
(* the events that change the segment files proper (everything else keeps [same_log]) *)
Definition touches_log (e : fsev) : bool :=
  match e with
  | EAppend _ _ _ _ => true
  | ECreate (FSeg _ _) | EHeader (FSeg _ _) | ERemove (FSeg _ _) | ETrunc (FSeg _ _) _
  | ERename (FSeg _ _) _ => true
  | _ => false
  end.

Lemma set_fmeta_core g s : seg_core (set_fmeta g s) = seg_core s. Proof. reflexivity. Qed.

Lemma file_removed_same_log f (d : disk) :
  match f with FSeg _ _ => False | _ => True end -> same_log d (file_removed f d).
Proof.
  destruct f; intros H; try destruct H; try reflexivity.
  unfold file_removed. apply (upd_seg_same_log id seq (set_fmeta GAbsent) d). intros s. reflexivity.
Qed.

Theorem apply_ev_same_log (d : disk) e : touches_log e = false -> same_log d (apply_ev flat_ops d e).
Proof.
  destruct e as [f|f|id seq off r|i|id seq m|i|sd|f n|f g|f|f]; cbn [touches_log]; intros H;
    try discriminate; try reflexivity.
  - destruct f; try discriminate; try reflexivity.
    apply (upd_seg_same_log id seq (set_fmeta GPartial) d). intros s. reflexivity.
  - destruct f; try discriminate; reflexivity.
  - apply (upd_seg_same_log id seq (set_fmeta (GOk m)) d). intros s. reflexivity.
  - destruct f; try discriminate; try reflexivity.
    apply (upd_seg_same_log id seq (set_fmeta GPartial) d). intros s. reflexivity.
  - cbn [apply_ev]. apply (same_log_trans _ (file_removed f d)); [|reflexivity].
    apply file_removed_same_log. destruct f; try exact Logic.I. discriminate.
  - cbn [apply_ev]. apply file_removed_same_log. destruct f; try exact Logic.I. discriminate.
Qed.

(* the events on segment files leave everything else alone *)
Lemma apply_ev_append_rest (d : disk) id seq off r : same_rest d (apply_ev flat_ops d (EAppend id seq off r)).
Proof. repeat split. Qed.
Lemma apply_ev_create_seg_rest (d : disk) id seq : same_rest d (apply_ev flat_ops d (ECreate (FSeg id seq))).
Proof. repeat split. Qed.
Lemma apply_ev_header_rest (d : disk) f : same_rest d (apply_ev flat_ops d (EHeader f)).
Proof. destruct f; repeat split. Qed.
Lemma apply_ev_trunc_seg_rest (d : disk) id seq n : same_rest d (apply_ev flat_ops d (ETrunc (FSeg id seq) n)).
Proof. repeat split. Qed.
Lemma apply_ev_sync (d : disk) f : apply_ev flat_ops d (ESync f) = d.
Proof. reflexivity. Qed.
Lemma apply_ev_header_nonseg (d : disk) f :
  match f with FSeg _ _ => False | _ => True end -> apply_ev flat_ops d (EHeader f) = d.
Proof. destruct f; intros H; try destruct H; reflexivity. Qed.

(* the defining equations, for rewriting *)
Lemma apply_ev_append (d : disk) id seq off r :
  apply_ev flat_ops d (EAppend id seq off r) = upd_seg id seq (append_seg off r) d.
Proof. reflexivity. Qed.
Lemma apply_ev_index (d : disk) i : apply_ev flat_ops d (EIndex i) = set_index d (Some i).
Proof. reflexivity. Qed.
Lemma d_segs_create_seg (d : disk) id seq :
  d_segs (apply_ev flat_ops d (ECreate (FSeg id seq))) =
  d_segs d ++ [{| f_id := id; f_seq := seq; f_hdr := false; f_recs := []; f_tail := []; f_meta := GAbsent |}].
Proof. reflexivity. Qed.
Lemma d_segs_remove_seg (d : disk) id seq :
  d_segs (apply_ev flat_ops d (ERemove (FSeg id seq))) = filter (fun s => negb (is_seg id seq s)) (d_segs d).
Proof. reflexivity. Qed.
Lemma d_segs_index (d : disk) i : d_segs (apply_ev flat_ops d (EIndex i)) = d_segs d.
Proof. reflexivity. Qed.
Lemma d_index_index (d : disk) i : d_index (apply_ev flat_ops d (EIndex i)) = Some i.
Proof. reflexivity. Qed.
Lemma apply_ev_index_frame (d : disk) i :
  let d' := apply_ev flat_ops d (EIndex i) in
  d_segs d' = d_segs d /\ d_orphans d' = d_orphans d /\ d_overflow d' = d_overflow d /\
  d_imeta d' = d_imeta d /\ d_dbmeta d' = d_dbmeta d /\ d_lock d' = d_lock d /\ d_bac d' = d_bac d.
Proof. repeat split. Qed.

(* emit *)
Lemma s_disk_emit e (s : st) : s_disk (emit flat_ops e s) = apply_ev flat_ops (s_disk s) e.
Proof. reflexivity. Qed.
Lemma s_mem_emit e (s : st) : s_mem (emit flat_ops e s) = s_mem s.
Proof. reflexivity. Qed.
Lemma s_trace_emit e (s : st) : s_trace (emit flat_ops e s) = s_trace s ++ [e].
Proof. reflexivity. Qed.

(* ================================================================================================ *)
(* 3. dby_seq and olog                                                                                *)
Local Notation ins_fold := (fold_left (fun acc f => insert_dseg_seq f acc)).

Lemma insert_dseg_seq_perm f l : Permutation (insert_dseg_seq f l) (f :: l).
Proof.
  induction l as [|x l IH]; [reflexivity|].
  cbn [insert_dseg_seq]. destruct (f_seq f <? f_seq x); [reflexivity|].
  rewrite IH. apply perm_swap.
Qed.

Lemma ins_fold_perm l : forall acc, Permutation (ins_fold l acc) (acc ++ l).
Proof.
  induction l as [|x l IH]; intros acc; cbn [fold_left].
  - rewrite app_nil_r. reflexivity.
  - rewrite IH, insert_dseg_seq_perm.
    cbn [app]. apply Permutation_middle.
Qed.

Theorem dby_seq_perm l : Permutation (dby_seq l) l.
Proof. unfold dby_seq. rewrite ins_fold_perm. reflexivity. Qed.

Lemma dby_seq_In l f : In f (dby_seq l) <-> In f l.
Proof. split; apply Permutation_in; [|symmetry]; apply dby_seq_perm. Qed.

Lemma insert_dseg_seq_In f l x : In x (insert_dseg_seq f l) <-> x = f \/ In x l.
Proof.
  split; intros H.
  - apply (Permutation_in _ (insert_dseg_seq_perm f l)) in H. destruct H; [left; congruence|right; assumption].
  - apply (Permutation_in _ (Permutation_sym (insert_dseg_seq_perm f l))). destruct H; [left; congruence|right; assumption].
Qed.

Lemma insert_dseg_seq_sorted f l :
  StronglySorted (fun a b => f_seq a <= f_seq b) l ->
  StronglySorted (fun a b => f_seq a <= f_seq b) (insert_dseg_seq f l).
Proof.
  induction l as [|x l IH]; intros Hs.
  - cbn [insert_dseg_seq]. constructor; constructor.
  - cbn [insert_dseg_seq]. inversion Hs as [|? ? Hs' Hx]; subst.
    destruct (N.ltb_spec (f_seq f) (f_seq x)) as [Hlt|Hge].
    + constructor; [exact Hs|]. constructor; [lia|].
      apply Forall_forall. intros y Hy. fa Hx y Hy. lia.
    + constructor; [apply IH; exact Hs'|].
      apply Forall_forall. intros y Hy. apply insert_dseg_seq_In in Hy. destruct Hy as [->|Hy]; [exact Hge|].
      exact (proj1 (Forall_forall _ _) Hx y Hy).
Qed.

Lemma ins_fold_sorted l : forall acc,
  StronglySorted (fun a b => f_seq a <= f_seq b) acc ->
  StronglySorted (fun a b => f_seq a <= f_seq b) (ins_fold l acc).
Proof.
  induction l as [|x l IH]; intros acc Hs; [exact Hs|].
  cbn [fold_left]. apply IH. apply insert_dseg_seq_sorted. exact Hs.
Qed.

Theorem dby_seq_sorted l : StronglySorted (fun a b => f_seq a <= f_seq b) (dby_seq l).
Proof. apply ins_fold_sorted. constructor. Qed.

Lemma sorted_le_lt (l : list dseg) :
  NoDup (map f_seq l) -> StronglySorted (fun a b => f_seq a <= f_seq b) l ->
  StronglySorted (fun a b => f_seq a < f_seq b) l.
Proof.
  induction l as [|x l IH]; intros Hnd Hs; [constructor|].
  cbn [map] in Hnd. inversion Hnd as [|? ? Hx Hnd']; subst. inversion Hs as [|? ? Hs' Hle]; subst.
  constructor; [apply IH; assumption|].
  apply Forall_forall. intros y Hy. fa Hle y Hy.
  assert (f_seq x <> f_seq y); [|lia]. intros E. apply Hx. rewrite E. apply in_map. exact Hy.
Qed.

Theorem dby_seq_sorted_lt l :
  NoDup (map f_seq l) -> StronglySorted (fun a b => f_seq a < f_seq b) (dby_seq l).
Proof.
  intros Hnd. apply sorted_le_lt; [|apply dby_seq_sorted].
  apply (Permutation_NoDup (l := map f_seq l)); [|exact Hnd].
  apply Permutation_map. symmetry. apply dby_seq_perm.
Qed.

Lemma dby_seq_snoc l f : dby_seq (l ++ [f]) = insert_dseg_seq f (dby_seq l).
Proof. unfold dby_seq. rewrite fold_left_app. reflexivity. Qed.

(* inserting an element that is larger than everything puts it at the end, and it stays there *)
Lemma insert_dseg_seq_max f l :
  (forall x, In x l -> f_seq x <= f_seq f) -> insert_dseg_seq f l = l ++ [f].
Proof.
  induction l as [|x l IH]; intros H; [reflexivity|].
  cbn [insert_dseg_seq app]. destruct (N.ltb_spec (f_seq f) (f_seq x)) as [Hlt|_].
  - pose proof (H x (or_introl eq_refl)). lia.
  - rewrite IH; [reflexivity|]. intros y Hy. apply H. right. exact Hy.
Qed.

Lemma insert_dseg_seq_below x l f :
  f_seq x < f_seq f -> insert_dseg_seq x (l ++ [f]) = insert_dseg_seq x l ++ [f].
Proof.
  intros Hlt. induction l as [|y l IH].
  - cbn [app insert_dseg_seq]. apply N.ltb_lt in Hlt. rewrite Hlt. reflexivity.
  - cbn [app insert_dseg_seq]. destruct (f_seq x <? f_seq y); [reflexivity|].
    rewrite IH. reflexivity.
Qed.

Lemma ins_fold_below l f : forall acc,
  (forall x, In x l -> f_seq x < f_seq f) -> ins_fold l (acc ++ [f]) = ins_fold l acc ++ [f].
Proof.
  induction l as [|x l IH]; intros acc H; [reflexivity|].
  cbn [fold_left]. rewrite insert_dseg_seq_below by (apply H; left; reflexivity).
  apply IH. intros y Hy. apply H. right. exact Hy.
Qed.

(* the segment with the largest sequence id comes last *)
Theorem dby_seq_max_last l f :
  NoDup l -> In f l -> (forall x, In x l -> x <> f -> f_seq x < f_seq f) ->
  exists pre, dby_seq l = pre ++ [f] /\ Permutation (pre ++ [f]) l.
Proof.
  intros Hnd HIn Hmax. apply in_split in HIn. destruct HIn as (l1 & l2 & ->).
  assert (Hnot : ~ In f l1 /\ ~ In f l2).
  { apply NoDup_remove_2 in Hnd. split; intros H; apply Hnd; apply in_or_app; [left|right]; exact H. }
  destruct Hnot as [Hn1 Hn2].
  exists (ins_fold l2 (dby_seq l1)). split.
  - unfold dby_seq. rewrite fold_left_app. cbn [fold_left].
    rewrite insert_dseg_seq_max.
    + apply ins_fold_below. intros x Hx. apply Hmax; [apply in_or_app; right; right; exact Hx|].
      intros ->. exact (Hn2 Hx).
    + intros x Hx. apply (proj1 (dby_seq_In l1 x)) in Hx.
      assert (f_seq x < f_seq f); [|lia]. apply Hmax; [apply in_or_app; left; exact Hx|].
      intros ->. exact (Hn1 Hx).
  - rewrite ins_fold_perm, dby_seq_perm, <- app_assoc. apply Permutation_app_head.
    apply (Permutation_app_comm l2 [f]).
Qed.

(* a list without repeated sequence ids has exactly one sorted arrangement *)
Lemma sorted_lt_perm_eq (l1 : list dseg) : forall l2,
  StronglySorted (fun a b => f_seq a < f_seq b) l1 ->
  StronglySorted (fun a b => f_seq a < f_seq b) l2 ->
  Permutation l1 l2 -> l1 = l2.
Proof.
  induction l1 as [|x l1 IH]; intros l2 H1 H2 Hp.
  - apply Permutation_nil in Hp. congruence.
  - destruct l2 as [|y l2]; [apply Permutation_sym, Permutation_nil in Hp; discriminate|].
    inversion H1 as [|? ? H1' Hx]; subst. inversion H2 as [|? ? H2' Hy]; subst.
    assert (E : x = y).
    { assert (Hxin : In x (y :: l2)) by (apply (Permutation_in _ Hp); left; reflexivity).
      assert (Hyin : In y (x :: l1)) by (apply (Permutation_in _ (Permutation_sym Hp)); left; reflexivity).
      destruct Hxin as [->|Hxin]; [reflexivity|]. destruct Hyin as [->|Hyin]; [reflexivity|].
      fa Hy x Hxin. fa Hx y Hyin. lia. }
    subst y. f_equal. apply IH; try assumption. apply Permutation_cons_inv in Hp. exact Hp.
Qed.

Theorem dby_seq_unique l L :
  NoDup (map f_seq l) -> StronglySorted (fun a b => f_seq a < f_seq b) L -> Permutation L l ->
  dby_seq l = L.
Proof.
  intros Hnd HL Hp. apply sorted_lt_perm_eq; [apply dby_seq_sorted_lt; exact Hnd|exact HL|].
  rewrite dby_seq_perm. symmetry. exact Hp.
Qed.

Lemma sorted_filter {A} (R : A -> A -> Prop) p (l : list A) :
  StronglySorted R l -> StronglySorted R (filter p l).
Proof.
  induction l as [|x l IH]; intros Hs; [constructor|].
  inversion Hs as [|? ? Hs' Hx]; subst. cbn [filter]. destruct (p x); [|apply IH; exact Hs'].
  constructor; [apply IH; exact Hs'|]. apply Forall_forall. intros y Hy. apply filter_In in Hy.
  exact (proj1 (Forall_forall _ _) Hx y (proj1 Hy)).
Qed.

Lemma Permutation_filter {A} p (l l' : list A) : Permutation l l' -> Permutation (filter p l) (filter p l').
Proof.
  induction 1 as [|x l l' Hp IH|x y l|l l' l'' H1 IH1 H2 IH2]; cbn [filter].
  - constructor.
  - destruct (p x); [constructor|]; exact IH.
  - destruct (p x), (p y); try reflexivity. apply perm_swap.
  - etransitivity; eassumption.
Qed.

Lemma NoDup_map_filter {A B} (f : A -> B) p (l : list A) : NoDup (map f l) -> NoDup (map f (filter p l)).
Proof.
  induction l as [|x l IH]; intros Hnd; [constructor|].
  cbn [map] in Hnd. inversion Hnd as [|? ? Hx Hnd']; subst. cbn [filter].
  destruct (p x); [|apply IH; exact Hnd']. cbn [map]. constructor; [|apply IH; exact Hnd'].
  intros HIn. apply Hx. apply in_map_iff in HIn. destruct HIn as (y & E & Hy).
  apply filter_In in Hy. rewrite <- E. apply in_map. exact (proj1 Hy).
Qed.

Theorem dby_seq_filter p l :
  NoDup (map f_seq l) -> dby_seq (filter p l) = filter p (dby_seq l).
Proof.
  intros Hnd. apply dby_seq_unique.
  - apply NoDup_map_filter. exact Hnd.
  - apply sorted_filter. apply dby_seq_sorted_lt. exact Hnd.
  - apply Permutation_filter. apply dby_seq_perm.
Qed.

(* ---- olog ---- *)
Lemma dseg_entries_In f e :
  In e (dseg_entries f) <-> fst (fst e) = f_id f /\ In (snd (fst e), snd e) (seg_entries f).
Proof.
  unfold dseg_entries. rewrite in_map_iff. split.
  - intros ([o r] & <- & HIn). cbn [fst snd]. split; [reflexivity|exact HIn].
  - destruct e as [[i o] r]. cbn [fst snd]. intros [-> HIn]. exists (o, r). split; [reflexivity|exact HIn].
Qed.

Theorem olog_In (d : disk) id off r :
  In (id, off, r) (olog d) <-> exists f, In f (d_segs d) /\ f_id f = id /\ In (off, r) (seg_entries f).
Proof.
  unfold olog. rewrite in_concat. split.
  - intros (es & Hes & HIn). apply in_map_iff in Hes. destruct Hes as (f & <- & Hf).
    apply (proj1 (dby_seq_In _ _)) in Hf. apply (proj1 (dseg_entries_In _ _)) in HIn. cbn [fst snd] in HIn.
    exists f. repeat split; [exact Hf|symmetry; apply HIn|apply HIn].
  - intros (f & Hf & E & HIn). exists (dseg_entries f). split.
    + apply in_map. apply (proj2 (dby_seq_In _ _)). exact Hf.
    + apply (proj2 (dseg_entries_In _ _)). cbn [fst snd]. split; [symmetry; exact E|exact HIn].
Qed.

(* reads see exactly the entries of the log *)
Theorem rec_of_olog (d : disk) id off r :
  NoDup (map f_id (d_segs d)) -> (rec_of d id off = Some r <-> In (id, off, r) (olog d)).
Proof.
  intros Hnd. rewrite olog_In. unfold rec_of. split.
  - destruct (find_dseg id d) as [f|] eqn:E; [|discriminate]. intros H.
    apply find_dseg_In in E. destruct E as [HIn E]. exists f. repeat split; try assumption.
    apply rec_at_In. exact H.
  - intros (f & HIn & E & He). subst id. rewrite (find_dseg_unique d f Hnd HIn).
    apply rec_at_with_offsets. exact He.
Qed.

Lemma olog_rec_fits (d : disk) id off r : DiskOK d -> In (id, off, r) (olog d) -> rec_fits r.
Proof.
  intros (Hok & _) HIn. apply olog_In in HIn. destruct HIn as (f & Hf & _ & He).
  fa Hok f Hf. destruct Hfa as (Hr & _). apply seg_entries_In_rec in He.
  exact (proj1 (Forall_forall _ _) Hr r He).
Qed.

Lemma rec_of_rec_fits (d : disk) id off r : DiskOK d -> rec_of d id off = Some r -> rec_fits r.
Proof.
  intros Hd H. apply (olog_rec_fits d id off r Hd). apply rec_of_olog; [apply Hd|exact H].
Qed.

Lemma dseg_entries_append off r f :
  dseg_entries (append_seg off r f) = dseg_entries f ++ [(f_id f, header_size + recs_len (f_recs f), r)].
Proof.
  unfold dseg_entries, seg_entries, append_seg; cbn [f_recs f_id].
  rewrite with_offsets_snoc, map_app. reflexivity.
Qed.

Lemma concat_map_snoc {A B} (g : A -> list B) l x : concat (map g (l ++ [x])) = concat (map g l) ++ g x.
Proof. rewrite map_app, concat_app. cbn [map concat]. rewrite app_nil_r. reflexivity. Qed.

(* Appending a record to the segment with the LARGEST sequence id appends one entry at the END of
   the log.  (The offset of the entry is the end of the records of the file, whatever the [off]
   argument of the event: see DB.append_seg.) *)
Theorem olog_append (d : disk) id seq off r f :
  NoDup (map f_id (d_segs d)) -> In f (d_segs d) -> f_id f = id -> f_seq f = seq ->
  (forall x, In x (d_segs d) -> x <> f -> f_seq x < f_seq f) ->
  olog (apply_ev flat_ops d (EAppend id seq off r)) =
  olog d ++ [(id, header_size + recs_len (f_recs f), r)].
Proof.
  intros Hnd HIn Eid Eseq Hmax.
  rewrite apply_ev_append, !olog_eq, d_segs_upd_seg. unfold olog_of.
  set (F := fun s : dseg => if is_seg id seq s then append_seg off r s else s).
  assert (HF : forall x, f_seq (F x) = f_seq x).
  { intros x. unfold F. destruct (is_seg id seq x); reflexivity. }
  rewrite dby_seq_map by exact HF.
  destruct (dby_seq_max_last (d_segs d) f (NoDup_map_inv _ _ Hnd) HIn Hmax) as (pre & -> & Hp).
  assert (Hpre : map F pre = pre).
  { rewrite <- (map_id pre) at 2. apply map_ext_in. intros x Hx. unfold F, is_seg.
    destruct (N.eqb_spec (f_id x) id) as [E|_]; [|reflexivity]. exfalso.
    assert (Hnd' : NoDup (map f_id (pre ++ [f]))).
    { apply (Permutation_NoDup (l := map f_id (d_segs d))); [|exact Hnd].
      apply Permutation_map. symmetry. exact Hp. }
    rewrite map_app in Hnd'. cbn [map] in Hnd'. apply NoDup_remove_2 in Hnd'. apply Hnd'.
    rewrite app_nil_r, Eid, <- E. apply in_map. exact Hx. }
  rewrite map_app, Hpre. cbn [map].
  assert (HFf : F f = append_seg off r f).
  { unfold F, is_seg. rewrite Eid, Eseq, !N.eqb_refl. reflexivity. }
  rewrite HFf, !concat_map_snoc, dseg_entries_append, Eid, app_assoc. reflexivity.
Qed.

Lemma concat_insert_empty f l :
  dseg_entries f = [] ->
  concat (map dseg_entries (insert_dseg_seq f l)) = concat (map dseg_entries l).
Proof.
  intros Hf. induction l as [|x l IH].
  - cbn [insert_dseg_seq map concat]. rewrite Hf. reflexivity.
  - cbn [insert_dseg_seq]. destruct (f_seq f <? f_seq x).
    + cbn [map concat]. rewrite Hf. reflexivity.
    + cbn [map concat]. rewrite IH. reflexivity.
Qed.

(* a new file without records does not change the log, wherever it is sorted *)
Lemma olog_of_snoc_empty l f : f_recs f = [] -> olog_of (l ++ [f]) = olog_of l.
Proof.
  intros Hf. unfold olog_of. rewrite dby_seq_snoc. apply concat_insert_empty.
  unfold dseg_entries, seg_entries. rewrite Hf. reflexivity.
Qed.

Theorem olog_create_seg (d : disk) id seq : olog (apply_ev flat_ops d (ECreate (FSeg id seq))) = olog d.
Proof. rewrite !olog_eq, d_segs_create_seg. apply olog_of_snoc_empty. reflexivity. Qed.

Theorem olog_header (d : disk) f : olog (apply_ev flat_ops d (EHeader f)) = olog d.
Proof.
  destruct f; try reflexivity.
  cbn [apply_ev]. rewrite !olog_eq, d_segs_upd_seg. apply olog_of_map.
  - intros x. destruct (is_seg id seq x); reflexivity.
  - intros x. destruct (is_seg id seq x); reflexivity.
Qed.

(* the two events that create a segment *)
Corollary olog_create_header (d : disk) id seq :
  olog (apply_ev flat_ops (apply_ev flat_ops d (ECreate (FSeg id seq))) (EHeader (FSeg id seq))) = olog d.
Proof. rewrite olog_header, olog_create_seg. reflexivity. Qed.

Theorem olog_remove_seg (d : disk) id seq :
  NoDup (map f_seq (d_segs d)) ->
  olog (apply_ev flat_ops d (ERemove (FSeg id seq))) =
  concat (map dseg_entries (filter (fun s => negb (is_seg id seq s)) (dby_seq (d_segs d)))).
Proof.
  intros Hnd. rewrite olog_eq, d_segs_remove_seg. unfold olog_of. rewrite dby_seq_filter by exact Hnd.
  reflexivity.
Qed.

Lemma filter_all {A} (q : A -> bool) l : (forall y, In y l -> q y = true) -> filter q l = l.
Proof.
  induction l as [|x l IH]; intros H; [reflexivity|]. cbn [filter].
  rewrite (H x (or_introl eq_refl)), IH; [reflexivity|]. intros y Hy. apply H. right. exact Hy.
Qed.
Lemma filter_none {A} (q : A -> bool) l : (forall y, In y l -> q y = false) -> filter q l = [].
Proof.
  induction l as [|x l IH]; intros H; [reflexivity|]. cbn [filter].
  rewrite (H x (or_introl eq_refl)), IH; [reflexivity|]. intros y Hy. apply H. right. exact Hy.
Qed.

Lemma concat_map_filter {A B} (g : A -> list B) p q (l : list A) :
  (forall x, In x l -> forall y, In y (g x) -> q y = p x) ->
  concat (map g (filter p l)) = filter q (concat (map g l)).
Proof.
  induction l as [|x l IH]; intros H; [reflexivity|].
  cbn [filter map concat]. rewrite filter_app, <- IH by (intros y Hy; apply H; right; exact Hy).
  assert (Hx : forall y, In y (g x) -> q y = p x) by (apply H; left; reflexivity).
  destruct (p x).
  - cbn [map concat]. rewrite (filter_all q (g x) Hx). reflexivity.
  - rewrite (filter_none q (g x) Hx). reflexivity.
Qed.

Corollary olog_remove_seg_ids (d : disk) id seq :
  NoDup (map f_seq (d_segs d)) ->
  (forall x, In x (d_segs d) -> f_id x = id -> f_seq x = seq) ->
  olog (apply_ev flat_ops d (ERemove (FSeg id seq))) =
  filter (fun e => negb (fst (fst e) =? id)) (olog d).
Proof.
  intros Hnd Hseq. rewrite olog_remove_seg by exact Hnd. unfold olog.
  apply concat_map_filter. intros x Hx e He.
  apply (proj1 (dby_seq_In _ _)) in Hx. apply (proj1 (dseg_entries_In _ _)) in He.
  destruct He as [-> _]. unfold is_seg. destruct (N.eqb_spec (f_id x) id) as [E|_]; [|reflexivity].
  rewrite (Hseq x Hx E), N.eqb_refl. reflexivity.
Qed.

(* ================================================================================================ *)
(* 4. The specification maps; abs and ptr_of as folds                                                *)
Lemma key_eqb_sym a b : key_eqb a b = key_eqb b a.
Proof.
  destruct (key_eqb b a) eqn:E.
  - apply key_eqb_eq in E. subst. apply key_eqb_refl.
  - apply key_eqb_neq in E. apply key_eqb_neq. congruence.
Qed.

Lemma sget_sdel m k k' : sget (sdel m k) k' = if key_eqb k' k then None else sget m k'.
Proof.
  induction m as [|[a v] m IH]; cbn [sdel sget].
  - destruct (key_eqb k' k); reflexivity.
  - destruct (key_eqb k a) eqn:Eka.
    + apply key_eqb_eq in Eka. subst a. rewrite IH. destruct (key_eqb k' k); reflexivity.
    + cbn [sget]. rewrite IH. destruct (key_eqb k' a) eqn:Ek'a; [|reflexivity].
      apply key_eqb_eq in Ek'a. subst a. rewrite key_eqb_sym, Eka. reflexivity.
Qed.

Lemma sget_sput m k v k' : sget (sput m k v) k' = if key_eqb k' k then Some v else sget m k'.
Proof.
  unfold sput. cbn [sget]. destruct (key_eqb k' k) eqn:E; [reflexivity|].
  rewrite sget_sdel, E. reflexivity.
Qed.

Lemma sdel_In m k x v : In (x, v) (sdel m k) <-> In (x, v) m /\ x <> k.
Proof.
  induction m as [|[a w] m IH]; cbn [sdel].
  - split; [intros []|intros [[] _]].
  - destruct (key_eqb k a) eqn:E.
    + apply key_eqb_eq in E. subst a. rewrite IH. split.
      * intros [H1 H2]. split; [right; exact H1|exact H2].
      * intros [[H1|H1] H2]; [inversion H1; congruence|split; assumption].
    + apply key_eqb_neq in E. cbn [In]. rewrite IH. split.
      * intros [H|[H1 H2]]; [inversion H; subst; split; [left; reflexivity|congruence]|split; [right; exact H1|exact H2]].
      * intros [[H1|H1] H2]; [left; exact H1|right; split; assumption].
Qed.

Lemma sdel_keys m k x : In x (map fst (sdel m k)) <-> In x (map fst m) /\ x <> k.
Proof.
  rewrite !in_map_iff. split.
  - intros ([a v] & <- & H). apply sdel_In in H. cbn [fst]. split; [|apply H].
    exists (a, v). split; [reflexivity|apply H].
  - intros (([a v] & <- & H) & Hne). cbn [fst] in Hne. exists (a, v). split; [reflexivity|].
    apply sdel_In. split; assumption.
Qed.

Lemma NoDup_sdel m k : NoDup (map fst m) -> NoDup (map fst (sdel m k)).
Proof.
  induction m as [|[a v] m IH]; intros Hnd; [constructor|].
  cbn [map fst] in Hnd. inversion Hnd as [|? ? Ha Hnd']; subst. cbn [sdel].
  destruct (key_eqb k a); [apply IH; exact Hnd'|].
  cbn [map fst]. constructor; [|apply IH; exact Hnd'].
  intros H. apply sdel_keys in H. apply Ha. apply H.
Qed.

Lemma NoDup_sput m k v : NoDup (map fst m) -> NoDup (map fst (sput m k v)).
Proof.
  intros Hnd. unfold sput. cbn [map fst]. constructor; [|apply NoDup_sdel; exact Hnd].
  intros H. apply sdel_keys in H. destruct H as [_ H]. congruence.
Qed.

Lemma sget_None m k : sget m k = None <-> ~ In k (map fst m).
Proof.
  induction m as [|[a v] m IH]; cbn [sget map fst In].
  - split; [intros _ []|reflexivity].
  - destruct (key_eqb k a) eqn:E.
    + apply key_eqb_eq in E. subst a. split; [discriminate|]. intros H. exfalso. apply H. left. reflexivity.
    + apply key_eqb_neq in E. rewrite IH. split; intros H.
      * intros [H1|H1]; [congruence|exact (H H1)].
      * intros H1. apply H. right. exact H1.
Qed.

Lemma sget_In m k v : NoDup (map fst m) -> (sget m k = Some v <-> In (k, v) m).
Proof.
  induction m as [|[a w] m IH]; intros Hnd; cbn [sget In].
  - split; [discriminate|intros []].
  - cbn [map fst] in Hnd. inversion Hnd as [|? ? Ha Hnd']; subst.
    destruct (key_eqb k a) eqn:E.
    + apply key_eqb_eq in E. subst a. split.
      * intros H. inversion H; subst. left. reflexivity.
      * intros [H|H]; [inversion H; reflexivity|]. exfalso. apply Ha.
        apply (in_map fst) in H. exact H.
    + apply key_eqb_neq in E. rewrite (IH Hnd'). split.
      * intros H. right. exact H.
      * intros [H|H]; [inversion H; congruence|exact H].
Qed.

Lemma shas_sget m k : shas m k = match sget m k with Some _ => true | None => false end.
Proof. reflexivity. Qed.

(* ---- the folds over an arbitrary list of entries ---- *)
Definition absl (l : list entry) : smap := fold_left apply_rec l [].
Definition ptrl (l : list entry) : key -> option (N * N) := fold_left upd_ptr l (fun _ => None).

Lemma abs_eq d : abs d = absl (olog d). Proof. reflexivity. Qed.
Lemma ptr_of_eq d : ptr_of d = ptrl (olog d). Proof. reflexivity. Qed.

Lemma absl_snoc l e : absl (l ++ [e]) = apply_rec (absl l) e.
Proof. unfold absl. rewrite fold_left_app. reflexivity. Qed.
Lemma ptrl_snoc l e : ptrl (l ++ [e]) = upd_ptr (ptrl l) e.
Proof. unfold ptrl. rewrite fold_left_app. reflexivity. Qed.

Theorem abs_snoc d d' e : olog d' = olog d ++ [e] -> abs d' = apply_rec (abs d) e.
Proof. intros H. rewrite !abs_eq, H. apply absl_snoc. Qed.
Theorem ptr_of_snoc d d' e : olog d' = olog d ++ [e] -> ptr_of d' = upd_ptr (ptr_of d) e.
Proof. intros H. rewrite !ptr_of_eq, H. apply ptrl_snoc. Qed.

Lemma sget_apply_rec m e k :
  sget (apply_rec m e) k =
  if key_eqb k (rk (snd e)) then (if rdel (snd e) then None else Some (rv (snd e))) else sget m k.
Proof.
  unfold apply_rec. destruct (rdel (snd e)); [apply sget_sdel|apply sget_sput].
Qed.

Lemma NoDup_apply_rec m e : NoDup (map fst m) -> NoDup (map fst (apply_rec m e)).
Proof. intros H. unfold apply_rec. destruct (rdel (snd e)); [apply NoDup_sdel|apply NoDup_sput]; exact H. Qed.

Lemma absl_NoDup l : NoDup (map fst (absl l)).
Proof.
  induction l as [|e l IH] using rev_ind; [constructor|].
  rewrite absl_snoc. apply NoDup_apply_rec. exact IH.
Qed.

Theorem abs_NoDup d : NoDup (map fst (abs d)).
Proof. apply absl_NoDup. Qed.

Lemma ptrl_absl l k :
  (forall id off, ptrl l k = Some (id, off) ->
     exists r, In (id, off, r) l /\ rk r = k /\ rdel r = false /\ sget (absl l) k = Some (rv r)) /\
  (ptrl l k = None -> sget (absl l) k = None).
Proof.
  induction l as [|e l [IH1 IH2]] using rev_ind.
  - split; [discriminate|reflexivity].
  - rewrite ptrl_snoc, absl_snoc, sget_apply_rec. unfold upd_ptr.
    destruct e as [[i o] r]; cbn [fst snd].
    destruct (key_eqb k (rk r)) eqn:Ek.
    + apply key_eqb_eq in Ek. destruct (rdel r) eqn:Ed.
      * split; [discriminate|reflexivity].
      * split; [|discriminate]. intros id off H. inversion H; subst id off. exists r.
        repeat split; try assumption; [apply in_or_app; right; left; reflexivity|congruence].
    + split; [|exact IH2]. intros id off H. destruct (IH1 id off H) as (r' & HIn & Hr').
      exists r'. split; [apply in_or_app; left; exact HIn|exact Hr'].
Qed.

(* the index target of a key and the contents agree *)
Theorem ptr_of_Some d k id off :
  ptr_of d k = Some (id, off) ->
  exists r, In (id, off, r) (olog d) /\ rk r = k /\ rdel r = false /\ sget (abs d) k = Some (rv r).
Proof. apply (proj1 (ptrl_absl (olog d) k)). Qed.

Theorem ptr_of_None d k : ptr_of d k = None -> sget (abs d) k = None.
Proof. apply (proj2 (ptrl_absl (olog d) k)). Qed.

Corollary ptr_of_None_iff d k : ptr_of d k = None <-> sget (abs d) k = None.
Proof.
  split; [apply ptr_of_None|]. intros H. destruct (ptr_of d k) as [[id off]|] eqn:E; [|reflexivity].
  apply ptr_of_Some in E. destruct E as (r & _ & _ & _ & E). congruence.
Qed.

Lemma upd_ptr_eq p e k :
  upd_ptr p e k = if key_eqb k (rk (snd e))
                  then (if rdel (snd e) then None else Some (fst (fst e), snd (fst e))) else p k.
Proof. reflexivity. Qed.

(* ================================================================================================ *)
(* 5. In-memory segment list                                                                          *)
Lemma NoDup_map_inj {A B} (h : A -> B) l a b : NoDup (map h l) -> In a l -> In b l -> h a = h b -> a = b.
Proof.
  induction l as [|x l IH]; intros Hnd Ha Hb E; [destruct Ha|].
  cbn [map] in Hnd. inversion Hnd as [|? ? Hx Hnd']; subst.
  destruct Ha as [->|Ha], Hb as [->|Hb].
  - reflexivity.
  - exfalso. apply Hx. rewrite E. apply in_map. exact Hb.
  - exfalso. apply Hx. rewrite <- E. apply in_map. exact Ha.
  - apply IH; assumption.
Qed.

Lemma ids_increasing_NoDup l : ids_increasing l -> NoDup (map g_id l).
Proof.
  induction l as [|g l IH]; intros H; [constructor|].
  destruct H as [Hg Hl]. cbn [map]. constructor; [|apply IH; exact Hl].
  intros HIn. apply in_map_iff in HIn. destruct HIn as (g' & E & Hg'). pose proof (Hg g' Hg'). lia.
Qed.

Lemma ids_increasing_unique l a b : ids_increasing l -> In a l -> In b l -> g_id a = g_id b -> a = b.
Proof. intros H. apply NoDup_map_inj. apply ids_increasing_NoDup. exact H. Qed.

Lemma find_mseg_In id l g : find_mseg id l = Some g -> In g l /\ g_id g = id.
Proof.
  unfold find_mseg. intros H. apply find_some in H. destruct H as [HIn E].
  apply N.eqb_eq in E. split; assumption.
Qed.

Lemma find_mseg_None id l : find_mseg id l = None -> forall g, In g l -> g_id g <> id.
Proof.
  unfold find_mseg. intros H g Hg E. pose proof (find_none _ _ H g Hg) as Hn. cbn beta in Hn.
  apply N.eqb_neq in Hn. congruence.
Qed.

Lemma find_mseg_unique l g : ids_increasing l -> In g l -> find_mseg (g_id g) l = Some g.
Proof.
  intros Hinc HIn. destruct (find_mseg (g_id g) l) as [g'|] eqn:E.
  - apply find_mseg_In in E. destruct E as [HIn' E]. f_equal. eapply ids_increasing_unique; eassumption.
  - exfalso. exact (find_mseg_None _ _ E g HIn eq_refl).
Qed.

Lemma In_upd_mseg id F l g' :
  In g' (upd_mseg id F l) <-> exists g, In g l /\ g' = if g_id g =? id then F g else g.
Proof.
  unfold upd_mseg. rewrite in_map_iff. split; intros (g & A & B); exists g; split; auto.
Qed.

Lemma ids_increasing_map (F : mseg -> mseg) l :
  (forall g, g_id (F g) = g_id g) -> ids_increasing l -> ids_increasing (map F l).
Proof.
  intros HF. induction l as [|g l IH]; intros H; [exact Logic.I|].
  destruct H as [Hg Hl]. cbn [map ids_increasing]. split; [|apply IH; exact Hl].
  intros g' Hg'. apply in_map_iff in Hg'. destruct Hg' as (g0 & <- & Hg0). rewrite !HF. apply Hg. exact Hg0.
Qed.

Lemma insert_mseg_In g l x : In x (insert_mseg g l) <-> x = g \/ In x l.
Proof.
  induction l as [|y l IH]; cbn [insert_mseg].
  - cbn [In]. intuition congruence.
  - destruct (g_id g <? g_id y); cbn [In]; [intuition congruence|]. rewrite IH. intuition congruence.
Qed.

Lemma insert_mseg_increasing g l :
  ids_increasing l -> (forall x, In x l -> g_id x <> g_id g) -> ids_increasing (insert_mseg g l).
Proof.
  induction l as [|y l IH]; intros Hinc Hfresh; cbn [insert_mseg].
  - cbn [ids_increasing]. split; [intros ? []|exact Logic.I].
  - destruct Hinc as [Hy Hl]. destruct (N.ltb_spec (g_id g) (g_id y)) as [Hlt|Hge].
    + cbn [ids_increasing]. split; [|split; assumption].
      intros x [<-|Hx]; [exact Hlt|]. pose proof (Hy x Hx). lia.
    + cbn [ids_increasing]. split.
      * intros x Hx. apply insert_mseg_In in Hx. destruct Hx as [->|Hx]; [|apply Hy; exact Hx].
        pose proof (Hfresh y (or_introl eq_refl)). lia.
      * apply IH; [exact Hl|]. intros x Hx. apply Hfresh. right. exact Hx.
Qed.

Lemma lowest_free_spec l : forall n,
  ids_increasing l -> (forall g, In g l -> n <= g_id g) ->
  n <= lowest_free n l /\ forall g, In g l -> g_id g <> lowest_free n l.
Proof.
  induction l as [|x l IH]; intros n Hinc Hge; cbn [lowest_free].
  - split; [lia|intros ? []].
  - destruct Hinc as [Hx Hl]. destruct (N.eqb_spec (g_id x) n) as [E|Hne].
    + destruct (IH (n + 1) Hl) as [H1 H2].
      { intros g Hg. pose proof (Hx g Hg). lia. }
      split; [lia|]. intros g [<-|Hg]; [lia|apply H2; exact Hg].
    + split; [lia|]. pose proof (Hge x (or_introl eq_refl)).
      intros g [<-|Hg]; [exact Hne|]. pose proof (Hx g Hg). lia.
Qed.

Lemma lowest_free_fresh l g : ids_increasing l -> In g l -> g_id g <> lowest_free 0 l.
Proof. intros Hinc. apply (lowest_free_spec l 0 Hinc). intros ? _. lia. Qed.

Lemma cur_seg_Some (m : mem) g :
  cur_seg m = Some g ->
  m_cur_removed m = false /\ In g (m_segs m) /\ g_id g = fst (m_cur m) /\ g_seq g = snd (m_cur m).
Proof.
  unfold cur_seg. destruct (m_cur_removed m); [discriminate|].
  destruct (find_mseg (fst (m_cur m)) (m_segs m)) as [g'|] eqn:E; [|discriminate].
  destruct (N.eqb_spec (g_seq g') (snd (m_cur m))) as [Es|_]; [|discriminate].
  intros H. inversion H; subst g'. apply find_mseg_In in E. destruct E as [HIn E].
  repeat split; assumption.
Qed.

Lemma cur_seg_intro (m : mem) g :
  ids_increasing (m_segs m) -> m_cur_removed m = false -> In g (m_segs m) ->
  m_cur m = (g_id g, g_seq g) -> cur_seg m = Some g.
Proof.
  intros Hinc Hr HIn Hc. unfold cur_seg. rewrite Hr, Hc. cbn [fst snd].
  rewrite (find_mseg_unique _ _ Hinc HIn), N.eqb_refl. reflexivity.
Qed.

(* ---- the part of the invariant that the log writer maintains ---- *)
Definition InvLog (m : mem) (d : disk) : Prop :=
  DiskOK d /\ mem_disk_agree m d /\ ids_increasing (m_segs m) /\ seq_order m /\ cur_ok m.

Lemma Inv_InvLog P (s : st) m : s_mem s = Some m -> Inv P s -> InvLog m (s_disk s).
Proof. unfold Inv. intros ->. unfold InvLog. tauto. Qed.

Lemma InvLog_same_log (m : mem) d d' : same_log d d' -> InvLog m d -> InvLog m d'.
Proof.
  intros H (H1 & H2 & H3). split; [eapply same_log_DiskOK; eassumption|].
  split; [eapply same_log_mem_disk_agree; eassumption|exact H3].
Qed.

(* changes of the per-segment counters: ids, sequence ids and sizes stay, "full" only gets set *)
Definition mseg_sim (g g' : mseg) : Prop :=
  g_id g' = g_id g /\ g_seq g' = g_seq g /\ g_size g' = g_size g /\
  (sm_full (g_meta g) = true -> sm_full (g_meta g') = true).

Definition mem_sim (m m' : mem) : Prop :=
  (exists F, (forall g, mseg_sim g (F g)) /\ m_segs m' = map F (m_segs m)) /\
  m_cur m' = m_cur m /\ m_cur_removed m' = m_cur_removed m /\ m_maxseq m' = m_maxseq m.

Lemma mseg_sim_refl g : mseg_sim g g. Proof. repeat split; auto. Qed.

Lemma mem_sim_refl (m : mem) : mem_sim m m.
Proof.
  split; [|auto]. exists (fun g => g). split; [apply mseg_sim_refl|]. rewrite map_id. reflexivity.
Qed.

Lemma mem_sim_trans (a b c : mem) : mem_sim a b -> mem_sim b c -> mem_sim a c.
Proof.
  intros ((F & HF & EF) & A1 & A2 & A3) ((G & HG & EG) & B1 & B2 & B3).
  split; [|repeat split; congruence].
  exists (fun g => G (F g)). split.
  - intros g. destruct (HF g) as (F1 & F2 & F3 & F4). destruct (HG (F g)) as (G1 & G2 & G3 & G4).
    repeat split; try congruence. auto.
  - rewrite EG, EF, map_map. reflexivity.
Qed.

Lemma mem_sim_upd_mseg (m : mem) id F :
  (forall g, mseg_sim g (F g)) -> mem_sim m (set_msegs m (upd_mseg id F (m_segs m))).
Proof.
  intros HF. split; [|auto]. exists (fun g => if g_id g =? id then F g else g). split; [|reflexivity].
  intros g. destruct (g_id g =? id); [apply HF|apply mseg_sim_refl].
Qed.

Lemma mem_sim_set_idx (m : mem) i : mem_sim m (set_idx m i).
Proof. split; [|auto]. exists (fun g => g). split; [apply mseg_sim_refl|]. cbn [set_idx m_segs]. rewrite map_id. reflexivity. Qed.

Lemma mem_sim_InvLog (m m' : mem) d : mem_sim m m' -> InvLog m d -> InvLog m' d.
Proof.
  intros ((F & HF & EF) & Ec & Er & Em) (Hd & [Ha1 Ha2] & Hinc & [Hs1 Hs2] & Hcur).
  assert (Hin : forall g', In g' (m_segs m') <-> exists g, In g (m_segs m) /\ g' = F g).
  { intros g'. rewrite EF, in_map_iff. split; intros (g & A & B); exists g; split; auto. }
  split; [exact Hd|]. split; [|split; [|split]].
  - split.
    + intros g' Hg'. apply Hin in Hg'. destruct Hg' as (g & Hg & ->).
      destruct (HF g) as (F1 & F2 & F3 & _). rewrite F1, F2, F3. apply Ha1. exact Hg.
    + intros f Hf. destruct (Ha2 f Hf) as (g & Hg & A1 & A2). exists (F g).
      destruct (HF g) as (F1 & F2 & _). split; [apply Hin; exists g; auto|]. split; congruence.
  - rewrite EF. apply ids_increasing_map; [|exact Hinc]. intros g. apply (HF g).
  - split.
    + intros g' Hg'. apply Hin in Hg'. destruct Hg' as (g & Hg & ->).
      destruct (HF g) as (_ & F2 & _). rewrite F2, Em. apply Hs1. exact Hg.
    + intros g1' g2' H1 H2 Hnf. apply Hin in H1. apply Hin in H2.
      destruct H1 as (g1 & Hg1 & ->). destruct H2 as (g2 & Hg2 & ->).
      destruct (HF g1) as (_ & A2 & _ & A4). destruct (HF g2) as (_ & B2 & _). rewrite A2, B2.
      apply Hs2; try assumption. destruct (sm_full (g_meta g1)); [|reflexivity].
      rewrite A4 in Hnf by reflexivity. discriminate.
  - unfold cur_ok. rewrite Er, Ec. intros Hr. destruct (Hcur Hr) as (g & Hg & A1 & A2).
    exists (F g). destruct (HF g) as (F1 & F2 & _). split; [apply Hin; exists g; auto|]. split; congruence.
Qed.

Lemma mem_sim_room (m m' : mem) : mem_sim m m' -> room m -> room m'.
Proof.
  intros ((F & HF & EF) & _) Hr g' Hg'. rewrite EF in Hg'. apply in_map_iff in Hg'.
  destruct Hg' as (g & <- & Hg). destruct (HF g) as (_ & _ & F3 & _). rewrite F3. apply Hr. exact Hg.
Qed.

Lemma mem_sim_track_del sl (m : mem) : mem_sim m (track_del sl m).
Proof. unfold track_del. apply mem_sim_upd_mseg. intros g. repeat split; auto. Qed.

Lemma mem_sim_add_delbytes id n (m : mem) : mem_sim m (add_delbytes id n m).
Proof. unfold add_delbytes. apply mem_sim_upd_mseg. intros g. repeat split; auto. Qed.

Theorem track_del_InvLog sl (m : mem) d : InvLog m d -> InvLog (track_del sl m) d.
Proof. apply mem_sim_InvLog, mem_sim_track_del. Qed.
Theorem track_del_room sl (m : mem) : room m -> room (track_del sl m).
Proof. apply mem_sim_room, mem_sim_track_del. Qed.
Theorem add_delbytes_InvLog id n (m : mem) d : InvLog m d -> InvLog (add_delbytes id n m) d.
Proof. apply mem_sim_InvLog, mem_sim_add_delbytes. Qed.
Theorem add_delbytes_room id n (m : mem) : room m -> room (add_delbytes id n m).
Proof. apply mem_sim_room, mem_sim_add_delbytes. Qed.
Lemma set_idx_InvLog i (m : mem) d : InvLog m d -> InvLog (set_idx m i) d.
Proof. apply mem_sim_InvLog, mem_sim_set_idx. Qed.

Lemma track_del_idx sl (m : mem) : m_idx (track_del sl m) = m_idx m /\ m_seed (track_del sl m) = m_seed m.
Proof. split; reflexivity. Qed.
Lemma add_delbytes_idx id n (m : mem) : m_idx (add_delbytes id n m) = m_idx m /\ m_seed (add_delbytes id n m) = m_seed m.
Proof. split; reflexivity. Qed.

(* ================================================================================================ *)
(* 6. datalog.writeRecord                                                                             *)
Lemma flen_append off r f : f_hdr f = true -> flen (append_seg off r f) = flen f + rsize r.
Proof.
  intros Hh. unfold flen, append_seg; cbn [f_hdr f_recs f_tail]. rewrite Hh, recs_len_snoc. lia.
Qed.

Lemma tail_stuck_nil : tail_stuck [].
Proof. unfold tail_stuck. rewrite empty_tail. split; reflexivity. Qed.

Lemma dseg_ok_append off r f :
  dseg_ok f -> rec_fits r -> f_hdr f = true ->
  header_size + recs_len (f_recs f) + rsize r < 4294967296 -> dseg_ok (append_seg off r f).
Proof.
  intros (H1 & H2 & H3 & H4 & H5) Hr Hh Hlt. unfold dseg_ok, append_seg; cbn [f_hdr f_recs f_tail].
  split; [|split; [exact H2|split; [exact H3|split]]].
  - apply Forall_app. split; [exact H1|]. constructor; [exact Hr|constructor].
  - intros E. congruence.
  - rewrite recs_len_snoc. lia.
Qed.

Lemma count_rec_full r sm : sm_full (count_rec r sm) = sm_full sm.
Proof. unfold count_rec. destruct (rdel r); reflexivity. Qed.

(* the append itself, on the current segment, which is not full *)
Lemma append_step (m : mem) (d : disk) r g :
  InvLog m d -> room m -> rec_fits r -> cur_seg m = Some g -> sm_full (g_meta g) = false ->
  exists f,
    find_dseg (g_id g) d = Some f /\ f_seq f = g_seq g /\ flen f = g_size g /\
    g_size g < 4294967296 /\
    let d' := apply_ev flat_ops d (EAppend (g_id g) (g_seq g) (g_size g) r) in
    let m' := set_msegs m (upd_mseg (g_id g)
                (fun x => set_gmeta (set_gsize x (g_size g + rsize r)) (count_rec r (g_meta x))) (m_segs m)) in
    InvLog m' d' /\ olog d' = olog d ++ [(g_id g, g_size g, r)] /\
    rec_of d' (g_id g) (g_size g) = Some r.
Proof.
  intros (Hd & [Ha1 Ha2] & Hinc & [Hs1 Hs2] & Hcur) Hroom Hr Hc Hnf.
  destruct (cur_seg_Some _ _ Hc) as (Hrm & Hg & Hcid & Hcseq).
  destruct (Ha1 g Hg) as (f & Hf & Efid & Efseq & Efh & Eft & Efl).
  destruct Hd as (Hok & Hnid & Hnseq).
  assert (Hfind : find_dseg (g_id g) d = Some f) by (rewrite <- Efid; apply find_dseg_unique; assumption).
  assert (Esz : g_size g = header_size + recs_len (f_recs f)) by (rewrite <- Efl; apply flen_clean; assumption).
  pose proof (Hroom g Hg) as Hrg. pose proof (rsize_le_max r Hr) as Hrs. consts.
  assert (Hmax : forall x, In x (d_segs d) -> x <> f -> f_seq x < f_seq f).
  { intros x Hx Hne. destruct (Ha2 x Hx) as (gx & Hgx & _ & E2).
    pose proof (Hs2 g gx Hg Hgx Hnf) as Hle.
    assert (f_seq x <> f_seq f); [|lia].
    intros E. apply Hne. exact (NoDup_map_inj f_seq _ x f Hnseq Hx Hf E). }
  exists f. split; [exact Hfind|]. split; [exact Efseq|]. split; [exact Efl|]. split; [lia|].
  cbn zeta.
  set (id := g_id g) in *. set (seq := g_seq g) in *. set (off := g_size g) in *.
  set (F := fun s : dseg => if is_seg id seq s then append_seg off r s else s).
  set (Fm := fun x : mseg => set_gmeta (set_gsize x (off + rsize r)) (count_rec r (g_meta x))).
  assert (HFid : forall x, f_id (F x) = f_id x) by (intros x; unfold F; destruct (is_seg id seq x); reflexivity).
  assert (HFseq : forall x, f_seq (F x) = f_seq x) by (intros x; unfold F; destruct (is_seg id seq x); reflexivity).
  assert (HFf : F f = append_seg off r f).
  { unfold F, is_seg. rewrite Efid, Efseq, !N.eqb_refl. reflexivity. }
  assert (HFo : forall x, In x (d_segs d) -> f_id x <> id -> F x = x).
  { intros x _ Hne. unfold F, is_seg. destruct (N.eqb_spec (f_id x) id); [congruence|reflexivity]. }
  assert (HFx : forall x, In x (d_segs d) -> F x = x \/ (x = f /\ F x = append_seg off r f)).
  { intros x Hx. destruct (N.eq_dec (f_id x) id) as [E|Hne]; [|left; apply HFo; assumption].
    right. assert (x = f) by (apply (NoDup_map_inj f_id _ x f Hnid Hx Hf); congruence).
    subst x. split; [reflexivity|exact HFf]. }
  assert (Hsegs : d_segs (apply_ev flat_ops d (EAppend id seq off r)) = map F (d_segs d)) by reflexivity.
  split; [|split].
  - (* InvLog *)
    split; [|split; [|split; [|split]]].
    + (* DiskOK *)
      unfold DiskOK. rewrite Hsegs. split; [|split].
      * apply Forall_forall. intros x' Hx'. apply in_map_iff in Hx'. destruct Hx' as (x & <- & Hx).
        fa Hok x Hx. destruct (HFx x Hx) as [->|[-> ->]]; [exact Hfa|].
        apply dseg_ok_append; try assumption. lia.
      * rewrite map_map. rewrite (map_ext _ f_id HFid). exact Hnid.
      * rewrite map_map. rewrite (map_ext _ f_seq HFseq). exact Hnseq.
    + (* mem_disk_agree *)
      split.
      * intros g' Hg'. cbn [m_segs set_msegs] in Hg'. apply In_upd_mseg in Hg'.
        destruct Hg' as (g0 & Hg0 & ->). destruct (N.eqb_spec (g_id g0) id) as [E|Hne].
        -- assert (g0 = g) by (apply (ids_increasing_unique _ g0 g Hinc Hg0 Hg); exact E). subst g0.
           exists (append_seg off r f). rewrite Hsegs. split; [rewrite <- HFf; apply in_map; exact Hf|].
           unfold Fm; cbn [g_id g_seq g_size set_gmeta set_gsize append_seg f_id f_seq f_hdr f_tail].
           repeat split; try assumption.
           change (flen (append_seg off r f) = off + rsize r). rewrite flen_append by exact Efh. lia.
        -- destruct (Ha1 g0 Hg0) as (f0 & Hf0 & A1 & A2 & A3 & A4 & A5). exists f0. rewrite Hsegs.
           split; [|repeat split; assumption]. rewrite <- (HFo f0 Hf0) by congruence. apply in_map. exact Hf0.
      * intros x' Hx'. rewrite Hsegs in Hx'. apply in_map_iff in Hx'. destruct Hx' as (x & <- & Hx).
        destruct (Ha2 x Hx) as (g0 & Hg0 & A1 & A2). rewrite HFid, HFseq.
        exists (if g_id g0 =? id then Fm g0 else g0). split.
        -- cbn [m_segs set_msegs]. apply In_upd_mseg. exists g0. split; [exact Hg0|reflexivity].
        -- destruct (g_id g0 =? id); split; assumption.
    + (* ids_increasing *)
      cbn [m_segs set_msegs]. unfold upd_mseg. apply ids_increasing_map; [|exact Hinc].
      intros x. destruct (g_id x =? id); reflexivity.
    + (* seq_order *)
      split.
      * intros g' Hg'. cbn [m_segs set_msegs] in Hg'. apply In_upd_mseg in Hg'.
        destruct Hg' as (g0 & Hg0 & ->). cbn [m_maxseq set_msegs].
        pose proof (Hs1 g0 Hg0). destruct (g_id g0 =? id); exact H4.
      * intros g1' g2' H1' H2' Hnf'. cbn [m_segs set_msegs] in H1', H2'.
        apply In_upd_mseg in H1'. apply In_upd_mseg in H2'.
        destruct H1' as (g1 & Hg1 & ->). destruct H2' as (g2 & Hg2 & ->).
        assert (Hnf1 : sm_full (g_meta g1) = false).
        { destruct (g_id g1 =? id); [|exact Hnf'].
          unfold Fm in Hnf'; cbn [g_meta set_gmeta] in Hnf'. rewrite count_rec_full in Hnf'. exact Hnf'. }
        pose proof (Hs2 g1 g2 Hg1 Hg2 Hnf1) as Hle.
        destruct (g_id g1 =? id), (g_id g2 =? id); exact Hle.
    + (* cur_ok *)
      intros Hrm'. destruct (Hcur Hrm') as (g0 & Hg0 & A1 & A2).
      exists (if g_id g0 =? id then Fm g0 else g0). split.
      * cbn [m_segs set_msegs]. apply In_upd_mseg. exists g0. split; [exact Hg0|reflexivity].
      * cbn [m_cur set_msegs]. destruct (g_id g0 =? id); split; assumption.
  - (* olog *)
    rewrite (olog_append d id seq off r f Hnid Hf Efid Efseq Hmax). rewrite <- Esz. reflexivity.
  - (* the new record can be read *)
    unfold rec_of. rewrite apply_ev_append.
    rewrite (find_dseg_upd_seg_same id seq (append_seg off r) d f) by (try reflexivity; assumption).
    unfold seg_entries, append_seg; cbn [f_recs]. rewrite Esz. apply rec_at_snoc_new.
Qed.

Lemma NoDup_snoc {A} (l : list A) x : NoDup l -> ~ In x l -> NoDup (l ++ [x]).
Proof.
  intros Hnd Hx. apply (Permutation_NoDup (l := x :: l)); [apply Permutation_cons_append|].
  constructor; assumption.
Qed.

Lemma s_disk_emits es (s : st) : s_disk (emits flat_ops es s) = fold_left (apply_ev flat_ops) es (s_disk s).
Proof. revert s. induction es as [|e es IH]; intros s; [reflexivity|]. cbn [emits fold_left]. apply (IH (emit flat_ops e s)). Qed.
Lemma s_mem_emits es (s : st) : s_mem (emits flat_ops es s) = s_mem s.
Proof. revert s. induction es as [|e es IH]; intros s; [reflexivity|]. cbn [emits fold_left]. apply (IH (emit flat_ops e s)). Qed.
Lemma s_trace_emits es (s : st) : s_trace (emits flat_ops es s) = s_trace s ++ es.
Proof.
  revert s. induction es as [|e es IH]; intros s; [symmetry; apply app_nil_r|].
  change (emits flat_ops (e :: es) s) with (emits flat_ops es (emit flat_ops e s)).
  rewrite (IH (emit flat_ops e s)), s_trace_emit, <- app_assoc. reflexivity.
Qed.

(* sealSegment *)
Lemma seal_spec (s : st) (m : mem) g :
  ids_increasing (m_segs m) -> In g (m_segs m) ->
  exists s0 m0 pre,
    seal flat_ops (g_id g) s m = (s0, m0) /\ mem_sim m m0 /\ m_idx m0 = m_idx m /\ m_seed m0 = m_seed m /\
    s_disk s0 = s_disk s /\ s_mem s0 = s_mem s /\ s_trace s0 = s_trace s ++ pre /\
    (pre = [] \/ pre = [ESync (FSeg (g_id g) (g_seq g))]).
Proof.
  intros Hinc Hg. unfold seal. rewrite (find_mseg_unique _ _ Hinc Hg).
  destruct (sm_full (g_meta g)) eqn:Ef.
  - exists s, m, []. rewrite app_nil_r. repeat split; auto. apply mem_sim_refl.
  - eexists _, _, [_]. split; [reflexivity|]. repeat split; auto.
    apply mem_sim_upd_mseg. intros x. repeat split; auto.
Qed.

(* swapSegment *)
Lemma swap_spec (s : st) (m : mem) :
  InvLog m (s_disk s) -> room m ->
  exists s1 m1 g pre,
    swap_segment flat_ops s m = (s1, m1) /\
    InvLog m1 (s_disk s1) /\ room m1 /\ cur_seg m1 = Some g /\ sm_full (g_meta g) = false /\
    olog (s_disk s1) = olog (s_disk s) /\ same_rest (s_disk s) (s_disk s1) /\
    s_mem s1 = s_mem s /\ m_idx m1 = m_idx m /\ m_seed m1 = m_seed m /\
    s_trace s1 = s_trace s ++ pre /\ s_disk s1 = fold_left (apply_ev flat_ops) pre (s_disk s) /\
    (pre = [] \/ pre = [ECreate (FSeg (g_id g) (g_seq g)); EHeader (FSeg (g_id g) (g_seq g))]).
Proof.
  intros HI Hroom. pose proof HI as (Hd & [Ha1 Ha2] & Hinc & [Hs1 Hs2] & Hcur).
  unfold swap_segment.
  destruct (find (fun g => negb (sm_full (g_meta g))) (m_segs m)) as [g|] eqn:Efind.
  - (* reuse a segment that still accepts writes *)
    apply find_some in Efind. destruct Efind as [Hg Hnf]. apply negb_true_iff in Hnf.
    exists s, (set_cur m (g_id g, g_seq g) false), g, []. rewrite app_nil_r.
    split; [reflexivity|]. split; [|split; [exact Hroom|split; [|repeat split; auto]]].
    + split; [exact Hd|]. split; [split; assumption|]. split; [exact Hinc|]. split; [split; assumption|].
      intros _. exists g. repeat split; auto.
    + apply cur_seg_intro; auto.
  - (* a new segment *)
    assert (Hfull : forall x, In x (m_segs m) -> sm_full (g_meta x) = true).
    { intros x Hx. pose proof (find_none _ _ Efind x Hx) as H. cbn beta in H.
      apply negb_false_iff in H. exact H. }
    set (id := lowest_free 0 (m_segs m)). set (seq := m_maxseq m + 1).
    set (g := {| g_id := id; g_seq := seq; g_size := header_size; g_meta := smeta0 |}).
    set (nf' := {| f_id := id; f_seq := seq; f_hdr := true; f_recs := []; f_tail := []; f_meta := @GAbsent smeta |}).
    set (d := s_disk s) in *.
    set (s1 := emits flat_ops [ECreate (FSeg id seq); EHeader (FSeg id seq)] s).
    set (m1 := set_cur (set_maxseq (set_msegs m (insert_mseg g (m_segs m))) seq) (id, seq) false).
    assert (Hd1 : s_disk s1 = apply_ev flat_ops (apply_ev flat_ops d (ECreate (FSeg id seq))) (EHeader (FSeg id seq)))
      by reflexivity.
    assert (Hfresh_id : forall x, In x (d_segs d) -> f_id x <> id).
    { intros x Hx. destruct (Ha2 x Hx) as (gx & Hgx & E & _). rewrite <- E.
      apply lowest_free_fresh; assumption. }
    assert (Hfresh_seq : forall x, In x (d_segs d) -> f_seq x < seq).
    { intros x Hx. destruct (Ha2 x Hx) as (gx & Hgx & _ & E). rewrite <- E.
      pose proof (Hs1 gx Hgx). unfold seq. lia. }
    assert (Hsegs : d_segs (s_disk s1) = d_segs d ++ [nf']).
    { change (d_segs (s_disk s1)) with
        (map (fun x : dseg => if is_seg id seq x
                then {| f_id := f_id x; f_seq := f_seq x; f_hdr := true; f_recs := f_recs x;
                        f_tail := f_tail x; f_meta := f_meta x |} else x)
             (d_segs d ++ [{| f_id := id; f_seq := seq; f_hdr := false; f_recs := []; f_tail := [];
                              f_meta := GAbsent |}])).
      rewrite map_app. cbn [map].
      unfold is_seg at 2; cbn [f_id f_seq]. rewrite !N.eqb_refl. cbn [andb].
      f_equal. rewrite <- (map_id (d_segs d)) at 2. apply map_ext_in. intros x Hx.
      unfold is_seg. destruct (N.eqb_spec (f_id x) id) as [E|_]; [|reflexivity].
      exfalso. exact (Hfresh_id x Hx E). }
    destruct Hd as (Hok & Hnid & Hnseq).
    assert (HIn1 : forall x, In x (m_segs m1) <-> x = g \/ In x (m_segs m)).
    { intros x. apply insert_mseg_In. }
    assert (Hgid : forall x, In x (m_segs m) -> g_id x <> id).
    { intros x Hx. apply lowest_free_fresh; assumption. }
    exists s1, m1, g, [ECreate (FSeg id seq); EHeader (FSeg id seq)].
    split; [reflexivity|]. consts.
    split; [|split; [|split; [|split; [reflexivity|split; [|split; [|split; [|split; [reflexivity|split; [reflexivity|split; [|split; [reflexivity|right; reflexivity]]]]]]]]]]].
    + (* InvLog *)
      split; [|split; [|split; [|split]]].
      * unfold DiskOK. rewrite Hsegs, !map_app. cbn [map f_id f_seq nf']. split; [|split].
        -- apply Forall_app. split; [exact Hok|]. constructor; [|constructor].
           unfold dseg_ok; cbn [f_recs f_tail f_hdr nf']. split; [constructor|].
           split; [exact tail_stuck_nil|]. split; [constructor|]. split; [discriminate|].
           rewrite recs_len_nil. lia.
        -- apply NoDup_snoc; [exact Hnid|]. intros HIn. apply in_map_iff in HIn.
           destruct HIn as (x & E & Hx). exact (Hfresh_id x Hx E).
        -- apply NoDup_snoc; [exact Hnseq|]. intros HIn. apply in_map_iff in HIn.
           destruct HIn as (x & E & Hx). pose proof (Hfresh_seq x Hx). lia.
      * split.
        -- intros x Hx. apply HIn1 in Hx. rewrite Hsegs. destruct Hx as [->|Hx].
           ++ exists nf'. split; [apply in_or_app; right; left; reflexivity|].
              repeat split.
           ++ destruct (Ha1 x Hx) as (f0 & Hf0 & A). exists f0. split; [apply in_or_app; left; exact Hf0|exact A].
        -- intros f0 Hf0. rewrite Hsegs in Hf0. apply in_app_or in Hf0. destruct Hf0 as [Hf0|[<-|[]]].
           ++ destruct (Ha2 f0 Hf0) as (g0 & Hg0 & A). exists g0. split; [apply HIn1; right; exact Hg0|exact A].
           ++ exists g. split; [apply HIn1; left; reflexivity|split; reflexivity].
      * apply insert_mseg_increasing; [exact Hinc|exact Hgid].
      * split.
        -- intros x Hx. apply HIn1 in Hx. cbn [m_maxseq m1 set_cur set_maxseq].
           destruct Hx as [->|Hx]; [cbn [g_seq g]; lia|]. pose proof (Hs1 x Hx). unfold seq. lia.
        -- intros x y Hx Hy Hnf. apply HIn1 in Hx. apply HIn1 in Hy.
           destruct Hx as [->|Hx]; [|rewrite (Hfull x Hx) in Hnf; discriminate].
           destruct Hy as [->|Hy]; [lia|]. pose proof (Hs1 y Hy). cbn [g_seq g]. unfold seq. lia.
      * intros _. exists g. split; [apply HIn1; left; reflexivity|split; reflexivity].
    + (* room *)
      intros x Hx. apply HIn1 in Hx. destruct Hx as [->|Hx]; [cbn [g_size g]; lia|apply Hroom; exact Hx].
    + (* cur_seg *)
      apply cur_seg_intro; try reflexivity.
      * apply insert_mseg_increasing; [exact Hinc|exact Hgid].
      * apply HIn1. left. reflexivity.
    + rewrite Hd1. apply olog_create_header.
    + rewrite Hd1. eapply same_rest_trans; [apply apply_ev_create_seg_rest|apply apply_ev_header_rest].
    + apply s_mem_emits.
    + apply s_trace_emits.
Qed.

(* the events that writeRecord issues before the append *)
Definition wr_pre_shape (pre : list fsev) (id seq : N) : Prop :=
  pre = [] \/ (exists i q, pre = [ESync (FSeg i q)]) \/
  pre = [ECreate (FSeg id seq); EHeader (FSeg id seq)] \/
  (exists i q, pre = [ESync (FSeg i q); ECreate (FSeg id seq); EHeader (FSeg id seq)]).

(* writeRecord = choose the segment (seal, swap) ; append *)
Definition wr_prelude (P : params) (r : rec) (s : st) (m : mem) : st * mem :=
  let need_swap := match cur_seg m with
                   | None => true
                   | Some g => sm_full (g_meta g) || (p_maxseg P <? g_size g + rsize r)
                   end in
  if need_swap
  then let '(s0, m0) := match cur_seg m with
                        | Some g => seal flat_ops (g_id g) s m
                        | None => (s, m)
                        end in
       swap_segment flat_ops s0 m0
  else (s, m).

Definition wr_tail (r : rec) (s1 : st) (m1 : mem) : option (st * mem * N * N) :=
  match cur_seg m1 with
  | None => None
  | Some g =>
    match find_dseg (g_id g) (s_disk s1) with
    | None => None
    | Some f =>
      if negb ((f_seq f =? g_seq g) && (flen f =? g_size g)) then None
      else
        let off := g_size g in
        let s2 := emit flat_ops (EAppend (g_id g) (g_seq g) off r) s1 in
        let m2 := set_msegs m1 (upd_mseg (g_id g)
                    (fun g => set_gmeta (set_gsize g (off + rsize r)) (count_rec r (g_meta g)))
                    (m_segs m1)) in
        Some (s2, m2, g_id g, u32 off)
    end
  end.

Lemma write_record_eq P r (s : st) (m : mem) :
  write_record flat_ops P r s m = let '(s1, m1) := wr_prelude P r s m in wr_tail r s1 m1.
Proof. reflexivity. Qed.

Lemma wr_prelude_spec P r (s : st) (m : mem) :
  InvLog m (s_disk s) -> room m ->
  exists s1 m1 g pre,
    wr_prelude P r s m = (s1, m1) /\
    InvLog m1 (s_disk s1) /\ room m1 /\ cur_seg m1 = Some g /\ sm_full (g_meta g) = false /\
    olog (s_disk s1) = olog (s_disk s) /\ same_rest (s_disk s) (s_disk s1) /\
    s_mem s1 = s_mem s /\ m_idx m1 = m_idx m /\ m_seed m1 = m_seed m /\
    s_trace s1 = s_trace s ++ pre /\ s_disk s1 = fold_left (apply_ev flat_ops) pre (s_disk s) /\
    wr_pre_shape pre (g_id g) (g_seq g).
Proof.
  intros HI Hroom. unfold wr_prelude. destruct (cur_seg m) as [g|] eqn:Ec.
  - destruct (sm_full (g_meta g) || (p_maxseg P <? g_size g + rsize r)) eqn:En.
    + destruct (cur_seg_Some _ _ Ec) as (_ & Hg & _).
      assert (Hinc : ids_increasing (m_segs m)) by apply HI.
      destruct (seal_spec s m g Hinc Hg) as (s0 & m0 & pre0 & E0 & Hsim & Ei0 & Esd0 & Ed0 & Em0 & Et0 & Hp0).
      rewrite E0.
      assert (HI0 : InvLog m0 (s_disk s0)) by (rewrite Ed0; eapply mem_sim_InvLog; eassumption).
      assert (Hroom0 : room m0) by (eapply mem_sim_room; eassumption).
      destruct (swap_spec s0 m0 HI0 Hroom0)
        as (s1 & m1 & g1 & pre1 & E1 & HI1 & Hroom1 & Ec1 & Hnf1 & Eo1 & Hr1 & Em1 & Ei1 & Esd1 & Et1 & Ed1 & Hp1).
      exists s1, m1, g1, (pre0 ++ pre1). split; [exact E1|].
      split; [exact HI1|]. split; [exact Hroom1|]. split; [exact Ec1|]. split; [exact Hnf1|].
      split; [congruence|]. split; [rewrite <- Ed0; exact Hr1|].
      split; [congruence|]. split; [congruence|]. split; [congruence|].
      split; [rewrite Et1, Et0, app_assoc; reflexivity|].
      split.
      * rewrite Ed1, Ed0, fold_left_app. destruct Hp0 as [->| ->]; reflexivity.
      * unfold wr_pre_shape. destruct Hp0 as [->| ->], Hp1 as [->| ->]; cbn [app].
        -- left. reflexivity.
        -- right. right. left. reflexivity.
        -- right. left. eauto.
        -- right. right. right. eauto.
    + apply orb_false_iff in En. destruct En as [Hnf _].
      exists s, m, g, []. rewrite app_nil_r.
      split; [reflexivity|]. split; [exact HI|]. split; [exact Hroom|]. split; [exact Ec|].
      split; [exact Hnf|]. split; [reflexivity|]. split; [apply same_rest_refl|].
      split; [reflexivity|]. split; [reflexivity|]. split; [reflexivity|]. split; [reflexivity|].
      split; [reflexivity|]. left. reflexivity.
  - destruct (swap_spec s m HI Hroom)
      as (s1 & m1 & g1 & pre1 & E1 & HI1 & Hroom1 & Ec1 & Hnf1 & Eo1 & Hr1 & Em1 & Ei1 & Esd1 & Et1 & Ed1 & Hp1).
    exists s1, m1, g1, pre1.
    split; [exact E1|]. split; [exact HI1|]. split; [exact Hroom1|]. split; [exact Ec1|].
    split; [exact Hnf1|]. split; [exact Eo1|]. split; [exact Hr1|].
    split; [exact Em1|]. split; [exact Ei1|]. split; [exact Esd1|]. split; [exact Et1|].
    split; [exact Ed1|].
    unfold wr_pre_shape. destruct Hp1 as [->| ->]; [left; reflexivity|right; right; left; reflexivity].
Qed.

(* The central lemma.  [m] need not be [s_mem s] (db_delete calls writeRecord after trackDel). *)
Theorem write_record_spec P r (s : st) (m : mem) :
  params_ok P -> InvLog m (s_disk s) -> room m -> rec_fits r ->
  exists s' m' id off,
    write_record flat_ops P r s m = Some (s', m', id, off) /\
    InvLog m' (s_disk s') /\
    olog (s_disk s') = olog (s_disk s) ++ [(id, off, r)] /\
    off < 4294967296 /\
    rec_of (s_disk s') id off = Some r /\
    (exists f, find_dseg id (s_disk s') = Some f /\ rec_at off (seg_entries f) = Some r) /\
    (forall id' off' r', rec_of (s_disk s) id' off' = Some r' -> rec_of (s_disk s') id' off' = Some r') /\
    (forall sl kv, read_kv (s_disk s) sl = Some kv -> read_kv (s_disk s') sl = Some kv) /\
    m_idx m' = m_idx m /\ m_seed m' = m_seed m /\ s_mem s' = s_mem s /\
    same_rest (s_disk s) (s_disk s') /\
    exists seq pre,
      s_trace s' = s_trace s ++ pre ++ [EAppend id seq off r] /\
      s_disk s' = fold_left (apply_ev flat_ops) (pre ++ [EAppend id seq off r]) (s_disk s) /\
      olog (fold_left (apply_ev flat_ops) pre (s_disk s)) = olog (s_disk s) /\
      same_rest (s_disk s) (fold_left (apply_ev flat_ops) pre (s_disk s)) /\
      wr_pre_shape pre id seq.
Proof.
  intros _ HI Hroom Hr. rewrite write_record_eq.
  destruct (wr_prelude_spec P r s m HI Hroom)
    as (s1 & m1 & g & pre & E1 & HI1 & Hroom1 & Ec1 & Hnf1 & Eo1 & Hr1 & Em1 & Ei1 & Esd1 & Et1 & Ed1 & Hp1).
  rewrite E1.
  destruct (append_step m1 (s_disk s1) r g HI1 Hroom1 Hr Ec1 Hnf1)
    as (f & Hfind & Efseq & Efl & Hlt & HI2 & Eo2 & Hrec).
  cbn zeta in HI2, Eo2, Hrec.
  unfold wr_tail. rewrite Ec1, Hfind, Efseq, Efl, !N.eqb_refl. cbn [andb negb].
  rewrite (u32_small _ Hlt).
  eexists _, _, (g_id g), (g_size g). split; [reflexivity|].
  rewrite s_disk_emit.
  assert (Hd0 : DiskOK (s_disk s)) by apply HI.
  assert (Hd2 : DiskOK (apply_ev flat_ops (s_disk s1) (EAppend (g_id g) (g_seq g) (g_size g) r))) by apply HI2.
  assert (Hkeep : forall id' off' r', rec_of (s_disk s) id' off' = Some r' ->
            rec_of (apply_ev flat_ops (s_disk s1) (EAppend (g_id g) (g_seq g) (g_size g) r)) id' off' = Some r').
  { intros id' off' r' H. apply rec_of_olog; [apply Hd2|]. rewrite Eo2, Eo1.
    apply in_or_app. left. apply rec_of_olog; [apply Hd0|exact H]. }
  split; [exact HI2|]. split; [rewrite Eo2, Eo1; reflexivity|]. split; [exact Hlt|].
  split; [exact Hrec|]. split.
  { unfold rec_of in Hrec.
    match type of Hrec with match ?X with _ => _ end = _ => destruct X as [f'|] eqn:Ef' end; [|discriminate].
    exists f'. split; [reflexivity|exact Hrec]. }
  split; [exact Hkeep|]. split.
  { intros sl kv. rewrite !read_kv_rec_of.
    destruct (rec_of (s_disk s) (sl_seg sl) (sl_off sl)) as [r'|] eqn:E; [|discriminate].
    rewrite (Hkeep _ _ _ E). exact (fun H => H). }
  split; [exact Ei1|]. split; [exact Esd1|]. split; [exact Em1|].
  split; [eapply same_rest_trans; [exact Hr1|apply apply_ev_append_rest]|].
  exists (g_seq g), pre. split; [rewrite s_trace_emit, Et1, app_assoc; reflexivity|].
  split; [rewrite fold_left_app, <- Ed1; reflexivity|].
  split; [rewrite <- Ed1; exact Eo1|]. split; [rewrite <- Ed1; exact Hr1|exact Hp1].
Qed.

(* ================================================================================================ *)
(* 7. The index (flat) and the log                                                                    *)
Definition khit (kf : slot -> key) (k : key) (sl : slot) : bool := key_eqb k (kf sl).

(* index_agrees without the mem record *)
Definition idx_agrees (P : params) (seed : N) (idx : flat) (d : disk) : Prop :=
  Forall (slot_ok P d seed) idx /\
  NoDup (map (slot_key d) idx) /\
  (forall k, ptr_of d k =
             option_map (fun sl => (sl_seg sl, sl_off sl)) (find (khit (slot_key d) k) idx)).

Lemma index_agrees_eq P (m : mem) d : index_agrees P m d = idx_agrees P (m_seed m) (m_idx m) d.
Proof. reflexivity. Qed.

Lemma slot_ok_read P (d : disk) seed sl :
  slot_ok P d seed sl ->
  exists r, rec_of d (sl_seg sl) (sl_off sl) = Some r /\ rdel r = false /\
            sl_ks sl = nlen (rk r) /\ sl_vs sl = nlen (rv r) /\ sl_h sl = p_hash P seed (rk r) /\
            read_kv d sl = Some (rk r, rv r) /\ slot_key d sl = rk r.
Proof.
  intros H. apply slot_ok_rec_of in H. destruct H as (r & E & Hd & Hk & Hv & Hh).
  assert (Er : read_kv d sl = Some (rk r, rv r)).
  { rewrite read_kv_rec_of, E. cbn [option_map]. rewrite Hk, Hv, ntake_app_exact, ndrop_app_exact, ntake_nlen.
    reflexivity. }
  exists r. repeat split; try assumption. unfold slot_key. rewrite Er. reflexivity.
Qed.

(* the matchKey callback, restricted to the bucket with the right hash, is key equality --
   for EVERY key k, also an over-long one *)
Lemma hit_key P (d : disk) seed k sl :
  DiskOK d -> slot_ok P d seed sl ->
  fl_hit (p_hash P seed k) (matchf d k) sl = khit (slot_key d) k sl.
Proof.
  intros Hd H. destruct (slot_ok_read P d seed sl H) as (r & E & _ & Hk & _ & Hh & Er & Ek).
  unfold fl_hit, matchf, khit. rewrite Er, Ek.
  destruct (key_eqb k (rk r)) eqn:Ekk; [|rewrite !andb_false_r; reflexivity].
  apply key_eqb_eq in Ekk. subst k. rewrite Hh, Hk, N.eqb_refl.
  pose proof (rec_of_rec_fits d _ _ r Hd E) as (_ & _ & Hlen & _). consts.
  rewrite u16_small by lia. rewrite N.eqb_refl. reflexivity.
Qed.

Lemma find_ext_in {A} (p q : A -> bool) l : (forall x, In x l -> p x = q x) -> find p l = find q l.
Proof.
  induction l as [|x l IH]; intros H; [reflexivity|]. cbn [find].
  rewrite (H x (or_introl eq_refl)), IH; [reflexivity|]. intros y Hy. apply H. right. exact Hy.
Qed.

Lemma fl_replace_ext_in p q new l :
  (forall x, In x l -> p x = q x) -> fl_replace p new l = fl_replace q new l.
Proof.
  induction l as [|x l IH]; intros H; [reflexivity|]. cbn [fl_replace].
  rewrite (H x (or_introl eq_refl)), IH; [reflexivity|]. intros y Hy. apply H. right. exact Hy.
Qed.

Lemma fl_remove_ext_in p q l : (forall x, In x l -> p x = q x) -> fl_remove p l = fl_remove q l.
Proof.
  induction l as [|x l IH]; intros H; [reflexivity|]. cbn [fl_remove].
  rewrite (H x (or_introl eq_refl)), IH; [reflexivity|]. intros y Hy. apply H. right. exact Hy.
Qed.

Lemma find_khit_None kf k l : find (khit kf k) l = None <-> ~ In k (map kf l).
Proof.
  induction l as [|x l IH]; cbn [find map In]; [tauto|].
  destruct (khit kf k x) eqn:E; unfold khit in E.
  - apply key_eqb_eq in E. split; [discriminate|]. intros H. exfalso. apply H. left. congruence.
  - apply key_eqb_neq in E. rewrite IH. split; intros H; [intros [H1|H1]; [congruence|tauto]|tauto].
Qed.

Lemma find_khit_Some kf k l sl : find (khit kf k) l = Some sl -> In sl l /\ kf sl = k.
Proof.
  intros H. apply find_some in H. destruct H as [HIn E]. unfold khit in E. apply key_eqb_eq in E.
  split; [exact HIn|congruence].
Qed.

Lemma find_khit_In kf l sl : NoDup (map kf l) -> In sl l -> find (khit kf (kf sl)) l = Some sl.
Proof.
  intros Hnd HIn. destruct (find (khit kf (kf sl)) l) as [sl'|] eqn:E.
  - apply find_khit_Some in E. destruct E as [HIn' E]. f_equal.
    exact (NoDup_map_inj kf l sl' sl Hnd HIn' HIn E).
  - exfalso. apply find_khit_None in E. apply E. apply in_map. exact HIn.
Qed.

Lemma fl_replace_Some kf k new l : forall l' o,
  kf new = k -> fl_replace (khit kf k) new l = Some (l', o) ->
  In o l /\ kf o = k /\ map kf l' = map kf l /\ (forall x, In x l' -> x = new \/ In x l) /\
  (forall k', find (khit kf k') l' = if key_eqb k' k then Some new else find (khit kf k') l).
Proof.
  induction l as [|x l IH]; intros l' o Hnew H; [discriminate|].
  cbn [fl_replace] in H. destruct (khit kf k x) eqn:Ex; unfold khit in Ex.
  - apply key_eqb_eq in Ex. inversion H; subst l' o. split; [left; reflexivity|]. split; [congruence|].
    split; [cbn [map]; congruence|]. split; [intros y [<-|Hy]; [left; reflexivity|right; right; exact Hy]|].
    intros k'. cbn [find].
    assert (E1 : khit kf k' new = key_eqb k' k) by (unfold khit; rewrite Hnew; reflexivity).
    assert (E2 : khit kf k' x = key_eqb k' k) by (unfold khit; rewrite <- Ex; reflexivity).
    rewrite E1, E2. destruct (key_eqb k' k); reflexivity.
  - destruct (fl_replace (khit kf k) new l) as [[l'' o']|] eqn:E; [|discriminate].
    inversion H; subst l' o'. destruct (IH l'' o Hnew eq_refl) as (A1 & A2 & A3 & A4 & A5).
    split; [right; exact A1|]. split; [exact A2|]. split; [cbn [map]; congruence|].
    split; [intros y [<-|Hy]; [right; left; reflexivity|destruct (A4 y Hy); [left|right; right]; assumption]|].
    intros k'. cbn [find]. rewrite A5.
    destruct (khit kf k' x) eqn:Ek'; [|reflexivity].
    unfold khit in Ek'. apply key_eqb_eq in Ek'. subst k'. rewrite key_eqb_sym, Ex. reflexivity.
Qed.

Lemma fl_replace_None p new l : fl_replace p new l = None -> forall x, In x l -> p x = false.
Proof.
  induction l as [|x l IH]; intros H y Hy; [destruct Hy|]. cbn [fl_replace] in H.
  destruct (p x) eqn:Ex; [discriminate|].
  destruct (fl_replace p new l) as [[? ?]|]; [discriminate|].
  destruct Hy as [<-|Hy]; [exact Ex|apply IH; [reflexivity|exact Hy]].
Qed.

Lemma find_app {A} (p : A -> bool) l1 l2 :
  find p (l1 ++ l2) = match find p l1 with Some x => Some x | None => find p l2 end.
Proof.
  induction l1 as [|x l1 IH]; [reflexivity|]. cbn [app find]. destruct (p x); [reflexivity|exact IH].
Qed.

Lemma find_khit_snoc kf k new l k' :
  (forall x, In x l -> khit kf k x = false) -> kf new = k ->
  find (khit kf k') (l ++ [new]) = if key_eqb k' k then Some new else find (khit kf k') l.
Proof.
  intros Hno Hnew. rewrite find_app. cbn [find].
  assert (E1 : khit kf k' new = key_eqb k' k) by (unfold khit; rewrite Hnew; reflexivity).
  rewrite E1. destruct (key_eqb k' k) eqn:E.
  - apply key_eqb_eq in E. subst k'. rewrite (proj2 (find_khit_None kf k l)); [reflexivity|].
    intros HIn. apply in_map_iff in HIn. destruct HIn as (x & Ex & Hx). pose proof (Hno x Hx) as Hf.
    unfold khit in Hf. rewrite Ex, key_eqb_refl in Hf. discriminate.
  - destruct (find (khit kf k') l); reflexivity.
Qed.

Lemma fl_remove_Some kf k l : forall l' o,
  NoDup (map kf l) -> fl_remove (khit kf k) l = Some (l', o) ->
  In o l /\ kf o = k /\ (forall x, In x l' -> In x l) /\ NoDup (map kf l') /\
  (forall k', find (khit kf k') l' = if key_eqb k' k then None else find (khit kf k') l).
Proof.
  induction l as [|x l IH]; intros l' o Hnd H; [discriminate|].
  cbn [map] in Hnd. inversion Hnd as [|? ? Hx Hnd']; subst.
  cbn [fl_remove] in H. destruct (khit kf k x) eqn:Ex; unfold khit in Ex.
  - apply key_eqb_eq in Ex. inversion H; subst l' o. split; [left; reflexivity|]. split; [congruence|].
    split; [intros y Hy; right; exact Hy|]. split; [exact Hnd'|].
    intros k'. cbn [find].
    assert (E2 : khit kf k' x = key_eqb k' k) by (unfold khit; rewrite <- Ex; reflexivity).
    rewrite E2. destruct (key_eqb k' k) eqn:E; [|reflexivity].
    apply key_eqb_eq in E. subst k'. apply find_khit_None. congruence.
  - destruct (fl_remove (khit kf k) l) as [[l'' o']|] eqn:E; [|discriminate].
    inversion H; subst l' o'. destruct (IH l'' o Hnd' eq_refl) as (A1 & A2 & A3 & A4 & A5).
    split; [right; exact A1|]. split; [exact A2|].
    split; [intros y [<-|Hy]; [left; reflexivity|right; apply A3; exact Hy]|].
    split.
    + cbn [map]. constructor; [|exact A4]. intros HIn. apply Hx. apply in_map_iff in HIn.
      destruct HIn as (y & Ey & Hy). rewrite <- Ey. apply in_map. apply A3. exact Hy.
    + intros k'. cbn [find]. rewrite A5.
      destruct (khit kf k' x) eqn:Ek'; [|reflexivity].
      unfold khit in Ek'. apply key_eqb_eq in Ek'. subst k'. rewrite key_eqb_sym, Ex. reflexivity.
Qed.

Lemma fl_remove_None p l : fl_remove p l = None -> forall x, In x l -> p x = false.
Proof.
  induction l as [|x l IH]; intros H y Hy; [destruct Hy|]. cbn [fl_remove] in H.
  destruct (p x) eqn:Ex; [discriminate|].
  destruct (fl_remove p l) as [[? ?]|]; [discriminate|].
  destruct Hy as [<-|Hy]; [exact Ex|apply IH; [reflexivity|exact Hy]].
Qed.

(* slots keep their meaning when the log only grows *)
Lemma slot_keep P (d d1 : disk) seed sl :
  (forall id off r, rec_of d id off = Some r -> rec_of d1 id off = Some r) ->
  slot_ok P d seed sl ->
  slot_ok P d1 seed sl /\ read_kv d1 sl = read_kv d sl /\ slot_key d1 sl = slot_key d sl.
Proof.
  intros Hkeep H. pose proof H as H0. apply slot_ok_rec_of in H. destruct H as (r & E & Hr).
  pose proof (Hkeep _ _ _ E) as E1.
  assert (Er : read_kv d1 sl = read_kv d sl) by (rewrite !read_kv_rec_of, E, E1; reflexivity).
  split; [apply slot_ok_rec_of; exists r; split; assumption|]. split; [exact Er|].
  unfold slot_key. rewrite Er. reflexivity.
Qed.

Lemma idx_keys_keep P (d d1 : disk) seed idx :
  (forall id off r, rec_of d id off = Some r -> rec_of d1 id off = Some r) ->
  Forall (slot_ok P d seed) idx ->
  Forall (slot_ok P d1 seed) idx /\ map (slot_key d1) idx = map (slot_key d) idx /\
  (forall k, find (khit (slot_key d1) k) idx = find (khit (slot_key d) k) idx).
Proof.
  intros Hkeep Hok. split; [|split].
  - apply Forall_forall. intros sl Hsl. fa Hok sl Hsl. apply (slot_keep P d d1 seed sl Hkeep Hfa).
  - apply map_ext_in. intros sl Hsl. fa Hok sl Hsl. apply (slot_keep P d d1 seed sl Hkeep Hfa).
  - intros k. apply find_ext_in. intros sl Hsl. fa Hok sl Hsl. unfold khit.
    rewrite (proj2 (proj2 (slot_keep P d d1 seed sl Hkeep Hfa))). reflexivity.
Qed.

(* what a lookup finds *)
Lemma idx_get_find P seed idx (d : disk) k :
  DiskOK d -> Forall (slot_ok P d seed) idx ->
  fl_get idx (p_hash P seed k) (matchf d k) = find (khit (slot_key d) k) idx.
Proof.
  intros Hd Hok. unfold fl_get. apply find_ext_in. intros sl Hsl. fa Hok sl Hsl.
  apply hit_key; assumption.
Qed.

Theorem idx_lookup P seed idx (d : disk) k :
  DiskOK d -> idx_agrees P seed idx d ->
  match find (khit (slot_key d) k) idx with
  | None => sget (abs d) k = None
  | Some sl => In sl idx /\ exists v, read_kv d sl = Some (k, v) /\ sget (abs d) k = Some v
  end.
Proof.
  intros Hd (Hok & Hnd & Hptr). specialize (Hptr k).
  destruct (find (khit (slot_key d) k) idx) as [sl|] eqn:E; cbn [option_map] in Hptr.
  - apply find_khit_Some in E. destruct E as [HIn Ek]. split; [exact HIn|].
    apply ptr_of_Some in Hptr. destruct Hptr as (r & Hlog & Erk & _ & Eget).
    fa Hok sl HIn. destruct (slot_ok_read P d seed sl Hfa) as (r' & Er' & _ & _ & _ & _ & Erd & _).
    apply rec_of_olog in Hlog; [|apply Hd]. assert (r' = r) by congruence. subst r'.
    exists (rv r). rewrite Erd, Erk. split; [reflexivity|exact Eget].
  - apply ptr_of_None. exact Hptr.
Qed.

(* ================================================================================================ *)
(* 8. Frame table: for every component of the disk, the events that can change it                     *)
Definition touches_index (e : fsev) : bool :=
  match e with EIndex _ | ECreate FMain | ERemove FMain | ERename FMain _ => true | _ => false end.
Definition touches_overflow (e : fsev) : bool :=
  match e with ECreate FOverflow | ERemove FOverflow | ERename FOverflow _ => true | _ => false end.
Definition touches_imeta (e : fsev) : bool :=
  match e with
  | EGobIndex _ | ECreate FIndexMeta | ETrunc FIndexMeta _ | ERemove FIndexMeta | ERename FIndexMeta _ => true
  | _ => false
  end.
Definition touches_dbmeta (e : fsev) : bool :=
  match e with
  | EGobDb _ | ECreate FDbMeta | ETrunc FDbMeta _ | ERemove FDbMeta | ERename FDbMeta _ => true
  | _ => false
  end.
Definition touches_lock (e : fsev) : bool :=
  match e with ECreate FLock | ERemove FLock | ERename FLock _ => true | _ => false end.
Definition touches_bac (e : fsev) : bool :=
  match e with ECreate (FBac _) | ERemove (FBac _) | ERename _ _ => true | _ => false end.
Definition touches_orphans (e : fsev) : bool :=
  match e with
  | ERemove (FSeg _ _) | ERemove (FSegMeta _ _) | ERename (FSeg _ _) _ | ERename (FSegMeta _ _) _ => true
  | _ => false
  end.

Lemma file_removed_frame f (d : disk) :
  (match f with FMain => True | _ => d_index (file_removed f d) = d_index d end) /\
  (match f with FOverflow => True | _ => d_overflow (file_removed f d) = d_overflow d end) /\
  (match f with FIndexMeta => True | _ => d_imeta (file_removed f d) = d_imeta d end) /\
  (match f with FDbMeta => True | _ => d_dbmeta (file_removed f d) = d_dbmeta d end) /\
  (match f with FLock => True | _ => d_lock (file_removed f d) = d_lock d end) /\
  (match f with FBac _ => True | _ => d_bac (file_removed f d) = d_bac d end) /\
  (match f with FSeg _ _ | FSegMeta _ _ => True | _ => d_orphans (file_removed f d) = d_orphans d end).
Proof. destruct f; repeat split. Qed.

Theorem apply_ev_d_index (d : disk) e : touches_index e = false -> d_index (apply_ev flat_ops d e) = d_index d.
Proof.
  destruct e as [f|f|id seq off r|i|id seq m|i|sd|f n|f g|f|f]; cbn [touches_index]; intros H;
    try discriminate; try reflexivity; try (destruct f; try discriminate; reflexivity).
Qed.
Theorem apply_ev_d_overflow (d : disk) e : touches_overflow e = false -> d_overflow (apply_ev flat_ops d e) = d_overflow d.
Proof.
  destruct e as [f|f|id seq off r|i|id seq m|i|sd|f n|f g|f|f]; cbn [touches_overflow]; intros H;
    try discriminate; try reflexivity; try (destruct f; try discriminate; reflexivity).
Qed.
Theorem apply_ev_d_imeta (d : disk) e : touches_imeta e = false -> d_imeta (apply_ev flat_ops d e) = d_imeta d.
Proof.
  destruct e as [f|f|id seq off r|i|id seq m|i|sd|f n|f g|f|f]; cbn [touches_imeta]; intros H;
    try discriminate; try reflexivity; try (destruct f; try discriminate; reflexivity).
Qed.
Theorem apply_ev_d_dbmeta (d : disk) e : touches_dbmeta e = false -> d_dbmeta (apply_ev flat_ops d e) = d_dbmeta d.
Proof.
  destruct e as [f|f|id seq off r|i|id seq m|i|sd|f n|f g|f|f]; cbn [touches_dbmeta]; intros H;
    try discriminate; try reflexivity; try (destruct f; try discriminate; reflexivity).
Qed.
Theorem apply_ev_d_lock (d : disk) e : touches_lock e = false -> d_lock (apply_ev flat_ops d e) = d_lock d.
Proof.
  destruct e as [f|f|id seq off r|i|id seq m|i|sd|f n|f g|f|f]; cbn [touches_lock]; intros H;
    try discriminate; try reflexivity; try (destruct f; try discriminate; reflexivity).
Qed.
Theorem apply_ev_d_bac (d : disk) e : touches_bac e = false -> d_bac (apply_ev flat_ops d e) = d_bac d.
Proof.
  destruct e as [f|f|id seq off r|i|id seq m|i|sd|f n|f g|f|f]; cbn [touches_bac]; intros H;
    try discriminate; try reflexivity; try (destruct f; try discriminate; reflexivity).
Qed.
Theorem apply_ev_d_orphans (d : disk) e : touches_orphans e = false -> d_orphans (apply_ev flat_ops d e) = d_orphans d.
Proof.
  destruct e as [f|f|id seq off r|i|id seq m|i|sd|f n|f g|f|f]; cbn [touches_orphans]; intros H;
    try discriminate; try reflexivity; try (destruct f; try discriminate; reflexivity).
Qed.

(* events that touch neither the log nor anything a read or the invariant looks at, except as stated *)
Corollary apply_ev_reads (d : disk) e :
  touches_log e = false ->
  olog (apply_ev flat_ops d e) = olog d /\ abs (apply_ev flat_ops d e) = abs d /\
  ptr_of (apply_ev flat_ops d e) = ptr_of d /\
  (forall sl, read_kv (apply_ev flat_ops d e) sl = read_kv d sl) /\
  (forall k sl, matchf (apply_ev flat_ops d e) k sl = matchf d k sl) /\
  (DiskOK d -> DiskOK (apply_ev flat_ops d e)).
Proof.
  intros H. pose proof (apply_ev_same_log d e H) as Hs.
  split; [apply same_log_olog; exact Hs|]. split; [apply same_log_abs; exact Hs|].
  split; [apply same_log_ptr_of; exact Hs|]. split; [intros sl; apply same_log_read_kv; exact Hs|].
  split; [intros k sl; apply same_log_matchf; exact Hs|apply same_log_DiskOK; exact Hs].
Qed.
