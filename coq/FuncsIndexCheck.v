(* FuncsIndexCheck.v -- OBLIGATIONS tying the integer code of the index (index.go: bucketIndex,
   bucketOffset, the split-pointer advance in split; bucket.go: slot.kvSize; compaction.go: the slot
   test of promoteRecord) AS TRANSLATED FROM THE CURRENT SOURCES (gen/Funcs.v, regenerated on every
   run by tools/gotrans) to the definitions the model and all its theorems use (Index.v).
   Each statement quantifies over ALL values of the Go types involved. *)
From Coq Require Import ZArith NArith Bool Lia.
From Pogreb Require Import Base Index GoSem.
From Pogreb.gen Require Import Funcs.
Open Scope Z_scope.

(* masking with the n low bits, on N and on Z *)
Lemma land_ones_NZ h n : Z.land (Z.of_N h) (Z.ones (Z.of_N n)) = Z.of_N (N.land h (N.ones n)).
Proof.
  rewrite Z.land_ones by lia. rewrite N.land_ones. rewrite N2Z.inj_mod, N2Z.inj_pow. reflexivity.
Qed.

Lemma pow2_le_32 l : 0 <= l <= 32 -> 0 < 2 ^ l <= 4294967296.
Proof.
  intros H. split. apply Z.pow_pos_nonneg; lia.
  rewrite <- p2_32. apply Z.pow_le_mono_r; lia.
Qed.

(* (1 << l) - 1 in uint32, for l <= 32, is the mask of the l low bits (for l = 32: 0 - 1 wraps) *)
Lemma mask32 l : 0 <= l <= 32 -> go_sub (U 32) (go_shl (U 32) 1 l) 1 = Z.ones l.
Proof.
  intros H. unfold go_sub, go_shl. rewrite Z.shiftl_1_l. rewrite Z.ones_equiv.
  pose proof (pow2_le_32 l H) as P.
  destruct (Z.eq_dec l 32) as [->|N].
  - cbn [wrap]. rewrite Z.mod_same by (rewrite p2_32; lia). rewrite p2_32. reflexivity.
  - assert (L : 2 ^ l < 4294967296).
    { rewrite <- p2_32. apply Z.pow_lt_mono_r; lia. }
    rewrite (wrap_U32 (2 ^ l)) by lia. rewrite wrap_U32 by lia. lia.
Qed.

(* index.bucketIndex = Index.bucket_index, for every hash, split pointer and level < 32
   (numBuckets is a uint32, so level <= 32; at level 32 `level + 1` would still be fine in uint8 but
   1 << 33 is 0 in uint32: the statement is for the levels a database can reach) *)
Theorem bucketIndex_ok : forall level split h : N,
  (level < 32)%N -> (split < 2 ^ 32)%N -> (h < 2 ^ 32)%N ->
  go_bucketIndex (Z.of_N level) (Z.of_N split) (Z.of_N h) = Z.of_N (bucket_index level split h).
Proof.
  intros level split h Hl Hs Hh. unfold go_bucketIndex, bucket_index.
  assert (L : 0 <= Z.of_N level < 32) by lia.
  rewrite mask32 by lia.
  unfold go_add at 1. rewrite wrap_U8 by lia.
  rewrite mask32 by lia.
  unfold go_and, go_ltb.
  replace (Z.of_N level + 1) with (Z.of_N (level + 1)) by lia.
  rewrite !land_ones_NZ.
  destruct (N.ltb_spec (N.land h (N.ones level)) split) as [Lt|Ge].
  - replace (Z.of_N (N.land h (N.ones level)) <? Z.of_N split) with true by (symmetry; apply Z.ltb_lt; lia).
    reflexivity.
  - replace (Z.of_N (N.land h (N.ones level)) <? Z.of_N split) with false by (symmetry; apply Z.ltb_ge; lia).
    reflexivity.
Qed.

(* the split-pointer advance of index.split = Index.advance, while the pointer is inside its level *)
Theorem split_advance_ok : forall level split : N,
  (level < 32)%N -> (split < 2 ^ level)%N ->
  go_split_advance (Z.of_N level) (Z.of_N split) =
  (Z.of_N (fst (advance level split)), Z.of_N (snd (advance level split))).
Proof.
  intros level split Hl Hs. unfold go_split_advance, advance.
  assert (P : (2 ^ level < 2 ^ 32)%N) by (apply N.pow_lt_mono_r; lia).
  change (2 ^ 32)%N with 4294967296%N in P.
  unfold go_add, go_shl. rewrite !(wrap_U32 (Z.of_N split + 1)) by lia.
  rewrite Z.shiftl_1_l.
  assert (E : 2 ^ Z.of_N level = Z.of_N (2 ^ level)) by (rewrite N2Z.inj_pow; reflexivity).
  rewrite E. rewrite (wrap_U32 (Z.of_N (2 ^ level))) by lia.
  unfold go_eqb. rewrite wrap_U8 by lia.
  destruct (N.eqb_spec (split + 1) (2 ^ level)) as [Eq|Ne].
  - replace (Z.of_N split + 1 =? Z.of_N (2 ^ level)) with true by (symmetry; apply Z.eqb_eq; lia).
    cbn [fst snd]. f_equal; lia.
  - replace (Z.of_N split + 1 =? Z.of_N (2 ^ level)) with false by (symmetry; apply Z.eqb_neq; lia).
    cbn [fst snd]. f_equal; lia.
Qed.

(* bucketOffset: bucket i of an index file lives at 512 + 512 * i (header, then 512-byte buckets) *)
Theorem bucketOffset_ok : forall i : N, (i < 2 ^ 32)%N ->
  go_bucketOffset (Z.of_N i) = Z.of_N (512 + 512 * i).
Proof.
  intros i Hi. change (2 ^ 32)%N with 4294967296%N in Hi. unfold go_bucketOffset, go_conv, go_mul, go_add.
  rewrite (wrap_S64 (Z.of_N i)) by lia.
  rewrite (wrap_S64 (512 * Z.of_N i)) by lia.
  rewrite wrap_S64 by lia. lia.
Qed.

(* slot.kvSize and the size of the record a slot points to *)
Theorem kvSize_ok : forall ks vs : N, (ks < 2 ^ 16)%N -> (vs < 2 ^ 31)%N ->
  go_kvSize (Z.of_N ks) (Z.of_N vs) = Z.of_N (ks + vs).
Proof.
  intros ks vs Hk Hv. change (2 ^ 16)%N with 65536%N in Hk. change (2 ^ 31)%N with 2147483648%N in Hv.
  unfold go_kvSize, go_conv, go_add. rewrite (wrap_U32 (Z.of_N ks)) by lia. rewrite wrap_U32 by lia. lia.
Qed.

(* promoteRecord skips a slot exactly when it is not Index.rp_hit *)
Theorem promote_other_ok : forall (h seg off : N) (s : slot),
  go_promote_other (Z.of_N h) (Z.of_N (sl_h s)) (Z.of_N off) (Z.of_N (sl_off s)) (Z.of_N seg) (Z.of_N (sl_seg s))
  = negb (rp_hit h seg off s).
Proof.
  intros h seg off s. unfold go_promote_other, go_neqb, rp_hit.
  assert (Q : forall a b : N, (Z.of_N a =? Z.of_N b) = (b =? a)%N).
  { intros a b. destruct (N.eqb_spec b a) as [->|Ne]; [apply Z.eqb_refl|apply Z.eqb_neq; lia]. }
  rewrite !Q.
  destruct (sl_h s =? h)%N, (sl_off s =? off)%N, (sl_seg s =? seg)%N; reflexivity.
Qed.

(* ItemIterator.Next refills its queue exactly when DB.dbiter_fill does: the queue is empty and the
   next bucket index is below the CURRENT number of buckets of the index (re-read on every call) *)
Theorem iter_more_ok : forall (qlen next nbuckets : N),
  go_iter_more (Z.of_N qlen) (Z.of_N next) (Z.of_N nbuckets) = ((qlen =? 0)%N && (next <? nbuckets)%N).
Proof.
  intros qlen next nbuckets. unfold go_iter_more, go_eqb, go_ltb. f_equal.
  - destruct (N.eqb_spec qlen 0) as [->|Ne]; [reflexivity|apply Z.eqb_neq; lia].
  - destruct (N.ltb_spec next nbuckets); [apply Z.ltb_lt|apply Z.ltb_ge]; lia.
Qed.
