(* PhysPowerLoss.v -- the POWER-LOSS theorems (C06 "writes acknowledged before a completed Sync survive a
   power failure at any later instant", C09 "a cleanly closed database is a durable checkpoint") for the
   database running on the bucket-CHAIN index ([chain_ops]) and on the PHYSICAL index ([phys_ops], Phys.v:
   bucket files addressed by byte offset, overflow-bucket allocation, free list).

   PowerLoss.v / PowerLoss2.v prove them for the flat reference index only ([pl], [plh] are defined over
   [@fsev flat]).  This file transfers them along the simulations
        s1 : st phys   --- gst_rel PR ---   sp : st pindex   --- st_rel ---   sf : st flat
   of DBSimExact.v / DBSim.v, in the style of DBSimSessions.CrashRel / PhysCrash.v: NOTHING is assumed about
   the phys or chain state beyond the relations; every other hypothesis (XOpen, the run [xrun] with its
   side conditions room / byte / MetaOK) is about the FLAT run on the same operations.
   New file only.  No axioms (Print Assumptions at the end: all "Closed under the global context").
   Nothing asked for turned out to be false; one statement (histories of several EPOCHS) is partial.

   1. THE MODEL FOR ANY INDEX (Section GPL)
        gdata_file / gsync_file / gforget, gpl ops, gpl_exec ops (one choice Keep | Drop | Tear c per event),
        gpl_exec_sound / _complete, gpl_app / gpl_app_inv, gpl_full; gchunk, ghrun, gplh ops (chunked
        histories of PowerLoss2): the rules of [pl] / [plh] word for word, with DBSimSessions.gtorn.
        gpl_flat, gpl_exec_flat, gplh_flat: on flat_ops they ARE pl / pl_exec / plh.
   2. RELATED DISKS + RELATED HISTORIES => RELATED IMAGES (Section PLRel, any R with R empty empty)
        pl_exec_g      the SAME choice list is admissible on both sides, leaves the SAME set L' of files
                       that lost a write, and gives gdisk_rel R images (an index-file event EIndex /
                       EGobIndex carries R-related values and is kept or dropped on both sides)
        pl_image_g     both directions, for gpl;   plh_image_fwd / plh_image_bwd   for gplh (gch_rel)
   3. THREE LAYERS:  chain_pl_image, phys_pl_image_chain, phys_pl_image (phys image <-> chain image <->
        [pl] image of the flat history, same L'), phys_pl_image_inv (every index stored in any admissible
        phys image satisfies PhysInv), phys_plh_image (chunked histories).
   4. GENERIC FACTS (Section Ext, any ops)
        ext / ext_put ... ext_close: "the disk changes only through emit" for every operation of DB.v used
                       here, hence gxstep_disk / gxrun_disk: the disk is the fold of the history
        idx_agree, gpl_idx_agree (gplh_idx_agree): an image agrees with the real disk on main.pix resp.
                       index.pmt unless that file lost a write (the part of PowerLoss.pl_agree that is
                       NOT implied by the relations: it gives EQUALITY of the stored phys index)
        gpl_index_cases: the content of main.pix in an image is the content the loss-free disk had at
                       some instant of the history (one of the written values, or the earlier one)
   5. HISTORIES ON ANY INDEX: grun_op, gxstep, gxrun, gxtrace (PowerLoss.xstep / xrun as functions of the
        operations; gxstep_flat / gxrun_flat: on flat_ops they are xstep / xrun);
        T3, T3_step, T3_run: the three layers stay related along a history, traces related event by event.
   6. C09 (single process, any history of Put / Delete / Sync / pick / compaction steps, then Close)
        C09_closed_is_durable_phys   EVERY admissible image of the phys history is the closed phys directory
                       (set_orphans: up to the bookkeeping list d_orphans): in particular main.pix and index.pmt
                       hold EXACTLY the values of the real disk when Close returned, [stored_index]: they
                       satisfy PhysInv and represent the closed flat index; the image is related to an
                       admissible flat image, which is the closed flat directory (PowerLoss.C09_closed_is_durable)
        open_clean_loads_index       a clean Open loads m_idx from d_index of the image (it TRUSTS the files)
        C09_reopen_phys              db_open phys_ops on the image = OOpened false, phys_open_ok, the loaded
                       index is the image's = the closed disk's, PhysInv; answers1 = the answers before Close
   7. C06 (single process)
        C06_synced_writes_survive_phys   history, sync point, further steps, power failure after ANY number n
                       of their events, any admissible image: db_open phys_ops = OOpened true (the index files
                       of the image are irrelevant: set aside, index rebuilt from the log), phys_open_ok,
                       answers1 .. ms with ms = contents at the sync point + a prefix of the later operations
        C06_per_key_phys
   7b. SEVERAL EPOCHS (PowerLoss2: process crashes, recovery attempts, Close / clean re-Open) -- PARTIAL
        C06_with_recovery_image          PowerLoss2.C06_with_recovery with DiskOK / bac_ok / lock of the image exported
        C06_with_recovery_phys_partial, C09_reopen_epochs_phys_partial
                       the theorems hold for every phys chunked history that is RELATED chunk by chunk
                       (Forall2 gch1 / gchp) to the flat history of [mrun]: this relation is a HYPOTHESIS.
                       MISSING: a phys analogue of PowerLoss2.mrun and the proof that it stays related to
                       the flat mrun; the pieces are there (chunks_ops, chunks_close, chunks_open, and
                       PhysCrash.phys_crash_image for the cut of a step) but are not assembled.
   8. Module PhysPLEx (vm_compute, state PhysCrash.PhysCrashEx: 35 colliding keys, 4 of them in an overflow
        bucket): C06_phys_nonvacuous: Put; Sync; Put that rolls over; power failure before its Sync:
        image A loses the record but keeps the index write (main.pix: 37 keys, log: 36 records): recovery
        gives the first Put and not the second; image B loses nothing: both Puts; losing the record of the
        first Put is inadmissible.  C09_phys_nonvacuous: Put; Close; every write kept (dropping the index
        write of the Put is INADMISSIBLE once Close has flushed main.pix); clean Open with the index of the
        image (36 keys, overflow bucket at 512), answers1.

   DEVIATIONS: the phys history is given as a FUNCTION of the operations (gxtrace), the flat [xrun] on the
   same operations supplies the side conditions; the power failure of C06 is "after n events" (firstn n);
   contents are stated with [answers1 P s2 ms] for a map ms with NoDup keys whose lookups are the
   specification ([xspec_hist]), plus the related chain / flat states. *)
From Coq Require Import ZArith Lia ZifyN ZifyNat ZifyBool Permutation List.
From Pogreb Require Import Base BaseLemmas Crc Bytes Record RecordProofs Flat Index Spec DB DBInv
  DBLemmas DBProofsOps DBMeta DBProofsCompact DBProofsRecovery DBSim DBRun DBSimExact
  Bucket Phys PhysProofs PhysDB DBProofsCrash DBSimSessions PhysCrash PowerLoss PowerLoss2.
Import ListNotations.
Ltac Zify.zify_post_hook ::= Z.div_mod_to_equations.

Local Notation st1 := (@DB.st phys).
Local Notation stp := (@DB.st pindex).
Local Notation stf := (@DB.st flat).
Local Notation disk1 := (@DB.disk phys).
Local Notation diskp := (@DB.disk pindex).
Local Notation diskf := (@DB.disk flat).

(* ================================================================================================ *)
(** * 1. The power-loss model for any index implementation *)

Section GPL.
Context {I : Type}.
Variable ops : idx_ops I.
Local Notation gdisk := (@DB.disk I).
Local Notation gfsev := (@DB.fsev I).
Local Notation grun := (fold_left (apply_ev ops)).

Definition gdata_file (e : gfsev) : option fname :=
  match e with
  | EHeader f => Some f
  | EAppend id seq _ _ => Some (FSeg id seq)
  | ETrunc f _ => Some f
  | EIndex _ => Some FMain
  | EGobSeg id seq _ => Some (FSegMeta id seq)
  | EGobIndex _ => Some FIndexMeta
  | EGobDb _ => Some FDbMeta
  | _ => None
  end.

Definition gsync_file (e : gfsev) : option fname := match e with ESync f => Some f | _ => None end.

Definition gforget (e : gfsev) (L : fset) : fset :=
  match e with ERemove f => fdel f L | ERename f _ => fdel f L | _ => L end.

(* the rules of PowerLoss.pl, word for word *)
Inductive gpl : fset -> gdisk -> list gfsev -> fset -> gdisk -> Prop :=
| gpl_nil L d : gpl L d [] L d
| gpl_keep L d e es L' img :
    (forall f, gdata_file e = Some f -> L f = false) ->
    (forall f, gsync_file e = Some f -> L f = false) ->
    gpl (gforget e L) (apply_ev ops d e) es L' img ->
    gpl L d (e :: es) L' img
| gpl_drop L d e f es L' img :
    gdata_file e = Some f ->
    gpl (fadd f L) d es L' img ->
    gpl L d (e :: es) L' img
| gpl_tear L d id seq off r c es L' img :
    L (FSeg id seq) = false -> 0 < c -> c < rsize r ->
    gpl (fadd (FSeg id seq) L) (gtorn d id seq r c) es L' img ->
    gpl L d (EAppend id seq off r :: es) L' img.

Lemma gpl_app_inv es1 : forall L d es2 L' img,
  gpl L d (es1 ++ es2) L' img -> exists L1 d1, gpl L d es1 L1 d1 /\ gpl L1 d1 es2 L' img.
Proof.
  induction es1 as [|e es1 IH]; intros L d es2 L' img H.
  - exists L, d. split; [apply gpl_nil|exact H].
  - rewrite <- app_comm_cons in H.
    inversion H as [|L0 d0 e0 es0 L0' img0 H1 H2 H3|L0 d0 e0 f es0 L0' img0 H1 H3
                    |L0 d0 id seq off r c es0 L0' img0 H1 H2 H2' H3]; subst.
    + destruct (IH _ _ _ _ _ H3) as (L1 & d1 & A & B). exists L1, d1. split; [|exact B].
      apply gpl_keep; assumption.
    + destruct (IH _ _ _ _ _ H3) as (L1 & d1 & A & B). exists L1, d1. split; [|exact B].
      eapply gpl_drop; eassumption.
    + destruct (IH _ _ _ _ _ H3) as (L1 & d1 & A & B). exists L1, d1. split; [|exact B].
      eapply gpl_tear; eassumption.
Qed.

Lemma gpl_app es1 : forall L d es2 L1 d1 L' img,
  gpl L d es1 L1 d1 -> gpl L1 d1 es2 L' img -> gpl L d (es1 ++ es2) L' img.
Proof.
  intros L d es2 L1 d1 L' img H. revert es2 L' img.
  induction H as [L d|L d e es L1 d1 H1 H2 H3 IH|L d e f es L1 d1 H1 H3 IH
                  |L d id seq off r c es L1 d1 H1 H2 H2' H3 IH]; intros es2 L' img H'.
  - exact H'.
  - rewrite <- app_comm_cons. apply gpl_keep; [exact H1|exact H2|apply IH; exact H'].
  - rewrite <- app_comm_cons. eapply gpl_drop; [exact H1|apply IH; exact H'].
  - rewrite <- app_comm_cons. apply (gpl_tear _ _ _ _ _ _ c); [exact H1|exact H2|exact H2'|apply IH; exact H'].
Qed.

(* one choice Keep | Drop | Tear c per event (PowerLoss.pl_exec for any index) *)
Fixpoint gpl_exec (cs : list plc) (L : fset) (d : gdisk) (es : list gfsev) : option (fset * gdisk) :=
  match cs with
  | [] => match es with [] => Some (L, d) | _ :: _ => None end
  | c :: cs' =>
    match es with
    | [] => None
    | e :: es' =>
      match c with
      | Keep =>
          if match gdata_file e with Some f => L f | None => false end then None
          else if match gsync_file e with Some f => L f | None => false end then None
          else gpl_exec cs' (gforget e L) (apply_ev ops d e) es'
      | Drop =>
          match gdata_file e with
          | Some f => gpl_exec cs' (fadd f L) d es'
          | None => None
          end
      | Tear n =>
          match e with
          | EAppend id seq off r =>
              if L (FSeg id seq) then None
              else if negb ((0 <? n) && (n <? rsize r)) then None
              else gpl_exec cs' (fadd (FSeg id seq) L) (gtorn d id seq r n) es'
          | _ => None
          end
      end
    end
  end.

Lemma gpl_exec_sound cs : forall L d es L' img,
  gpl_exec cs L d es = Some (L', img) -> gpl L d es L' img.
Proof.
  induction cs as [|c cs IH]; intros L d es L' img H.
  - destruct es; [|discriminate H]. cbn [gpl_exec] in H. inversion H; subst. apply gpl_nil.
  - destruct es as [|e es]; [discriminate H|]. destruct c as [| |c].
    + cbn [gpl_exec] in H.
      destruct (match gdata_file e with Some f => L f | None => false end) eqn:E1; [discriminate|].
      destruct (match gsync_file e with Some f => L f | None => false end) eqn:E2; [discriminate|].
      apply gpl_keep; [| |apply IH; exact H].
      * intros f Hf. rewrite Hf in E1. exact E1.
      * intros f Hf. rewrite Hf in E2. exact E2.
    + cbn [gpl_exec] in H. destruct (gdata_file e) as [f|] eqn:E1; [|discriminate].
      eapply gpl_drop; [exact E1|apply IH; exact H].
    + destruct e as [f|f|id seq off r|i|id seq m|i|sd|f n|f g|f|f]; try discriminate H.
      cbn [gpl_exec] in H. destruct (L (FSeg id seq)) eqn:E1; [discriminate|].
      destruct ((0 <? c) && (c <? rsize r)) eqn:E2; [|discriminate]. cbn [negb] in H.
      apply andb_true_iff in E2. destruct E2 as [A B].
      apply (gpl_tear _ _ _ _ _ _ c); [exact E1|apply N.ltb_lt; exact A|apply N.ltb_lt; exact B|apply IH; exact H].
Qed.

Lemma gpl_exec_complete L d es L' img :
  gpl L d es L' img -> exists cs, gpl_exec cs L d es = Some (L', img).
Proof.
  induction 1 as [L d|L d e es L1 d1 H1 H2 H3 (cs & IH)|L d e f es L1 d1 H1 H3 (cs & IH)
                  |L d id seq off r c es L1 d1 H1 H2 H2' H3 (cs & IH)].
  - exists []. reflexivity.
  - exists (Keep :: cs). cbn [gpl_exec].
    assert (E1 : match gdata_file e with Some f => L f | None => false end = false).
    { destruct (gdata_file e) as [f|]; [apply H1; reflexivity|reflexivity]. }
    assert (E2 : match gsync_file e with Some f => L f | None => false end = false).
    { destruct (gsync_file e) as [f|]; [apply H2; reflexivity|reflexivity]. }
    rewrite E1, E2. exact IH.
  - exists (Drop :: cs). cbn [gpl_exec]. rewrite H1. exact IH.
  - exists (Tear c :: cs). cbn [gpl_exec]. rewrite H1.
    rewrite (proj2 (N.ltb_lt _ _) H2), (proj2 (N.ltb_lt _ _) H2'). cbn [andb negb]. exact IH.
Qed.

(* nothing is lost: the complete history is an admissible image *)
Lemma gpl_full es : forall L d, (forall f, L f = false) ->
  exists L', gpl L d es L' (grun es d) /\ forall f, L' f = false.
Proof.
  induction es as [|e es IH]; intros L d HL; [exists L; split; [apply gpl_nil|exact HL]|].
  destruct (IH (gforget e L) (apply_ev ops d e)) as (L' & H & HL').
  { intros f. destruct e; cbn [gforget]; try apply HL; unfold fdel; rewrite HL; apply andb_false_r. }
  exists L'. split; [|exact HL']. apply gpl_keep; [intros f _; apply HL|intros f _; apply HL|exact H].
Qed.

(* ---- chunked histories (PowerLoss2.chunk / plh for any index) ---- *)
Inductive gchunk := GCE (es : list gfsev) | GCT (id seq : N) (r : rec) (c : N).

Definition ghstep (d : gdisk) (k : gchunk) : gdisk :=
  match k with GCE es => grun es d | GCT id seq r c => gtorn d id seq r c end.
Definition ghrun (H : list gchunk) (d : gdisk) : gdisk := fold_left ghstep H d.

Inductive gplh : fset -> gdisk -> list gchunk -> fset -> gdisk -> Prop :=
| gplh_nil L d : gplh L d [] L d
| gplh_evs L d es L1 d1 H L' img' : gpl L d es L1 d1 -> gplh L1 d1 H L' img' -> gplh L d (GCE es :: H) L' img'
| gplh_tkeep L d id seq r c H L' img' :
    L (FSeg id seq) = false -> gplh L (gtorn d id seq r c) H L' img' -> gplh L d (GCT id seq r c :: H) L' img'
| gplh_tdrop L d id seq r c H L' img' :
    gplh (fadd (FSeg id seq) L) d H L' img' -> gplh L d (GCT id seq r c :: H) L' img'
| gplh_ttear L d id seq r c c' H L' img' :
    L (FSeg id seq) = false -> 0 < c' -> c' < c ->
    gplh (fadd (FSeg id seq) L) (gtorn d id seq r c') H L' img' -> gplh L d (GCT id seq r c :: H) L' img'.

End GPL.

(* ---- on the flat index these are PowerLoss.pl and PowerLoss2.plh ---- *)
Lemma gdata_file_flat (e : @fsev flat) : gdata_file e = data_file e.
Proof. reflexivity. Qed.
Lemma gsync_file_flat (e : @fsev flat) : gsync_file e = sync_file e.
Proof. reflexivity. Qed.
Lemma gforget_flat (e : @fsev flat) L : gforget e L = forget e L.
Proof. reflexivity. Qed.

Theorem gpl_flat L (d : diskf) es L' img : gpl flat_ops L d es L' img <-> pl L d es L' img.
Proof.
  split; intros H.
  - induction H as [L d|L d e es L1 d1 H1 H2 H3 IH|L d e f es L1 d1 H1 H3 IH
                    |L d id seq off r c es L1 d1 H1 H2 H2' H3 IH].
    + apply pl_nil.
    + apply pl_keep; [exact H1|exact H2|exact IH].
    + apply (pl_drop L d e f); [exact H1|exact IH].
    + apply (pl_tear _ _ _ _ _ _ c); [exact H1|exact H2|exact H2'|exact IH].
  - induction H as [L d|L d e es L1 d1 H1 H2 H3 IH|L d e f es L1 d1 H1 H3 IH
                    |L d id seq off r c es L1 d1 H1 H2 H2' H3 IH].
    + apply gpl_nil.
    + apply gpl_keep; [exact H1|exact H2|exact IH].
    + apply (gpl_drop flat_ops L d e f); [exact H1|exact IH].
    + apply (gpl_tear flat_ops _ _ _ _ _ _ c); [exact H1|exact H2|exact H2'|exact IH].
Qed.

Lemma gpl_exec_flat cs : forall L (d : diskf) es, gpl_exec flat_ops cs L d es = pl_exec cs L d es.
Proof.
  induction cs as [|c cs IH]; intros L d es; [reflexivity|].
  destruct es as [|e es]; [reflexivity|]. destruct c as [| |n]; cbn [gpl_exec pl_exec].
  - rewrite IH. reflexivity.
  - rewrite gdata_file_flat. destruct (data_file e); [apply IH|reflexivity].
  - destruct e; try reflexivity; rewrite IH; reflexivity.
Qed.

Definition gch (k : chunk) : @gchunk flat :=
  match k with CE es => GCE es | CT id seq r c => GCT id seq r c end.

Theorem gplh_flat L (d : diskf) H L' img : gplh flat_ops L d (map gch H) L' img <-> plh L d H L' img.
Proof.
  split.
  - revert L d. induction H as [|k H IH]; intros L d Hp.
    + inversion Hp; subst. apply plh_nil.
    + destruct k as [es|id seq r c]; cbn [map gch] in Hp.
      * inversion Hp as [|L0 d0 es0 L1 d1 H0 L0' img0 A B| | |]; subst.
        apply (plh_evs L d es L1 d1); [apply gpl_flat; exact A|apply IH; exact B].
      * inversion Hp as [| |L0 d0 id0 seq0 r0 c0 H0 L0' img0 A B|L0 d0 id0 seq0 r0 c0 H0 L0' img0 B
                         |L0 d0 id0 seq0 r0 c0 c' H0 L0' img0 A A1 A2 B]; subst.
        -- apply plh_tkeep; [exact A|apply IH; exact B].
        -- apply plh_tdrop. apply IH. exact B.
        -- apply (plh_ttear _ _ _ _ _ _ c'); [exact A|exact A1|exact A2|apply IH; exact B].
  - intros Hp. induction Hp as [L d|L d es L1 d1 H L' img' A B IH|L d id seq r c H L' img' A B IH
                                |L d id seq r c H L' img' B IH|L d id seq r c c' H L' img' A A1 A2 B IH];
      cbn [map gch].
    + apply gplh_nil.
    + apply (gplh_evs flat_ops L d es L1 d1); [apply gpl_flat; exact A|exact IH].
    + apply gplh_tkeep; [exact A|exact IH].
    + apply gplh_tdrop. exact IH.
    + apply (gplh_ttear flat_ops _ _ _ _ _ _ c'); [exact A|exact A1|exact A2|exact IH].
Qed.

(* ================================================================================================ *)
(** * 2. Related disks, related histories: related power-loss images, in both directions *)

Section PLRel.
Context {I1 I2 : Type}.
Variable ops1 : idx_ops I1.
Variable ops2 : idx_ops I2.
Variable R : I1 -> I2 -> Prop.
Hypothesis RE : R (ix_empty ops1) (ix_empty ops2).

Lemma gdata_file_rel e1 e2 : gev_rel R e1 e2 -> gdata_file e1 = gdata_file e2.
Proof. intros H. destruct H; reflexivity. Qed.
Lemma gsync_file_rel e1 e2 : gev_rel R e1 e2 -> gsync_file e1 = gsync_file e2.
Proof. intros H. destruct H; reflexivity. Qed.
Lemma gforget_rel e1 e2 L : gev_rel R e1 e2 -> gforget e1 L = gforget e2 L.
Proof. intros H. destruct H; reflexivity. Qed.

(* the result of a choice list: the same set of files that lost a write, related images *)
Definition pimg_rel (a : fset * @DB.disk I1) (b : fset * @DB.disk I2) : Prop :=
  fst a = fst b /\ gdisk_rel R (snd a) (snd b).

(* THE SAME CHOICES (which writes are kept, dropped, cut where) are admissible on both sides and give
   related images.  An index-file event (EIndex: main.pix/overflow.pix, EGobIndex: index.pmt) carries
   R-related index values on the two sides; it is kept on both sides or dropped on both sides, so the
   index content of the two images is the pair of related written values, or the pair of earlier ones. *)
Theorem pl_exec_g cs : forall es1 es2, Forall2 (gev_rel R) es1 es2 -> forall L d1 d2,
  gdisk_rel R d1 d2 ->
  opt_rel pimg_rel (gpl_exec ops1 cs L d1 es1) (gpl_exec ops2 cs L d2 es2).
Proof.
  induction cs as [|c cs IH]; intros es1 es2 Hes L d1 d2 Hd.
  - destruct Hes; cbn [gpl_exec]; constructor. split; [reflexivity|exact Hd].
  - destruct Hes as [|e1 e2 es1 es2 He Hes]; [cbn [gpl_exec]; constructor|].
    destruct c as [| |n]; cbn [gpl_exec].
    + rewrite (gdata_file_rel _ _ He), (gsync_file_rel _ _ He), (gforget_rel _ _ L He).
      destruct (match gdata_file e2 with Some f => L f | None => false end); [constructor|].
      destruct (match gsync_file e2 with Some f => L f | None => false end); [constructor|].
      apply IH; [exact Hes|]. apply (apply_ev_rel R ops1 ops2 RE); assumption.
    + rewrite (gdata_file_rel _ _ He). destruct (gdata_file e2); [|constructor].
      apply IH; assumption.
    + destruct He; try constructor.
      destruct (L (FSeg id seq)); [constructor|].
      destruct (negb ((0 <? n) && (n <? rsize r))); [constructor|].
      apply IH; [exact Hes|]. apply (gtorn_g R). exact Hd.
Qed.

Theorem pl_image_g d1 d2 es1 es2 L :
  gdisk_rel R d1 d2 -> Forall2 (gev_rel R) es1 es2 ->
  (forall L' img1, gpl ops1 L d1 es1 L' img1 ->
     exists img2, gpl ops2 L d2 es2 L' img2 /\ gdisk_rel R img1 img2) /\
  (forall L' img2, gpl ops2 L d2 es2 L' img2 ->
     exists img1, gpl ops1 L d1 es1 L' img1 /\ gdisk_rel R img1 img2).
Proof.
  intros Hd Hes. split.
  - intros L' img1 H. destruct (gpl_exec_complete ops1 _ _ _ _ _ H) as (cs & E).
    pose proof (pl_exec_g cs es1 es2 Hes L d1 d2 Hd) as Hr. rewrite E in Hr.
    inversion Hr as [|a b [Hab1 Hab2] Ea Eb]; subst. destruct b as [Lb img2]. cbn [fst snd] in Hab1, Hab2. subst Lb.
    exists img2. split; [|exact Hab2]. apply (gpl_exec_sound ops2 cs). symmetry. exact Eb.
  - intros L' img2 H. destruct (gpl_exec_complete ops2 _ _ _ _ _ H) as (cs & E).
    pose proof (pl_exec_g cs es1 es2 Hes L d1 d2 Hd) as Hr. rewrite E in Hr.
    inversion Hr as [|a b [Hab1 Hab2] Ea Eb]; subst. destruct a as [La img1]. cbn [fst snd] in Hab1, Hab2. subst La.
    exists img1. split; [|exact Hab2]. apply (gpl_exec_sound ops1 cs). symmetry. exact Ea.
Qed.

(* chunked histories *)
Inductive gch_rel : @gchunk I1 -> @gchunk I2 -> Prop :=
| chr_evs es1 es2 : Forall2 (gev_rel R) es1 es2 -> gch_rel (GCE es1) (GCE es2)
| chr_torn id seq r c : gch_rel (GCT id seq r c) (GCT id seq r c).

Lemma ghrun_g H1 H2 : Forall2 gch_rel H1 H2 -> forall d1 d2, gdisk_rel R d1 d2 ->
  gdisk_rel R (ghrun ops1 H1 d1) (ghrun ops2 H2 d2).
Proof.
  unfold ghrun. induction 1 as [|k1 k2 H1 H2 Hk HH IH]; intros d1 d2 Hd; cbn [fold_left]; [exact Hd|].
  apply IH. destruct Hk as [es1 es2 Hes|id seq r c]; cbn [ghstep].
  - revert d1 d2 Hd. induction Hes as [|e1 e2 es1 es2 He Hes IHe]; intros d1 d2 Hd; cbn [fold_left]; [exact Hd|].
    apply IHe. apply (apply_ev_rel R ops1 ops2 RE); assumption.
  - apply (gtorn_g R). exact Hd.
Qed.

Theorem plh_image_fwd H1 H2 : Forall2 gch_rel H1 H2 -> forall L d1 d2 L' img1,
  gdisk_rel R d1 d2 -> gplh ops1 L d1 H1 L' img1 ->
  exists img2, gplh ops2 L d2 H2 L' img2 /\ gdisk_rel R img1 img2.
Proof.
  induction 1 as [|k1 k2 H1 H2 Hk HH IH]; intros L d1 d2 L' img1 Hd Hp.
  - inversion Hp; subst. exists d2. split; [apply gplh_nil|exact Hd].
  - destruct Hk as [es1 es2 Hes|id seq r c].
    + inversion Hp as [|L0 d0 es0 L1 x1 H0 L0' img0 A B| | |]; subst.
      destruct (proj1 (pl_image_g d1 d2 es1 es2 L Hd Hes) L1 x1 A) as (x2 & A2 & Hx).
      destruct (IH L1 x1 x2 L' img1 Hx B) as (img2 & B2 & Hi).
      exists img2. split; [apply (gplh_evs ops2 L d2 es2 L1 x2); assumption|exact Hi].
    + inversion Hp as [| |L0 d0 id0 seq0 r0 c0 H0 L0' img0 A B|L0 d0 id0 seq0 r0 c0 H0 L0' img0 B
                       |L0 d0 id0 seq0 r0 c0 c' H0 L0' img0 A A1 A2 B]; subst.
      * destruct (IH L _ _ L' img1 (gtorn_g R d1 d2 id seq r c Hd) B) as (img2 & B2 & Hi).
        exists img2. split; [apply gplh_tkeep; assumption|exact Hi].
      * destruct (IH _ _ _ L' img1 Hd B) as (img2 & B2 & Hi).
        exists img2. split; [apply gplh_tdrop; assumption|exact Hi].
      * destruct (IH _ _ _ L' img1 (gtorn_g R d1 d2 id seq r c' Hd) B) as (img2 & B2 & Hi).
        exists img2. split; [apply (gplh_ttear ops2 _ _ _ _ _ _ c'); assumption|exact Hi].
Qed.

Theorem plh_image_bwd H1 H2 : Forall2 gch_rel H1 H2 -> forall L d1 d2 L' img2,
  gdisk_rel R d1 d2 -> gplh ops2 L d2 H2 L' img2 ->
  exists img1, gplh ops1 L d1 H1 L' img1 /\ gdisk_rel R img1 img2.
Proof.
  induction 1 as [|k1 k2 H1 H2 Hk HH IH]; intros L d1 d2 L' img2 Hd Hp.
  - inversion Hp; subst. exists d1. split; [apply gplh_nil|exact Hd].
  - destruct Hk as [es1 es2 Hes|id seq r c].
    + inversion Hp as [|L0 d0 es0 L1 x2 H0 L0' img0 A B| | |]; subst.
      destruct (proj2 (pl_image_g d1 d2 es1 es2 L Hd Hes) L1 x2 A) as (x1 & A1 & Hx).
      destruct (IH L1 x1 x2 L' img2 Hx B) as (img1 & B1 & Hi).
      exists img1. split; [apply (gplh_evs ops1 L d1 es1 L1 x1); assumption|exact Hi].
    + inversion Hp as [| |L0 d0 id0 seq0 r0 c0 H0 L0' img0 A B|L0 d0 id0 seq0 r0 c0 H0 L0' img0 B
                       |L0 d0 id0 seq0 r0 c0 c' H0 L0' img0 A A1 A2 B]; subst.
      * destruct (IH L _ _ L' img2 (gtorn_g R d1 d2 id seq r c Hd) B) as (img1 & B1 & Hi).
        exists img1. split; [apply gplh_tkeep; assumption|exact Hi].
      * destruct (IH _ _ _ L' img2 Hd B) as (img1 & B1 & Hi).
        exists img1. split; [apply gplh_tdrop; assumption|exact Hi].
      * destruct (IH _ _ _ L' img2 (gtorn_g R d1 d2 id seq r c' Hd) B) as (img1 & B1 & Hi).
        exists img1. split; [apply (gplh_ttear ops1 _ _ _ _ _ _ c'); assumption|exact Hi].
Qed.

End PLRel.

(* ================================================================================================ *)
(** * 3. The three layers: phys --PR--> chain --idx_rel--> flat *)

Theorem chain_pl_image (dp : diskp) (df : diskf) tp tf L :
  disk_rel dp df -> Forall2 ev_rel tp tf ->
  (forall L' imgp, gpl chain_ops L dp tp L' imgp -> exists imgf, pl L df tf L' imgf /\ disk_rel imgp imgf) /\
  (forall L' imgf, pl L df tf L' imgf -> exists imgp, gpl chain_ops L dp tp L' imgp /\ disk_rel imgp imgf).
Proof.
  intros Hd Ht. destruct (pl_image_g chain_ops flat_ops idx_rel idx_rel_empty dp df tp tf L Hd Ht) as [A B].
  split.
  - intros L' imgp H. destruct (A L' imgp H) as (imgf & H1 & H2). exists imgf. split; [apply gpl_flat; exact H1|exact H2].
  - intros L' imgf H. apply gpl_flat in H. exact (B L' imgf H).
Qed.

Theorem phys_pl_image_chain (d1 : disk1) (dp : diskp) t1 tp L :
  gdisk_rel PR d1 dp -> Forall2 (gev_rel PR) t1 tp ->
  (forall L' img1, gpl phys_ops L d1 t1 L' img1 ->
     exists imgp, gpl chain_ops L dp tp L' imgp /\ gdisk_rel PR img1 imgp) /\
  (forall L' imgp, gpl chain_ops L dp tp L' imgp ->
     exists img1, gpl phys_ops L d1 t1 L' img1 /\ gdisk_rel PR img1 imgp).
Proof. intros Hd Ht. exact (pl_image_g phys_ops chain_ops PR PR_empty d1 dp t1 tp L Hd Ht). Qed.

(* every admissible power-loss image of the phys history has a PR-related admissible image of the
   chain history and a disk_rel-related admissible image ([pl] of PowerLoss.v) of the flat history with
   the SAME set L' of files that lost a write; and conversely *)
Theorem phys_pl_image (d1 : disk1) (dp : diskp) (df : diskf) t1 tp tf L :
  gdisk_rel PR d1 dp -> disk_rel dp df -> Forall2 (gev_rel PR) t1 tp -> Forall2 ev_rel tp tf ->
  (forall L' img1, gpl phys_ops L d1 t1 L' img1 ->
     exists imgp imgf, gpl chain_ops L dp tp L' imgp /\ pl L df tf L' imgf /\
                       gdisk_rel PR img1 imgp /\ disk_rel imgp imgf) /\
  (forall L' imgf, pl L df tf L' imgf ->
     exists img1 imgp, gpl phys_ops L d1 t1 L' img1 /\ gpl chain_ops L dp tp L' imgp /\
                       gdisk_rel PR img1 imgp /\ disk_rel imgp imgf).
Proof.
  intros H1 Hd Ht1 Ht.
  destruct (phys_pl_image_chain d1 dp t1 tp L H1 Ht1) as [A1 B1].
  destruct (chain_pl_image dp df tp tf L Hd Ht) as [A2 B2].
  split.
  - intros L' img1 H. destruct (A1 L' img1 H) as (imgp & Hp & Hr1). destruct (A2 L' imgp Hp) as (imgf & Hf & Hr2).
    exists imgp, imgf. split; [exact Hp|]. split; [exact Hf|]. split; [exact Hr1|exact Hr2].
  - intros L' imgf H. destruct (B2 L' imgf H) as (imgp & Hp & Hr2). destruct (B1 L' imgp Hp) as (img1 & H1' & Hr1).
    exists img1, imgp. split; [exact H1'|]. split; [exact Hp|]. split; [exact Hr1|exact Hr2].
Qed.

(* whatever the file system kept: the index files of a phys image hold values with the physical
   invariant (each is one of the written values, or the earlier one) *)
Corollary phys_pl_image_inv (d1 : disk1) (dp : diskp) t1 tp L L' img1 :
  gdisk_rel PR d1 dp -> Forall2 (gev_rel PR) t1 tp -> gpl phys_ops L d1 t1 L' img1 -> phys_disk_ok img1.
Proof.
  intros Hd Ht H. destruct (proj1 (phys_pl_image_chain d1 dp t1 tp L Hd Ht) L' img1 H) as (imgp & _ & Hr).
  exact (PR_disk_ok img1 imgp Hr).
Qed.

(* chunked histories, three layers *)
Definition gch1 := gch_rel (I1 := phys) (I2 := pindex) PR.
Definition gchp := gch_rel (I1 := pindex) (I2 := flat) idx_rel.

Theorem phys_plh_image (d1 : disk1) (dp : diskp) (df : diskf) H1 Hp Hf L :
  gdisk_rel PR d1 dp -> disk_rel dp df -> Forall2 gch1 H1 Hp -> Forall2 gchp Hp (map gch Hf) ->
  (forall L' img1, gplh phys_ops L d1 H1 L' img1 ->
     exists imgp imgf, gplh chain_ops L dp Hp L' imgp /\ plh L df Hf L' imgf /\
                       gdisk_rel PR img1 imgp /\ disk_rel imgp imgf) /\
  (forall L' imgf, plh L df Hf L' imgf ->
     exists img1 imgp, gplh phys_ops L d1 H1 L' img1 /\ gplh chain_ops L dp Hp L' imgp /\
                       gdisk_rel PR img1 imgp /\ disk_rel imgp imgf).
Proof.
  intros Hd1 Hd HH1 HHp. split.
  - intros L' img1 H.
    destruct (plh_image_fwd phys_ops chain_ops PR PR_empty H1 Hp HH1 L d1 dp L' img1 Hd1 H) as (imgp & A & Hr1).
    destruct (plh_image_fwd chain_ops flat_ops idx_rel idx_rel_empty Hp _ HHp L dp df L' imgp Hd A) as (imgf & B & Hr2).
    exists imgp, imgf. split; [exact A|]. split; [apply gplh_flat; exact B|]. split; [exact Hr1|exact Hr2].
  - intros L' imgf H. apply gplh_flat in H.
    destruct (plh_image_bwd chain_ops flat_ops idx_rel idx_rel_empty Hp _ HHp L dp df L' imgf Hd H) as (imgp & A & Hr2).
    destruct (plh_image_bwd phys_ops chain_ops PR PR_empty H1 Hp HH1 L d1 dp L' imgp Hd1 A) as (img1 & B & Hr1).
    exists img1, imgp. split; [exact B|]. split; [exact A|]. split; [exact Hr1|exact Hr2].
Qed.

(* ================================================================================================ *)
(** * 4. Generic facts about traces and index files *)

Section Ext.
Context {I : Type}.
Variable ops : idx_ops I.
Local Notation gst := (@DB.st I).
Local Notation gdisk := (@DB.disk I).
Local Notation gfsev := (@DB.fsev I).
Local Notation grun := (fold_left (apply_ev ops)).

(* "the disk changes only through emit": [s'] is [s] after some more events *)
Definition ext (s s' : gst) : Prop :=
  exists es, s_trace s' = s_trace s ++ es /\ s_disk s' = grun es (s_disk s).

Lemma ext_refl s : ext s s.
Proof. exists []. rewrite app_nil_r. split; reflexivity. Qed.
Lemma ext_eq s s' : s_trace s' = s_trace s -> s_disk s' = s_disk s -> ext s s'.
Proof. intros A B. exists []. rewrite app_nil_r. split; assumption. Qed.
Lemma ext_trans a b c : ext a b -> ext b c -> ext a c.
Proof.
  intros (e1 & T1 & D1) (e2 & T2 & D2). exists (e1 ++ e2).
  split; [rewrite T2, T1, app_assoc; reflexivity|rewrite D2, D1, fold_left_app; reflexivity].
Qed.
Lemma ext_emit e s : ext s (emit ops e s).
Proof. exists [e]. split; reflexivity. Qed.
Lemma ext_emits es : forall s, ext s (emits ops es s).
Proof.
  unfold emits. induction es as [|e es IH]; intros s; cbn [fold_left]; [apply ext_refl|].
  eapply ext_trans; [apply ext_emit|apply IH].
Qed.
Lemma ext_with_mem m s : ext s (with_mem m s).
Proof. apply ext_eq; reflexivity. Qed.
Lemma ext_fold {A} (f : gst -> A -> gst) (l : list A) :
  (forall s a, ext s (f s a)) -> forall s, ext s (fold_left f l s).
Proof.
  intros Hf. induction l as [|a l IH]; intros s; cbn [fold_left]; [apply ext_refl|].
  eapply ext_trans; [apply Hf|apply IH].
Qed.

Lemma ext_seal id s m : ext s (fst (seal ops id s m)).
Proof.
  unfold seal. destruct (find_mseg id (m_segs m)) as [g|]; [|apply ext_refl].
  destruct (sm_full (g_meta g)); cbn [fst]; [apply ext_refl|apply ext_emit].
Qed.
Lemma ext_swap s m : ext s (fst (swap_segment ops s m)).
Proof.
  unfold swap_segment. destruct (find _ (m_segs m)); cbn [fst]; [apply ext_refl|apply ext_emits].
Qed.
Lemma ext_prelude P r s m : ext s (fst (gprelude ops P r s m)).
Proof.
  unfold gprelude.
  destruct (match cur_seg m with None => true | Some g => sm_full (g_meta g) || (p_maxseg P <? g_size g + rsize r) end);
    [|apply ext_refl].
  destruct (cur_seg m) as [g|].
  - pose proof (ext_seal (g_id g) s m) as H1. destruct (seal ops (g_id g) s m) as [s0 m0]. cbn [fst] in H1.
    eapply ext_trans; [exact H1|apply ext_swap].
  - apply ext_swap.
Qed.
Lemma ext_write_record P r s m s' m' id off :
  write_record ops P r s m = Some (s', m', id, off) -> ext s s'.
Proof.
  rewrite write_record_g. pose proof (ext_prelude P r s m) as H1.
  destruct (gprelude ops P r s m) as [s1 m1]. cbn [fst] in H1. unfold gtail.
  destruct (cur_seg m1) as [g|]; [|discriminate]. destruct (find_dseg (g_id g) (s_disk s1)) as [f|]; [|discriminate].
  destruct (negb ((f_seq f =? g_seq g) && (flen f =? g_size g))); [discriminate|].
  intros E. injection E as <- _ _ _. eapply ext_trans; [exact H1|apply ext_emit].
Qed.
Lemma ext_do_sync s m : ext s (do_sync ops s m).
Proof. unfold do_sync. destruct (cur_seg m); [apply ext_emit|apply ext_refl]. Qed.
Lemma ext_finish P s m : ext s (fst (finish ops P s m)).
Proof.
  unfold finish. cbn [fst]. eapply ext_trans; [|apply ext_with_mem].
  destruct (p_sync P); [apply ext_do_sync|apply ext_refl].
Qed.

Lemma ext_put P k v s : ext s (fst (db_put ops P k v s)).
Proof.
  unfold db_put. destruct (s_mem s) as [m|]; [|apply ext_refl].
  destruct (max_key_len <? nlen k); [apply ext_refl|]. destruct (max_val_len <? nlen v); [apply ext_refl|].
  destruct (write_record ops P (mkput k v) s m) as [[[[s1 m1] id] off]|] eqn:Ew; [|apply ext_refl].
  destruct (ix_put ops (p_grow P) (m_idx m1) _ (matchf (s_disk s1) k)) as [i2 old].
  eapply ext_trans; [exact (ext_write_record _ _ _ _ _ _ _ _ Ew)|].
  eapply ext_trans; [apply (ext_emit (EIndex i2))|apply ext_finish].
Qed.
Lemma ext_delete P k s : ext s (fst (db_delete ops P k s)).
Proof.
  unfold db_delete. destruct (s_mem s) as [m|]; [|apply ext_refl].
  destruct (ix_del ops (m_idx m) _ (matchf (s_disk s) k)) as [i1 old].
  destruct old as [o|]; [|apply ext_finish].
  destruct (write_record ops P (mkdel k) s (track_del o m)) as [[[[s1 m1] id] off]|] eqn:Ew; [|apply ext_refl].
  eapply ext_trans; [exact (ext_write_record _ _ _ _ _ _ _ _ Ew)|].
  eapply ext_trans; [apply (ext_emit (EIndex i1))|apply ext_finish].
Qed.
Lemma ext_sync s : ext s (fst (db_sync ops s)).
Proof. unfold db_sync. destruct (s_mem s); cbn [fst]; [apply ext_do_sync|apply ext_refl]. Qed.

Lemma ext_pick P s s' c : compact_pick ops P s = Some (s', c) -> ext s s'.
Proof.
  unfold compact_pick. destruct (s_mem s) as [m|]; [|discriminate].
  assert (H : forall l (sm : gst * @DB.mem I),
            ext (fst sm) (fst (fold_left (fun sm g => seal ops (g_id g) (fst sm) (snd sm)) l sm))).
  { induction l as [|g l IH]; intros sm; cbn [fold_left]; [apply ext_refl|].
    eapply ext_trans; [apply (ext_seal (g_id g) (fst sm) (snd sm))|apply IH]. }
  specialize (H (pick P m) (s, m)). cbn [fst] in H.
  destruct (fold_left _ (pick P m) (s, m)) as [s1 m1]. cbn [fst] in H.
  intros E. injection E as <- _. eapply ext_trans; [exact H|apply ext_with_mem].
Qed.
Lemma ext_remove_segment id seq s m : ext s (remove_segment ops id seq s m).
Proof.
  unfold remove_segment. eapply ext_trans; [apply (ext_do_sync s m)|].
  eapply ext_trans; [|apply ext_with_mem].
  destruct (exists_file (s_disk (do_sync ops s m)) (FSegMeta id seq)).
  - eapply ext_trans; apply ext_emit.
  - apply ext_emit.
Qed.
Lemma ext_cstep P s c s' c' : compact_step ops P s c = CMore s' c' -> ext s s'.
Proof.
  unfold compact_step. destruct (s_mem s) as [m|]; [|discriminate].
  destruct (c_src c) as [[[id seq] off]|].
  - destruct (find_dseg id (s_disk s)) as [f|]; [|discriminate].
    destruct (rec_at off (seg_entries f)) as [r|].
    + destruct (rdel r); [intros E; injection E as <- _; apply ext_refl|].
      destruct (ix_repoint ops (m_idx m) _ id (u32 off) id (u32 off)); [|intros E; injection E as <- _; apply ext_refl].
      destruct (write_record ops P r s m) as [[[[s1 m1] nid] noff]|] eqn:Ew; [|discriminate].
      destruct (ix_repoint ops (m_idx m1) _ id (u32 off) nid noff) as [i2|]; [|discriminate].
      intros E. injection E as <- _. eapply ext_trans; [exact (ext_write_record _ _ _ _ _ _ _ _ Ew)|].
      eapply ext_trans; [apply (ext_emit (EIndex i2))|apply ext_with_mem].
    + destruct (negb ((flen f =? off) && (f_seq f =? seq))); [discriminate|].
      intros E. injection E as <- _. apply ext_remove_segment.
  - destruct (c_todo c) as [|[id seq] todo]; [discriminate|].
    intros E. injection E as <- _. apply ext_with_mem.
Qed.
Lemma cstep_done_inv P s c : compact_step ops P s c = CDone -> s_mem s <> None /\ c_src c = None /\ c_todo c = [].
Proof.
  unfold compact_step. destruct (s_mem s) as [m|]; [|discriminate].
  destruct (c_src c) as [[[id seq] off]|].
  - destruct (find_dseg id (s_disk s)) as [f|]; [|discriminate].
    destruct (rec_at off (seg_entries f)) as [r|].
    + destruct (rdel r); [discriminate|].
      destruct (ix_repoint ops (m_idx m) _ id (u32 off) id (u32 off)); [|discriminate].
      destruct (write_record ops P r s m) as [[[[s1 m1] nid] noff]|]; [|discriminate].
      destruct (ix_repoint ops (m_idx m1) _ id (u32 off) nid noff); discriminate.
    + destruct (negb ((flen f =? off) && (f_seq f =? seq))); discriminate.
  - destruct (c_todo c) as [|[id seq] todo]; [|discriminate].
    intros _. split; [discriminate|]. split; reflexivity.
Qed.
Lemma cstep_done_intro P s c : s_mem s <> None -> c_src c = None -> c_todo c = [] -> compact_step ops P s c = CDone.
Proof.
  intros Hm E1 E2. unfold compact_step. destruct (s_mem s); [|congruence]. rewrite E1, E2. reflexivity.
Qed.

Lemma ext_gob_write f b s : ext s (gob_write ops f b s).
Proof.
  unfold gob_write. eapply ext_trans; [|apply ext_emits].
  destruct (exists_file (s_disk s) f); apply ext_emit.
Qed.
Lemma ext_close s : ext s (fst (db_close ops s)).
Proof.
  unfold db_close. destruct (s_mem s) as [m|]; [|apply ext_refl]. cbn [fst].
  eapply ext_trans; [|apply ext_eq; reflexivity].
  eapply ext_trans; [|apply ext_emits].
  eapply ext_trans; [|apply ext_gob_write].
  eapply ext_trans; [apply ext_gob_write|].
  apply ext_fold. intros s0 g. eapply ext_trans; [apply ext_emit|apply ext_gob_write].
Qed.

Lemma ext_clear s s' : ext (clear_trace s) s' -> s_disk s' = grun (s_trace s') (s_disk s).
Proof. intros (es & T & D). cbn [clear_trace s_trace s_disk app] in T, D. rewrite T. exact D. Qed.

(* ---- what an image has in common with the real disk on the two index files ---- *)
Definition idx_agree (L : fset) (d img : gdisk) : Prop :=
  (L FMain = false -> d_index img = d_index d) /\ (L FIndexMeta = false -> d_imeta img = d_imeta d).

Lemma d_index_file_removed f (d : gdisk) :
  d_index (file_removed f d) = match f with FMain => None | _ => d_index d end.
Proof. destruct f; reflexivity. Qed.
Lemma d_imeta_file_removed f (d : gdisk) :
  d_imeta (file_removed f d) = match f with FIndexMeta => GAbsent | _ => d_imeta d end.
Proof. destruct f; reflexivity. Qed.

(* the content of main.pix / index.pmt after an event is a function of the event and of the content before *)
Lemma d_index_apply_ev e (d d' : gdisk) : d_index d = d_index d' -> d_index (apply_ev ops d e) = d_index (apply_ev ops d' e).
Proof.
  intros H. destruct e as [f|f|id seq off r|i|id seq m|i|sd|f n|f g|f|f]; try exact H; try reflexivity.
  - destruct f; try exact H; reflexivity.
  - destruct f; exact H.
  - destruct f; exact H.
  - cbn [apply_ev set_bac d_index]. rewrite !d_index_file_removed. destruct f; try exact H; reflexivity.
  - cbn [apply_ev]. rewrite !d_index_file_removed. destruct f; try exact H; reflexivity.
Qed.
Lemma d_imeta_apply_ev e (d d' : gdisk) : d_imeta d = d_imeta d' -> d_imeta (apply_ev ops d e) = d_imeta (apply_ev ops d' e).
Proof.
  intros H. destruct e as [f|f|id seq off r|i|id seq m|i|sd|f n|f g|f|f]; try exact H; try reflexivity.
  - destruct f; try exact H; reflexivity.
  - destruct f; exact H.
  - destruct f; try exact H; reflexivity.
  - cbn [apply_ev set_bac d_imeta]. rewrite !d_imeta_file_removed. destruct f; try exact H; reflexivity.
  - cbn [apply_ev]. rewrite !d_imeta_file_removed. destruct f; try exact H; reflexivity.
Qed.
(* a data event of another file does not change them *)
Lemma d_index_data e f (d : gdisk) : gdata_file e = Some f -> f <> FMain -> d_index (apply_ev ops d e) = d_index d.
Proof.
  intros E Hf. destruct e as [g|g|id seq off r|i|id seq m|i|sd|g n|g h|g|g]; try discriminate E; try reflexivity.
  - destruct g; reflexivity.
  - cbn [gdata_file] in E. congruence.
  - destruct g; reflexivity.
Qed.
Lemma d_imeta_data e f (d : gdisk) : gdata_file e = Some f -> f <> FIndexMeta -> d_imeta (apply_ev ops d e) = d_imeta d.
Proof.
  intros E Hf. destruct e as [g|g|id seq off r|i|id seq m|i|sd|g n|g h|g|g]; try discriminate E; try reflexivity.
  - destruct g; reflexivity.
  - cbn [gdata_file] in E. congruence.
  - cbn [gdata_file] in E. destruct g; try reflexivity. congruence.
Qed.
(* an event that makes a name forget its loss removes the file *)
Lemma gforget_gone e L f : L f = true -> gforget e L f = false ->
  forall d : gdisk, (f = FMain -> d_index (apply_ev ops d e) = None) /\
                    (f = FIndexMeta -> d_imeta (apply_ev ops d e) = GAbsent).
Proof.
  intros HL Hf d.
  assert (Hx : forall g, fdel g L f = false -> g = f).
  { intros g H. unfold fdel in H. rewrite HL, andb_true_r in H. apply negb_false_iff in H.
    apply rc_fname_eqb_spec in H. congruence. }
  destruct e as [g|g|id seq off r|i|id seq m|i|sd|g n|g h|g|g]; cbn [gforget] in Hf; try congruence.
  - apply Hx in Hf. subst g. split; intros ->; cbn [apply_ev set_bac d_index d_imeta];
      [rewrite d_index_file_removed|rewrite d_imeta_file_removed]; reflexivity.
  - apply Hx in Hf. subst g. split; intros ->; cbn [apply_ev];
      [rewrite d_index_file_removed|rewrite d_imeta_file_removed]; reflexivity.
Qed.

Theorem gpl_idx_agree L img es L' img' :
  gpl ops L img es L' img' -> forall d, idx_agree L d img -> idx_agree L' (grun es d) img'.
Proof.
  induction 1 as [L d0|L d0 e es L1 d1 H1 H2 H3 IH|L d0 e f es L1 d1 H1 H3 IH
                  |L d0 id seq off r c es L1 d1 H1 H2 H2' H3 IH]; intros d [A B]; cbn [fold_left].
  - split; assumption.
  - apply IH. split; intros Hf.
    + destruct (L FMain) eqn:El.
      * destruct (gforget_gone e L FMain El Hf d0) as [X _]. destruct (gforget_gone e L FMain El Hf d) as [Y _].
        rewrite (X eq_refl), (Y eq_refl). reflexivity.
      * apply d_index_apply_ev. apply A. reflexivity.
    + destruct (L FIndexMeta) eqn:El.
      * destruct (gforget_gone e L FIndexMeta El Hf d0) as [_ X]. destruct (gforget_gone e L FIndexMeta El Hf d) as [_ Y].
        rewrite (X eq_refl), (Y eq_refl). reflexivity.
      * apply d_imeta_apply_ev. apply B. reflexivity.
  - apply IH. split; intros Hf.
    + assert (Hn : f <> FMain) by (intros ->; rewrite fadd_same in Hf; discriminate).
      rewrite (d_index_data e f d H1 Hn). apply A. exact (fadd_false _ _ _ Hf).
    + assert (Hn : f <> FIndexMeta) by (intros ->; rewrite fadd_same in Hf; discriminate).
      rewrite (d_imeta_data e f d H1 Hn). apply B. exact (fadd_false _ _ _ Hf).
  - apply IH. split; intros Hf.
    + change (d_index (gtorn d0 id seq r c)) with (d_index d0).
      change (d_index (apply_ev ops d (EAppend id seq off r))) with (d_index d). apply A. exact (fadd_false _ _ _ Hf).
    + change (d_imeta (gtorn d0 id seq r c)) with (d_imeta d0).
      change (d_imeta (apply_ev ops d (EAppend id seq off r))) with (d_imeta d). apply B. exact (fadd_false _ _ _ Hf).
Qed.

End Ext.

(* ---- what [gpl] does to main.pix: every event that touches it SETS its content (creation: the empty
        index; EIndex i: i; removal / rename: gone), so the content found in an image is the one the
        power-loss-free disk had at SOME instant of the history: one of the written values, or the
        earlier one ---- *)
Section IdxHist.
Context {I : Type}.
Variable ops : idx_ops I.

Fixpoint idx_hist (d : @DB.disk I) (es : list (@fsev I)) : list (option I) :=
  match es with
  | [] => []
  | e :: es' => d_index (apply_ev ops d e) :: idx_hist (apply_ev ops d e) es'
  end.

Lemma d_index_set_or_keep e (d : @DB.disk I) :
  d_index (apply_ev ops d e) = d_index d \/
  forall d0 : @DB.disk I, d_index (apply_ev ops d0 e) = d_index (apply_ev ops d e).
Proof.
  destruct e as [f|f|id seq off r|i|id seq m|i|sd|f n|f g|f|f]; try (left; reflexivity).
  - destruct f; try (left; reflexivity). right. intros d0. reflexivity.
  - destruct f; left; reflexivity.
  - right. intros d0. reflexivity.
  - destruct f; left; reflexivity.
  - cbn [apply_ev set_bac d_index]. rewrite d_index_file_removed.
    destruct f; try (left; reflexivity). right. intros d0. rewrite d_index_file_removed. reflexivity.
  - cbn [apply_ev]. rewrite d_index_file_removed.
    destruct f; try (left; reflexivity). right. intros d0. rewrite d_index_file_removed. reflexivity.
Qed.

Theorem gpl_index_cases L d es L' img :
  gpl ops L d es L' img -> forall d0, d_index img = d_index d \/ In (d_index img) (idx_hist d0 es).
Proof.
  induction 1 as [L d|L d e es L1 d1 H1 H2 H3 IH|L d e f es L1 d1 H1 H3 IH
                  |L d id seq off r c es L1 d1 H1 H2 H2' H3 IH]; intros d0; cbn [idx_hist].
  - left. reflexivity.
  - destruct (IH (apply_ev ops d0 e)) as [E|E]; [|right; right; exact E].
    destruct (d_index_set_or_keep e d) as [K|K]; [left; congruence|].
    right. left. rewrite (K d0). symmetry. exact E.
  - destruct (IH (apply_ev ops d0 e)) as [E|E]; [left; exact E|right; right; exact E].
  - destruct (IH (apply_ev ops d0 (EAppend id seq off r))) as [E|E]; [left; exact E|right; right; exact E].
Qed.
End IdxHist.

(* ================================================================================================ *)
(** * 5. Histories (PowerLoss.xstep / xrun) on any index implementation *)

Definition gcfg (I : Type) : Type := (@DB.st I * option cursor)%type.

Definition grun_op {I} (ops : idx_ops I) (P : params) (o : DBProofsCrash.op) (s : @DB.st I) : @DB.st I :=
  match o with
  | DBProofsCrash.OpPut k v => fst (db_put ops P k v (clear_trace s))
  | DBProofsCrash.OpDelete k => fst (db_delete ops P k (clear_trace s))
  | DBProofsCrash.OpSync => fst (db_sync ops (clear_trace s))
  end.

(* one step: a writer operation, the pick of a compaction, one critical section of a compaction
   (a step that does not apply leaves everything as it is) *)
Definition gxstep {I} (ops : idx_ops I) (P : params) (cf : gcfg I) (o : xop) : gcfg I :=
  match o with
  | XOp o => (grun_op ops P o (fst cf), snd cf)
  | XPick => match snd cf, compact_pick ops P (clear_trace (fst cf)) with
             | None, Some (s', c) => (s', Some c)
             | _, _ => (clear_trace (fst cf), snd cf)
             end
  | XStep => match snd cf with
             | Some c => match compact_step ops P (clear_trace (fst cf)) c with
                         | CMore s' c' => (s', Some c')
                         | CDone => (clear_trace (fst cf), None)
                         | CFail _ => (clear_trace (fst cf), snd cf)
                         end
             | None => (clear_trace (fst cf), snd cf)
             end
  end.

Definition gxrun {I} (ops : idx_ops I) (P : params) (cf : gcfg I) (os : list xop) : gcfg I :=
  fold_left (gxstep ops P) os cf.

(* all the events of the history *)
Fixpoint gxtrace {I} (ops : idx_ops I) (P : params) (cf : gcfg I) (os : list xop) : list (@fsev I) :=
  match os with
  | [] => []
  | o :: os' => s_trace (fst (gxstep ops P cf o)) ++ gxtrace ops P (gxstep ops P cf o) os'
  end.

Lemma gxrun_app {I} (ops : idx_ops I) P cf os1 os2 :
  gxrun ops P cf (os1 ++ os2) = gxrun ops P (gxrun ops P cf os1) os2.
Proof. apply fold_left_app. Qed.
Lemma gxtrace_app {I} (ops : idx_ops I) P os1 : forall cf os2,
  gxtrace ops P cf (os1 ++ os2) = gxtrace ops P cf os1 ++ gxtrace ops P (gxrun ops P cf os1) os2.
Proof.
  induction os1 as [|o os1 IH]; intros cf os2; [reflexivity|].
  cbn [app gxtrace]. rewrite IH, app_assoc. reflexivity.
Qed.

(* the disk after a step is the disk before it followed by the events of the step *)
Lemma gxstep_disk {I} (ops : idx_ops I) P cf o :
  s_disk (fst (gxstep ops P cf o)) = fold_left (apply_ev ops) (s_trace (fst (gxstep ops P cf o))) (s_disk (fst cf)).
Proof.
  destruct cf as [s c]. destruct o as [o| |]; cbn [gxstep fst snd].
  - apply ext_clear. destruct o as [k v|k|]; cbn [grun_op]; [apply ext_put|apply ext_delete|apply ext_sync].
  - destruct c as [c|]; [reflexivity|].
    destruct (compact_pick ops P (clear_trace s)) as [[s' c']|] eqn:E; [|reflexivity].
    cbn [fst]. apply ext_clear. exact (ext_pick ops P _ _ _ E).
  - destruct c as [c|]; [|reflexivity].
    destruct (compact_step ops P (clear_trace s) c) as [|s' c'|w] eqn:E; [reflexivity| |reflexivity].
    cbn [fst]. apply ext_clear. exact (ext_cstep ops P _ _ _ _ E).
Qed.

Lemma gxrun_disk {I} (ops : idx_ops I) P os : forall cf,
  s_disk (fst (gxrun ops P cf os)) = fold_left (apply_ev ops) (gxtrace ops P cf os) (s_disk (fst cf)).
Proof.
  induction os as [|o os IH]; intros cf; [reflexivity|].
  unfold gxrun. cbn [fold_left gxtrace]. rewrite fold_left_app, <- gxstep_disk. apply IH.
Qed.

(* on the flat index this is PowerLoss.xstep / xrun *)
Lemma grun_op_flat P o (s : stf) : grun_op flat_ops P o s = run_op P o s.
Proof. destruct o; reflexivity. Qed.

Lemma gxstep_flat P cf o cf' : xstep P cf o cf' -> gxstep flat_ops P cf o = cf'.
Proof.
  intros H. destruct H as [s c o Hpre|s s' c HM E|s c s' c' Hroom E|s c E]; cbn [gxstep fst snd].
  - rewrite grun_op_flat. reflexivity.
  - rewrite E. reflexivity.
  - rewrite E. reflexivity.
  - rewrite E. reflexivity.
Qed.

Lemma gxrun_flat P cf os cfs tr cf' :
  xrun P cf os cfs tr cf' -> gxrun flat_ops P cf os = cf' /\ gxtrace flat_ops P cf os = tr.
Proof.
  induction 1 as [cf|cf o cf1 os cfs tr cf' Hs H [IH1 IH2]]; [split; reflexivity|].
  unfold gxrun. cbn [fold_left gxtrace]. rewrite (gxstep_flat P cf o cf1 Hs). split; [exact IH1|rewrite IH2; reflexivity].
Qed.

(* ---- the three layers stay related along a history ---- *)
Definition T3 (cf1 : gcfg phys) (cfp : gcfg pindex) (cff : cfg) : Prop :=
  gst_rel PR (fst cf1) (fst cfp) /\ st_rel (fst cfp) (fst cff) /\ snd cf1 = snd cff /\ snd cfp = snd cff.

Lemma T3_step P cf1 cfp cff o cff' :
  params_ok P -> XOpen P cff -> xstep P cff o cff' -> T3 cf1 cfp cff ->
  T3 (gxstep phys_ops P cf1 o) (gxstep chain_ops P cfp o) cff'.
Proof.
  intros HP [(HI & Hm & Hb) HC] Hs (H1 & Hsr & Ec1 & Ecp).
  destruct cf1 as [s1 c1], cfp as [sp cp]. cbn [fst snd] in *.
  pose proof (clear_trace_rel PR _ _ H1) as H1c.
  destruct Hs as [sf c o Hpre|sf sf' c HM E|sf c sf' c' Hroom E|sf c E]; cbn [fst snd] in *; subst c1 cp;
    pose proof (clear_trace_rel idx_rel _ _ Hsr) as Hsc.
  - cbn [gxstep fst snd]. unfold T3. cbn [fst snd]. split; [|split; [|split; reflexivity]].
    + destruct o as [k v|k|]; cbn [grun_op op_pre] in *.
      * destruct Hpre as (Hroom & _).
        assert (Hsz : sizes_ok (clear_trace sp)) by exact (proj1 (xok_chain_of_flat P sp sf Hsr HI Hroom)).
        exact (proj2 (xsim_put phys_ops chain_ops PR phys_exact_sim P k v _ _ H1c Hsz)).
      * exact (proj2 (xsim_delete phys_ops chain_ops PR phys_exact_sim P k _ _ H1c)).
      * exact (proj2 (xsim_sync phys_ops chain_ops PR phys_exact_sim _ _ H1c)).
    + destruct o as [k v|k|]; cbn [grun_op run_op op_pre] in *.
      * destruct Hpre as (Hroom & Hbk & Hbv & Hk & Hv).
        exact (proj2 (sim_put_so P _ _ k v Hsc (Inv_clear P sf HI) Hroom Hbk Hbv Hk Hv)).
      * exact (proj2 (sim_delete_so P _ _ k Hsc (Inv_clear P sf HI))).
      * exact (proj2 (sync_rel idx_rel chain_ops flat_ops idx_rel_empty _ _ Hsc)).
  - cbn [gxstep fst snd].
    pose proof (compact_pick_rel idx_rel chain_ops flat_ops idx_rel_empty P _ _ Hsc) as Hp. rewrite E in Hp.
    destruct (compact_pick chain_ops P (clear_trace sp)) as [[sp' cp]|] eqn:Ep; unfold pick_res_rel in Hp; [|contradiction].
    destruct Hp as [Hs' ->].
    pose proof (xsim_compact_pick phys_ops chain_ops PR phys_exact_sim P _ _ H1c) as Hp1. rewrite Ep in Hp1.
    destruct (compact_pick phys_ops P (clear_trace s1)) as [[s1' c1]|]; unfold pick_res_rel in Hp1; [|contradiction].
    destruct Hp1 as [H1' ->]. unfold T3. cbn [fst snd]. split; [exact H1'|]. split; [exact Hs'|]. split; reflexivity.
  - cbn [gxstep fst snd].
    pose proof (sim_compact_step P _ _ c Hsc (Inv_clear P sf HI)) as Hst. rewrite E in Hst.
    inversion Hst as [|sp' sf0 c0 Hs' Ep Ef|]; subst.
    assert (Hx : xok (clear_trace sp)) by exact (xok_chain_of_flat P sp sf Hsr HI Hroom).
    pose proof (xsim_compact_step phys_ops chain_ops PR phys_exact_sim P _ _ c H1c Hx) as Hst1.
    rewrite <- Ep in Hst1. inversion Hst1 as [|s1' sp0 c0 H1' E1 Ep'|]; subst.
    unfold T3. cbn [fst snd]. split; [exact H1'|]. split; [exact Hs'|]. split; reflexivity.
  - cbn [gxstep fst snd].
    destruct (cstep_done_inv flat_ops P _ _ E) as (_ & E1 & E2).
    assert (Hmp : s_mem (clear_trace sp) <> None).
    { destruct (st_rel_mem_cases idx_rel _ _ Hsc) as [[_ E0]|(a & b & Ea & _)]; [|congruence].
      cbn [clear_trace s_mem] in E0. congruence. }
    assert (Hm1 : s_mem (clear_trace s1) <> None).
    { destruct (st_rel_mem_cases PR _ _ H1c) as [[_ E0]|(a & b & Ea & _)]; congruence. }
    rewrite (cstep_done_intro phys_ops P _ _ Hm1 E1 E2), (cstep_done_intro chain_ops P _ _ Hmp E1 E2).
    unfold T3. cbn [fst snd]. split; [exact H1c|]. split; [exact Hsc|]. split; reflexivity.
Qed.

Theorem T3_run P cff os cfs tr cff' :
  params_ok P -> xrun P cff os cfs tr cff' -> forall cf1 cfp, XOpen P cff -> T3 cf1 cfp cff ->
  T3 (gxrun phys_ops P cf1 os) (gxrun chain_ops P cfp os) cff' /\
  Forall2 (gev_rel PR) (gxtrace phys_ops P cf1 os) (gxtrace chain_ops P cfp os) /\
  Forall2 ev_rel (gxtrace chain_ops P cfp os) tr.
Proof.
  intros HP H. induction H as [cf|cf o cfn os cfs tr cf' Hs H IH]; intros cf1 cfp HX HT.
  - split; [exact HT|]. split; constructor.
  - pose proof (T3_step P cf1 cfp cf o cfn HP HX Hs HT) as HT1.
    destruct (xstep_ok P cf o cfn HP HX Hs) as (HX1 & _).
    destruct (IH _ _ HX1 HT1) as (A & B & C).
    unfold gxrun. cbn [fold_left gxtrace]. split; [exact A|].
    destruct HT1 as (R1 & R2 & _).
    split; (apply Forall2_app; [|assumption]).
    + exact (st_rel_trace PR _ _ R1).
    + exact (st_rel_trace idx_rel _ _ R2).
Qed.

(* ================================================================================================ *)
(** * 6. C09 on the physical index: a cleanly closed database is a durable checkpoint *)

Lemma rel_rest {I1 I2} (R : I1 -> I2 -> Prop) (a : @DB.disk I1) (b : @DB.disk I2) :
  gdisk_rel R a b ->
  d_segs a = d_segs b /\ d_overflow a = d_overflow b /\ d_dbmeta a = d_dbmeta b /\ d_lock a = d_lock b /\
  d_bac a = d_bac b.
Proof. intros H. apply disk_rel_iff in H. tauto. Qed.

Lemma gdisk_eq_orph {I} (d img : @DB.disk I) :
  d_segs img = d_segs d -> d_index img = d_index d -> d_overflow img = d_overflow d ->
  d_imeta img = d_imeta d -> d_dbmeta img = d_dbmeta d -> d_lock img = d_lock d -> d_bac img = d_bac d ->
  img = set_orphans d (d_orphans img).
Proof.
  destruct d as [a1 a2 a3 a4 a5 a6 a7 a8], img as [b1 b2 b3 b4 b5 b6 b7 b8].
  cbn [d_segs d_orphans d_index d_overflow d_imeta d_dbmeta d_lock d_bac set_orphans].
  intros -> -> -> -> -> -> ->. reflexivity.
Qed.

(* C09, first part.  Any history of Put / Delete / Sync / compaction steps on the physical-index
   database (the run of the flat database on the same operations supplies the side conditions), then
   a completed Close.  EVERY admissible power-loss image of the whole phys history is the closed phys
   directory itself -- in particular main.pix / overflow.pix and index.pmt hold EXACTLY the index values
   the real disk held when Close returned (not merely related ones), which satisfy the physical
   invariant and represent the closed flat index -- up to the bookkeeping list d_orphans.  The image is
   related to an admissible image of the flat history, which is the closed flat directory. *)
Theorem C09_closed_is_durable_phys P cf1 cfp cff0 os cfs tr (sf : stf) c (m : @DB.mem flat) sf1 o L' img1 :
  params_ok P -> XOpen P cff0 -> T3 cf1 cfp cff0 ->
  xrun P cff0 os cfs tr (sf, c) -> s_mem sf = Some m ->
  db_close flat_ops (clear_trace sf) = (sf1, o) ->
  let s1 := fst (gxrun phys_ops P cf1 os) in
  let s1a := fst (db_close phys_ops (clear_trace s1)) in
  gpl phys_ops fnone (s_disk (fst cf1)) (gxtrace phys_ops P cf1 os ++ s_trace s1a) L' img1 ->
  snd (db_close phys_ops (clear_trace s1)) = OOk /\ s_mem s1a = None /\
  img1 = set_orphans (s_disk s1a) (d_orphans img1) /\
  d_index img1 = d_index (s_disk s1a) /\ d_imeta img1 = d_imeta (s_disk s1a) /\ d_lock img1 = false /\
  stored_index img1 (m_idx m) /\ phys_disk_ok img1 /\
  exists imgp imgf,
    gpl chain_ops fnone (s_disk (fst cfp))
        (gxtrace chain_ops P cfp os ++ s_trace (fst (db_close chain_ops (clear_trace (fst (gxrun chain_ops P cfp os)))))) L' imgp /\
    pl fnone (s_disk (fst cff0)) (tr ++ s_trace sf1) L' imgf /\
    gdisk_rel PR img1 imgp /\ disk_rel imgp imgf /\ imgf = set_orphans (s_disk sf1) (d_orphans imgf).
Proof.
  intros HP HX HT Hr Em Ec. cbv zeta. intros Hpl.
  destruct (T3_run P _ _ _ _ _ HP Hr cf1 cfp HX HT) as ((H1 & Hsr & _ & _) & Ht1 & Htp). cbn [fst] in H1, Hsr.
  destruct (xrun_ok P _ _ _ _ _ HP Hr HX) as ([(HI & _ & _) _] & _). cbn [fst] in HI.
  pose proof (gxrun_disk phys_ops P os cf1) as Ed1.
  set (s1 := fst (gxrun phys_ops P cf1 os)) in *. set (sp := fst (gxrun chain_ops P cfp os)) in *.
  pose proof (clear_trace_rel PR _ _ H1) as H1c. pose proof (clear_trace_rel idx_rel _ _ Hsr) as Hsc.
  destruct (xsim_close phys_ops chain_ops PR phys_exact_sim _ _ H1c) as [Eo1 H1a].
  destruct (sim_close_so _ _ Hsc) as [Eo Hs1]. rewrite Ec in Eo, Hs1. cbn [fst snd] in Eo, Hs1.
  pose proof (close_ok P (clear_trace sf) m (Inv_clear P sf HI) Em) as Hc. rewrite Ec in Hc.
  destruct Hc as (-> & Hn1 & _ & _ & Hl1 & Hdi & _ & Him & _).
  pose proof (ext_clear phys_ops _ _ (ext_close phys_ops (clear_trace s1))) as Eda.
  set (s1a := fst (db_close phys_ops (clear_trace s1))) in *.
  set (spa := fst (db_close chain_ops (clear_trace sp))) in *.
  destruct HT as (HT1 & HT2 & _).
  assert (Hes1 : Forall2 (gev_rel PR) (gxtrace phys_ops P cf1 os ++ s_trace s1a) (gxtrace chain_ops P cfp os ++ s_trace spa))
    by (apply Forall2_app; [exact Ht1|exact (st_rel_trace PR _ _ H1a)]).
  assert (Hesp : Forall2 ev_rel (gxtrace chain_ops P cfp os ++ s_trace spa) (tr ++ s_trace sf1))
    by (apply Forall2_app; [exact Htp|exact (st_rel_trace idx_rel _ _ Hs1)]).
  destruct (proj1 (phys_pl_image _ _ _ _ _ _ fnone (st_rel_disk PR _ _ HT1) (st_rel_disk idx_rel _ _ HT2) Hes1 Hesp)
              L' img1 Hpl) as (imgp & imgf & Hgp & Hpf & Hr1 & Hr2).
  destruct (C09_closed_is_durable P _ _ _ _ _ _ _ _ _ _ _ HP HX Hr Em Ec Hpf)
    as (Eimg & Esegs & Eidx & Eov & Eim & Edb & Elock & Ebac).
  (* the files flushed by Close have lost nothing: the set L' is the same on the three layers *)
  assert (HL : forall f, CloseF (m_segs m) f -> L' f = false).
  { destruct (close_cl_run (clear_trace sf) m Em) as (es & T & _ & Hcov). rewrite Ec in T.
    cbn [fst clear_trace s_trace app] in T. pose proof Hpf as Hpf'. rewrite T in Hpf'.
    destruct (pl_app_inv _ _ _ _ _ _ Hpf') as (L1 & x1 & _ & Hpl2).
    intros f Hf. apply (pl_clr _ _ _ _ _ Hpl2 f false); [discriminate|apply Hcov; exact Hf]. }
  assert (HLm : L' FMain = false) by (apply HL; unfold CloseF; tauto).
  assert (HLi : L' FIndexMeta = false) by (apply HL; unfold CloseF; tauto).
  (* hence main.pix and index.pmt of the image are those of the real phys disk *)
  assert (Efin : fold_left (apply_ev phys_ops) (gxtrace phys_ops P cf1 os ++ s_trace s1a) (s_disk (fst cf1)) = s_disk s1a).
  { rewrite fold_left_app, <- Ed1. symmetry. exact Eda. }
  destruct (gpl_idx_agree phys_ops _ _ _ _ _ Hpl (s_disk (fst cf1)) (conj (fun _ => eq_refl) (fun _ => eq_refl))) as [Ai Am].
  rewrite Efin in Ai, Am. specialize (Ai HLm). specialize (Am HLi).
  destruct (rel_rest _ _ _ Hr1) as (R1a & R1b & R1c & R1d & R1e).
  destruct (rel_rest _ _ _ Hr2) as (R2a & R2b & R2c & R2d & R2e).
  destruct (rel_rest _ _ _ (st_rel_disk PR _ _ H1a)) as (Q1a & Q1b & Q1c & Q1d & Q1e).
  destruct (rel_rest _ _ _ (st_rel_disk idx_rel _ _ Hs1)) as (Q2a & Q2b & Q2c & Q2d & Q2e).
  assert (Hst : stored_index img1 (m_idx m)).
  { pose proof Hr2 as Dp. apply disk_rel_iff in Dp. destruct Dp as (_ & _ & Dpi & _ & Dpm & _).
    rewrite Eidx, Hdi in Dpi. rewrite Eim, Him in Dpm.
    destruct (opt_rel_some_r _ _ _ Dpi) as (ip & Eip & Rip). destruct (gob_rel_ok_r _ _ _ Dpm) as (jp & Ejp & Rjp).
    pose proof Hr1 as D1. apply disk_rel_iff in D1. destruct D1 as (_ & _ & D1i & _ & D1m & _).
    rewrite Eip in D1i. rewrite Ejp in D1m.
    destruct (opt_rel_some_r _ _ _ D1i) as (i & Ei & Ri). destruct (gob_rel_ok_r _ _ _ D1m) as (j & Ej & Rj).
    exists i, j, ip, jp. split; [exact Ei|]. split; [exact Ej|]. split; [exact Ri|]. split; [exact Rj|].
    split; [exact Rip|exact Rjp]. }
  split; [rewrite Eo1; exact Eo|].
  split.
  { destruct (st_rel_mem_cases idx_rel _ _ Hs1) as [[Ep _]|(a & b & _ & Eb & _)]; [|congruence].
    destruct (st_rel_mem_cases PR _ _ H1a) as [[E1 _]|(a & b & _ & Eb & _)]; [exact E1|].
    fold spa in Eb. congruence. }
  split.
  { apply gdisk_eq_orph; [congruence|exact Ai|congruence|exact Am|congruence|congruence|congruence]. }
  split; [exact Ai|]. split; [exact Am|]. split; [congruence|]. split; [exact Hst|].
  split; [exact (PR_disk_ok _ _ Hr1)|].
  exists imgp, imgf. split; [exact Hgp|]. split; [exact Hpf|]. split; [exact Hr1|]. split; [exact Hr2|exact Eimg].
Qed.

(* a clean Open (no lock file) TRUSTS the index files: the index it loads is the content of main.pix *)
Lemma open_clean_loads_index {I} (ops : idx_ops I) P seed (d : @DB.disk I) s2 :
  d_lock d = false -> db_open ops P seed {| s_mem := None; s_disk := d; s_trace := [] |} = (s2, OOpened false) ->
  d_index d <> None -> exists m2, s_mem s2 = Some m2 /\ d_index d = Some (m_idx m2).
Proof.
  intros Hl E Hi. unfold db_open in E. cbn [s_mem s_disk] in E. rewrite Hl in E.
  set (s0 := emit ops (ECreate FLock) _) in E.
  assert (Ei0 : d_index (s_disk s0) = d_index d) by reflexivity.
  unfold open_index in E. rewrite Ei0 in E. destruct (d_index d) as [i|] eqn:Edi; [|congruence].
  set (sx := if d_overflow (s_disk s0) then s0 else emits ops [ECreate FOverflow; EHeader FOverflow] s0) in E.
  assert (Eix : d_index (s_disk sx) = Some i).
  { unfold sx. destruct (d_overflow (s_disk s0)); [exact Ei0|]. exact Edi. }
  rewrite Eix in E. destruct (d_imeta (s_disk sx)) as [| |j]; try discriminate E.
  destruct (open_segments ops sx) as [s3 segs].
  match type of E with context [swap_segment ops s3 ?m] => set (m0 := m) in E end.
  assert (Em1 : m_idx (snd (swap_segment ops s3 m0)) = i).
  { unfold swap_segment. destruct (find _ (m_segs m0)); reflexivity. }
  destruct (swap_segment ops s3 m0) as [s4 m1]. cbn [snd] in Em1.
  destruct (if ix_count ops i =? 0 then Some seed else match d_dbmeta (s_disk s4) with GOk sd => Some sd | _ => None end);
    [|discriminate E].
  injection E as <-. eexists. split; [reflexivity|]. cbn [m_idx]. rewrite Em1. reflexivity.
Qed.

(* C09, second part: the next Open on ANY admissible image is a clean one (OOpened false); it loads the
   index stored in the image, which satisfies the physical invariant; every answer of the reopened
   database is the one the database gave before the Close. *)
Theorem C09_reopen_phys P seed cf1 cfp cff0 os cfs tr (sf : stf) c (m : @DB.mem flat) sf1 o L' img1 :
  params_ok P -> XOpen P cff0 -> T3 cf1 cfp cff0 ->
  xrun P cff0 os cfs tr (sf, c) -> s_mem sf = Some m ->
  db_close flat_ops (clear_trace sf) = (sf1, o) ->
  let s1 := fst (gxrun phys_ops P cf1 os) in
  let s1a := fst (db_close phys_ops (clear_trace s1)) in
  gpl phys_ops fnone (s_disk (fst cf1)) (gxtrace phys_ops P cf1 os ++ s_trace s1a) L' img1 ->
  answers1 P s1 (abs (s_disk sf)) /\
  exists s2, db_open phys_ops P seed (closed1 img1) = (s2, OOpened false) /\
    phys_open_ok s2 /\ answers1 P s2 (abs (s_disk sf)) /\
    (exists m2, s_mem s2 = Some m2 /\ d_index img1 = Some (m_idx m2) /\ d_index (s_disk s1a) = Some (m_idx m2) /\
                PhysInv (m_idx m2)) /\
    exists sp2 sf2, gst_rel PR s2 sp2 /\ st_rel sp2 sf2 /\ Inv P sf2 /\ s_mem sf2 <> None /\
                    meq (abs (s_disk sf2)) (abs (s_disk sf)).
Proof.
  intros HP HX HT Hr Em Ec. cbv zeta. intros Hpl.
  destruct (C09_closed_is_durable_phys P cf1 cfp cff0 os cfs tr sf c m sf1 o L' img1 HP HX HT Hr Em Ec Hpl)
    as (_ & _ & _ & Ei1 & _ & Hl1 & Hst & _ & imgp & imgf & _ & Hpf & Hr1 & Hr2 & _).
  destruct (T3_run P _ _ _ _ _ HP Hr cf1 cfp HX HT) as ((H1 & Hsr & _ & _) & _ & _). cbn [fst] in H1, Hsr.
  destruct (xrun_ok P _ _ _ _ _ HP Hr HX) as ([(HI & _ & _) _] & _). cbn [fst] in HI.
  assert (Hopen : s_mem sf <> None) by congruence.
  split; [exact (answers1_of_chain P _ _ _ H1 (answers_of_rel P _ sf Hsr HI Hopen))|].
  destruct (C09_reopen P seed _ _ _ _ _ _ _ _ _ _ _ HP HX Hr Em Ec Hpf) as (sf2 & Ef2 & HI2 & Hc2 & m2f & Em2f & _).
  assert (Hlf : d_lock imgf = false) by (rewrite <- (proj1 (proj2 (proj2 (proj2 (rel_rest _ _ _ Hr2))))),
                                           <- (proj1 (proj2 (proj2 (proj2 (rel_rest _ _ _ Hr1))))); exact Hl1).
  assert (Hlp : d_lock imgp = false) by (rewrite <- (proj1 (proj2 (proj2 (proj2 (rel_rest _ _ _ Hr1))))); exact Hl1).
  destruct (sim_open_clean_so P seed (closedp imgp) (closed imgf) (closed_rel imgp imgf Hr2) Hlf) as [Eo2 Hs2].
  rewrite Ef2 in Eo2, Hs2. cbn [fst snd] in Eo2, Hs2.
  destruct (phys_open_clean_image P seed img1 imgp Hr1 Hlp) as [Eo3 H2].
  destruct (db_open chain_ops P seed (closedp imgp)) as [sp2 op2]. cbn [fst snd] in Eo2, Hs2, Eo3, H2. subst op2.
  destruct (db_open phys_ops P seed (closed1 img1)) as [s2 o2] eqn:E1. cbn [fst snd] in Eo3, H2. subst o2.
  assert (Hopen2 : s_mem sf2 <> None) by congruence.
  assert (Hq : meq (abs (s_disk sf2)) (abs (s_disk sf))) by exact Hc2.
  pose proof (PR_open_ok s2 sp2 sf2 H2 Hs2 Hopen2) as Hpo.
  exists s2. split; [reflexivity|]. split; [exact Hpo|].
  split.
  { apply (answers1_of_chain P s2 sp2 _ H2).
    apply (answers_meq P sp2 (abs (s_disk sf2)) (abs (s_disk sf)) (abs_NoDup _) (abs_NoDup _) Hq).
    apply (answers_of_rel P sp2 sf2 Hs2 HI2 Hopen2). }
  split.
  { assert (Hi : d_index img1 <> None) by (destruct Hst as (i & j & ip & jp & Ei & _); congruence).
    destruct (open_clean_loads_index phys_ops P seed img1 s2 Hl1 E1 Hi) as (m2 & Em2 & Ei2).
    exists m2. split; [exact Em2|]. split; [exact Ei2|]. split; [rewrite <- Ei1; exact Ei2|].
    destruct Hpo as [(m2' & Em2' & Hinv) _]. assert (m2' = m2) by congruence. subst m2'. exact Hinv. }
  exists sp2, sf2. split; [exact H2|]. split; [exact Hs2|]. split; [exact HI2|]. split; [exact Hopen2|exact Hq].
Qed.

(* ================================================================================================ *)
(** * 7. C06 on the physical index: writes acknowledged before a completed Sync survive *)

Lemma Forall2_firstn_g {A B} (Q : A -> B -> Prop) n : forall l1 l2,
  Forall2 Q l1 l2 -> Forall2 Q (firstn n l1) (firstn n l2).
Proof.
  induction n as [|n IH]; intros l1 l2 H; [constructor|].
  destruct H as [|a b l1 l2 Hab H]; cbn [firstn]; constructor; [exact Hab|apply IH; exact H].
Qed.

(* C06.  A history of Put / Delete / Sync / compaction steps [os0] on the physical-index database; a
   Sync (or, with p_sync, any Put / Delete) [osync] completes: the database answers A0 (the contents of
   the flat database at that point); any further steps [os]; the power fails after ANY number [n] of the
   events they issue (the lock file exists throughout: the database is open).  Whatever the file system
   kept (any admissible image [img1], whatever it holds in main.pix / overflow.pix / index.pmt):
   [db_open phys_ops] RECOVERS (OOpened true: the index files are set aside and the index is rebuilt
   from the log), the recovered in-memory index and the stored ones satisfy the physical invariant, and
   the database answers A0 followed by a prefix of [os]. *)
Theorem C06_synced_writes_survive_phys P seed c10 cp0 cff0 os0 cfs0 tr0 cffa osync cff1 os cfs tr cff' n L' img1 :
  params_ok P -> XOpen P cff0 -> T3 c10 cp0 cff0 ->
  xrun P cff0 os0 cfs0 tr0 cffa -> xstep P cffa osync cff1 -> sync_point P osync ->
  xrun P cff1 os cfs tr cff' ->
  let c1a := gxrun phys_ops P c10 os0 in
  let c1s := gxstep phys_ops P c1a osync in
  gpl phys_ops fnone (s_disk (fst c10))
      (gxtrace phys_ops P c10 os0 ++ s_trace (fst c1s) ++ firstn n (gxtrace phys_ops P c1s os)) L' img1 ->
  answers1 P (fst c1s) (abs (s_disk (fst cff1))) /\
  exists s2, db_open phys_ops P seed (closed1 img1) = (s2, OOpened true) /\ phys_open_ok s2 /\
    exists j ms, (j <= length os)%nat /\ answers1 P s2 ms /\ NoDup (map fst ms) /\
      (forall k, sget ms k = xspec_hist (firstn j os) (cont (s_disk (fst cff1))) k) /\
      exists imgp imgf sp2 sf2,
        pl fnone (s_disk (fst cff0)) (tr0 ++ s_trace (fst cff1) ++ firstn n tr) L' imgf /\
        gdisk_rel PR img1 imgp /\ disk_rel imgp imgf /\ ms = abs imgf /\
        gst_rel PR s2 sp2 /\ st_rel sp2 sf2 /\ Inv P sf2 /\
        db_open flat_ops P seed (closed imgf) = (sf2, OOpened true).
Proof.
  intros HP HX0 HT0 Hr0 Hs Hsp Hr. cbv zeta. intros Hpl.
  destruct (T3_run P _ _ _ _ _ HP Hr0 c10 cp0 HX0 HT0) as (HTa & Ta1 & Tap).
  destruct (xrun_ok P _ _ _ _ _ HP Hr0 HX0) as (HXa & _).
  pose proof (T3_step P _ _ _ _ _ HP HXa Hs HTa) as HT1.
  destruct (xstep_ok P _ _ _ HP HXa Hs) as (HX1 & _).
  destruct (T3_run P _ _ _ _ _ HP Hr _ _ HX1 HT1) as (_ & Tb1 & Tbp).
  set (c1s := gxstep phys_ops P (gxrun phys_ops P c10 os0) osync) in *.
  set (cps := gxstep chain_ops P (gxrun chain_ops P cp0 os0) osync) in *.
  pose proof HT1 as (R1 & R2 & _).
  assert (Hes1 : Forall2 (gev_rel PR)
            (gxtrace phys_ops P c10 os0 ++ s_trace (fst c1s) ++ firstn n (gxtrace phys_ops P c1s os))
            (gxtrace chain_ops P cp0 os0 ++ s_trace (fst cps) ++ firstn n (gxtrace chain_ops P cps os))).
  { apply Forall2_app; [exact Ta1|]. apply Forall2_app; [exact (st_rel_trace PR _ _ R1)|].
    apply Forall2_firstn_g. exact Tb1. }
  assert (Hesp : Forall2 ev_rel
            (gxtrace chain_ops P cp0 os0 ++ s_trace (fst cps) ++ firstn n (gxtrace chain_ops P cps os))
            (tr0 ++ s_trace (fst cff1) ++ firstn n tr)).
  { apply Forall2_app; [exact Tap|]. apply Forall2_app; [exact (st_rel_trace idx_rel _ _ R2)|].
    apply Forall2_firstn_g. exact Tbp. }
  destruct HT0 as (HT01 & HT02 & _).
  destruct (proj1 (phys_pl_image _ _ _ _ _ _ fnone (st_rel_disk PR _ _ HT01) (st_rel_disk idx_rel _ _ HT02) Hes1 Hesp)
              L' img1 Hpl) as (imgp & imgf & _ & Hpf & Hr1 & Hr2).
  (* the flat theorem, step by step (C06_synced_writes_survive does not export [Good] of the image) *)
  pose proof Hpf as Hpf'. rewrite app_assoc in Hpf'.
  destruct (pl_app_inv _ _ _ _ _ _ Hpf') as (L1 & x1 & Hpl1 & Hpl2).
  destruct (sync_point_clean P _ _ _ _ _ _ _ _ L1 x1 HP HX0 Hr0 Hs Hsp eq_refl Hpl1) as (_ & _ & Hcl & HA).
  assert (HD1 : DurS None (fst cff1)).
  { destruct HX1 as [(_ & Hm & _) _]. destruct (s_mem (fst cff1)) as [m|] eqn:Em; [|congruence].
    exists m. split; [exact Em|apply DurM_None]. }
  destruct (C06_image P cff1 os cfs tr cff' None L1 x1 (firstn n tr) (skipn n tr) L' imgf HP HX1 Hr HD1 Hcl HA
              (eq_sym (firstn_skipn n tr)) Hpl2) as ((G1 & G2 & G3) & j & Hj & Hc).
  destruct (phys_recover_image P seed img1 imgp imgf HP Hr1 Hr2 G1 G2 G3)
    as (s2 & sp2 & sf2 & E1 & _ & Ef & H2 & Hs2 & HI2 & _ & _ & _ & _ & Hpo & _ & Hans).
  split.
  { destruct HX1 as [(HI1 & Hm1 & _) _].
    exact (answers1_of_chain P _ _ _ R1 (answers_of_rel P _ _ R2 HI1 Hm1)). }
  exists s2. split; [exact E1|]. split; [exact Hpo|].
  exists j, (abs imgf). split; [exact Hj|]. split; [exact Hans|]. split; [apply abs_NoDup|].
  split; [exact Hc|].
  exists imgp, imgf, sp2, sf2. split; [exact Hpf|]. split; [exact Hr1|]. split; [exact Hr2|]. split; [reflexivity|].
  split; [exact H2|]. split; [exact Hs2|]. split; [exact HI2|exact Ef].
Qed.

(* per key: the value at the sync point, or the value after one of the later operations *)
Corollary C06_per_key_phys P seed c10 cp0 cff0 os0 cfs0 tr0 cffa osync cff1 os cfs tr cff' n L' img1 :
  params_ok P -> XOpen P cff0 -> T3 c10 cp0 cff0 ->
  xrun P cff0 os0 cfs0 tr0 cffa -> xstep P cffa osync cff1 -> sync_point P osync ->
  xrun P cff1 os cfs tr cff' ->
  let c1a := gxrun phys_ops P c10 os0 in
  let c1s := gxstep phys_ops P c1a osync in
  gpl phys_ops fnone (s_disk (fst c10))
      (gxtrace phys_ops P c10 os0 ++ s_trace (fst c1s) ++ firstn n (gxtrace phys_ops P c1s os)) L' img1 ->
  exists s2, db_open phys_ops P seed (closed1 img1) = (s2, OOpened true) /\ phys_open_ok s2 /\
    forall k, exists j, (j <= length os)%nat /\
      db_get phys_ops P k s2 = OVal (xspec_hist (firstn j os) (cont (s_disk (fst cff1))) k).
Proof.
  intros HP HX0 HT0 Hr0 Hs Hsp Hr. cbv zeta. intros Hpl.
  destruct (C06_synced_writes_survive_phys P seed _ _ _ _ _ _ _ _ _ _ _ _ _ n L' img1 HP HX0 HT0 Hr0 Hs Hsp Hr Hpl)
    as (_ & s2 & E & Hpo & j & ms & Hj & (Hget & _) & _ & Hms & _).
  exists s2. split; [exact E|]. split; [exact Hpo|]. intros k. exists j. split; [exact Hj|].
  rewrite Hget, Hms. reflexivity.
Qed.

(* ================================================================================================ *)
(** * 7b. Histories of several epochs (PowerLoss2): process crashes, recoveries, Close / re-Open *)

Section ExtH.
Context {I : Type}.
Variable ops : idx_ops I.

Lemma gplh_idx_agree L img H L' img' :
  gplh ops L img H L' img' -> forall d, idx_agree L d img -> idx_agree L' (ghrun ops H d) img'.
Proof.
  unfold ghrun.
  induction 1 as [L d0|L d0 es L1 d1 H L' img' A B IH|L d0 id seq r c H L' img' A B IH
                  |L d0 id seq r c H L' img' B IH|L d0 id seq r c c' H L' img' A A1 A2 B IH];
    intros d HA; cbn [fold_left ghstep].
  - exact HA.
  - apply IH. exact (gpl_idx_agree ops _ _ _ _ _ A d HA).
  - apply IH. exact HA.
  - apply IH. destruct HA as [X Y]. split; intros Hf.
    + change (d_index (gtorn d id seq r c)) with (d_index d). apply X. exact (fadd_false _ _ _ Hf).
    + change (d_imeta (gtorn d id seq r c)) with (d_imeta d). apply Y. exact (fadd_false _ _ _ Hf).
  - apply IH. destruct HA as [X Y]. split; intros Hf.
    + change (d_index (gtorn d0 id seq r c')) with (d_index d0).
      change (d_index (gtorn d id seq r c)) with (d_index d). apply X. exact (fadd_false _ _ _ Hf).
    + change (d_imeta (gtorn d0 id seq r c')) with (d_imeta d0).
      change (d_imeta (gtorn d id seq r c)) with (d_imeta d). apply Y. exact (fadd_false _ _ _ Hf).
Qed.
End ExtH.

(* PowerLoss2.C06_with_recovery, with the facts about the image itself exported (same proof) *)
Lemma C06_with_recovery_image P cf0 mh0 K0 cfa osync cf1 mh K cf' Kcut L' img' :
  params_ok P -> XOpen P cf0 ->
  mrun P cf0 mh0 K0 cfa -> xstep P cfa osync cf1 -> sync_point P osync ->
  mrun P cf1 mh K cf' -> hcut Kcut K -> d_lock (hrun Kcut (s_disk (fst cf1))) = true ->
  plh fnone (s_disk (fst cf0)) (K0 ++ CE (s_trace (fst cf1)) :: Kcut) L' img' ->
  DiskOK img' /\ bac_ok img' /\ d_lock img' = true /\ after (cont (s_disk (fst cf1))) mh (cont img').
Proof.
  intros HP HX0 Hr0 Hs Hsp Hr Hcut Hlock Hpl.
  change (K0 ++ CE (s_trace (fst cf1)) :: Kcut) with (K0 ++ [CE (s_trace (fst cf1))] ++ Kcut) in Hpl. rewrite app_assoc in Hpl.
  destruct (plh_app_inv _ _ _ _ _ _ Hpl) as (L1 & img1 & Hpl1 & Hpl2).
  destruct (msync_clean P _ _ _ _ _ _ L1 img1 HP HX0 Hr0 Hs Hsp Hpl1) as (HX1 & Hcl & HA).
  destruct (mrun_main P _ _ _ _ HP Hr None HX1 (open_DurS_None P cf1 HX1)) as (_ & _ & (u' & Hd & _) & Hcr).
  assert (Hne : hdur2 None Kcut <> None) by (apply (hcut_hdur2 Kcut K Hcut); rewrite Hd; discriminate).
  pose proof (plh_agree _ _ _ _ _ Hpl2 _ HA) as (_ & _ & _ & _ & _ & A6 & A7).
  destruct (Hcr _ (hcut_self Kcut K Hcut _)) as (_ & Hbf & _).
  assert (Hc : exists cimg, hcrash (s_disk (fst cf1)) K cimg /\ same_log cimg img').
  { destruct (plh_reduce _ _ _ _ _ Hpl2 (s_disk (fst cf1)) None Hcl HA Hne) as [[HL' HA']|(cimg & x & C1 & C2 & _)].
    - exists (hrun Kcut (s_disk (fst cf1))). split; [apply hcut_self; exact Hcut|apply (Agree_same_log L'); assumption].
    - exists cimg. split; [apply (hcut_hcrash Kcut K Hcut); exact C1|exact C2]. }
  destruct Hc as (cimg & Hci & Hsame). destruct (Hcr cimg Hci) as (G1 & _ & Haf).
  split; [apply (same_log_DiskOK _ _ Hsame G1)|]. split; [unfold bac_ok; rewrite A7; exact Hbf|].
  split; [rewrite A6; exact Hlock|].
  apply (after_ceq_r _ _ _ _ Haf). intros k. unfold cont. rewrite (same_log_abs _ _ Hsame). reflexivity.
Qed.

(* The statement one wants:

     C06_with_recovery_phys:  for a history of EPOCHS of the physical-index database (operations; process
     crashes in the middle of a step or between steps; recovery attempts; Close and clean re-Open) with a
     sync point, and a power failure at any later event at which the lock file exists: every admissible
     image recovers, phys_open_ok, answers = sync point + prefix of the later operations,

   needs an analogue of PowerLoss2.mrun for phys_ops together with the proof that it stays related,
   chunk by chunk, to the flat [mrun] (T3_run does this for an epoch of operations; a crash cut, the
   recovery attempts and Close / clean Open would be handled with phys_crash_image, phys_open_image_flat,
   xsim_close / open_clean_g).  That construction is NOT done here.  What is proved is the theorem with the
   relation between the two histories as a HYPOTHESIS ([Forall2 gch1], [Forall2 gchp]: the phys history,
   a chain history and the flat history have the same chunks, with PR- resp. idx_rel-related index values
   in their index-file events): *)
Theorem C06_with_recovery_phys_partial P seed cf0 mh0 K0 cfa osync cf1 mh K cf' Kcut L'
        (d1 : disk1) (dp : diskp) H1 Hp img1 :
  params_ok P -> XOpen P cf0 ->
  mrun P cf0 mh0 K0 cfa -> xstep P cfa osync cf1 -> sync_point P osync ->
  mrun P cf1 mh K cf' -> hcut Kcut K -> d_lock (hrun Kcut (s_disk (fst cf1))) = true ->
  gdisk_rel PR d1 dp -> disk_rel dp (s_disk (fst cf0)) ->
  Forall2 gch1 H1 Hp -> Forall2 gchp Hp (map gch (K0 ++ CE (s_trace (fst cf1)) :: Kcut)) ->
  gplh phys_ops fnone d1 H1 L' img1 ->
  exists s2, db_open phys_ops P seed (closed1 img1) = (s2, OOpened true) /\ phys_open_ok s2 /\
    exists ms, answers1 P s2 ms /\ NoDup (map fst ms) /\
               after (cont (s_disk (fst cf1))) mh (fun k => sget ms k).
Proof.
  intros HP HX0 Hr0 Hs Hsp Hr Hcut Hlock Hd1 Hd HH1 HHp Hpl.
  destruct (proj1 (phys_plh_image d1 dp _ H1 Hp _ fnone Hd1 Hd HH1 HHp) L' img1 Hpl)
    as (imgp & imgf & _ & Hpf & Hr1 & Hr2).
  destruct (C06_with_recovery_image P _ _ _ _ _ _ _ _ _ _ _ _ HP HX0 Hr0 Hs Hsp Hr Hcut Hlock Hpf)
    as (G1 & G2 & G3 & Haf).
  destruct (phys_recover_image P seed img1 imgp imgf HP Hr1 Hr2 G1 G2 G3)
    as (s2 & sp2 & sf2 & E1 & _ & _ & _ & _ & _ & _ & _ & _ & _ & Hpo & _ & Hans).
  exists s2. split; [exact E1|]. split; [exact Hpo|]. exists (abs imgf).
  split; [exact Hans|]. split; [apply abs_NoDup|exact Haf].
Qed.

(* C09 after a history of several epochs, in the same form: every admissible image of a phys history
   related to the flat one has no lock file, holds in main.pix / index.pmt exactly what the real phys
   disk holds at the end of the history ([ghrun]), and that represents the closed flat index; the next
   Open is clean, loads that index, and answers the closed contents. *)
Theorem C09_reopen_epochs_phys_partial P seed cf0 mh K (s : stf) c (m : @DB.mem flat) s1 o L'
        (d1 : disk1) (dp : diskp) H1 Hp img1 :
  params_ok P -> XOpen P cf0 -> mrun P cf0 mh K (s, c) -> s_mem s = Some m ->
  db_close flat_ops (clear_trace s) = (s1, o) ->
  gdisk_rel PR d1 dp -> disk_rel dp (s_disk (fst cf0)) ->
  Forall2 gch1 H1 Hp -> Forall2 gchp Hp (map gch (K ++ [CE (s_trace s1)])) ->
  gplh phys_ops fnone d1 H1 L' img1 ->
  d_lock img1 = false /\ stored_index img1 (m_idx m) /\
  d_index img1 = d_index (ghrun phys_ops H1 d1) /\ d_imeta img1 = d_imeta (ghrun phys_ops H1 d1) /\
  exists s2, db_open phys_ops P seed (closed1 img1) = (s2, OOpened false) /\ phys_open_ok s2 /\
    answers1 P s2 (abs (s_disk s)) /\
    exists m2, s_mem s2 = Some m2 /\ d_index img1 = Some (m_idx m2) /\ PhysInv (m_idx m2).
Proof.
  intros HP HX0 Hr Em Ec Hd1 Hd HH1 HHp Hpl.
  destruct (proj1 (phys_plh_image d1 dp _ H1 Hp _ fnone Hd1 Hd HH1 HHp) L' img1 Hpl)
    as (imgp & imgf & _ & Hpf & Hr1 & Hr2).
  destruct (C09_reopen_epochs P seed _ _ _ _ _ _ _ _ _ _ HP HX0 Hr Em Ec Hpf)
    as (Eimg & Elock & sf2 & Ef2 & HI2 & Hopen2 & Hc2).
  destruct (mrun_main P _ _ _ _ HP Hr None HX0 (open_DurS_None P cf0 HX0)) as ([(HI & _ & _) _] & _). cbn [fst] in HI.
  pose proof (close_ok P (clear_trace s) m (Inv_clear P s HI) Em) as Hc. rewrite Ec in Hc.
  destruct Hc as (_ & _ & _ & _ & _ & Hdi & _ & Him & _).
  assert (HL : forall f, CloseF (m_segs m) f -> L' f = false).
  { destruct (close_cl_run (clear_trace s) m Em) as (es & T & _ & Hcov). rewrite Ec in T.
    cbn [fst clear_trace s_trace app] in T.
    destruct (plh_app_inv _ _ _ _ _ _ Hpf) as (L1 & x1 & _ & Hpl2). apply plh_one_inv in Hpl2. rewrite T in Hpl2.
    intros f Hf. apply (pl_clr _ _ _ _ _ Hpl2 f false); [discriminate|apply Hcov; exact Hf]. }
  assert (HLm : L' FMain = false) by (apply HL; unfold CloseF; tauto).
  assert (HLi : L' FIndexMeta = false) by (apply HL; unfold CloseF; tauto).
  destruct (gplh_idx_agree phys_ops _ _ _ _ _ Hpl d1 (conj (fun _ => eq_refl) (fun _ => eq_refl))) as [Ai Am].
  specialize (Ai HLm). specialize (Am HLi).
  destruct (rel_rest _ _ _ Hr1) as (_ & _ & _ & R1d & _). destruct (rel_rest _ _ _ Hr2) as (_ & _ & _ & R2d & _).
  assert (Hl1 : d_lock img1 = false) by congruence.
  assert (Hlp : d_lock imgp = false) by congruence.
  assert (Hst : stored_index img1 (m_idx m)).
  { assert (Ei : d_index imgf = Some (m_idx m)) by (rewrite Eimg; exact Hdi).
    assert (Ej : d_imeta imgf = GOk (m_idx m)) by (rewrite Eimg; exact Him).
    pose proof Hr2 as Dp. apply disk_rel_iff in Dp. destruct Dp as (_ & _ & Dpi & _ & Dpm & _).
    rewrite Ei in Dpi. rewrite Ej in Dpm.
    destruct (opt_rel_some_r _ _ _ Dpi) as (ip & Eip & Rip). destruct (gob_rel_ok_r _ _ _ Dpm) as (jp & Ejp & Rjp).
    pose proof Hr1 as D1. apply disk_rel_iff in D1. destruct D1 as (_ & _ & D1i & _ & D1m & _).
    rewrite Eip in D1i. rewrite Ejp in D1m.
    destruct (opt_rel_some_r _ _ _ D1i) as (i & Ei' & Ri). destruct (gob_rel_ok_r _ _ _ D1m) as (j & Ej' & Rj).
    exists i, j, ip, jp. split; [exact Ei'|]. split; [exact Ej'|]. split; [exact Ri|]. split; [exact Rj|].
    split; [exact Rip|exact Rjp]. }
  split; [exact Hl1|]. split; [exact Hst|]. split; [exact Ai|]. split; [exact Am|].
  destruct (sim_open_clean_so P seed (closedp imgp) (closed imgf) (closed_rel imgp imgf Hr2) Elock) as [Eo2 Hs2].
  rewrite Ef2 in Eo2, Hs2. cbn [fst snd] in Eo2, Hs2.
  destruct (phys_open_clean_image P seed img1 imgp Hr1 Hlp) as [Eo3 H2].
  destruct (db_open chain_ops P seed (closedp imgp)) as [sp2 op2]. cbn [fst snd] in Eo2, Hs2, Eo3, H2. subst op2.
  destruct (db_open phys_ops P seed (closed1 img1)) as [s2 o2] eqn:E1. cbn [fst snd] in Eo3, H2. subst o2.
  assert (Hq : meq (abs (s_disk sf2)) (abs (s_disk s))) by exact Hc2.
  pose proof (PR_open_ok s2 sp2 sf2 H2 Hs2 Hopen2) as Hpo.
  exists s2. split; [reflexivity|]. split; [exact Hpo|].
  split.
  { apply (answers1_of_chain P s2 sp2 _ H2).
    apply (answers_meq P sp2 (abs (s_disk sf2)) (abs (s_disk s)) (abs_NoDup _) (abs_NoDup _) Hq).
    apply (answers_of_rel P sp2 sf2 Hs2 HI2 Hopen2). }
  assert (Hi : d_index img1 <> None) by (destruct Hst as (i & j & ip & jp & Ei & _); congruence).
  destruct (open_clean_loads_index phys_ops P seed img1 s2 Hl1 E1 Hi) as (m2 & Em2 & Ei2).
  exists m2. split; [exact Em2|]. split; [exact Ei2|].
  destruct Hpo as [(m2' & Em2' & Hinv) _]. assert (m2' = m2) by congruence. subst m2'. exact Hinv.
Qed.

(* Building blocks for the hypotheses [Forall2 gch1] / [Forall2 gchp] of the two theorems above: the
   chunks of an epoch of operations, of a Close, and of an Open (recovering or clean) on related
   directories are related, and so are the states they end in. *)
Lemma chunks_ops P cff os cfs tr cff' cf1 cfp :
  params_ok P -> xrun P cff os cfs tr cff' -> XOpen P cff -> T3 cf1 cfp cff ->
  gch1 (GCE (gxtrace phys_ops P cf1 os)) (GCE (gxtrace chain_ops P cfp os)) /\
  gchp (GCE (gxtrace chain_ops P cfp os)) (gch (CE tr)) /\
  T3 (gxrun phys_ops P cf1 os) (gxrun chain_ops P cfp os) cff'.
Proof.
  intros HP Hr HX HT. destruct (T3_run P _ _ _ _ _ HP Hr cf1 cfp HX HT) as (A & B & C).
  split; [constructor; exact B|]. split; [constructor; exact C|exact A].
Qed.

Lemma chunks_close (s1 : st1) (sp : stp) (sf : stf) :
  gst_rel PR s1 sp -> st_rel sp sf ->
  let s1a := fst (db_close phys_ops (clear_trace s1)) in
  let spa := fst (db_close chain_ops (clear_trace sp)) in
  let sfa := fst (db_close flat_ops (clear_trace sf)) in
  gch1 (GCE (s_trace s1a)) (GCE (s_trace spa)) /\ gchp (GCE (s_trace spa)) (gch (CE (s_trace sfa))) /\
  gst_rel PR s1a spa /\ st_rel spa sfa.
Proof.
  intros H1 Hs. cbv zeta.
  destruct (xsim_close phys_ops chain_ops PR phys_exact_sim _ _ (clear_trace_rel PR _ _ H1)) as [_ A].
  destruct (sim_close_so _ _ (clear_trace_rel idx_rel _ _ Hs)) as [_ B].
  split; [constructor; exact (st_rel_trace PR _ _ A)|]. split; [constructor; exact (st_rel_trace idx_rel _ _ B)|].
  split; assumption.
Qed.

Lemma chunks_open P seed (d1 : disk1) (dp : diskp) (df : diskf) :
  gdisk_rel PR d1 dp -> disk_rel dp df -> (d_lock df = true -> DiskOK df /\ bac_ok df) ->
  let s1' := fst (db_open phys_ops P seed (closed1 d1)) in
  let sp' := fst (db_open chain_ops P seed (closedp dp)) in
  let sf' := fst (db_open flat_ops P seed (closed df)) in
  gch1 (GCE (s_trace s1')) (GCE (s_trace sp')) /\ gchp (GCE (s_trace sp')) (gch (CE (s_trace sf'))) /\
  gst_rel PR s1' sp' /\ st_rel sp' sf' /\
  snd (db_open phys_ops P seed (closed1 d1)) = snd (db_open flat_ops P seed (closed df)).
Proof.
  intros H1 Hd Hok. cbv zeta.
  destruct (phys_open_image_flat P seed d1 dp df H1 Hd (fun El => proj1 (Hok El))) as [Eo A].
  assert (Hso : so_rel idx_rel (db_open chain_ops P seed (closedp dp)) (db_open flat_ops P seed (closed df))).
  { destruct (d_lock df) eqn:El.
    - destruct (Hok eq_refl) as [G1 G2]. apply sim_open_recover_so; [apply closed_rel; exact Hd|exact G1|exact G2|exact El].
    - apply sim_open_clean_so; [apply closed_rel; exact Hd|exact El]. }
  destruct Hso as [Eo' B].
  split; [constructor; exact (st_rel_trace PR _ _ A)|]. split; [constructor; exact (st_rel_trace idx_rel _ _ B)|].
  split; [exact A|]. split; [exact B|congruence].
Qed.

(* ================================================================================================ *)
(** * 8. Non-vacuity: the state of PhysCrash.PhysCrashEx (35 colliding keys: 31 slots in the main
      bucket, 4 in an overflow bucket), by vm_compute *)

Module PhysPLEx.
Import SessEx PhysCrashEx.

Definition k2 : key := [78].
Definition v2 : val := [8; 8].
Definition oP1 : xop := XOp (DBProofsCrash.OpPut kX vX).
Definition oS : xop := XOp DBProofsCrash.OpSync.
Definition oP2 : xop := XOp (DBProofsCrash.OpPut k2 v2).

(* the flat run that supplies the side conditions: Put kX; Sync; Put k2 *)
Definition fA : stf := Eval vm_compute in run_op exP (DBProofsCrash.OpPut kX vX) sfX.
Definition fS : stf := Eval vm_compute in run_op exP DBProofsCrash.OpSync fA.
Definition fB : stf := Eval vm_compute in run_op exP (DBProofsCrash.OpPut k2 v2) fS.
Lemma fA_eq : run_op exP (DBProofsCrash.OpPut kX vX) sfX = fA. Proof. vm_compute. reflexivity. Qed.
Lemma fS_eq : run_op exP DBProofsCrash.OpSync fA = fS. Proof. vm_compute. reflexivity. Qed.
Lemma fB_eq : run_op exP (DBProofsCrash.OpPut k2 v2) fS = fB. Proof. vm_compute. reflexivity. Qed.

Lemma X_open : XOpen exP (sfX, None).
Proof.
  destruct put_hyps as (HI & (m & Em & _) & Hb & _). split; [|exact Logic.I]. cbn [fst].
  split; [exact HI|]. split; [congruence|exact Hb].
Qed.
Lemma X_T3 : T3 (s1X, None) (spX, None) (sfX, None).
Proof. destruct X_rel1 as (A & B & _). split; [exact A|]. split; [exact B|]. split; reflexivity. Qed.

Lemma X_run0 : xrun exP (sfX, None) [oP1] [(fA, None)] (s_trace fA ++ []) (fA, None).
Proof.
  destruct put_hyps as (_ & Hroom & _ & Hbk & Hbv & Hk & Hv).
  pose proof (xs_op exP sfX None (DBProofsCrash.OpPut kX vX) (conj Hroom (conj Hbk (conj Hbv (conj Hk Hv))))) as H.
  rewrite fA_eq in H. exact (xr_cons exP _ _ _ _ _ _ _ H (xr_nil exP _)).
Qed.
Lemma X_sync : xstep exP (fA, None) oS (fS, None).
Proof. pose proof (xs_op exP fA None DBProofsCrash.OpSync Logic.I) as H. rewrite fS_eq in H. exact H. Qed.
Lemma X_run1 : xrun exP (fS, None) [oP2] [(fB, None)] (s_trace fB ++ []) (fB, None).
Proof.
  assert (Hpre : op_pre (DBProofsCrash.OpPut k2 v2) fS).
  { split; [apply ex_room; vm_compute; reflexivity|].
    split; [apply ex_bytes; vm_compute; reflexivity|]. split; [apply ex_bytes; vm_compute; reflexivity|].
    split; vm_compute; discriminate. }
  pose proof (xs_op exP fS None (DBProofsCrash.OpPut k2 v2) Hpre) as H.
  rewrite fB_eq in H. exact (xr_cons exP _ _ _ _ _ _ _ H (xr_nil exP _)).
Qed.

(* the phys history: Put kX (record, index write, Sync of the segment: p_sync); Sync; then the first
   five events of Put k2, which rolls over (Sync of the sealed segment, creation and header of the new
   segment file, record, index write): the power fails before the Sync of the new segment *)
Definition c1s : gcfg phys := gxstep phys_ops exP (gxrun phys_ops exP (s1X, None) [oP1]) oS.
Definition ev_all : list (@fsev phys) :=
  gxtrace phys_ops exP (s1X, None) [oP1] ++ s_trace (fst c1s) ++ firstn 5 (gxtrace phys_ops exP c1s [oP2]).

Definition img_of1 (r : option (fset * disk1)) : disk1 := match r with Some (_, img) => img | None => disk0 end.
Definition ev_kind (e : @fsev phys) : N :=
  match e with EAppend _ _ _ _ => 1 | EIndex _ => 2 | ESync (FSeg _ _) => 3 | ESync _ => 4 | EGobIndex _ => 5
             | ERemove FLock => 6 | _ => 0 end.

(* image A: the record of Put k2 is lost although the index write that followed it was kept (main.pix
   of the image holds 37 keys, one of them points past the end of the log);
   image B: nothing is lost *)
Definition cs_lostA : list plc := [Keep; Keep; Keep; Keep; Keep; Keep; Keep; Drop; Keep].
Definition cs_lostB : list plc := [Keep; Keep; Keep; Keep; Keep; Keep; Keep; Keep; Keep].

Lemma ex_image (es : list (@fsev phys)) (cs : list plc) :
  is_some (gpl_exec phys_ops cs fnone (s_disk s1X) es) = true ->
  exists L, gpl phys_ops fnone (s_disk s1X) es L (img_of1 (gpl_exec phys_ops cs fnone (s_disk s1X) es)).
Proof.
  intros H. destruct (gpl_exec phys_ops cs fnone (s_disk s1X) es) as [[L img]|] eqn:E; [|discriminate H].
  exists L. apply (gpl_exec_sound phys_ops cs). exact E.
Qed.

(* what C06_synced_writes_survive_phys gives for any admissible image of this history *)
Lemma ex_C06_any L img1 :
  gpl phys_ops fnone (s_disk s1X) ev_all L img1 ->
  exists s2, db_open phys_ops exP 9 (closed1 img1) = (s2, OOpened true) /\ phys_open_ok s2 /\
    exists j ms, (j <= 1)%nat /\ answers1 exP s2 ms /\
      (forall k, sget ms k = xspec_hist (firstn j [oP2]) (cont (s_disk fS)) k).
Proof.
  intros Hpl.
  destruct (C06_synced_writes_survive_phys exP 9 (s1X, None) (spX, None) (sfX, None) [oP1] _ _ (fA, None) oS (fS, None)
              [oP2] _ _ (fB, None) 5 L img1 exP_ok X_open X_T3 X_run0 X_sync Logic.I X_run1 Hpl)
    as (_ & s2 & E & Hpo & j & ms & Hj & Hans & _ & Hms & _).
  exists s2. split; [exact E|]. split; [exact Hpo|]. exists j, ms. split; [exact Hj|]. split; [exact Hans|exact Hms].
Qed.

Example C06_phys_nonvacuous :
  let imgA := img_of1 (gpl_exec phys_ops cs_lostA fnone (s_disk s1X) ev_all) in
  let imgB := img_of1 (gpl_exec phys_ops cs_lostB fnone (s_disk s1X) ev_all) in
  map ev_kind ev_all = [1; 2; 3; 3; 3; 0; 0; 1; 2] /\
  (* losing the record of the FIRST Put (flushed by its Sync) is not admissible *)
  gpl_exec phys_ops [Drop; Keep; Keep; Keep; Keep; Keep; Keep; Keep; Keep] fnone (s_disk s1X) ev_all = None /\
  (* image A: main.pix knows 37 keys, the log has 36 records *)
  nkeys_on_disk imgA = 37 /\
  (exists sA, db_open phys_ops exP 9 (closed1 imgA) = (sA, OOpened true) /\ phys_open_ok sA /\
     db_get phys_ops exP kX sA = OVal (Some vX) /\ db_get phys_ops exP k2 sA = OVal None /\
     db_count phys_ops sA = ONum 36) /\
  (exists sB, db_open phys_ops exP 9 (closed1 imgB) = (sB, OOpened true) /\ phys_open_ok sB /\
     db_get phys_ops exP kX sB = OVal (Some vX) /\ db_get phys_ops exP k2 sB = OVal (Some v2) /\
     db_count phys_ops sB = ONum 37).
Proof.
  cbv zeta. split; [vm_compute; reflexivity|]. split; [vm_compute; reflexivity|]. split; [vm_compute; reflexivity|].
  split.
  - destruct (ex_image ev_all cs_lostA) as (L & Hpl); [vm_compute; reflexivity|].
    destruct (ex_C06_any L _ Hpl) as (s2 & E & Hpo & _).
    exists s2. split; [exact E|]. split; [exact Hpo|].
    assert (E3 : s2 = fst (db_open phys_ops exP 9 (closed1 (img_of1 (gpl_exec phys_ops cs_lostA fnone (s_disk s1X) ev_all)))))
      by (rewrite E; reflexivity).
    rewrite E3. split; [vm_compute; reflexivity|]. split; vm_compute; reflexivity.
  - destruct (ex_image ev_all cs_lostB) as (L & Hpl); [vm_compute; reflexivity|].
    destruct (ex_C06_any L _ Hpl) as (s2 & E & Hpo & _).
    exists s2. split; [exact E|]. split; [exact Hpo|].
    assert (E3 : s2 = fst (db_open phys_ops exP 9 (closed1 (img_of1 (gpl_exec phys_ops cs_lostB fnone (s_disk s1X) ev_all)))))
      by (rewrite E; reflexivity).
    rewrite E3. split; [vm_compute; reflexivity|]. split; vm_compute; reflexivity.
Qed.

(* ---- Put kX; Close; power failure; clean Open with the index from the image ---- *)
Definition fC : stf := Eval vm_compute in fst (db_close flat_ops (clear_trace fA)).
Lemma fC_eq : db_close flat_ops (clear_trace fA) = (fC, OOk). Proof. vm_compute. reflexivity. Qed.

Definition s1A : st1 := fst (gxrun phys_ops exP (s1X, None) [oP1]).
Definition s1C : st1 := fst (db_close phys_ops (clear_trace s1A)).
Definition ev_close : list (@fsev phys) := gxtrace phys_ops exP (s1X, None) [oP1] ++ s_trace s1C.
Definition cs_keep : list plc := map (fun _ => Keep) ev_close.
(* the index write of the Put is dropped: admissible before Close flushes main.pix, not after *)
Definition cs_drop_index : list plc := Keep :: Drop :: map (fun _ => Keep) (tl (tl ev_close)).

Lemma ex_C09_any L img1 :
  gpl phys_ops fnone (s_disk s1X) ev_close L img1 ->
  img1 = set_orphans (s_disk s1C) (d_orphans img1) /\
  exists s2, db_open phys_ops exP 9 (closed1 img1) = (s2, OOpened false) /\ phys_open_ok s2 /\
    answers1 exP s2 (abs (s_disk fA)) /\
    exists m2, s_mem s2 = Some m2 /\ d_index img1 = Some (m_idx m2) /\ PhysInv (m_idx m2).
Proof.
  intros Hpl. assert (Em : exists m, s_mem fA = Some m) by (eexists; reflexivity). destruct Em as [m Em].
  destruct (C09_closed_is_durable_phys exP (s1X, None) (spX, None) (sfX, None) [oP1] _ _ fA None m fC OOk L img1
              exP_ok X_open X_T3 X_run0 Em fC_eq Hpl) as (_ & _ & Eimg & _).
  destruct (C09_reopen_phys exP 9 (s1X, None) (spX, None) (sfX, None) [oP1] _ _ fA None m fC OOk L img1
              exP_ok X_open X_T3 X_run0 Em fC_eq Hpl) as (_ & s2 & E & Hpo & Hans & (m2 & Em2 & Ei & _ & Hinv) & _).
  split; [exact Eimg|]. exists s2. split; [exact E|]. split; [exact Hpo|]. split; [exact Hans|].
  exists m2. split; [exact Em2|]. split; [exact Ei|exact Hinv].
Qed.

Example C09_phys_nonvacuous :
  let img := img_of1 (gpl_exec phys_ops cs_keep fnone (s_disk s1X) ev_close) in
  (* the Put (3 events), then Close: db.pmt, per segment (6 of them) a Sync and its side file, index.pmt
     (event kind 5) and its Sync, Sync of main.pix and of overflow.pix, removal of the lock file *)
  map ev_kind ev_close =
    [1; 2; 3; 0; 0; 0; 4; 3; 0; 0; 0; 4; 3; 0; 0; 0; 4; 3; 0; 0; 0; 4; 3;
     0; 0; 0; 4; 3; 0; 0; 0; 4; 3; 0; 0; 0; 4; 0; 0; 5; 4; 4; 4; 6] /\
  is_some (gpl_exec phys_ops cs_keep fnone (s_disk s1X) ev_close) = true /\
  (* after the complete Close, an image without the index write of the Put is NOT admissible *)
  gpl_exec phys_ops cs_drop_index fnone (s_disk s1X) ev_close = None /\
  d_lock img = false /\ nkeys_on_disk img = 36 /\
  exists s2, db_open phys_ops exP 9 (closed1 img) = (s2, OOpened false) /\ phys_open_ok s2 /\
    answers1 exP s2 (abs (s_disk fA)) /\
    (exists m2, s_mem s2 = Some m2 /\ d_index img = Some (m_idx m2) /\ PhysInv (m_idx m2)) /\
    db_get phys_ops exP kX s2 = OVal (Some vX) /\ db_count phys_ops s2 = ONum 36 /\
    match s_mem s2 with
    | Some m2 => map pb_next (ph_main (m_idx m2)) = [512] /\ ph_nkeys (m_idx m2) = 36
    | None => False
    end.
Proof.
  cbv zeta. split; [vm_compute; reflexivity|]. split; [vm_compute; reflexivity|].
  split; [vm_compute; reflexivity|]. split; [vm_compute; reflexivity|]. split; [vm_compute; reflexivity|].
  destruct (ex_image ev_close cs_keep) as (L & Hpl); [vm_compute; reflexivity|].
  destruct (ex_C09_any L _ Hpl) as (_ & s2 & E & Hpo & Hans & Hm2).
  exists s2. split; [exact E|]. split; [exact Hpo|]. split; [exact Hans|]. split; [exact Hm2|].
  assert (E3 : s2 = fst (db_open phys_ops exP 9 (closed1 (img_of1 (gpl_exec phys_ops cs_keep fnone (s_disk s1X) ev_close)))))
    by (rewrite E; reflexivity).
  rewrite E3. split; [vm_compute; reflexivity|]. split; [vm_compute; reflexivity|]. vm_compute. split; reflexivity.
Qed.
End PhysPLEx.

(* ================================================================================================ *)
Print Assumptions gpl_flat.
Print Assumptions gpl_exec_flat.
Print Assumptions gplh_flat.
Print Assumptions pl_exec_g.
Print Assumptions pl_image_g.
Print Assumptions plh_image_fwd.
Print Assumptions plh_image_bwd.
Print Assumptions chain_pl_image.
Print Assumptions phys_pl_image.
Print Assumptions phys_pl_image_inv.
Print Assumptions phys_plh_image.
Print Assumptions gpl_idx_agree.
Print Assumptions gplh_idx_agree.
Print Assumptions gpl_index_cases.
Print Assumptions gxrun_disk.
Print Assumptions gxrun_flat.
Print Assumptions T3_run.
Print Assumptions C09_closed_is_durable_phys.
Print Assumptions open_clean_loads_index.
Print Assumptions C09_reopen_phys.
Print Assumptions C06_synced_writes_survive_phys.
Print Assumptions C06_per_key_phys.
Print Assumptions C06_with_recovery_image.
Print Assumptions C06_with_recovery_phys_partial.
Print Assumptions C09_reopen_epochs_phys_partial.
Print Assumptions chunks_ops.
Print Assumptions chunks_close.
Print Assumptions chunks_open.
Print Assumptions PhysPLEx.C06_phys_nonvacuous.
Print Assumptions PhysPLEx.C09_phys_nonvacuous.
