(* Base.v -- common definitions of the pogreb model: bytes, keys, slots, the index interface.
   Style: Coq standard library only. Machine integers are N with explicit wrap-around. *)
From Coq Require Export NArith List Bool Lia.
Export ListNotations.
Open Scope N_scope.

Definition byte (b : N) : Prop := b < 256.
Definition bytes := list N.
Definition key := bytes.
Definition val := bytes.

(* Lengths, prefixes and suffixes counted in N: no unary number of data-dependent size is built. *)
Fixpoint nlen {A} (l : list A) : N :=
  match l with [] => 0 | _ :: l' => N.succ (nlen l') end.

Fixpoint ntake_pos {A} (p : positive) (l : list A) {struct l} : list A :=
  match l with
  | [] => []
  | x :: l' => x :: (match p with xH => [] | _ => ntake_pos (Pos.pred p) l' end)
  end.
Definition ntake {A} (n : N) (l : list A) : list A :=
  match n with N0 => [] | Npos p => ntake_pos p l end.

Fixpoint ndrop_pos {A} (p : positive) (l : list A) {struct l} : list A :=
  match l with
  | [] => []
  | _ :: l' => match p with xH => l' | _ => ndrop_pos (Pos.pred p) l' end
  end.
Definition ndrop {A} (n : N) (l : list A) : list A :=
  match n with N0 => l | Npos p => ndrop_pos p l end.

Definition bytes_eqb (a b : bytes) : bool :=
  if list_eq_dec N.eq_dec a b then true else false.
Definition key_eqb := bytes_eqb.

Lemma bytes_eqb_spec a b : reflect (a = b) (bytes_eqb a b).
Proof. unfold bytes_eqb. destruct (list_eq_dec N.eq_dec a b); constructor; assumption. Qed.
Lemma key_eqb_refl k : key_eqb k k = true.
Proof. unfold key_eqb. destruct (bytes_eqb_spec k k); congruence. Qed.
Lemma key_eqb_eq a b : key_eqb a b = true <-> a = b.
Proof. unfold key_eqb. destruct (bytes_eqb_spec a b); split; congruence. Qed.
Lemma key_eqb_neq a b : key_eqb a b = false <-> a <> b.
Proof. unfold key_eqb. destruct (bytes_eqb_spec a b); split; congruence. Qed.

(* uintN(x) *)
Definition u16 (x : N) : N := x mod 65536.
Definition u32 (x : N) : N := x mod 4294967296.

(* A log record (segment.go: record). Delete records normally carry an empty value, but the
   format and the reader allow any value bytes, so the model does too. *)
Record rec := { rk : key; rv : val; rdel : bool }.
Definition is_put (r : rec) : bool := negb (rdel r).
Definition mkput (k : key) (v : val) : rec := {| rk := k; rv := v; rdel := false |}.
Definition mkdel (k : key) : rec := {| rk := k; rv := []; rdel := true |}.

(* index slot (bucket.go: slot) *)
Record slot := { sl_h : N; sl_seg : N; sl_ks : N; sl_vs : N; sl_off : N }.

Definition slot_eqb (a b : slot) : bool :=
  (sl_h a =? sl_h b) && (sl_seg a =? sl_seg b) && (sl_ks a =? sl_ks b) &&
  (sl_vs a =? sl_vs b) && (sl_off a =? sl_off b).

(* The operations the database needs from an index (index.go), as a record so that the
   database model is written once and instantiated with the flat reference index (Flat.v)
   and with the linear-hashing bucket chains (Index.v).
   [matchf] is the matchKey callback; [grow nkeys nbuckets] is the split policy. *)
Record idx_ops (I : Type) := {
  ix_empty : I;
  ix_get : I -> N -> (slot -> bool) -> option slot;
  ix_put : (N -> N -> bool) -> I -> slot -> (slot -> bool) -> I * option slot;
  ix_del : I -> N -> (slot -> bool) -> I * option slot;
  (* promoteRecord: find the slot with this hash, segment and offset; repoint it *)
  ix_repoint : I -> N -> N -> N -> N -> N -> option I;
  ix_count : I -> N;
  ix_nbuckets : I -> N;
  ix_bucket : I -> N -> list slot;
}.
Arguments ix_empty {I}. Arguments ix_get {I}. Arguments ix_put {I}. Arguments ix_del {I}.
Arguments ix_repoint {I}. Arguments ix_count {I}. Arguments ix_nbuckets {I}. Arguments ix_bucket {I}.
