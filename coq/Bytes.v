(* Bytes.v -- little-endian integer encodings (encoding/binary.LittleEndian). *)
From Pogreb Require Import Base.

Fixpoint le (n : nat) (x : N) : bytes :=
  match n with O => [] | S n' => (x mod 256) :: le n' (x / 256) end.

Fixpoint unle (bs : bytes) : N :=
  match bs with [] => 0 | b :: bs' => b + 256 * unle bs' end.
