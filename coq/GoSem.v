(* GoSem.v -- the meaning of the operators that tools/gotrans (funcs.go) emits into gen/Funcs.v:
   Go's integer operators at a fixed width, over Z.  Hand-written from the Go specification
   ("Arithmetic operators", "Integer overflow", "Conversions between numeric types"); trusted.

     U w   unsigned integers of w bits: values 0 .. 2^w - 1, arithmetic modulo 2^w
     S w   signed integers of w bits in two's complement: values -2^(w-1) .. 2^(w-1) - 1, wrap-around

   [wrap t z] is the value of type t that the infinitely precise result z is reduced to (for unsigned
   types "the high bits are discarded"; for signed types "no exception is raised, wraps around");
   a conversion between integer types is [wrap] as well (sign extension / truncation of the two's
   complement representation is exactly reduction modulo 2^w into the range of the type).
   Bitwise operators act on the two's complement representation, which is what Z.land / Z.lor /
   Z.lxor / Z.ldiff compute on Z; on operands in range their results are in range.
   Shifts: the count is non-negative (Go panics on a negative count; gotrans only emits counts of
   unsigned type or constants); `x << s` discards the high bits, for s >= w the result is 0;
   `x >> s` is an arithmetic shift for signed and a logical shift for unsigned operands, both are
   Z.shiftr on the value.  Division (only by a non-zero constant: gotrans refuses anything else)
   truncates towards zero.  Comparisons compare the values. *)
From Coq Require Import ZArith Bool Lia.
Open Scope Z_scope.

Inductive ity := U (w : Z) | S (w : Z).

Definition wrap (t : ity) (z : Z) : Z :=
  match t with
  | U w => z mod 2 ^ w
  | S w => (z + 2 ^ (w - 1)) mod 2 ^ w - 2 ^ (w - 1)
  end.

(* the values of a type *)
Definition inr (t : ity) (z : Z) : Prop :=
  match t with
  | U w => 0 <= z < 2 ^ w
  | S w => - 2 ^ (w - 1) <= z < 2 ^ (w - 1)
  end.

Definition go_conv (t : ity) (a : Z) : Z := wrap t a.
Definition go_add (t : ity) (a b : Z) : Z := wrap t (a + b).
Definition go_sub (t : ity) (a b : Z) : Z := wrap t (a - b).
Definition go_mul (t : ity) (a b : Z) : Z := wrap t (a * b).
Definition go_and (t : ity) (a b : Z) : Z := Z.land a b.
Definition go_or (t : ity) (a b : Z) : Z := Z.lor a b.
Definition go_xor (t : ity) (a b : Z) : Z := Z.lxor a b.
Definition go_andnot (t : ity) (a b : Z) : Z := Z.ldiff a b.
Definition go_not (t : ity) (a : Z) : Z := wrap t (Z.lnot a).
Definition go_shl (t : ity) (a s : Z) : Z := wrap t (Z.shiftl a s).
Definition go_shr (t : ity) (a s : Z) : Z := Z.shiftr a s.
Definition go_quo (t : ity) (a b : Z) : Z := wrap t (Z.quot a b).
Definition go_rem (t : ity) (a b : Z) : Z := Z.rem a b.
Definition go_eqb (a b : Z) : bool := a =? b.
Definition go_neqb (a b : Z) : bool := negb (a =? b).
Definition go_ltb (a b : Z) : bool := a <? b.
Definition go_leb (a b : Z) : bool := a <=? b.
Definition go_gtb (a b : Z) : bool := b <? a.
Definition go_geb (a b : Z) : bool := b <=? a.

(* ---- basic facts used by the Funcs*Check files ---- *)

Lemma wrap_U_id w z : 0 <= z < 2 ^ w -> wrap (U w) z = z.
Proof. intros H. cbn [wrap]. apply Z.mod_small. exact H. Qed.

Lemma wrap_S_id w z : 0 < w -> - 2 ^ (w - 1) <= z < 2 ^ (w - 1) -> wrap (S w) z = z.
Proof.
  intros Hw H. cbn [wrap].
  assert (E : 2 ^ w = 2 * 2 ^ (w - 1)).
  { replace w with (Z.succ (w - 1)) at 1 by lia. rewrite Z.pow_succ_r by lia. reflexivity. }
  rewrite Z.mod_small; lia.
Qed.

Lemma wrap_inr t z : (match t with U w => 0 <= w | S w => 0 < w end) -> inr t (wrap t z).
Proof.
  destruct t as [w|w]; intros Hw; cbn [wrap inr].
  - apply Z.mod_pos_bound. apply Z.pow_pos_nonneg; lia.
  - assert (E : 2 ^ w = 2 * 2 ^ (w - 1)).
    { replace w with (Z.succ (w - 1)) at 1 by lia. rewrite Z.pow_succ_r by lia. reflexivity. }
    assert (P : 0 < 2 ^ w) by (apply Z.pow_pos_nonneg; lia).
    pose proof (Z.mod_pos_bound (z + 2 ^ (w - 1)) (2 ^ w) P). lia.
Qed.

(* constants, kept folded *)
Lemma p2_8 : 2 ^ 8 = 256. Proof. reflexivity. Qed.
Lemma p2_16 : 2 ^ 16 = 65536. Proof. reflexivity. Qed.
Lemma p2_31 : 2 ^ 31 = 2147483648. Proof. reflexivity. Qed.
Lemma p2_32 : 2 ^ 32 = 4294967296. Proof. reflexivity. Qed.
Lemma p2_63 : 2 ^ 63 = 9223372036854775808. Proof. reflexivity. Qed.
Lemma p2_64 : 2 ^ 64 = 18446744073709551616. Proof. reflexivity. Qed.

Lemma wrap_U32 z : 0 <= z < 4294967296 -> wrap (U 32) z = z.
Proof. intros H. apply wrap_U_id. rewrite p2_32. exact H. Qed.
Lemma wrap_U8 z : 0 <= z < 256 -> wrap (U 8) z = z.
Proof. intros H. apply wrap_U_id. rewrite p2_8. exact H. Qed.
Lemma wrap_S64 z : - 9223372036854775808 <= z < 9223372036854775808 -> wrap (S 64) z = z.
Proof. intros H. apply wrap_S_id; [lia|]. change (64 - 1) with 63. rewrite p2_63. exact H. Qed.

(* ---- bit 31 of a 32-bit value (the delete bit of a record's value-length field) ---- *)
(* a 32-bit value split at bit 31 *)
Lemma split31 w : 0 <= w < 4294967296 ->
  exists hi lo, w = lo + hi * 2147483648 /\ 0 <= lo < 2147483648 /\ (hi = 0 \/ hi = 1) /\
                (hi = 1 <-> 2147483648 <= w).
Proof.
  intros H. exists (w / 2147483648), (w mod 2147483648).
  pose proof (Z.div_mod w 2147483648 ltac:(lia)) as D.
  pose proof (Z.mod_pos_bound w 2147483648 ltac:(lia)) as M.
  assert (0 <= w / 2147483648 < 2) by (split; [apply Z.div_pos; lia|apply Z.div_lt_upper_bound; lia]).
  repeat split; try lia.
Qed.

Lemma testbit_lo lo n : 0 <= lo < 2147483648 -> 31 <= n -> Z.testbit lo n = false.
Proof.
  intros H Hn. destruct (Z.eq_dec lo 0) as [->|Ne]. apply Z.bits_0.
  apply Z.bits_above_log2; [lia|]. apply Z.lt_le_trans with 31; [|lia].
  apply Z.log2_lt_pow2; [lia|]. rewrite p2_31. lia.
Qed.

Lemma land_lo_bit31 lo : 0 <= lo < 2147483648 -> Z.land lo 2147483648 = 0.
Proof.
  intros H. apply Z.bits_inj'. intros n Hn. rewrite Z.land_spec, Z.bits_0. rewrite <- p2_31.
  rewrite Z.pow2_bits_eqb by lia. destruct (Z.eqb_spec 31 n) as [<-|Ne].
  - rewrite testbit_lo by lia. reflexivity.
  - apply andb_false_r.
Qed.

Lemma lor_bit31 lo : 0 <= lo < 2147483648 -> Z.lor lo 2147483648 = lo + 2147483648.
Proof.
  intros H. pose proof (land_lo_bit31 lo H) as D.
  rewrite <- Z.lxor_lor by exact D. rewrite <- Z.add_nocarry_lxor by exact D. reflexivity.
Qed.

Lemma land_bit31 w : 0 <= w < 4294967296 ->
  Z.land w 2147483648 = if 2147483648 <=? w then 2147483648 else 0.
Proof.
  intros H. destruct (split31 w H) as (hi & lo & E & Hlo & Hhi & Hw).
  destruct Hhi as [->| ->].
  - replace (2147483648 <=? w) with false by (symmetry; apply Z.leb_gt; lia).
    rewrite E, Z.mul_0_l, Z.add_0_r. apply land_lo_bit31; lia.
  - replace (2147483648 <=? w) with true by (symmetry; apply Z.leb_le; lia).
    rewrite E, Z.mul_1_l. rewrite <- (lor_bit31 lo Hlo).
    apply Z.bits_inj'. intros n Hn. rewrite Z.land_spec, Z.lor_spec.
    destruct (Z.testbit 2147483648 n); [rewrite orb_true_r|rewrite orb_false_r, andb_false_r]; reflexivity.
Qed.

Lemma ldiff_bit31 w : 0 <= w < 4294967296 -> Z.ldiff w 2147483648 = w mod 2147483648.
Proof.
  intros H. destruct (split31 w H) as (hi & lo & E & Hlo & Hhi & Hw).
  assert (M : w mod 2147483648 = lo).
  { rewrite E. rewrite Z.mod_add by lia. apply Z.mod_small. lia. }
  rewrite M. destruct Hhi as [->| ->].
  - rewrite E, Z.mul_0_l, Z.add_0_r.
    apply Z.bits_inj'. intros n Hn. rewrite Z.ldiff_spec. rewrite <- p2_31, Z.pow2_bits_eqb by lia.
    destruct (Z.eqb_spec 31 n) as [<-|Ne]; cbn [negb].
    + rewrite andb_false_r. symmetry. apply testbit_lo; lia.
    + apply andb_true_r.
  - rewrite E, Z.mul_1_l. rewrite <- (lor_bit31 lo Hlo).
    apply Z.bits_inj'. intros n Hn. rewrite Z.ldiff_spec, Z.lor_spec. rewrite <- p2_31, Z.pow2_bits_eqb by lia.
    destruct (Z.eqb_spec 31 n) as [<-|Ne]; cbn [negb].
    + rewrite andb_false_r. symmetry. apply testbit_lo; lia.
    + rewrite orb_false_r. apply andb_true_r.
Qed.
