(* RecordProofs.v -- theorems about the record codec and the validating reader of Record.v. *)
From Coq Require Import ZArith Lia ZifyN ZifyNat ZifyBool.
From Pogreb Require Import Base BaseLemmas Crc Bytes Record.
Ltac Zify.zify_post_hook ::= Z.div_mod_to_equations.

Definition rec_ok (r : rec) : Prop :=
  Forall byte (rk r) /\ Forall byte (rv r) /\ nlen (rk r) < 65536 /\ nlen (rv r) < delbit.

(* ---- constants ---- *)
Lemma delbit_val : delbit = 2147483648. Proof. reflexivity. Qed.
Lemma delbit_pow : delbit = 2 ^ 31. Proof. reflexivity. Qed.
Lemma rec_overhead_val : rec_overhead = 10. Proof. reflexivity. Qed.
Lemma pow2_32 : 2 ^ 32 = 4294967296. Proof. reflexivity. Qed.
Lemma pow256_2 : 256 ^ N.of_nat 2 = 65536. Proof. reflexivity. Qed.
Lemma pow256_4 : 256 ^ N.of_nat 4 = 4294967296. Proof. reflexivity. Qed.

(* ==== 1. little-endian encodings ==== *)
Lemma le_length n x : length (le n x) = n.
Proof.
  revert x. induction n as [|n IH]; intros x; [reflexivity|].
  cbn [le length]. rewrite IH. reflexivity.
Qed.

Lemma nlen_le n x : nlen (le n x) = N.of_nat n.
Proof. rewrite nlen_length, le_length. reflexivity. Qed.

Lemma le_bytes n x : Forall byte (le n x).
Proof.
  revert x. induction n as [|n IH]; intros x; cbn [le]; constructor; [|apply IH].
  unfold byte. apply N.mod_lt. discriminate.
Qed.

Lemma pow256_succ n : 256 ^ N.of_nat (S n) = 256 * 256 ^ N.of_nat n.
Proof. rewrite Nat2N.inj_succ, N.pow_succ_r'. reflexivity. Qed.

Lemma unle_le n x : x < 256 ^ N.of_nat n -> unle (le n x) = x.
Proof.
  revert x. induction n as [|n IH]; intros x H.
  - change (256 ^ N.of_nat 0) with 1 in H. cbn [le unle]. lia.
  - rewrite pow256_succ in H. cbn [le unle].
    set (p := 256 ^ N.of_nat n) in *.
    rewrite IH by (fold p; lia). lia.
Qed.

Lemma unle_inj a b :
  Forall byte a -> Forall byte b -> length a = length b -> unle a = unle b -> a = b.
Proof.
  revert b. induction a as [|x a IH]; intros b Ha Hb Hl E.
  - destruct b; [reflexivity|discriminate].
  - destruct b as [|y b]; [discriminate|].
    inversion Ha as [|? ? Hx Ha']; subst. inversion Hb as [|? ? Hy Hb']; subst.
    cbn [unle] in E. cbn [length] in Hl. unfold byte in Hx, Hy.
    assert (Hxy : x = y) by lia. subst y.
    f_equal. apply IH; [assumption|assumption|lia|lia].
Qed.

Lemma unle_lt bs : Forall byte bs -> unle bs < 256 ^ nlen bs.
Proof.
  induction bs as [|b bs IH]; intros H.
  - cbn [unle nlen]. change (256 ^ 0) with 1. lia.
  - inversion H as [|? ? Hb H']; subst. specialize (IH H').
    cbn [unle nlen]. rewrite N.pow_succ_r'. unfold byte in Hb.
    set (p := 256 ^ nlen bs) in *. lia.
Qed.

Lemma unle_le2 x : x < 65536 -> unle (le 2 x) = x.
Proof. intros H. apply unle_le. rewrite pow256_2. exact H. Qed.

Lemma unle_le4 x : x < 4294967296 -> unle (le 4 x) = x.
Proof. intros H. apply unle_le. rewrite pow256_4. exact H. Qed.

(* ---- CRC range ---- *)
Lemma lxor_lt32_both s t : lt32 s -> lt32 t -> lt32 (N.lxor s t).
Proof.
  intros Hs Ht. apply lt32_bits. intros n Hn. rewrite N.lxor_spec.
  rewrite (proj1 (lt32_bits s) Hs n Hn), (proj1 (lt32_bits t) Ht n Hn). reflexivity.
Qed.

Lemma mask32_lt32 : lt32 mask32.
Proof. unfold lt32, mask32. rewrite pow2_32. lia. Qed.

Lemma crc32_lt32 bs : Forall byte bs -> crc32 bs < 2 ^ 32.
Proof.
  intros H. unfold crc32. apply lxor_lt32_both; [|exact mask32_lt32].
  apply crc_state_lt32; [exact mask32_lt32|exact H].
Qed.

Lemma crc32_lt bs : Forall byte bs -> crc32 bs < 4294967296.
Proof. intros H. rewrite <- pow2_32. apply crc32_lt32. exact H. Qed.

(* ---- the value-size field ---- *)
Lemma land_small_pow2 x n : x < 2 ^ n -> N.land x (2 ^ n) = 0.
Proof.
  intros H. apply N.bits_inj_0. intros m. rewrite N.land_spec, N.pow2_bits_eqb.
  destruct (N.eqb_spec n m) as [->|Hne]; [|apply andb_false_r].
  rewrite andb_true_r.
  destruct (N.eq_dec x 0) as [->|Hz]; [apply N.bits_0|].
  apply N.bits_above_log2. apply N.log2_lt_pow2; [lia|exact H].
Qed.

Lemma lor_small_pow2 x n : x < 2 ^ n -> N.lor x (2 ^ n) = x + 2 ^ n.
Proof.
  intros H. pose proof (land_small_pow2 x n H) as Hl.
  rewrite <- (N.lxor_lor _ _ Hl). symmetry. apply N.add_nocarry_lxor. exact Hl.
Qed.

Lemma lor_delbit x : x < delbit -> N.lor x delbit = x + delbit.
Proof. rewrite delbit_pow. apply lor_small_pow2. Qed.

Lemma vfield_spec r :
  nlen (rv r) < delbit ->
  vfield r mod delbit = nlen (rv r) /\ (delbit <=? vfield r) = rdel r /\ vfield r < 4294967296.
Proof.
  intros H. unfold vfield.
  assert (Hu : u32 (nlen (rv r)) = nlen (rv r)).
  { apply u32_small. rewrite delbit_val in H. lia. }
  rewrite Hu. destruct (rdel r).
  - rewrite (lor_delbit _ H). rewrite delbit_val in *. lia.
  - rewrite N.lor_0_r. rewrite delbit_val in *. lia.
Qed.

(* ==== 2. record encoding: size and byte range ==== *)
Lemma nlen_enc_body r : nlen (enc_body r) = 6 + nlen (rk r) + nlen (rv r).
Proof.
  unfold enc_body. rewrite !nlen_app, !nlen_le.
  change (N.of_nat 2) with 2. change (N.of_nat 4) with 4. lia.
Qed.

Lemma encode_rec_length r : nlen (encode_rec r) = rsize r.
Proof.
  unfold encode_rec, rsize. rewrite nlen_app, nlen_enc_body, nlen_le, rec_overhead_val.
  change (N.of_nat 4) with 4. lia.
Qed.

Lemma enc_body_bytes r : rec_ok r -> Forall byte (enc_body r).
Proof.
  intros (Hk & Hv & _ & _). unfold enc_body.
  apply Forall_app; split; [apply le_bytes|].
  apply Forall_app; split; [apply le_bytes|].
  apply Forall_app; split; assumption.
Qed.

Lemma encode_rec_bytes r : rec_ok r -> Forall byte (encode_rec r).
Proof.
  intros H. unfold encode_rec. apply Forall_app; split; [apply enc_body_bytes; exact H|apply le_bytes].
Qed.

(* ==== the reader, one call: an unfolded form of decode_next ==== *)
Definition hks (bs : bytes) : N := unle (ntake 2 bs).
Definition hw (bs : bytes) : N := unle (ntake 4 (ndrop 2 bs)).
Definition hsize (bs : bytes) : N := rec_overhead + hks bs + hw bs mod delbit.

Definition decode_body (bs : bytes) : dres :=
  if nlen bs <? 6 then DShort else
  if nlen bs <? hsize bs then DShort else
  if negb (unle (ntake 4 (ndrop (hsize bs - 4) bs)) =? crc32 (ntake (hsize bs - 4) bs)) then DCorrupt else
  DOk {| rk := ntake (hks bs) (ndrop 6 bs);
         rv := ntake (hw bs mod delbit) (ndrop (6 + hks bs) bs);
         rdel := delbit <=? hw bs |}
      (hsize bs) (ndrop (hsize bs) bs).

Lemma decode_next_eq bs :
  decode_next bs = match bs with [] => DDone | _ :: _ => decode_body bs end.
Proof. destruct bs; reflexivity. Qed.

Lemma decode_next_nil : decode_next [] = DDone.
Proof. reflexivity. Qed.

Lemma decode_next_nonnil bs : 0 < nlen bs -> decode_next bs = decode_body bs.
Proof.
  intros H. destruct bs as [|x bs]; [cbn [nlen] in H; lia|reflexivity].
Qed.

Lemma decode_body_fits bs :
  6 <= nlen bs -> hsize bs <= nlen bs ->
  decode_body bs =
    if negb (unle (ntake 4 (ndrop (hsize bs - 4) bs)) =? crc32 (ntake (hsize bs - 4) bs)) then DCorrupt else
    DOk {| rk := ntake (hks bs) (ndrop 6 bs);
           rv := ntake (hw bs mod delbit) (ndrop (6 + hks bs) bs);
           rdel := delbit <=? hw bs |}
        (hsize bs) (ndrop (hsize bs) bs).
Proof.
  intros H6 Hs. unfold decode_body.
  rewrite (proj2 (N.ltb_ge (nlen bs) 6) H6), (proj2 (N.ltb_ge (nlen bs) (hsize bs)) Hs).
  reflexivity.
Qed.

Lemma decode_alloc_eq bs :
  decode_alloc bs =
    match bs with
    | [] => 0
    | _ :: _ => if nlen bs <? 6 then 0 else if nlen bs <? hsize bs then 0 else hsize bs
    end.
Proof. destruct bs; reflexivity. Qed.

(* A framed input: 2-byte key size, 4-byte value field, key and value, 4-byte checksum. *)
Lemma decode_next_frame hk hv kv sum rest :
  nlen hk = 2 -> nlen hv = 4 -> nlen sum = 4 -> nlen kv = unle hk + unle hv mod delbit ->
  decode_next (hk ++ hv ++ kv ++ sum ++ rest) =
    if negb (unle sum =? crc32 (hk ++ hv ++ kv)) then DCorrupt
    else DOk {| rk := ntake (unle hk) kv; rv := ndrop (unle hk) kv; rdel := delbit <=? unle hv |}
             (rec_overhead + nlen kv) rest.
Proof.
  intros Hk Hv Hs Hkv.
  set (ks := unle hk) in *. set (vs := unle hv mod delbit) in *.
  remember (hk ++ hv ++ kv ++ sum ++ rest) as bs eqn:Ebs.
  assert (Hlen : nlen bs = 10 + nlen kv + nlen rest) by (subst bs; rewrite !nlen_app; lia).
  assert (T2 : ntake 2 bs = hk) by (subst bs; apply ntake_app_exact'; exact Hk).
  assert (D2 : ndrop 2 bs = hv ++ kv ++ sum ++ rest) by (subst bs; apply ndrop_app_exact'; exact Hk).
  assert (T4 : ntake 4 (ndrop 2 bs) = hv) by (rewrite D2; apply ntake_app_exact'; exact Hv).
  assert (D6 : ndrop 6 bs = kv ++ sum ++ rest).
  { change 6 with (2 + 4). rewrite ndrop_add, D2. apply ndrop_app_exact'. exact Hv. }
  assert (Hks : hks bs = ks) by (unfold hks; rewrite T2; reflexivity).
  assert (Hw : hw bs = unle hv) by (unfold hw; rewrite T4; reflexivity).
  assert (Hsz : hsize bs = rec_overhead + nlen kv).
  { unfold hsize. rewrite Hks, Hw. fold vs. lia. }
  assert (Eb1 : bs = (hk ++ hv ++ kv) ++ sum ++ rest) by (subst bs; rewrite <- !app_assoc; reflexivity).
  assert (Eb2 : bs = (hk ++ hv ++ kv ++ sum) ++ rest) by (subst bs; rewrite <- !app_assoc; reflexivity).
  assert (Tb : ntake (hsize bs - 4) bs = hk ++ hv ++ kv).
  { rewrite Hsz, Eb1. apply ntake_app_exact'. rewrite rec_overhead_val, !nlen_app. lia. }
  assert (Db : ndrop (hsize bs - 4) bs = sum ++ rest).
  { rewrite Hsz, Eb1. apply ndrop_app_exact'. rewrite rec_overhead_val, !nlen_app. lia. }
  assert (Ts : ntake 4 (ndrop (hsize bs - 4) bs) = sum) by (rewrite Db; apply ntake_app_exact'; exact Hs).
  assert (Dr : ndrop (hsize bs) bs = rest).
  { rewrite Hsz, Eb2. apply ndrop_app_exact'. rewrite rec_overhead_val, !nlen_app. lia. }
  assert (Tk : ntake (hks bs) (ndrop 6 bs) = ntake ks kv).
  { rewrite Hks, D6. apply ntake_app_le. lia. }
  assert (Tv : ntake (hw bs mod delbit) (ndrop (6 + hks bs) bs) = ndrop ks kv).
  { rewrite Hw, Hks, ndrop_add, D6. fold vs. rewrite ndrop_app_le by lia.
    apply ntake_app_exact'. rewrite nlen_ndrop. lia. }
  rewrite decode_next_nonnil by lia.
  rewrite decode_body_fits by (rewrite ?Hsz, ?rec_overhead_val; lia).
  rewrite Ts, Tb, Tk, Tv, Dr, Hw, Hsz. reflexivity.
Qed.

(* ==== 3. decoding an encoded record ==== *)
Lemma decode_encode r rest :
  rec_ok r -> decode_next (encode_rec r ++ rest) = DOk r (rsize r) rest.
Proof.
  intros Hok. pose proof Hok as (Hkb & Hvb & Hkl & Hvl).
  destruct (vfield_spec r Hvl) as (Vm & Vd & Vl).
  assert (Uk : unle (le 2 (u16 (nlen (rk r)))) = nlen (rk r)).
  { rewrite u16_small by exact Hkl. apply unle_le2. exact Hkl. }
  assert (Uv : unle (le 4 (vfield r)) = vfield r) by (apply unle_le4; exact Vl).
  unfold encode_rec. rewrite <- app_assoc.
  unfold enc_body at 1. rewrite <- !app_assoc.
  replace (le 2 (u16 (nlen (rk r))) ++ le 4 (vfield r) ++ rk r ++ rv r ++ le 4 (crc32 (enc_body r)) ++ rest)
    with (le 2 (u16 (nlen (rk r))) ++ le 4 (vfield r) ++ (rk r ++ rv r) ++ le 4 (crc32 (enc_body r)) ++ rest)
    by (rewrite <- !app_assoc; reflexivity).
  rewrite decode_next_frame.
  - fold (enc_body r).
    rewrite unle_le4 by (apply crc32_lt, enc_body_bytes; exact Hok).
    rewrite N.eqb_refl. cbn [negb].
    rewrite Uk, Uv, Vd, ntake_app_exact, ndrop_app_exact.
    unfold rsize. rewrite nlen_app, N.add_assoc. destruct r; reflexivity.
  - apply nlen_le.
  - apply nlen_le.
  - apply nlen_le.
  - rewrite Uk, Uv, Vm. apply nlen_app.
Qed.

(* ==== inversion of an accepted record ==== *)
Lemma hsize_ge bs : 10 <= hsize bs.
Proof. unfold hsize. rewrite rec_overhead_val. lia. Qed.

Lemma frame_split bs :
  6 <= nlen bs -> hsize bs <= nlen bs ->
  exists hk hv kv sum rest,
    bs = hk ++ hv ++ kv ++ sum ++ rest /\ nlen hk = 2 /\ nlen hv = 4 /\ nlen sum = 4 /\
    nlen kv = unle hk + unle hv mod delbit.
Proof.
  intros H6 Hs. pose proof (hsize_ge bs) as Hge.
  set (hk := ntake 2 bs). set (hv := ntake 4 (ndrop 2 bs)).
  set (kv := ntake (hsize bs - 10) (ndrop 6 bs)).
  set (sum := ntake 4 (ndrop (hsize bs - 4) bs)).
  exists hk, hv, kv, sum, (ndrop (hsize bs) bs).
  assert (E1 : bs = hk ++ ndrop 2 bs) by (symmetry; apply ntake_ndrop_id).
  assert (E2 : ndrop 2 bs = hv ++ ndrop 6 bs).
  { change 6 with (2 + 4). rewrite ndrop_add. symmetry. apply ntake_ndrop_id. }
  assert (E3 : ndrop 6 bs = kv ++ ndrop (hsize bs - 4) bs).
  { replace (hsize bs - 4) with (6 + (hsize bs - 10)) by lia.
    rewrite (ndrop_add 6). symmetry. apply ntake_ndrop_id. }
  assert (E4 : ndrop (hsize bs - 4) bs = sum ++ ndrop (hsize bs) bs).
  { transitivity (sum ++ ndrop 4 (ndrop (hsize bs - 4) bs)); [symmetry; apply ntake_ndrop_id|].
    f_equal. rewrite <- ndrop_add. f_equal. lia. }
  split; [rewrite <- E4, <- E3, <- E2; exact E1|].
  split; [unfold hk; rewrite nlen_ntake; lia|].
  split; [unfold hv; rewrite nlen_ntake, nlen_ndrop; lia|].
  split; [unfold sum; rewrite nlen_ntake, nlen_ndrop; lia|].
  unfold kv. rewrite nlen_ntake, nlen_ndrop.
  change (unle hk) with (hks bs). change (unle hv) with (hw bs).
  assert (Hd : hsize bs = rec_overhead + hks bs + hw bs mod delbit) by reflexivity.
  rewrite rec_overhead_val in Hd. lia.
Qed.

Lemma decode_next_ok_fits bs r len rest :
  decode_next bs = DOk r len rest -> 6 <= nlen bs /\ hsize bs <= nlen bs /\ len = hsize bs.
Proof.
  intros H. rewrite decode_next_eq in H. destruct bs as [|x bs0]; [discriminate|].
  unfold decode_body in H.
  destruct (nlen (x :: bs0) <? 6) eqn:E6; [discriminate|].
  destruct (nlen (x :: bs0) <? hsize (x :: bs0)) eqn:Es; [discriminate|].
  apply N.ltb_ge in E6. apply N.ltb_ge in Es.
  destruct (negb _); [discriminate|].
  injection H as _ Hl _. auto.
Qed.

Lemma decode_next_ok_frame bs r len rest :
  decode_next bs = DOk r len rest ->
  exists hk hv sum,
    bs = hk ++ hv ++ (rk r ++ rv r) ++ sum ++ rest /\
    nlen hk = 2 /\ nlen hv = 4 /\ nlen sum = 4 /\
    unle hk = nlen (rk r) /\ unle hv mod delbit = nlen (rv r) /\
    rdel r = (delbit <=? unle hv) /\
    unle sum = crc32 (hk ++ hv ++ rk r ++ rv r) /\
    len = rec_overhead + nlen (rk r) + nlen (rv r).
Proof.
  intros H. destruct (decode_next_ok_fits _ _ _ _ H) as (H6 & Hs & _).
  destruct (frame_split bs H6 Hs) as (hk & hv & kv & sum & rest' & Ebs & Lk & Lv & Ls & Lkv).
  subst bs. rewrite decode_next_frame in H by assumption.
  destruct (unle sum =? crc32 (hk ++ hv ++ kv)) eqn:Ec; cbn [negb] in H; [|discriminate].
  apply N.eqb_eq in Ec. remember (rec_overhead + nlen kv) as L eqn:EL.
  injection H as Hr Hl Hrest. subst r len rest' L. cbn [rk rv rdel].
  exists hk, hv, sum. rewrite ntake_ndrop_id.
  rewrite nlen_ntake, nlen_ndrop.
  split; [reflexivity|]. split; [exact Lk|]. split; [exact Lv|]. split; [exact Ls|].
  split; [lia|]. split; [lia|]. split; [reflexivity|]. split; [exact Ec|]. lia.
Qed.

Lemma decode_next_ok_inv bs r len rest :
  decode_next bs = DOk r len rest -> 10 <= len /\ nlen bs = len + nlen rest /\ rest = ndrop len bs.
Proof.
  intros H.
  destruct (decode_next_ok_frame _ _ _ _ H) as (hk & hv & sum & Ebs & Lk & Lv & Ls & _ & _ & _ & _ & Hl).
  rewrite rec_overhead_val in Hl.
  split; [lia|]. split.
  - rewrite Ebs, !nlen_app. lia.
  - replace bs with ((hk ++ hv ++ (rk r ++ rv r) ++ sum) ++ rest)
      by (rewrite Ebs, <- !app_assoc; reflexivity).
    symmetry. apply ndrop_app_exact'. rewrite !nlen_app. lia.
Qed.

(* The accepted record is a self-contained frame at the front of the input. *)
Lemma decode_next_ok_chunk bs r len rest :
  decode_next bs = DOk r len rest ->
  exists c, bs = c ++ rest /\ nlen c = len /\ decode_next c = DOk r (nlen c) [].
Proof.
  intros H.
  destruct (decode_next_ok_frame _ _ _ _ H)
    as (hk & hv & sum & Ebs & Lk & Lv & Ls & Uk & Uv & Hd & Hc & Hl).
  exists (hk ++ hv ++ (rk r ++ rv r) ++ sum).
  assert (Lc : nlen (hk ++ hv ++ (rk r ++ rv r) ++ sum) = len).
  { rewrite Hl, rec_overhead_val, !nlen_app. lia. }
  split; [rewrite Ebs, <- !app_assoc; reflexivity|]. split; [exact Lc|].
  rewrite Lc.
  replace (hk ++ hv ++ (rk r ++ rv r) ++ sum) with (hk ++ hv ++ (rk r ++ rv r) ++ sum ++ [])
    by (rewrite app_nil_r; reflexivity).
  rewrite decode_next_frame; try assumption.
  - rewrite Hc, N.eqb_refl. cbn [negb].
    rewrite Uk, ntake_app_exact, ndrop_app_exact, <- Hd, nlen_app, N.add_assoc, <- Hl.
    destruct r; reflexivity.
  - rewrite Uk, Uv. apply nlen_app.
Qed.

(* ==== 4. the fuel of the reader is never exhausted ==== *)
Lemma decode_next_ok_shorter bs r len rest :
  decode_next bs = DOk r len rest -> (length rest < length bs)%nat.
Proof.
  intros H. destruct (decode_next_ok_inv _ _ _ _ H) as (H10 & Hl & _).
  rewrite !nlen_length in Hl. lia.
Qed.

Lemma parse_fuel_indep f1 : forall f2 bs,
  (length bs < f1)%nat -> (length bs < f2)%nat -> parse_fuel f1 bs = parse_fuel f2 bs.
Proof.
  induction f1 as [|f1 IH]; intros f2 bs H1 H2; [lia|].
  destruct f2 as [|f2]; [lia|].
  cbn [parse_fuel]. destruct (decode_next bs) as [| | |r len rest] eqn:E; try reflexivity.
  pose proof (decode_next_ok_shorter _ _ _ _ E) as Hs.
  rewrite (IH f2 rest) by lia. reflexivity.
Qed.

Lemma parse_fuel_enough fuel bs : (length bs < fuel)%nat -> parse_fuel fuel bs = parse_tail bs.
Proof. intros H. unfold parse_tail. apply parse_fuel_indep; lia. Qed.

Lemma parse_tail_step bs :
  parse_tail bs =
    match decode_next bs with
    | DDone => ([], 0, SEnd)
    | DShort => ([], 0, SShort)
    | DCorrupt => ([], 0, SCorrupt)
    | DOk r len rest => let '(rs, n, why) := parse_tail rest in (r :: rs, len + n, why)
    end.
Proof.
  unfold parse_tail at 1. cbn [parse_fuel].
  destruct (decode_next bs) as [| | |r len rest] eqn:E; try reflexivity.
  rewrite parse_fuel_enough by (apply (decode_next_ok_shorter _ _ _ _ E)). reflexivity.
Qed.

Lemma parse_fuel_no_fuel fuel : forall bs, (length bs < fuel)%nat -> snd (parse_fuel fuel bs) <> SFuel.
Proof.
  induction fuel as [|f IH]; intros bs H; [lia|].
  cbn [parse_fuel]. destruct (decode_next bs) as [| | |r len rest] eqn:E; cbn [snd]; try discriminate.
  pose proof (decode_next_ok_shorter _ _ _ _ E) as Hs.
  specialize (IH rest ltac:(lia)).
  destruct (parse_fuel f rest) as [[rs n] why]. cbn [snd] in *. exact IH.
Qed.

Theorem parse_no_fuel bs : snd (parse_tail bs) <> SFuel.
Proof. unfold parse_tail. apply parse_fuel_no_fuel. lia. Qed.

Lemma empty_tail : parse_tail [] = ([], 0, SEnd).
Proof. reflexivity. Qed.

(* ==== 5. valid records are all accepted ==== *)
Theorem parse_valid_prefix rs tail :
  Forall rec_ok rs ->
  parse_tail (concat (map encode_rec rs) ++ tail) =
    let '(rs', n', why) := parse_tail tail in
    (rs ++ rs', nlen (concat (map encode_rec rs)) + n', why).
Proof.
  induction rs as [|r rs IH]; intros H.
  - cbn [map concat app nlen]. destruct (parse_tail tail) as [[rs' n'] why]. reflexivity.
  - inversion H as [|? ? Hr Hrs]; subst.
    cbn [map concat]. rewrite <- app_assoc.
    rewrite parse_tail_step, decode_encode by exact Hr.
    rewrite (IH Hrs). destruct (parse_tail tail) as [[rs' n'] why].
    rewrite nlen_app, encode_rec_length, N.add_assoc. reflexivity.
Qed.

Corollary parse_valid rs :
  Forall rec_ok rs ->
  parse_tail (concat (map encode_rec rs)) = (rs, nlen (concat (map encode_rec rs)), SEnd).
Proof.
  intros H. pose proof (parse_valid_prefix rs [] H) as P.
  rewrite app_nil_r, empty_tail in P. rewrite P, app_nil_r, N.add_0_r. reflexivity.
Qed.

(* ==== 6. the reader consumes only what is there, and invents nothing ==== *)
Lemma parse_fuel_len_le fuel : forall bs,
  let '(rs, n, why) := parse_fuel fuel bs in n <= nlen bs.
Proof.
  induction fuel as [|f IH]; intros bs; cbn [parse_fuel]; [lia|].
  destruct (decode_next bs) as [| | |r len rest] eqn:E; try lia.
  specialize (IH rest). destruct (parse_fuel f rest) as [[rs n] why].
  destruct (decode_next_ok_inv _ _ _ _ E) as (_ & Hl & _). lia.
Qed.

Theorem parse_len_le bs : let '(rs, n, why) := parse_tail bs in n <= nlen bs.
Proof. unfold parse_tail. apply parse_fuel_len_le. Qed.

Lemma parse_fuel_accepts_only_crc_valid fuel : forall bs rs n why,
  parse_fuel fuel bs = (rs, n, why) ->
  exists chunks, ntake n bs = concat chunks /\ length chunks = length rs /\
    Forall2 (fun c r => decode_next c = DOk r (nlen c) []) chunks rs.
Proof.
  induction fuel as [|f IH]; intros bs rs n why H; cbn [parse_fuel] in H.
  - injection H as <- <- <-. exists []. rewrite ntake_0.
    split; [reflexivity|]. split; [reflexivity|]. constructor.
  - destruct (decode_next bs) as [| | |r len rest] eqn:E;
      try (injection H as <- <- <-; exists []; rewrite ntake_0;
           split; [reflexivity|]; split; [reflexivity|]; constructor).
    destruct (parse_fuel f rest) as [[rs' n'] why'] eqn:P.
    injection H as <- <- <-.
    destruct (IH _ _ _ _ P) as (chunks & Hc & Hl & HF).
    destruct (decode_next_ok_chunk _ _ _ _ E) as (c & Ebs & Lc & Dc).
    exists (c :: chunks). split; [|split].
    + subst bs. rewrite <- Lc, ntake_app_add, Hc. reflexivity.
    + cbn [length]. rewrite Hl. reflexivity.
    + constructor; assumption.
Qed.

Theorem parse_accepts_only_crc_valid bs rs n why :
  parse_tail bs = (rs, n, why) ->
  exists chunks, ntake n bs = concat chunks /\ length chunks = length rs /\
    Forall2 (fun c r => decode_next c = DOk r (nlen c) []) chunks rs.
Proof. unfold parse_tail. apply parse_fuel_accepts_only_crc_valid. Qed.

(* ==== 7. an incomplete record at the end of the file ==== *)
Lemma hsize_prefix a b : ntake 6 a = ntake 6 b -> hsize a = hsize b.
Proof.
  intros H.
  assert (Hk : forall l : bytes, ntake 2 l = ntake 2 (ntake 6 l)).
  { intros l. rewrite ntake_ntake. reflexivity. }
  assert (Hv : forall l : bytes, ntake 4 (ndrop 2 l) = ndrop 2 (ntake 6 l)).
  { intros l. rewrite (ntake_ndrop 2 4 l). reflexivity. }
  unfold hsize, hks, hw. rewrite (Hk a), (Hk b), (Hv a), (Hv b), H. reflexivity.
Qed.

Lemma hsize_encode r rest : rec_ok r -> hsize (encode_rec r ++ rest) = rsize r.
Proof.
  intros H. pose proof (decode_encode r rest H) as D.
  destruct (decode_next_ok_fits _ _ _ _ D) as (_ & _ & Hl). symmetry. exact Hl.
Qed.

Theorem strict_prefix_rejected r c :
  rec_ok r -> 0 < c -> c < rsize r -> parse_tail (ntake c (encode_rec r)) = ([], 0, SShort).
Proof.
  intros Hok H0 Hc. set (bs := ntake c (encode_rec r)).
  assert (Hl : nlen bs = c) by (unfold bs; rewrite nlen_ntake, encode_rec_length; lia).
  assert (D : decode_next bs = DShort).
  { rewrite decode_next_nonnil by lia. unfold decode_body.
    destruct (nlen bs <? 6) eqn:E6; [reflexivity|]. apply N.ltb_ge in E6.
    assert (Hs : hsize bs = rsize r).
    { rewrite <- (hsize_encode r [] Hok). apply hsize_prefix. rewrite app_nil_r.
      unfold bs. rewrite ntake_ntake. f_equal. lia. }
    rewrite Hs, (proj2 (N.ltb_lt (nlen bs) (rsize r))) by lia. reflexivity. }
  rewrite parse_tail_step, D. reflexivity.
Qed.

(* ==== 8. a changed byte in the key, value or checksum is detected ==== *)
Lemma reassoc_body {A} (h1 h2 p : list A) c e s t :
  (((h1 ++ h2) ++ p) ++ c :: (e ++ s)) ++ t = h1 ++ h2 ++ (p ++ c :: e) ++ s ++ t.
Proof. rewrite <- !app_assoc. cbn [app]. rewrite <- !app_assoc. reflexivity. Qed.

Lemma reassoc_sum {A} (h1 h2 k e : list A) c p t :
  (((h1 ++ h2) ++ k ++ e) ++ c :: p) ++ t = h1 ++ h2 ++ k ++ (e ++ c :: p) ++ t.
Proof. rewrite <- !app_assoc. reflexivity. Qed.

Theorem one_byte_change_rejected r pre b c post rest :
  rec_ok r -> encode_rec r = pre ++ b :: post -> 6 <= nlen pre -> byte c -> c <> b ->
  decode_next ((pre ++ c :: post) ++ rest) = DCorrupt.
Proof.
  intros Hok E Hpre Hc Hne. pose proof Hok as (Hkb & Hvb & Hkl & Hvl).
  destruct (vfield_spec r Hvl) as (Vm & Vd & Vl).
  assert (Uk : unle (le 2 (u16 (nlen (rk r)))) = nlen (rk r)).
  { rewrite u16_small by exact Hkl. apply unle_le2. exact Hkl. }
  assert (Uv : unle (le 4 (vfield r)) = vfield r) by (apply unle_le4; exact Vl).
  pose proof (enc_body_bytes r Hok) as Bb.
  assert (Us : unle (le 4 (crc32 (enc_body r))) = crc32 (enc_body r)).
  { apply unle_le4, crc32_lt. exact Bb. }
  assert (Eenc : encode_rec r =
    (le 2 (u16 (nlen (rk r))) ++ le 4 (vfield r)) ++ (rk r ++ rv r) ++ le 4 (crc32 (enc_body r))).
  { unfold encode_rec. unfold enc_body at 1. rewrite <- !app_assoc. reflexivity. }
  assert (Ebody : enc_body r = le 2 (u16 (nlen (rk r))) ++ le 4 (vfield r) ++ (rk r ++ rv r)) by reflexivity.
  assert (Lk : nlen (le 2 (u16 (nlen (rk r)))) = 2) by apply nlen_le.
  assert (Lv : nlen (le 4 (vfield r)) = 4) by apply nlen_le.
  assert (Ls : nlen (le 4 (crc32 (enc_body r))) = 4) by apply nlen_le.
  assert (Bs : Forall byte (le 4 (crc32 (enc_body r)))) by apply le_bytes.
  assert (Bkv : Forall byte (rk r ++ rv r)) by (apply Forall_app; split; assumption).
  assert (Lkv : nlen (rk r ++ rv r) = nlen (rk r) + nlen (rv r)) by apply nlen_app.
  rewrite Ebody in Bb. rewrite Ebody in Us at 2.
  remember (le 2 (u16 (nlen (rk r)))) as hk eqn:Ehk.
  remember (le 4 (vfield r)) as hv eqn:Ehv.
  remember (le 4 (crc32 (enc_body r))) as sum eqn:Esum.
  remember (rk r ++ rv r) as kv eqn:Ekv.
  clear Ehk Ehv Esum Ekv Ebody.
  rewrite Eenc in E. clear Eenc.
  destruct (app_eq_split _ _ _ _ E) as (pre' & Epre & Etl); [rewrite nlen_app; lia|].
  subst pre. clear E.
  destruct (N.lt_ge_cases (nlen pre') (nlen kv)) as [Hlt|Hge].
  - (* the changed byte is in the key or value *)
    assert (E' : (pre' ++ [b]) ++ post = kv ++ sum).
    { rewrite <- app_assoc. symmetry. exact Etl. }
    destruct (app_eq_split _ _ _ _ E') as (e & Ekv & Epost);
      [rewrite nlen_app; cbn [nlen]; lia|].
    subst post kv. rewrite reassoc_body.
    assert (Lkv' : nlen (pre' ++ c :: e) = nlen ((pre' ++ [b]) ++ e)).
    { rewrite !nlen_app, !nlen_cons, nlen_nil. lia. }
    rewrite decode_next_frame; [| exact Lk | exact Lv | exact Ls | rewrite Lkv', Uk, Uv, Vm; exact Lkv ].
    apply Forall_app in Bkv. destruct Bkv as (Bpb & Be).
    apply Forall_app in Bpb. destruct Bpb as (Bp & Bb1).
    inversion Bb1 as [|? ? Hb _]; subst.
    apply Forall_app in Bb. destruct Bb as (Bhk & Bb).
    apply Forall_app in Bb. destruct Bb as (Bhv & _).
    destruct (N.eqb_spec (unle sum) (crc32 (hk ++ hv ++ pre' ++ c :: e))) as [Heq|Hneq];
      [|reflexivity].
    exfalso. rewrite Us in Heq.
    apply (crc32_one_byte_change (hk ++ hv ++ pre') b c e); try assumption.
    + apply Forall_app; split; [exact Bhk|]. apply Forall_app; split; assumption.
    + congruence.
    + rewrite <- !app_assoc. rewrite <- !app_assoc in Heq. exact Heq.
  - (* the changed byte is in the checksum *)
    destruct (app_eq_split _ _ _ _ Etl) as (e & Epre & Esum); [exact Hge|].
    subst pre'. rewrite reassoc_sum.
    assert (Ls' : nlen (e ++ c :: post) = 4).
    { rewrite <- Ls, Esum, !nlen_app, !nlen_cons. reflexivity. }
    rewrite decode_next_frame; [| exact Lk | exact Lv | exact Ls' | rewrite Uk, Uv, Vm; exact Lkv ].
    destruct (N.eqb_spec (unle (e ++ c :: post)) (crc32 (hk ++ hv ++ kv))) as [Heq|Hneq];
      [|reflexivity].
    exfalso. rewrite <- Us in Heq.
    assert (Bs' : Forall byte (e ++ c :: post)).
    { rewrite Esum in Bs. apply Forall_app in Bs. destruct Bs as (Be & Bbp).
      inversion Bbp; subst. apply Forall_app; split; [exact Be|]. constructor; assumption. }
    apply unle_inj in Heq; [| exact Bs' | exact Bs | apply nlen_eq_length; rewrite Ls', Ls; reflexivity ].
    rewrite Esum in Heq. apply app_inv_head in Heq. congruence.
Qed.

Corollary parse_one_byte_change_rejected rs1 r pre b c post rest :
  Forall rec_ok rs1 ->
  rec_ok r -> encode_rec r = pre ++ b :: post -> 6 <= nlen pre -> byte c -> c <> b ->
  parse_tail (concat (map encode_rec rs1) ++ (pre ++ c :: post) ++ rest) =
    (rs1, nlen (concat (map encode_rec rs1)), SCorrupt).
Proof.
  intros Hrs Hok E Hpre Hc Hne.
  rewrite (parse_valid_prefix rs1 _ Hrs).
  rewrite (parse_tail_step ((pre ++ c :: post) ++ rest)).
  rewrite (one_byte_change_rejected r pre b c post rest Hok E Hpre Hc Hne).
  rewrite app_nil_r, N.add_0_r. reflexivity.
Qed.

(* ==== 9. cost: the reader never allocates more than the bytes present (C19) ==== *)
Theorem decode_alloc_le bs : decode_alloc bs <= nlen bs.
Proof.
  rewrite decode_alloc_eq. destruct bs as [|x bs0]; [cbn [nlen]; lia|].
  destruct (nlen (x :: bs0) <? 6) eqn:E6; [lia|].
  destruct (nlen (x :: bs0) <? hsize (x :: bs0)) eqn:Es; [lia|].
  apply N.ltb_ge in Es. exact Es.
Qed.

Lemma decode_alloc_ok bs r len rest : decode_next bs = DOk r len rest -> decode_alloc bs = len.
Proof.
  intros H. destruct (decode_next_ok_fits _ _ _ _ H) as (H6 & Hs & Hl).
  rewrite decode_alloc_eq. destruct bs as [|x bs0]; [cbn [nlen] in H6; lia|].
  rewrite (proj2 (N.ltb_ge _ _) H6), (proj2 (N.ltb_ge _ _) Hs). symmetry. exact Hl.
Qed.

Theorem parse_alloc_le fuel : forall bs, parse_alloc fuel bs <= nlen bs.
Proof.
  induction fuel as [|f IH]; intros bs; cbn [parse_alloc]; [lia|].
  destruct (decode_next bs) as [| | |r len rest] eqn:E;
    try (pose proof (decode_alloc_le bs); lia).
  rewrite (decode_alloc_ok _ _ _ _ E).
  destruct (decode_next_ok_inv _ _ _ _ E) as (_ & Hl & _).
  specialize (IH rest). lia.
Qed.

Lemma parse_alloc_indep f1 : forall f2 bs,
  (length bs < f1)%nat -> (length bs < f2)%nat -> parse_alloc f1 bs = parse_alloc f2 bs.
Proof.
  induction f1 as [|f1 IH]; intros f2 bs H1 H2; [lia|].
  destruct f2 as [|f2]; [lia|].
  cbn [parse_alloc]. destruct (decode_next bs) as [| | |r len rest] eqn:E; try reflexivity.
  pose proof (decode_next_ok_shorter _ _ _ _ E) as Hs.
  rewrite (IH f2 rest) by lia. reflexivity.
Qed.

Theorem parse_alloc_enough fuel bs :
  (length bs < fuel)%nat -> parse_alloc fuel bs = parse_alloc (S (length bs)) bs.
Proof. intros H. apply parse_alloc_indep; lia. Qed.

(* ==== 10. whole files ==== *)
Lemma nlen_signature : nlen signature = 8.
Proof. reflexivity. Qed.

Lemma nlen_header_bytes : nlen header_bytes = 512.
Proof. vm_compute. reflexivity. Qed.

Lemma header_ok_header rest : header_ok (header_bytes ++ rest) = true.
Proof.
  unfold header_ok, header_bytes. rewrite <- app_assoc.
  rewrite (ntake_app_exact' 8 signature _ nlen_signature).
  apply key_eqb_refl.
Qed.

Theorem parse_file_valid rs tail :
  Forall rec_ok rs ->
  parse_file (header_bytes ++ concat (map encode_rec rs) ++ tail) =
    Some (let '(rs', n', why) := parse_tail tail in
          (rs ++ rs', nlen (concat (map encode_rec rs)) + n', why)).
Proof.
  intros H. unfold parse_file.
  rewrite header_ok_header. cbn [negb].
  rewrite (ndrop_app_exact' header_size header_bytes _ nlen_header_bytes).
  rewrite nlen_app, nlen_header_bytes.
  set (m := nlen (concat (map encode_rec rs) ++ tail)).
  rewrite (proj2 (N.eqb_neq (512 + m) 0)) by lia.
  rewrite (proj2 (N.ltb_ge (512 + m) header_size)) by (unfold header_size; lia).
  rewrite (parse_valid_prefix rs tail H). reflexivity.
Qed.

Print Assumptions decode_encode.
Print Assumptions parse_valid_prefix.
Print Assumptions one_byte_change_rejected.
Print Assumptions parse_alloc_le.
Print Assumptions strict_prefix_rejected.
