(* ConstsCheck.v -- the constants the model uses are the constants of the code: gen/Consts.v is
   regenerated from /repo on every run and compared here by the kernel. *)
From Pogreb Require Import Base Bytes Record Index DB gen.Consts.

Theorem header_size_same : Consts.header_size = Record.header_size. Proof. reflexivity. Qed.
Theorem format_version_same : Consts.format_version = Record.format_version. Proof. reflexivity. Qed.
Theorem signature_same : Consts.signature = Record.signature. Proof. reflexivity. Qed.
Theorem record_overhead_same : Consts.record_overhead = Record.rec_overhead. Proof. reflexivity. Qed.
Theorem record_field_widths : Consts.record_encode_widths = [16; 32; 32]. Proof. reflexivity. Qed.
Theorem key_skip_same : Consts.readkey_skip = 6 /\ Consts.readkeyvalue_skip = 6. Proof. split; reflexivity. Qed.
Theorem max_key_same : Consts.max_key_length = Record.max_key_len. Proof. reflexivity. Qed.
Theorem max_val_same : Consts.max_value_length = Record.max_val_len. Proof. reflexivity. Qed.
Theorem slots_same : Consts.slots_per_bucket = N.of_nat Index.cap. Proof. reflexivity. Qed.
Theorem bucket_size_same : Consts.bucket_size = 512. Proof. reflexivity. Qed.
(* 31 slots of 16 bytes and the 8-byte overflow pointer fit into a bucket *)
Theorem slots_fit : Consts.slots_per_bucket * 16 + 8 <= Consts.bucket_size. Proof. vm_compute. discriminate. Qed.
Theorem bucket_layout :
  Consts.bucket_marshal_slices = [(0, 4); (4, 6); (6, 8); (8, 12); (12, 16); (16, 0); (0, 8)] /\
  Consts.bucket_unmarshal_slices = Consts.bucket_marshal_slices /\
  Consts.bucket_marshal_widths = [32; 16; 16; 32; 32; 64].
Proof. repeat split; reflexivity. Qed.
Theorem header_layout : Consts.header_marshal_slices = [(0, 8); (8, 12)]. Proof. reflexivity. Qed.
(* offset 0 marks a free slot, so no record may start there: the header precedes every record *)
Theorem header_before_records : 0 < Consts.header_size. Proof. reflexivity. Qed.
Theorem key_len_fits_16 : Consts.max_key_length < 65536. Proof. reflexivity. Qed.
Theorem val_len_fits_31 : Consts.max_value_length < Record.delbit. Proof. reflexivity. Qed.
(* file names *)
Theorem ext_same :
  Consts.segment_ext = DB.ext_psg /\ Consts.meta_ext = DB.ext_pmt /\ Consts.index_ext = DB.ext_pix /\
  Consts.recovery_backup_ext = DB.ext_bac.
Proof. repeat split; reflexivity. Qed.
Theorem names_same :
  Consts.lock_name = name_str FLock /\ Consts.index_main_name = name_str FMain /\
  Consts.index_overflow_name = name_str FOverflow /\ Consts.index_meta_name = name_str FIndexMeta /\
  Consts.db_meta_name = name_str FDbMeta.
Proof. repeat split; reflexivity. Qed.
(* "%05d-%d%s" *)
Theorem segment_name_format_same : Consts.segment_name_format = [37; 48; 53; 100; 45; 37; 100; 37; 115].
Proof. reflexivity. Qed.
(* removeSegment removes name ++ ".pmt" *)
Theorem remove_segment_ext : Consts.remove_segment_meta_ext = DB.ext_pmt. Proof. reflexivity. Qed.
Theorem load_factor_same : Consts.load_factor_num = 7 /\ Consts.load_factor_den = 10. Proof. split; reflexivity. Qed.
Theorem defaults_same :
  Consts.default_maxSegmentSize = 4294967295 /\ Consts.default_compactionMinSegmentSize = 33554432 /\
  Consts.default_compactionMinFragmentation_num = 1 /\ Consts.default_compactionMinFragmentation_den = 2.
Proof. repeat split; reflexivity. Qed.
Theorem mmap_initial : Consts.initial_mmap_size = 1073741824. Proof. reflexivity. Qed.
(* parseSegmentName: the id is parsed as a 16-bit, the sequence number as a 64-bit unsigned integer *)
Theorem segment_name_parse_widths : Consts.parse_segment_name_bits = [16; 64]. Proof. reflexivity. Qed.
