(* Record.v -- segment record and file header encodings (segment.go, header.go) and the
   validating reader used by recovery and compaction (segmentIterator.next).
   Definitions only; the theorems are in RecordProofs.v. *)
From Pogreb Require Import Base Crc Bytes.

(* ---- constants: regenerated from /repo into gen/Consts.v and compared there ---- *)
Definition header_size : N := 512.
Definition format_version : N := 2.
Definition signature : bytes := [112; 111; 103; 114; 101; 98; 14; 253].   (* "pogreb\x0e\xfd" *)
Definition delbit : N := 2147483648.                                      (* 1 << 31 *)
Definition rec_overhead : N := 10.                                        (* 2 + 4 + 4 *)
Definition max_key_len : N := 65535.
Definition max_val_len : N := 536870912.

Fixpoint zeros (n : nat) : bytes := match n with O => [] | S n' => 0 :: zeros n' end.

(* header.MarshalBinary *)
Definition header_bytes : bytes := signature ++ le 4 format_version ++ zeros 500.
(* header.UnmarshalBinary: only the signature is checked *)
Definition header_ok (bs : bytes) : bool := bytes_eqb (ntake 8 bs) signature.

(* encodedRecordSize(uint32(len(key)+len(value))) *)
Definition rsize (r : rec) : N := rec_overhead + nlen (rk r) + nlen (rv r).

(* encodeRecord: the first 6 + len(key) + len(value) bytes, over which the checksum is taken *)
Definition vfield (r : rec) : N :=
  N.lor (u32 (nlen (rv r))) (if rdel r then delbit else 0).
Definition enc_body (r : rec) : bytes :=
  le 2 (u16 (nlen (rk r))) ++ le 4 (vfield r) ++ rk r ++ rv r.
Definition encode_rec (r : rec) : bytes := enc_body r ++ le 4 (crc32 (enc_body r)).

(* What the next call of segmentIterator.next does on the bytes left in the file. *)
Inductive dres :=
| DDone                                   (* no byte left: ErrIterationDone *)
| DShort                                  (* io.EOF / io.ErrUnexpectedEOF: incomplete record *)
| DCorrupt                                (* errCorrupted: checksum mismatch *)
| DOk (r : rec) (len : N) (rest : bytes).

Definition decode_next (bs : bytes) : dres :=
  match bs with
  | [] => DDone
  | _ =>
    if nlen bs <? 6 then DShort else
    let ks := unle (ntake 2 bs) in
    let w := unle (ntake 4 (ndrop 2 bs)) in
    let isdel := delbit <=? w in
    let vs := w mod delbit in
    let size := rec_overhead + ks + vs in
    (* the record must fit into the rest of the file (checked before anything is allocated) *)
    if nlen bs <? size then DShort else
    let body := ntake (size - 4) bs in
    let sum := unle (ntake 4 (ndrop (size - 4) bs)) in
    if negb (sum =? crc32 body) then DCorrupt else
    DOk {| rk := ntake ks (ndrop 6 bs); rv := ntake vs (ndrop (6 + ks) bs); rdel := isdel |}
        size (ndrop size bs)
  end.

(* Why the reader stopped. *)
Inductive stop := SEnd | SShort | SCorrupt | SFuel.

(* The validating reader: all records up to the first one that is not valid; their total length. *)
Fixpoint parse_fuel (fuel : nat) (bs : bytes) : list rec * N * stop :=
  match fuel with
  | O => ([], 0, SFuel)
  | S f =>
    match decode_next bs with
    | DDone => ([], 0, SEnd)
    | DShort => ([], 0, SShort)
    | DCorrupt => ([], 0, SCorrupt)
    | DOk r len rest =>
        let '(rs, n, why) := parse_fuel f rest in (r :: rs, len + n, why)
    end
  end.

(* Every accepted record consumes at least 10 bytes, so this fuel is never exhausted
   (RecordProofs.parse_no_fuel). *)
Definition parse_tail (bs : bytes) : list rec * N * stop := parse_fuel (S (length bs)) bs.

(* A whole segment file: header, then records. Used for files given as raw bytes. *)
Definition parse_file (bs : bytes) : option (list rec * N * stop) :=
  if nlen bs =? 0 then Some ([], 0, SEnd)            (* new file: the header is written on open *)
  else if nlen bs <? header_size then None           (* io.ErrUnexpectedEOF reading the header *)
  else if negb (header_ok bs) then None              (* errCorrupted *)
  else Some (parse_tail (ndrop header_size bs)).

(* ---- cost of the reader (C19): bytes allocated and bytes read by the calls of next ---- *)
Definition decode_alloc (bs : bytes) : N :=
  match bs with
  | [] => 0
  | _ =>
    if nlen bs <? 6 then 0 else
    let ks := unle (ntake 2 bs) in
    let vs := unle (ntake 4 (ndrop 2 bs)) mod delbit in
    let size := rec_overhead + ks + vs in
    if nlen bs <? size then 0 else size
  end.

Fixpoint parse_alloc (fuel : nat) (bs : bytes) : N :=
  match fuel with
  | O => 0
  | S f => decode_alloc bs +
           match decode_next bs with DOk _ _ rest => parse_alloc f rest | _ => 0 end
  end.
