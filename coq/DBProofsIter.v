(* DBProofsIter.v -- property C11 "iteration is complete and truthful" (iterator.go: ItemIterator.Next
   = DB.v: dbiter_step, ONE critical section that re-reads the number of buckets, drains whole chains
   into the queue until it is non-empty, and pops one item).  No axioms (Print Assumptions at the end:
   all "Closed under the global context").  Notation: sp = state of the database on the linear-hashing
   chains ([chain_ops], the real index); sf = the related ([st_rel]) state of the database on the flat
   reference index, a GHOST that carries [Inv], [CInv] and the abstraction [abs (s_disk sf)].

   0. ONE NEXT CALL, ANY INDEX (Section Iter, generic in [ops : idx_ops I])
        it_fill_spec, it_step_spec   a Next call drains the chains it_next, it_next+1, ... (lists [ls],
                                     one per chain, fetched by [fetch_bucket] in THIS state); then
                                     olist r ++ queue' = queue ++ concat ls; it_next' <= numBuckets;
                                     r = None -> queue' = [] /\ numBuckets <= it_next'.
        scan fuel s it               Next until "done" (items returned, iterator after the last call)
        outs n s it                  the results of n consecutive Next calls
        quiescent_scan_items         on a state whose slots are all readable the scan returns exactly the
                                     list [db_items] computes, then "done" for ever  (any index)
   1. QUIESCENT SCAN, DB LEVEL
        C11_quiescent_scan           chain index: fuel > length (abs ..) -> scan = (l, itf),
                                     Permutation l (abs (s_disk sf)), NoDup (map fst l),
                                     In (k,v) l <-> sget abs k = Some v, Next at itf = (itf, None) (a fixed
                                     point, so "done" for ever), outs (length l + n) = map Some l ++ repeat
                                     None n for EVERY n, and l is the list db_items returns.
        C11_quiescent_scan_flat      the same for the flat index (one bucket)
   2. INDEX LEVEL (pindex only; no database, no log)
        fwd p p'                     numBuckets does not shrink and, for every hash h, the chain h selects
                                     keeps its number or becomes a chain that did not exist in p
        fwd_put / fwd_split / fwd_del / fwd_repoint (+ fwd_put_core, fwd_trans, fwd_ahead)
                                     every index operation is [fwd] (index.split: advance_facts)
        PInv_bucket_bidx, PInv_home_bucket   a slot lives in exactly the chain its hash selects
        wstep, watched, iscan, C11_index_complete
                                     a scan (fetch steps that drain any number of whole chains below the
                                     CURRENT numBuckets) interleaved with px_put_core / px_dosplit / px_del
                                     / px_repoint steps over states that satisfy PInv and contain exactly
                                     one slot accepted by an abstract predicate [isk] (stable under rp_new):
                                     when nextBucketIdx has reached numBuckets, an [isk] slot was fetched.
   3. FRAMES (any index): db_put_frame, db_delete_frame, compact_step_frame, compact_pick_frame,
        db_sync_frame: the new m_idx is the old one or the result of ONE ix_put / ix_del / ix_repoint;
        m_seed never changes (write_record_seed).
   4. CONCURRENT SCAN, DB LEVEL, CHAIN INDEX (Section Concurrent; hypothesis [params_ok P], inherited from
      put_ok / delete_ok)
        wr_step sp sf c lab sp' sf' c'   one writer critical section in lockstep on sp and sf: Put, Delete,
                                     one compact_step, compact_pick, Sync, under the side conditions of
                                     sim_* / *_ok ([roomy], valid arguments; [MetaOK sf] for the pick);
                                     lab = what it does to the contents (WLput k v | WLdel k | WLnone)
        w_compact', w_pick'          the flat step is determined by the chain step
        wr_step_ok                   keeps ok := st_rel /\ Inv /\ CInv, the seed, is [fwd] on the index,
                                     changes [sget abs] at the labelled key only
        cscan sp sf c it ret h hn ws     the run since the iterator was created: ret = items returned,
                                     h = every (flat) state so far, hn = the states of the Next calls,
                                     ws = labels of the writer steps
        C11_truthful(_queue)         every item returned (or still queued) is (k, v) with
                                     sget (abs (s_disk sf_t)) k = Some v for the state sf_t of one of the
                                     Next calls made so far (the one that fetched it);
        C11_truthful_at_return       ... a call not later than the call that returns it
        C11_complete                 sget (abs ..) k = Some v in EVERY state of h, and a Next call says
                                     "done"  ->  In (k, v) ret
        C11_complete_untouched       the same from: live in the current state + no Put/Delete of the run
                                     names k (cscan_untouched: compaction, pick, Sync, and writers of
                                     other keys never change sget abs k)
        C11_next_total               in such a run a Next call never leaves the domain of the model
   5. SENSITIVITY (vm_compute):  dbiter_step_with nb / dbiter_step_frozen nb0 (= dbiter_step when nb is the
        current bucket count: dbiter_step_with_real); FrozenEx.frozen_bound_refuted: with the bound
        captured at creation a live, untouched key is never returned (a split moved it to the new last
        chain); FrozenEx.reread_bound_example / reread_bound_complete: the same schedule is a [cscan] run
        (the hypotheses of section 4 are satisfiable) and the real Next returns the key.
   6. CompactEx.compact_scan_example: a [cscan] run with pick + four compact_steps in the middle of the
        scan; the slot of a not yet visited key is repointed; every key is returned.
   7. DupEx.concurrent_duplicate_example: under concurrency an UNTOUCHED key can be returned TWICE
        (a split moves an already fetched key to the new last chain): "at least once" is tight.

   HOW THE PROOF OF COMPLETENESS GOES.  The invariant suggested in DESIGN.md tracks the SLOT of k through
   the chains.  Under PInv the chain of that slot is a function of the index header alone:
   px_bidx p (p_hash seed k) (PInv_home).  So the invariant used here is
        In (k, v) (ret ++ queue)  \/  it_next <= px_bidx (m_idx mp) (p_hash P (m_seed mp) k)
   together with it_next <= numBuckets; writers preserve it by [fwd] (px_level/px_split change only in
   index.split, which sends a hash of the split chain to itself or to chain number = OLD numBuckets
   >= it_next); a Next call that moves it_next past that chain has drained the chain in the same
   critical section, and [flat_key_slot] + [PInv_home_bucket] put the slot of k into it.
   px_put_other_chains / px_split_slot_forward are not needed.

   DEVIATIONS FROM THE STATEMENTS AS FIRST SKETCHED (nothing was found false; these are choices)
     - fuel: "number of slots + 1" is stated as  length (abs (s_disk sf)) < fuel  (the number of slots is
       the number of live keys).
     - [cscan] starts at any moment not later than the first Next call: the iterator captures nothing at
       creation (dbiter0 is a constant), so "from the first Next call" = "from cs_start".
     - the pick step carries [MetaOK sf] as a premise of that step (compact_pick_ok needs it, finding D14);
       it is not part of [ok] because nothing else in this file needs it.
     - Delete steps require [Forall byte k] (delete_preserves does).
     - completeness is "at least once", and cannot be more (section 7); termination of a scan under
       writers is not claimed (writers may add chains for ever). *)
From Coq Require Import ZArith Lia ZifyN ZifyNat ZifyBool Permutation.
From Pogreb Require Import Base BaseLemmas Crc Bytes Record RecordProofs Flat Index Spec DB DBInv
  DBLemmas DBProofsOps DBSim DBMeta DBProofsCompact.
Ltac Zify.zify_post_hook ::= Z.div_mod_to_equations.

Local Notation stp := (@DB.st pindex).
Local Notation stf := (@DB.st flat).
Local Notation memp := (@DB.mem pindex).
Local Notation memf := (@DB.mem flat).

(* ================================================================================================ *)
(** * 0. One Next call, for any index implementation *)

Definition olist {A} (o : option A) : list A := match o with Some a => [a] | None => [] end.

Lemma nseq_S a n : nseq a (S n) = a :: nseq (a + 1) n.
Proof. reflexivity. Qed.

Lemma nseq_length a n : length (nseq a n) = n.
Proof. revert a. induction n as [|n IH]; intros a; [reflexivity|]. cbn [nseq length]. rewrite IH. reflexivity. Qed.

Lemma nseq_In a n x : In x (nseq a n) <-> a <= x < a + N.of_nat n.
Proof.
  revert a. induction n as [|n IH]; intros a.
  - cbn [nseq In]. lia.
  - rewrite nseq_S. cbn [In]. rewrite IH. lia.
Qed.

(* the lists fetched for the bucket numbers a, a+1, ..., one list per number *)
Lemma Forall2_nseq_pick {B} (R : N -> B -> Prop) (ls : list B) : forall a x,
  Forall2 R (nseq a (length ls)) ls -> a <= x < a + N.of_nat (length ls) ->
  exists l, In l ls /\ R x l.
Proof.
  induction ls as [|l ls IH]; intros a x HF Hx.
  - cbn [length] in Hx. lia.
  - cbn [length] in HF, Hx. rewrite nseq_S in HF. inversion HF as [|? ? ? ? H1 H2]; subst.
    destruct (N.eq_dec x a) as [->|Hne].
    + exists l. split; [left; reflexivity|exact H1].
    + destruct (IH (a + 1) x H2) as (l' & Hl' & HR); [lia|].
      exists l'. split; [right; exact Hl'|exact HR].
Qed.

Lemma read_slots_In {I} (d : @DB.disk I) (l : list slot) r sl :
  read_slots d l = Some r -> In sl l -> exists kv, read_kv d sl = Some kv /\ In kv r.
Proof.
  revert r. induction l as [|x l IH]; intros r H Hsl; [destruct Hsl|].
  cbn [read_slots] in H. destruct (read_kv d x) as [kv|] eqn:Ex; [|discriminate].
  destruct (read_slots d l) as [r'|] eqn:El; [|discriminate]. injection H as <-.
  destruct Hsl as [<-|Hsl].
  - exists kv. split; [exact Ex|left; reflexivity].
  - destruct (IH _ eq_refl Hsl) as (kv' & E' & Hin). exists kv'. split; [exact E'|right; exact Hin].
Qed.

Lemma read_slots_from {I} (d : @DB.disk I) (l : list slot) r kv :
  read_slots d l = Some r -> In kv r -> exists sl, In sl l /\ read_kv d sl = Some kv.
Proof.
  revert r. induction l as [|x l IH]; intros r H Hkv.
  - cbn [read_slots] in H. injection H as <-. destruct Hkv.
  - cbn [read_slots] in H. destruct (read_kv d x) as [kv0|] eqn:Ex; [|discriminate].
    destruct (read_slots d l) as [r'|] eqn:El; [|discriminate]. injection H as <-.
    destruct Hkv as [<-|Hkv].
    + exists x. split; [left; reflexivity|exact Ex].
    + destruct (IH _ eq_refl Hkv) as (sl & Hsl & E). exists sl. split; [right; exact Hsl|exact E].
Qed.

Section Iter.
Context {I : Type}.
Variable ops : idx_ops I.
Notation st := (@DB.st I).
Notation mem := (@DB.mem I).

Definition nbk (m : mem) : N := ix_nbuckets ops (m_idx m).

(* what the refill loop does: it drains the chains it_next, it_next+1, ... (one list [l] per chain);
   all but the last of them are empty *)
Lemma it_fill_spec fuel : forall (s : st) (m : mem) it it',
  s_mem s = Some m -> dbiter_fill ops fuel s it = Some it' ->
  exists ls,
    Forall2 (fun n l => fetch_bucket ops s n = Some l) (nseq (it_next it) (length ls)) ls /\
    it_next it' = it_next it + N.of_nat (length ls) /\
    it_queue it' = it_queue it ++ concat ls /\
    (length ls <= fuel)%nat /\
    (ls <> [] -> it_next it + N.of_nat (length ls) <= nbk m) /\
    (it_queue it' = [] -> length ls = fuel \/ nbk m <= it_next it').
Proof.
  induction fuel as [|f IH]; intros s m it it' Em H.
  - exists []. cbn [dbiter_fill] in H.
    assert (E : it' = it) by (destruct (it_queue it); congruence). subst it'.
    cbn [length nseq concat]. rewrite app_nil_r, N.add_0_r.
    split; [constructor|]. split; [reflexivity|]. split; [reflexivity|]. split; [lia|].
    split; [congruence|]. intros _. left. reflexivity.
  - cbn [dbiter_fill] in H. destruct (it_queue it) as [|kv q] eqn:Eq.
    + rewrite Em in H. fold (nbk m) in H.
      destruct (N.ltb_spec (it_next it) (nbk m)) as [Hlt|Hge].
      * destruct (fetch_bucket ops s (it_next it)) as [l|] eqn:Ef; [|discriminate].
        destruct (IH s m _ it' Em H) as (ls & HF & Hn & Hq & Hlen & Hb & Hd).
        cbn [it_next it_queue] in HF, Hn, Hq, Hb.
        exists (l :: ls). cbn [length concat]. rewrite nseq_S.
        split; [constructor; [exact Ef|exact HF]|].
        split; [rewrite Hn; lia|]. split; [rewrite Hq; reflexivity|]. split; [lia|].
        split.
        -- intros _. destruct ls as [|l1 ls1]; [cbn [length]; lia|].
           assert (Hne : l1 :: ls1 <> []) by discriminate. specialize (Hb Hne). lia.
        -- intros Hq'. destruct (Hd Hq') as [Hl|Hl]; [left; lia|right; exact Hl].
      * injection H as <-. exists []. cbn [length nseq concat]. rewrite app_nil_r, N.add_0_r, Eq.
        split; [constructor|]. split; [reflexivity|]. split; [reflexivity|]. split; [lia|].
        split; [congruence|]. intros _. right. exact Hge.
    + injection H as <-. exists []. cbn [length nseq concat]. rewrite app_nil_r, N.add_0_r, Eq.
      split; [constructor|]. split; [reflexivity|]. split; [reflexivity|]. split; [lia|].
      split; [congruence|]. discriminate.
Qed.

(* one Next call *)
Theorem it_step_spec (s : st) (m : mem) it it' r :
  s_mem s = Some m -> dbiter_step ops s it = Some (it', r) ->
  exists ls,
    Forall2 (fun n l => fetch_bucket ops s n = Some l) (nseq (it_next it) (length ls)) ls /\
    it_next it' = it_next it + N.of_nat (length ls) /\
    olist r ++ it_queue it' = it_queue it ++ concat ls /\
    (ls <> [] -> it_next it' <= nbk m) /\
    (r = None -> it_queue it' = [] /\ nbk m <= it_next it').
Proof.
  intros Em H. unfold dbiter_step in H. rewrite Em in H. fold (nbk m) in H.
  destruct (dbiter_fill ops (N.to_nat (nbk m - it_next it)) s it) as [it1|] eqn:Ef; [|discriminate].
  destruct (it_fill_spec _ s m it it1 Em Ef) as (ls & HF & Hn & Hq & Hlen & Hb & Hd).
  exists ls. destruct (it_queue it1) as [|kv q] eqn:Eq1.
  - injection H as <- <-. cbn [olist app]. rewrite Eq1.
    split; [exact HF|]. split; [exact Hn|]. split; [exact Hq|].
    split; [intros Hne; rewrite Hn; exact (Hb Hne)|]. intros _. split; [reflexivity|].
    destruct (Hd eq_refl) as [Hl|Hl]; [|exact Hl]. rewrite Hn. lia.
  - injection H as <- <-. cbn [olist app it_next it_queue].
    split; [exact HF|]. split; [exact Hn|]. split; [exact Hq|].
    split; [intros Hne; rewrite Hn; exact (Hb Hne)|]. discriminate.
Qed.

(* ---------------------------------------------------------------------------------------------- *)
(** ** Scan of a state nobody modifies *)

(* call Next until it says "done" (or the fuel runs out / the model leaves its domain);
   the items returned, and the iterator after the last call *)
Fixpoint scan (fuel : nat) (s : st) (it : dbiter) : list (key * val) * dbiter :=
  match fuel with
  | O => ([], it)
  | S f => match dbiter_step ops s it with
           | Some (it', Some kv) => let r := scan f s it' in (kv :: fst r, snd r)
           | Some (it', None) => ([], it')
           | None => ([], it)
           end
  end.

(* the results of [n] consecutive Next calls *)
Fixpoint outs (n : nat) (s : st) (it : dbiter) : list (option (key * val)) :=
  match n with
  | O => []
  | S n' => match dbiter_step ops s it with
            | Some (it', r) => r :: outs n' s it'
            | None => []
            end
  end.

Section Quiet.
Variable s : st.
Variable m : mem.
Hypothesis Em : s_mem s = Some m.
Hypothesis Hrd : forall n sl, In sl (ix_bucket ops (m_idx m) n) -> read_kv (s_disk s) sl <> None.

Definition qitems (n : N) : list (key * val) := map (kv_of (s_disk s)) (ix_bucket ops (m_idx m) n).

(* what is still to be returned *)
Definition qrem (it : dbiter) : list (key * val) :=
  it_queue it ++ concat (map qitems (nseq (it_next it) (N.to_nat (nbk m - it_next it)))).

Lemma q_fetch n : fetch_bucket ops s n = Some (qitems n).
Proof. unfold fetch_bucket. rewrite Em. apply read_slots_all. apply Hrd. Qed.

Lemma q_fill fuel : forall it, fuel = N.to_nat (nbk m - it_next it) ->
  exists it', dbiter_fill ops fuel s it = Some it' /\ qrem it' = qrem it /\
              (it_queue it' = [] -> qrem it' = [] /\ nbk m <= it_next it').
Proof.
  induction fuel as [|f IH]; intros it Hf.
  - exists it. cbn [dbiter_fill]. split; [destruct (it_queue it); reflexivity|]. split; [reflexivity|].
    intros Hq. unfold qrem. rewrite Hq, <- Hf. cbn [nseq map concat app]. split; [reflexivity|lia].
  - cbn [dbiter_fill]. destruct (it_queue it) as [|kv q] eqn:Eq.
    + rewrite Em. fold (nbk m). destruct (N.ltb_spec (it_next it) (nbk m)) as [Hlt|Hge]; [|lia].
      rewrite q_fetch.
      destruct (IH {| it_next := it_next it + 1; it_queue := qitems (it_next it) |}) as (it' & E & Hr & Hd).
      { cbn [it_next]. lia. }
      exists it'. split; [exact E|]. split; [|exact Hd].
      rewrite Hr. unfold qrem. cbn [it_next it_queue]. rewrite Eq, <- Hf. cbn [app]. rewrite nseq_S.
      cbn [map concat]. replace (N.to_nat (nbk m - (it_next it + 1))) with f by lia. reflexivity.
    + exists it. split; [reflexivity|]. split; [reflexivity|]. rewrite Eq. discriminate.
Qed.

Lemma q_step it :
  match qrem it with
  | [] => exists it', dbiter_step ops s it = Some (it', None) /\ it_queue it' = [] /\ nbk m <= it_next it'
  | kv :: r => exists it', dbiter_step ops s it = Some (it', Some kv) /\ qrem it' = r
  end.
Proof.
  destruct (q_fill _ it eq_refl) as (it1 & E & Hr & Hd).
  unfold dbiter_step. rewrite Em. fold (nbk m). rewrite E. rewrite <- Hr.
  destruct (it_queue it1) as [|kv q] eqn:Eq.
  - destruct (Hd eq_refl) as [H0 Hn]. rewrite H0. exists it1. auto.
  - unfold qrem at 1. rewrite Eq. cbn [app]. eexists. split; [reflexivity|]. reflexivity.
Qed.

(* a Next call on a state whose slots are all readable never leaves the domain of the model *)
Lemma q_step_total it : exists it' r, dbiter_step ops s it = Some (it', r).
Proof.
  pose proof (q_step it) as H. destruct (qrem it) as [|kv r]; destruct H as (it' & E & _); eauto.
Qed.

Lemma q_done it : it_queue it = [] -> nbk m <= it_next it -> dbiter_step ops s it = Some (it, None).
Proof.
  intros Hq Hn. unfold dbiter_step. rewrite Em. fold (nbk m).
  replace (N.to_nat (nbk m - it_next it)) with O by lia. cbn [dbiter_fill]. rewrite Hq. cbn iota.
  rewrite Hq. reflexivity.
Qed.

Lemma q_scan fuel : forall it, (length (qrem it) < fuel)%nat ->
  fst (scan fuel s it) = qrem it /\
  dbiter_step ops s (snd (scan fuel s it)) = Some (snd (scan fuel s it), None).
Proof.
  induction fuel as [|f IH]; intros it Hlen; [lia|].
  cbn [scan]. pose proof (q_step it) as Hs. destruct (qrem it) as [|kv r] eqn:Er.
  - destruct Hs as (it' & E & Hq & Hn). rewrite E. cbn [fst snd]. split; [reflexivity|].
    apply q_done; assumption.
  - destruct Hs as (it' & E & Hr). rewrite E. cbn [fst snd]. cbn [length] in Hlen.
    destruct (IH it') as [A B]; [rewrite Hr; lia|]. rewrite A, Hr. split; [reflexivity|exact B].
Qed.

Lemma q_outs_done n : forall it, qrem it = [] -> outs n s it = repeat None n.
Proof.
  induction n as [|n IH]; intros it Hr; [reflexivity|].
  cbn [outs repeat]. pose proof (q_step it) as Hs. rewrite Hr in Hs. destruct Hs as (it' & E & Hq & Hn).
  rewrite E. f_equal. apply IH. unfold qrem. rewrite Hq.
  replace (N.to_nat (nbk m - it_next it')) with O by lia. reflexivity.
Qed.

Lemma q_outs n : forall l it, qrem it = l -> outs (length l + n) s it = map Some l ++ repeat None n.
Proof.
  induction l as [|kv l IH]; intros it Hr.
  - cbn [length map app Nat.add]. apply q_outs_done. exact Hr.
  - cbn [length map app Nat.add outs]. pose proof (q_step it) as Hs. rewrite Hr in Hs.
    destruct Hs as (it' & E & Hr'). rewrite E. f_equal. apply IH. exact Hr'.
Qed.

Lemma q_rem0 : qrem dbiter0 =
  concat (map (fun n => map (kv_of (s_disk s)) (ix_bucket ops (m_idx m) n)) (nseq 0 (N.to_nat (nbk m)))).
Proof. unfold qrem, dbiter0. cbn [it_queue it_next app]. rewrite N.sub_0_r. reflexivity. Qed.

End Quiet.

(* the scan returns exactly the list [db_items] computes, then "done" for ever *)
Theorem quiescent_scan_items (s : st) (m : mem) l fuel :
  s_mem s = Some m ->
  (forall n sl, In sl (ix_bucket ops (m_idx m) n) -> read_kv (s_disk s) sl <> None) ->
  db_items ops s = OItems l -> (length l < fuel)%nat ->
  fst (scan fuel s dbiter0) = l /\
  dbiter_step ops s (snd (scan fuel s dbiter0)) = Some (snd (scan fuel s dbiter0), None) /\
  forall n, outs (length l + n) s dbiter0 = map Some l ++ repeat None n.
Proof.
  intros Em Hrd Hitems Hlen. rewrite (db_items_scan ops s m Em Hrd) in Hitems. injection Hitems as Hl.
  fold (nbk m) in Hl. rewrite <- (q_rem0 s m) in Hl.
  destruct (q_scan s m Em Hrd fuel dbiter0) as [A B]; [rewrite Hl; exact Hlen|].
  split; [rewrite A; exact Hl|]. split; [exact B|]. intros n. apply (q_outs s m Em Hrd). exact Hl.
Qed.

End Iter.

(* ================================================================================================ *)
(** * 1. C11, quiescent part: a scan of a database nobody modifies *)

Section QuiescentDB.
Variable P : params.

(* related states, both open *)
Lemma rel_open (sp : stp) (sf : stf) : st_rel sp sf -> s_mem sf <> None ->
  exists mp mf, s_mem sp = Some mp /\ s_mem sf = Some mf /\ mem_rel mp mf.
Proof.
  intros Hs Hm. destruct (st_rel_mem_cases _ _ _ Hs) as [[_ E2]|H]; [congruence|exact H].
Qed.

(* a slot of a chain is a slot of the related flat index *)
Lemma chain_slot_flat (mp : memp) (mf : memf) n sl :
  mem_rel mp mf -> In sl (px_bucket (m_idx mp) n) -> In sl (m_idx mf).
Proof.
  intros Hm Hsl. destruct (mem_rel_idx _ _ _ Hm) as (_ & HPerm & _).
  eapply Permutation_in; [exact HPerm|]. rewrite px_bucketE in Hsl. exact (px_chain_in_all _ _ _ Hsl).
Qed.

(* the record a slot of the flat index points to: key, value, hash *)
Lemma flat_slot_read (sf : stf) (mf : memf) sl :
  Inv P sf -> s_mem sf = Some mf -> In sl (m_idx mf) ->
  exists k v, read_kv (s_disk sf) sl = Some (k, v) /\ sl_h sl = p_hash P (m_seed mf) k /\
              sget (abs (s_disk sf)) k = Some v.
Proof.
  intros HI Em Hsl. destruct (Inv_open P sf mf Em HI) as (HL & Hidx & _).
  assert (Hd : DiskOK (s_disk sf)) by apply HL. pose proof Hidx as (Hok & Hnd & _).
  fa Hok sl Hsl. destruct (slot_ok_read P _ _ _ Hfa) as (r & _ & _ & _ & _ & Hh & Er & Ek).
  exists (rk r), (rv r). split; [exact Er|]. split; [exact Hh|].
  pose proof (idx_lookup P _ _ _ (rk r) Hd Hidx) as Hlk.
  rewrite <- Ek, (find_khit_In _ _ sl Hnd Hsl), Ek in Hlk. destruct Hlk as (_ & v' & Er' & Eg).
  congruence.
Qed.

(* the slot of a live key *)
Lemma flat_key_slot (sf : stf) (mf : memf) k v :
  Inv P sf -> s_mem sf = Some mf -> sget (abs (s_disk sf)) k = Some v ->
  exists sl, In sl (m_idx mf) /\ read_kv (s_disk sf) sl = Some (k, v) /\ sl_h sl = p_hash P (m_seed mf) k.
Proof.
  intros HI Em Hg. destruct (Inv_open P sf mf Em HI) as (HL & Hidx & _).
  assert (Hd : DiskOK (s_disk sf)) by apply HL.
  pose proof (idx_lookup P _ _ _ k Hd Hidx) as Hlk.
  destruct (find (khit (slot_key (s_disk sf)) k) (m_idx mf)) as [sl|]; [|congruence].
  destruct Hlk as (Hsl & v' & Er & Eg). exists sl. split; [exact Hsl|].
  assert (v' = v) by congruence. subst v'. split; [exact Er|].
  destruct (flat_slot_read sf mf sl HI Em Hsl) as (k1 & v1 & Er1 & Hh & _).
  assert (k1 = k) by congruence. subst k1. exact Hh.
Qed.

Lemma chain_readable (sp : stp) (sf : stf) (mp : memp) (mf : memf) :
  st_rel sp sf -> Inv P sf -> s_mem sf = Some mf -> mem_rel mp mf ->
  forall n sl, In sl (ix_bucket chain_ops (m_idx mp) n) -> read_kv (s_disk sp) sl <> None.
Proof.
  intros Hs HI Ef Hm n sl Hsl. cbn [ix_bucket chain_ops] in Hsl.
  rewrite (read_kv_rel _ _ _ sl (st_rel_disk _ _ _ Hs)).
  destruct (flat_slot_read sf mf sl HI Ef (chain_slot_flat mp mf n sl Hm Hsl)) as (k & v & E & _).
  congruence.
Qed.

(* CHAIN INDEX (the real index), DB level.  [sp] is the database on the linear-hashing chains, [sf] the
   related flat-index state that carries the invariant and the abstraction. *)
Theorem C11_quiescent_scan (sp : stp) (sf : stf) fuel :
  st_rel sp sf -> Inv P sf -> s_mem sf <> None -> (length (abs (s_disk sf)) < fuel)%nat ->
  exists l itf,
    scan chain_ops fuel sp dbiter0 = (l, itf) /\
    (* each live key exactly once, with its current value *)
    Permutation l (abs (s_disk sf)) /\ NoDup (map fst l) /\
    (forall k v, In (k, v) l <-> sget (abs (s_disk sf)) k = Some v) /\
    (* the call after the last item says "done", and so does every later call *)
    dbiter_step chain_ops sp itf = Some (itf, None) /\
    (forall n, outs chain_ops (length l + n) sp dbiter0 = map Some l ++ repeat None n) /\
    db_items chain_ops sp = OItems l.
Proof.
  intros Hs HI Hopen Hfuel.
  destruct (rel_open sp sf Hs Hopen) as (mp & mf & Ep & Ef & Hm).
  destruct (chain_items_ok P sp sf Hs HI Hopen) as (l & El & HP).
  assert (Hlen : (length l < fuel)%nat) by (rewrite (Permutation_length HP); exact Hfuel).
  destruct (quiescent_scan_items chain_ops sp mp l fuel Ep (chain_readable sp sf mp mf Hs HI Ef Hm) El Hlen)
    as (A & B & C).
  exists l, (snd (scan chain_ops fuel sp dbiter0)).
  split; [rewrite <- A; apply surjective_pairing|].
  split; [exact HP|].
  assert (Hnd : NoDup (map fst l)).
  { eapply Permutation_NoDup; [apply Permutation_map; symmetry; exact HP|apply abs_NoDup]. }
  split; [exact Hnd|]. split.
  - intros k v. rewrite (sget_In _ _ _ (abs_NoDup (s_disk sf))). split; intros H.
    + eapply Permutation_in; [exact HP|exact H].
    + eapply Permutation_in; [symmetry; exact HP|exact H].
  - split; [exact B|]. split; [exact C|exact El].
Qed.

(* FLAT INDEX (one bucket), DB level *)
Theorem C11_quiescent_scan_flat (sf : stf) fuel :
  Inv P sf -> s_mem sf <> None -> (length (abs (s_disk sf)) < fuel)%nat ->
  exists l itf,
    scan flat_ops fuel sf dbiter0 = (l, itf) /\
    Permutation l (abs (s_disk sf)) /\
    dbiter_step flat_ops sf itf = Some (itf, None) /\
    (forall n, outs flat_ops (length l + n) sf dbiter0 = map Some l ++ repeat None n).
Proof.
  intros HI Hopen Hfuel. destruct (s_mem sf) as [mf|] eqn:Ef; [|congruence].
  destruct (items_ok P sf HI) as (l & El & HP); [congruence|].
  assert (Hlen : (length l < fuel)%nat) by (rewrite (Permutation_length HP); exact Hfuel).
  assert (Hrd : forall n sl, In sl (ix_bucket flat_ops (m_idx mf) n) -> read_kv (s_disk sf) sl <> None).
  { intros n sl Hsl. cbn [ix_bucket flat_ops] in Hsl. destruct (n =? 0); [|destruct Hsl].
    destruct (flat_slot_read sf mf sl HI Ef Hsl) as (k & v & E & _). congruence. }
  destruct (quiescent_scan_items flat_ops sf mf l fuel Ef Hrd El Hlen) as (A & B & C).
  exists l, (snd (scan flat_ops fuel sf dbiter0)).
  split; [rewrite <- A; apply surjective_pairing|]. split; [exact HP|]. split; [exact B|exact C].
Qed.

End QuiescentDB.

(* ================================================================================================ *)
(** * 2. INDEX LEVEL: the chain a hash selects never moves backwards *)

(* [fwd p p']: the number of buckets does not shrink, and the chain selected by a hash either keeps its
   number or becomes a chain that did not exist in [p] (number >= old numBuckets) *)
Definition fwd (p p' : pindex) : Prop :=
  px_nbuckets p <= px_nbuckets p' /\
  forall h, px_bidx p' h = px_bidx p h \/ px_nbuckets p <= px_bidx p' h.

Lemma fwd_refl p : fwd p p.
Proof. split; [lia|]. intros h. left. reflexivity. Qed.

Lemma fwd_trans a b c : fwd a b -> fwd b c -> fwd a c.
Proof.
  intros [N1 B1] [N2 B2]. split; [lia|]. intros h.
  destruct (B2 h) as [E2|E2]; [|right; lia]. rewrite E2.
  destruct (B1 h) as [E1|E1]; [left; exact E1|right; exact E1].
Qed.

Lemma fwd_same p p' :
  px_level p' = px_level p -> px_split p' = px_split p -> nlen (px_chains p') = nlen (px_chains p) ->
  fwd p p'.
Proof.
  intros E1 E2 E3. unfold fwd, px_nbuckets, px_bidx. rewrite E1, E2, E3. split; [lia|].
  intros h. left. reflexivity.
Qed.

(* index.split: only the hashes of the split chain can change chain, and then to the NEW LAST chain *)
Lemma fwd_split p : PInv p -> fwd p (px_dosplit p).
Proof.
  intros HI. destruct (px_split_dest p HI) as (_ & _ & En). pose proof HI as (Hn & Hs & _).
  destruct (advance_facts _ _ Hs) as (_ & _ & A3).
  unfold fwd, px_nbuckets. rewrite En. split; [lia|]. intros h.
  unfold px_bidx. rewrite px_dosplit_level, px_dosplit_split.
  destruct (A3 h) as [A B].
  destruct (N.eq_dec (bucket_index (px_level p) (px_split p) h) (px_split p)) as [E|E].
  - destruct (B E) as [Q|Q]; [left; congruence|right; rewrite Q, Hn; lia].
  - left. exact (A E).
Qed.

Lemma fwd_put_core p sl m : fwd p (fst (px_put_core p sl m)).
Proof. destruct (px_put_core_frame p sl m) as (A & B & C). apply fwd_same; assumption. Qed.

(* index.put *)
Lemma fwd_put grow p sl m : PInv p -> fwd p (fst (px_put grow p sl m)).
Proof.
  intros HI. rewrite px_put_factor. cbv zeta.
  destruct (px_put_core p sl m) as [p1 o1] eqn:E. cbn [fst snd].
  pose proof (fwd_put_core p sl m) as F1. rewrite E in F1. cbn [fst] in F1.
  destruct (px_put_core_spec _ _ _ _ _ HI E) as (HI1 & _).
  destruct o1 as [o|]; cbn [fst]; [exact F1|].
  destruct (grow (px_nkeys p1) (nlen (px_chains p1))); [|exact F1].
  apply (fwd_trans _ _ _ F1). apply fwd_split. exact HI1.
Qed.

(* index.delete *)
Lemma fwd_del p h m : fwd p (fst (px_del p h m)).
Proof. destruct (px_del_frame p h m) as (A & B & C). apply fwd_same; assumption. Qed.

Lemma px_repoint_frame p h seg off nseg noff p' : px_repoint p h seg off nseg noff = Some p' ->
  px_level p' = px_level p /\ px_split p' = px_split p /\ nlen (px_chains p') = nlen (px_chains p).
Proof.
  unfold px_repoint.
  destruct (chain_subst (rp_hit h seg off) (fun s => [rp_new nseg noff s]) (px_chain p (px_bidx p h)))
    as [[c' o]|]; [|discriminate].
  intros E. injection E as <-. cbn [px_set px_level px_split px_chains].
  rewrite !nlenE, lupd_length. auto.
Qed.

(* promoteRecord *)
Lemma fwd_repoint p h seg off nseg noff p' : px_repoint p h seg off nseg noff = Some p' -> fwd p p'.
Proof. intros E. destruct (px_repoint_frame _ _ _ _ _ _ _ E) as (A & B & C). apply fwd_same; assumption. Qed.

(* the consequence the scan needs *)
Lemma fwd_ahead p p' n h : fwd p p' -> n <= px_nbuckets p -> n <= px_bidx p h -> n <= px_bidx p' h.
Proof. intros [_ B] Hn Hb. destruct (B h) as [E|E]; [rewrite E; exact Hb|lia]. Qed.

(* a slot lives in exactly the chain its hash selects *)
Lemma PInv_bucket_bidx p n s : PInv p -> In s (px_bucket p n) -> px_bidx p (sl_h s) = n.
Proof.
  intros HI Hs. unfold px_bucket in Hs.
  destruct (nth_error (px_chains p) (N.to_nat n)) as [c|] eqn:E.
  - rewrite (nth_error_nth _ _ _ E) in Hs. unfold px_bidx.
    rewrite (PInv_placed _ _ _ _ HI E Hs). apply N2Nat.id.
  - apply nth_error_None in E. rewrite nth_overflow in Hs by exact E. destruct Hs.
Qed.

Lemma PInv_home_bucket p s : PInv p -> In s (all_slots p) -> In s (px_bucket p (px_bidx p (sl_h s))).
Proof. intros HI Hs. rewrite px_bucketE. apply PInv_home; assumption. Qed.

Lemma nseq_bucket_In p a j b s : a <= b < a + N.of_nat j -> In s (px_bucket p b) ->
  In s (concat (map (px_bucket p) (nseq a j))).
Proof.
  intros Hb Hs. apply in_concat. exists (px_bucket p b). split; [|exact Hs].
  apply in_map. apply nseq_In. exact Hb.
Qed.

(* ---------------------------------------------------------------------------------------------- *)
(** ** C11_index_complete: a scan over a changing index (no database, no log) *)

Section IndexScan.
(* "is the slot of the key we watch": any predicate that promoteRecord cannot change ... *)
Variable isk : slot -> bool.
Hypothesis isk_rp : forall nseg noff s, isk (rp_new nseg noff s) = isk s.

(* one writer step on the index; index.put = ws_put, then possibly ws_split *)
Inductive wstep : pindex -> pindex -> Prop :=
| ws_put p sl m : wstep p (fst (px_put_core p sl m))
| ws_split p : wstep p (px_dosplit p)
| ws_del p h m : wstep p (fst (px_del p h m))
| ws_repoint p h seg off nseg noff p' : px_repoint p h seg off nseg noff = Some p' -> wstep p p'.

(* ... and that holds of one slot of the index, at most *)
Definition watched (p : pindex) : Prop :=
  PInv p /\ (exists s, In s (all_slots p) /\ isk s = true) /\ uniq isk (all_slots p).

Lemma wstep_PInv p p' : PInv p -> wstep p p' -> PInv p'.
Proof.
  intros HI H. destruct H as [p sl m|p|p h m|p h seg off nseg noff p' E].
  - destruct (px_put_core p sl m) as [p1 o] eqn:E. exact (proj1 (px_put_core_spec _ _ _ _ _ HI E)).
  - exact (proj1 (px_split_spec p HI)).
  - destruct (px_del p h m) as [p1 o] eqn:E. exact (proj1 (px_del_spec _ _ _ _ _ HI E)).
  - exact (proj1 (px_repoint_some _ _ _ _ _ _ _ HI E)).
Qed.

Lemma wstep_fwd p p' : PInv p -> wstep p p' -> fwd p p'.
Proof.
  intros HI H. destruct H as [p sl m|p|p h m|p h seg off nseg noff p' E].
  - apply fwd_put_core.
  - apply fwd_split. exact HI.
  - apply fwd_del.
  - exact (fwd_repoint _ _ _ _ _ _ _ E).
Qed.

Lemma in_mid_inv {A} (x y : A) l1 l2 : In x (l1 ++ y :: l2) -> x = y \/ In x (l1 ++ l2).
Proof.
  intros H. apply in_app_or in H. destruct H as [H|[H|H]].
  - right. apply in_or_app. left. exact H.
  - left. symmetry. exact H.
  - right. apply in_or_app. right. exact H.
Qed.

Lemma in_mid_weaken {A} (x y : A) l1 l2 : In x (l1 ++ l2) -> In x (l1 ++ y :: l2).
Proof.
  intros H. apply in_app_or in H. apply in_or_app. destruct H as [H|H]; [left; exact H|right; right; exact H].
Qed.

(* the watched slot after a step has the hash of the watched slot before it *)
Lemma wstep_hash p p' : PInv p -> wstep p p' ->
  (exists s, In s (all_slots p) /\ isk s = true) -> uniq isk (all_slots p') ->
  forall s', In s' (all_slots p') -> isk s' = true ->
  exists s, In s (all_slots p) /\ isk s = true /\ sl_h s = sl_h s'.
Proof.
  intros HI H (s0 & Hs0 & Ks0) U s' Hs' Ks'.
  destruct H as [p sl m|p|p h m|p h seg off nseg noff p' E].
  - destruct (px_put_core p sl m) as [p1 old] eqn:E. cbn [fst] in *.
    destruct (px_put_core_spec _ _ _ _ _ HI E) as (_ & _ & _ & _ & HS). destruct old as [o|].
    + destruct HS as (_ & Hh & _ & _ & l1 & l2 & E1 & E2). rewrite E2 in Hs', U. rewrite E1 in Hs0.
      destruct (in_mid_inv _ _ _ _ Hs') as [->|Hin].
      * destruct (in_mid_inv _ _ _ _ Hs0) as [->|Hin0].
        -- exists o. rewrite E1. split; [apply in_elt|]. split; [exact Ks0|exact Hh].
        -- assert (s0 = sl) by (apply U; [apply in_mid_weaken; exact Hin0|apply in_elt|exact Ks0|exact Ks']).
           subst s0. exists sl. rewrite E1. split; [exact Hs0|]. split; [exact Ks0|reflexivity].
      * exists s'. rewrite E1. split; [apply in_mid_weaken; exact Hin|]. split; [exact Ks'|reflexivity].
    + destruct HS as (_ & _ & HP).
      assert (Hin : In s' (sl :: all_slots p)) by (eapply Permutation_in; [exact HP|exact Hs']).
      destruct Hin as [<-|Hin].
      * assert (s0 = sl).
        { apply U; [|exact Hs'|exact Ks0|exact Ks'].
          eapply Permutation_in; [symmetry; exact HP|]. right. exact Hs0. }
        subst s0. exists sl. auto.
      * exists s'. auto.
  - destruct (px_split_spec p HI) as (_ & HP & _). exists s'.
    split; [eapply Permutation_in; [exact HP|exact Hs']|]. auto.
  - destruct (px_del p h m) as [p1 old] eqn:E. cbn [fst] in *.
    destruct (px_del_spec _ _ _ _ _ HI E) as (_ & HS). destruct old as [o|].
    + destruct HS as (_ & _ & HP). exists s'.
      split; [eapply Permutation_in; [symmetry; exact HP|right; exact Hs']|]. auto.
    + destruct HS as [-> _]. exists s'. auto.
  - destruct (px_repoint_some _ _ _ _ _ _ _ HI E) as (_ & o & l1 & l2 & _ & _ & _ & P1 & P2).
    assert (Hin : In s' (l1 ++ rp_new nseg noff o :: l2)) by (eapply Permutation_in; [exact P2|exact Hs']).
    destruct (in_mid_inv _ _ _ _ Hin) as [->|Hin'].
    + exists o. split; [eapply Permutation_in; [symmetry; exact P1|apply in_elt]|].
      split; [rewrite <- (isk_rp nseg noff); exact Ks'|reflexivity].
    + exists s'. split; [eapply Permutation_in; [symmetry; exact P1|apply in_mid_weaken; exact Hin']|]. auto.
Qed.

(* The scan: [n] = nextBucketIdx, [f] = the slots fetched so far.  A fetch step drains ANY number [j]
   of whole chains, as long as they exist NOW (the bound is re-read): this covers every Next call
   (it_step_spec: a Next call drains the chains it_next .. it_next + length ls - 1 <= numBuckets). *)
Inductive iscan : pindex -> N -> list slot -> Prop :=
| is_start p : watched p -> iscan p 0 []
| is_fetch p n f j : iscan p n f -> n + N.of_nat j <= px_nbuckets p ->
    iscan p (n + N.of_nat j) (f ++ concat (map (px_bucket p) (nseq n j)))
| is_write p n f p' : iscan p n f -> wstep p p' -> watched p' -> iscan p' n f.

Lemma iscan_inv p n f : iscan p n f ->
  watched p /\ n <= px_nbuckets p /\
  ((exists s, In s f /\ isk s = true) \/
   (forall s, In s (all_slots p) -> isk s = true -> n <= px_bidx p (sl_h s))).
Proof.
  induction 1 as [p W|p n f j H IH Hj|p n f p' H IH Hw W'].
  - split; [exact W|]. split; [lia|]. right. intros s _ _. lia.
  - destruct IH as (W & Hn & IH). split; [exact W|]. split; [exact Hj|].
    destruct IH as [(s & Hs & Ks)|IH].
    { left. exists s. split; [apply in_or_app; left; exact Hs|exact Ks]. }
    destruct W as (HI & (s0 & Hs0 & Ks0) & U).
    destruct (N.le_gt_cases (n + N.of_nat j) (px_bidx p (sl_h s0))) as [Hle|Hgt].
    + right. intros s Hs Ks. assert (s = s0) by (apply U; assumption). subst s. exact Hle.
    + left. exists s0. split; [|exact Ks0]. apply in_or_app. right.
      apply (nseq_bucket_In p n j (px_bidx p (sl_h s0))).
      * split; [exact (IH s0 Hs0 Ks0)|exact Hgt].
      * apply PInv_home_bucket; assumption.
  - destruct IH as (W & Hn & IH). split; [exact W'|].
    destruct W as (HI & Hex & _). pose proof (wstep_fwd p p' HI Hw) as F.
    split; [destruct F as [F _]; lia|].
    destruct IH as [IH|IH]; [left; exact IH|right].
    intros s' Hs' Ks'. destruct W' as (_ & _ & U').
    destruct (wstep_hash p p' HI Hw Hex U' s' Hs' Ks') as (s & Hs & Ks & Eh).
    rewrite <- Eh. apply (fwd_ahead p p' n (sl_h s) F Hn). exact (IH s Hs Ks).
Qed.

(* INDEX LEVEL.  When the scan is over (nextBucketIdx has reached the CURRENT number of buckets), the
   watched slot has been fetched -- whatever puts (of other or of the same hash), splits, deletes of
   other slots and repoints happened in between, in any order *)
Theorem C11_index_complete p n f :
  iscan p n f -> px_nbuckets p <= n -> exists s, In s f /\ isk s = true.
Proof.
  intros H Hdone. destruct (iscan_inv p n f H) as (W & _ & [Hf|Ha]); [exact Hf|exfalso].
  destruct W as (HI & (s0 & Hs0 & Ks0) & _). pose proof (Ha s0 Hs0 Ks0) as Hb.
  pose proof (PInv_bidx_lt p (sl_h s0) HI) as Hlt. unfold px_nbuckets in Hdone. lia.
Qed.

End IndexScan.

(* ================================================================================================ *)
(** * 3. What the database operations do to the index value and the hash seed (any index) *)

Lemma seal_seed {I} (ops : idx_ops I) id s m : m_seed (snd (seal ops id s m)) = m_seed m.
Proof. unfold seal. destruct (find_mseg id (m_segs m)) as [g|]; [destruct (sm_full (g_meta g))|]; reflexivity. Qed.

Lemma swap_seed {I} (ops : idx_ops I) s m : m_seed (snd (swap_segment ops s m)) = m_seed m.
Proof. unfold swap_segment. destruct (find _ (m_segs m)); reflexivity. Qed.

Lemma gprelude_seed {I} (ops : idx_ops I) P r s m : m_seed (snd (gprelude ops P r s m)) = m_seed m.
Proof.
  unfold gprelude. destruct (cur_seg m) as [g|].
  - destruct (sm_full (g_meta g) || (p_maxseg P <? g_size g + rsize r)); [|reflexivity].
    pose proof (seal_seed ops (g_id g) s m) as H. destruct (seal ops (g_id g) s m) as [s0 m0].
    cbn [snd] in H. rewrite swap_seed. exact H.
  - apply swap_seed.
Qed.

Lemma gtail_seed {I} (ops : idx_ops I) r s1 m1 s' m' id off :
  gtail ops r s1 m1 = Some (s', m', id, off) -> m_seed m' = m_seed m1.
Proof.
  unfold gtail. destruct (cur_seg m1) as [g|]; [|discriminate].
  destruct (find_dseg (g_id g) (s_disk s1)) as [f|]; [|discriminate].
  destruct (negb ((f_seq f =? g_seq g) && (flen f =? g_size g))); [discriminate|].
  cbv zeta. intros H. injection H as _ <- _ _. reflexivity.
Qed.

Lemma write_record_seed {I} (ops : idx_ops I) P r s m s' m' id off :
  write_record ops P r s m = Some (s', m', id, off) -> m_seed m' = m_seed m.
Proof.
  rewrite write_record_g. pose proof (gprelude_seed ops P r s m) as H.
  destruct (gprelude ops P r s m) as [s1 m1]. cbn [snd] in H. intros E.
  rewrite (gtail_seed _ _ _ _ _ _ _ _ E). exact H.
Qed.

Lemma do_sync_mem {I} (ops : idx_ops I) (s : @DB.st I) m : s_mem (do_sync ops s m) = s_mem s.
Proof. unfold do_sync. destruct (cur_seg m); reflexivity. Qed.

Lemma finish_mem {I} (ops : idx_ops I) P (s : @DB.st I) m : s_mem (fst (finish ops P s m)) = Some m.
Proof. reflexivity. Qed.

(* Put: the index is untouched (rejected / out of domain) or it is the result of ONE index.put *)
Lemma db_put_frame {I} (ops : idx_ops I) P k v (s : @DB.st I) m :
  s_mem s = Some m ->
  exists m', s_mem (fst (db_put ops P k v s)) = Some m' /\ m_seed m' = m_seed m /\
    (m_idx m' = m_idx m \/ exists sl mt, m_idx m' = fst (ix_put ops (p_grow P) (m_idx m) sl mt)).
Proof.
  intros Em. unfold db_put. rewrite Em.
  destruct (max_key_len <? nlen k); [exists m; auto|].
  destruct (max_val_len <? nlen v); [exists m; auto|].
  destruct (write_record ops P (mkput k v) s m) as [[[[s1 m1] id] off]|] eqn:Ew; [|exists m; auto].
  cbv zeta.
  pose proof (write_record_idx _ _ _ _ _ _ _ _ _ Ew) as Ei.
  pose proof (write_record_seed _ _ _ _ _ _ _ _ _ Ew) as Es.
  match goal with |- context [ix_put ops ?g ?i ?sl ?mt] => set (SL := sl); set (MT := mt) end.
  destruct (ix_put ops (p_grow P) (m_idx m1) SL MT) as [i2 old] eqn:Eput.
  rewrite finish_mem. eexists. split; [reflexivity|]. cbn [set_idx m_seed m_idx]. split.
  - destruct old; [|exact Es]. exact Es.
  - right. exists SL, MT. rewrite <- Ei, Eput. reflexivity.
Qed.

(* Delete: untouched, or the result of ONE index.delete *)
Lemma db_delete_frame {I} (ops : idx_ops I) P k (s : @DB.st I) m :
  s_mem s = Some m ->
  exists m', s_mem (fst (db_delete ops P k s)) = Some m' /\ m_seed m' = m_seed m /\
    (m_idx m' = m_idx m \/ exists h mt, m_idx m' = fst (ix_del ops (m_idx m) h mt)).
Proof.
  intros Em. unfold db_delete. rewrite Em. cbv zeta.
  match goal with |- context [ix_del ops ?i ?h ?mt] => set (H := h); set (MT := mt) end.
  destruct (ix_del ops (m_idx m) H MT) as [i1 old] eqn:Edel.
  destruct old as [o|].
  - destruct (write_record ops P (mkdel k) s (track_del o m)) as [[[[s1 m1] id] off]|] eqn:Ew; [|exists m; auto].
    pose proof (write_record_seed _ _ _ _ _ _ _ _ _ Ew) as Es.
    rewrite finish_mem. eexists. split; [reflexivity|]. cbn [set_idx m_seed m_idx]. split; [exact Es|].
    right. exists H, MT. rewrite Edel. reflexivity.
  - rewrite finish_mem. exists m. auto.
Qed.

(* one critical section of Compact: untouched, or ONE successful promoteRecord repoint *)
Lemma compact_step_frame {I} (ops : idx_ops I) P (s : @DB.st I) c s' c' m :
  s_mem s = Some m -> compact_step ops P s c = CMore s' c' ->
  exists m', s_mem s' = Some m' /\ m_seed m' = m_seed m /\
    (m_idx m' = m_idx m \/
     exists h seg off nseg noff, ix_repoint ops (m_idx m) h seg off nseg noff = Some (m_idx m')).
Proof.
  intros Em. unfold compact_step. rewrite Em.
  destruct (c_src c) as [[[id seq] off]|].
  - destruct (find_dseg id (s_disk s)) as [f|]; [|discriminate].
    destruct (rec_at off (seg_entries f)) as [r|].
    + cbv zeta. destruct (rdel r).
      { intros E. injection E as <- _. exists m. auto. }
      destruct (ix_repoint ops (m_idx m) (p_hash P (m_seed m) (rk r)) id (u32 off) id (u32 off)) as [i0|].
      2:{ intros E. injection E as <- _. exists m. auto. }
      destruct (write_record ops P r s m) as [[[[s1 m1] nid] noff]|] eqn:Ew; [|discriminate].
      pose proof (write_record_idx _ _ _ _ _ _ _ _ _ Ew) as Ei.
      pose proof (write_record_seed _ _ _ _ _ _ _ _ _ Ew) as Es.
      destruct (ix_repoint ops (m_idx m1) (p_hash P (m_seed m) (rk r)) id (u32 off) nid noff) as [i2|] eqn:Er;
        [|discriminate].
      intros E. injection E as <- _. eexists. split; [reflexivity|]. cbn [set_idx m_seed m_idx].
      split; [exact Es|]. right. rewrite Ei in Er. eauto 10.
    + destruct (negb ((flen f =? off) && (f_seq f =? seq))); [discriminate|].
      intros E. injection E as <- _. unfold remove_segment. cbv zeta.
      destruct ((fst (m_cur m) =? id) && (snd (m_cur m) =? seq)); eexists; (split; [reflexivity|]); auto.
  - destruct (c_todo c) as [|[id seq] todo]; [discriminate|]. cbv zeta.
    intros E. injection E as <- _. eexists. split; [reflexivity|]. auto.
Qed.

Lemma fold_seal_frame {I} (ops : idx_ops I) (l : list mseg) : forall (s : @DB.st I) m,
  let r := fold_left (fun sm g => seal ops (g_id g) (fst sm) (snd sm)) l (s, m) in
  m_idx (snd r) = m_idx m /\ m_seed (snd r) = m_seed m.
Proof.
  induction l as [|g l IH]; intros s m; cbn [fold_left fst snd]; [auto|].
  pose proof (seal_idx ops (g_id g) s m) as A. pose proof (seal_seed ops (g_id g) s m) as B.
  destruct (seal ops (g_id g) s m) as [s0 m0]. cbn [snd] in A, B.
  destruct (IH s0 m0) as [C D]. cbv zeta in C, D. rewrite C, D. auto.
Qed.

(* pickForCompaction + seal: the index is untouched *)
Lemma compact_pick_frame {I} (ops : idx_ops I) P (s : @DB.st I) s' c m :
  s_mem s = Some m -> compact_pick ops P s = Some (s', c) ->
  exists m', s_mem s' = Some m' /\ m_seed m' = m_seed m /\ m_idx m' = m_idx m.
Proof.
  intros Em. unfold compact_pick. rewrite Em. cbv zeta.
  destruct (fold_seal_frame ops (pick P m) s m) as [A B]. cbv zeta in A, B.
  destruct (fold_left (fun sm g => seal ops (g_id g) (fst sm) (snd sm)) (pick P m) (s, m)) as [s1 m1].
  cbn [snd] in A, B. intros E. injection E as <- _. exists m1. auto.
Qed.

Lemma db_sync_frame {I} (ops : idx_ops I) (s : @DB.st I) : s_mem (fst (db_sync ops s)) = s_mem s.
Proof. unfold db_sync. destruct (s_mem s) as [m|] eqn:Em; cbn [fst]; [rewrite do_sync_mem|]; auto. Qed.

(* ================================================================================================ *)
(** * 4. C11, concurrent part (DB level, chain index): a scan interleaved with writers and compaction *)

Lemma Forall2_In_r {A B} (R : A -> B -> Prop) xs ys y :
  Forall2 R xs ys -> In y ys -> exists x, In x xs /\ R x y.
Proof.
  induction 1 as [|x0 y0 xs ys H0 H IH]; intros Hy; [destruct Hy|].
  destruct Hy as [<-|Hy].
  - exists x0. split; [left; reflexivity|exact H0].
  - destruct (IH Hy) as (x & Hx & HR). exists x. split; [right; exact Hx|exact HR].
Qed.

Section Concurrent.
Variable P : params.
Hypothesis HP : params_ok P.

(* the 32-bit offset side condition of DBInv (it also says that the database is open) *)
Definition roomy (sf : stf) : Prop := exists m, s_mem sf = Some m /\ room m.

(* what a writer step does to the contents *)
Inductive wlabel := WLput (k : key) (v : val) | WLdel (k : key) | WLnone.
Definition wl_touches (l : wlabel) (k : key) : Prop :=
  match l with WLput k' _ => k' = k | WLdel k' => k' = k | WLnone => False end.

(* One critical section of a writer, on the chain-index state [sp] and, in lockstep, on the related
   flat-index state [sf] (a ghost: it carries [Inv], [CInv] and the abstraction); [c] is the cursor of
   the compaction in progress.  Side conditions = those of the sim_* / *_ok theorems. *)
Inductive wr_step : stp -> stf -> cursor -> wlabel -> stp -> stf -> cursor -> Prop :=
| w_put sp sf c k v :
    roomy sf -> Forall byte k -> Forall byte v -> nlen k <= max_key_len -> nlen v <= max_val_len ->
    wr_step sp sf c (WLput k v) (fst (db_put chain_ops P k v sp)) (fst (db_put flat_ops P k v sf)) c
| w_del sp sf c k :
    roomy sf -> Forall byte k ->
    wr_step sp sf c (WLdel k) (fst (db_delete chain_ops P k sp)) (fst (db_delete flat_ops P k sf)) c
| w_compact sp sf c sp' sf' c' :
    roomy sf ->
    compact_step chain_ops P sp c = CMore sp' c' -> compact_step flat_ops P sf c = CMore sf' c' ->
    wr_step sp sf c WLnone sp' sf' c'
| w_pick sp sf c sp' sf' c' :
    MetaOK sf ->
    compact_pick chain_ops P sp = Some (sp', c') -> compact_pick flat_ops P sf = Some (sf', c') ->
    wr_step sp sf c WLnone sp' sf' c'
| w_sync sp sf c :
    wr_step sp sf c WLnone (fst (db_sync chain_ops sp)) (fst (db_sync flat_ops sf)) c.

(* the flat step of w_compact / w_pick is determined by the chain step: these two constructors need
   only the chain-side premise *)
Lemma w_compact' sp sf c sp' c' :
  st_rel sp sf -> Inv P sf -> roomy sf -> compact_step chain_ops P sp c = CMore sp' c' ->
  exists sf', wr_step sp sf c WLnone sp' sf' c'.
Proof.
  intros Hs HI Hr E. pose proof (sim_compact_step P sp sf c Hs HI) as H. rewrite E in H.
  inversion H as [|sp0 sf' c0 Hs' E1 E2|]; subst. exists sf'. apply w_compact; [exact Hr|exact E|auto].
Qed.

Lemma w_pick' sp sf c sp' c' :
  st_rel sp sf -> MetaOK sf -> compact_pick chain_ops P sp = Some (sp', c') ->
  exists sf', wr_step sp sf c WLnone sp' sf' c'.
Proof.
  intros Hs HM E. pose proof (sim_compact_pick P sp sf Hs) as H. rewrite E in H.
  destruct (compact_pick flat_ops P sf) as [[sf' cf]|] eqn:Ef; [|contradiction].
  destruct H as [_ <-]. exists sf'. apply w_pick; assumption.
Qed.

Definition ok (sp : stp) (sf : stf) (c : cursor) : Prop := st_rel sp sf /\ Inv P sf /\ CInv sf c.

Lemma ok_open sp sf c : ok sp sf c ->
  exists mp mf, s_mem sp = Some mp /\ s_mem sf = Some mf /\ mem_rel mp mf /\ PInv (m_idx mp).
Proof.
  intros (Hs & _ & (m & Em & _)).
  destruct (rel_open sp sf Hs) as (mp & mf & Ep & Ef & Hm); [congruence|].
  exists mp, mf. split; [exact Ep|]. split; [exact Ef|]. split; [exact Hm|].
  exact (proj1 (mem_rel_idx _ _ _ Hm)).
Qed.

(* every writer step keeps the simulation, the invariants, the hash seed; moves the chain of every
   hash forward only; and changes the value of the touched key only *)
Lemma wr_step_ok sp sf c lab sp' sf' c' : ok sp sf c -> wr_step sp sf c lab sp' sf' c' ->
  ok sp' sf' c' /\
  (forall mp, s_mem sp = Some mp ->
     exists mp', s_mem sp' = Some mp' /\ m_seed mp' = m_seed mp /\ fwd (m_idx mp) (m_idx mp')) /\
  (forall k, ~ wl_touches lab k -> sget (abs (s_disk sf')) k = sget (abs (s_disk sf)) k).
Proof.
  intros Hok H. destruct (ok_open _ _ _ Hok) as (mp & mf & Ep & Ef & Hm & HPI).
  destruct Hok as (Hs & HI & HC).
  destruct H as [sp sf c k v Hr Hbk Hbv Hk Hv|sp sf c k Hr Hbk|sp sf c sp' sf' c' Hr E1 E2
                |sp sf c sp' sf' c' HM E1 E2|sp sf c].
  - pose proof (chain_put_ok P sp sf k v HP Hs HI Hr Hbk Hbv Hk Hv) as H.
    destruct (put_preserves P sf c k v HI Hr Hbk Hbv Hk Hv HC) as (HC' & _).
    destruct (db_put_frame chain_ops P k v sp mp Ep) as (mp' & Ep' & Es & Hi).
    destruct (db_put chain_ops P k v sp) as [sp' o]. cbv zeta in H. cbn [fst] in *.
    destruct H as (_ & Hs' & HI' & _ & Ea).
    split; [split; [exact Hs'|split; [exact HI'|exact HC']]|]. split.
    + intros mp0 E0. assert (mp0 = mp) by congruence. subst mp0. exists mp'.
      split; [exact Ep'|]. split; [exact Es|].
      destruct Hi as [->|(sl & mt & ->)]; [apply fwd_refl|]. cbn [ix_put chain_ops]. apply fwd_put. exact HPI.
    + intros k' Hk'. cbn [wl_touches] in Hk'. rewrite Ea, sget_sput.
      destruct (key_eqb k' k) eqn:E; [|reflexivity]. apply key_eqb_eq in E. congruence.
  - pose proof (chain_delete_ok P sp sf k HP Hs HI Hr) as H.
    destruct (delete_preserves P sf c k HI Hr Hbk HC) as (HC' & _).
    destruct (db_delete_frame chain_ops P k sp mp Ep) as (mp' & Ep' & Es & Hi).
    destruct (db_delete chain_ops P k sp) as [sp' o]. cbv zeta in H. cbn [fst] in *.
    destruct H as (_ & Hs' & HI' & _ & Ea).
    split; [split; [exact Hs'|split; [exact HI'|exact HC']]|]. split.
    + intros mp0 E0. assert (mp0 = mp) by congruence. subst mp0. exists mp'.
      split; [exact Ep'|]. split; [exact Es|].
      destruct Hi as [->|(h & mt & ->)]; [apply fwd_refl|]. cbn [ix_del chain_ops]. apply fwd_del.
    + intros k' Hk'. cbn [wl_touches] in Hk'. rewrite Ea, sget_sdel.
      destruct (key_eqb k' k) eqn:E; [|reflexivity]. apply key_eqb_eq in E. congruence.
  - pose proof (sim_compact_step P sp sf c Hs HI) as Hsim. rewrite E1, E2 in Hsim.
    inversion Hsim as [|sp0 sf0 c0 Hs' Q1 Q2|]; subst.
    pose proof (compact_step_ok P sf c HI HC Hr) as H. rewrite E2 in H. destruct H as (HI' & HC' & _ & Ea).
    split; [split; [exact Hs'|split; [exact HI'|exact HC']]|]. split.
    + intros mp0 E0. assert (mp0 = mp) by congruence. subst mp0.
      destruct (compact_step_frame chain_ops P sp c sp' c' mp Ep E1) as (mp' & Ep' & Es & Hi).
      exists mp'. split; [exact Ep'|]. split; [exact Es|].
      destruct Hi as [->|(h & seg & off & nseg & noff & Er)]; [apply fwd_refl|].
      cbn [ix_repoint chain_ops] in Er. exact (fwd_repoint _ _ _ _ _ _ _ Er).
    + intros k' _. apply Ea.
  - pose proof (sim_compact_pick P sp sf Hs) as Hsim. rewrite E1, E2 in Hsim. destruct Hsim as [Hs' _].
    destruct (compact_pick_ok P sf HI HM) as (s1 & c1 & Ef1 & HI' & HC' & Ed & _); [congruence|].
    rewrite E2 in Ef1. injection Ef1 as <- <-.
    split; [split; [exact Hs'|split; [exact HI'|exact HC']]|]. split.
    + intros mp0 E0. assert (mp0 = mp) by congruence. subst mp0.
      destruct (compact_pick_frame chain_ops P sp sp' c' mp Ep E1) as (mp' & Ep' & Es & Ei).
      exists mp'. split; [exact Ep'|]. split; [exact Es|]. rewrite Ei. apply fwd_refl.
    + intros k' _. rewrite Ed. reflexivity.
  - pose proof (chain_sync_ok P sp sf Hs HI) as H.
    destruct (sync_preserves sf c HC) as (HC' & _).
    pose proof (db_sync_frame chain_ops sp) as Efr.
    destruct (db_sync chain_ops sp) as [sp' o]. cbv zeta in H. cbn [fst] in *.
    destruct H as (_ & Hs' & HI' & Ed & _); [congruence|].
    split; [split; [exact Hs'|split; [exact HI'|exact HC']]|]. split.
    + intros mp0 E0. exists mp0. split; [congruence|]. split; [reflexivity|apply fwd_refl].
    + intros k' _. rewrite Ed. reflexivity.
Qed.

(* The run.  [cscan sp sf c it ret h hn ws]: since the iterator was created (cs_start: any moment not
   later than the first Next call) the system went through Next calls and writer steps in some order
   and is now in state [sp] (ghost [sf], compaction cursor [c]) with iterator [it];
     ret = the items the Next calls returned, in order;
     h   = the (flat) states the run went through, the initial one included;
     hn  = the states in which the Next calls executed (state of the k-th call at position k);
     ws  = what the writer steps did. *)
Inductive cscan : stp -> stf -> cursor -> dbiter -> list (key * val) -> list stf -> list stf ->
                  list wlabel -> Prop :=
| cs_start sp sf c : ok sp sf c -> cscan sp sf c dbiter0 [] [sf] [] []
| cs_next sp sf c it ret h hn ws it' r :
    cscan sp sf c it ret h hn ws -> dbiter_step chain_ops sp it = Some (it', r) ->
    cscan sp sf c it' (ret ++ olist r) h (hn ++ [sf]) ws
| cs_write sp sf c it ret h hn ws lab sp' sf' c' :
    cscan sp sf c it ret h hn ws -> wr_step sp sf c lab sp' sf' c' ->
    cscan sp' sf' c' it ret (h ++ [sf']) hn (ws ++ [lab]).

Lemma cscan_ok sp sf c it ret h hn ws : cscan sp sf c it ret h hn ws ->
  ok sp sf c /\ In sf h /\ incl hn h.
Proof.
  induction 1 as [sp sf c Hok|sp sf c it ret h hn ws it' r H IH E|sp sf c it ret h hn ws lab sp' sf' c' H IH Hw].
  - split; [exact Hok|]. split; [left; reflexivity|]. intros x [].
  - destruct IH as (A & B & C). split; [exact A|]. split; [exact B|].
    intros x Hx. apply in_app_or in Hx. destruct Hx as [Hx|[<-|[]]]; [exact (C x Hx)|exact B].
  - destruct IH as (A & B & C). split; [exact (proj1 (wr_step_ok _ _ _ _ _ _ _ A Hw))|].
    split; [apply in_or_app; right; left; reflexivity|].
    intros x Hx. apply in_or_app. left. exact (C x Hx).
Qed.

(* ---------------------------------------------------------------------------------------------- *)
(** ** Truthful *)

(* whatever a fetch reads is a (key, current value) pair of the contents at that instant *)
Lemma fetched_truthful sp sf c n l k v :
  ok sp sf c -> fetch_bucket chain_ops sp n = Some l -> In (k, v) l ->
  sget (abs (s_disk sf)) k = Some v.
Proof.
  intros Hok Hf Hin. destruct (ok_open _ _ _ Hok) as (mp & mf & Ep & Ef & Hm & _).
  destruct Hok as (Hs & HI & _). unfold fetch_bucket in Hf. rewrite Ep in Hf. cbn [ix_bucket chain_ops] in Hf.
  destruct (read_slots_from _ _ _ _ Hf Hin) as (sl & Hsl & Er).
  rewrite (read_kv_rel _ _ _ sl (st_rel_disk _ _ _ Hs)) in Er.
  destruct (flat_slot_read P sf mf sl HI Ef (chain_slot_flat mp mf n sl Hm Hsl)) as (k' & v' & Er' & _ & Eg).
  congruence.
Qed.

(* every item returned or queued was the current value of its key in the state of one of the Next
   calls made so far *)
Theorem C11_truthful_queue sp sf c it ret h hn ws k v :
  cscan sp sf c it ret h hn ws -> In (k, v) (ret ++ it_queue it) ->
  exists sf_t, In sf_t hn /\ sget (abs (s_disk sf_t)) k = Some v.
Proof.
  intros H. revert k v.
  induction H as [sp sf c Hok|sp sf c it ret h hn ws it' r H IH E|sp sf c it ret h hn ws lab sp' sf' c' H IH Hw];
    intros k v Hin.
  - destruct Hin.
  - destruct (cscan_ok _ _ _ _ _ _ _ _ H) as (Hok & _).
    destruct (ok_open _ _ _ Hok) as (mp & mf & Ep & _).
    destruct (it_step_spec chain_ops sp mp it it' r Ep E) as (ls & HF & _ & Hq & _).
    rewrite <- app_assoc, Hq, app_assoc in Hin. apply in_app_or in Hin. destruct Hin as [Hin|Hin].
    + destruct (IH k v Hin) as (sf_t & Ht & Hg). exists sf_t. split; [apply in_or_app; left; exact Ht|exact Hg].
    + apply in_concat in Hin. destruct Hin as (l & Hl & Hkv).
      destruct (Forall2_In_r _ _ _ _ HF Hl) as (n & _ & Hfetch). exists sf.
      split; [apply in_or_app; right; left; reflexivity|].
      exact (fetched_truthful sp sf c n l k v Hok Hfetch Hkv).
  - exact (IH k v Hin).
Qed.

(* C11 (a): every returned pair was in the contents at some instant of the scan *)
Theorem C11_truthful sp sf c it ret h hn ws k v :
  cscan sp sf c it ret h hn ws -> In (k, v) ret ->
  exists sf_t, In sf_t hn /\ In sf_t h /\ sget (abs (s_disk sf_t)) k = Some v.
Proof.
  intros H Hin. destruct (C11_truthful_queue _ _ _ _ _ _ _ _ k v H) as (sf_t & Ht & Hg).
  { apply in_or_app. left. exact Hin. }
  exists sf_t. split; [exact Ht|]. split; [|exact Hg].
  destruct (cscan_ok _ _ _ _ _ _ _ _ H) as (_ & _ & Hincl). exact (Hincl _ Ht).
Qed.

(* ... and that instant is a Next call not later than the call that returns the pair *)
Corollary C11_truthful_at_return sp sf c it ret h hn ws it' k v :
  cscan sp sf c it ret h hn ws -> dbiter_step chain_ops sp it = Some (it', Some (k, v)) ->
  exists sf_t, In sf_t (hn ++ [sf]) /\ sget (abs (s_disk sf_t)) k = Some v.
Proof.
  intros H E. pose proof (cs_next _ _ _ _ _ _ _ _ _ _ H E) as H'.
  apply (C11_truthful_queue _ _ _ _ _ _ _ _ k v H').
  apply in_or_app. left. apply in_or_app. right. left. reflexivity.
Qed.

(* ---------------------------------------------------------------------------------------------- *)
(** ** Complete *)

Lemma cscan_complete_inv sp sf c it ret h hn ws k v :
  cscan sp sf c it ret h hn ws ->
  (forall sf_t, In sf_t h -> sget (abs (s_disk sf_t)) k = Some v) ->
  exists mp, s_mem sp = Some mp /\ it_next it <= px_nbuckets (m_idx mp) /\
    (In (k, v) (ret ++ it_queue it) \/ it_next it <= px_bidx (m_idx mp) (p_hash P (m_seed mp) k)).
Proof.
  induction 1 as [sp sf c Hok|sp sf c it ret h hn ws it' r H IH E|sp sf c it ret h hn ws lab sp' sf' c' H IH Hw];
    intros Hall.
  - destruct (ok_open _ _ _ Hok) as (mp & _ & Ep & _). exists mp. split; [exact Ep|].
    cbn [dbiter0 it_next]. split; [lia|]. right. lia.
  - destruct (IH Hall) as (mp & Ep & Hn & Hc). exists mp. split; [exact Ep|].
    destruct (cscan_ok _ _ _ _ _ _ _ _ H) as (Hok & Hsf & _).
    destruct (it_step_spec chain_ops sp mp it it' r Ep E) as (ls & HF & Hnext & Hq & Hb & _).
    unfold nbk in Hb. cbn [ix_nbuckets chain_ops] in Hb.
    split.
    { destruct ls as [|l0 ls0]; [cbn [length] in Hnext; lia|]. apply Hb. discriminate. }
    rewrite <- app_assoc, Hq.
    destruct Hc as [Hc|Hc].
    { left. rewrite app_assoc. apply in_or_app. left. exact Hc. }
    set (b := px_bidx (m_idx mp) (p_hash P (m_seed mp) k)) in *.
    destruct (N.le_gt_cases (it_next it') b) as [Hle|Hgt]; [right; exact Hle|left].
    destruct (Forall2_nseq_pick _ ls (it_next it) b HF) as (l & Hl & Hfetch); [lia|].
    apply in_or_app. right. apply in_or_app. right. apply in_concat. exists l. split; [exact Hl|].
    (* the slot of k is in chain b, and chain b has just been drained *)
    destruct (ok_open _ _ _ Hok) as (mp0 & mf & Ep0 & Ef & Hm & HPI).
    assert (mp0 = mp) by congruence. subst mp0. destruct Hok as (Hs & HI & _).
    destruct (flat_key_slot P sf mf k v HI Ef (Hall sf Hsf)) as (sl & Hsl & Er & Hh).
    rewrite <- (mem_rel_seed _ _ _ Hm) in Hh.
    assert (Hp : In sl (all_slots (m_idx mp))).
    { destruct (mem_rel_idx _ _ _ Hm) as (_ & HPerm & _). eapply Permutation_in; [symmetry; exact HPerm|exact Hsl]. }
    pose proof (PInv_home_bucket _ _ HPI Hp) as Hbk. rewrite Hh in Hbk. fold b in Hbk.
    unfold fetch_bucket in Hfetch. rewrite Ep in Hfetch. cbn [ix_bucket chain_ops] in Hfetch.
    destruct (read_slots_In _ _ _ _ Hfetch Hbk) as (kv & Ekv & Hkv).
    rewrite (read_kv_rel _ _ _ sl (st_rel_disk _ _ _ Hs)) in Ekv. congruence.
  - destruct IH as (mp & Ep & Hn & Hc).
    { intros sf_t Ht. apply Hall. apply in_or_app. left. exact Ht. }
    destruct (cscan_ok _ _ _ _ _ _ _ _ H) as (Hok & _).
    destruct (wr_step_ok _ _ _ _ _ _ _ Hok Hw) as (_ & Hfr & _).
    destruct (Hfr mp Ep) as (mp' & Ep' & Es & F). exists mp'. split; [exact Ep'|].
    split; [destruct F as [F _]; lia|].
    destruct Hc as [Hc|Hc]; [left; exact Hc|right]. rewrite Es.
    exact (fwd_ahead _ _ _ _ F Hn Hc).
Qed.

(* C11 (b): a key that has the value [v] in every state of the run, from the creation of the iterator
   to the Next call that says "done", has been returned with that value *)
Theorem C11_complete sp sf c it ret h hn ws it' k v :
  cscan sp sf c it ret h hn ws -> dbiter_step chain_ops sp it = Some (it', None) ->
  (forall sf_t, In sf_t h -> sget (abs (s_disk sf_t)) k = Some v) ->
  In (k, v) ret.
Proof.
  intros H E Hall. pose proof (cs_next _ _ _ _ _ _ _ _ _ _ H E) as H'.
  destruct (cscan_complete_inv _ _ _ _ _ _ _ _ k v H' Hall) as (mp & Ep & _ & Hc).
  destruct (it_step_spec chain_ops sp mp it it' None Ep E) as (_ & _ & _ & _ & _ & Hd).
  destruct (Hd eq_refl) as [Hq Hnb]. unfold nbk in Hnb. cbn [ix_nbuckets chain_ops] in Hnb.
  cbn [olist] in Hc. rewrite Hq, !app_nil_r in Hc. destruct Hc as [Hc|Hc]; [exact Hc|exfalso].
  destruct (cscan_ok _ _ _ _ _ _ _ _ H) as (Hok & _).
  destruct (ok_open _ _ _ Hok) as (mp0 & _ & Ep0 & _ & _ & HPI). assert (mp0 = mp) by congruence. subst mp0.
  pose proof (PInv_bidx_lt (m_idx mp) (p_hash P (m_seed mp) k) HPI) as Hlt. unfold px_nbuckets in Hnb. lia.
Qed.

(* the contents seen through one key do not change as long as no Put / Delete names that key
   (compaction, pick and Sync never change them) *)
Lemma cscan_untouched sp sf c it ret h hn ws k :
  cscan sp sf c it ret h hn ws -> (forall lab, In lab ws -> ~ wl_touches lab k) ->
  forall sf_t, In sf_t h -> sget (abs (s_disk sf_t)) k = sget (abs (s_disk sf)) k.
Proof.
  induction 1 as [sp sf c Hok|sp sf c it ret h hn ws it' r H IH E|sp sf c it ret h hn ws lab sp' sf' c' H IH Hw];
    intros Hun sf_t Ht.
  - destruct Ht as [<-|[]]. reflexivity.
  - exact (IH Hun sf_t Ht).
  - destruct (cscan_ok _ _ _ _ _ _ _ _ H) as (Hok & _).
    destruct (wr_step_ok _ _ _ _ _ _ _ Hok Hw) as (_ & _ & Ha).
    assert (Hlab : ~ wl_touches lab k) by (apply Hun; apply in_or_app; right; left; reflexivity).
    apply in_app_or in Ht. destruct Ht as [Ht|[<-|[]]]; [|reflexivity].
    rewrite (Ha k Hlab). apply IH; [|exact Ht].
    intros lab0 Hl0. apply Hun. apply in_or_app. left. exact Hl0.
Qed.

(* C11 (b) in terms of the operations: a live key that no Put and no Delete of the run names is
   returned with its value -- whatever happens to OTHER keys (splits included) and whatever
   compaction does to the key's own record *)
Theorem C11_complete_untouched sp sf c it ret h hn ws it' k v :
  cscan sp sf c it ret h hn ws -> dbiter_step chain_ops sp it = Some (it', None) ->
  sget (abs (s_disk sf)) k = Some v -> (forall lab, In lab ws -> ~ wl_touches lab k) ->
  In (k, v) ret.
Proof.
  intros H E Hg Hun. apply (C11_complete _ _ _ _ _ _ _ _ _ k v H E).
  intros sf_t Ht. rewrite (cscan_untouched _ _ _ _ _ _ _ _ k H Hun sf_t Ht). exact Hg.
Qed.

End Concurrent.

(* ================================================================================================ *)
(** * 5. Sensitivity: the bound has to be re-read at every call *)

Section Frozen.
Context {I : Type}.
Variable ops : idx_ops I.

(* [dbiter_fill] / [dbiter_step] with the number of buckets [nb] given from outside *)
Fixpoint dbiter_fill_with (nb : N) (fuel : nat) (s : @DB.st I) (it : dbiter) : option dbiter :=
  match it_queue it with
  | _ :: _ => Some it
  | [] =>
    match fuel with
    | O => Some it
    | S f =>
      match s_mem s with
      | None => None
      | Some m =>
        if it_next it <? nb then
          match fetch_bucket ops s (it_next it) with
          | None => None
          | Some l => dbiter_fill_with nb f s {| it_next := it_next it + 1; it_queue := l |}
          end
        else Some it
      end
    end
  end.

Definition dbiter_step_with (nb : N) (s : @DB.st I) (it : dbiter) : option (dbiter * option (key * val)) :=
  match s_mem s with
  | None => None
  | Some m =>
    match dbiter_fill_with nb (N.to_nat (nb - it_next it)) s it with
    | None => None
    | Some it' =>
      match it_queue it' with
      | [] => Some (it', None)
      | kv :: q => Some ({| it_next := it_next it'; it_queue := q |}, Some kv)
      end
    end
  end.

(* with the current number of buckets it is the model of ItemIterator.Next *)
Lemma dbiter_fill_with_real fuel : forall (s : @DB.st I) m it, s_mem s = Some m ->
  dbiter_fill_with (ix_nbuckets ops (m_idx m)) fuel s it = dbiter_fill ops fuel s it.
Proof.
  induction fuel as [|f IH]; intros s m it Em; [reflexivity|].
  cbn [dbiter_fill_with dbiter_fill]. destruct (it_queue it); [|reflexivity]. rewrite Em.
  destruct (it_next it <? ix_nbuckets ops (m_idx m)); [|reflexivity].
  destruct (fetch_bucket ops s (it_next it)); [|reflexivity]. apply IH. exact Em.
Qed.

Lemma dbiter_step_with_real (s : @DB.st I) m it : s_mem s = Some m ->
  dbiter_step_with (ix_nbuckets ops (m_idx m)) s it = dbiter_step ops s it.
Proof.
  intros Em. unfold dbiter_step_with, dbiter_step. rewrite Em, (dbiter_fill_with_real _ s m it Em). reflexivity.
Qed.

(* THE VARIANT: the bound is the number of buckets captured when the iterator was created *)
Definition dbiter_step_frozen (nb0 : N) := dbiter_step_with nb0.

Fixpoint outs_frozen (nb0 : N) (n : nat) (s : @DB.st I) (it : dbiter) : list (option (key * val)) :=
  match n with
  | O => []
  | S n' => match dbiter_step_frozen nb0 s it with
            | Some (it', r) => r :: outs_frozen nb0 n' s it'
            | None => []
            end
  end.
End Frozen.

Module FrozenEx.
(* split as soon as numKeys > 2 * numBuckets; the hash of a key is its first byte *)
Definition fzP : params :=
  {| p_maxseg := 1000000; p_minseg := 0; p_frag := fun _ _ => false; p_sync := false;
     p_grow := fun nk nb => nb * 2 <? nk; p_hash := fun _ k => hd 0 k |}.
Definition kk (h : N) : key := [h].
Definition vv (h : N) : val := [h; h].

(* six keys: level 1, split pointer 1, three chains holding the hashes {0,4} {1,3} {2,6} *)
Definition fz_ops : list op := map (fun h => OpPut (kk h) (vv h)) [0; 4; 1; 3; 2; 6].
Definition fz_p0 : stp := fst (db_open chain_ops fzP 1 st0).
Definition fz_f0 : stf := flat_init 1.
Definition fz_p6 : stp := fold_left (fun s o => fst (step_chain fzP s o)) fz_ops fz_p0.
Definition fz_f6 : stf := fold_left (fun s o => fst (step_flat fzP s o)) fz_ops fz_f0.
(* the seventh key makes numKeys = 7 > 2 * 3: chain 1 is split, hash 3 moves to the NEW chain 3 *)
Definition fz_p7 : stp := fst (db_put chain_ops fzP (kk 8) (vv 8) fz_p6).
Definition fz_f7 : stf := fst (db_put flat_ops fzP (kk 8) (vv 8) fz_f6).
Definition fz_c0 : cursor := {| c_todo := []; c_src := None; c_segs := 0; c_recs := 0; c_bytes := 0 |}.

Definition fz_shape (s : stp) : N * N * list (list (list N)) :=
  match s_mem s with
  | Some m => (px_level (m_idx m), px_split (m_idx m), map (fun c => map (map sl_h) c) (px_chains (m_idx m)))
  | None => (0, 0, [])
  end.

Example fz_shapes :
  fz_shape fz_p6 = (1, 1, [[[0; 4]]; [[1; 3]]; [[2; 6]]]) /\
  fz_shape fz_p7 = (2, 0, [[[0; 4; 8]]; [[1]]; [[2; 6]]; [[3]]]).
Proof. split; vm_compute; reflexivity. Qed.

(* the iterator is created in fz_p6 (three buckets); the first Next call drains chain 0 *)
Definition fz_it1 : dbiter := {| it_next := 1; it_queue := [(kk 4, vv 4)] |}.

(* With the bound frozen at creation, key [3] -- live with the same value before and after, never
   named by a writer -- is never returned: the scan says "done" without it.  The real Next, on the
   same schedule, returns it. *)
Theorem frozen_bound_refuted :
  let nb0 := 3 in
  (exists m, s_mem fz_p6 = Some m /\ px_nbuckets (m_idx m) = nb0) /\
  db_get chain_ops fzP (kk 3) fz_p6 = OVal (Some (vv 3)) /\
  db_get chain_ops fzP (kk 3) fz_p7 = OVal (Some (vv 3)) /\
  kk 8 <> kk 3 /\
  dbiter_step_frozen chain_ops nb0 fz_p6 dbiter0 = Some (fz_it1, Some (kk 0, vv 0)) /\
  dbiter_step chain_ops fz_p6 dbiter0 = Some (fz_it1, Some (kk 0, vv 0)) /\
  outs_frozen chain_ops nb0 6 fz_p7 fz_it1 =
    [Some (kk 4, vv 4); Some (kk 1, vv 1); Some (kk 2, vv 2); Some (kk 6, vv 6); None; None] /\
  outs chain_ops 6 fz_p7 fz_it1 =
    [Some (kk 4, vv 4); Some (kk 1, vv 1); Some (kk 2, vv 2); Some (kk 6, vv 6); Some (kk 3, vv 3); None].
Proof.
  cbv zeta. split; [eexists; split; vm_compute; reflexivity|].
  split; [vm_compute; reflexivity|]. split; [vm_compute; reflexivity|]. split; [discriminate|].
  split; [vm_compute; reflexivity|]. split; [vm_compute; reflexivity|].
  split; vm_compute; reflexivity.
Qed.

(* ---- the same schedule as a [cscan] run: the hypotheses of the C11 theorems are satisfiable, with a
        split that moves a not yet visited key while the scan is in progress ---- *)
Lemma fzP_ok : params_ok fzP.
Proof. vm_compute. reflexivity. Qed.

Lemma fz_ok6 : ok fzP fz_p6 fz_f6 fz_c0.
Proof.
  pose proof (init_rel fzP 1) as H. rewrite flat_open_fresh in H.
  assert (H0 : st_rel fz_p0 fz_f0 /\ Inv fzP fz_f0).
  { unfold fz_p0, fz_f0. destruct (db_open chain_ops fzP 1 st0) as [sp o]. cbn [fst]. tauto. }
  destruct H0 as [H0 I0].
  destruct (chain_run_states fzP fz_p0 fz_f0 fz_ops fzP_ok H0 I0) as (A & B & _).
  - apply ops_valid_b_ok. vm_compute. reflexivity.
  - apply rooms_b_ok. vm_compute. reflexivity.
  - split; [exact A|]. split; [exact B|].
    destruct (s_mem fz_f6) as [m|] eqn:E; [|vm_compute in E; discriminate].
    exists m. split; [exact E|]. split; [intros x []|]. split; [constructor|]. split; [exact I|].
    intros x [].
Qed.

Lemma fz_roomy6 : roomy fz_f6.
Proof.
  destruct (s_mem fz_f6) as [m|] eqn:E; [|vm_compute in E; discriminate].
  exists m. split; [exact E|]. apply room_b_ok.
  assert (Hb : match s_mem fz_f6 with Some m => room_b m | None => false end = true) by (vm_compute; reflexivity).
  rewrite E in Hb. exact Hb.
Qed.

Ltac fz_next R :=
  match type of R with
  | cscan ?P ?sp ?sf ?c ?it ?ret ?h ?hn ?ws =>
    let E := fresh "E" in
    eassert (E : dbiter_step chain_ops sp it = Some (_, _)) by (vm_compute; reflexivity);
    let R' := fresh "R" in
    pose proof (cs_next P sp sf c it ret h hn ws _ _ R E) as R'; clear E
  end.

Theorem reread_bound_example :
  exists it ret h hn,
    cscan fzP fz_p7 fz_f7 fz_c0 it ret h hn [WLput (kk 8) (vv 8)] /\
    dbiter_step chain_ops fz_p7 it = Some (it, None) /\
    ret = [(kk 0, vv 0); (kk 4, vv 4); (kk 1, vv 1); (kk 2, vv 2); (kk 6, vv 6); (kk 3, vv 3)].
Proof.
  pose proof (cs_start fzP fz_p6 fz_f6 fz_c0 fz_ok6) as R0.
  fz_next R0.
  assert (W : wr_step fzP fz_p6 fz_f6 fz_c0 (WLput (kk 8) (vv 8)) fz_p7 fz_f7 fz_c0).
  { apply w_put; [exact fz_roomy6| | | |].
    - apply forallb_byte. vm_compute. reflexivity.
    - apply forallb_byte. vm_compute. reflexivity.
    - vm_compute. discriminate.
    - vm_compute. discriminate. }
  pose proof (cs_write _ _ _ _ _ _ _ _ _ _ _ _ _ R W) as R1.
  fz_next R1. fz_next R2. fz_next R3. fz_next R4. fz_next R5. fz_next R6.
  eexists _, _, _, _. split; [exact R7|]. split; [vm_compute; reflexivity|reflexivity].
Qed.

(* and the general theorem applies to it: key [3] must be among the returned items *)
Example reread_bound_complete it ret h hn it' :
  cscan fzP fz_p7 fz_f7 fz_c0 it ret h hn [WLput (kk 8) (vv 8)] ->
  dbiter_step chain_ops fz_p7 it = Some (it', None) -> In (kk 3, vv 3) ret.
Proof.
  intros R E. apply (C11_complete_untouched fzP fzP_ok _ _ _ _ _ _ _ _ it' (kk 3) (vv 3) R E).
  - vm_compute. reflexivity.
  - intros lab [<-|[]]. cbn [wl_touches]. discriminate.
Qed.
End FrozenEx.

(* ================================================================================================ *)
(** * 6. A Next call never fails; a run with a compaction in the middle of the scan *)

Theorem C11_next_total P sp sf c it :
  ok P sp sf c -> exists it' r, dbiter_step chain_ops sp it = Some (it', r).
Proof.
  intros Hok. destruct (ok_open P _ _ _ Hok) as (mp & mf & Ep & Ef & Hm & _). destruct Hok as (Hs & HI & _).
  exact (q_step_total chain_ops sp mp Ep (chain_readable P sp sf mp mf Hs HI Ef Hm) it).
Qed.

Definition metaok_b (s : stf) : bool :=
  match s_mem s with
  | None => true
  | Some m => forallb (fun g => match find_dseg (g_id g) (s_disk s) with
                                | Some f => sm_delrec (g_meta g) =? nlen (filter rdel (f_recs f))
                                | None => true
                                end) (m_segs m)
  end.

Lemma metaok_b_ok s : metaok_b s = true -> MetaOK s.
Proof.
  unfold metaok_b, MetaOK. destruct (s_mem s) as [m|]; [|auto]. intros H g f Hg Hf.
  pose proof (proj1 (forallb_forall _ _) H g Hg) as Hb. cbn beta in Hb. rewrite Hf in Hb.
  apply N.eqb_eq. exact Hb.
Qed.

Lemma roomy_b_ok (sf : stf) : match s_mem sf with Some m => room_b m | None => false end = true -> roomy sf.
Proof.
  destruct (s_mem sf) as [m|] eqn:E; [|discriminate]. intros H. exists m. split; [exact E|].
  apply room_b_ok. exact H.
Qed.

Module CompactEx.
Import FrozenEx.
(* as fzP, but every segment is worth compacting *)
Definition cxP : params :=
  {| p_maxseg := 1000000; p_minseg := 0; p_frag := fun _ _ => true; p_sync := false;
     p_grow := fun nk nb => nb * 2 <? nk; p_hash := fun _ k => hd 0 k |}.

Definition pk_st {I} (o : option (@DB.st I * cursor)) (d : @DB.st I) : @DB.st I :=
  match o with Some (s, _) => s | None => d end.
Definition pk_cur {I} (o : option (@DB.st I * cursor)) : cursor :=
  match o with Some (_, c) => c | None => fz_c0 end.
Definition cm_st {I} (r : @cstep I) (d : @DB.st I) : @DB.st I := match r with CMore s _ => s | _ => d end.
Definition cm_cur {I} (r : @cstep I) : cursor := match r with CMore _ c => c | _ => fz_c0 end.

(* the six keys of FrozenEx, all records in segment 0 *)
Definition cx_p6 : stp := fold_left (fun s o => fst (step_chain cxP s o)) fz_ops (fst (db_open chain_ops cxP 1 st0)).
Definition cx_f6 : stf := fold_left (fun s o => fst (step_flat cxP s o)) fz_ops (flat_init 1).
(* Compact: pick (segment 0 is picked and sealed) ... *)
Definition cx_pa : stp := pk_st (compact_pick chain_ops cxP cx_p6) cx_p6.
Definition cx_fa : stf := pk_st (compact_pick flat_ops cxP cx_f6) cx_f6.
Definition cx_ca : cursor := pk_cur (compact_pick chain_ops cxP cx_p6).
(* ... start of segment 0, then the records of the keys [0], [4], [1] are promoted to segment 1 *)
Definition cx_pb : stp := cm_st (compact_step chain_ops cxP cx_pa cx_ca) cx_pa.
Definition cx_fb : stf := cm_st (compact_step flat_ops cxP cx_fa cx_ca) cx_fa.
Definition cx_cb : cursor := cm_cur (compact_step chain_ops cxP cx_pa cx_ca).
Definition cx_pc : stp := cm_st (compact_step chain_ops cxP cx_pb cx_cb) cx_pb.
Definition cx_fc : stf := cm_st (compact_step flat_ops cxP cx_fb cx_cb) cx_fb.
Definition cx_cc : cursor := cm_cur (compact_step chain_ops cxP cx_pb cx_cb).
Definition cx_pd : stp := cm_st (compact_step chain_ops cxP cx_pc cx_cc) cx_pc.
Definition cx_fd : stf := cm_st (compact_step flat_ops cxP cx_fc cx_cc) cx_fc.
Definition cx_cd : cursor := cm_cur (compact_step chain_ops cxP cx_pc cx_cc).
Definition cx_pe : stp := cm_st (compact_step chain_ops cxP cx_pd cx_cd) cx_pd.
Definition cx_fe : stf := cm_st (compact_step flat_ops cxP cx_fd cx_cd) cx_fd.
Definition cx_ce : cursor := cm_cur (compact_step chain_ops cxP cx_pd cx_cd).

(* (hash, segment, offset) of every slot, chain by chain *)
Definition cx_slots (s : stp) : list (list (N * N * N)) :=
  match s_mem s with
  | Some m => map (fun c => map (fun sl => (sl_h sl, sl_seg sl, sl_off sl)) (concat c)) (px_chains (m_idx m))
  | None => []
  end.

Example cx_repointed :
  cx_slots cx_p6 = [[(0, 0, 512); (4, 0, 525)]; [(1, 0, 538); (3, 0, 551)]; [(2, 0, 564); (6, 0, 577)]] /\
  cx_slots cx_pe = [[(0, 1, 512); (4, 1, 525)]; [(1, 1, 538); (3, 0, 551)]; [(2, 0, 564); (6, 0, 577)]].
Proof. split; vm_compute; reflexivity. Qed.

Lemma cxP_ok : params_ok cxP.
Proof. vm_compute. reflexivity. Qed.

Lemma cx_ok6 : ok cxP cx_p6 cx_f6 fz_c0.
Proof.
  pose proof (init_rel cxP 1) as H. rewrite flat_open_fresh in H.
  assert (H0 : st_rel (fst (db_open chain_ops cxP 1 st0)) (flat_init 1) /\ Inv cxP (flat_init 1)).
  { destruct (db_open chain_ops cxP 1 st0) as [sp o]. cbn [fst]. tauto. }
  destruct H0 as [H0 I0].
  destruct (chain_run_states cxP _ _ fz_ops cxP_ok H0 I0) as (A & B & _).
  - apply ops_valid_b_ok. vm_compute. reflexivity.
  - apply rooms_b_ok. vm_compute. reflexivity.
  - split; [exact A|]. split; [exact B|].
    destruct (s_mem cx_f6) as [m|] eqn:E; [|vm_compute in E; discriminate].
    exists m. split; [exact E|]. split; [intros x []|]. split; [constructor|]. split; [exact I|].
    intros x [].
Qed.

Ltac cx_compact R sp' sf' c' :=
  match type of R with
  | cscan ?P ?sp ?sf ?c ?it ?ret ?h ?hn ?ws =>
    let W := fresh "W" in
    assert (W : wr_step P sp sf c WLnone sp' sf' c')
      by (apply w_compact; [apply roomy_b_ok; vm_compute; reflexivity
                           |vm_compute; reflexivity|vm_compute; reflexivity]);
    let R' := fresh "R" in
    pose proof (cs_write P sp sf c it ret h hn ws WLnone sp' sf' c' R W) as R'; clear W
  end.

(* one Next call; pick; four critical sections of Compact (the last one repoints the slot of key [1],
   which the scan has not reached yet); the rest of the scan: every key is returned once *)
Theorem compact_scan_example :
  exists it ret h hn,
    cscan cxP cx_pe cx_fe cx_ce it ret h hn [WLnone; WLnone; WLnone; WLnone; WLnone] /\
    dbiter_step chain_ops cx_pe it = Some (it, None) /\
    ret = [(kk 0, vv 0); (kk 4, vv 4); (kk 1, vv 1); (kk 3, vv 3); (kk 2, vv 2); (kk 6, vv 6)].
Proof.
  pose proof (cs_start cxP cx_p6 cx_f6 fz_c0 cx_ok6) as R0.
  fz_next R0.
  assert (W : wr_step cxP cx_p6 cx_f6 fz_c0 WLnone cx_pa cx_fa cx_ca).
  { apply w_pick; [apply metaok_b_ok; vm_compute; reflexivity|vm_compute; reflexivity|vm_compute; reflexivity]. }
  pose proof (cs_write _ _ _ _ _ _ _ _ _ _ _ _ _ R W) as R1. clear W.
  cx_compact R1 cx_pb cx_fb cx_cb.
  cx_compact R2 cx_pc cx_fc cx_cc.
  cx_compact R3 cx_pd cx_fd cx_cd.
  cx_compact R4 cx_pe cx_fe cx_ce.
  fz_next R5. fz_next R6. fz_next R7. fz_next R8. fz_next R9. fz_next R10.
  eexists _, _, _, _. split; [exact R11|]. split; [vm_compute; reflexivity|reflexivity].
Qed.
End CompactEx.

(* ================================================================================================ *)
Print Assumptions it_step_spec.
Print Assumptions quiescent_scan_items.
Print Assumptions C11_quiescent_scan.
Print Assumptions C11_quiescent_scan_flat.
Print Assumptions C11_index_complete.
Print Assumptions wr_step_ok.
Print Assumptions C11_truthful.
Print Assumptions C11_truthful_queue.
Print Assumptions C11_truthful_at_return.
Print Assumptions C11_complete.
Print Assumptions C11_complete_untouched.
Print Assumptions C11_next_total.
Print Assumptions dbiter_step_with_real.
Print Assumptions FrozenEx.frozen_bound_refuted.
Print Assumptions FrozenEx.reread_bound_example.
Print Assumptions FrozenEx.reread_bound_complete.
Print Assumptions CompactEx.compact_scan_example.

(* ================================================================================================ *)
(** * 7. "At least once" cannot be improved to "exactly once" while writers run *)

Module DupEx.
Import FrozenEx.
(* four keys, two chains {0,2} {1,3} (level 1, split pointer 0).  The first Next call drains chain 0
   and returns [0]; then the Put of a fifth key splits chain 0: key [2], already queued, moves to the
   new last chain 2, which the scan visits later: [2] is returned twice (no writer ever named it). *)
Definition du_ops : list op := map (fun h => OpPut (kk h) (vv h)) [0; 2; 1; 3].
Definition du_p4 : stp := fold_left (fun s o => fst (step_chain fzP s o)) du_ops fz_p0.
Definition du_p5 : stp := fst (db_put chain_ops fzP (kk 5) (vv 5) du_p4).
Definition du_it1 : dbiter := {| it_next := 1; it_queue := [(kk 2, vv 2)] |}.

Theorem concurrent_duplicate_example :
  fz_shape du_p4 = (1, 0, [[[0; 2]]; [[1; 3]]]) /\
  fz_shape du_p5 = (1, 1, [[[0]]; [[1; 3; 5]]; [[2]]]) /\
  dbiter_step chain_ops du_p4 dbiter0 = Some (du_it1, Some (kk 0, vv 0)) /\
  outs chain_ops 6 du_p5 du_it1 =
    [Some (kk 2, vv 2); Some (kk 1, vv 1); Some (kk 3, vv 3); Some (kk 5, vv 5); Some (kk 2, vv 2); None].
Proof. repeat split; vm_compute; reflexivity. Qed.
End DupEx.
Print Assumptions DupEx.concurrent_duplicate_example.
