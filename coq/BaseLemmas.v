(* BaseLemmas.v -- basic facts about the N-indexed list functions of Base.v. *)
From Coq Require Import ZArith Lia ZifyN ZifyNat ZifyBool.
From Pogreb Require Import Base.
Ltac Zify.zify_post_hook ::= Z.div_mod_to_equations.

(* ---- nlen ---- *)
Lemma nlen_length {A} (l : list A) : nlen l = N.of_nat (length l).
Proof.
  induction l as [|x l IH]; [reflexivity|].
  cbn [nlen length]. rewrite IH, Nat2N.inj_succ. reflexivity.
Qed.

Lemma length_nlen {A} (l : list A) : length l = N.to_nat (nlen l).
Proof. rewrite nlen_length, Nat2N.id. reflexivity. Qed.

Lemma nlen_nil {A} : nlen (@nil A) = 0.
Proof. reflexivity. Qed.

Lemma nlen_cons {A} (x : A) l : nlen (x :: l) = 1 + nlen l.
Proof. cbn [nlen]. lia. Qed.

Lemma nlen_app {A} (a b : list A) : nlen (a ++ b) = nlen a + nlen b.
Proof. rewrite !nlen_length, app_length. lia. Qed.

Lemma nlen_nil_iff {A} (l : list A) : nlen l = 0 <-> l = [].
Proof.
  split; [|intros ->; reflexivity].
  destruct l as [|x l]; [reflexivity|]. intros H. rewrite nlen_cons in H. lia.
Qed.

Lemma nlen_pos_iff {A} (l : list A) : 0 < nlen l <-> l <> [].
Proof.
  destruct l as [|x l].
  - cbn [nlen]. split; intros H; [lia|congruence].
  - rewrite nlen_cons. split; intros H; [congruence|lia].
Qed.

Lemma nlen_map {A B} (f : A -> B) l : nlen (map f l) = nlen l.
Proof. rewrite !nlen_length, map_length. reflexivity. Qed.

Lemma nlen_eq_length {A B} (a : list A) (b : list B) : nlen a = nlen b <-> length a = length b.
Proof. rewrite !nlen_length. lia. Qed.

(* ---- ntake / ndrop: unfolding equations ---- *)
Lemma ntake_0 {A} (l : list A) : ntake 0 l = [].
Proof. reflexivity. Qed.

Lemma ntake_nil {A} n : ntake n (@nil A) = [].
Proof. destruct n; reflexivity. Qed.

Lemma ntake_pos_cons {A} p (x : A) l : ntake_pos p (x :: l) = x :: ntake (Pos.pred_N p) l.
Proof. destruct p; reflexivity. Qed.

Lemma ntake_succ_cons {A} n (x : A) l : ntake (N.succ n) (x :: l) = x :: ntake n l.
Proof.
  destruct n as [|p]; [reflexivity|].
  change (N.succ (N.pos p)) with (N.pos (Pos.succ p)).
  unfold ntake at 1. rewrite ntake_pos_cons, Pos.pred_N_succ. reflexivity.
Qed.

Lemma ndrop_0 {A} (l : list A) : ndrop 0 l = l.
Proof. reflexivity. Qed.

Lemma ndrop_nil {A} n : ndrop n (@nil A) = [].
Proof. destruct n; reflexivity. Qed.

Lemma ndrop_pos_cons {A} p (x : A) l : ndrop_pos p (x :: l) = ndrop (Pos.pred_N p) l.
Proof. destruct p; reflexivity. Qed.

Lemma ndrop_succ_cons {A} n (x : A) l : ndrop (N.succ n) (x :: l) = ndrop n l.
Proof.
  destruct n as [|p]; [reflexivity|].
  change (N.succ (N.pos p)) with (N.pos (Pos.succ p)).
  unfold ndrop at 1. rewrite ndrop_pos_cons, Pos.pred_N_succ. reflexivity.
Qed.

(* ---- bridges to the standard library ---- *)
Lemma ntake_firstn {A} n (l : list A) : ntake n l = firstn (N.to_nat n) l.
Proof.
  revert l. induction n as [|n IH] using N.peano_ind; intros l; [reflexivity|].
  rewrite N2Nat.inj_succ. destruct l as [|x l]; [apply ntake_nil|].
  rewrite ntake_succ_cons, IH. reflexivity.
Qed.

Lemma ndrop_skipn {A} n (l : list A) : ndrop n l = skipn (N.to_nat n) l.
Proof.
  revert l. induction n as [|n IH] using N.peano_ind; intros l; [reflexivity|].
  rewrite N2Nat.inj_succ. destruct l as [|x l]; [apply ndrop_nil|].
  rewrite ndrop_succ_cons, IH. reflexivity.
Qed.

Lemma firstn_ntake {A} n (l : list A) : firstn n l = ntake (N.of_nat n) l.
Proof. rewrite ntake_firstn, Nat2N.id. reflexivity. Qed.

Lemma skipn_ndrop {A} n (l : list A) : skipn n l = ndrop (N.of_nat n) l.
Proof. rewrite ndrop_skipn, Nat2N.id. reflexivity. Qed.

(* ---- append ---- *)
Lemma ntake_ndrop_id {A} n (l : list A) : ntake n l ++ ndrop n l = l.
Proof. rewrite ntake_firstn, ndrop_skipn. apply firstn_skipn. Qed.

Lemma ntake_app_exact {A} (a b : list A) : ntake (nlen a) (a ++ b) = a.
Proof.
  rewrite ntake_firstn, <- length_nlen, firstn_app, Nat.sub_diag, firstn_all, firstn_O.
  apply app_nil_r.
Qed.

Lemma ndrop_app_exact {A} (a b : list A) : ndrop (nlen a) (a ++ b) = b.
Proof.
  rewrite ndrop_skipn, <- length_nlen, skipn_app, Nat.sub_diag, skipn_all.
  reflexivity.
Qed.

Lemma ntake_app_le {A} n (a b : list A) : n <= nlen a -> ntake n (a ++ b) = ntake n a.
Proof.
  intros H. rewrite !ntake_firstn, firstn_app.
  replace (N.to_nat n - length a)%nat with 0%nat by (rewrite length_nlen; lia).
  rewrite firstn_O. apply app_nil_r.
Qed.

Lemma ndrop_app_le {A} n (a b : list A) : n <= nlen a -> ndrop n (a ++ b) = ndrop n a ++ b.
Proof.
  intros H. rewrite !ndrop_skipn, skipn_app.
  replace (N.to_nat n - length a)%nat with 0%nat by (rewrite length_nlen; lia).
  reflexivity.
Qed.

Lemma ntake_app_ge {A} n (a b : list A) : nlen a <= n -> ntake n (a ++ b) = a ++ ntake (n - nlen a) b.
Proof.
  intros H. rewrite !ntake_firstn, firstn_app.
  rewrite firstn_all2 by (rewrite length_nlen; lia).
  f_equal. f_equal. rewrite length_nlen. lia.
Qed.

Lemma ndrop_app_ge {A} n (a b : list A) : nlen a <= n -> ndrop n (a ++ b) = ndrop (n - nlen a) b.
Proof.
  intros H. rewrite !ndrop_skipn, skipn_app.
  rewrite skipn_all2 by (rewrite length_nlen; lia).
  cbn [app]. f_equal. rewrite length_nlen. lia.
Qed.

Lemma ntake_app_add {A} n (a b : list A) : ntake (nlen a + n) (a ++ b) = a ++ ntake n b.
Proof. rewrite ntake_app_ge by lia. do 2 f_equal. lia. Qed.

Lemma ndrop_app_add {A} n (a b : list A) : ndrop (nlen a + n) (a ++ b) = ndrop n b.
Proof. rewrite ndrop_app_ge by lia. f_equal. lia. Qed.

(* ---- all / nothing ---- *)
Lemma ntake_all {A} n (l : list A) : nlen l <= n -> ntake n l = l.
Proof. intros H. rewrite ntake_firstn. apply firstn_all2. rewrite length_nlen. lia. Qed.

Lemma ndrop_all {A} n (l : list A) : nlen l <= n -> ndrop n l = [].
Proof. intros H. rewrite ndrop_skipn. apply skipn_all2. rewrite length_nlen. lia. Qed.

Lemma ntake_nlen {A} (l : list A) : ntake (nlen l) l = l.
Proof. apply ntake_all. lia. Qed.

Lemma ndrop_nlen {A} (l : list A) : ndrop (nlen l) l = [].
Proof. apply ndrop_all. lia. Qed.

(* ---- lengths ---- *)
Lemma nlen_ntake {A} n (l : list A) : nlen (ntake n l) = N.min n (nlen l).
Proof. rewrite ntake_firstn, !nlen_length, firstn_length. lia. Qed.

Lemma nlen_ntake_le {A} n (l : list A) : n <= nlen l -> nlen (ntake n l) = n.
Proof. intros H. rewrite nlen_ntake. lia. Qed.

Lemma nlen_ndrop {A} n (l : list A) : nlen (ndrop n l) = nlen l - n.
Proof. rewrite ndrop_skipn, !nlen_length, skipn_length. lia. Qed.

(* ---- composition ---- *)
Lemma ndrop_add {A} n m (l : list A) : ndrop (n + m) l = ndrop m (ndrop n l).
Proof.
  rewrite !ndrop_skipn, N2Nat.inj_add.
  generalize (N.to_nat n) as a. generalize (N.to_nat m) as b. clear n m.
  intros b a. revert l. induction a as [|a IH]; intros l; [reflexivity|].
  destruct l as [|x l]; [rewrite !skipn_nil; reflexivity|].
  cbn [Nat.add skipn]. apply IH.
Qed.

Lemma ntake_ntake {A} n m (l : list A) : ntake n (ntake m l) = ntake (N.min n m) l.
Proof. rewrite !ntake_firstn, firstn_firstn. f_equal. lia. Qed.

Lemma ntake_ndrop_split {A} n m (l : list A) : ntake (n + m) l = ntake n l ++ ntake m (ndrop n l).
Proof.
  rewrite <- (ntake_ndrop_id n l) at 1.
  destruct (N.le_gt_cases n (nlen l)) as [H|H].
  - rewrite ntake_app_ge by (rewrite nlen_ntake; lia).
    do 2 f_equal. rewrite nlen_ntake. lia.
  - rewrite (ndrop_all n l) by lia. rewrite app_nil_r, ntake_nil, app_nil_r.
    rewrite (ntake_all n l) by lia. apply ntake_all. lia.
Qed.

Lemma ntake_app_exact' {A} n (a b : list A) : nlen a = n -> ntake n (a ++ b) = a.
Proof. intros <-. apply ntake_app_exact. Qed.

Lemma ndrop_app_exact' {A} n (a b : list A) : nlen a = n -> ndrop n (a ++ b) = b.
Proof. intros <-. apply ndrop_app_exact. Qed.

Lemma ndrop_ntake {A} a n (l : list A) : ndrop a (ntake n l) = ntake (n - a) (ndrop a l).
Proof. rewrite !ndrop_skipn, !ntake_firstn, skipn_firstn_comm, N2Nat.inj_sub. reflexivity. Qed.

Lemma ntake_ndrop {A} a n (l : list A) : ntake n (ndrop a l) = ndrop a (ntake (a + n) l).
Proof. rewrite ndrop_ntake. f_equal. lia. Qed.

(* two decompositions of the same list *)
Lemma app_eq_split {A} (a b c d : list A) :
  a ++ b = c ++ d -> nlen a <= nlen c -> exists e, c = a ++ e /\ b = e ++ d.
Proof.
  intros E H. exists (ndrop (nlen a) c).
  assert (Ha : ntake (nlen a) (a ++ b) = ntake (nlen a) (c ++ d)) by (rewrite E; reflexivity).
  assert (Hb : ndrop (nlen a) (a ++ b) = ndrop (nlen a) (c ++ d)) by (rewrite E; reflexivity).
  rewrite ntake_app_exact, ntake_app_le in Ha by exact H.
  rewrite ndrop_app_exact, ndrop_app_le in Hb by exact H.
  split; [|exact Hb].
  rewrite Ha at 1. symmetry. apply ntake_ndrop_id.
Qed.

Lemma nlen_concat_cons {A} (c : list A) cs : nlen (concat (c :: cs)) = nlen c + nlen (concat cs).
Proof. cbn [concat]. apply nlen_app. Qed.

(* ---- Forall ---- *)
Lemma Forall_ntake {A} (P : A -> Prop) n l : Forall P l -> Forall P (ntake n l).
Proof. intros H. rewrite ntake_firstn. apply Forall_forall. intros x Hx.
  apply (proj1 (Forall_forall P l) H). revert Hx. rewrite <- (firstn_skipn (N.to_nat n) l) at 2.
  intros Hx. apply in_or_app. left. exact Hx.
Qed.

Lemma Forall_ndrop {A} (P : A -> Prop) n l : Forall P l -> Forall P (ndrop n l).
Proof. intros H. rewrite ndrop_skipn. apply Forall_forall. intros x Hx.
  apply (proj1 (Forall_forall P l) H). revert Hx. rewrite <- (firstn_skipn (N.to_nat n) l) at 2.
  intros Hx. apply in_or_app. right. exact Hx.
Qed.

(* ---- machine integers ---- *)
Lemma u16_small x : x < 65536 -> u16 x = x.
Proof. intros H. unfold u16. apply N.mod_small. exact H. Qed.

Lemma u32_small x : x < 4294967296 -> u32 x = x.
Proof. intros H. unfold u32. apply N.mod_small. exact H. Qed.

Lemma u16_lt x : u16 x < 65536.
Proof. unfold u16. apply N.mod_lt. discriminate. Qed.

Lemma u32_lt x : u32 x < 4294967296.
Proof. unfold u32. apply N.mod_lt. discriminate. Qed.
