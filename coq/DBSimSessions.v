(* DBSimSessions.v -- the chain-vs-flat REFINEMENT (DBSim.v / DBRun.v) extended to SESSIONS:
   db_close, db_open (clean reopen AND recovery), crash images, and runs over Open / Close / Crash.
   Hence the restart (C02), crash (C03) and crash-during-recovery (C04) theorems proved for the flat
   instantiation [flat_ops] (DBProofsRecovery.v, DBProofsCrash.v) hold for the bucket-chain
   instantiation [chain_ops] (the index as index.go implements it), and -- composed with PhysDB.v -- for
   the physical index.  sp : st pindex, sf : st flat; NOTHING is assumed about the chain state beyond
   [st_rel sp sf]; every other hypothesis is about the FLAT state.  No axioms (Print Assumptions at the
   end: all "Closed under the global context").  Nothing asked for turned out to be false.

   1. GENERIC (Section Gen: two index types related by R, only [R (ix_empty ops1) (ix_empty ops2)] and
      equal [ix_count]; these parts of DB.v call no other index operation):
        gob_write_g, close_fold_g, close_g (Close), backup_nonseg_g, remove_bac_g, open_index_g,
        open_segments_g, reframe_g, seal_all_but_last_g, open_pre / open_post (DBSimExact.open_mid cut in
        two: open_mid_pre_post), open_pre_g, open_post_clean_g, open_clean_g (Open without lock file),
        open_locked_g (Open on an open handle).
   2. CLOSE / CLEAN OPEN, chain vs flat (NO invariant needed, only [st_rel]):
        sim_close (+ _so: the [so_rel idx_rel] form), sim_close_disk (main.pix / index.pmt hold
        [idx_rel]-related values), sim_open_clean (+ _so)   [hypothesis: d_lock (s_disk sf) = false].
   3. RECOVERING OPEN:  uniq_of_nodup (the uniqueness hypothesis of DBSim.put_rel / del_rel follows from
        NoDup of the slot keys alone), replay_rec_sim, replay_fold_sim (loop invariant: [rc_IdxInv] of
        DBProofsRecovery holds for the partial FLAT index before every replayed record, by
        rc_replay_rec_frame + rc_IdxInv_step), LInv / LInv_step (invariant of the loop over segments, from
        rc_recover_loop on one segment), recover_segment_sim, recover_loop_sim, recover_sim,
        flat_open_pre_facts (first half of the proof of open_recover_gen), and
        sim_open_recover (+ _so)   [hypotheses: exactly those of open_recover_ok minus params_ok:
                                     DiskOK (s_disk sf), bac_ok (s_disk sf), d_lock (s_disk sf) = true]
        sim_open (+ _so)           [both paths; the three facts are required only if the lock is there].
   4. RUNS over sessions, run language of DBSimExact.v (lop = LBase op' | LClose | LOpen seed | LCrash,
      lstep, lrun, lfinal):
        same_md, db_open_clean_md (the clean Open does not look at the trace: needed because the flat
          theorems about reopening are stated with [clear_trace] and lstep keeps the trace),
        step'_closed (every operation on a closed handle: ErrClosed, nothing changes),
        J P sf     the states the flat run goes through: J_open (Inv, MetaOK, open, bac_ok) | J_closed (the
                   disk Close left from such a state) | J_crashed (closed, DiskOK, bac_ok, lock present)
                   | J_fresh (empty directory);  J_st0
        lside / lsides (+ lside_b / lsides_b, _ok): the per-step side condition on the FLAT run = DBRun.rooms'
                   (room, compact_room before Compact, op_valid') when the handle is open; NOTHING when it
                   is closed and NOTHING for LClose / LOpen / LCrash (what they need follows from J)
        mode / mode_of / lstep_spec / lrun_spec / lfinal_spec: the specification of sessions = a plain map +
                   {MOpen, MClosed, MCrashed}; Open returns OOpened true exactly after a crash
        lstep_refines (StepOK), lrun_refines,
        sim_lrun                    chain run vs flat run: Forall2 out_equiv, final st_rel, J again
        chain_sessions_refine_spec  chain run vs specification: Forall2 out_equiv' (DBRun), contents meq
        loks_of_flat                DBSimExact's side condition along the chain run follows
        chain_sessions_from_empty.
   5. CRASH IMAGES:  gtorn / gcrash_image / gcrash_at (DBProofsCrash.crash_image for any index
        implementation, and as a function of the instant (events done, bytes of a torn record));
        gcrash_flat (for flat_ops it IS crash_image), crash_at_g, crash_image_g,
        sim_crash_at (same instant => [disk_rel] images), sim_crash_image (both directions),
        sim_crash_image_st.
   6. THE FLAT THEOREMS FOR THE CHAIN INSTANCE:  answers P sp ms (Get / Has / Count / Items of sp are those
        of the map ms; Items up to order), answers_of_rel, answers_meq,
        chain_close_reopen_ok (C02), chain_recover_image, chain_crash_recover_ok (the engine: any operation),
        chain_crash_put, chain_crash_delete, chain_crash_sync, chain_crash_compact_pick,
        chain_crash_compact_step, chain_crash_close (C03: before-or-after), chain_crash_open_recover (C04).
   7. PHYSICAL INDEX:  phys_sessions_flat, phys_sessions_from_empty (PhysDB.phys_sessions + loks_of_flat).
   8. Module SessEx: the run of DBSimExact.ExactEx (Open, 40 colliding Puts, Delete, Crash, Open = recovery,
        reads, Put, Compact, Close, read on closed handle, Open = clean, reads, Items, Sync): ex_lsides (by
        computation), ex_run, ex_phys, ex_spec_outputs, ex_final_orders (slot orders differ at the end);
        X_rel, ex_torn_put: after Open + 35 Puts, a Put dies with 5 bytes of its record in the file
        (gcrash_at .. 0 (Some 5)): chain_crash_put applies, the chain database recovers, the torn Put is gone.

   DEVIATIONS / NOT COVERED:
     - Along a run the flat side needs more than [Inv]: closed states have to be recognisable as "left by
       Close" (close_reopen_ok is a statement about Close;Open, not about a class of closed disks), hence J.
     - The crash theorems are stated with [gcrash_image chain_ops] (crash_image is flat-only) and with the
       existence of a related flat image; Delete takes [Forall byte k] as crash_delete does.
     - LCrash strikes BETWEEN operations; images in the middle of an operation are covered by the
       chain_crash_* theorems, not by the run language (no chain analogue of C04_chain's [epochs]).
     - Not transferred: power loss (PowerLoss*.v), Backup and the iterator through sessions, crash images
       of a WHOLE compaction (only pick and one critical section). *)
From Coq Require Import ZArith Lia ZifyN ZifyNat ZifyBool Permutation.
From Pogreb Require Import Base BaseLemmas Crc Bytes Record RecordProofs Flat Index Spec DB DBInv
  DBLemmas DBProofsOps DBMeta DBProofsCompact DBProofsRecovery DBProofsCrash DBSim DBRun DBSimExact
  Bucket Phys PhysProofs PhysDB.
Ltac Zify.zify_post_hook ::= Z.div_mod_to_equations.

Local Notation stp := (@DB.st pindex).
Local Notation stf := (@DB.st flat).
Local Notation diskp := (@DB.disk pindex).
Local Notation diskf := (@DB.disk flat).
Local Notation memp := (@DB.mem pindex).
Local Notation memf := (@DB.mem flat).

(* ================================================================================================ *)
(** * 1. Close and the clean Open, for two arbitrary index types related by [R]
      (only [R] of the empty indexes and equal counts are needed: no index operation is called) *)

Section Gen.
Context {I1 I2 : Type}.
Variable ops1 : idx_ops I1.
Variable ops2 : idx_ops I2.
Variable R : I1 -> I2 -> Prop.
Hypothesis RE : R (ix_empty ops1) (ix_empty ops2).
Hypothesis RC : forall a b, R a b -> ix_count ops1 a = ix_count ops2 b.

Local Notation st1 := (@DB.st I1). Local Notation st2 := (@DB.st I2).
Local Notation mem1 := (@DB.mem I1). Local Notation mem2 := (@DB.mem I2).
Local Notation disk1 := (@DB.disk I1). Local Notation disk2 := (@DB.disk I2).

Lemma gob_write_g f b1 b2 (s1 : st1) (s2 : st2) :
  gst_rel R s1 s2 -> gev_rel R b1 b2 -> gst_rel R (gob_write ops1 f b1 s1) (gob_write ops2 f b2 s2).
Proof.
  intros Hs Hb. unfold gob_write. rewrite (exists_file_rel R _ _ f (st_rel_disk R _ _ Hs)).
  apply (emits_rel R ops1 ops2 RE).
  - constructor; [constructor|]. constructor; [exact Hb|]. constructor; [constructor|constructor].
  - destruct (exists_file (s_disk s2) f); apply (emit_rel R ops1 ops2 RE); try exact Hs; constructor.
Qed.

Lemma close_fold_g (l : list mseg) : forall (a : st1) (b : st2), gst_rel R a b ->
  gst_rel R
    (fold_left (fun s g => gob_write ops1 (FSegMeta (g_id g) (g_seq g)) (EGobSeg (g_id g) (g_seq g) (g_meta g))
                             (emit ops1 (ESync (FSeg (g_id g) (g_seq g))) s)) l a)
    (fold_left (fun s g => gob_write ops2 (FSegMeta (g_id g) (g_seq g)) (EGobSeg (g_id g) (g_seq g) (g_meta g))
                             (emit ops2 (ESync (FSeg (g_id g) (g_seq g))) s)) l b).
Proof.
  induction l as [|g l IH]; intros a b Hab; cbn [fold_left]; [exact Hab|].
  apply IH. apply gob_write_g; [|constructor]. apply (emit_rel R ops1 ops2 RE); [exact Hab|constructor].
Qed.

(* Close: no index operation at all; the index value goes to index.pmt (EGobIndex), related by R *)
Theorem close_g (s1 : st1) (s2 : st2) :
  gst_rel R s1 s2 -> so_rel R (db_close ops1 s1) (db_close ops2 s2).
Proof.
  intros Hs. unfold db_close.
  destruct (st_rel_mem_cases R _ _ Hs) as [[E1 E2]|(m1 & m2 & E1 & E2 & Hm)]; rewrite E1, E2.
  { split; [reflexivity|exact Hs]. }
  cbv beta iota zeta. split; [reflexivity|]. cbn [fst].
  rewrite (mem_rel_seed R _ _ Hm), (mem_rel_segs R _ _ Hm).
  match goal with
  | |- gst_rel R {| s_mem := None; s_disk := s_disk ?a; s_trace := _ |}
                 {| s_mem := None; s_disk := s_disk ?b; s_trace := _ |} =>
      assert (H4 : gst_rel R a b)
  end.
  { apply (emits_rel R ops1 ops2 RE).
    - constructor; [constructor|]. constructor; [constructor|]. constructor; [constructor|constructor].
    - apply gob_write_g; [|constructor; exact (mem_rel_idx R _ _ Hm)].
      apply close_fold_g. apply gob_write_g; [exact Hs|constructor]. }
  apply st_rel_iff. cbn [s_mem s_disk s_trace].
  split; [constructor|]. split; [exact (st_rel_disk R _ _ H4)|exact (st_rel_trace R _ _ H4)].
Qed.

Lemma d_lock_g (d1 : disk1) (d2 : disk2) : gdisk_rel R d1 d2 -> d_lock d1 = d_lock d2.
Proof. intros H. destruct H. reflexivity. Qed.
Lemma d_overflow_g (d1 : disk1) (d2 : disk2) : gdisk_rel R d1 d2 -> d_overflow d1 = d_overflow d2.
Proof. intros H. destruct H. reflexivity. Qed.
Lemma d_dbmeta_g (d1 : disk1) (d2 : disk2) : gdisk_rel R d1 d2 -> d_dbmeta d1 = d_dbmeta d2.
Proof. intros H. destruct H. reflexivity. Qed.
Lemma d_index_g (d1 : disk1) (d2 : disk2) : gdisk_rel R d1 d2 -> opt_rel R (d_index d1) (d_index d2).
Proof. intros H. destruct H. assumption. Qed.
Lemma d_imeta_g (d1 : disk1) (d2 : disk2) : gdisk_rel R d1 d2 -> gob_rel R (d_imeta d1) (d_imeta d2).
Proof. intros H. destruct H. assumption. Qed.

Lemma upd_seg_g id seq G (d1 : disk1) (d2 : disk2) :
  gdisk_rel R d1 d2 -> gdisk_rel R (upd_seg id seq G d1) (upd_seg id seq G d2).
Proof.
  intros H. destruct H. unfold upd_seg.
  cbn [d_segs d_orphans d_index d_overflow d_imeta d_dbmeta d_lock d_bac]. constructor; assumption.
Qed.

Lemma fold_emit_g {A} (ev1 : A -> @fsev I1) (ev2 : A -> @fsev I2) (l : list A) :
  (forall a, gev_rel R (ev1 a) (ev2 a)) -> forall (s1 : st1) (s2 : st2), gst_rel R s1 s2 ->
  gst_rel R (fold_left (fun s a => emit ops1 (ev1 a) s) l s1)
            (fold_left (fun s a => emit ops2 (ev2 a) s) l s2).
Proof.
  intros He. induction l as [|a l IH]; intros s1 s2 Hs; cbn [fold_left]; [exact Hs|].
  apply IH. apply (emit_rel R ops1 ops2 RE); [exact Hs|apply He].
Qed.

Lemma backup_nonseg_g (s1 : st1) (s2 : st2) :
  gst_rel R s1 s2 -> gst_rel R (backup_nonseg ops1 s1) (backup_nonseg ops2 s2).
Proof.
  intros Hs. unfold backup_nonseg. rewrite (dir_rel R _ _ (st_rel_disk R _ _ Hs)).
  apply (fold_emit_g (fun f => ERename f (FBac f)) (fun f => ERename f (FBac f))); [|exact Hs].
  intros f. constructor.
Qed.

Lemma remove_bac_g (s1 : st1) (s2 : st2) :
  gst_rel R s1 s2 -> gst_rel R (remove_bac ops1 s1) (remove_bac ops2 s2).
Proof.
  intros Hs. unfold remove_bac. rewrite (d_bac_rel R _ _ (st_rel_disk R _ _ Hs)).
  apply (fold_emit_g (fun f => ERemove f) (fun f => ERemove f)); [|exact Hs].
  intros f. constructor.
Qed.

(* openIndex: the index read from main.pix / index.pmt, or a new one *)
Definition oi_rel_g (a : option (st1 * I1)) (b : option (st2 * I2)) : Prop :=
  match a, b with
  | None, None => True
  | Some (s1, i1), Some (s2, i2) => gst_rel R s1 s2 /\ R i1 i2
  | _, _ => False
  end.

Lemma oi_tail_g (s1 : st1) (s2 : st2) : gst_rel R s1 s2 ->
  oi_rel_g (match d_index (s_disk s1), d_imeta (s_disk s1) with
            | Some i, GOk j => Some (s1, i)
            | _, _ => None
            end)
           (match d_index (s_disk s2), d_imeta (s_disk s2) with
            | Some i, GOk j => Some (s2, i)
            | _, _ => None
            end).
Proof.
  intros Hs. pose proof (st_rel_disk R _ _ Hs) as Hd.
  destruct (opt_rel_cases _ _ _ (d_index_g _ _ Hd)) as [[E1 E2]|(a & b & E1 & E2 & Hab)]; rewrite E1, E2;
    [exact Logic.I|].
  destruct (gob_rel_cases _ _ _ (d_imeta_g _ _ Hd)) as [[F1 F2]|[[F1 F2]|(a' & b' & F1 & F2 & _)]];
    rewrite F1, F2; [exact Logic.I|exact Logic.I|]. split; assumption.
Qed.

Lemma open_index_g (s1 : st1) (s2 : st2) :
  gst_rel R s1 s2 -> oi_rel_g (open_index ops1 s1) (open_index ops2 s2).
Proof.
  intros Hs. unfold open_index. pose proof (st_rel_disk R _ _ Hs) as Hd.
  destruct (opt_rel_cases _ _ _ (d_index_g _ _ Hd)) as [[E1 E2]|(a & b & E1 & E2 & Hab)]; rewrite E1, E2;
    cbv beta iota zeta.
  - assert (Ha : gst_rel R (emits ops1 [ECreate FMain; EHeader FMain] s1)
                           (emits ops2 [ECreate FMain; EHeader FMain] s2)).
    { apply (emits_rel R ops1 ops2 RE); [|exact Hs]. repeat constructor. }
    rewrite (d_overflow_g _ _ (st_rel_disk R _ _ Ha)).
    destruct (d_overflow (s_disk (emits ops2 [ECreate FMain; EHeader FMain] s2))).
    + split; [|exact RE]. apply (emits_rel R ops1 ops2 RE); [|exact Ha].
      constructor; [constructor|]. constructor; [constructor; exact RE|constructor].
    + split; [|exact RE]. apply (emits_rel R ops1 ops2 RE).
      * constructor; [constructor|]. constructor; [constructor; exact RE|constructor].
      * apply (emits_rel R ops1 ops2 RE); [|exact Ha]. repeat constructor.
  - rewrite (d_overflow_g _ _ Hd). destruct (d_overflow (s_disk s2)).
    + apply oi_tail_g. exact Hs.
    + apply oi_tail_g. apply (emits_rel R ops1 ops2 RE); [|exact Hs]. repeat constructor.
Qed.

(* openDatalog *)
Definition os_rel_g (a : st1 * list mseg) (b : st2 * list mseg) : Prop :=
  gst_rel R (fst a) (fst b) /\ snd a = snd b.

Lemma open_segments_fold_g (L : list dseg) : forall a b, os_rel_g a b ->
  os_rel_g
    (fold_left (fun (acc : st1 * list mseg) (f : dseg) =>
      let '(s, l) := acc in
      let s1 := if f_hdr f then s else emit ops1 (EHeader (FSeg (f_id f) (f_seq f))) s in
      let size := match find_dseg (f_id f) (s_disk s1) with Some f' => flen f' | None => 0 end in
      let meta := match f_meta f with GOk m => m | _ => smeta0 end in
      (s1, insert_mseg {| g_id := f_id f; g_seq := f_seq f; g_size := size; g_meta := meta |} l)) L a)
    (fold_left (fun (acc : st2 * list mseg) (f : dseg) =>
      let '(s, l) := acc in
      let s1 := if f_hdr f then s else emit ops2 (EHeader (FSeg (f_id f) (f_seq f))) s in
      let size := match find_dseg (f_id f) (s_disk s1) with Some f' => flen f' | None => 0 end in
      let meta := match f_meta f with GOk m => m | _ => smeta0 end in
      (s1, insert_mseg {| g_id := f_id f; g_seq := f_seq f; g_size := size; g_meta := meta |} l)) L b).
Proof.
  induction L as [|f L IH]; intros [sa la] [sb lb] [A B]; cbn [fold_left]; [split; assumption|].
  cbn [fst snd] in A, B. subst lb. apply IH. cbv beta iota zeta.
  assert (H1 : gst_rel R (if f_hdr f then sa else emit ops1 (EHeader (FSeg (f_id f) (f_seq f))) sa)
                         (if f_hdr f then sb else emit ops2 (EHeader (FSeg (f_id f) (f_seq f))) sb)).
  { destruct (f_hdr f); [exact A|]. apply (emit_rel R ops1 ops2 RE); [exact A|constructor]. }
  split; cbn [fst snd]; [exact H1|].
  rewrite (find_dseg_rel R _ _ (f_id f) (st_rel_disk R _ _ H1)). reflexivity.
Qed.

Lemma open_segments_g (s1 : st1) (s2 : st2) :
  gst_rel R s1 s2 -> os_rel_g (open_segments ops1 s1) (open_segments ops2 s2).
Proof.
  intros Hs. unfold open_segments. rewrite (d_segs_rel R _ _ (st_rel_disk R _ _ Hs)).
  apply open_segments_fold_g. split; [exact Hs|reflexivity].
Qed.

Lemma set_msegs_upd_g id F (m1 : mem1) (m2 : mem2) : gmem_rel R m1 m2 ->
  gmem_rel R (set_msegs m1 (upd_mseg id F (m_segs m1))) (set_msegs m2 (upd_mseg id F (m_segs m2))).
Proof. intros H. rewrite (mem_rel_segs R _ _ H). apply set_msegs_rel. exact H. Qed.

Lemma reframe_g id seq extra n (s1 : st1) (s2 : st2) :
  gst_rel R s1 s2 -> gst_rel R (reframe id seq extra n s1) (reframe id seq extra n s2).
Proof.
  intros Hs. destruct Hs as [m1 m2 d1 d2 t1 t2 Hm Hd Ht]. unfold reframe. cbn [s_mem s_disk s_trace].
  constructor; [exact Hm|apply upd_seg_g; exact Hd|exact Ht].
Qed.

Lemma seal_all_but_last_g l (m1 : mem1) (m2 : mem2) :
  gmem_rel R m1 m2 -> gmem_rel R (seal_all_but_last l m1) (seal_all_but_last l m2).
Proof.
  unfold seal_all_but_last. generalize (removelast l). intros l0. revert m1 m2.
  induction l0 as [|g l0 IH]; intros m1 m2 Hm; cbn [fold_left]; [exact Hm|].
  apply IH. apply set_msegs_upd_g. exact Hm.
Qed.

(* [db_open] after the lock / backup prelude is [DBSimExact.open_mid]; here it is cut in two: *)
(* everything up to (and excluding) the recovery *)
Definition open_pre {I} (ops : idx_ops I) (seed : N) (s1 : @DB.st I) :
    option (@DB.st I * @DB.mem I * I) :=
  match open_index ops s1 with
  | None => None
  | Some (s2, i) =>
    let '(s3, segs) := open_segments ops s2 in
    let maxseq := fold_left (fun n g => N.max n (g_seq g)) segs 0 in
    let m0 := {| m_segs := segs; m_cur := (0, 0); m_cur_removed := true; m_maxseq := maxseq;
                 m_idx := i; m_seed := seed |} in
    let '(s4, m1) := swap_segment ops s3 m0 in
    Some (s4, m1, i)
  end.

Definition open_post {I} (ops : idx_ops I) (P : params) (seed : N) (existing : bool) (s1 : @DB.st I)
    (pre : option (@DB.st I * @DB.mem I * I)) : @DB.st I * out :=
  match pre with
  | None => (s1, OErr EOpenFailed)
  | Some (s4, m1, i) =>
    let seed_ok :=
      if ix_count ops i =? 0 then Some seed
      else match d_dbmeta (s_disk s4) with GOk sd => Some sd | _ => None end in
    match seed_ok with
    | None => (s4, OErr EOpenFailed)
    | Some sd =>
      let m2 := {| m_segs := m_segs m1; m_cur := m_cur m1; m_cur_removed := m_cur_removed m1;
                   m_maxseq := m_maxseq m1; m_idx := m_idx m1; m_seed := sd |} in
      if existing
      then let '(s5, m3) := recover ops P s4 m2 in (with_mem m3 s5, OOpened true)
      else (with_mem m2 s4, OOpened false)
    end
  end.

Lemma open_mid_pre_post {I} (ops : idx_ops I) P seed existing (s1 : @DB.st I) :
  open_mid ops P seed existing s1 = open_post ops P seed existing s1 (open_pre ops seed s1).
Proof.
  unfold open_mid, open_pre, open_post. destruct (open_index ops s1) as [[s2 i]|]; [|reflexivity].
  destruct (open_segments ops s2) as [s3 segs]. cbv zeta.
  destruct (swap_segment ops s3 _) as [s4 m1]. reflexivity.
Qed.

Definition pre_rel (a : option (st1 * mem1 * I1)) (b : option (st2 * mem2 * I2)) : Prop :=
  match a, b with
  | None, None => True
  | Some (sa, ma, ia), Some (sb, mb, ib) => gst_rel R sa sb /\ gmem_rel R ma mb /\ R ia ib
  | _, _ => False
  end.

Lemma open_pre_g seed (s1 : st1) (s2 : st2) :
  gst_rel R s1 s2 -> pre_rel (open_pre ops1 seed s1) (open_pre ops2 seed s2).
Proof.
  intros Hs. unfold open_pre.
  pose proof (open_index_g s1 s2 Hs) as Hoi.
  destruct (open_index ops1 s1) as [[sa ia]|]; destruct (open_index ops2 s2) as [[sb ib]|];
    unfold oi_rel_g in Hoi; try contradiction; [|exact Logic.I].
  destruct Hoi as [Hsa Hi].
  pose proof (open_segments_g sa sb Hsa) as Hos.
  destruct (open_segments ops1 sa) as [sc segs1]. destruct (open_segments ops2 sb) as [sd segs].
  destruct Hos as [Hsc Esegs]. cbn [fst snd] in Hsc, Esegs. subst segs1.
  set (mx := fold_left (fun n g => N.max n (g_seq g)) segs 0).
  assert (Hm0 : gmem_rel R {| m_segs := segs; m_cur := (0, 0); m_cur_removed := true; m_maxseq := mx;
                              m_idx := ia; m_seed := seed |}
                           {| m_segs := segs; m_cur := (0, 0); m_cur_removed := true; m_maxseq := mx;
                              m_idx := ib; m_seed := seed |}) by (constructor; exact Hi).
  pose proof (swap_segment_rel R ops1 ops2 RE sc sd _ _ Hsc Hm0) as Hsw.
  cbv zeta.
  destruct (swap_segment ops1 sc _) as [se ma]. destruct (swap_segment ops2 sd _) as [sf mb].
  destruct Hsw as [Hse Hmab]. cbn [fst snd] in Hse, Hmab.
  split; [exact Hse|]. split; [exact Hmab|exact Hi].
Qed.

Lemma reseed_g (ma : mem1) (mb : mem2) sd0 : gmem_rel R ma mb ->
  gmem_rel R {| m_segs := m_segs ma; m_cur := m_cur ma; m_cur_removed := m_cur_removed ma;
                m_maxseq := m_maxseq ma; m_idx := m_idx ma; m_seed := sd0 |}
             {| m_segs := m_segs mb; m_cur := m_cur mb; m_cur_removed := m_cur_removed mb;
                m_maxseq := m_maxseq mb; m_idx := m_idx mb; m_seed := sd0 |}.
Proof. intros H. destruct H. cbn [m_segs m_cur m_cur_removed m_maxseq m_idx]. constructor. assumption. Qed.

(* the clean path: no recovery, hence no hypothesis *)
Lemma open_post_clean_g P seed (s1 : st1) (s2 : st2) a b :
  gst_rel R s1 s2 -> pre_rel a b ->
  so_rel R (open_post ops1 P seed false s1 a) (open_post ops2 P seed false s2 b).
Proof.
  intros Hs Hab. unfold open_post.
  destruct a as [[[sa ma] ia]|]; destruct b as [[[sb mb] ib]|]; unfold pre_rel in Hab; try contradiction;
    [|split; [reflexivity|exact Hs]].
  destruct Hab as (Hse & Hm & Hi).
  rewrite (RC ia ib Hi), (d_dbmeta_g _ _ (st_rel_disk R _ _ Hse)).
  assert (Hfin : forall sd0, so_rel R
     (with_mem {| m_segs := m_segs ma; m_cur := m_cur ma; m_cur_removed := m_cur_removed ma;
                  m_maxseq := m_maxseq ma; m_idx := m_idx ma; m_seed := sd0 |} sa, OOpened false)
     (with_mem {| m_segs := m_segs mb; m_cur := m_cur mb; m_cur_removed := m_cur_removed mb;
                  m_maxseq := m_maxseq mb; m_idx := m_idx mb; m_seed := sd0 |} sb, OOpened false)).
  { intros sd0. split; [reflexivity|]. cbn [fst]. apply with_mem_rel; [exact Hse|apply reseed_g; exact Hm]. }
  destruct (ix_count ops2 ib =? 0); [apply Hfin|].
  destruct (d_dbmeta (s_disk sb)) as [| |sd0]; [split; [reflexivity|exact Hse]|split; [reflexivity|exact Hse]|].
  apply Hfin.
Qed.

(* Open when no lock file is there (the last session was closed, or the directory is new) *)
Theorem open_clean_g P seed (s1 : st1) (s2 : st2) :
  gst_rel R s1 s2 -> d_lock (s_disk s2) = false ->
  so_rel R (db_open ops1 P seed s1) (db_open ops2 P seed s2).
Proof.
  intros Hs Hl. rewrite !db_open_mid.
  destruct (st_rel_mem_cases R _ _ Hs) as [[E1 E2]|(m1 & m2 & E1 & E2 & Hm)]; rewrite E1, E2;
    [|split; [reflexivity|exact Hs]].
  cbv beta iota zeta. rewrite (d_lock_g _ _ (st_rel_disk R _ _ Hs)), Hl. cbv beta iota.
  rewrite !open_mid_pre_post.
  assert (H0 : gst_rel R (emit ops1 (ECreate FLock) s1) (emit ops2 (ECreate FLock) s2))
    by (apply (emit_rel R ops1 ops2 RE); [exact Hs|constructor]).
  apply open_post_clean_g; [exact H0|]. apply open_pre_g. exact H0.
Qed.

(* Open on a database that somebody holds open: ErrLocked on both sides *)
Lemma open_locked_g P seed (s1 : st1) (s2 : st2) :
  gst_rel R s1 s2 -> s_mem s2 <> None -> so_rel R (db_open ops1 P seed s1) (db_open ops2 P seed s2).
Proof.
  intros Hs Hm. rewrite !db_open_mid.
  destruct (st_rel_mem_cases R _ _ Hs) as [[E1 E2]|(m1 & m2 & E1 & E2 & _)]; [congruence|].
  rewrite E1, E2. split; [reflexivity|exact Hs].
Qed.

End Gen.

(* ================================================================================================ *)
(** * 2. Chain index against flat index: Close, clean Open *)

Lemma count_rel' a b : idx_rel a b -> ix_count chain_ops a = ix_count flat_ops b.
Proof. exact (count_rel a b). Qed.

Theorem sim_close_so (sp : stp) (sf : stf) :
  st_rel sp sf -> so_rel idx_rel (db_close chain_ops sp) (db_close flat_ops sf).
Proof. exact (close_g chain_ops flat_ops idx_rel idx_rel_empty sp sf). Qed.

Theorem sim_close (sp : stp) (sf : stf) :
  st_rel sp sf ->
  let '(sp', op) := db_close chain_ops sp in
  let '(sf', of) := db_close flat_ops sf in
  op = of /\ st_rel sp' sf'.
Proof. intros Hs. apply so_rel_let. apply sim_close_so. exact Hs. Qed.

(* what Close leaves on disk: main.pix and index.pmt hold related index values *)
Corollary sim_close_disk (sp : stp) (sf : stf) :
  st_rel sp sf ->
  opt_rel idx_rel (d_index (s_disk (fst (db_close chain_ops sp)))) (d_index (s_disk (fst (db_close flat_ops sf)))) /\
  gob_rel idx_rel (d_imeta (s_disk (fst (db_close chain_ops sp)))) (d_imeta (s_disk (fst (db_close flat_ops sf)))).
Proof.
  intros Hs. destruct (sim_close_so sp sf Hs) as [_ H]. apply (st_rel_disk idx_rel) in H.
  apply disk_rel_iff in H. tauto.
Qed.

Theorem sim_open_clean_so P seed (sp : stp) (sf : stf) :
  st_rel sp sf -> d_lock (s_disk sf) = false ->
  so_rel idx_rel (db_open chain_ops P seed sp) (db_open flat_ops P seed sf).
Proof. exact (open_clean_g chain_ops flat_ops idx_rel idx_rel_empty count_rel' P seed sp sf). Qed.

Theorem sim_open_clean P seed (sp : stp) (sf : stf) :
  st_rel sp sf -> d_lock (s_disk sf) = false ->
  let '(sp', op) := db_open chain_ops P seed sp in
  let '(sf', of) := db_open flat_ops P seed sf in
  op = of /\ st_rel sp' sf'.
Proof. intros Hs Hl. apply so_rel_let. apply sim_open_clean_so; assumption. Qed.

(* ================================================================================================ *)
(** * 3. The recovering Open: the index is rebuilt by replaying the log *)

(* the callback of a replayed record accepts at most one slot as soon as the slot keys are distinct *)
Lemma uniq_of_nodup (d : diskf) h k (l : flat) :
  NoDup (map (slot_key d) l) -> uniq (fl_hit h (matchf d k)) l.
Proof.
  intros Hnd a b Ha Hb Fa Fb.
  apply fl_hit_true in Fa, Fb. destruct Fa as [_ Fa], Fb as [_ Fb]. apply matchf_key in Fa, Fb.
  apply (NoDup_map_inj (slot_key d) l); [exact Hnd|exact Ha|exact Hb|congruence].
Qed.

(* one replayed record *)
Lemma replay_rec_sim P (dp : diskp) (df : diskf) id off r (mp : memp) (mf : memf) :
  disk_rel dp df -> mem_rel mp mf -> NoDup (map (slot_key df) (m_idx mf)) ->
  mem_rel (replay_rec chain_ops P dp id off r mp) (replay_rec flat_ops P df id off r mf).
Proof.
  intros Hd Hm Hnd. unfold replay_rec.
  rewrite (mem_rel_seed _ _ _ Hm), (matchf_rel _ _ _ (rk r) Hd). cbv zeta.
  cbn [ix_del ix_put chain_ops flat_ops].
  destruct (rdel r).
  - pose proof (del_rel (m_idx mp) (m_idx mf) (p_hash P (m_seed mf) (rk r)) (matchf df (rk r))) as Hdel.
    destruct (px_del (m_idx mp) (p_hash P (m_seed mf) (rk r)) (matchf df (rk r))) as [i1 old1].
    destruct (fl_del (m_idx mf) (p_hash P (m_seed mf) (rk r)) (matchf df (rk r))) as [i2 old2].
    destruct (Hdel _ _ _ _ (mem_rel_idx _ _ _ Hm) (uniq_of_nodup df _ (rk r) _ Hnd) eq_refl eq_refl) as [<- Hi].
    cbv beta iota.
    apply set_msegs_upd_g. apply set_idx_rel; [|exact Hi].
    destruct old1; [apply track_del_rel|]; exact Hm.
  - set (sl := {| sl_h := p_hash P (m_seed mf) (rk r); sl_seg := id; sl_ks := u16 (nlen (rk r));
                  sl_vs := u32 (nlen (rv r)); sl_off := u32 off |}).
    pose proof (put_rel (p_grow P) (m_idx mp) (m_idx mf) sl (matchf df (rk r))) as Hput.
    destruct (px_put (p_grow P) (m_idx mp) sl (matchf df (rk r))) as [i1 old1].
    destruct (fl_put (p_grow P) (m_idx mf) sl (matchf df (rk r))) as [i2 old2].
    destruct (Hput _ _ _ _ (mem_rel_idx _ _ _ Hm) (uniq_of_nodup df _ (rk r) _ Hnd) eq_refl eq_refl) as [<- Hi].
    cbv beta iota.
    apply set_msegs_upd_g. apply set_idx_rel; [|exact Hi].
    destruct old1; [apply track_del_rel|]; exact Hm.
Qed.

(* the records of one segment: the loop invariant of DBProofsRecovery ([rc_IdxInv]: the partial flat
   index has valid slots with distinct keys and agrees with the replayed prefix [l] of the log of
   [d4]) holds before every record, and gives the uniqueness that [put_rel] / [del_rel] need *)
Lemma replay_fold_sim P (d4 : diskf) (dp : diskp) (df : diskf) seed id (es : list (N * rec)) :
  disk_rel dp df -> rc_rsim d4 df ->
  (forall e, In e es -> rc_entry_ok d4 (id, fst e, snd e)) ->
  forall l (mp : memp) (mf : memf),
  mem_rel mp mf -> rc_IdxInv P d4 seed l (m_idx mf) -> m_seed mf = seed ->
  mem_rel (fold_left (fun m e => replay_rec chain_ops P dp id (fst e) (snd e) m) es mp)
          (fold_left (fun m e => replay_rec flat_ops P df id (fst e) (snd e) m) es mf).
Proof.
  intros Hd Hsim. induction es as [|e es IH]; intros Hok l mp mf Hm HI Hseed; cbn [fold_left]; [exact Hm|].
  assert (Hnd : NoDup (map (slot_key df) (m_idx mf))).
  { destruct HI as (_ & Hnd & _). erewrite map_ext; [exact Hnd|].
    intros sl. apply rc_rsim_slot_key. exact Hsim. }
  destruct (rc_replay_rec_frame P df id (fst e) (snd e) mf) as (A1 & _ & _ & _ & _ & A6). cbv zeta in A1, A6.
  apply (IH (fun x Hx => Hok x (or_intror Hx)) (l ++ [(id, fst e, snd e)])).
  - apply replay_rec_sim; assumption.
  - rewrite A1, Hseed. apply rc_IdxInv_step; [exact HI|exact Hsim|]. apply Hok. left. reflexivity.
  - rewrite A6. exact Hseed.
Qed.

(* the invariant of the recovery loop on the flat side ([d4]: the disk when the loop starts) *)
Definition LInv (P : params) (d4 : diskf) (seed : N) (s : stf) (m : memf) (lpre : list entry) : Prop :=
  rc_rsim d4 (s_disk s) /\ Forall rc_seg_pre (d_segs (s_disk s)) /\ rc_magree (m_segs m) (s_disk s) /\
  rc_IdxInv P d4 seed lpre (m_idx m) /\ m_seed m = seed.

Lemma LInv_step P (d4 : diskf) seed f0 (s : stf) (m : memf) lpre :
  DiskOK d4 -> In f0 (d_segs d4) -> LInv P d4 seed s m lpre ->
  LInv P d4 seed (fst (recover_segment flat_ops P (f_id f0) (f_seq f0) s m))
                 (snd (recover_segment flat_ops P (f_id f0) (f_seq f0) s m)) (lpre ++ dseg_entries f0).
Proof.
  intros Hok Hf0 (Hsim & Hpre & Hag & HI & Hseed).
  destruct (rc_recover_loop P d4 seed [f0] Hok
              (fun x Hx => match Hx with or_introl E => eq_ind f0 (fun y => In y (d_segs d4)) Hf0 x E
                                       | or_intror F => match F with end end)
              s m lpre Hsim Hpre Hag HI Hseed)
    as (s' & m' & E' & R1 & R2 & _ & _ & R5 & R6 & R7 & _).
  cbn [map fold_left] in E'. unfold rc_rstep in E'. cbn [fst snd] in E'. rewrite E'. cbn [fst snd].
  split; [exact R1|]. split; [|split; [exact R5|split; [|exact R7]]].
  - rewrite R2. apply Forall_forall. intros y Hy. apply in_map_iff in Hy. destruct Hy as (x & <- & Hx).
    pose proof (proj1 (Forall_forall _ _) Hpre x Hx) as [Hxh Hxt].
    unfold rc_cleans. cbn [map fold_left fst snd].
    destruct (rc_cstep_fields (f_id f0) (f_seq f0) x) as (_ & _ & _ & _ & B5 & B6 & _).
    split; [apply B5; exact Hxh|]. destruct B6 as [-> | ->]; [apply rc_tail_stuck_nil|exact Hxt].
  - cbn [map concat] in R6. rewrite app_nil_r in R6. exact R6.
Qed.

(* one segment *)
Lemma recover_segment_sim P (d4 : diskf) seed f0 (sp : stp) (sf : stf) (mp : memp) (mf : memf) lpre :
  DiskOK d4 -> In f0 (d_segs d4) -> st_rel sp sf -> mem_rel mp mf -> LInv P d4 seed sf mf lpre ->
  sm_rel idx_rel (recover_segment chain_ops P (f_id f0) (f_seq f0) sp mp)
                 (recover_segment flat_ops P (f_id f0) (f_seq f0) sf mf).
Proof.
  intros Hok Hf0 Hs Hm HL.
  pose proof (LInv_step P d4 seed f0 sf mf lpre Hok Hf0 HL) as (Hs1 & _).
  destruct HL as (Hsim & Hpre & Hag & HI & Hseed). pose proof Hok as (Hdok & Hnd4 & Hnq4).
  destruct (rc_rsim_find d4 (s_disk sf) (f_id f0) f0 Hsim (find_dseg_unique d4 f0 Hnd4 Hf0)) as (f & Hf & Ec).
  assert (Efr : f_recs f = f_recs f0) by (unfold rc_rcore in Ec; congruence).
  pose proof (find_dseg_In _ _ _ Hf) as [HfIn _].
  pose proof (proj1 (Forall_forall _ _) Hpre f HfIn) as [Hh Hst].
  destruct (rc_tail_stuck_parse _ Hst) as (why & Ep & _).
  unfold recover_segment in Hs1 |- *.
  rewrite (find_dseg_rel _ _ _ (f_id f0) (st_rel_disk _ _ _ Hs)). rewrite Hf, Ep in Hs1 |- *.
  cbv zeta in Hs1 |- *. cbn [fst] in Hs1.
  pose proof (reframe_g idx_rel (f_id f0) (f_seq f0) [] 0 sp sf Hs) as Hs0.
  assert (Hst1 : st_rel
     (match why with
      | SEnd => reframe (f_id f0) (f_seq f0) [] 0 sp
      | _ => emit chain_ops (ETrunc (FSeg (f_id f0) (f_seq f0)) (header_size + recs_len (f_recs f) + 0))
               (reframe (f_id f0) (f_seq f0) [] 0 sp)
      end)
     (match why with
      | SEnd => reframe (f_id f0) (f_seq f0) [] 0 sf
      | _ => emit flat_ops (ETrunc (FSeg (f_id f0) (f_seq f0)) (header_size + recs_len (f_recs f) + 0))
               (reframe (f_id f0) (f_seq f0) [] 0 sf)
      end)).
  { destruct why; try exact Hs0; (apply emit_rel; [exact idx_rel_empty|exact Hs0|constructor]). }
  split; cbn [fst snd]; [exact Hst1|].
  rewrite app_nil_r, Efr. rewrite Efr in Hst1, Hs1. fold (seg_entries f0).
  apply (replay_fold_sim P d4 _ _ seed (f_id f0) (seg_entries f0)) with (l := lpre).
  - exact (st_rel_disk _ _ _ Hst1).
  - exact Hs1.
  - exact (rc_entries_ok d4 f0 Hok Hf0).
  - destruct why; try exact Hm; (apply set_msegs_upd_g; exact Hm).
  - destruct why; exact HI.
  - destruct why; exact Hseed.
Qed.

(* the loop over the segments, oldest first *)
Lemma recover_loop_sim P (d4 : diskf) seed (order : list mseg) :
  DiskOK d4 ->
  (forall g, In g order -> exists f0, In f0 (d_segs d4) /\ f_id f0 = g_id g /\ f_seq f0 = g_seq g) ->
  forall (sp : stp) (sf : stf) (mp : memp) (mf : memf) lpre,
  st_rel sp sf -> mem_rel mp mf -> LInv P d4 seed sf mf lpre ->
  sm_rel idx_rel
    (fold_left (fun sm g => recover_segment chain_ops P (g_id g) (g_seq g) (fst sm) (snd sm)) order (sp, mp))
    (fold_left (fun sm g => recover_segment flat_ops P (g_id g) (g_seq g) (fst sm) (snd sm)) order (sf, mf)).
Proof.
  intros Hok. induction order as [|g order IH]; intros Hord sp sf mp mf lpre Hs Hm HL; cbn [fold_left fst snd].
  - split; assumption.
  - destruct (Hord g (or_introl eq_refl)) as (f0 & Hf0 & <- & <-).
    pose proof (recover_segment_sim P d4 seed f0 sp sf mp mf lpre Hok Hf0 Hs Hm HL) as Hstep.
    pose proof (LInv_step P d4 seed f0 sf mf lpre Hok Hf0 HL) as HL'.
    destruct (recover_segment chain_ops P (f_id f0) (f_seq f0) sp mp) as [sp' mp'].
    destruct (recover_segment flat_ops P (f_id f0) (f_seq f0) sf mf) as [sf' mf'].
    destruct Hstep as [A B]. cbn [fst snd] in A, B, HL'.
    apply (IH (fun x Hx => Hord x (or_intror Hx)) sp' sf' mp' mf' (lpre ++ dseg_entries f0)); assumption.
Qed.

(* recover(): under the facts that hold when Open calls it *)
Lemma recover_sim P (sp : stp) (sf : stf) (mp : memp) (mf : memf) :
  st_rel sp sf -> mem_rel mp mf ->
  DiskOK (s_disk sf) -> Forall rc_seg_pre (d_segs (s_disk sf)) -> rc_magree (m_segs mf) (s_disk sf) ->
  m_idx mf = [] ->
  sm_rel idx_rel (recover chain_ops P sp mp) (recover flat_ops P sf mf).
Proof.
  intros Hs Hm Hok Hpre Hag Hidx. unfold recover. rewrite (mem_rel_segs _ _ _ Hm). cbv zeta.
  assert (HL : LInv P (s_disk sf) (m_seed mf) sf mf []).
  { split; [apply rc_rsim_refl|]. split; [exact Hpre|]. split; [exact Hag|].
    split; [rewrite Hidx; apply rc_IdxInv_nil|reflexivity]. }
  assert (Hord : forall g, In g (by_seq (m_segs mf)) ->
            exists f0, In f0 (d_segs (s_disk sf)) /\ f_id f0 = g_id g /\ f_seq f0 = g_seq g).
  { intros g Hg. apply (proj1 (rc_by_seq_In _ _)) in Hg. destruct (proj1 Hag g Hg) as (f0 & A & B & C & _).
    exists f0. auto. }
  pose proof (recover_loop_sim P (s_disk sf) (m_seed mf) (by_seq (m_segs mf)) Hok Hord sp sf mp mf [] Hs Hm HL) as Hf.
  destruct (fold_left (fun sm g => recover_segment chain_ops P (g_id g) (g_seq g) (fst sm) (snd sm))
                      (by_seq (m_segs mf)) (sp, mp)) as [sa ma].
  destruct (fold_left (fun sm g => recover_segment flat_ops P (g_id g) (g_seq g) (fst sm) (snd sm))
                      (by_seq (m_segs mf)) (sf, mf)) as [sb mb].
  destruct Hf as [A B]. cbn [fst snd] in A, B.
  pose proof (swap_segment_rel idx_rel chain_ops flat_ops idx_rel_empty sa sb _ _ A
                (seal_all_but_last_g idx_rel (by_seq (m_segs mf)) ma mb B)) as Hsw.
  destruct (swap_segment chain_ops sa (seal_all_but_last (by_seq (m_segs mf)) ma)) as [sa' ma'].
  destruct (swap_segment flat_ops sb (seal_all_but_last (by_seq (m_segs mf)) mb)) as [sb' mb'].
  destruct Hsw as [C D]. cbn [fst snd] in C, D.
  split; cbn [fst snd]; [|exact D].
  apply (remove_bac_g chain_ops flat_ops idx_rel idx_rel_empty).
  apply emit_rel; [exact idx_rel_empty|exact C|]. constructor. exact (mem_rel_idx _ _ _ D).
Qed.

(* the flat side of the recovering Open up to the call of recover(): what DBProofsRecovery.open_recover_gen
   establishes on the way (its proof, first half) *)
Lemma flat_open_pre_facts seed (s0 : stf) :
  DiskOK (s_disk s0) -> bac_ok (s_disk s0) ->
  exists s4 m1, open_pre flat_ops seed (backup_nonseg flat_ops s0) = Some (s4, m1, []) /\
    DiskOK (s_disk s4) /\ Forall rc_seg_pre (d_segs (s_disk s4)) /\ rc_magree (m_segs m1) (s_disk s4) /\
    m_idx m1 = [].
Proof.
  intros Hok Hbac. set (d := s_disk s0) in *.
  destruct (rc_backup_spec s0 Hok Hbac) as (A1 & A2 & A3 & A4 & A5 & A6). cbv zeta in A1, A2, A3, A4, A5, A6.
  set (s1 := backup_nonseg flat_ops s0) in *.
  destruct (rc_open_index_fresh s1 A4) as (s2 & E2 & B1 & B2 & B3 & B4 & B5 & B6).
  unfold open_pre. rewrite E2.
  assert (Hsl2 : same_log d (s_disk s2)).
  { eapply same_log_trans; [exact A1|]. apply same_log_segs. exact B1. }
  assert (Hok2 : DiskOK (s_disk s2)) by (eapply same_log_DiskOK; eassumption).
  assert (Hmeta2 : forall f, In f (d_segs (s_disk s2)) -> f_meta f = GAbsent) by (rewrite B1; exact A5).
  destruct (rc_open_segments_recovery s2 Hok2 Hmeta2) as (s3 & segs & E3 & C1 & C2 & C3 & C4 & C5 & C6 & C7 & C8).
  rewrite E3.
  set (maxseq := fold_left (fun n g => N.max n (g_seq g)) segs 0).
  set (m0 := {| m_segs := segs; m_cur := (0, 0); m_cur_removed := true; m_maxseq := maxseq;
                m_idx := (@nil slot : flat); m_seed := seed |}).
  cbv zeta.
  destruct (rc_swap_spec s3 m0 C3 C4) as (s4 & m1 & E4 & Hcase). fold m0. rewrite E4.
  exists s4, m1. split; [reflexivity|].
  assert (Hmaxseq : forall g, In g segs -> g_seq g <= maxseq) by (apply (rc_fold_max_ge segs 0)).
  destruct Hcase as [(g & Hg & Hnf & -> & ->)|(Hfull & Em1 & Ed4 & Erest4 & Emem4 & Hfresh)].
  - cbn [set_cur m_segs m_idx m0]. split; [exact C1|]. split; [exact C2|]. split; [exact C3|reflexivity].
  - cbv zeta in Em1, Ed4, Hfresh. cbn [m0 m_segs m_maxseq] in Em1, Ed4, Hfresh.
    destruct (rc_create_spec (s_disk s3) (s_disk s4) segs maxseq (lowest_free 0 segs) (maxseq + 1)
                C1 C3 C4 Hmaxseq eq_refl Hfresh Ed4) as (K1 & K2 & K3 & K4 & K5).
    rewrite Em1. cbn [set_cur set_maxseq set_msegs m_segs m_idx m0].
    split; [exact K1|]. split.
    { rewrite Ed4. apply Forall_app. split; [exact C2|]. constructor; [|constructor].
      split; [reflexivity|apply rc_tail_stuck_nil]. }
    split; [exact K2|reflexivity].
Qed.

(* Open on a directory whose lock file is still there: recovery *)
Theorem sim_open_recover_so P seed (sp : stp) (sf : stf) :
  st_rel sp sf -> DiskOK (s_disk sf) -> bac_ok (s_disk sf) -> d_lock (s_disk sf) = true ->
  so_rel idx_rel (db_open chain_ops P seed sp) (db_open flat_ops P seed sf).
Proof.
  intros Hs Hok Hbac Hlock. rewrite !db_open_mid.
  destruct (st_rel_mem_cases _ _ _ Hs) as [[E1 E2]|(m1 & m2 & E1 & E2 & Hm)]; rewrite E1, E2;
    [|split; [reflexivity|exact Hs]].
  cbv beta iota zeta. rewrite (d_lock_g idx_rel _ _ (st_rel_disk _ _ _ Hs)), Hlock. cbv beta iota.
  rewrite !open_mid_pre_post.
  pose proof (backup_nonseg_g chain_ops flat_ops idx_rel idx_rel_empty sp sf Hs) as H1.
  pose proof (open_pre_g chain_ops flat_ops idx_rel idx_rel_empty seed _ _ H1) as Hpre.
  destruct (flat_open_pre_facts seed sf Hok Hbac) as (s4 & mf1 & Ef & F1 & F2 & F3 & F4).
  rewrite Ef in Hpre |- *.
  destruct (open_pre chain_ops seed (backup_nonseg chain_ops sp)) as [[[sa ma] ia]|];
    unfold pre_rel in Hpre; [|contradiction].
  destruct Hpre as (Hsa & Hma & Hia). unfold open_post.
  rewrite (count_rel _ _ Hia). change (ix_count flat_ops [] =? 0) with true. cbv beta iota.
  pose proof (recover_sim P sa s4 _ _ Hsa (reseed_g idx_rel ma mf1 seed Hma) F1 F2 F3 F4) as Hr.
  destruct (recover chain_ops P sa _) as [s5p m3p]. destruct (recover flat_ops P s4 _) as [s5f m3f].
  destruct Hr as [A B]. cbn [fst snd] in A, B.
  split; [reflexivity|]. cbn [fst]. apply with_mem_rel; assumption.
Qed.

Theorem sim_open_recover P seed (sp : stp) (sf : stf) :
  st_rel sp sf -> DiskOK (s_disk sf) -> bac_ok (s_disk sf) -> d_lock (s_disk sf) = true ->
  let '(sp', op) := db_open chain_ops P seed sp in
  let '(sf', of) := db_open flat_ops P seed sf in
  op = of /\ st_rel sp' sf'.
Proof. intros. apply so_rel_let. apply sim_open_recover_so; assumption. Qed.

(* both paths in one statement: the hypotheses of [open_recover_ok] are needed only when the lock is there *)
Theorem sim_open_so P seed (sp : stp) (sf : stf) :
  st_rel sp sf ->
  (s_mem sf = None -> d_lock (s_disk sf) = true -> DiskOK (s_disk sf) /\ bac_ok (s_disk sf)) ->
  so_rel idx_rel (db_open chain_ops P seed sp) (db_open flat_ops P seed sf).
Proof.
  intros Hs H. destruct (s_mem sf) as [m|] eqn:Em.
  - apply (open_locked_g chain_ops flat_ops idx_rel); [exact Hs|congruence].
  - destruct (d_lock (s_disk sf)) eqn:El.
    + destruct (H eq_refl eq_refl) as [A B]. apply sim_open_recover_so; assumption.
    + apply sim_open_clean_so; assumption.
Qed.

Theorem sim_open P seed (sp : stp) (sf : stf) :
  st_rel sp sf ->
  (s_mem sf = None -> d_lock (s_disk sf) = true -> DiskOK (s_disk sf) /\ bac_ok (s_disk sf)) ->
  let '(sp', op) := db_open chain_ops P seed sp in
  let '(sf', of) := db_open flat_ops P seed sf in
  op = of /\ st_rel sp' sf'.
Proof. intros. apply so_rel_let. apply sim_open_so; assumption. Qed.

(* ================================================================================================ *)
(** * 4. Runs over sessions: Open / Close / Crash between the operations *)

(* ---- the clean Open does not look at the trace (the flat theorems about reopening are stated for
        [clear_trace]; the run language keeps the trace) ---- *)
Section MD.
Context {I : Type}.
Variable ops : idx_ops I.

Definition same_md (s s' : @DB.st I) : Prop := s_mem s = s_mem s' /\ s_disk s = s_disk s'.

Lemma same_md_refl s : same_md s s. Proof. split; reflexivity. Qed.

Lemma emit_md e s s' : same_md s s' -> same_md (emit ops e s) (emit ops e s').
Proof. intros [A B]. unfold emit, same_md. cbn [s_mem s_disk]. rewrite A, B. split; reflexivity. Qed.

Lemma emits_md es : forall s s', same_md s s' -> same_md (emits ops es s) (emits ops es s').
Proof.
  unfold emits. induction es as [|e es IH]; intros s s' H; cbn [fold_left]; [exact H|].
  apply IH. apply emit_md. exact H.
Qed.

Definition oi_md (a b : option (@DB.st I * I)) : Prop :=
  match a, b with
  | None, None => True
  | Some (s, i), Some (s', i') => same_md s s' /\ i = i'
  | _, _ => False
  end.

Lemma oi_tail_md s s' : same_md s s' ->
  oi_md (match d_index (s_disk s), d_imeta (s_disk s) with Some i, GOk j => Some (s, i) | _, _ => None end)
        (match d_index (s_disk s'), d_imeta (s_disk s') with Some i, GOk j => Some (s', i) | _, _ => None end).
Proof.
  intros H. pose proof H as [_ B]. rewrite B. destruct (d_index (s_disk s')) as [i|]; [|exact Logic.I].
  destruct (d_imeta (s_disk s')) as [| |j]; try exact Logic.I. split; [exact H|reflexivity].
Qed.

Lemma open_index_md s s' : same_md s s' -> oi_md (open_index ops s) (open_index ops s').
Proof.
  intros H. pose proof H as [_ B]. unfold open_index. rewrite B.
  destruct (d_index (s_disk s')) as [i0|]; cbv beta iota zeta.
  - rewrite B. destruct (d_overflow (s_disk s')).
    + apply oi_tail_md. exact H.
    + apply oi_tail_md. apply emits_md. exact H.
  - pose proof (emits_md [ECreate FMain; EHeader FMain] s s' H) as H1. pose proof H1 as [_ B1].
    rewrite B1. destruct (d_overflow (s_disk (emits ops [ECreate FMain; EHeader FMain] s'))).
    + split; [|reflexivity]. apply emits_md. exact H1.
    + split; [|reflexivity]. apply emits_md. apply emits_md. exact H1.
Qed.

Lemma open_segments_fold_md (L : list dseg) : forall (a b : @DB.st I * list mseg),
  same_md (fst a) (fst b) -> snd a = snd b ->
  let F := fun (acc : @DB.st I * list mseg) (f : dseg) =>
      let '(s, l) := acc in
      let s1 := if f_hdr f then s else emit ops (EHeader (FSeg (f_id f) (f_seq f))) s in
      let size := match find_dseg (f_id f) (s_disk s1) with Some f' => flen f' | None => 0 end in
      let meta := match f_meta f with GOk m => m | _ => smeta0 end in
      (s1, insert_mseg {| g_id := f_id f; g_seq := f_seq f; g_size := size; g_meta := meta |} l) in
  same_md (fst (fold_left F L a)) (fst (fold_left F L b)) /\ snd (fold_left F L a) = snd (fold_left F L b).
Proof.
  induction L as [|f L IH]; intros [sa la] [sb lb] A B; cbn [fold_left]; [split; assumption|].
  cbn [fst snd] in A, B. subst lb. apply IH; cbv beta iota zeta; cbn [fst snd].
  - destruct (f_hdr f); [exact A|apply emit_md; exact A].
  - assert (H1 : same_md (if f_hdr f then sa else emit ops (EHeader (FSeg (f_id f) (f_seq f))) sa)
                         (if f_hdr f then sb else emit ops (EHeader (FSeg (f_id f) (f_seq f))) sb))
      by (destruct (f_hdr f); [exact A|apply emit_md; exact A]).
    destruct H1 as [_ ->]. reflexivity.
Qed.

Lemma open_segments_md s s' : same_md s s' ->
  same_md (fst (open_segments ops s)) (fst (open_segments ops s')) /\
  snd (open_segments ops s) = snd (open_segments ops s').
Proof.
  intros H. pose proof H as [_ B]. unfold open_segments. rewrite B.
  apply (open_segments_fold_md (sort_segs (d_segs (s_disk s'))) (s, []) (s', [])); [exact H|reflexivity].
Qed.

Lemma swap_segment_md s s' m : same_md s s' ->
  same_md (fst (swap_segment ops s m)) (fst (swap_segment ops s' m)) /\
  snd (swap_segment ops s m) = snd (swap_segment ops s' m).
Proof.
  intros H. unfold swap_segment. destruct (find (fun g => negb (sm_full (g_meta g))) (m_segs m)).
  - split; [exact H|reflexivity].
  - cbv zeta. cbn [fst snd]. split; [apply emits_md; exact H|reflexivity].
Qed.

Definition pre_md (a b : option (@DB.st I * @DB.mem I * I)) : Prop :=
  match a, b with
  | None, None => True
  | Some (s, m, i), Some (s', m', i') => same_md s s' /\ m = m' /\ i = i'
  | _, _ => False
  end.

Lemma open_pre_md seed s s' : same_md s s' -> pre_md (open_pre ops seed s) (open_pre ops seed s').
Proof.
  intros H. unfold open_pre. pose proof (open_index_md s s' H) as Hoi.
  destruct (open_index ops s) as [[sa ia]|]; destruct (open_index ops s') as [[sb ib]|];
    unfold oi_md in Hoi; try contradiction; [|exact Logic.I].
  destruct Hoi as [Ha <-]. pose proof (open_segments_md sa sb Ha) as [Hc Es].
  destruct (open_segments ops sa) as [sc segs]. destruct (open_segments ops sb) as [sd segs'].
  cbn [fst snd] in Hc, Es. subst segs'. cbv zeta.
  match goal with |- context [swap_segment ops sc ?m] => pose proof (swap_segment_md sc sd m Hc) as [He Em] end.
  destruct (swap_segment ops sc _) as [se ma]. destruct (swap_segment ops sd _) as [sf mb].
  cbn [fst snd] in He, Em. subst mb. split; [exact He|split; reflexivity].
Qed.

Lemma db_open_clean_md P seed s s' : same_md s s' -> d_lock (s_disk s) = false ->
  snd (db_open ops P seed s) = snd (db_open ops P seed s') /\
  same_md (fst (db_open ops P seed s)) (fst (db_open ops P seed s')).
Proof.
  intros H Hl. pose proof H as [A B]. rewrite !db_open_mid. rewrite <- A, <- B, Hl.
  destruct (s_mem s); [split; [reflexivity|exact H]|]. cbv beta iota zeta.
  rewrite !open_mid_pre_post.
  pose proof (emit_md (ECreate FLock) s s' H) as H0.
  pose proof (open_pre_md seed _ _ H0) as Hp.
  destruct (open_pre ops seed (emit ops (ECreate FLock) s)) as [[[sa ma] ia]|];
    destruct (open_pre ops seed (emit ops (ECreate FLock) s')) as [[[sb mb] ib]|];
    unfold pre_md in Hp; try contradiction; unfold open_post; [|split; [reflexivity|exact H0]].
  destruct Hp as (Ha & <- & <-). pose proof Ha as [_ Bd]. rewrite Bd.
  destruct (ix_count ops ia =? 0).
  - split; [reflexivity|]. cbn [fst]. destruct Ha as [_ Ha]. split; [reflexivity|exact Ha].
  - destruct (d_dbmeta (s_disk sb)) as [| |sd0]; [split; [reflexivity|exact Ha]|split; [reflexivity|exact Ha]|].
    split; [reflexivity|]. cbn [fst]. destruct Ha as [_ Ha]. split; [reflexivity|exact Ha].
Qed.

(* every operation on a closed database: ErrClosed, nothing changes *)
Lemma step'_closed P (s : @DB.st I) b : s_mem s = None -> step' ops P s b = (s, OErr EClosed).
Proof.
  intros E. destruct b as [[k v|k|k|k buf|k| | |]|]; cbn [step' step].
  - unfold db_put. rewrite E. reflexivity.
  - unfold db_delete. rewrite E. reflexivity.
  - unfold db_get. rewrite E. reflexivity.
  - unfold db_get_append, db_get. rewrite E. reflexivity.
  - unfold db_has. rewrite E. reflexivity.
  - unfold db_count. rewrite E. reflexivity.
  - unfold db_items. rewrite E. reflexivity.
  - unfold db_sync. rewrite E. reflexivity.
  - unfold db_compact, compact_pick. rewrite E. reflexivity.
Qed.

Lemma close_closed (s : @DB.st I) : s_mem s = None -> db_close ops s = (s, OErr EClosed).
Proof. intros E. unfold db_close. rewrite E. reflexivity. Qed.

Lemma open_opened P seed (s : @DB.st I) m : s_mem s = Some m -> db_open ops P seed s = (s, OErr ELocked).
Proof. intros E. unfold db_open. rewrite E. reflexivity. Qed.

Lemma forget_closed (s : @DB.st I) : s_mem s = None ->
  {| s_mem := None; s_disk := s_disk s; s_trace := s_trace s |} = s.
Proof. destruct s as [m d t]. cbn [s_mem s_disk s_trace]. intros ->. reflexivity. Qed.

End MD.

(* ---- the states the flat run goes through ---- *)
Inductive J (P : params) (s : stf) : Prop :=
| J_open : Inv P s -> MetaOK s -> s_mem s <> None -> bac_ok (s_disk s) -> J P s
| J_closed s0 m0 :                 (* closed by Close: the disk is the one Close left *)
    Inv P s0 -> MetaOK s0 -> s_mem s0 = Some m0 -> bac_ok (s_disk s0) ->
    s_mem s = None -> s_disk s = s_disk (fst (db_close flat_ops s0)) -> J P s
| J_crashed :                      (* the process died while the database was open *)
    s_mem s = None -> DiskOK (s_disk s) -> bac_ok (s_disk s) -> d_lock (s_disk s) = true -> J P s
| J_fresh : s_mem s = None -> s_disk s = disk0 -> J P s.      (* empty directory *)

(* the specification of sessions: a plain map and the state of the handle *)
Inductive mode := MOpen | MClosed | MCrashed.

Definition mode_of (s : stf) : mode :=
  match s_mem s with
  | Some _ => MOpen
  | None => if d_lock (s_disk s) then MCrashed else MClosed
  end.

Definition lstep_spec (st : smap * mode) (o : lop) : (smap * mode) * out :=
  match o, snd st with
  | LBase b, MOpen => ((fst (step_spec' (fst st) b), MOpen), snd (step_spec' (fst st) b))
  | LBase _, _ => (st, OErr EClosed)
  | LClose, MOpen => ((fst st, MClosed), OOk)
  | LClose, _ => (st, OErr EClosed)
  | LOpen _, MOpen => (st, OErr ELocked)
  | LOpen _, MClosed => ((fst st, MOpen), OOpened false)
  | LOpen _, MCrashed => ((fst st, MOpen), OOpened true)      (* nothing is lost, nothing comes back *)
  | LCrash, MOpen => ((fst st, MCrashed), OOk)
  | LCrash, _ => (st, OOk)
  end.

Fixpoint lrun_spec (st : smap * mode) (l : list lop) : list out :=
  match l with
  | [] => []
  | o :: l' => snd (lstep_spec st o) :: lrun_spec (fst (lstep_spec st o)) l'
  end.
Definition lfinal_spec (st : smap * mode) (l : list lop) : smap * mode :=
  fold_left (fun st o => fst (lstep_spec st o)) l st.

(* the side condition of one step, on the FLAT state: as DBRun.rooms' when the database is open,
   nothing when it is closed, nothing for Open / Close / Crash *)
Definition lside (P : params) (sf : stf) (o : lop) : Prop :=
  match o with
  | LBase b => forall m, s_mem sf = Some m -> room m /\ (b = OpCompact -> compact_room P sf) /\ op_valid' b
  | _ => True
  end.

Inductive lsides (P : params) : stf -> list lop -> Prop :=
| lsides_nil s : lsides P s []
| lsides_cons s o l : lside P s o -> lsides P (fst (lstep flat_ops P s o)) l -> lsides P s (o :: l).

(* what one step gives *)
Definition StepOK (P : params) (sp : stp) (sf : stf) (ms : smap) (o : lop) : Prop :=
  st_rel (fst (lstep chain_ops P sp o)) (fst (lstep flat_ops P sf o)) /\
  J P (fst (lstep flat_ops P sf o)) /\
  out_equiv (snd (lstep chain_ops P sp o)) (snd (lstep flat_ops P sf o)) /\
  out_equiv' (snd (lstep chain_ops P sp o)) (snd (lstep_spec (ms, mode_of sf) o)) /\
  meq (abs (s_disk (fst (lstep flat_ops P sf o)))) (fst (fst (lstep_spec (ms, mode_of sf) o))) /\
  NoDup (map fst (fst (fst (lstep_spec (ms, mode_of sf) o)))) /\
  mode_of (fst (lstep flat_ops P sf o)) = snd (fst (lstep_spec (ms, mode_of sf) o)) /\
  lop_ok chain_ops P sp o.

Lemma J_DiskOK P (s : stf) : J P s -> DiskOK (s_disk s).
Proof.
  intros [HI _ Hm _|s0 m0 HI0 _ Em0 _ _ Ed|_ H _ _|_ Ed].
  - destruct (s_mem s) as [m|] eqn:Em; [|congruence]. apply (Inv_open P s m Em HI).
  - rewrite Ed. pose proof (close_ok P s0 m0 HI0 Em0) as H. destruct (db_close flat_ops s0) as [s1 o].
    cbn [fst]. apply H.
  - exact H.
  - rewrite Ed. split; [constructor|split; constructor].
Qed.

Lemma ff_ok_chain_of_J P (sp : stp) (sf : stf) : st_rel sp sf -> J P sf -> ff_ok (s_disk sp).
Proof.
  intros Hs HJ. apply (ff_ok_rel idx_rel _ _ (st_rel_disk _ _ _ Hs)). apply ff_ok_of_DiskOK.
  exact (J_DiskOK P sf HJ).
Qed.

Lemma mode_of_closed (s : stf) : s_mem s = None ->
  mode_of s = if d_lock (s_disk s) then MCrashed else MClosed.
Proof. intros E. unfold mode_of. rewrite E. reflexivity. Qed.

Lemma mode_closed_cases (s : stf) : s_mem s = None -> mode_of s = MClosed \/ mode_of s = MCrashed.
Proof. intros E. rewrite (mode_of_closed s E). destruct (d_lock (s_disk s)); auto. Qed.

(* ---- base operations ---- *)
Lemma flat_base_keeps P (sf : stf) b :
  params_ok P -> Inv P sf -> MetaOK sf -> (exists m, s_mem sf = Some m /\ room m) ->
  (b = OpCompact -> compact_room P sf) -> op_valid' b ->
  s_mem (fst (step_flat' P sf b)) <> None /\
  d_bac (s_disk (fst (step_flat' P sf b))) = d_bac (s_disk sf).
Proof.
  intros HP HI HM Hroom Hcr Hv.
  assert (Hopen : s_mem sf <> None) by (destruct Hroom as (m & -> & _); discriminate).
  unfold step_flat'. destruct b as [[k v|k|k|k buf|k| | |]|]; cbn [step' step fst op_valid' op_valid] in *;
    try (split; [exact Hopen|reflexivity]).
  - destruct Hv as (Hbk & Hbv & Hk & Hvl). destruct Hroom as (m & Em & Hr).
    destruct (flat_put_abs P sf k v HP HI (ex_intro _ m (conj Em Hr)) Hbk Hbv Hk Hvl) as (s' & E & _ & Hm' & _).
    pose proof (put_preserves P sf c0 k v HI (ex_intro _ m (conj Em Hr)) Hbk Hbv Hk Hvl (CInv_c0 sf m Em))
      as (_ & _ & _ & Hb).
    rewrite E in Hb |- *. cbn [fst] in Hb |- *. split; assumption.
  - destruct Hroom as (m & Em & Hr).
    destruct (flat_delete_abs P sf k HP HI (ex_intro _ m (conj Em Hr))) as (s' & E & _ & Hm' & _).
    split; [rewrite E; exact Hm'|].
    destruct (Inv_open P sf m Em HI) as (HL & Hidx & _). assert (Hd : DiskOK (s_disk sf)) by apply HL.
    destruct (fl_del (m_idx m) (p_hash P (m_seed m) k) (matchf (s_disk sf) k)) as [i1 [o|]] eqn:Edel.
    + pose proof (del_found_bytes P _ _ _ k i1 o Hd Hidx Edel) as Hbk.
      apply (delete_preserves P sf c0 k HI (ex_intro _ m (conj Em Hr)) Hbk (CInv_c0 sf m Em)).
    + destruct (finish_spec P sf m) as (s1 & Ef & _ & Eds & _).
      unfold db_delete. rewrite Em. cbn [ix_del flat_ops]. rewrite Edel, Ef. cbn [fst]. rewrite Eds. reflexivity.
  - pose proof (sync_ok P sf HI Hopen) as H. destruct (db_sync flat_ops sf) as [s' o]. cbn [fst].
    destruct H as (_ & _ & Ed & Em). rewrite Ed, Em. split; [exact Hopen|reflexivity].
  - pose proof (db_compact_ok P sf HI HM Hopen (Hcr eq_refl)) as H.
    destruct (db_compact flat_ops P sf) as [s' o]. cbn [fst]. destruct H as (_ & _ & A & _ & _ & _ & B).
    split; assumption.
Qed.

Lemma lbase_open P (sp : stp) (sf : stf) ms b :
  params_ok P -> st_rel sp sf -> Inv P sf -> MetaOK sf -> s_mem sf <> None -> bac_ok (s_disk sf) ->
  meq (abs (s_disk sf)) ms -> NoDup (map fst ms) -> lside P sf (LBase b) ->
  StepOK P sp sf ms (LBase b).
Proof.
  intros HP Hs HI HM Hopen Hbac Hq Hnd Hside. cbn [lside] in Hside.
  destruct (s_mem sf) as [m|] eqn:Em; [|congruence]. destruct (Hside m eq_refl) as (Hr & Hcr & Hv).
  assert (Hroom : exists m, s_mem sf = Some m /\ room m) by (exists m; auto).
  assert (Hopen2 : s_mem sf <> None) by (rewrite Em; discriminate).
  destruct (step_refines' P sp sf ms b HP Hs HI HM Hq Hnd Hv Hroom Hcr) as (A & B & C & D & E & F & G).
  destruct (flat_base_keeps P sf b HP HI HM Hroom Hcr Hv) as [K1 K2].
  assert (Emode : mode_of sf = MOpen) by (unfold mode_of; rewrite Em; reflexivity).
  unfold StepOK. rewrite Emode. cbn [lstep lstep_spec fst snd].
  unfold step_chain', step_flat' in *.
  split; [exact A|]. split; [apply J_open; [exact B|exact C|exact K1|unfold bac_ok; rewrite K2; exact Hbac]|].
  split; [exact G|]. split; [exact F|]. split; [exact D|]. split; [exact E|].
  split.
  - unfold mode_of. destruct (s_mem (fst (step' flat_ops P sf b))); [reflexivity|congruence].
  - destruct b as [[k v|k|k|k buf|k| | |]|]; cbn [lop_ok op_xok]; try exact I.
    + exact (proj1 (xok_chain_of_flat P sp sf Hs HI Hroom)).
    + apply (compact_xok_of_flat P sp sf); try assumption. apply Hcr. reflexivity.
Qed.

Lemma lbase_closed P (sp : stp) (sf : stf) ms b :
  st_rel sp sf -> J P sf -> s_mem sf = None -> meq (abs (s_disk sf)) ms -> NoDup (map fst ms) ->
  StepOK P sp sf ms (LBase b).
Proof.
  intros Hs HJ Em Hq Hnd.
  assert (Ep : s_mem sp = None).
  { destruct (st_rel_mem_cases _ _ _ Hs) as [[E1 _]|(m1 & m2 & _ & E2 & _)]; [exact E1|congruence]. }
  unfold StepOK. cbn [lstep]. rewrite (step'_closed chain_ops P sp b Ep), (step'_closed flat_ops P sf b Em).
  cbn [fst snd].
  assert (Esp : lstep_spec (ms, mode_of sf) (LBase b) = ((ms, mode_of sf), OErr EClosed)).
  { unfold lstep_spec. cbn [fst snd]. destruct (mode_closed_cases sf Em) as [-> | ->]; reflexivity. }
  rewrite Esp. cbn [fst snd].
  split; [exact Hs|]. split; [exact HJ|]. split; [reflexivity|]. split; [reflexivity|].
  split; [exact Hq|]. split; [exact Hnd|]. split; [reflexivity|].
  destruct b as [[k v|k|k|k buf|k| | |]|]; cbn [lop_ok op_xok]; try exact I.
  - intros m E. congruence.
  - unfold compact_xok, compact_pick. rewrite Ep. exact I.
Qed.

(* ---- Close ---- *)
Lemma lclose_open P (sp : stp) (sf : stf) ms :
  st_rel sp sf -> Inv P sf -> MetaOK sf -> s_mem sf <> None -> bac_ok (s_disk sf) ->
  meq (abs (s_disk sf)) ms -> NoDup (map fst ms) -> StepOK P sp sf ms LClose.
Proof.
  intros Hs HI HM Hopen Hbac Hq Hnd.
  destruct (s_mem sf) as [m|] eqn:Em; [|congruence].
  assert (Emode : mode_of sf = MOpen) by (unfold mode_of; rewrite Em; reflexivity).
  unfold StepOK. rewrite Emode. cbn [lstep lstep_spec fst snd].
  destruct (sim_close_so sp sf Hs) as [Eo Hs'].
  pose proof (close_ok P sf m HI Em) as Hc.
  assert (HJ' : J P (fst (db_close flat_ops sf))).
  { apply (J_closed P _ sf m HI HM Em Hbac); [|reflexivity].
    destruct (db_close flat_ops sf) as [s1 o]. cbn [fst]. apply Hc. }
  destruct (db_close chain_ops sp) as [sp1 op]. destruct (db_close flat_ops sf) as [sf1 of].
  cbn [fst snd] in *. destruct Hc as (-> & Em1 & _ & Holog & Hl1 & _). subst op.
  split; [exact Hs'|]. split; [exact HJ'|]. split; [reflexivity|]. split; [reflexivity|].
  split; [rewrite (olog_abs _ _ Holog); exact Hq|]. split; [exact Hnd|].
  split; [|exact I]. unfold mode_of. rewrite Em1, Hl1. reflexivity.
Qed.

Lemma lclose_closed P (sp : stp) (sf : stf) ms :
  st_rel sp sf -> J P sf -> s_mem sf = None -> meq (abs (s_disk sf)) ms -> NoDup (map fst ms) ->
  StepOK P sp sf ms LClose.
Proof.
  intros Hs HJ Em Hq Hnd.
  assert (Ep : s_mem sp = None).
  { destruct (st_rel_mem_cases _ _ _ Hs) as [[E1 _]|(m1 & m2 & _ & E2 & _)]; [exact E1|congruence]. }
  unfold StepOK. cbn [lstep]. rewrite (close_closed chain_ops sp Ep), (close_closed flat_ops sf Em).
  assert (Esp : lstep_spec (ms, mode_of sf) LClose = ((ms, mode_of sf), OErr EClosed)).
  { unfold lstep_spec. cbn [fst snd]. destruct (mode_closed_cases sf Em) as [-> | ->]; reflexivity. }
  rewrite Esp. cbn [fst snd lop_ok].
  split; [exact Hs|]. split; [exact HJ|]. split; [reflexivity|]. split; [reflexivity|].
  split; [exact Hq|]. split; [exact Hnd|]. split; [reflexivity|exact I].
Qed.

(* ---- Crash: the handle is lost, the disk stays ---- *)
Lemma lcrash_any P (sp : stp) (sf : stf) ms :
  st_rel sp sf -> J P sf -> meq (abs (s_disk sf)) ms -> NoDup (map fst ms) -> StepOK P sp sf ms LCrash.
Proof.
  intros Hs HJ Hq Hnd. unfold StepOK. cbn [lstep fst snd lop_ok].
  assert (Hs' : st_rel {| s_mem := None; s_disk := s_disk sp; s_trace := s_trace sp |}
                       {| s_mem := None; s_disk := s_disk sf; s_trace := s_trace sf |}).
  { apply st_rel_iff. cbn [s_mem s_disk s_trace].
    split; [constructor|]. split; [exact (st_rel_disk _ _ _ Hs)|exact (st_rel_trace _ _ _ Hs)]. }
  split; [exact Hs'|].
  destruct (s_mem sf) as [m|] eqn:Em.
  - assert (Emode : mode_of sf = MOpen) by (unfold mode_of; rewrite Em; reflexivity).
    rewrite Emode. cbn [lstep_spec fst snd].
    destruct HJ as [HI HM Hopen Hbac|s0 m0 _ _ _ _ Em' _|Em' _ _ _|Em' _]; try congruence.
    destruct (Inv_Good P sf HI Hopen Hbac) as (G1 & G2 & G3).
    split; [apply J_crashed; [reflexivity|exact G1|exact G2|exact G3]|]. split; [reflexivity|]. split; [reflexivity|].
    split; [exact Hq|]. split; [exact Hnd|]. split; [|exact I].
    unfold mode_of. cbn [s_mem s_disk]. rewrite G3. reflexivity.
  - rewrite (forget_closed sf Em).
    assert (Esp : lstep_spec (ms, mode_of sf) LCrash = ((ms, mode_of sf), OOk)).
    { unfold lstep_spec. cbn [fst snd]. destruct (mode_closed_cases sf Em) as [-> | ->]; reflexivity. }
    rewrite Esp. cbn [fst snd].
    split; [exact HJ|]. split; [reflexivity|]. split; [reflexivity|].
    split; [exact Hq|]. split; [exact Hnd|]. split; [reflexivity|exact I].
Qed.

(* ---- Open ---- *)
Lemma lopen_any P (sp : stp) (sf : stf) ms seed :
  params_ok P -> st_rel sp sf -> J P sf -> meq (abs (s_disk sf)) ms -> NoDup (map fst ms) ->
  StepOK P sp sf ms (LOpen seed).
Proof.
  intros HP Hs HJ Hq Hnd. pose proof (ff_ok_chain_of_J P sp sf Hs HJ) as Hff.
  unfold StepOK. cbn [lstep lop_ok].
  destruct HJ as [HI HM Hopen Hbac|s0 m0 HI0 HM0 Em0 Hbac0 Em Ed|Em Hok Hbac Hlock|Em Ed].
  - (* somebody holds it open *)
    destruct (s_mem sf) as [m|] eqn:Em; [|congruence].
    assert (Emode : mode_of sf = MOpen) by (unfold mode_of; rewrite Em; reflexivity).
    destruct (st_rel_mem_cases _ _ _ Hs) as [[_ E2]|(mp & mf & E1 & _ & _)]; [congruence|].
    rewrite (open_opened chain_ops P seed sp mp E1), (open_opened flat_ops P seed sf m Em), Emode.
    cbn [lstep_spec fst snd].
    split; [exact Hs|]. split; [apply J_open; [exact HI|exact HM|congruence|exact Hbac]|].
    split; [reflexivity|]. split; [reflexivity|]. split; [exact Hq|]. split; [exact Hnd|].
    split; [exact Emode|exact Hff].
  - (* closed by Close: the index is read back *)
    pose proof (close_ok P s0 m0 HI0 Em0) as Hc.
    pose proof (close_reopen_ok P seed s0 m0 HP HI0 Em0 HM0) as Hr.
    pose proof (close_reopen_bac P seed s0 m0 HI0 Em0) as Hb.
    destruct (db_close flat_ops s0) as [s1 o1]. cbn [fst] in Ed.
    destruct Hc as (_ & Em1 & _ & Holog & Hl1 & _).
    assert (Hmd : same_md sf (clear_trace s1)).
    { split; [cbn [clear_trace s_mem]; congruence|exact Ed]. }
    assert (Hl : d_lock (s_disk sf) = false) by (rewrite Ed; exact Hl1).
    destruct (db_open_clean_md flat_ops P seed sf (clear_trace s1) Hmd Hl) as [Eo [Hm2 Hd2]].
    destruct (sim_open_clean_so P seed sp sf Hs Hl) as [Eop Hs'].
    assert (Emode : mode_of sf = MClosed) by (rewrite (mode_of_closed sf Em), Hl; reflexivity).
    rewrite Emode. cbn [lstep_spec fst snd].
    destruct (db_open flat_ops P seed (clear_trace s1)) as [s2 o2].
    destruct (db_open flat_ops P seed sf) as [sf' of]. destruct (db_open chain_ops P seed sp) as [sp' op].
    cbn [fst snd] in *. destruct Hr as (-> & HI2 & Ha2 & (m2 & Em2 & _) & HM2). subst of op.
    split; [exact Hs'|].
    split.
    { apply J_open.
      - apply (Inv_same P s2); assumption.
      - apply (MetaOK_same s2); assumption.
      - rewrite Hm2, Em2. discriminate.
      - unfold bac_ok. rewrite Hd2, Hb. exact Hbac0. }
    split; [reflexivity|]. split; [reflexivity|].
    split.
    { intros k. rewrite Hd2, Ha2, <- (Hq k), Ed, (olog_abs _ _ Holog). reflexivity. }
    split; [exact Hnd|]. split; [|exact Hff]. unfold mode_of. rewrite Hm2, Em2. reflexivity.
  - (* crashed: recovery *)
    pose proof (open_recover_gen P seed sf Em Hok Hbac Hlock) as Hr.
    destruct (sim_open_recover_so P seed sp sf Hs Hok Hbac Hlock) as [Eop Hs'].
    assert (Emode : mode_of sf = MCrashed) by (rewrite (mode_of_closed sf Em), Hlock; reflexivity).
    rewrite Emode. cbn [lstep_spec fst snd].
    destruct (db_open flat_ops P seed sf) as [sf' of]. destruct (db_open chain_ops P seed sp) as [sp' op].
    cbn [fst snd] in *. destruct Hr as (-> & HI2 & Hm2 & Ha2 & Hb2 & _ & _ & _ & HM2). subst op.
    split; [exact Hs'|].
    split; [apply J_open; [exact HI2|exact HM2|exact Hm2|unfold bac_ok; rewrite Hb2; constructor]|].
    split; [reflexivity|]. split; [reflexivity|].
    split; [intros k; rewrite Ha2; apply Hq|]. split; [exact Hnd|]. split; [|exact Hff].
    unfold mode_of. destruct (s_mem sf'); [reflexivity|congruence].
  - (* empty directory *)
    assert (Hl : d_lock (s_disk sf) = false) by (rewrite Ed; reflexivity).
    assert (Hmd : same_md sf (@st0 flat)) by (split; [exact Em|exact Ed]).
    destruct (db_open_clean_md flat_ops P seed sf st0 Hmd Hl) as [Eo [Hm2 Hd2]].
    rewrite flat_open_fresh in Eo, Hm2, Hd2.
    destruct (sim_open_clean_so P seed sp sf Hs Hl) as [Eop Hs'].
    assert (Emode : mode_of sf = MClosed) by (rewrite (mode_of_closed sf Em), Hl; reflexivity).
    rewrite Emode. cbn [lstep_spec fst snd].
    destruct (db_open flat_ops P seed sf) as [sf' of]. destruct (db_open chain_ops P seed sp) as [sp' op].
    cbn [fst snd] in *. subst of op.
    split; [exact Hs'|].
    split.
    { apply J_open.
      - apply (Inv_same P (flat_init seed)); [exact Hm2|exact Hd2|apply flat_init_Inv].
      - apply (MetaOK_same (flat_init seed)); [exact Hm2|exact Hd2|apply flat_init_MetaOK].
      - rewrite Hm2. discriminate.
      - unfold bac_ok. rewrite Hd2. constructor. }
    split; [reflexivity|]. split; [reflexivity|].
    split.
    { intros k. rewrite Hd2, <- (Hq k), Ed. reflexivity. }
    split; [exact Hnd|]. split; [|exact Hff]. unfold mode_of. rewrite Hm2. reflexivity.
Qed.

(* ---- one step of the run language ---- *)
Theorem lstep_refines P (sp : stp) (sf : stf) ms o :
  params_ok P -> st_rel sp sf -> J P sf -> meq (abs (s_disk sf)) ms -> NoDup (map fst ms) ->
  lside P sf o -> StepOK P sp sf ms o.
Proof.
  intros HP Hs HJ Hq Hnd Hside. destruct o as [b| |seed|].
  - pose proof HJ as HJ0.
    destruct HJ as [HI HM Hopen Hbac|s0 m0 _ _ _ _ Em' _|Em' _ _ _|Em' _];
      [apply lbase_open; assumption|apply lbase_closed; assumption..].
  - pose proof HJ as HJ0.
    destruct HJ as [HI HM Hopen Hbac|s0 m0 _ _ _ _ Em' _|Em' _ _ _|Em' _];
      [apply lclose_open; assumption|apply lclose_closed; assumption..].
  - apply lopen_any; assumption.
  - apply lcrash_any; assumption.
Qed.

(* ---- runs ---- *)
Theorem lrun_refines P (l : list lop) : params_ok P -> forall (sp : stp) (sf : stf) (ms : smap),
  st_rel sp sf -> J P sf -> meq (abs (s_disk sf)) ms -> NoDup (map fst ms) -> lsides P sf l ->
  Forall2 out_equiv (lrun chain_ops P sp l) (lrun flat_ops P sf l) /\
  Forall2 out_equiv' (lrun chain_ops P sp l) (lrun_spec (ms, mode_of sf) l) /\
  st_rel (lfinal chain_ops P sp l) (lfinal flat_ops P sf l) /\
  J P (lfinal flat_ops P sf l) /\
  meq (abs (s_disk (lfinal flat_ops P sf l))) (fst (lfinal_spec (ms, mode_of sf) l)) /\
  mode_of (lfinal flat_ops P sf l) = snd (lfinal_spec (ms, mode_of sf) l) /\
  loks chain_ops P sp l.
Proof.
  intros HP. unfold lfinal, lfinal_spec.
  induction l as [|o l IH]; intros sp sf ms Hs HJ Hq Hnd Hl.
  - cbn [lrun lrun_spec fold_left fst snd].
    split; [constructor|]. split; [constructor|]. split; [exact Hs|]. split; [exact HJ|].
    split; [exact Hq|]. split; [reflexivity|constructor].
  - inversion Hl as [|? ? ? Ho Hl']; subst.
    destruct (lstep_refines P sp sf ms o HP Hs HJ Hq Hnd Ho) as (A & B & C & D & E & F & G & H).
    cbn [lrun lrun_spec fold_left].
    destruct (lstep_spec (ms, mode_of sf) o) as [[ms' md'] rs] eqn:Esp. cbn [fst snd] in D, E, F, G.
    destruct (IH _ _ ms' A B E F Hl') as (R1 & R2 & R3 & R4 & R5 & R6 & R7).
    rewrite G in R2, R5, R6.
    assert (HL : loks chain_ops P sp (o :: l)) by (constructor; assumption).
    destruct (lstep chain_ops P sp o) as [sp' rp]. destruct (lstep flat_ops P sf o) as [sf' rf].
    cbn [fst snd] in *.
    split; [constructor; assumption|]. split; [constructor; assumption|].
    split; [exact R3|]. split; [exact R4|]. split; [exact R5|]. split; [exact R6|exact HL].
Qed.

(* the run theorem: chain index against flat index through sessions *)
Theorem sim_lrun P (l : list lop) (sp : stp) (sf : stf) :
  params_ok P -> st_rel sp sf -> J P sf -> lsides P sf l ->
  Forall2 out_equiv (lrun chain_ops P sp l) (lrun flat_ops P sf l) /\
  st_rel (lfinal chain_ops P sp l) (lfinal flat_ops P sf l) /\
  J P (lfinal flat_ops P sf l).
Proof.
  intros HP Hs HJ Hl.
  destruct (lrun_refines P l HP sp sf (abs (s_disk sf)) Hs HJ (meq_refl _) (abs_NoDup _) Hl)
    as (A & _ & C & D & _).
  exact (conj A (conj C D)).
Qed.

(* ... and against the specification: a plain map that survives Close / Open and crashes *)
Theorem chain_sessions_refine_spec P (l : list lop) (sp : stp) (sf : stf) :
  params_ok P -> st_rel sp sf -> J P sf -> lsides P sf l ->
  Forall2 out_equiv' (lrun chain_ops P sp l) (lrun_spec (abs (s_disk sf), mode_of sf) l) /\
  meq (abs (s_disk (lfinal flat_ops P sf l))) (fst (lfinal_spec (abs (s_disk sf), mode_of sf) l)) /\
  mode_of (lfinal flat_ops P sf l) = snd (lfinal_spec (abs (s_disk sf), mode_of sf) l).
Proof.
  intros HP Hs HJ Hl.
  destruct (lrun_refines P l HP sp sf (abs (s_disk sf)) Hs HJ (meq_refl _) (abs_NoDup _) Hl)
    as (_ & B & _ & _ & E & F & _).
  exact (conj B (conj E F)).
Qed.

(* the side condition of DBSimExact.xsim_run along the chain run follows *)
Theorem loks_of_flat P (l : list lop) (sp : stp) (sf : stf) :
  params_ok P -> st_rel sp sf -> J P sf -> lsides P sf l -> loks chain_ops P sp l.
Proof.
  intros HP Hs HJ Hl.
  destruct (lrun_refines P l HP sp sf (abs (s_disk sf)) Hs HJ (meq_refl _) (abs_NoDup _) Hl)
    as (_ & _ & _ & _ & _ & _ & G).
  exact G.
Qed.

(* from an empty directory *)
Lemma J_st0 P : J P (@st0 flat).
Proof. apply J_fresh; reflexivity. Qed.

Corollary chain_sessions_from_empty P (l : list lop) :
  params_ok P -> lsides P st0 l ->
  Forall2 out_equiv (lrun chain_ops P st0 l) (lrun flat_ops P st0 l) /\
  Forall2 out_equiv' (lrun chain_ops P st0 l) (lrun_spec ([], MClosed) l) /\
  st_rel (lfinal chain_ops P st0 l) (lfinal flat_ops P st0 l) /\ J P (lfinal flat_ops P st0 l).
Proof.
  intros HP Hl.
  destruct (lrun_refines P l HP st0 st0 [] (st0_rel idx_rel) (J_st0 P) (meq_refl _) (NoDup_nil _) Hl)
    as (A & B & C & D & _).
  exact (conj A (conj B (conj C D))).
Qed.

(* ---- executable side condition ---- *)
Definition lside_b (P : params) (sf : stf) (o : lop) : bool :=
  match o with
  | LBase b =>
      match s_mem sf with
      | None => true
      | Some m => room_b m && (match b with OpCompact => compact_room_b P sf | _ => true end) && op_valid'_b b
      end
  | _ => true
  end.

Lemma lside_b_ok P sf o : lside_b P sf o = true -> lside P sf o.
Proof.
  destruct o as [b| |seed|]; cbn [lside_b lside]; try (intros _; exact I).
  intros H m Em. rewrite Em in H. apply andb_true_iff in H. destruct H as [H C].
  apply andb_true_iff in H. destruct H as [A B].
  split; [apply room_b_ok; exact A|]. split.
  - intros ->. apply compact_room_b_ok. exact B.
  - destruct b as [b|]; [apply op_valid_b_ok; exact C|exact I].
Qed.

Fixpoint lsides_b (P : params) (s : stf) (l : list lop) : bool :=
  match l with
  | [] => true
  | o :: l' => lside_b P s o && lsides_b P (fst (lstep flat_ops P s o)) l'
  end.

Lemma lsides_b_ok P l : forall s, lsides_b P s l = true -> lsides P s l.
Proof.
  induction l as [|o l IH]; intros s H; [constructor|]. cbn [lsides_b] in H.
  apply andb_true_iff in H. destruct H as [A B]. constructor; [apply lside_b_ok; exact A|apply IH; exact B].
Qed.

(* ================================================================================================ *)
(** * 5. Crash images *)

(* the crash model of DBProofsCrash.v, for any index implementation *)
Section GCrash.
Context {I : Type}.
Variable ops : idx_ops I.

Definition gtorn (d : @DB.disk I) (id seq : N) (r : rec) (c : N) : @DB.disk I :=
  upd_seg id seq (fun f => {| f_id := f_id f; f_seq := f_seq f; f_hdr := f_hdr f; f_recs := f_recs f;
                              f_tail := f_tail f ++ ntake c (encode_rec r); f_meta := f_meta f |}) d.

Inductive gcrash_image : @DB.disk I -> list (@fsev I) -> @DB.disk I -> Prop :=
| gci_here d es : gcrash_image d es d
| gci_step d e es img : gcrash_image (apply_ev ops d e) es img -> gcrash_image d (e :: es) img
| gci_torn d id seq off r es c : 0 < c -> c < rsize r ->
    gcrash_image d (EAppend id seq off r :: es) (gtorn d id seq r c).

(* the same, as a function of the instant: after [n] events; [cut = Some c]: in the middle of the
   next event, a data write, with c bytes of the record in the file *)
Fixpoint gcrash_at (d : @DB.disk I) (es : list (@fsev I)) (n : nat) (cut : option N) {struct n} : option (@DB.disk I) :=
  match n with
  | O => match cut with
         | None => Some d
         | Some c => match es with
                     | EAppend id seq off r :: _ =>
                         if (0 <? c) && (c <? rsize r) then Some (gtorn d id seq r c) else None
                     | _ => None
                     end
         end
  | S n' => match es with
            | e :: es' => gcrash_at (apply_ev ops d e) es' n' cut
            | [] => None
            end
  end.

Lemma gcrash_at_image es : forall d n cut img, gcrash_at d es n cut = Some img -> gcrash_image d es img.
Proof.
  induction es as [|e es IH]; intros d n cut img H.
  - destruct n; cbn [gcrash_at] in H; [|discriminate]. destruct cut; [discriminate|]. injection H as <-. constructor.
  - destruct n as [|n]; cbn [gcrash_at] in H.
    + destruct cut as [c|]; [|injection H as <-; constructor].
      destruct e as [f|f|id seq off r|i|id seq m|i|sd|f n|f g|f|f]; try discriminate.
      destruct ((0 <? c) && (c <? rsize r)) eqn:Ec; [|discriminate]. injection H as <-.
      apply andb_true_iff in Ec. destruct Ec as [A B]. apply N.ltb_lt in A, B. constructor; assumption.
    + apply gci_step. exact (IH _ n cut img H).
Qed.

Lemma gcrash_image_at d es img : gcrash_image d es img -> exists n cut, gcrash_at d es n cut = Some img.
Proof.
  induction 1 as [d es|d e es img H (n & cut & IH)|d id seq off r es c Hc0 Hc1].
  - exists O, None. reflexivity.
  - exists (S n), cut. exact IH.
  - exists O, (Some c). cbn [gcrash_at].
    rewrite (proj2 (N.ltb_lt _ _) Hc0), (proj2 (N.ltb_lt _ _) Hc1). reflexivity.
Qed.

End GCrash.

(* for the flat index this is DBProofsCrash.crash_image *)
Lemma gtorn_flat (d : diskf) id seq r c : gtorn d id seq r c = torn d id seq r c.
Proof. reflexivity. Qed.

Lemma gcrash_flat (d : diskf) es img : gcrash_image flat_ops d es img <-> crash_image d es img.
Proof.
  split; intros H.
  - induction H as [d es|d e es img H IH|d id seq off r es c Hc0 Hc1].
    + apply ci_here.
    + apply ci_step. exact IH.
    + rewrite gtorn_flat. apply ci_torn; assumption.
  - induction H as [d es|d e es img H IH|d id seq off r es c Hc0 Hc1].
    + apply gci_here.
    + apply gci_step. exact IH.
    + rewrite <- gtorn_flat. apply gci_torn; assumption.
Qed.

(* related disks, related traces: the images at the same instant are related *)
Section CrashRel.
Context {I1 I2 : Type}.
Variable ops1 : idx_ops I1.
Variable ops2 : idx_ops I2.
Variable R : I1 -> I2 -> Prop.
Hypothesis RE : R (ix_empty ops1) (ix_empty ops2).

Lemma gtorn_g (d1 : @DB.disk I1) (d2 : @DB.disk I2) id seq r c :
  gdisk_rel R d1 d2 -> gdisk_rel R (gtorn d1 id seq r c) (gtorn d2 id seq r c).
Proof. intros H. unfold gtorn. apply upd_seg_g. exact H. Qed.

Theorem crash_at_g es1 es2 : Forall2 (gev_rel R) es1 es2 -> forall d1 d2 n cut,
  gdisk_rel R d1 d2 ->
  opt_rel (gdisk_rel R) (gcrash_at ops1 d1 es1 n cut) (gcrash_at ops2 d2 es2 n cut).
Proof.
  induction 1 as [|e1 e2 es1 es2 He Hes IH]; intros d1 d2 n cut Hd.
  - destruct n; cbn [gcrash_at]; [|constructor]. destruct cut; constructor. exact Hd.
  - destruct n as [|n]; cbn [gcrash_at].
    + destruct cut as [c|]; [|constructor; exact Hd].
      destruct He; try constructor.
      destruct ((0 <? c) && (c <? rsize r)); constructor. apply gtorn_g. exact Hd.
    + apply IH. apply (apply_ev_rel R ops1 ops2 RE); assumption.
Qed.

Theorem crash_image_g d1 d2 es1 es2 :
  gdisk_rel R d1 d2 -> Forall2 (gev_rel R) es1 es2 ->
  (forall img1, gcrash_image ops1 d1 es1 img1 ->
     exists img2, gcrash_image ops2 d2 es2 img2 /\ gdisk_rel R img1 img2) /\
  (forall img2, gcrash_image ops2 d2 es2 img2 ->
     exists img1, gcrash_image ops1 d1 es1 img1 /\ gdisk_rel R img1 img2).
Proof.
  intros Hd Hes. split.
  - intros img1 H. destruct (gcrash_image_at ops1 _ _ _ H) as (n & cut & E).
    pose proof (crash_at_g es1 es2 Hes d1 d2 n cut Hd) as Hr. rewrite E in Hr.
    inversion Hr as [|a b Hab Ea Eb]; subst. exists b. split; [|exact Hab].
    apply (gcrash_at_image ops2 es2 d2 n cut). symmetry. exact Eb.
  - intros img2 H. destruct (gcrash_image_at ops2 _ _ _ H) as (n & cut & E).
    pose proof (crash_at_g es1 es2 Hes d1 d2 n cut Hd) as Hr. rewrite E in Hr.
    inversion Hr as [|a b Hab Ea Eb]; subst. exists a. split; [|exact Hab].
    apply (gcrash_at_image ops1 es1 d1 n cut). symmetry. exact Ea.
Qed.

End CrashRel.

(* chain index against flat index *)
Theorem sim_crash_at (dp : diskp) (df : diskf) tp tf n cut :
  disk_rel dp df -> Forall2 ev_rel tp tf ->
  opt_rel disk_rel (gcrash_at chain_ops dp tp n cut) (gcrash_at flat_ops df tf n cut).
Proof. intros Hd Ht. exact (crash_at_g chain_ops flat_ops idx_rel idx_rel_empty tp tf Ht dp df n cut Hd). Qed.

Theorem sim_crash_image (dp : diskp) (df : diskf) tp tf :
  disk_rel dp df -> Forall2 ev_rel tp tf ->
  (forall imgp, gcrash_image chain_ops dp tp imgp -> exists imgf, crash_image df tf imgf /\ disk_rel imgp imgf) /\
  (forall imgf, crash_image df tf imgf -> exists imgp, gcrash_image chain_ops dp tp imgp /\ disk_rel imgp imgf).
Proof.
  intros Hd Ht. destruct (crash_image_g chain_ops flat_ops idx_rel idx_rel_empty dp df tp tf Hd Ht) as [A B].
  split.
  - intros imgp H. destruct (A imgp H) as (imgf & H1 & H2). exists imgf. split; [apply gcrash_flat; exact H1|exact H2].
  - intros imgf H. apply gcrash_flat in H. exact (B imgf H).
Qed.

(* in the form used below: the operation started on related states and ended in related states
   (every operation theorem gives that; [st_rel] includes the traces) *)
Corollary sim_crash_image_st (sp sp' : stp) (sf sf' : stf) imgp :
  disk_rel (s_disk sp) (s_disk sf) -> st_rel sp' sf' ->
  gcrash_image chain_ops (s_disk sp) (s_trace sp') imgp ->
  exists imgf, crash_image (s_disk sf) (s_trace sf') imgf /\ disk_rel imgp imgf.
Proof.
  intros Hd Hs' H.
  exact (proj1 (sim_crash_image _ _ _ _ Hd (st_rel_trace _ _ _ Hs')) imgp H).
Qed.

(* ================================================================================================ *)
(** * 6. The restart / crash theorems of the flat instance, for the chain instance *)

Definition closedp (d : diskp) : stp := {| s_mem := None; s_disk := d; s_trace := [] |}.

Lemma closed_rel (dp : diskp) (df : diskf) : disk_rel dp df -> st_rel (closedp dp) (closed df).
Proof. intros H. unfold closedp, closed. constructor; [constructor|exact H|constructor]. Qed.

(* what the user sees of an open chain-index database related to a flat one *)
Definition answers (P : params) (sp : stp) (ms : smap) : Prop :=
  (forall k, db_get chain_ops P k sp = OVal (sget ms k)) /\
  (forall k, db_has chain_ops P k sp = OBool (shas ms k)) /\
  db_count chain_ops sp = ONum (scount ms) /\
  exists l, db_items chain_ops sp = OItems l /\ Permutation l ms.

Lemma answers_of_rel P (sp : stp) (sf : stf) :
  st_rel sp sf -> Inv P sf -> s_mem sf <> None -> answers P sp (abs (s_disk sf)).
Proof.
  intros Hs HI Hm. split; [intros k; apply (chain_get_ok P sp sf k Hs HI Hm)|].
  split; [intros k; apply (chain_has_ok P sp sf k Hs HI Hm)|].
  split; [apply (chain_count_ok P sp sf Hs HI Hm)|apply (chain_items_ok P sp sf Hs HI Hm)].
Qed.

Lemma answers_meq P (sp : stp) a b :
  NoDup (map fst a) -> NoDup (map fst b) -> meq a b -> answers P sp a -> answers P sp b.
Proof.
  intros Ha Hb Hq (A1 & A2 & A3 & l & A4 & A5). pose proof (meq_perm a b Ha Hb Hq) as Hp.
  split; [intros k; rewrite A1, (Hq k); reflexivity|].
  split; [intros k; rewrite A2; unfold shas; rewrite (Hq k); reflexivity|].
  split; [rewrite A3; unfold scount; rewrite (nlen_perm _ _ Hp); reflexivity|].
  exists l. split; [exact A4|]. etransitivity; eassumption.
Qed.

(* C02: Close, then Open: OOpened false, and every answer is the one given before the Close *)
Theorem chain_close_reopen_ok P seed (sp : stp) (sf : stf) m :
  params_ok P -> st_rel sp sf -> Inv P sf -> s_mem sf = Some m -> MetaOK sf ->
  let '(sp1, o1) := db_close chain_ops sp in
  let '(sp2, o2) := db_open chain_ops P seed (clear_trace sp1) in
  o1 = OOk /\ o2 = OOpened false /\
  answers P sp (abs (s_disk sf)) /\ answers P sp2 (abs (s_disk sf)) /\
  exists sf2, st_rel sp2 sf2 /\ Inv P sf2 /\ MetaOK sf2 /\ s_mem sf2 <> None /\
              meq (abs (s_disk sf2)) (abs (s_disk sf)).
Proof.
  intros HP Hs HI Em HM.
  assert (Hopen : s_mem sf <> None) by congruence.
  pose proof (answers_of_rel P sp sf Hs HI Hopen) as Hbefore.
  destruct (sim_close_so sp sf Hs) as [Eo Hs1].
  pose proof (close_ok P sf m HI Em) as Hc.
  pose proof (close_reopen_ok P seed sf m HP HI Em HM) as Hr.
  destruct (db_close chain_ops sp) as [sp1 o1]. destruct (db_close flat_ops sf) as [sf1 of1].
  cbn [fst snd] in Eo, Hs1. destruct Hc as (-> & _ & _ & _ & Hl1 & _). subst o1.
  pose proof (clear_trace_rel idx_rel _ _ Hs1) as Hs1c.
  destruct (sim_open_clean_so P seed (clear_trace sp1) (clear_trace sf1) Hs1c Hl1) as [Eo2 Hs2].
  destruct (db_open chain_ops P seed (clear_trace sp1)) as [sp2 o2].
  destruct (db_open flat_ops P seed (clear_trace sf1)) as [sf2 of2].
  cbn [fst snd] in Eo2, Hs2. destruct Hr as (-> & HI2 & Ha2 & (m2 & Em2 & _) & HM2). subst o2.
  assert (Hopen2 : s_mem sf2 <> None) by congruence.
  split; [reflexivity|]. split; [reflexivity|]. split; [exact Hbefore|].
  split.
  - apply (answers_meq P sp2 (abs (s_disk sf2)) (abs (s_disk sf)) (abs_NoDup _) (abs_NoDup _) Ha2).
    apply (answers_of_rel P sp2 sf2 Hs2 HI2 Hopen2).
  - exists sf2. split; [exact Hs2|]. split; [exact HI2|]. split; [exact HM2|]. split; [exact Hopen2|exact Ha2].
Qed.

(* recovery of the chain-index database from an image related to a recoverable flat image *)
Theorem chain_recover_image P seed (imgp : diskp) (imgf : diskf) :
  params_ok P -> disk_rel imgp imgf -> DiskOK imgf -> bac_ok imgf -> d_lock imgf = true ->
  exists sp2 sf2,
    db_open chain_ops P seed (closedp imgp) = (sp2, OOpened true) /\
    db_open flat_ops P seed (closed imgf) = (sf2, OOpened true) /\
    st_rel sp2 sf2 /\ Inv P sf2 /\ MetaOK sf2 /\ s_mem sf2 <> None /\ bac_ok (s_disk sf2) /\
    meq (abs (s_disk sf2)) (abs imgf) /\ answers P sp2 (abs imgf).
Proof.
  intros HP Hd Hok Hbac Hlock.
  pose proof (closed_rel imgp imgf Hd) as Hs.
  destruct (sim_open_recover_so P seed (closedp imgp) (closed imgf) Hs Hok Hbac Hlock) as [Eo Hs2].
  pose proof (open_recover_gen P seed (closed imgf) eq_refl Hok Hbac Hlock) as Hr.
  destruct (db_open chain_ops P seed (closedp imgp)) as [sp2 o2].
  destruct (db_open flat_ops P seed (closed imgf)) as [sf2 of2].
  cbn [fst snd closed s_disk] in Eo, Hs2, Hr. destruct Hr as (-> & HI2 & Hm2 & Ha2 & Hb2 & _ & _ & _ & HM2).
  subst o2. exists sp2, sf2. split; [reflexivity|]. split; [reflexivity|].
  split; [exact Hs2|]. split; [exact HI2|]. split; [exact HM2|]. split; [exact Hm2|].
  split; [unfold bac_ok; rewrite Hb2; constructor|]. split; [exact Ha2|].
  apply (answers_meq P sp2 (abs (s_disk sf2)) (abs imgf) (abs_NoDup _) (abs_NoDup _) Ha2).
  apply (answers_of_rel P sp2 sf2 Hs2 HI2 Hm2).
Qed.

(* the engine: an operation that ran on related states; every crash image of the flat run is
   recoverable and satisfies [Q]; then every crash image of the chain run recovers, to a state related
   to the recovered flat state, and answers as the flat image's contents say *)
Theorem chain_crash_recover_ok P seed (Q : diskf -> Prop) (sp sp' : stp) (sf sf' : stf) imgp :
  params_ok P -> disk_rel (s_disk sp) (s_disk sf) -> st_rel sp' sf' ->
  (forall imgf, crash_image (s_disk sf) (s_trace sf') imgf ->
     DiskOK imgf /\ bac_ok imgf /\ d_lock imgf = true /\ Q imgf) ->
  gcrash_image chain_ops (s_disk sp) (s_trace sp') imgp ->
  exists imgf sp2 sf2,
    crash_image (s_disk sf) (s_trace sf') imgf /\ disk_rel imgp imgf /\ Q imgf /\
    db_open chain_ops P seed (closedp imgp) = (sp2, OOpened true) /\
    db_open flat_ops P seed (closed imgf) = (sf2, OOpened true) /\
    st_rel sp2 sf2 /\ Inv P sf2 /\ MetaOK sf2 /\ s_mem sf2 <> None /\ bac_ok (s_disk sf2) /\
    meq (abs (s_disk sf2)) (abs imgf) /\ answers P sp2 (abs imgf).
Proof.
  intros HP Hd Hs' Hall Himg.
  destruct (sim_crash_image_st sp sp' sf sf' imgp Hd Hs' Himg) as (imgf & Hf & Hrel).
  destruct (Hall imgf Hf) as (G1 & G2 & G3 & HQ).
  destruct (chain_recover_image P seed imgp imgf HP Hrel G1 G2 G3) as (sp2 & sf2 & H).
  exists imgf, sp2, sf2. split; [exact Hf|]. split; [exact Hrel|]. split; [exact HQ|exact H].
Qed.

(* contents before the operation, or after it: nothing else *)
Definition before_or_after (d0 d1 : diskf) (img : diskf) : Prop :=
  meq (abs img) (abs d0) \/ meq (abs img) (abs d1).

(* C03, Put *)
Theorem chain_crash_put P seed (sp sp' : stp) (sf : stf) k v o imgp :
  params_ok P -> st_rel sp sf -> Inv P sf -> (exists m, s_mem sf = Some m /\ room m) -> bac_ok (s_disk sf) ->
  Forall byte k -> Forall byte v -> nlen k <= max_key_len -> nlen v <= max_val_len ->
  db_put chain_ops P k v (clear_trace sp) = (sp', o) ->
  gcrash_image chain_ops (s_disk sp) (s_trace sp') imgp ->
  let sf' := fst (db_put flat_ops P k v (clear_trace sf)) in
  st_rel sp' sf' /\
  exists imgf sp2 sf2,
    disk_rel imgp imgf /\ before_or_after (s_disk sf) (s_disk sf') imgf /\
    db_open chain_ops P seed (closedp imgp) = (sp2, OOpened true) /\
    st_rel sp2 sf2 /\ Inv P sf2 /\ s_mem sf2 <> None /\
    (answers P sp2 (abs (s_disk sf)) \/ answers P sp2 (sput (abs (s_disk sf)) k v)).
Proof.
  intros HP Hs HI Hroom Hbac Hbk Hbv Hk Hv Eput Himg. cbv zeta.
  pose proof (clear_trace_rel idx_rel _ _ Hs) as Hsc.
  destruct (sim_put_so P (clear_trace sp) (clear_trace sf) k v Hsc (Inv_clear P sf HI) Hroom Hbk Hbv Hk Hv)
    as [_ Hs']. rewrite Eput in Hs'. cbn [fst] in Hs'.
  destruct (flat_put_abs P (clear_trace sf) k v HP (Inv_clear P sf HI) Hroom Hbk Hbv Hk Hv)
    as (sf' & Ef & _ & _ & Eabs).
  rewrite Ef in Hs' |- *. cbn [fst] in Hs' |- *. cbn [clear_trace s_disk] in Eabs.
  split; [exact Hs'|].
  destruct (chain_crash_recover_ok P seed (before_or_after (s_disk sf) (s_disk sf')) sp sp' sf sf' imgp HP
              (st_rel_disk _ _ _ Hs) Hs') as (imgf & sp2 & sf2 & _ & Hrel & HQ & E2 & _ & Hs2 & HI2 & _ & Hm2 & _ & Hq & Hans).
  - intros imgf Hf.
    destruct (crash_put P sf sf' k v OOk HP HI Hroom Hbac Hbk Hbv Hk Hv) with (img := imgf)
      as (G1 & G2 & G3 & Hc); [exact Ef|exact Hf|].
    split; [exact G1|]. split; [exact G2|]. split; [exact G3|]. exact Hc.
  - exact Himg.
  - exists imgf, sp2, sf2. split; [exact Hrel|]. split; [exact HQ|]. split; [exact E2|].
    split; [exact Hs2|]. split; [exact HI2|]. split; [exact Hm2|].
    destruct HQ as [HQ|HQ]; [left|right].
    + apply (answers_meq P sp2 (abs imgf) _ (abs_NoDup _) (abs_NoDup _) HQ). exact Hans.
    + rewrite <- Eabs. apply (answers_meq P sp2 (abs imgf) _ (abs_NoDup _) (abs_NoDup _) HQ). exact Hans.
Qed.

(* C03, Delete (a key that is a byte string, as crash_delete) *)
Theorem chain_crash_delete P seed (sp sp' : stp) (sf : stf) k o imgp :
  params_ok P -> st_rel sp sf -> Inv P sf -> (exists m, s_mem sf = Some m /\ room m) -> bac_ok (s_disk sf) ->
  Forall byte k ->
  db_delete chain_ops P k (clear_trace sp) = (sp', o) ->
  gcrash_image chain_ops (s_disk sp) (s_trace sp') imgp ->
  let sf' := fst (db_delete flat_ops P k (clear_trace sf)) in
  st_rel sp' sf' /\
  exists imgf sp2 sf2,
    disk_rel imgp imgf /\ before_or_after (s_disk sf) (s_disk sf') imgf /\
    db_open chain_ops P seed (closedp imgp) = (sp2, OOpened true) /\
    st_rel sp2 sf2 /\ Inv P sf2 /\ s_mem sf2 <> None /\
    (answers P sp2 (abs (s_disk sf)) \/ answers P sp2 (sdel (abs (s_disk sf)) k)).
Proof.
  intros HP Hs HI Hroom Hbac Hbk Edel Himg. cbv zeta.
  pose proof (clear_trace_rel idx_rel _ _ Hs) as Hsc.
  destruct (sim_delete_so P (clear_trace sp) (clear_trace sf) k Hsc (Inv_clear P sf HI)) as [_ Hs'].
  rewrite Edel in Hs'. cbn [fst] in Hs'.
  destruct (flat_delete_abs P (clear_trace sf) k HP (Inv_clear P sf HI) Hroom) as (sf' & Ef & _ & _ & Eabs).
  rewrite Ef in Hs' |- *. cbn [fst] in Hs' |- *. cbn [clear_trace s_disk] in Eabs.
  split; [exact Hs'|].
  destruct (chain_crash_recover_ok P seed (before_or_after (s_disk sf) (s_disk sf')) sp sp' sf sf' imgp HP
              (st_rel_disk _ _ _ Hs) Hs') as (imgf & sp2 & sf2 & _ & Hrel & HQ & E2 & _ & Hs2 & HI2 & _ & Hm2 & _ & Hq & Hans).
  - intros imgf Hf.
    destruct (crash_delete P sf sf' k OOk HP HI Hroom Hbac Hbk) with (img := imgf)
      as (G1 & G2 & G3 & Hc); [exact Ef|exact Hf|].
    split; [exact G1|]. split; [exact G2|]. split; [exact G3|]. exact Hc.
  - exact Himg.
  - exists imgf, sp2, sf2. split; [exact Hrel|]. split; [exact HQ|]. split; [exact E2|].
    split; [exact Hs2|]. split; [exact HI2|]. split; [exact Hm2|].
    destruct HQ as [HQ|HQ]; [left|right].
    + apply (answers_meq P sp2 (abs imgf) _ (abs_NoDup _) (abs_NoDup _) HQ). exact Hans.
    + rewrite <- Eabs. apply (answers_meq P sp2 (abs imgf) _ (abs_NoDup _) (abs_NoDup _) HQ). exact Hans.
Qed.

(* C03, Sync: no image differs from the disk before *)
Theorem chain_crash_sync P seed (sp sp' : stp) (sf : stf) o imgp :
  params_ok P -> st_rel sp sf -> Inv P sf -> s_mem sf <> None -> bac_ok (s_disk sf) ->
  db_sync chain_ops (clear_trace sp) = (sp', o) ->
  gcrash_image chain_ops (s_disk sp) (s_trace sp') imgp ->
  exists imgf sp2 sf2,
    disk_rel imgp imgf /\ db_open chain_ops P seed (closedp imgp) = (sp2, OOpened true) /\
    st_rel sp2 sf2 /\ Inv P sf2 /\ s_mem sf2 <> None /\ answers P sp2 (abs (s_disk sf)).
Proof.
  intros HP Hs HI Hm Hbac Es Himg.
  pose proof (clear_trace_rel idx_rel _ _ Hs) as Hsc.
  destruct (sync_rel idx_rel chain_ops flat_ops idx_rel_empty _ _ Hsc) as [_ Hs'].
  rewrite Es in Hs'. cbn [fst] in Hs'.
  destruct (db_sync flat_ops (clear_trace sf)) as [sf' of] eqn:Ef. cbn [fst] in Hs'.
  destruct (chain_crash_recover_ok P seed (fun img => meq (abs img) (abs (s_disk sf))) sp sp' sf sf' imgp HP
              (st_rel_disk _ _ _ Hs) Hs') as (imgf & sp2 & sf2 & _ & Hrel & HQ & E2 & _ & Hs2 & HI2 & _ & Hm2 & _ & Hq & Hans).
  - intros imgf Hf. destruct (crash_sync P sf sf' of HI Hm Hbac Ef imgf Hf) as (G1 & G2 & G3 & Hc & _).
    split; [exact G1|]. split; [exact G2|]. split; [exact G3|exact Hc].
  - exact Himg.
  - exists imgf, sp2, sf2. split; [exact Hrel|]. split; [exact E2|]. split; [exact Hs2|].
    split; [exact HI2|]. split; [exact Hm2|].
    apply (answers_meq P sp2 (abs imgf) _ (abs_NoDup _) (abs_NoDup _) HQ). exact Hans.
Qed.

(* C03, one critical section of Compact: the contents never change *)
Theorem chain_crash_compact_step P seed (sp sp' : stp) (sf : stf) c c' imgp :
  params_ok P -> st_rel sp sf -> Inv P sf -> CInv sf c -> (exists m, s_mem sf = Some m /\ room m) ->
  bac_ok (s_disk sf) ->
  compact_step chain_ops P (clear_trace sp) c = CMore sp' c' ->
  gcrash_image chain_ops (s_disk sp) (s_trace sp') imgp ->
  exists imgf sp2 sf2,
    disk_rel imgp imgf /\ db_open chain_ops P seed (closedp imgp) = (sp2, OOpened true) /\
    st_rel sp2 sf2 /\ Inv P sf2 /\ s_mem sf2 <> None /\ answers P sp2 (abs (s_disk sf)).
Proof.
  intros HP Hs HI HC Hroom Hbac Ec Himg.
  pose proof (clear_trace_rel idx_rel _ _ Hs) as Hsc.
  pose proof (sim_compact_step P (clear_trace sp) (clear_trace sf) c Hsc (Inv_clear P sf HI)) as Hstep.
  rewrite Ec in Hstep.
  destruct (compact_step flat_ops P (clear_trace sf) c) as [|sf' cf'|w] eqn:Ef; inversion Hstep; subst.
  destruct (chain_crash_recover_ok P seed (fun img => meq (abs img) (abs (s_disk sf))) sp sp' sf sf' imgp HP
              (st_rel_disk _ _ _ Hs)) as (imgf & sp2 & sf2 & _ & Hrel & HQ & E2 & _ & Hs2 & HI2 & _ & Hm2 & _ & Hq & Hans).
  - assumption.
  - intros imgf Hf. exact (crash_compact_step P sf c sf' cf' HI HC Hroom Hbac Ef imgf Hf).
  - exact Himg.
  - exists imgf, sp2, sf2. split; [exact Hrel|]. split; [exact E2|]. split; [exact Hs2|].
    split; [exact HI2|]. split; [exact Hm2|].
    apply (answers_meq P sp2 (abs imgf) _ (abs_NoDup _) (abs_NoDup _) HQ). exact Hans.
Qed.

(* C04: a crash during the recovery itself; the next recovery succeeds with the same contents *)
Theorem chain_crash_open_recover P seed seed2 (dp : diskp) (df : diskf) imgp :
  params_ok P -> disk_rel dp df -> DiskOK df -> bac_ok df -> d_lock df = true ->
  gcrash_image chain_ops dp (s_trace (fst (db_open chain_ops P seed (closedp dp)))) imgp ->
  exists imgf sp2 sf2,
    disk_rel imgp imgf /\ db_open chain_ops P seed2 (closedp imgp) = (sp2, OOpened true) /\
    st_rel sp2 sf2 /\ Inv P sf2 /\ s_mem sf2 <> None /\ answers P sp2 (abs df).
Proof.
  intros HP Hd Hok Hbac Hlock Himg.
  destruct (sim_open_recover_so P seed (closedp dp) (closed df) (closed_rel dp df Hd) Hok Hbac Hlock) as [_ Hs'].
  destruct (chain_crash_recover_ok P seed2 (fun img => meq (abs img) (abs df)) (closedp dp) _ (closed df) _ imgp HP
              Hd Hs') as (imgf & sp2 & sf2 & _ & Hrel & HQ & E2 & _ & Hs2 & HI2 & _ & Hm2 & _ & Hq & Hans).
  - intros imgf Hf. exact (crash_open_recover P seed df Hok Hbac Hlock imgf Hf).
  - exact Himg.
  - exists imgf, sp2, sf2. split; [exact Hrel|]. split; [exact E2|]. split; [exact Hs2|].
    split; [exact HI2|]. split; [exact Hm2|].
    apply (answers_meq P sp2 (abs imgf) _ (abs_NoDup _) (abs_NoDup _) HQ). exact Hans.
Qed.

(* C03, Close: every image opens (by recovery, or cleanly when Close had finished) with the contents
   that were there before the Close *)
Theorem chain_crash_close P seed (sp sp1 : stp) (sf : stf) o imgp :
  params_ok P -> st_rel sp sf -> Inv P sf -> s_mem sf <> None -> bac_ok (s_disk sf) ->
  db_close chain_ops (clear_trace sp) = (sp1, o) ->
  gcrash_image chain_ops (s_disk sp) (s_trace sp1) imgp ->
  exists imgf sp2 sf2 b,
    disk_rel imgp imgf /\ db_open chain_ops P seed (closedp imgp) = (sp2, OOpened b) /\
    st_rel sp2 sf2 /\ Inv P sf2 /\ s_mem sf2 <> None /\ answers P sp2 (abs (s_disk sf)).
Proof.
  intros HP Hs HI Hm Hbac Ec Himg.
  pose proof (clear_trace_rel idx_rel _ _ Hs) as Hsc.
  destruct (sim_close_so _ _ Hsc) as [_ Hs1]. rewrite Ec in Hs1. cbn [fst] in Hs1.
  destruct (db_close flat_ops (clear_trace sf)) as [sf1 of] eqn:Ef. cbn [fst] in Hs1.
  destruct (sim_crash_image_st sp sp1 sf sf1 imgp (st_rel_disk _ _ _ Hs) Hs1 Himg) as (imgf & Hf & Hrel).
  pose proof (C03_close P seed sf sf1 of imgf HP HI Hm Hbac Ef Hf) as (sf2 & b & E2 & HI2 & Hm2 & _ & Ha2).
  pose proof (closed_rel imgp imgf Hrel) as Hcl.
  assert (Hso : so_rel idx_rel (db_open chain_ops P seed (closedp imgp)) (db_open flat_ops P seed (closed imgf))).
  { destruct (crash_close P sf sf1 of imgf HI Hm Hbac Ef Hf) as [(G1 & G2 & G3 & _)| ->].
    - apply sim_open_recover_so; assumption.
    - apply sim_open_clean_so; [exact Hcl|].
      destruct (s_mem sf) as [m|] eqn:Em; [|congruence].
      pose proof (close_ok P (clear_trace sf) m (Inv_clear P sf HI) Em) as Hc. rewrite Ef in Hc.
      cbn [closed s_disk]. apply Hc. }
  fold (closed imgf) in E2. rewrite E2 in Hso. destruct Hso as [Eo Hs2]. cbn [fst snd] in Eo, Hs2.
  destruct (db_open chain_ops P seed (closedp imgp)) as [sp2 o2]. cbn [fst snd] in Eo, Hs2. subst o2.
  exists imgf, sp2, sf2, b. split; [exact Hrel|]. split; [reflexivity|]. split; [exact Hs2|].
  split; [exact HI2|]. split; [exact Hm2|].
  apply (answers_meq P sp2 (abs (s_disk sf2)) _ (abs_NoDup _) (abs_NoDup _) Ha2).
  apply (answers_of_rel P sp2 sf2 Hs2 HI2 Hm2).
Qed.

(* C03, pickForCompaction: only Sync events *)
Theorem chain_crash_compact_pick P seed (sp sp' : stp) (sf : stf) c imgp :
  params_ok P -> st_rel sp sf -> Inv P sf -> s_mem sf <> None -> bac_ok (s_disk sf) ->
  compact_pick chain_ops P (clear_trace sp) = Some (sp', c) ->
  gcrash_image chain_ops (s_disk sp) (s_trace sp') imgp ->
  exists imgf sp2 sf2,
    disk_rel imgp imgf /\ db_open chain_ops P seed (closedp imgp) = (sp2, OOpened true) /\
    st_rel sp2 sf2 /\ Inv P sf2 /\ s_mem sf2 <> None /\ answers P sp2 (abs (s_disk sf)).
Proof.
  intros HP Hs HI Hm Hbac Ec Himg.
  pose proof (clear_trace_rel idx_rel _ _ Hs) as Hsc.
  pose proof (compact_pick_rel idx_rel chain_ops flat_ops idx_rel_empty P _ _ Hsc) as Hp.
  rewrite Ec in Hp.
  destruct (compact_pick flat_ops P (clear_trace sf)) as [[sf' cf]|] eqn:Ef; unfold pick_res_rel in Hp;
    [|contradiction].
  destruct Hp as [Hs' _].
  destruct (chain_crash_recover_ok P seed (fun img => meq (abs img) (abs (s_disk sf))) sp sp' sf sf' imgp HP
              (st_rel_disk _ _ _ Hs) Hs') as (imgf & sp2 & sf2 & _ & Hrel & HQ & E2 & _ & Hs2 & HI2 & _ & Hm2 & _ & Hq & Hans).
  - intros imgf Hf. destruct (crash_compact_pick P sf sf' cf HI Hm Hbac Ef) as (_ & _ & H).
    destruct (H imgf Hf) as (_ & G1 & G2 & G3 & Hc). split; [exact G1|]. split; [exact G2|]. split; [exact G3|exact Hc].
  - exact Himg.
  - exists imgf, sp2, sf2. split; [exact Hrel|]. split; [exact E2|]. split; [exact Hs2|].
    split; [exact HI2|]. split; [exact Hm2|].
    apply (answers_meq P sp2 (abs imgf) _ (abs_NoDup _) (abs_NoDup _) HQ). exact Hans.
Qed.

(* ================================================================================================ *)
(** * 7. The database on the PHYSICAL index through sessions *)

Theorem phys_sessions_flat P (l : list lop) (s1 : @DB.st phys) (sp : stp) (sf : stf) :
  params_ok P -> gst_rel PR s1 sp -> st_rel sp sf -> J P sf -> lsides P sf l ->
  (* the outputs are those of the flat-index database (Items up to order) ... *)
  Forall2 out_equiv (lrun phys_ops P s1 l) (lrun flat_ops P sf l) /\
  (* ... those of the specification ... *)
  Forall2 out_equiv' (lrun phys_ops P s1 l) (lrun_spec (abs (s_disk sf), mode_of sf) l) /\
  (* ... and EQUAL to those of the chain-index database *)
  lrun phys_ops P s1 l = lrun chain_ops P sp l /\
  gst_rel PR (lfinal phys_ops P s1 l) (lfinal chain_ops P sp l) /\
  st_rel (lfinal chain_ops P sp l) (lfinal flat_ops P sf l) /\
  J P (lfinal flat_ops P sf l).
Proof.
  intros HP H1 Hs HJ Hl.
  destruct (lrun_refines P l HP sp sf (abs (s_disk sf)) Hs HJ (meq_refl _) (abs_NoDup _) Hl)
    as (A & B & C & D & _ & _ & G).
  destruct (phys_sessions P l s1 sp H1 G) as [Eo Hf].
  rewrite Eo. exact (conj A (conj B (conj eq_refl (conj Hf (conj C D))))).
Qed.

Corollary phys_sessions_from_empty P (l : list lop) :
  params_ok P -> lsides P st0 l ->
  Forall2 out_equiv (lrun phys_ops P st0 l) (lrun flat_ops P st0 l) /\
  Forall2 out_equiv' (lrun phys_ops P st0 l) (lrun_spec ([], MClosed) l) /\
  lrun phys_ops P st0 l = lrun chain_ops P st0 l.
Proof.
  intros HP Hl.
  destruct (phys_sessions_flat P l st0 st0 st0 HP (st0_rel PR) (st0_rel idx_rel) (J_st0 P) Hl)
    as (A & B & C & _).
  exact (conj A (conj B C)).
Qed.

(* ================================================================================================ *)
(** * 8. Non-vacuity: the session run of DBSimExact.ExactEx *)

Module SessEx.
Definition exP : params := ExactEx.exP.
(* Open (empty directory); 40 colliding Puts (overflow bucket); Delete; Crash; Open (RECOVERY: 41 records
   replayed through ix_put / ix_del on both indexes); reads; Put; Compact; reads; Close; a read on the
   closed database; Open (clean: index read back from main.pix / index.pmt); reads; Items; Sync *)
Definition ex_ops : list lop := ExactEx.ex_ops.

Lemma exP_ok : params_ok exP.
Proof. vm_compute. reflexivity. Qed.

(* the side conditions hold along the flat run: the theorems apply *)
Example ex_lsides : lsides exP st0 ex_ops.
Proof. apply lsides_b_ok. vm_compute. reflexivity. Qed.

Example ex_run :
  Forall2 out_equiv (lrun chain_ops exP st0 ex_ops) (lrun flat_ops exP st0 ex_ops) /\
  Forall2 out_equiv' (lrun chain_ops exP st0 ex_ops) (lrun_spec ([], MClosed) ex_ops) /\
  st_rel (lfinal chain_ops exP st0 ex_ops) (lfinal flat_ops exP st0 ex_ops) /\
  J exP (lfinal flat_ops exP st0 ex_ops).
Proof. exact (chain_sessions_from_empty exP ex_ops exP_ok ex_lsides). Qed.

Example ex_phys :
  Forall2 out_equiv (lrun phys_ops exP st0 ex_ops) (lrun flat_ops exP st0 ex_ops) /\
  Forall2 out_equiv' (lrun phys_ops exP st0 ex_ops) (lrun_spec ([], MClosed) ex_ops) /\
  lrun phys_ops exP st0 ex_ops = lrun chain_ops exP st0 ex_ops.
Proof. exact (phys_sessions_from_empty exP ex_ops exP_ok ex_lsides). Qed.

(* what the specification says for this run (positions 41..56: Delete, Crash, Open, ...) *)
Example ex_spec_outputs :
  firstn 16 (skipn 41 (lrun_spec ([], MClosed) ex_ops)) =
    [OOk; OOk; OOpened true; OVal None; OVal (Some (RunEx.val_of 32)); ONum 39; OOk;
     OCompact 0 0 0; OVal (Some (RunEx.val_of 41)); OVal (Some (RunEx.val_of 5));
     OOk; OErr EClosed; OOpened false; OVal (Some (RunEx.val_of 5)); OVal None; ONum 40].
Proof. vm_compute. reflexivity. Qed.

(* the relation is not the identity after the recovery: the slot orders of the two indexes differ at
   the end of the run (same slots: [ex_run]) *)
Example ex_final_orders :
  SimEx.chain_slots (lfinal chain_ops exP st0 ex_ops) <> SimEx.flat_slots (lfinal flat_ops exP st0 ex_ops) /\
  length (SimEx.chain_slots (lfinal chain_ops exP st0 ex_ops)) = 40%nat.
Proof. split; [vm_compute; discriminate|vm_compute; reflexivity]. Qed.

(* a TORN Put on the chain-index database (5 bytes of the record reached the segment file), then
   recovery: chain_crash_put applies; the image is not the disk before and not the disk after *)
Definition pre_ops : list lop := [LOpen 1] ++ map ExactEx.put (seq 1 35).
Definition spX : stp := Eval vm_compute in lfinal chain_ops exP st0 pre_ops.
Definition sfX : stf := Eval vm_compute in lfinal flat_ops exP st0 pre_ops.
Definition kX : key := [77].
Definition vX : val := [7; 7; 7].
Definition spX' : stp := Eval vm_compute in fst (db_put chain_ops exP kX vX (clear_trace spX)).

Lemma spX_eq : lfinal chain_ops exP st0 pre_ops = spX. Proof. vm_compute. reflexivity. Qed.
Lemma sfX_eq : lfinal flat_ops exP st0 pre_ops = sfX. Proof. vm_compute. reflexivity. Qed.
Lemma spX'_eq : db_put chain_ops exP kX vX (clear_trace spX) = (spX', OOk). Proof. vm_compute. reflexivity. Qed.

Lemma X_rel : st_rel spX sfX /\ J exP sfX.
Proof.
  destruct (chain_sessions_from_empty exP pre_ops exP_ok) as (_ & _ & A & B).
  - apply lsides_b_ok. vm_compute. reflexivity.
  - rewrite spX_eq, sfX_eq in A. rewrite sfX_eq in B. split; assumption.
Qed.

Definition imgX : option diskp := Eval vm_compute in gcrash_at chain_ops (s_disk spX) (s_trace spX') 0 (Some 5).

Example ex_torn_put :
  exists imgp, imgX = Some imgp /\ imgp <> s_disk spX /\ imgp <> s_disk spX' /\
    gcrash_image chain_ops (s_disk spX) (s_trace spX') imgp /\
    exists sp2 sf2, db_open chain_ops exP 9 (closedp imgp) = (sp2, OOpened true) /\
      st_rel sp2 sf2 /\ Inv exP sf2 /\
      (answers exP sp2 (abs (s_disk sfX)) \/ answers exP sp2 (sput (abs (s_disk sfX)) kX vX)) /\
      (* which of the two: the torn record is dropped *)
      db_get chain_ops exP kX sp2 = OVal None /\ db_count chain_ops sp2 = ONum 35.
Proof.
  destruct imgX as [imgp|] eqn:Ei; [|vm_compute in Ei; discriminate Ei].
  exists imgp. split; [reflexivity|].
  assert (Himg : gcrash_image chain_ops (s_disk spX) (s_trace spX') imgp)
    by (apply (gcrash_at_image chain_ops _ _ 0 (Some 5)); exact Ei).
  assert (Ep : imgp = match imgX with Some x => x | None => s_disk spX end) by (rewrite Ei; reflexivity).
  split.
  { intros E. rewrite Ep in E. apply (f_equal (fun d : diskp => map f_tail (d_segs d))) in E.
    vm_compute in E. discriminate E. }
  split.
  { intros E. rewrite Ep in E. apply (f_equal (fun d : diskp => map f_tail (d_segs d))) in E.
    vm_compute in E. discriminate E. }
  split; [exact Himg|].
  destruct X_rel as [Hs HJ].
  destruct HJ as [HI HM Ho Hb|? ? _ _ _ _ E _|E _ _ _|E _];
    [|vm_compute in E; discriminate E|vm_compute in E; discriminate E|vm_compute in E; discriminate E].
  assert (Hroom : exists m, s_mem sfX = Some m /\ room m) by (apply ex_room; vm_compute; reflexivity).
  assert (Hbk : Forall byte kX) by (apply ex_bytes; vm_compute; reflexivity).
  assert (Hbv : Forall byte vX) by (apply ex_bytes; vm_compute; reflexivity).
  assert (Hk : nlen kX <= max_key_len) by (vm_compute; discriminate).
  assert (Hv : nlen vX <= max_val_len) by (vm_compute; discriminate).
  destruct (chain_crash_put exP 9 spX spX' sfX kX vX OOk imgp exP_ok Hs HI Hroom Hb Hbk Hbv Hk Hv spX'_eq Himg)
    as [_ H].
  destruct H as (imgf & sp2 & sf2 & _ & _ & E2 & Hs2 & HI2 & _ & Hans).
  exists sp2, sf2. split; [exact E2|]. split; [exact Hs2|]. split; [exact HI2|]. split; [exact Hans|].
  assert (E3 : sp2 = fst (db_open chain_ops exP 9 (closedp imgp))) by (rewrite E2; reflexivity).
  rewrite E3, Ep. split; vm_compute; reflexivity.
Qed.
End SessEx.

(* ================================================================================================ *)
Print Assumptions close_g.
Print Assumptions open_clean_g.
Print Assumptions sim_close.
Print Assumptions sim_close_disk.
Print Assumptions sim_open_clean.
Print Assumptions replay_fold_sim.
Print Assumptions recover_segment_sim.
Print Assumptions recover_sim.
Print Assumptions sim_open_recover.
Print Assumptions sim_open.
Print Assumptions db_open_clean_md.
Print Assumptions lstep_refines.
Print Assumptions lrun_refines.
Print Assumptions sim_lrun.
Print Assumptions chain_sessions_refine_spec.
Print Assumptions loks_of_flat.
Print Assumptions chain_sessions_from_empty.
Print Assumptions lsides_b_ok.
Print Assumptions gcrash_flat.
Print Assumptions sim_crash_at.
Print Assumptions sim_crash_image.
Print Assumptions chain_close_reopen_ok.
Print Assumptions chain_recover_image.
Print Assumptions chain_crash_recover_ok.
Print Assumptions chain_crash_put.
Print Assumptions chain_crash_delete.
Print Assumptions chain_crash_sync.
Print Assumptions chain_crash_compact_pick.
Print Assumptions chain_crash_compact_step.
Print Assumptions chain_crash_close.
Print Assumptions chain_crash_open_recover.
Print Assumptions phys_sessions_flat.
Print Assumptions phys_sessions_from_empty.
Print Assumptions SessEx.ex_lsides.
Print Assumptions SessEx.ex_run.
Print Assumptions SessEx.ex_phys.
Print Assumptions SessEx.ex_spec_outputs.
Print Assumptions SessEx.ex_final_orders.
Print Assumptions SessEx.X_rel.
Print Assumptions SessEx.ex_torn_put.
