(* PhysIterBackup.v -- the ITERATOR (C11) and BACKUP (C12) theorems for the database running on the
   PHYSICAL index ([phys_ops], Phys.v: bucket files addressed by byte offset, overflow-bucket allocation,
   free list).  Three layers, as in PhysCrash.v:

        s1 : st phys   --- gst_rel PR ---   sp : st pindex   --- st_rel ---   sf : st flat
        (PhysProofs.PR p c = PhysInv p /\ R_phys p c /\ PInv c;   st_rel = gst_rel idx_rel)

   NOTHING is assumed about the phys state beyond [gst_rel PR s1 sp], nothing about the chain state beyond
   [st_rel sp sf]; every other hypothesis (Inv, CInv, room, MetaOK, valid arguments) is about the FLAT
   ghost, exactly as in DBProofsIter.v / DBProofsBackup.v.  The side conditions of DBSimExact (sizes_ok,
   xok) are DERIVED (wxok_of_flat, ixoks_of_flat).  No axioms (Print Assumptions at the end: all "Closed
   under the global context").  Nothing asked for turned out to be false and nothing is partial.

   1. ITERATOR
      1.1 phys_fetch_bucket, phys_iter_fill, phys_iter_step   fetchItems / the refill loop / ItemIterator.Next
                                  on the phys database = the same call on a PR-related chain database (EQUAL
                                  results, for every iterator value);  phys_scan_eq, phys_outs_eq (n calls)
          C11_quiescent_scan_phys a scan of a phys database nobody modifies returns every live key exactly
                                  once with its value (Permutation of abs, NoDup keys, In <-> sget), then
                                  "done" for ever; it is the list db_items phys_ops returns
      1.2 wop / wexec ops P o s c one writer critical section (Put, Delete, ONE compaction step, the pick
                                  that starts a compaction, Sync) on ANY index; None = not enabled
          wexec_phys              phys vs chain: same enabledness, output, cursor; related states
          iact / irun / ixoks     executable interleavings of Next calls and writer critical sections
          phys_iter_interleaved   for ANY interleaving: the phys database returns, call by call, exactly
                                  what the chain database returns and ends PR-related (same cursor, same
                                  iterator); side condition [ixoks] (DBSimExact's xok) along the chain run
          phys_iter_interleaved_flat   the same from flat-side conditions only ([ok] + [isides])
      1.3 wside, pw_step, pscan   the run "since the iterator was created" on the PHYS database: Next calls
                                  are [dbiter_step phys_ops s1], writer steps are [wexec phys_ops]; sp, sf
                                  are ghosts executing the same critical sections (pw_step_of_phys: the
                                  ghosts can always follow, so the lockstep is no restriction)
          pscan_cscan             forgetting the phys layer gives a DBProofsIter.cscan run with the SAME
                                  iterator, returned items and histories, and gst_rel PR s1 sp at the end
          pscan_phys_ok           PhysInv of the in-memory index and of every stored index, all along
          C11_truthful_at_return_phys, C11_truthful_phys, C11_complete_phys,
          C11_complete_untouched_phys, C11_next_total_phys
                                  the statements of DBProofsIter.v with the scan running on the phys database
   2. BACKUP
          bop / bexec / bside     Put (ANY key / value lengths: rejected Puts included), Delete, Sync: the
                                  writers that can run during a Backup (it holds maintenanceMu); sim_put_any
          bexec_three             one writer operation on the three layers: equal outputs, related states
          copy_seg_three, backup_plan_three, backup_disk_three    plan, copies and directory do not
                                  depend on the index
          pbstate, pbstep, pbsteps   schedules: writer operations of the source / copy of the next planned
                                  segment FROM THE PHYS DISK;  pbsteps_flat (projection to DBProofsBackup.bsteps)
          pbstep_source           a copy step leaves the three source states untouched (memory, disk, trace);
                                  a writer step returns the same output on phys, chain and flat
          backup_open_phys        the recovering Open of a backup directory with the phys index
          C12_schedule_phys       EVERY schedule: (i) the directory is gdisk_rel PR / disk_rel related to the
                                  chain / flat ones, stores no index (phys_disk_ok), DiskOK, lock file, log =
                                  log at the snapshot; (ii) db_open phys_ops on it = OOpened true (recovery),
                                  states related on the three layers, phys_open_ok (the REBUILT physical index
                                  satisfies PhysInv), answers1 .. (abs at the snapshot), Get / Has / Count of
                                  the opened backup EQUAL to those of the source at the snapshot instant;
                                  (iii) the source is a good open database related to its ghosts, reached by
                                  the writers' steps alone
          backup_quiescent_phys   db_backup itself (nobody else runs): the same directory on the three layers
   3. Module PhysIBEx (vm_compute, on PhysCrashEx.s1X: 35 colliding keys, 31 slots in the main bucket, 4 in
      an overflow bucket):  ex_scan_phys (the scan returns keys [1]..[35] once each, then done),
      ex_backup_phys (six segments; copy 2, Put kX, copy 4 -- the last copy is CopyN 577 of the file the Put
      appended to; the opened backup has 35 keys, not kX, and its rebuilt index uses an overflow bucket),
      ex_pscan_phys / ex_pscan_complete (the hypotheses of the concurrent theorems are satisfiable),
      ex_irun (Next / Put / Sync / compaction step / pick / Delete interleaved, computed on phys and chain).

   DEVIATIONS
     - The concurrent C11 theorems quantify over [pscan] (three states) instead of [cscan] (two); the extra
       premise of a writer step is only that the phys database executed it ([wexec phys_ops .. = Some ..]).
     - C12_schedule_phys: the schedule runs on the three layers in lockstep; the plan is taken from the
       memory of the PHYS state and the copies from the PHYS disk.  Compaction steps are excluded from the
       schedules for the reason given in DBProofsBackup.v (Backup holds maintenanceMu). *)
From Coq Require Import ZArith Lia ZifyN ZifyNat ZifyBool Permutation List.
From Pogreb Require Import Base BaseLemmas Crc Bytes Record RecordProofs Flat Index Spec DB DBInv
  DBLemmas DBProofsOps DBMeta DBProofsCompact DBProofsRecovery DBProofsCrash DBSim DBRun DBSimExact
  Bucket Phys PhysProofs PhysDB DBSimSessions PhysCrash DBProofsIter DBProofsBackup.
Import ListNotations.
Ltac Zify.zify_post_hook ::= Z.div_mod_to_equations.

Local Notation st1 := (@DB.st phys).
Local Notation stp := (@DB.st pindex).
Local Notation stf := (@DB.st flat).
Local Notation mem1 := (@DB.mem phys).
Local Notation memp := (@DB.mem pindex).
Local Notation memf := (@DB.mem flat).
Local Notation disk1 := (@DB.disk phys).
Local Notation diskp := (@DB.disk pindex).
Local Notation diskf := (@DB.disk flat).

(* ================================================================================================ *)
(** * 1. The iterator on the physical index *)

(** ** 1.1 One call, a quiescent scan *)

Theorem phys_fetch_bucket (s1 : st1) (sp : stp) n :
  gst_rel PR s1 sp -> fetch_bucket phys_ops s1 n = fetch_bucket chain_ops sp n.
Proof. exact (fetch_bucket_x phys_ops chain_ops PR phys_exact_sim s1 sp n). Qed.

Theorem phys_iter_fill fuel (s1 : st1) (sp : stp) it :
  gst_rel PR s1 sp -> dbiter_fill phys_ops fuel s1 it = dbiter_fill chain_ops fuel sp it.
Proof. intros H. exact (dbiter_fill_x phys_ops chain_ops PR phys_exact_sim fuel s1 sp H it). Qed.

(* ItemIterator.Next on the phys database = Next on the chain database, whatever the iterator *)
Theorem phys_iter_step (s1 : st1) (sp : stp) it :
  gst_rel PR s1 sp -> dbiter_step phys_ops s1 it = dbiter_step chain_ops sp it.
Proof. exact (xsim_iter_step phys_ops chain_ops PR phys_exact_sim s1 sp it). Qed.

Theorem phys_scan_eq fuel (s1 : st1) (sp : stp) : gst_rel PR s1 sp -> forall it,
  scan phys_ops fuel s1 it = scan chain_ops fuel sp it.
Proof.
  intros H. induction fuel as [|f IH]; intros it; [reflexivity|].
  cbn [scan]. rewrite (phys_iter_step s1 sp it H).
  destruct (dbiter_step chain_ops sp it) as [[it' [kv|]]|]; [|reflexivity|reflexivity].
  rewrite (IH it'). reflexivity.
Qed.

Theorem phys_outs_eq n (s1 : st1) (sp : stp) : gst_rel PR s1 sp -> forall it,
  outs phys_ops n s1 it = outs chain_ops n sp it.
Proof.
  intros H. induction n as [|n IH]; intros it; [reflexivity|].
  cbn [outs]. rewrite (phys_iter_step s1 sp it H).
  destruct (dbiter_step chain_ops sp it) as [[it' r]|]; [|reflexivity].
  rewrite (IH it'). reflexivity.
Qed.

(* C11, quiescent part, on the PHYS database: a scan of a database nobody modifies returns every live
   key exactly once with its current value, then "done" for ever; it is the list Items returns *)
Theorem C11_quiescent_scan_phys P (s1 : st1) (sp : stp) (sf : stf) fuel :
  gst_rel PR s1 sp -> st_rel sp sf -> Inv P sf -> s_mem sf <> None ->
  (length (abs (s_disk sf)) < fuel)%nat ->
  exists l itf,
    scan phys_ops fuel s1 dbiter0 = (l, itf) /\
    Permutation l (abs (s_disk sf)) /\ NoDup (map fst l) /\
    (forall k v, In (k, v) l <-> sget (abs (s_disk sf)) k = Some v) /\
    dbiter_step phys_ops s1 itf = Some (itf, None) /\
    (forall n, outs phys_ops (length l + n) s1 dbiter0 = map Some l ++ repeat None n) /\
    db_items phys_ops s1 = OItems l /\
    (* the same calls on the chain database return the same *)
    scan chain_ops fuel sp dbiter0 = (l, itf).
Proof.
  intros H1 Hs HI Hopen Hfuel.
  destruct (C11_quiescent_scan P sp sf fuel Hs HI Hopen Hfuel) as (l & itf & A & B & C & D & E & F & G).
  exists l, itf.
  split; [rewrite (phys_scan_eq fuel s1 sp H1 dbiter0); exact A|].
  split; [exact B|]. split; [exact C|]. split; [exact D|].
  split; [rewrite (phys_iter_step s1 sp itf H1); exact E|].
  split; [intros n; rewrite (phys_outs_eq _ s1 sp H1 dbiter0); exact (F n)|].
  split; [|exact A].
  rewrite (xsim_items phys_ops chain_ops PR phys_exact_sim s1 sp H1). exact G.
Qed.

(* ---------------------------------------------------------------------------------------------- *)
(** ** 1.2 Writer critical sections, on any index; phys against chain *)

(* the critical sections that can run between two Next calls (iterator.go takes db.mu.RLock per call):
   Put, Delete, ONE step of the compaction in progress, the pick that starts a compaction, Sync *)
Inductive wop := WPut (k : key) (v : val) | WDel (k : key) | WCompact | WPick | WSync.

Definition wlab (o : wop) : wlabel :=
  match o with WPut k v => WLput k v | WDel k => WLdel k | _ => WLnone end.

(* new state, new cursor, output; None: the step is not enabled (no compaction step left / failed,
   nothing to pick) *)
Definition wexec {I} (ops : idx_ops I) (P : params) (o : wop) (s : @DB.st I) (c : cursor) :
    option (@DB.st I * cursor * out) :=
  match o with
  | WPut k v => Some (fst (db_put ops P k v s), c, snd (db_put ops P k v s))
  | WDel k => Some (fst (db_delete ops P k s), c, snd (db_delete ops P k s))
  | WCompact => match compact_step ops P s c with CMore s' c' => Some (s', c', OOk) | _ => None end
  | WPick => match compact_pick ops P s with Some (s', c') => Some (s', c', OOk) | None => None end
  | WSync => Some (fst (db_sync ops s), c, snd (db_sync ops s))
  end.

(* the index-independent side condition of DBSimExact (no record offset is 0 mod 2^32) *)
Definition wxok {I} (s : @DB.st I) (o : wop) : Prop :=
  match o with WPut _ _ => sizes_ok s | WCompact => xok s | _ => True end.

Definition wres_rel (a : option (st1 * cursor * out)) (b : option (stp * cursor * out)) : Prop :=
  match a, b with
  | None, None => True
  | Some (s1', c1, o1), Some (sp', cp, op) => gst_rel PR s1' sp' /\ c1 = cp /\ o1 = op
  | _, _ => False
  end.

(* every writer critical section: same enabledness, same output, same cursor, related states *)
Theorem wexec_phys P o (s1 : st1) (sp : stp) c :
  gst_rel PR s1 sp -> wxok sp o -> wres_rel (wexec phys_ops P o s1 c) (wexec chain_ops P o sp c).
Proof.
  intros H Hx. destruct o as [k v|k| | |]; cbn [wexec wxok wres_rel] in *.
  - destruct (xsim_put phys_ops chain_ops PR phys_exact_sim P k v s1 sp H Hx) as [A B]. auto.
  - destruct (xsim_delete phys_ops chain_ops PR phys_exact_sim P k s1 sp H) as [A B]. auto.
  - pose proof (xsim_compact_step phys_ops chain_ops PR phys_exact_sim P s1 sp c H Hx) as X.
    destruct (compact_step phys_ops P s1 c) as [|s1' c1|w1];
      destruct (compact_step chain_ops P sp c) as [|sp' cp|wp]; inversion X; subst; cbn [wres_rel]; auto.
  - pose proof (xsim_compact_pick phys_ops chain_ops PR phys_exact_sim P s1 sp H) as X.
    destruct (compact_pick phys_ops P s1) as [[s1' c1]|];
      destruct (compact_pick chain_ops P sp) as [[sp' cp]|]; unfold pick_res_rel in X; cbn [wres_rel];
      try contradiction; [|exact Logic.I].
    destruct X as [X ->]. auto.
  - destruct (xsim_sync phys_ops chain_ops PR phys_exact_sim s1 sp H) as [A B]. auto.
Qed.

(* ---- executable interleavings of Next calls and writer critical sections ---- *)
Inductive iact := ANext | AWrite (o : wop).
(* what a step returns; RStuck: Next left the domain of the model / the writer step is not enabled
   (the state is then left as it is) *)
Inductive ires := RNext (r : option (key * val)) | RWrite (o : out) | RStuck.

Fixpoint irun {I} (ops : idx_ops I) (P : params) (l : list iact) (s : @DB.st I) (c : cursor) (it : dbiter) :
    list ires * (@DB.st I * cursor * dbiter) :=
  match l with
  | [] => ([], (s, c, it))
  | ANext :: l' =>
      match dbiter_step ops s it with
      | Some (it', r) => let x := irun ops P l' s c it' in (RNext r :: fst x, snd x)
      | None => let x := irun ops P l' s c it in (RStuck :: fst x, snd x)
      end
  | AWrite o :: l' =>
      match wexec ops P o s c with
      | Some (s', c', r) => let x := irun ops P l' s' c' it in (RWrite r :: fst x, snd x)
      | None => let x := irun ops P l' s c it in (RStuck :: fst x, snd x)
      end
  end.

(* the side condition before every writer step of the run (it does not mention the iterator) *)
Fixpoint ixoks {I} (ops : idx_ops I) (P : params) (l : list iact) (s : @DB.st I) (c : cursor) : Prop :=
  match l with
  | [] => True
  | ANext :: l' => ixoks ops P l' s c
  | AWrite o :: l' =>
      wxok s o /\
      match wexec ops P o s c with
      | Some (s', c', _) => ixoks ops P l' s' c'
      | None => ixoks ops P l' s c
      end
  end.

Definition ifin_rel (a : st1 * cursor * dbiter) (b : stp * cursor * dbiter) : Prop :=
  gst_rel PR (fst (fst a)) (fst (fst b)) /\ snd (fst a) = snd (fst b) /\ snd a = snd b.

(* ANY interleaving of Next calls with Put / Delete / compaction steps / pick / Sync: the phys database
   returns, call by call, exactly what the chain database returns (items, "done", outputs of the
   writers), and ends in a related state with the same cursor and the same iterator *)
Theorem phys_iter_interleaved P (l : list iact) : forall (s1 : st1) (sp : stp) c it,
  gst_rel PR s1 sp -> ixoks chain_ops P l sp c ->
  fst (irun phys_ops P l s1 c it) = fst (irun chain_ops P l sp c it) /\
  ifin_rel (snd (irun phys_ops P l s1 c it)) (snd (irun chain_ops P l sp c it)).
Proof.
  induction l as [|a l IH]; intros s1 sp c it H Hx.
  - cbn [irun fst snd]. split; [reflexivity|]. split; [exact H|]. split; reflexivity.
  - destruct a as [|o].
    + cbn [irun ixoks] in *. rewrite (phys_iter_step s1 sp it H).
      destruct (dbiter_step chain_ops sp it) as [[it' r]|]; cbn [fst snd].
      * destruct (IH s1 sp c it' H Hx) as [A B]. rewrite A. split; [reflexivity|exact B].
      * destruct (IH s1 sp c it H Hx) as [A B]. rewrite A. split; [reflexivity|exact B].
    + cbn [irun ixoks] in *. destruct Hx as [Hx Hn].
      pose proof (wexec_phys P o s1 sp c H Hx) as X.
      destruct (wexec phys_ops P o s1 c) as [[[s1' c1] o1]|];
        destruct (wexec chain_ops P o sp c) as [[[sp' cp] op]|]; cbn [wres_rel] in X; try contradiction.
      * destruct X as (H' & -> & ->). cbn [fst snd].
        destruct (IH s1' sp' cp it H' Hn) as [A B]. rewrite A. split; [reflexivity|exact B].
      * cbn [fst snd]. destruct (IH s1 sp c it H Hn) as [A B]. rewrite A. split; [reflexivity|exact B].
Qed.

(* ---------------------------------------------------------------------------------------------- *)
(** ** 1.3 The concurrent scan on the phys database (three layers) *)

(* the side conditions of DBProofsIter.wr_step: all of them about the FLAT ghost state *)
Definition wside (sf : stf) (o : wop) : Prop :=
  match o with
  | WPut k v => roomy sf /\ Forall byte k /\ Forall byte v /\ nlen k <= max_key_len /\ nlen v <= max_val_len
  | WDel k => roomy sf /\ Forall byte k
  | WCompact => roomy sf
  | WPick => MetaOK sf
  | WSync => True
  end.

(* one writer critical section executed on the phys database [s1]; [sp], [sf] are the chain and flat
   ghosts that execute the same critical section *)
Inductive pw_step (P : params) (o : wop) :
    st1 -> stp -> stf -> cursor -> st1 -> stp -> stf -> cursor -> Prop :=
| pw_intro s1 sp sf c s1' sp' sf' c' o1 op of :
    wside sf o ->
    wexec phys_ops P o s1 c = Some (s1', c', o1) ->
    wexec chain_ops P o sp c = Some (sp', c', op) ->
    wexec flat_ops P o sf c = Some (sf', c', of) ->
    pw_step P o s1 sp sf c s1' sp' sf' c'.

(* the chain / flat part of a step is a writer step of DBProofsIter *)
Lemma wexec_wr_step P o (sp : stp) (sf : stf) c sp' sf' c' op of :
  wside sf o -> wexec chain_ops P o sp c = Some (sp', c', op) -> wexec flat_ops P o sf c = Some (sf', c', of) ->
  wr_step P sp sf c (wlab o) sp' sf' c'.
Proof.
  intros Hsd Ep Ef.
  destruct o as [k v|k| | |]; cbn [wexec wside wlab] in *.
  - injection Ep as <- <- _. injection Ef as <- _. destruct Hsd as (A & B & C & D & E).
    apply w_put; assumption.
  - injection Ep as <- <- _. injection Ef as <- _. destruct Hsd as (A & B). apply w_del; assumption.
  - destruct (compact_step chain_ops P sp c) as [|sp2 c2|w] eqn:Ec; try discriminate Ep.
    destruct (compact_step flat_ops P sf c) as [|sf2 c3|w] eqn:Ec'; try discriminate Ef.
    injection Ep as <- <- _. injection Ef as <- -> _. apply w_compact; assumption.
  - destruct (compact_pick chain_ops P sp) as [[sp2 c2]|] eqn:Ec; try discriminate Ep.
    destruct (compact_pick flat_ops P sf) as [[sf2 c3]|] eqn:Ec'; try discriminate Ef.
    injection Ep as <- <- _. injection Ef as <- -> _. apply w_pick; assumption.
  - injection Ep as <- <- _. injection Ef as <- _. apply w_sync.
Qed.

Lemma pw_wr_step P o s1 sp sf c s1' sp' sf' c' :
  pw_step P o s1 sp sf c s1' sp' sf' c' -> wr_step P sp sf c (wlab o) sp' sf' c'.
Proof.
  intros H. destruct H as [s1 sp sf c s1' sp' sf' c' o1 op of Hsd E1 Ep Ef].
  exact (wexec_wr_step P o sp sf c sp' sf' c' op of Hsd Ep Ef).
Qed.

(* a critical section enabled on the chain database is enabled on its flat ghost, with the same cursor *)
Lemma wexec_flat_of_chain P o (sp : stp) (sf : stf) c sp' c' op :
  ok P sp sf c -> wexec chain_ops P o sp c = Some (sp', c', op) ->
  exists sf' of, wexec flat_ops P o sf c = Some (sf', c', of).
Proof.
  intros (Hs & HI & HC) Ep.
  destruct o as [k v|k| | |]; cbn [wexec] in *.
  - injection Ep as _ <- _. eexists. eexists. reflexivity.
  - injection Ep as _ <- _. eexists. eexists. reflexivity.
  - pose proof (sim_compact_step P sp sf c Hs HI) as Y.
    destruct (compact_step chain_ops P sp c) as [|sp2 c2|w]; try discriminate Ep.
    injection Ep as _ -> _. inversion Y as [|sp0 sf' c0 Hs' Q1 Q2|]; subst.
    eexists. eexists. reflexivity.
  - pose proof (sim_compact_pick P sp sf Hs) as Y.
    destruct (compact_pick chain_ops P sp) as [[sp2 c2]|]; try discriminate Ep.
    injection Ep as _ -> _.
    destruct (compact_pick flat_ops P sf) as [[sf' cf]|]; [|contradiction].
    destruct Y as [_ ->]. eexists. eexists. reflexivity.
  - injection Ep as _ <- _. eexists. eexists. reflexivity.
Qed.

Lemma ok_roomy_xok P sp sf c : ok P sp sf c -> roomy sf -> xok sp.
Proof. intros (Hs & HI & _) Hr. exact (xok_chain_of_flat P sp sf Hs HI Hr). Qed.

(* the side condition of DBSimExact follows from the flat-side conditions *)
Lemma wxok_of_flat P sp sf c o : ok P sp sf c -> wside sf o -> wxok sp o.
Proof.
  intros Hok Hsd. destruct o as [k v|k| | |]; cbn [wside wxok] in *; try exact Logic.I.
  - exact (proj1 (ok_roomy_xok P sp sf c Hok (proj1 Hsd))).
  - exact (ok_roomy_xok P sp sf c Hok Hsd).
Qed.

(* phys and chain part of a step: related results, same output *)
Lemma pw_step_rel P o s1 sp sf c s1' sp' sf' c' :
  gst_rel PR s1 sp -> ok P sp sf c -> pw_step P o s1 sp sf c s1' sp' sf' c' -> gst_rel PR s1' sp'.
Proof.
  intros H1 Hok H. destruct H as [s1 sp sf c s1' sp' sf' c' o1 op of Hsd E1 Ep Ef].
  pose proof (wexec_phys P o s1 sp c H1 (wxok_of_flat P sp sf c o Hok Hsd)) as X.
  rewrite E1, Ep in X. cbn [wres_rel] in X. exact (proj1 X).
Qed.

(* The lockstep is no restriction: whatever critical section the PHYS database executes (under the
   flat-side conditions), the ghosts can execute it too, with the same cursor and the same output. *)
Theorem pw_step_of_phys P o (s1 : st1) (sp : stp) (sf : stf) c s1' c' o1 :
  gst_rel PR s1 sp -> ok P sp sf c -> wside sf o ->
  wexec phys_ops P o s1 c = Some (s1', c', o1) ->
  exists sp' sf' of,
    wexec chain_ops P o sp c = Some (sp', c', o1) /\ wexec flat_ops P o sf c = Some (sf', c', of) /\
    pw_step P o s1 sp sf c s1' sp' sf' c'.
Proof.
  intros H1 Hok Hsd E1.
  pose proof (wexec_phys P o s1 sp c H1 (wxok_of_flat P sp sf c o Hok Hsd)) as X. rewrite E1 in X.
  destruct (wexec chain_ops P o sp c) as [[[sp' cp] op]|] eqn:Ep; cbn [wres_rel] in X; [|contradiction].
  destruct X as (H1' & <- & <-).
  pose proof (wexec_flat_of_chain P o sp sf c sp' c' o1 Hok Ep) as Ef.
  destruct Ef as (sf' & of & Ef). exists sp', sf', of.
  split; [reflexivity|]. split; [exact Ef|]. exact (pw_intro P o _ _ _ _ _ _ _ _ _ _ _ Hsd E1 Ep Ef).
Qed.

(* ---- the interleavings of 1.2 under flat-side conditions only ---- *)
(* the conditions of [wside] before every writer step of the chain run and its flat ghost *)
Fixpoint isides (P : params) (l : list iact) (sp : stp) (sf : stf) (c : cursor) : Prop :=
  match l with
  | [] => True
  | ANext :: l' => isides P l' sp sf c
  | AWrite o :: l' =>
      wside sf o /\
      match wexec chain_ops P o sp c, wexec flat_ops P o sf c with
      | Some (sp', c', _), Some (sf', _, _) => isides P l' sp' sf' c'
      | _, _ => isides P l' sp sf c
      end
  end.

Lemma ixoks_of_flat P (HP : params_ok P) (l : list iact) : forall sp sf c,
  ok P sp sf c -> isides P l sp sf c -> ixoks chain_ops P l sp c.
Proof.
  induction l as [|a l IH]; intros sp sf c Hok Hsd; [exact Logic.I|].
  destruct a as [|o]; cbn [isides ixoks] in *; [exact (IH sp sf c Hok Hsd)|].
  destruct Hsd as [Hw Hn]. split; [exact (wxok_of_flat P sp sf c o Hok Hw)|].
  destruct (wexec chain_ops P o sp c) as [[[sp' c'] op]|] eqn:Ep; [|exact (IH sp sf c Hok Hn)].
  destruct (wexec_flat_of_chain P o sp sf c sp' c' op Hok Ep) as (sf' & of & Ef). rewrite Ef in Hn.
  pose proof (wexec_wr_step P o sp sf c sp' sf' c' op of Hw Ep Ef) as W.
  exact (IH sp' sf' c' (proj1 (wr_step_ok P HP _ _ _ _ _ _ _ Hok W)) Hn).
Qed.

(* ANY interleaving, hypotheses on the flat layer only *)
Corollary phys_iter_interleaved_flat P (HP : params_ok P) (l : list iact) (s1 : st1) (sp : stp) (sf : stf) c it :
  gst_rel PR s1 sp -> ok P sp sf c -> isides P l sp sf c ->
  fst (irun phys_ops P l s1 c it) = fst (irun chain_ops P l sp c it) /\
  ifin_rel (snd (irun phys_ops P l s1 c it)) (snd (irun chain_ops P l sp c it)).
Proof.
  intros H1 Hok Hsd. exact (phys_iter_interleaved P l s1 sp c it H1 (ixoks_of_flat P HP l sp sf c Hok Hsd)).
Qed.

(* The run since the iterator was created, ON THE PHYS DATABASE [s1]:  Next calls (dbiter_step phys_ops)
   and writer critical sections (wexec phys_ops) in any order.  [sp], [sf], ret, h, hn, ws as in
   DBProofsIter.cscan: ghosts, items returned, flat states gone through, flat states of the Next calls,
   labels of the writer steps. *)
Inductive pscan (P : params) : st1 -> stp -> stf -> cursor -> dbiter -> list (key * val) ->
                               list stf -> list stf -> list wlabel -> Prop :=
| ps_start s1 sp sf c : gst_rel PR s1 sp -> ok P sp sf c -> pscan P s1 sp sf c dbiter0 [] [sf] [] []
| ps_next s1 sp sf c it ret h hn ws it' r :
    pscan P s1 sp sf c it ret h hn ws -> dbiter_step phys_ops s1 it = Some (it', r) ->
    pscan P s1 sp sf c it' (ret ++ olist r) h (hn ++ [sf]) ws
| ps_write s1 sp sf c it ret h hn ws o s1' sp' sf' c' :
    pscan P s1 sp sf c it ret h hn ws -> pw_step P o s1 sp sf c s1' sp' sf' c' ->
    pscan P s1' sp' sf' c' it ret (h ++ [sf']) hn (ws ++ [wlab o]).

(* forgetting the phys layer gives a run of DBProofsIter: same iterator, same items, same histories *)
Theorem pscan_cscan P (HP : params_ok P) s1 sp sf c it ret h hn ws :
  pscan P s1 sp sf c it ret h hn ws -> gst_rel PR s1 sp /\ cscan P sp sf c it ret h hn ws.
Proof.
  induction 1 as [s1 sp sf c H1 Hok|s1 sp sf c it ret h hn ws it' r H IH E
                 |s1 sp sf c it ret h hn ws o s1' sp' sf' c' H IH Hw].
  - split; [exact H1|]. apply cs_start. exact Hok.
  - destruct IH as [H1 Hc]. split; [exact H1|].
    rewrite (phys_iter_step s1 sp it H1) in E. exact (cs_next P _ _ _ _ _ _ _ _ _ _ Hc E).
  - destruct IH as [H1 Hc]. destruct (cscan_ok P HP _ _ _ _ _ _ _ _ Hc) as (Hok & _).
    split; [exact (pw_step_rel P o _ _ _ _ _ _ _ _ H1 Hok Hw)|].
    exact (cs_write P _ _ _ _ _ _ _ _ _ _ _ _ Hc (pw_wr_step P o _ _ _ _ _ _ _ _ Hw)).
Qed.

(* in every state of such a run: the database is open and the physical invariant holds for the
   in-memory index and for every index stored on disk *)
Corollary pscan_phys_ok P (HP : params_ok P) s1 sp sf c it ret h hn ws :
  pscan P s1 sp sf c it ret h hn ws -> phys_open_ok s1.
Proof.
  intros H. destruct (pscan_cscan P HP _ _ _ _ _ _ _ _ _ H) as [H1 Hc].
  destruct (cscan_ok P HP _ _ _ _ _ _ _ _ Hc) as ((Hs & _ & (m & Em & _)) & _).
  apply (PR_open_ok s1 sp sf H1 Hs). congruence.
Qed.

(* C11 (a) on the phys database: every pair a Next call returns was in the contents at the instant of
   a Next call not later than the one that returns it *)
Theorem C11_truthful_at_return_phys P (HP : params_ok P) s1 sp sf c it ret h hn ws it' k v :
  pscan P s1 sp sf c it ret h hn ws -> dbiter_step phys_ops s1 it = Some (it', Some (k, v)) ->
  exists sf_t, In sf_t (hn ++ [sf]) /\ sget (abs (s_disk sf_t)) k = Some v.
Proof.
  intros H E. destruct (pscan_cscan P HP _ _ _ _ _ _ _ _ _ H) as [H1 Hc].
  rewrite (phys_iter_step s1 sp it H1) in E.
  exact (C11_truthful_at_return P HP sp sf c it ret h hn ws it' k v Hc E).
Qed.

Theorem C11_truthful_phys P (HP : params_ok P) s1 sp sf c it ret h hn ws k v :
  pscan P s1 sp sf c it ret h hn ws -> In (k, v) ret ->
  exists sf_t, In sf_t hn /\ In sf_t h /\ sget (abs (s_disk sf_t)) k = Some v.
Proof.
  intros H Hin. destruct (pscan_cscan P HP _ _ _ _ _ _ _ _ _ H) as [_ Hc].
  exact (C11_truthful P HP sp sf c it ret h hn ws k v Hc Hin).
Qed.

(* C11 (b) on the phys database *)
Theorem C11_complete_phys P (HP : params_ok P) s1 sp sf c it ret h hn ws it' k v :
  pscan P s1 sp sf c it ret h hn ws -> dbiter_step phys_ops s1 it = Some (it', None) ->
  (forall sf_t, In sf_t h -> sget (abs (s_disk sf_t)) k = Some v) ->
  In (k, v) ret.
Proof.
  intros H E Hall. destruct (pscan_cscan P HP _ _ _ _ _ _ _ _ _ H) as [H1 Hc].
  rewrite (phys_iter_step s1 sp it H1) in E.
  exact (C11_complete P HP sp sf c it ret h hn ws it' k v Hc E Hall).
Qed.

(* a live key that no Put and no Delete of the run names has been returned, with its value, when a
   Next call of the phys database says "done" -- whatever happened to other keys (bucket splits that
   allocate / free overflow buckets included) and whatever compaction did to the key's record *)
Theorem C11_complete_untouched_phys P (HP : params_ok P) s1 sp sf c it ret h hn ws it' k v :
  pscan P s1 sp sf c it ret h hn ws -> dbiter_step phys_ops s1 it = Some (it', None) ->
  sget (abs (s_disk sf)) k = Some v -> (forall lab, In lab ws -> ~ wl_touches lab k) ->
  In (k, v) ret.
Proof.
  intros H E Hg Hun. destruct (pscan_cscan P HP _ _ _ _ _ _ _ _ _ H) as [H1 Hc].
  rewrite (phys_iter_step s1 sp it H1) in E.
  exact (C11_complete_untouched P HP sp sf c it ret h hn ws it' k v Hc E Hg Hun).
Qed.

(* in such a run a Next call of the phys database never leaves the domain of the model *)
Theorem C11_next_total_phys P (HP : params_ok P) s1 sp sf c it ret h hn ws it0 :
  pscan P s1 sp sf c it ret h hn ws -> exists it' r, dbiter_step phys_ops s1 it0 = Some (it', r).
Proof.
  intros H. destruct (pscan_cscan P HP _ _ _ _ _ _ _ _ _ H) as [H1 Hc].
  destruct (cscan_ok P HP _ _ _ _ _ _ _ _ Hc) as (Hok & _).
  rewrite (phys_iter_step s1 sp it0 H1). exact (C11_next_total P sp sf c it0 Hok).
Qed.

(* ================================================================================================ *)
(** * 2. Backup on the physical index *)

(* the writer operations that can run during a Backup (Backup holds maintenanceMu: no compaction) *)
Inductive bop := BPut (k : key) (v : val) | BDel (k : key) | BSync.

Definition bexec {I} (ops : idx_ops I) (P : params) (o : bop) (s : @DB.st I) : @DB.st I * out :=
  match o with
  | BPut k v => db_put ops P k v s
  | BDel k => db_delete ops P k s
  | BSync => db_sync ops s
  end.

(* the premises of DBProofsBackup.wstep (ANY key / value lengths: a rejected Put is a step too) *)
Definition bside (sf : stf) (o : bop) : Prop :=
  match o with
  | BPut k v => Forall byte k /\ Forall byte v /\ roomy sf
  | BDel k => Forall byte k /\ roomy sf
  | BSync => True
  end.

(* Put with a key / value of any length: chain against flat *)
Lemma sim_put_any P (sp : stp) (sf : stf) k v :
  st_rel sp sf -> Inv P sf -> roomy sf -> Forall byte k -> Forall byte v ->
  so_rel idx_rel (db_put chain_ops P k v sp) (db_put flat_ops P k v sf).
Proof.
  intros Hs HI Hr Hbk Hbv.
  destruct (N.ltb_spec max_key_len (nlen k)) as [Hk|Hk];
    [|destruct (N.ltb_spec max_val_len (nlen v)) as [Hv|Hv]].
  - unfold db_put. destruct (st_rel_mem_cases _ _ _ Hs) as [[E1 E2]|(mp & mf & E1 & E2 & Hm)]; rewrite E1, E2;
      [split; [reflexivity|exact Hs]|].
    rewrite (proj2 (N.ltb_lt _ _) Hk). split; [reflexivity|exact Hs].
  - unfold db_put. destruct (st_rel_mem_cases _ _ _ Hs) as [[E1 E2]|(mp & mf & E1 & E2 & Hm)]; rewrite E1, E2;
      [split; [reflexivity|exact Hs]|].
    rewrite (proj2 (N.ltb_lt _ _) Hv). destruct (max_key_len <? nlen k); split; (reflexivity || exact Hs).
  - apply sim_put_so; assumption.
Qed.

(* one writer operation on the three layers *)
Lemma bexec_three P o (s1 : st1) (sp : stp) (sf : stf) :
  params_ok P -> gst_rel PR s1 sp -> st_rel sp sf -> Inv P sf -> s_mem sf <> None -> bside sf o ->
  snd (bexec phys_ops P o s1) = snd (bexec chain_ops P o sp) /\
  snd (bexec chain_ops P o sp) = snd (bexec flat_ops P o sf) /\
  gst_rel PR (fst (bexec phys_ops P o s1)) (fst (bexec chain_ops P o sp)) /\
  st_rel (fst (bexec chain_ops P o sp)) (fst (bexec flat_ops P o sf)) /\
  DBProofsBackup.wstep P sf (fst (bexec flat_ops P o sf)).
Proof.
  intros HP H1 Hs HI Hm Hsd. destruct o as [k v|k|]; cbn [bexec bside] in *.
  - destruct Hsd as (Hbk & Hbv & Hr).
    destruct (xsim_put phys_ops chain_ops PR phys_exact_sim P k v s1 sp H1
                (proj1 (xok_chain_of_flat P sp sf Hs HI Hr))) as [A B].
    destruct (sim_put_any P sp sf k v Hs HI Hr Hbk Hbv) as [C D].
    split; [exact A|]. split; [exact C|]. split; [exact B|]. split; [exact D|].
    apply ws_put; assumption.
  - destruct Hsd as (Hbk & Hr).
    destruct (xsim_delete phys_ops chain_ops PR phys_exact_sim P k s1 sp H1) as [A B].
    destruct (sim_delete_so P sp sf k Hs HI) as [C D].
    split; [exact A|]. split; [exact C|]. split; [exact B|]. split; [exact D|].
    apply ws_del; assumption.
  - destruct (xsim_sync phys_ops chain_ops PR phys_exact_sim s1 sp H1) as [A B].
    destruct (sync_rel idx_rel chain_ops flat_ops idx_rel_empty sp sf Hs) as [C D].
    split; [exact A|]. split; [exact C|]. split; [exact B|]. split; [exact D|].
    apply ws_sync.
Qed.

(* a copy step reads the same bytes from the three disks *)
Lemma copy_seg_three (d1 : disk1) (dp : diskp) (df : diskf) p :
  gdisk_rel PR d1 dp -> disk_rel dp df -> copy_seg d1 p = copy_seg dp p /\ copy_seg dp p = copy_seg df p.
Proof. intros H1 Hd. split; [exact (copy_seg_x PR d1 dp p H1)|exact (copy_seg_x idx_rel dp df p Hd)]. Qed.

Lemma backup_plan_three (m1 : mem1) (mp : memp) (mf : memf) :
  gmem_rel PR m1 mp -> mem_rel mp mf -> backup_plan m1 = backup_plan mp /\ backup_plan mp = backup_plan mf.
Proof. intros H1 Hm. split; [exact (backup_plan_x PR m1 mp H1)|exact (backup_plan_x idx_rel mp mf Hm)]. Qed.

(* the backup directories of the three layers *)
Lemma backup_disk_three copies :
  gdisk_rel PR (@backup_disk phys copies) (@backup_disk pindex copies) /\
  disk_rel (@backup_disk pindex copies) (@backup_disk flat copies).
Proof. split; [exact (backup_disk_x PR copies)|exact (backup_disk_x idx_rel copies)]. Qed.

(* Schedules: source state of the phys database and its two ghosts, planned entries not copied yet,
   copies made so far.  A step is a writer operation of the source (on the three layers) or the copy
   of the next planned segment FROM THE DISK OF THE PHYS DATABASE. *)
Definition pbstate := (st1 * stp * stf * list (N * N * option N) * list dseg)%type.

Definition pb_flat (a : pbstate) : bstate :=
  match a with (_, _, sf, todo, done) => (sf, todo, done) end.

Inductive pbstep (P : params) : pbstate -> pbstate -> Prop :=
| pb_write s1 sp sf todo done o : bside sf o ->
    pbstep P (s1, sp, sf, todo, done)
             (fst (bexec phys_ops P o s1), fst (bexec chain_ops P o sp), fst (bexec flat_ops P o sf), todo, done)
| pb_copy s1 sp sf p todo done c : copy_seg (s_disk s1) p = Some c ->
    pbstep P (s1, sp, sf, p :: todo, done) (s1, sp, sf, todo, done ++ [c]).

Inductive pbsteps (P : params) (a : pbstate) : pbstate -> Prop :=
| pbs_refl : pbsteps P a a
| pbs_step b c : pbsteps P a b -> pbstep P b c -> pbsteps P a c.

(* what holds of the three source states all along *)
Definition B3 (P : params) (a : pbstate) : Prop :=
  match a with
  | (s1, sp, sf, _, _) => gst_rel PR s1 sp /\ st_rel sp sf /\ Inv P sf /\ s_mem sf <> None
  end.

Lemma pbstep_flat P a b : params_ok P -> B3 P a -> pbstep P a b -> B3 P b /\ bstep P (pb_flat a) (pb_flat b).
Proof.
  intros HP HB H. destruct H as [s1 sp sf todo done o Hsd|s1 sp sf p todo done c Ec]; cbn [B3 pb_flat] in *.
  - destruct HB as (H1 & Hs & HI & Hm).
    destruct (bexec_three P o s1 sp sf HP H1 Hs HI Hm Hsd) as (_ & _ & A & B & C).
    destruct (wstep_inv P sf _ HP HI Hm C) as [HI' Hm'].
    split; [split; [exact A|split; [exact B|split; [exact HI'|exact Hm']]]|]. apply bs_write. exact C.
  - split; [exact HB|]. destruct HB as (H1 & Hs & _).
    destruct (copy_seg_three _ _ _ p (st_rel_disk PR _ _ H1) (st_rel_disk idx_rel _ _ Hs)) as [A B].
    apply bs_copy. rewrite <- B, <- A. exact Ec.
Qed.

Lemma pbsteps_flat P a b : params_ok P -> B3 P a -> pbsteps P a b -> B3 P b /\ bsteps P (pb_flat a) (pb_flat b).
Proof.
  intros HP HB H. induction H as [|b c _ IH Hst]; [split; [exact HB|constructor]|].
  destruct IH as [HBb Hf]. destruct (pbstep_flat P b c HP HBb Hst) as [HBc Hst'].
  split; [exact HBc|]. econstructor; eassumption.
Qed.

(* The source is not affected.  A step of a schedule is
   - a copy step: the three source states (memory, disk AND trace) are left exactly as they are; or
   - a writer operation: it returns the SAME output on the phys, chain and flat databases, and the
     resulting states are related again: the source behaves as if no backup were running. *)
Theorem pbstep_source P a b : params_ok P -> B3 P a -> pbstep P a b ->
  (fst (fst b) = fst (fst a) /\
   exists p c, copy_seg (s_disk (fst (fst (fst (fst a))))) p = Some c /\
               snd (fst a) = p :: snd (fst b) /\ snd b = snd a ++ [c]) \/
  (snd (fst b) = snd (fst a) /\ snd b = snd a /\
   exists o, bside (snd (fst (fst a))) o /\
     fst (fst b) = (fst (bexec phys_ops P o (fst (fst (fst (fst a))))),
                    fst (bexec chain_ops P o (snd (fst (fst (fst a))))),
                    fst (bexec flat_ops P o (snd (fst (fst a))))) /\
     snd (bexec phys_ops P o (fst (fst (fst (fst a))))) = snd (bexec chain_ops P o (snd (fst (fst (fst a))))) /\
     snd (bexec chain_ops P o (snd (fst (fst (fst a))))) = snd (bexec flat_ops P o (snd (fst (fst a))))).
Proof.
  intros HP HB H. destruct H as [s1 sp sf todo done o Hsd|s1 sp sf p todo done c Ec]; cbn [fst snd B3] in *.
  - right. split; [reflexivity|]. split; [reflexivity|]. exists o. split; [exact Hsd|]. split; [reflexivity|].
    destruct HB as (H1 & Hs & HI & Hm).
    destruct (bexec_three P o s1 sp sf HP H1 Hs HI Hm Hsd) as (A & B & _). split; assumption.
  - left. split; [reflexivity|]. exists p, c. split; [exact Ec|]. split; reflexivity.
Qed.

Lemma abs_of_olog (d1 d2 : diskf) : olog d1 = olog d2 -> abs d1 = abs d2.
Proof. intros E. unfold abs. rewrite E. reflexivity. Qed.

(* opening a backup directory (any list of copies whose flat reading is recoverable and holds the log
   of [sf0]) with the phys index *)
Lemma backup_open_phys P seed (s10 : st1) (sp0 : stp) (sf0 : stf) copies :
  params_ok P -> gst_rel PR s10 sp0 -> st_rel sp0 sf0 -> Inv P sf0 -> s_mem sf0 <> None ->
  DiskOK (@backup_disk flat copies) -> bac_ok (@backup_disk flat copies) ->
  olog (@backup_disk flat copies) = olog (s_disk sf0) ->
  exists s2 sp2 sf2,
     db_open phys_ops P seed (closed1 (backup_disk copies)) = (s2, OOpened true) /\
     db_open chain_ops P seed (closedp (backup_disk copies)) = (sp2, OOpened true) /\
     db_open flat_ops P seed (closed (backup_disk copies)) = (sf2, OOpened true) /\
     gst_rel PR s2 sp2 /\ st_rel sp2 sf2 /\ Inv P sf2 /\ s_mem sf2 <> None /\
     phys_open_ok s2 /\
     answers1 P s2 (abs (s_disk sf0)) /\
     (forall k, sget (abs (s_disk sf2)) k = sget (abs (s_disk sf0)) k) /\
     (forall k, db_get phys_ops P k s2 = db_get phys_ops P k s10) /\
     (forall k, db_has phys_ops P k s2 = db_has phys_ops P k s10) /\
     db_count phys_ops s2 = db_count phys_ops s10.
Proof.
  intros HP H1 Hs HI Hm0 A1 A2 A4.
  destruct (backup_disk_three copies) as [R1 R2].
  destruct (phys_recover_image P seed (backup_disk copies) (backup_disk copies) (backup_disk copies)
              HP R1 R2 A1 A2 eq_refl)
    as (s2 & sp2 & sf2 & O1 & O2 & O3 & G1 & G2 & G3 & _ & G5 & _ & G7 & G8 & _ & G10).
  pose proof (abs_of_olog (@backup_disk flat copies) (s_disk sf0) A4) as Ea. rewrite Ea in G7, G10.
  pose proof (answers1_of_chain P s10 sp0 (abs (s_disk sf0)) H1 (answers_of_rel P sp0 sf0 Hs HI Hm0)) as G0.
  exists s2, sp2, sf2.
  split; [exact O1|]. split; [exact O2|]. split; [exact O3|]. split; [exact G1|]. split; [exact G2|].
  split; [exact G3|]. split; [exact G5|]. split; [exact G8|]. split; [exact G10|].
  split; [exact G7|].
  destruct G10 as (X1 & X2 & X3 & _). destruct G0 as (Y1 & Y2 & Y3 & _).
  split; [intros k; rewrite X1, Y1; reflexivity|]. split; [intros k; rewrite X2, Y2; reflexivity|].
  rewrite X3, Y3. reflexivity.
Qed.

(* C12 on the PHYS database, for EVERY schedule that interleaves the copy steps of the backup with
   Put / Delete / Sync of the source.  [s10] is the phys database at the snapshot instant (the plan is
   taken from ITS memory), [sp0], [sf0] its ghosts; [s1], [sp], [sf] the source after the schedule. *)
Theorem C12_schedule_phys P seed (s10 s1 : st1) (sp0 sp : stp) (sf0 sf : stf) (m10 : mem1) copies :
  params_ok P -> gst_rel PR s10 sp0 -> st_rel sp0 sf0 -> Inv P sf0 -> s_mem s10 = Some m10 ->
  pbsteps P (s10, sp0, sf0, backup_plan m10, []) (s1, sp, sf, [], copies) ->
  let b1 : disk1 := backup_disk copies in
  let bp : diskp := backup_disk copies in
  let bf : diskf := backup_disk copies in
  (* (i) the backup directory produced from the phys disk: related to the directories the chain and flat
         databases produce; it stores no index; it is recoverable and holds the log of the snapshot *)
  gdisk_rel PR b1 bp /\ disk_rel bp bf /\ phys_disk_ok b1 /\
  DiskOK bf /\ bac_ok bf /\ d_lock bf = true /\ olog bf = olog (s_disk sf0) /\
  (* (ii) opening it with the phys index: recovery; the rebuilt physical index satisfies PhysInv; the
          contents are exactly those of the snapshot instant *)
  (exists s2 sp2 sf2,
     db_open phys_ops P seed (closed1 b1) = (s2, OOpened true) /\
     db_open chain_ops P seed (closedp bp) = (sp2, OOpened true) /\
     db_open flat_ops P seed (closed bf) = (sf2, OOpened true) /\
     gst_rel PR s2 sp2 /\ st_rel sp2 sf2 /\ Inv P sf2 /\ s_mem sf2 <> None /\
     phys_open_ok s2 /\
     answers1 P s2 (abs (s_disk sf0)) /\
     (forall k, sget (abs (s_disk sf2)) k = sget (abs (s_disk sf0)) k) /\
     (forall k, db_get phys_ops P k s2 = db_get phys_ops P k s10) /\
     (forall k, db_has phys_ops P k s2 = db_has phys_ops P k s10) /\
     db_count phys_ops s2 = db_count phys_ops s10) /\
  (* (iii) the source: still a good open database, related to its ghosts, reached by the writers' steps *)
  gst_rel PR s1 sp /\ st_rel sp sf /\ Inv P sf /\ s_mem sf <> None /\ wsteps P sf0 sf /\ phys_open_ok s1.
Proof.
  intros HP H1 Hs HI Em1 Hrun. cbv zeta.
  destruct (st_rel_mem_cases PR _ _ H1) as [[E _]|(m1' & mp & E1 & Ep & Hm1)]; [congruence|].
  assert (m1' = m10) by congruence. subst m1'.
  destruct (st_rel_mem_cases idx_rel _ _ Hs) as [[E _]|(mp' & mf & Ep' & Ef & Hmp)]; [congruence|].
  assert (mp' = mp) by congruence. subst mp'.
  destruct (backup_plan_three m10 mp mf Hm1 Hmp) as [Q1 Q2].
  assert (Hm0 : s_mem sf0 <> None) by congruence.
  assert (HB0 : B3 P (s10, sp0, sf0, backup_plan m10, [])) by (cbn [B3]; auto).
  destruct (pbsteps_flat P _ _ HP HB0 Hrun) as [HB Hfl].
  cbn [pb_flat B3] in HB, Hfl. rewrite Q1, Q2 in Hfl.
  destruct (C12_schedule P seed sf0 sf mf copies HP HI Ef Hfl) as (A1 & A2 & A3 & A4 & A5 & A6 & A7 & A8).
  cbv zeta in A1, A2, A3, A4, A5.
  destruct (backup_disk_three copies) as [R1 R2].
  split; [exact R1|]. split; [exact R2|]. split; [exact (PR_disk_ok _ _ R1)|].
  split; [exact A1|]. split; [exact A2|]. split; [exact A3|]. split; [exact A4|].
  destruct HB as (H1' & Hs' & HI' & Hm').
  split; [|split; [exact H1'|split; [exact Hs'|split; [exact HI'|split; [exact Hm'|split; [exact A6|]]]]];
           exact (PR_open_ok s1 sp sf H1' Hs' Hm')].
  exact (backup_open_phys P seed s10 sp0 sf0 copies HP H1 Hs HI Hm0 A1 A2 A4).
Qed.

(* ---- Backup of a phys database nobody else touches: [db_backup] itself ---- *)
Lemma backup_go_of_Forall2 {I} (d : @DB.disk I) pl copies :
  Forall2 (fun p c => copy_seg d p = Some c) pl copies -> backup_go d pl = Some copies.
Proof.
  intros H. induction H as [|p c pl copies Ec _ IH]; [reflexivity|].
  rewrite backup_go_cons, Ec, IH. reflexivity.
Qed.

Lemma pbsteps_trans P a b c : pbsteps P a b -> pbsteps P b c -> pbsteps P a c.
Proof. intros H1 H2. induction H2 as [|c d _ IH Hst]; [exact H1|]. econstructor; eassumption. Qed.

(* copying the next planned segments, all from the current disk, is a schedule *)
Lemma pb_copy_some P (s1 : st1) (sp : stp) (sf : stf) rest : forall pre done cs,
  backup_go (s_disk s1) pre = Some cs ->
  pbsteps P (s1, sp, sf, pre ++ rest, done) (s1, sp, sf, rest, done ++ cs).
Proof.
  induction pre as [|p pre IH]; intros done cs E.
  - cbn in E. injection E as <-. rewrite app_nil_r. constructor.
  - rewrite backup_go_cons in E. destruct (copy_seg (s_disk s1) p) as [c|] eqn:Ec; [|discriminate E].
    destruct (backup_go (s_disk s1) pre) as [r|] eqn:Er; [|discriminate E]. injection E as <-.
    apply (pbsteps_trans P _ (s1, sp, sf, pre ++ rest, done ++ [c])).
    + econstructor; [constructor|]. cbn [app]. apply pb_copy. exact Ec.
    + specialize (IH (done ++ [c]) r eq_refl). rewrite <- app_assoc in IH. exact IH.
Qed.

Theorem backup_quiescent_phys P seed (s10 : st1) (sp0 : stp) (sf0 : stf) :
  params_ok P -> gst_rel PR s10 sp0 -> st_rel sp0 sf0 -> Inv P sf0 -> s_mem sf0 <> None ->
  exists copies,
    db_backup s10 = Some (backup_disk copies) /\ db_backup sp0 = Some (backup_disk copies) /\
    db_backup sf0 = Some (backup_disk copies) /\
    phys_disk_ok (backup_disk copies) /\
    exists s2 sp2 sf2,
     db_open phys_ops P seed (closed1 (backup_disk copies)) = (s2, OOpened true) /\
     db_open chain_ops P seed (closedp (backup_disk copies)) = (sp2, OOpened true) /\
     db_open flat_ops P seed (closed (backup_disk copies)) = (sf2, OOpened true) /\
     gst_rel PR s2 sp2 /\ st_rel sp2 sf2 /\ Inv P sf2 /\ s_mem sf2 <> None /\
     phys_open_ok s2 /\
     answers1 P s2 (abs (s_disk sf0)) /\
     (forall k, sget (abs (s_disk sf2)) k = sget (abs (s_disk sf0)) k) /\
     (forall k, db_get phys_ops P k s2 = db_get phys_ops P k s10) /\
     (forall k, db_has phys_ops P k s2 = db_has phys_ops P k s10) /\
     db_count phys_ops s2 = db_count phys_ops s10.
Proof.
  intros HP H1 Hs HI Hm0.
  destruct (st_rel_mem_cases idx_rel _ _ Hs) as [[_ E]|(mp & mf & Ep & Ef & Hmp)]; [congruence|].
  destruct (st_rel_mem_cases PR _ _ H1) as [[_ E]|(m1 & mp' & E1 & Ep' & Hm1)]; [congruence|].
  assert (mp' = mp) by congruence. subst mp'.
  destruct (backup_quiescent P seed sf0 mf HP HI Ef) as (copies & Eb & HF & A1 & A2 & _ & A4 & _).
  cbv zeta in A1, A2, A4.
  pose proof (backup_go_of_Forall2 _ _ _ HF) as Eg.
  destruct (backup_plan_three m1 mp mf Hm1 Hmp) as [Q1 Q2].
  exists copies.
  split.
  { rewrite db_backup_go, E1, Q1, Q2.
    rewrite (backup_go_x PR _ _ (backup_plan mf) (st_rel_disk PR _ _ H1)).
    rewrite (backup_go_x idx_rel _ _ (backup_plan mf) (st_rel_disk idx_rel _ _ Hs)), Eg. reflexivity. }
  split.
  { rewrite db_backup_go, Ep, Q2.
    rewrite (backup_go_x idx_rel _ _ (backup_plan mf) (st_rel_disk idx_rel _ _ Hs)), Eg. reflexivity. }
  split; [exact Eb|].
  split; [exact (PR_disk_ok _ _ (proj1 (backup_disk_three copies)))|].
  exact (backup_open_phys P seed s10 sp0 sf0 copies HP H1 Hs HI Hm0 A1 A2 A4).
Qed.

(* ================================================================================================ *)
(** * 3. Non-vacuity (vm_compute), on the states of PhysCrash.PhysCrashEx: 35 colliding keys, 31 slots in
      the main bucket and 4 in an overflow bucket of overflow.pix *)
Module PhysIBEx.
Import SessEx PhysCrashEx.

Lemma X_hyps :
  gst_rel PR s1X spX /\ st_rel spX sfX /\ Inv exP sfX /\ s_mem sfX <> None /\ roomy sfX.
Proof.
  destruct X_rel1 as (H1 & Hs & _). destruct put_hyps as (HI & Hroom & _).
  split; [exact H1|]. split; [exact Hs|]. split; [exact HI|]. split; [|exact Hroom].
  destruct Hroom as (m & E & _). congruence.
Qed.

(* (a) a scan of the phys database: all 35 keys, each once, then "done" for ever *)
Example ex_scan_phys :
  exists l itf,
    scan phys_ops 36 s1X dbiter0 = (l, itf) /\ length l = 35%nat /\ NoDup (map fst l) /\
    Permutation l (abs (s_disk sfX)) /\
    (forall k v, In (k, v) l <-> sget (abs (s_disk sfX)) k = Some v) /\
    dbiter_step phys_ops s1X itf = Some (itf, None) /\
    outs phys_ops 37 s1X dbiter0 = map Some l ++ [None; None] /\
    db_items phys_ops s1X = OItems l /\
    map fst l = map (fun i => [N.of_nat i]) (seq 1 35).
Proof.
  destruct X_hyps as (H1 & Hs & HI & Ho & _).
  assert (Hlen : length (abs (s_disk sfX)) = 35%nat) by (vm_compute; reflexivity).
  assert (Hf : (length (abs (s_disk sfX)) < 36)%nat) by (rewrite Hlen; lia).
  destruct (C11_quiescent_scan_phys exP s1X spX sfX 36 H1 Hs HI Ho Hf) as (l & itf & A & B & C & D & E & F & G & _).
  assert (Hl : length l = 35%nat) by (rewrite (Permutation_length B); exact Hlen).
  exists l, itf. split; [exact A|]. split; [exact Hl|]. split; [exact C|]. split; [exact B|].
  split; [exact D|]. split; [exact E|]. split; [|split; [exact G|]].
  - specialize (F 2%nat). rewrite Hl in F. exact F.
  - assert (El : l = fst (scan phys_ops 36 s1X dbiter0)) by (rewrite A; reflexivity).
    rewrite El. vm_compute. reflexivity.
Qed.

(* (b) a backup of the phys database with a Put in the middle.  The log has six segments; the last one
   is not full (captured size 577).  Schedule: copy segments 0 and 1; Put kX (its record is appended to
   segment 5, AFTER the snapshot); copy segments 2..5 (segment 5 with CopyN 577). *)
Definition planX : list (N * N * option N) :=
  Eval vm_compute in match s_mem s1X with Some m => backup_plan m | None => [] end.

Definition srcP1 : st1 := fst (bexec phys_ops exP (BPut kX vX) s1X).
Definition srcPp : stp := fst (bexec chain_ops exP (BPut kX vX) spX).
Definition srcPf : stf := fst (bexec flat_ops exP (BPut kX vX) sfX).

Definition og (o : option (list dseg)) : list dseg := match o with Some l => l | None => [] end.
Definition copiesA : list dseg := Eval vm_compute in og (backup_go (s_disk s1X) (firstn 2 planX)).
Definition copiesB : list dseg := Eval vm_compute in og (backup_go (s_disk srcP1) (skipn 2 planX)).
Definition copiesX : list dseg := Eval vm_compute in copiesA ++ copiesB.

Example planX_shape :
  planX = [(0, 1, None); (1, 2, None); (2, 3, None); (3, 4, None); (4, 5, None); (5, 6, Some 577)].
Proof. reflexivity. Qed.

Lemma ex_schedule : pbsteps exP (s1X, spX, sfX, planX, []) (srcP1, srcPp, srcPf, [], copiesX).
Proof.
  assert (EA : backup_go (s_disk s1X) (firstn 2 planX) = Some copiesA) by (vm_compute; reflexivity).
  assert (EB : backup_go (s_disk srcP1) (skipn 2 planX) = Some copiesB) by (vm_compute; reflexivity).
  assert (Hsd : bside sfX (BPut kX vX)).
  { destruct put_hyps as (_ & Hroom & _ & Hbk & Hbv & _). cbn [bside]. split; [exact Hbk|]. split; [exact Hbv|exact Hroom]. }
  pose proof (pb_copy_some exP s1X spX sfX (skipn 2 planX) (firstn 2 planX) [] copiesA EA) as S1.
  pose proof (pb_write exP s1X spX sfX (skipn 2 planX) ([] ++ copiesA) (BPut kX vX) Hsd) as S2.
  pose proof (pb_copy_some exP srcP1 srcPp srcPf [] (skipn 2 planX) ([] ++ copiesA) copiesB EB) as S3.
  rewrite app_nil_r in S3.
  apply (pbsteps_trans exP _ _ _ (pbs_step exP _ _ _ S1 S2)). exact S3.
Qed.

Example ex_backup_phys :
  pbsteps exP (s1X, spX, sfX, planX, []) (srcP1, srcPp, srcPf, [], copiesX) /\
  (* the source has the new key ... *)
  db_count phys_ops s1X = ONum 35 /\ db_count phys_ops srcP1 = ONum 36 /\
  db_get phys_ops exP kX srcP1 = OVal (Some vX) /\ phys_open_ok srcP1 /\
  (* ... its record is in the file the backup copied last, but not in the copy *)
  map (fun f => length (f_recs f)) (d_segs (s_disk srcP1)) = [6; 6; 6; 6; 6; 6]%nat /\
  map (fun f => length (f_recs f)) copiesX = [6; 6; 6; 6; 6; 5]%nat /\
  phys_disk_ok (backup_disk copiesX) /\
  exists s2, db_open phys_ops exP 9 (closed1 (backup_disk copiesX)) = (s2, OOpened true) /\
    phys_open_ok s2 /\ answers1 exP s2 (abs (s_disk sfX)) /\
    (forall k, db_get phys_ops exP k s2 = db_get phys_ops exP k s1X) /\
    db_count phys_ops s2 = ONum 35 /\ db_get phys_ops exP kX s2 = OVal None /\
    db_get phys_ops exP [35] s2 = OVal (Some [35; 35]) /\
    (* the index rebuilt in the opened backup uses an overflow bucket again *)
    (exists m, s_mem s2 = Some m /\ ph_nkeys (m_idx m) = 35 /\ map pb_next (ph_main (m_idx m)) = [512] /\
               map (fun b => nlen (pb_live b)) (ph_over (m_idx m)) = [4]).
Proof.
  destruct X_hyps as (H1 & Hs & HI & Ho & _).
  assert (Em : exists m, s_mem s1X = Some m /\ backup_plan m = planX) by (eexists; split; reflexivity).
  destruct Em as (m & Em & Epl).
  pose proof ex_schedule as Hrun.
  split; [exact Hrun|].
  rewrite <- Epl in Hrun.
  destruct (C12_schedule_phys exP 9 s1X srcP1 spX srcPp sfX srcPf m copiesX exP_ok H1 Hs HI Em Hrun)
    as (_ & _ & D3 & _ & _ & _ & _ & (s2 & sp2 & sf2 & O1 & _ & _ & _ & _ & _ & _ & G1 & G2 & _ & G3 & _ & _) & _ & _ & _ & _ & _ & S6).
  cbv zeta in D3.
  split; [vm_compute; reflexivity|]. split; [vm_compute; reflexivity|]. split; [vm_compute; reflexivity|].
  split; [exact S6|]. split; [vm_compute; reflexivity|]. split; [vm_compute; reflexivity|].
  split; [exact D3|].
  exists s2. split; [exact O1|]. split; [exact G1|]. split; [exact G2|]. split; [exact G3|].
  assert (E3 : s2 = fst (db_open phys_ops exP 9 (closed1 (backup_disk copiesX)))) by (rewrite O1; reflexivity).
  rewrite E3.
  split; [vm_compute; reflexivity|]. split; [vm_compute; reflexivity|]. split; [vm_compute; reflexivity|].
  eexists. split; [vm_compute; reflexivity|]. vm_compute. repeat split.
Qed.
(* (c) the hypotheses of the concurrent theorems are satisfiable on this state: Next; Put kX; Next on
   the phys database is a [pscan] run; the theorems apply to it and to every continuation of it *)
Lemma X_ok : ok exP spX sfX FrozenEx.fz_c0.
Proof.
  destruct X_hyps as (_ & Hs & HI & _ & _).
  split; [exact Hs|]. split; [exact HI|].
  assert (Em : exists m, s_mem sfX = Some m) by (eexists; reflexivity). destruct Em as [m Em].
  exists m. split; [exact Em|]. split; [intros x []|]. split; [constructor|]. split; [exact Logic.I|].
  intros x [].
Qed.

Lemma X_put_step :
  pw_step exP (WPut kX vX) s1X spX sfX FrozenEx.fz_c0
    (fst (db_put phys_ops exP kX vX s1X)) (fst (db_put chain_ops exP kX vX spX))
    (fst (db_put flat_ops exP kX vX sfX)) FrozenEx.fz_c0.
Proof.
  destruct put_hyps as (_ & Hroom & _ & Hbk & Hbv & Hk & Hv).
  assert (Hsd : wside sfX (WPut kX vX)).
  { cbn [wside]. split; [exact Hroom|]. split; [exact Hbk|]. split; [exact Hbv|]. split; [exact Hk|exact Hv]. }
  eapply (pw_intro exP (WPut kX vX) s1X spX sfX FrozenEx.fz_c0 _ _ _ _ _ _ _ Hsd); cbn [wexec]; reflexivity.
Qed.

Example ex_pscan_phys :
  exists it h hn,
    pscan exP (fst (db_put phys_ops exP kX vX s1X)) (fst (db_put chain_ops exP kX vX spX))
          (fst (db_put flat_ops exP kX vX sfX)) FrozenEx.fz_c0 it [([1], [1; 1]); ([2], [2; 2])] h hn
          [WLput kX vX] /\
    length (it_queue it) = 33%nat /\ it_next it = 1.
Proof.
  destruct X_hyps as (H1 & _).
  pose proof (ps_start exP s1X spX sfX FrozenEx.fz_c0 H1 X_ok) as R0.
  eassert (E0 : dbiter_step phys_ops s1X dbiter0 = Some (_, _)) by (vm_compute; reflexivity).
  pose proof (ps_next exP _ _ _ _ _ _ _ _ _ _ _ R0 E0) as R1. clear E0.
  pose proof (ps_write exP _ _ _ _ _ _ _ _ _ _ _ _ _ _ R1 X_put_step) as R2.
  match type of R2 with
  | pscan _ ?s1 _ _ _ ?it _ _ _ _ =>
      eassert (E2 : dbiter_step phys_ops s1 it = Some (_, _)) by (vm_compute; reflexivity)
  end.
  pose proof (ps_next exP _ _ _ _ _ _ _ _ _ _ _ R2 E2) as R3. clear E2.
  eexists _, _, _. split; [exact R3|]. split; reflexivity.
Qed.

(* whatever Next calls and writer steps that do not name key [35] follow: when Next says "done", key [35]
   (it lives in the overflow bucket) has been returned with its value; and every pair returned so far
   was in the database at the instant of one of the Next calls *)
Example ex_pscan_complete s1 sp sf c it ret h hn ws it' :
  pscan exP s1 sp sf c it ret h hn ws -> dbiter_step phys_ops s1 it = Some (it', None) ->
  sget (abs (s_disk sf)) [35] = Some [35; 35] -> (forall lab, In lab ws -> ~ wl_touches lab [35]) ->
  In ([35], [35; 35]) ret /\
  (forall k v, In (k, v) ret -> exists sf_t, In sf_t hn /\ In sf_t h /\ sget (abs (s_disk sf_t)) k = Some v).
Proof.
  intros R E Hg Hun. split.
  - exact (C11_complete_untouched_phys exP exP_ok s1 sp sf c it ret h hn ws it' [35] [35; 35] R E Hg Hun).
  - intros k v Hin. exact (C11_truthful_phys exP exP_ok s1 sp sf c it ret h hn ws k v R Hin).
Qed.
(* (d) an executable interleaving (1.2), computed on the phys and on the chain database: Next; Put kX;
   Next; Sync; a compaction step while no compaction is in progress (not enabled: RStuck); the pick that
   starts a compaction (the sealed segments qualify); one step of it; Delete of key [3] (still queued:
   the stale pair is returned by the next call, as C11 allows); Next *)
Definition actsX : list iact :=
  [ANext; AWrite (WPut kX vX); ANext; AWrite WSync; AWrite WCompact; AWrite WPick; AWrite WCompact;
   AWrite (WDel [3]); ANext].

Example ex_irun :
  fst (irun phys_ops exP actsX s1X FrozenEx.fz_c0 dbiter0) =
    [RNext (Some ([1], [1; 1])); RWrite OOk; RNext (Some ([2], [2; 2])); RWrite OOk; RStuck; RWrite OOk;
     RWrite OOk; RWrite OOk; RNext (Some ([3], [3; 3]))] /\
  fst (irun phys_ops exP actsX s1X FrozenEx.fz_c0 dbiter0) = fst (irun chain_ops exP actsX spX FrozenEx.fz_c0 dbiter0) /\
  db_count phys_ops (fst (fst (snd (irun phys_ops exP actsX s1X FrozenEx.fz_c0 dbiter0)))) = ONum 35.
Proof. split; [vm_compute; reflexivity|]. split; vm_compute; reflexivity. Qed.
End PhysIBEx.

(* ================================================================================================ *)
Print Assumptions phys_iter_step.
Print Assumptions phys_scan_eq.
Print Assumptions phys_outs_eq.
Print Assumptions C11_quiescent_scan_phys.
Print Assumptions wexec_phys.
Print Assumptions phys_iter_interleaved.
Print Assumptions phys_iter_interleaved_flat.
Print Assumptions pw_wr_step.
Print Assumptions pw_step_of_phys.
Print Assumptions pscan_cscan.
Print Assumptions pscan_phys_ok.
Print Assumptions C11_truthful_at_return_phys.
Print Assumptions C11_truthful_phys.
Print Assumptions C11_complete_phys.
Print Assumptions C11_complete_untouched_phys.
Print Assumptions C11_next_total_phys.
Print Assumptions bexec_three.
Print Assumptions pbsteps_flat.
Print Assumptions pbstep_source.
Print Assumptions backup_open_phys.
Print Assumptions C12_schedule_phys.
Print Assumptions backup_quiescent_phys.
Print Assumptions PhysIBEx.ex_scan_phys.
Print Assumptions PhysIBEx.ex_schedule.
Print Assumptions PhysIBEx.ex_backup_phys.
Print Assumptions PhysIBEx.ex_pscan_phys.
Print Assumptions PhysIBEx.ex_pscan_complete.
Print Assumptions PhysIBEx.ex_irun.
